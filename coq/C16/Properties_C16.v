(* C16: PMF integration solves the stated discrete problem; incremental divergence = batch.
   Statements only; proofs in IntegrateProofs.v (any numeric carrier), IntegrateRProofs.v (reals, 1-D) and
   LaplaceProofs.v (reals: Laplacian, solvability, conjugate gradient, Poisson statement). *)
From Coq Require Import ZArith List Bool Reals Lia Lra.
From CV Require Import Base.Num Base.RNum C16.IntegrateModel C16.IntegrateProofs C16.IntegrateRProofs C16.LaplaceProofs C16.LoopsProofs.
Import ListNotations.

(* ---------------------------------------------------------------------------------------------
   One dimension.  ghat sc sm gd gc j is the value of bin j that integrate() reads
   (value_output_smoothed: accumulated sum times 1/count, or times the smoothing ramp). *)

(* The PMF array has one point per gradient bin (+1 if not periodic) and entry i is exactly the
   cumulative sum over the bins before i of (bin value - corr) * width, corr = average() if periodic. *)
Theorem C16_1d_cumsum : forall (sc : smooth_cfg) (per sm : bool) (w : R) (gd : list R) (gc : list Z),
  let corr := if per then average1 Rops sc sm gd gc else 0%R in
  let pmf := integrate1 Rops sc per sm w gd gc in
  length pmf = (if per then length gd else S (length gd)) /\
  forall i, (i < length pmf)%nat -> nth i pmf 0%R = psum (fun j => ((ghat sc sm gd gc j - corr) * w)%R) i.
Proof. exact integrate1_spec. Qed.
Print Assumptions C16_1d_cumsum.

(* the unsmoothed bin value is the bin average: accumulated sum / count (0 for an empty bin) ... *)
Theorem C16_1d_bin_average : forall (sc : smooth_cfg) (gd : list R) (gc : list Z) (j : nat),
  s_has_samples sc = true -> (j < length gd)%nat -> length gc = length gd ->
  ghat sc false gd gc j = if (0 <? nth j gc 0%Z)%Z then (nth j gd 0 / IZR (nth j gc 0%Z))%R else 0%R.
Proof. exact bin_average. Qed.
Print Assumptions C16_1d_bin_average.

(* ... the smoothed one is the bin average times the ramp (count-min)/(full-min), 0 up to minSamples *)
Theorem C16_1d_smoothed_value : forall (sc : smooth_cfg) (gd : list R) (gc : list Z) (j : nat),
  s_has_samples sc = true -> (j < length gd)%nat -> length gc = length gd ->
  let c := nth j gc 0%Z in
  ghat sc true gd gc j =
    if Z_le_dec c (s_min sc) then 0%R
    else if Z_lt_dec c (s_full sc)
         then (IZR (c - s_min sc) / IZR (s_full sc - s_min sc) * (nth j gd 0 / IZR c))%R
         else (nth j gd 0 / IZR c)%R.
Proof. exact smoothed_value. Qed.
Print Assumptions C16_1d_smoothed_value.

(* ... and the periodic correction is the mean of the bin values that are integrated (smoothed or not) *)
Theorem C16_1d_correction_is_mean : forall (sc : smooth_cfg) (sm : bool) (gd : list R) (gc : list Z), gd <> [] ->
  average1 Rops sc sm gd gc = (psum (ghat sc sm gd gc) (length gd) / INR (length gd))%R.
Proof. exact average1_is_mean. Qed.
Print Assumptions C16_1d_correction_is_mean.

(* The surface of a periodic variable is periodic: continuing the sum over the last bin returns to
   pmf[0] = 0, for smoothed and unsmoothed gradients.
   (History: on the pinned tree integrate() subtracted gradients->average(), the mean of the UNsmoothed
   averages, from value_output_smoothed(ix, b_smoothed); the theorem was refuted by the witness
   minSamples 0, fullSamples 2, sums (1, 0), counts (1, 2), b_smoothed = true, which ended at -1/2.
   Repaired by "fix: 1-D PMF of a periodic variable was not periodic with smoothed gradients"; the check
   replays the witness on every run.) *)
Theorem C16_1d_periodic_closes : forall (sc : smooth_cfg) (sm : bool) (w : R) (gd : list R) (gc : list Z),
  gd <> [] -> closing1 Rops sc true sm w gd gc = 0%R.
Proof. exact periodic_closes. Qed.
Print Assumptions C16_1d_periodic_closes.

(* write_1D_integral (the .ti.pmf column of a restraint with writeTIPMF): n+1 values; entry i is the
   cumulative sum over the bins before i of (bin value - corr) * width, shifted by its minimum m *)
Theorem C16_1d_ti_integral : forall (sc : smooth_cfg) (per : bool) (w : R) (gd : list R) (gc : list Z),
  let out := ti_integral1 Rops sc per w gd gc in
  length out = S (length gd) /\
  exists m, (forall i, (i <= length gd)%nat -> nth i out 0%R = (tsum sc per w gd gc i - m)%R) /\
            (forall i, (i <= length gd)%nat -> (m <= tsum sc per w gd gc i)%R) /\
            (exists k, (k <= length gd)%nat /\ m = tsum sc per w gd gc k).
Proof. exact ti_integral1_spec. Qed.
Print Assumptions C16_1d_ti_integral.

(* its bin value is the (unsmoothed) bin average *)
Theorem C16_1d_ti_bin_value : forall (sc : smooth_cfg) (gd : list R) (gc : list Z) (j : nat),
  Forall (fun c => 0 <= c)%Z gc -> (j < length gd)%nat -> tval sc gd gc j = ghat sc false gd gc j.
Proof. intros sc gd. exact (tval_ghat sc gd). Qed.
Print Assumptions C16_1d_ti_bin_value.

(* and for a periodic variable the column ends where it starts.
   (History: on the pinned tree an empty bin added nothing, not even the correction, so that the column of a
   periodic variable with an unvisited bin did not close: sums (2, 0), counts (1, 0), width 1 gave
   (0, 1, 1).  Repaired by "fix: TI PMF of a periodic variable was not periodic when a bin has no samples".) *)
Theorem C16_1d_ti_periodic_closes : forall (sc : smooth_cfg) (w : R) (gd : list R) (gc : list Z),
  gd <> [] -> Forall (fun c => 0 <= c)%Z gc ->
  let out := ti_integral1 Rops sc true w gd gc in nth (length gd) out 0%R = nth 0 out 0%R.
Proof. exact ti_periodic_last_eq_first. Qed.
Print Assumptions C16_1d_ti_periodic_closes.

Theorem C16_1d_ti_minimum_is_zero : forall (sc : smooth_cfg) (per : bool) (w : R) (gd : list R) (gc : list Z),
  let out := ti_integral1 Rops sc per w gd gc in
  (forall i, (i <= length gd)%nat -> (0 <= nth i out 0)%R) /\ (exists k, (k <= length gd)%nat /\ nth k out 0%R = 0%R).
Proof. exact ti_minimum_is_zero. Qed.
Print Assumptions C16_1d_ti_minimum_is_zero.

(* ---------------------------------------------------------------------------------------------
   Two and three dimensions: incremental divergence = batch divergence.
   run2/run3 fold "acc_force; update_div_neighbors" over a history of (bin, force) arrivals;
   set_div2/set_div3 recompute every entry from the gradient data; dump2/dump3 list the divergence
   array in storage order.  The statements hold for EVERY numeric carrier T (reals and floats alike),
   every grid shape with at least one bin per dimension, every periodicity pattern, smoothed or not,
   every history (any order, any multiplicity) of in-range bins. *)
Theorem C16_incremental_eq_batch_2d : forall (T : Type) (O : NumOps T) (sc : smooth_cfg) (sm : bool) (sh : shape2 (T:=T))
    (st0 : state2 (T:=T)) (pre h : list ((Z * Z) * (T * T))),
  (0 < nxg sh)%Z -> (0 < nyg sh)%Z -> Forall (fun e => in_grad2 sh (fst e)) h ->
  let st1 := set_div2 O sc sm sh (preload2 O st0 pre) in
  dump2 sh (dv2 (run2 O sc sm sh st1 h)) = dump2 sh (dv2 (set_div2 O sc sm sh (run2 O sc sm sh st1 h))).
Proof. intros T O sc sm sh st0 pre h. exact (incremental_eq_batch2_after_set_div O sc sm sh st0 pre h). Qed.
Print Assumptions C16_incremental_eq_batch_2d.

Theorem C16_incremental_eq_batch_3d : forall (T : Type) (O : NumOps T) (sc : smooth_cfg) (sm : bool) (sh : shape3 (T:=T))
    (st0 : state3 (T:=T)) (pre h : list ((Z * Z * Z) * (T * T * T))),
  (0 < mxg sh)%Z -> (0 < myg sh)%Z -> (0 < mzg sh)%Z -> Forall (fun e => in_grad3 sh (fst e)) h ->
  let st1 := set_div3 O sc sm sh (preload3 O st0 pre) in
  dump3 sh (dv3 (run3 O sc sm sh st1 h)) = dump3 sh (dv3 (set_div3 O sc sm sh (run3 O sc sm sh st1 h))).
Proof. intros T O sc sm sh st0 pre h. exact (incremental_eq_batch3_after_set_div O sc sm sh st0 pre h). Qed.
Print Assumptions C16_incremental_eq_batch_3d.

(* from the empty grids a new ABF bias starts with (zero gradients, zero counts, zero divergence), over the reals *)
Theorem C16_incremental_eq_batch_2d_from_empty : forall (sc : smooth_cfg) (sm : bool) (sh : shape2 (T:=R))
    (h : list ((Z * Z) * (R * R))),
  (0 < nxg sh)%Z -> (0 < nyg sh)%Z -> Forall (fun e => in_grad2 sh (fst e)) h ->
  dump2 sh (dv2 (run2 Rops sc sm sh (init2 Rops) h)) =
  dump2 sh (dv2 (set_div2 Rops sc sm sh (run2 Rops sc sm sh (init2 Rops) h))).
Proof. intros sc sm sh h Hx Hy Hh. apply incremental_eq_batch2; auto. apply init2_consistent. Qed.
Print Assumptions C16_incremental_eq_batch_2d_from_empty.

Theorem C16_incremental_eq_batch_3d_from_empty : forall (sc : smooth_cfg) (sm : bool) (sh : shape3 (T:=R))
    (h : list ((Z * Z * Z) * (R * R * R))),
  (0 < mxg sh)%Z -> (0 < myg sh)%Z -> (0 < mzg sh)%Z -> Forall (fun e => in_grad3 sh (fst e)) h ->
  dump3 sh (dv3 (run3 Rops sc sm sh (init3 Rops) h)) =
  dump3 sh (dv3 (set_div3 Rops sc sm sh (run3 Rops sc sm sh (init3 Rops) h))).
Proof. intros sc sm sh h Hx Hy Hz Hh. apply incremental_eq_batch3; auto. apply init3_consistent. Qed.
Print Assumptions C16_incremental_eq_batch_3d_from_empty.

(* The call site in colvarbias_abf::update(): each step has a bin; the delivered total force belongs to force_bin
   (= bin with same-step forces, = the previous step's bin with lagged forces, as in NAMD); when a sample is taken
   (not the first step unless same-step; force_bin inside the grid) the code does
   acc_force(force_bin, f); update_div_neighbors(force_bin).  For EVERY history of (bin, force) steps, both force-timing
   conventions, bins inside or outside the grid, any carrier: incremental divergence = batch divergence. *)
Theorem C16_abf_site_incremental_eq_batch_2d : forall (T : Type) (O : NumOps T) (sc : smooth_cfg) (sm : bool) (sh : shape2 (T:=T))
    (same : bool) (st0 : state2 (T:=T)) (pre l : list ((Z * Z) * (T * T))),
  (0 < nxg sh)%Z -> (0 < nyg sh)%Z ->
  let st := abf_run2 O sc sm true sh same (set_div2 O sc sm sh (preload2 O st0 pre)) l in
  dump2 sh (dv2 st) = dump2 sh (dv2 (set_div2 O sc sm sh st)).
Proof. intros T O sc sm sh same st0 pre l. exact (abf_site_incremental_eq_batch2 O sc sm sh same st0 pre l). Qed.
Print Assumptions C16_abf_site_incremental_eq_batch_2d.

Theorem C16_abf_site_incremental_eq_batch_3d : forall (T : Type) (O : NumOps T) (sc : smooth_cfg) (sm : bool) (sh : shape3 (T:=T))
    (same : bool) (st0 : state3 (T:=T)) (pre l : list ((Z * Z * Z) * (T * T * T))),
  (0 < mxg sh)%Z -> (0 < myg sh)%Z -> (0 < mzg sh)%Z ->
  let st := abf_run3 O sc sm true sh same (set_div3 O sc sm sh (preload3 O st0 pre)) l in
  dump3 sh (dv3 st) = dump3 sh (dv3 (set_div3 O sc sm sh st)).
Proof. intros T O sc sm sh same st0 pre l. exact (abf_site_incremental_eq_batch3 O sc sm sh same st0 pre l). Qed.
Print Assumptions C16_abf_site_incremental_eq_batch_3d.

(* smoothed gradients inside the divergence: the gradient that every stencil reads from a bin is the accumulated sum
   times out_fact(count) (C16_1d_smoothed_value gives the ramp); in particular a bin at or below minSamples reads as zero
   whatever its neighbours hold, so that under-sampled bins next to well-sampled ones do not leak noise *)
Theorem C16_smoothed_gradient_below_min_is_zero_2d : forall (sc : smooth_cfg) (sh : shape2 (T:=R)) (st : state2 (T:=R)) (ix : Z * Z),
  s_has_samples sc = true -> (gcnt2 st (snd (wde2 sh ix)) <= s_min sc)%Z -> gval2 Rops sc true sh st ix = (0%R, 0%R).
Proof. exact gval2_below_min. Qed.
Print Assumptions C16_smoothed_gradient_below_min_is_zero_2d.

Theorem C16_smoothed_gradient_below_min_is_zero_3d : forall (sc : smooth_cfg) (sh : shape3 (T:=R)) (st : state3 (T:=R)) (ix : Z * Z * Z),
  s_has_samples sc = true -> (gcnt3 st (snd (wde3 sh ix)) <= s_min sc)%Z -> gval3 Rops sc true sh st ix = (0%R, 0%R, 0%R).
Proof. exact gval3_below_min. Qed.
Print Assumptions C16_smoothed_gradient_below_min_is_zero_3d.

(* what "batch" means: set_div stores at every PMF point the divergence of the current gradient data *)
Theorem C16_set_div_is_divergence_2d : forall (T : Type) (O : NumOps T) (sc : smooth_cfg) (sm : bool) (sh : shape2 (T:=T))
    (st : state2 (T:=T)) (p : Z * Z),
  (0 < nxg sh)%Z -> (0 < nyg sh)%Z -> in_pmf2 sh p ->
  dv2 (set_div2 O sc sm sh st) p = div_value2 O sc sm sh st p.
Proof. intros T O sc sm sh st p Hx Hy. exact (set_div2_spec O sc sm sh Hx Hy st p). Qed.
Print Assumptions C16_set_div_is_divergence_2d.

Theorem C16_set_div_is_divergence_3d : forall (T : Type) (O : NumOps T) (sc : smooth_cfg) (sm : bool) (sh : shape3 (T:=T))
    (st : state3 (T:=T)) (p : Z * Z * Z),
  (0 < mxg sh)%Z -> (0 < myg sh)%Z -> (0 < mzg sh)%Z -> in_pmf3 sh p ->
  dv3 (set_div3 O sc sm sh st) p = div_value3 O sc sm sh st p.
Proof. intros T O sc sm sh st p Hx Hy Hz. exact (set_div3_spec O sc sm sh Hx Hy Hz st p). Qed.
Print Assumptions C16_set_div_is_divergence_3d.

(* ---------------------------------------------------------------------------------------------
   The discrete Laplacian (atimes): second differences, one-sided at non-periodic ends, the terms of the other
   directions halved on non-periodic boundaries; all shapes with at least one gradient bin per dimension,
   every periodicity pattern, every (also zero or negative) width for symmetry and kernel. *)
Theorem C16_laplacian_symmetric_2d : forall (sh : shape2 (T:=R)) (x y : Z * Z -> R),
  (0 < nxg sh)%Z -> (0 < nyg sh)%Z ->
  dot2 sh x (atimes2 Rops sh y) = dot2 sh (atimes2 Rops sh x) y.
Proof. intros sh x y Hx Hy. exact (laplacian_symmetric2 sh Hx Hy x y). Qed.
Print Assumptions C16_laplacian_symmetric_2d.

Theorem C16_laplacian_symmetric_3d : forall (sh : shape3 (T:=R)) (x y : Z * Z * Z -> R),
  (0 < mxg sh)%Z -> (0 < myg sh)%Z -> (0 < mzg sh)%Z ->
  dot3 sh x (atimes3 Rops sh y) = dot3 sh (atimes3 Rops sh x) y.
Proof. intros sh x y Hx Hy Hz. exact (laplacian_symmetric3 sh Hx Hy Hz x y). Qed.
Print Assumptions C16_laplacian_symmetric_3d.

Theorem C16_laplacian_kernel_constants_2d : forall (sh : shape2 (T:=R)) (c : R) (p : Z * Z),
  atimes2 Rops sh (fun _ => c) p = 0%R.
Proof. exact laplacian_kernel2. Qed.
Print Assumptions C16_laplacian_kernel_constants_2d.

Theorem C16_laplacian_kernel_constants_3d : forall (sh : shape3 (T:=R)) (c : R) (p : Z * Z * Z),
  atimes3 Rops sh (fun _ => c) p = 0%R.
Proof. exact laplacian_kernel3. Qed.
Print Assumptions C16_laplacian_kernel_constants_3d.

(* <x, A x> = - (sum of squared forward differences, weighted) <= 0 *)
Theorem C16_laplacian_negative_semidefinite_2d : forall (sh : shape2 (T:=R)) (x : Z * Z -> R),
  (0 < nxg sh)%Z -> (0 < nyg sh)%Z -> wx sh <> 0%R -> wy sh <> 0%R ->
  (dot2 sh x (atimes2 Rops sh x) <= 0)%R.
Proof. intros sh x Hx Hy Wx Wy. exact (laplacian_negative_semidefinite2 sh Hx Hy Wx Wy x). Qed.
Print Assumptions C16_laplacian_negative_semidefinite_2d.

Theorem C16_laplacian_negative_semidefinite_3d : forall (sh : shape3 (T:=R)) (x : Z * Z * Z -> R),
  (0 < mxg sh)%Z -> (0 < myg sh)%Z -> (0 < mzg sh)%Z -> vx sh <> 0%R -> vy sh <> 0%R -> vz sh <> 0%R ->
  (dot3 sh x (atimes3 Rops sh x) <= 0)%R.
Proof. intros sh x Hx Hy Hz Wx Wy Wz. exact (laplacian_negative_semidefinite3 sh Hx Hy Hz Wx Wy Wz x). Qed.
Print Assumptions C16_laplacian_negative_semidefinite_3d.

(* the discrete Poisson problem determines the surface up to an additive constant *)
Theorem C16_poisson_solution_unique_up_to_constant_2d : forall (sh : shape2 (T:=R)) (x y : Z * Z -> R),
  (0 < nxg sh)%Z -> (0 < nyg sh)%Z -> wx sh <> 0%R -> wy sh <> 0%R ->
  (forall p, in_pmf2 sh p -> atimes2 Rops sh x p = atimes2 Rops sh y p) ->
  exists c, forall p, in_pmf2 sh p -> x p = (y p + c)%R.
Proof. intros sh x y Hx Hy Wx Wy. exact (poisson_unique2 sh Hx Hy Wx Wy x y). Qed.
Print Assumptions C16_poisson_solution_unique_up_to_constant_2d.

Theorem C16_poisson_solution_unique_up_to_constant_3d : forall (sh : shape3 (T:=R)) (x y : Z * Z * Z -> R),
  (0 < mxg sh)%Z -> (0 < myg sh)%Z -> (0 < mzg sh)%Z -> vx sh <> 0%R -> vy sh <> 0%R -> vz sh <> 0%R ->
  (forall p, in_pmf3 sh p -> atimes3 Rops sh x p = atimes3 Rops sh y p) ->
  exists c, forall p, in_pmf3 sh p -> x p = (y p + c)%R.
Proof. intros sh x y Hx Hy Hz Wx Wy Wz. exact (poisson_unique3 sh Hx Hy Hz Wx Wy Wz x y). Qed.
Print Assumptions C16_poisson_solution_unique_up_to_constant_3d.

(* solvability: the divergence of ANY gradient data sums to zero over the PMF grid, i.e. it is orthogonal to
   the kernel of the symmetric Laplacian *)
Theorem C16_divergence_sums_to_zero_2d : forall (sc : smooth_cfg) (sm : bool) (sh : shape2 (T:=R)) (st : state2 (T:=R)),
  (0 < nxg sh)%Z -> (0 < nyg sh)%Z -> lsumR (div_value2 Rops sc sm sh st) (all_ix2 sh) = 0%R.
Proof. intros sc sm sh st Hx Hy. exact (divergence_sums_to_zero2 sc sm sh Hx Hy st). Qed.
Print Assumptions C16_divergence_sums_to_zero_2d.

Theorem C16_divergence_sums_to_zero_3d : forall (sc : smooth_cfg) (sm : bool) (sh : shape3 (T:=R)) (st : state3 (T:=R)),
  (0 < mxg sh)%Z -> (0 < myg sh)%Z -> (0 < mzg sh)%Z -> lsumR (div_value3 Rops sc sm sh st) (all_ix3 sh) = 0%R.
Proof. intros sc sm sh st Hx Hy Hz. exact (divergence_sums_to_zero3 sc sm sh Hx Hy Hz st). Qed.
Print Assumptions C16_divergence_sums_to_zero_3d.

(* ---------------------------------------------------------------------------------------------
   The discrete Poisson statement.  integrate2/integrate3 = nr_linbcg_sym run on (divergence, data) for at most
   itmax iterations; out_x the returned surface, out_iter/out_err the iteration count and error it reports.
   After ANY history of samples (preloaded data + set_div, then arrivals through update_div_neighbors):
     (1) the right-hand side is the divergence D of the final gradients and sums to zero (solvable problem);
     (2) if the solver made an iteration and reports err <= tol, then |D - Laplacian(surface)| <= tol |D| (l2);
     (3) if it reports err = 0 (exact solve), Laplacian(surface) = D at every grid point;
     (4) if it stopped before itmax, it reports err <= tol (or err = 0: the residual was exactly zero, e.g. a repeated call
         on unchanged data - after "fix: PMF integration returned NaN when the initial guess already solved the system").
   In exact (real) arithmetic the recurred residual IS the true residual; that the floating-point recurrence
   stays close to it, and that the iteration converges within itmax, is checked numerically by the tie. *)
Theorem C16_poisson_2d : forall (sc : smooth_cfg) (sm : bool) (sh : shape2 (T:=R)) (st0 : state2 (T:=R))
    (pre h : list ((Z * Z) * (R * R))) (itmax : nat) (tol : R) (x0 : Z * Z -> R) (err0 : R),
  (0 < nxg sh)%Z -> (0 < nyg sh)%Z -> Forall (fun e => in_grad2 sh (fst e)) h ->
  let st := run2 Rops sc sm sh (set_div2 Rops sc sm sh (preload2 Rops st0 pre)) h in
  let D := div_value2 Rops sc sm sh st in
  let o := integrate2 Rops sh itmax tol (dv2 st) x0 err0 in
  lsumR D (all_ix2 sh) = 0%R /\
  ((1 <= out_iter _ o)%Z -> (out_err _ o <= tol)%R ->
     (l2norm Rops _ (all_ix2 sh) (fun p => (D p - atimes2 Rops sh (out_x _ o) p)%R) <= tol * l2norm Rops _ (all_ix2 sh) D)%R) /\
  ((1 <= out_iter _ o)%Z -> out_err _ o = 0%R -> forall p, in_pmf2 sh p -> atimes2 Rops sh (out_x _ o) p = D p) /\
  ((1 <= out_iter _ o < Z.of_nat itmax)%Z -> (out_err _ o <= tol)%R \/ out_err _ o = 0%R).
Proof. exact poisson2_history. Qed.
Print Assumptions C16_poisson_2d.

Theorem C16_poisson_3d : forall (sc : smooth_cfg) (sm : bool) (sh : shape3 (T:=R)) (st0 : state3 (T:=R))
    (pre h : list ((Z * Z * Z) * (R * R * R))) (itmax : nat) (tol : R) (x0 : Z * Z * Z -> R) (err0 : R),
  (0 < mxg sh)%Z -> (0 < myg sh)%Z -> (0 < mzg sh)%Z -> Forall (fun e => in_grad3 sh (fst e)) h ->
  let st := run3 Rops sc sm sh (set_div3 Rops sc sm sh (preload3 Rops st0 pre)) h in
  let D := div_value3 Rops sc sm sh st in
  let o := integrate3 Rops sh itmax tol (dv3 st) x0 err0 in
  lsumR D (all_ix3 sh) = 0%R /\
  ((1 <= out_iter _ o)%Z -> (out_err _ o <= tol)%R ->
     (l2norm Rops _ (all_ix3 sh) (fun p => (D p - atimes3 Rops sh (out_x _ o) p)%R) <= tol * l2norm Rops _ (all_ix3 sh) D)%R) /\
  ((1 <= out_iter _ o)%Z -> out_err _ o = 0%R -> forall p, in_pmf3 sh p -> atimes3 Rops sh (out_x _ o) p = D p) /\
  ((1 <= out_iter _ o < Z.of_nat itmax)%Z -> (out_err _ o <= tol)%R \/ out_err _ o = 0%R).
Proof. exact poisson3_history. Qed.
Print Assumptions C16_poisson_3d.

(* The C++ atimes (nd == 2) is hand-indexed loops over the flat arrays (x terms assigned: interior columns, then
   the two edge columns in lockstep; y terms added: interior rows, then the two edge rows in lockstep; each loop
   written first / middle / last with running indices and a running edge factor).  atimes2_loops mirrors those loops
   statement by statement on flat arrays and is tied bit for bit to the C++ (shapes up to 11 x 11); this theorem
   says that, for EVERY shape with at least two points per dimension, every periodicity pattern, any widths, any
   initial content of LA, the loops compute the per-point stencil atimes2 (about which all theorems above are
   stated) at every grid point (flat index i*h + j).  The 3-D loops are tied per point only. *)
Theorem C16_atimes_loops_eq_stencil_2d : forall (sh : shape2 (T:=R)) (A LA : Z -> R) (i j : Z),
  (2 <= npmf (px sh) (nxg sh))%Z -> (2 <= npmf (py sh) (nyg sh))%Z ->
  (0 <= i < npmf (px sh) (nxg sh))%Z -> (0 <= j < npmf (py sh) (nyg sh))%Z ->
  atimes2_loops Rops sh A LA (i * npmf (py sh) (nyg sh) + j) =
  atimes2 Rops sh (fun p => A (fst p * npmf (py sh) (nyg sh) + snd p)%Z) (i, j).
Proof. intros sh A LA i j Hw Hh. exact (atimes2_loops_eq_stencil sh A Hw Hh LA i j). Qed.
Print Assumptions C16_atimes_loops_eq_stencil_2d.

Example C16_example_loops : (2 <= npmf (px sh22) (nxg sh22))%Z /\ (2 <= npmf (py sh22) (nyg sh22))%Z.
Proof. split; vm_compute; discriminate. Qed.

(* Consistency (the algebraic content of "second order"): when the gradient data are the gradient of ANY polynomial U of
   total degree <= 3 evaluated at the bin centres, the divergence at every interior PMF node equals the discrete Laplacian
   of the samples of U at the nodes EXACTLY - anisotropic widths, any origin, periodic or not.  Hence for a C^4 surface
   the local truncation error of the discrete Poisson problem is a fourth-order Taylor remainder, O(w^2).
   (Not proved: the stability constant that turns this into a convergence rate, and the boundary nodes; the check measures
   the observed order, 2.0-2.2.) *)
Theorem C16_scheme_exact_on_cubics_2d : forall (sc : smooth_cfg) (sm : bool) (sh : shape2 (T:=R)) (st : state2 (T:=R))
    (x0 y0 c00 c10 c01 c20 c11 c02 c30 c21 c12 c03 : R) (i j : Z),
  (1 <= i <= npmf (px sh) (nxg sh) - 2)%Z -> (1 <= j <= npmf (py sh) (nyg sh) - 2)%Z -> wx sh <> 0%R -> wy sh <> 0%R ->
  (forall a b, (a = i - 1 \/ a = i)%Z -> (b = j - 1 \/ b = j)%Z ->
     gval2 Rops sc sm sh st (a, b) =
     (cubUx c10 c20 c11 c30 c21 c12 (cenx sh x0 a) (ceny sh y0 b), cubUy c01 c11 c02 c21 c12 c03 (cenx sh x0 a) (ceny sh y0 b))) ->
  div_value2 Rops sc sm sh st (i, j) =
  atimes2 Rops sh (fun p => cubU c00 c10 c01 c20 c11 c02 c30 c21 c12 c03 (nodx sh x0 (fst p)) (nody sh y0 (snd p))) (i, j).
Proof. intros. apply scheme_exact_on_cubics2; assumption. Qed.
Print Assumptions C16_scheme_exact_on_cubics_2d.

Theorem C16_scheme_exact_on_cubics_3d : forall (sc : smooth_cfg) (sm : bool) (sh : shape3 (T:=R)) (st : state3 (T:=R))
    (x0 y0 z0 k000 k001 k002 k003 k010 k011 k012 k020 k021 k030 k100 k101 k102 k110 k111 k120 k200 k201 k210 k300 : R) (i j k : Z),
  (1 <= i <= npmf (qx sh) (mxg sh) - 2)%Z -> (1 <= j <= npmf (qy sh) (myg sh) - 2)%Z -> (1 <= k <= npmf (qz sh) (mzg sh) - 2)%Z ->
  vx sh <> 0%R -> vy sh <> 0%R -> vz sh <> 0%R ->
  (forall a b c, (a = i - 1 \/ a = i)%Z -> (b = j - 1 \/ b = j)%Z -> (c = k - 1 \/ c = k)%Z ->
     gval3 Rops sc sm sh st (a, b, c) =
     (cub3x k100 k101 k102 k110 k111 k120 k200 k201 k210 k300 (cen3x sh x0 a) (cen3y sh y0 b) (cen3z sh z0 c),
      cub3y k010 k011 k012 k020 k021 k030 k110 k111 k120 k210 (cen3x sh x0 a) (cen3y sh y0 b) (cen3z sh z0 c),
      cub3z k001 k002 k003 k011 k012 k021 k101 k102 k111 k201 (cen3x sh x0 a) (cen3y sh y0 b) (cen3z sh z0 c))) ->
  div_value3 Rops sc sm sh st (i, j, k) =
  atimes3 Rops sh (fun p => cub3 k000 k001 k002 k003 k010 k011 k012 k020 k021 k030 k100 k101 k102 k110 k111 k120 k200 k201 k210 k300
                             (nod3x sh x0 (fst (fst p))) (nod3y sh y0 (snd (fst p))) (nod3z sh z0 (snd p))) (i, j, k).
Proof. intros. apply scheme_exact_on_cubics3; assumption. Qed.
Print Assumptions C16_scheme_exact_on_cubics_3d.

(* an interior node exists as soon as a dimension has 2 non-periodic bins (3 nodes), and the premise on the gradient data
   holds e.g. for the zero polynomial on the empty grids *)
Example C16_example_interior : (1 <= 1 <= npmf false 2 - 2)%Z /\
  gval2 Rops (mkSmooth true 0 1) false (mkShape2 false false 2 2 1%R 1%R) (init2 Rops) (0, 0)%Z = (0%R, 0%R).
Proof.
  split; [vm_compute; split; discriminate|]. unfold gval2, get_grad2, init2. cbn. rewrite !Rmult_0_r. reflexivity.
Qed.

(* The iterations of the solver never increase the error in the energy ((-A)-) norm: for ANY surface xs that solves
   the discrete Poisson problem of the final gradients, |x_out - xs|_A <= |x_0 - xs|_A, whatever itmax and tol
   (exact arithmetic; uses symmetry, semi-definiteness, kernel = constants and the zero sum of the divergence).
   err_norm2 xs x = - <x - xs, A (x - xs)>.  Termination of conjugate gradient in at most n steps is not proved. *)
Theorem C16_cg_error_monotone_2d : forall (sc : smooth_cfg) (sm : bool) (sh : shape2 (T:=R)) (st0 : state2 (T:=R))
    (pre h : list ((Z * Z) * (R * R))) (itmax : nat) (tol : R) (x0 : Z * Z -> R) (err0 : R) (xs : Z * Z -> R),
  (0 < nxg sh)%Z -> (0 < nyg sh)%Z -> wx sh <> 0%R -> wy sh <> 0%R -> Forall (fun e => in_grad2 sh (fst e)) h ->
  let st := run2 Rops sc sm sh (set_div2 Rops sc sm sh (preload2 Rops st0 pre)) h in
  (forall q, in_pmf2 sh q -> atimes2 Rops sh xs q = div_value2 Rops sc sm sh st q) ->
  (err_norm2 _ (all_ix2 sh) (atimes2 Rops sh) xs (out_x _ (integrate2 Rops sh itmax tol (dv2 st) x0 err0))
   <= err_norm2 _ (all_ix2 sh) (atimes2 Rops sh) xs x0)%R.
Proof. exact cg_error_monotone2_history. Qed.
Print Assumptions C16_cg_error_monotone_2d.

Theorem C16_cg_error_monotone_3d : forall (sc : smooth_cfg) (sm : bool) (sh : shape3 (T:=R)) (st0 : state3 (T:=R))
    (pre h : list ((Z * Z * Z) * (R * R * R))) (itmax : nat) (tol : R) (x0 : Z * Z * Z -> R) (err0 : R) (xs : Z * Z * Z -> R),
  (0 < mxg sh)%Z -> (0 < myg sh)%Z -> (0 < mzg sh)%Z -> vx sh <> 0%R -> vy sh <> 0%R -> vz sh <> 0%R ->
  Forall (fun e => in_grad3 sh (fst e)) h ->
  let st := run3 Rops sc sm sh (set_div3 Rops sc sm sh (preload3 Rops st0 pre)) h in
  (forall q, in_pmf3 sh q -> atimes3 Rops sh xs q = div_value3 Rops sc sm sh st q) ->
  (err_norm2 _ (all_ix3 sh) (atimes3 Rops sh) xs (out_x _ (integrate3 Rops sh itmax tol (dv3 st) x0 err0))
   <= err_norm2 _ (all_ix3 sh) (atimes3 Rops sh) xs x0)%R.
Proof. exact cg_error_monotone3_history. Qed.
Print Assumptions C16_cg_error_monotone_3d.

(* ... and whenever the solver iterates at all (itmax >= 1, accepted grid, |D| >= EPS) from a surface that does not yet
   solve the problem, the error STRICTLY decreases: integrate() always improves a non-solution. *)
Theorem C16_cg_error_strict_decrease_2d : forall (sc : smooth_cfg) (sm : bool) (sh : shape2 (T:=R)) (st0 : state2 (T:=R))
    (pre h : list ((Z * Z) * (R * R))) (itmax : nat) (tol : R) (x0 : Z * Z -> R) (err0 : R) (xs : Z * Z -> R),
  (0 < nxg sh)%Z -> (0 < nyg sh)%Z -> wx sh <> 0%R -> wy sh <> 0%R -> Forall (fun e => in_grad2 sh (fst e)) h ->
  let st := run2 Rops sc sm sh (set_div2 Rops sc sm sh (preload2 Rops st0 pre)) h in
  let D := div_value2 Rops sc sm sh st in
  shape_ok2 sh = true ->
  (forall q, in_pmf2 sh q -> atimes2 Rops sh xs q = D q) ->
  (cg_eps Rops <= l2norm Rops _ (all_ix2 sh) D)%R ->
  (exists q, in_pmf2 sh q /\ (D q - atimes2 Rops sh x0 q)%R <> 0%R) ->
  (err_norm2 _ (all_ix2 sh) (atimes2 Rops sh) xs (out_x _ (integrate2 Rops sh (S itmax) tol (dv2 st) x0 err0))
   < err_norm2 _ (all_ix2 sh) (atimes2 Rops sh) xs x0)%R.
Proof. exact cg_error_strict2_history. Qed.
Print Assumptions C16_cg_error_strict_decrease_2d.

Theorem C16_cg_error_strict_decrease_3d : forall (sc : smooth_cfg) (sm : bool) (sh : shape3 (T:=R)) (st0 : state3 (T:=R))
    (pre h : list ((Z * Z * Z) * (R * R * R))) (itmax : nat) (tol : R) (x0 : Z * Z * Z -> R) (err0 : R) (xs : Z * Z * Z -> R),
  (0 < mxg sh)%Z -> (0 < myg sh)%Z -> (0 < mzg sh)%Z -> vx sh <> 0%R -> vy sh <> 0%R -> vz sh <> 0%R ->
  Forall (fun e => in_grad3 sh (fst e)) h ->
  let st := run3 Rops sc sm sh (set_div3 Rops sc sm sh (preload3 Rops st0 pre)) h in
  let D := div_value3 Rops sc sm sh st in
  shape_ok3 sh = true ->
  (forall q, in_pmf3 sh q -> atimes3 Rops sh xs q = D q) ->
  (cg_eps Rops <= l2norm Rops _ (all_ix3 sh) D)%R ->
  (exists q, in_pmf3 sh q /\ (D q - atimes3 Rops sh x0 q)%R <> 0%R) ->
  (err_norm2 _ (all_ix3 sh) (atimes3 Rops sh) xs (out_x _ (integrate3 Rops sh (S itmax) tol (dv3 st) x0 err0))
   < err_norm2 _ (all_ix3 sh) (atimes3 Rops sh) xs x0)%R.
Proof. exact cg_error_strict3_history. Qed.
Print Assumptions C16_cg_error_strict_decrease_3d.

(* a Poisson problem with a solution (premise of the two theorems above): A (-b22) = b22 on the 2x2 grid *)
Example C16_example_solution_exists : forall q, In q (all_ix2 sh22) -> atimes2 Rops sh22 (fun p => (0 + -1 * b22 p)%R) q = b22 q.
Proof. exact b22_solution. Qed.

(* Scale covariance.  The discrete problem is linear in the gradient data and the solver's stopping criterion is relative:
   (a) gradient sums multiplied by c give the divergence multiplied by c at every point;
   (b) a right-hand side and initial surface multiplied by c <> 0 give the same number of iterations, the same reported error
       and the surface multiplied by c at every grid point.  The only absolute quantity in nr_linbcg_sym is EPS = 1e-14,
       below which |divergence| is treated as zero and nothing is done: the statement assumes |D| and |c D| above it.
   Flat surfaces (tiny gradients) are therefore integrated exactly as well as steep ones. *)
Theorem C16_divergence_linear_2d : forall (sc : smooth_cfg) (sm : bool) (sh : shape2 (T:=R)) (c : R) (st : state2 (T:=R)) (p : Z * Z),
  div_value2 Rops sc sm sh (scale_st2 c st) p = (c * div_value2 Rops sc sm sh st p)%R.
Proof. exact div_value2_scal. Qed.
Print Assumptions C16_divergence_linear_2d.

Theorem C16_divergence_linear_3d : forall (sc : smooth_cfg) (sm : bool) (sh : shape3 (T:=R)) (c : R) (st : state3 (T:=R)) (p : Z * Z * Z),
  div_value3 Rops sc sm sh (scale_st3 c st) p = (c * div_value3 Rops sc sm sh st p)%R.
Proof. exact div_value3_scal. Qed.
Print Assumptions C16_divergence_linear_3d.

Theorem C16_cg_scale_covariant_2d : forall (sh : shape2 (T:=R)) (c : R) (itmax : nat) (tol : R) (D x0 : Z * Z -> R) (err0 : R),
  (0 < nxg sh)%Z -> (0 < nyg sh)%Z -> c <> 0%R ->
  (cg_eps Rops <= l2norm Rops _ (all_ix2 sh) D)%R -> (cg_eps Rops <= Rabs c * l2norm Rops _ (all_ix2 sh) D)%R ->
  let o := integrate2 Rops sh itmax tol D x0 err0 in
  let o' := integrate2 Rops sh itmax tol (fun q => (c * D q)%R) (fun q => (c * x0 q)%R) err0 in
  out_iter _ o' = out_iter _ o /\ out_err _ o' = out_err _ o /\
  forall q, in_pmf2 sh q -> out_x _ o' q = (c * out_x _ o q)%R.
Proof. exact integrate2_scal. Qed.
Print Assumptions C16_cg_scale_covariant_2d.

Theorem C16_cg_scale_covariant_3d : forall (sh : shape3 (T:=R)) (c : R) (itmax : nat) (tol : R) (D x0 : Z * Z * Z -> R) (err0 : R),
  (0 < mxg sh)%Z -> (0 < myg sh)%Z -> (0 < mzg sh)%Z -> c <> 0%R ->
  (cg_eps Rops <= l2norm Rops _ (all_ix3 sh) D)%R -> (cg_eps Rops <= Rabs c * l2norm Rops _ (all_ix3 sh) D)%R ->
  let o := integrate3 Rops sh itmax tol D x0 err0 in
  let o' := integrate3 Rops sh itmax tol (fun q => (c * D q)%R) (fun q => (c * x0 q)%R) err0 in
  out_iter _ o' = out_iter _ o /\ out_err _ o' = out_err _ o /\
  forall q, in_pmf3 sh q -> out_x _ o' q = (c * out_x _ o q)%R.
Proof. exact integrate3_scal. Qed.
Print Assumptions C16_cg_scale_covariant_3d.

(* the premises are satisfiable: b22 has norm >= 1 >= EPS, and so has 2 * b22 *)
Example C16_example_scale : (cg_eps Rops <= l2norm Rops _ (all_ix2 sh22) b22)%R /\ (2 <> 0)%R.
Proof. split; [exact b22_norm | lra]. Qed.

(* The grids on which integrate() refuses to work (after "fix: 2-D/3-D PMF integration on a grid with a single point
   along a periodic variable indexed outside its arrays"): exactly those with a periodic variable whose single bin
   spans the period; the constructor raises an input error (the ABF bias is not created) and integrate() makes no
   iteration and leaves the surface and the caller's error variable untouched.  All Laplacian / Poisson theorems
   above concern the per-point stencil, which the C++ loops implement for >= 2 points per dimension
   (tied by the correspondence check). *)
Theorem C16_grid_refused_iff_single_point_periodic_2d : forall (sh : shape2 (T:=R)), (0 < nxg sh)%Z -> (0 < nyg sh)%Z ->
  (shape_ok2 sh = false <-> (px sh = true /\ nxg sh = 1%Z) \/ (py sh = true /\ nyg sh = 1%Z)).
Proof. exact (@shape_ok2_spec R). Qed.
Print Assumptions C16_grid_refused_iff_single_point_periodic_2d.

Theorem C16_grid_refused_iff_single_point_periodic_3d : forall (sh : shape3 (T:=R)),
  (0 < mxg sh)%Z -> (0 < myg sh)%Z -> (0 < mzg sh)%Z ->
  (shape_ok3 sh = false <->
   (qx sh = true /\ mxg sh = 1%Z) \/ (qy sh = true /\ myg sh = 1%Z) \/ (qz sh = true /\ mzg sh = 1%Z)).
Proof. exact (@shape_ok3_spec R). Qed.
Print Assumptions C16_grid_refused_iff_single_point_periodic_3d.

Theorem C16_refused_grid_untouched_2d : forall (sh : shape2 (T:=R)) itmax tol D x0 err0, shape_ok2 sh = false ->
  let o := integrate2 Rops sh itmax tol D x0 err0 in out_iter _ o = 0%Z /\ out_x _ o = x0 /\ out_err _ o = err0.
Proof. exact integrate2_refused. Qed.
Print Assumptions C16_refused_grid_untouched_2d.

Theorem C16_refused_grid_untouched_3d : forall (sh : shape3 (T:=R)) itmax tol D x0 err0, shape_ok3 sh = false ->
  let o := integrate3 Rops sh itmax tol D x0 err0 in out_iter _ o = 0%Z /\ out_x _ o = x0 /\ out_err _ o = err0.
Proof. exact integrate3_refused. Qed.
Print Assumptions C16_refused_grid_untouched_3d.

Example C16_example_refused : shape_ok2 (mkShape2 true false 1 3 1%R 1%R) = false /\ shape_ok2 sh22 = true.
Proof. split; reflexivity. Qed.

(* PMFs that are NOT kept up to date incrementally - the LOCAL PMF of a shared-ABF walker, the CZAR PMF - are written by
   write_gradients_samples as  set_div(); integrate():  for ANY state of the grids and ANY previous content of the divergence
   array (after a restart it is the zero array of a fresh object) the Poisson statement holds for the divergence D of the
   gradients that are written beside the surface.  (Without the set_div() the right-hand side would be whatever the array
   held: seeded change C16_5, caught by the shared-ABF restart scenarios.) *)
Theorem C16_batch_written_pmf_2d : forall (sc : smooth_cfg) (sm : bool) (sh : shape2 (T:=R)) (st : state2 (T:=R))
    (itmax : nat) (tol : R) (x0 : Z * Z -> R) (err0 : R),
  (0 < nxg sh)%Z -> (0 < nyg sh)%Z ->
  let D := div_value2 Rops sc sm sh st in
  let o := snd (write_pmf_batch2 Rops sc sm sh st itmax tol x0 err0) in
  lsumR D (all_ix2 sh) = 0%R /\
  ((1 <= out_iter _ o)%Z -> (out_err _ o <= tol)%R ->
     (l2norm Rops _ (all_ix2 sh) (fun p => (D p - atimes2 Rops sh (out_x _ o) p)%R) <= tol * l2norm Rops _ (all_ix2 sh) D)%R) /\
  ((1 <= out_iter _ o)%Z -> out_err _ o = 0%R -> forall p, in_pmf2 sh p -> atimes2 Rops sh (out_x _ o) p = D p) /\
  ((1 <= out_iter _ o < Z.of_nat itmax)%Z -> (out_err _ o <= tol)%R \/ out_err _ o = 0%R).
Proof. exact write_pmf_batch2_poisson. Qed.
Print Assumptions C16_batch_written_pmf_2d.

Theorem C16_batch_written_pmf_3d : forall (sc : smooth_cfg) (sm : bool) (sh : shape3 (T:=R)) (st : state3 (T:=R))
    (itmax : nat) (tol : R) (x0 : Z * Z * Z -> R) (err0 : R),
  (0 < mxg sh)%Z -> (0 < myg sh)%Z -> (0 < mzg sh)%Z ->
  let D := div_value3 Rops sc sm sh st in
  let o := snd (write_pmf_batch3 Rops sc sm sh st itmax tol x0 err0) in
  lsumR D (all_ix3 sh) = 0%R /\
  ((1 <= out_iter _ o)%Z -> (out_err _ o <= tol)%R ->
     (l2norm Rops _ (all_ix3 sh) (fun p => (D p - atimes3 Rops sh (out_x _ o) p)%R) <= tol * l2norm Rops _ (all_ix3 sh) D)%R) /\
  ((1 <= out_iter _ o)%Z -> out_err _ o = 0%R -> forall p, in_pmf3 sh p -> atimes3 Rops sh (out_x _ o) p = D p) /\
  ((1 <= out_iter _ o < Z.of_nat itmax)%Z -> (out_err _ o <= tol)%R \/ out_err _ o = 0%R).
Proof. exact write_pmf_batch3_poisson. Qed.
Print Assumptions C16_batch_written_pmf_3d.

(* non-vacuity of (2) and (3): on the 2x2 (2x2x2) grid of a single non-periodic bin per dimension the solver makes
   one iteration and reports err = 0 for a right-hand side that is an eigenvector of the Laplacian *)
Example C16_example_cg_2d : let o := integrate2 Rops sh22 1 0%R b22 (fun _ => 0%R) 0%R in
  out_iter _ o = 1%Z /\ out_err _ o = 0%R.
Proof. exact cg_example2. Qed.
Example C16_example_cg_3d : let o := integrate3 Rops sh222 1 0%R b222 (fun _ => 0%R) 0%R in
  out_iter _ o = 1%Z /\ out_err _ o = 0%R.
Proof. exact cg_example3. Qed.

(* ---------------------------------------------------------------------------------------------
   non-vacuity: the premises are satisfiable and the objects are not trivial (integer carrier, widths 1) *)
From Coq Require Import QArith.
Example C16_example_history_2d :
  let sh := mkShape2 true false 2 1 1%Q (1#2)%Q in
  let sc := mkSmooth true 0 2 in
  let h := [((1, 0)%Z, (2#1, 4#1)%Q); ((0, 0)%Z, (-6#1, 2#1)%Q); ((1, 0)%Z, (2#1, 0#1)%Q)] in
  Forall (fun e => in_grad2 sh (fst e)) h /\
  dump2 sh (dv2 (run2 Qops sc true sh (init2 Qops) h)) = [-1 # 2; 11 # 2; -11 # 2; 1 # 2]%Q /\
  dump2 sh (dv2 (set_div2 Qops sc true sh (run2 Qops sc true sh (init2 Qops) h))) = [-1 # 2; 11 # 2; -11 # 2; 1 # 2]%Q.
Proof.
  cbv zeta. split; [|split]; [| vm_compute; reflexivity | vm_compute; reflexivity].
  repeat constructor; cbn; lia.
Qed.

Example C16_example_1d :
  integrate1 Qops (mkSmooth false 0 1) false false (1#2)%Q [1#1; 2#1; 3#1]%Q [0; 0; 0]%Z = [0; 1 # 2; 3 # 2; 3]%Q /\
  integrate1 Qops (mkSmooth false 0 1) true false (1#2)%Q [1#1; 2#1; 4#1]%Q [0; 0; 0]%Z = [0; -2 # 3; -5 # 6]%Q /\
  closing1 Qops (mkSmooth false 0 1) true false (1#2)%Q [1#1; 2#1; 4#1]%Q [0; 0; 0]%Z = 0%Q /\
  (* the former refutation witness (smoothed, counts below fullSamples) now closes: *)
  closing1 Qops (mkSmooth true 0 2) true true (1#1)%Q [1#1; 0#1]%Q [1; 2]%Z = 0%Q /\
  (* write_1D_integral, periodic with an empty bin: the column ends where it starts and its minimum is 0 *)
  ti_integral1 Qops (mkSmooth true 0 1) true (1#1)%Q [2#1; 0#1]%Q [1; 0]%Z = [0; 1; 0]%Q.
Proof. repeat split; vm_compute; reflexivity. Qed.

(* The statement is FALSE if the neighbourhood of any other bin is refreshed instead (site_ok = false: update_div_neighbors(bin)
   after acc_force(force_bin)): lagged forces, 2 x 2 non-periodic bins, steps in bins (0,0) then (1,1): the sample of the
   second step lands in force_bin = (0,0) while the divergence is refreshed around (1,1).  With the call as coded the
   same history is consistent. *)
Example C16_abf_site_wrong_bin_counterexample :
  let sh := mkShape2 false false 2 2 1%Q 1%Q in
  let sc := mkSmooth true 0 1 in
  let l := [((0, 0)%Z, (1#1, 2#1)%Q); ((1, 1)%Z, (4#1, -2#1)%Q)] in
  let bad := abf_run2 Qops sc false false sh false (init2 Qops) l in
  let good := abf_run2 Qops sc false true sh false (init2 Qops) l in
  dump2 sh (dv2 bad) <> dump2 sh (dv2 (set_div2 Qops sc false sh bad)) /\
  dump2 sh (dv2 good) = dump2 sh (dv2 (set_div2 Qops sc false sh good)) /\
  dump2 sh (dv2 good) = [-1; -3; 0; 3; 1; 0; 0; 0; 0]%Q.
Proof.
  cbv zeta. split; [|split]; [intros H; vm_compute in H; discriminate | vm_compute; reflexivity | vm_compute; reflexivity].
Qed.
