(* C16 proofs, part 4 (reals): the loop-by-loop model of atimes (nd == 2) computes the per-point stencil atimes2
   at every point of every grid with at least two points per dimension. *)
Set Default Timeout 120.
From Coq Require Import ZArith List Bool Reals Lra Lia Psatz.
From CV Require Import Base.Num Base.RNum C16.IntegrateModel C16.IntegrateProofs C16.IntegrateRProofs C16.LaplaceProofs.
Import ListNotations.
Local Open Scope Z_scope.

(* ------------------------------------------------------------------ loops *)
Lemma zrange_succ n : 0 <= n -> zrange (n + 1) = zrange n ++ [n].
Proof.
  intros Hn. unfold zrange. replace (Z.to_nat (n + 1)) with (S (Z.to_nat n)) by lia.
  rewrite seq_S, map_app. cbn [map plus]. rewrite Z2Nat.id by lia. reflexivity.
Qed.

Lemma loopz_nonpos {S} n (body : Z -> S -> S) s : n <= 0 -> loopz n body s = s.
Proof. intros Hn. unfold loopz, zrange. replace (Z.to_nat n) with 0%nat by lia. reflexivity. Qed.

Lemma loopz_succ {S} n (body : Z -> S -> S) s : 0 <= n -> loopz (n + 1) body s = body n (loopz n body s).
Proof. intros Hn. unfold loopz. rewrite zrange_succ by auto. rewrite fold_left_app. reflexivity. Qed.

Lemma loopz_ind {S} (Inv : Z -> S -> Prop) n (body : Z -> S -> S) s :
  0 <= n -> Inv 0 s -> (forall k s', 0 <= k < n -> Inv k s' -> Inv (k + 1) (body k s')) -> Inv n (loopz n body s).
Proof.
  intros Hn H0 Hstep.
  assert (G : forall m, 0 <= m -> m <= n -> Inv m (loopz m body s)).
  { intros m Hm. pattern m. apply natlike_ind; [| |exact Hm].
    - intros _. rewrite loopz_nonpos by lia. exact H0.
    - intros x Hx IH Hle. change (Z.succ x) with (x + 1). rewrite loopz_succ by lia. apply Hstep; [lia|]. apply IH. lia. }
  apply G; lia.
Qed.

Lemma loopz_ext_body {S} n (b1 b2 : Z -> S -> S) s : (forall k s', b1 k s' = b2 k s') -> loopz n b1 s = loopz n b2 s.
Proof.
  intros H. unfold loopz. generalize (zrange n) as l. intros l. revert s.
  induction l as [|x l IH]; intros s; [reflexivity|]. cbn [fold_left]. rewrite H. apply IH.
Qed.

Definition inr (a n q : Z) : bool := (a <=? q) && (q <? a + n).
Lemma inr_true a n q : inr a n q = true <-> a <= q < a + n.
Proof. unfold inr. rewrite andb_true_iff, Z.leb_le, Z.ltb_lt. tauto. Qed.
Lemma inr_false a n q : inr a n q = false <-> ~ (a <= q < a + n).
Proof. unfold inr. rewrite andb_false_iff, Z.leb_gt, Z.ltb_ge. lia. Qed.

Lemma updz_same {V} (g : Z -> V) k v : updz g k v k = v.
Proof. unfold updz. rewrite Z.eqb_refl. reflexivity. Qed.
Lemma updz_other {V} (g : Z -> V) k v q : q <> k -> updz g k v q = g q.
Proof. intros H. unfold updz. destruct (Z.eqb_spec q k); [contradiction | reflexivity]. Qed.

Section Runs.
  Context {T : Type} (O : NumOps T).

  Lemma assign_run n (v : Z -> T) LA a : 0 <= n ->
    let s := loopz n (fun _ s => st_assign v s) (LA, a) in
    snd s = a + n /\ forall q, fst s q = if inr a n q then v q else LA q.
  Proof.
    intros Hn. cbv zeta.
    apply (loopz_ind (fun k s => snd s = a + k /\ forall q, fst s q = if inr a k q then v q else LA q)); auto.
    - cbn [fst snd]. split; [lia|]. intros q. rewrite (proj2 (inr_false a 0 q)) by lia. reflexivity.
    - intros k s' Hk [I1 I2]. unfold st_assign. cbn [fst snd]. split; [lia|]. intros q.
      destruct (Z.eq_dec q (snd s')) as [->|Hne].
      + rewrite updz_same. rewrite (proj2 (inr_true a (k + 1) (snd s'))) by lia. reflexivity.
      + rewrite updz_other by auto. rewrite I2.
        destruct (inr a k q) eqn:E.
        * apply inr_true in E. rewrite (proj2 (inr_true a (k + 1) q)) by lia. reflexivity.
        * apply inr_false in E. rewrite (proj2 (inr_false a (k + 1) q)) by lia. reflexivity.
  Qed.

  Lemma add_run n (v : Z -> T) LA a : 0 <= n ->
    let s := loopz n (fun _ s => st_add O v s) (LA, a) in
    snd s = a + n /\ forall q, fst s q = if inr a n q then nadd O (LA q) (v q) else LA q.
  Proof.
    intros Hn. cbv zeta.
    apply (loopz_ind (fun k s => snd s = a + k /\ forall q, fst s q = if inr a k q then nadd O (LA q) (v q) else LA q)); auto.
    - cbn [fst snd]. split; [lia|]. intros q. rewrite (proj2 (inr_false a 0 q)) by lia. reflexivity.
    - intros k s' Hk [I1 I2]. unfold st_add. cbn [fst snd]. split; [lia|]. intros q.
      destruct (Z.eq_dec q (snd s')) as [->|Hne].
      + rewrite updz_same. rewrite (proj2 (inr_true a (k + 1) (snd s'))) by lia.
        rewrite I2. rewrite (proj2 (inr_false a k (snd s'))) by lia. reflexivity.
      + rewrite updz_other by auto. rewrite I2.
        destruct (inr a k q) eqn:E.
        * apply inr_true in E. rewrite (proj2 (inr_true a (k + 1) q)) by lia. reflexivity.
        * apply inr_false in E. rewrite (proj2 (inr_false a (k + 1) q)) by lia. reflexivity.
  Qed.

  (* two disjoint ranges filled in lockstep *)
  Lemma pair_assign_run n (vl vr : Z -> T) LA a b : 0 <= n -> a + n <= b ->
    let s := loopz n (fun _ s => pair_assign vl vr s) (LA, a, b) in
    snd (fst s) = a + n /\ snd s = b + n /\
    forall q, fst (fst s) q = if inr a n q then vl q else if inr b n q then vr q else LA q.
  Proof.
    intros Hn Hab. cbv zeta.
    apply (loopz_ind (fun k s => snd (fst s) = a + k /\ snd s = b + k /\
             forall q, fst (fst s) q = if inr a k q then vl q else if inr b k q then vr q else LA q)); auto.
    - cbn [fst snd]. repeat split; try lia. intros q.
      rewrite (proj2 (inr_false a 0 q)), (proj2 (inr_false b 0 q)) by lia. reflexivity.
    - intros k s' Hk [I1 [I2 I3]]. unfold pair_assign. cbn [fst snd]. repeat split; try lia. intros q.
      destruct (Z.eq_dec q (snd s')) as [->|Hne2].
      + rewrite updz_same. rewrite (proj2 (inr_false a (k + 1) (snd s'))), (proj2 (inr_true b (k + 1) (snd s'))) by lia. reflexivity.
      + rewrite updz_other by auto.
        destruct (Z.eq_dec q (snd (fst s'))) as [->|Hne1].
        * rewrite updz_same. rewrite (proj2 (inr_true a (k + 1) (snd (fst s')))) by lia. reflexivity.
        * rewrite updz_other by auto. rewrite I3.
          destruct (inr a k q) eqn:E1.
          -- apply inr_true in E1. rewrite (proj2 (inr_true a (k + 1) q)) by lia. reflexivity.
          -- apply inr_false in E1. rewrite (proj2 (inr_false a (k + 1) q)) by lia.
             destruct (inr b k q) eqn:E2.
             ++ apply inr_true in E2. rewrite (proj2 (inr_true b (k + 1) q)) by lia. reflexivity.
             ++ apply inr_false in E2. rewrite (proj2 (inr_false b (k + 1) q)) by lia. reflexivity.
  Qed.
End Runs.

(* flat index <-> (column, row) *)
Lemma flat_col h i j c : 0 < h -> 0 <= j < h -> (c * h <= i * h + j < c * h + h <-> i = c).
Proof. intros Hh Hj. split; [intros H; nia | intros ->; lia]. Qed.
Lemma flat_eq h i j i' j' : 0 < h -> 0 <= j < h -> 0 <= j' < h -> (i * h + j = i' * h + j' <-> i = i' /\ j = j').
Proof.
  intros Hh Hj Hj'. split; [|intros [-> ->]; reflexivity].
  intros H. assert (i = i') by nia. subst i'. split; [reflexivity | lia].
Qed.

(* ------------------------------------------------------------------ the four phases, any carrier *)
Section Phases.
  Context {T : Type} (O : NumOps T).
  Variable sh : shape2 (T:=T).
  Variable A : Z -> T.
  Notation w := (npmf (px sh) (nxg sh)).
  Notation h := (npmf (py sh) (nyg sh)).
  Notation ffx := (ndiv O (n1 O) (nmul O (wx sh) (wx sh))).
  Notation ffy := (ndiv O (n1 O) (nmul O (wy sh) (wy sh))).
  Hypothesis Hw : 2 <= w.
  Hypothesis Hh : 2 <= h.

  Definition isedge (n k : Z) : bool := (k =? 0) || (k =? n - 1).
  Lemma isedge_true n k : isedge n k = true <-> k = 0 \/ k = n - 1.
  Proof. unfold isedge. rewrite orb_true_iff, !Z.eqb_eq. tauto. Qed.
  Lemma isedge_false n k : isedge n k = false <-> k <> 0 /\ k <> n - 1.
  Proof. unfold isedge. rewrite orb_false_iff, !Z.eqb_neq. tauto. Qed.

  (* first / middle / last over one column of h consecutive elements *)
  Lemma col_assign (tf tN : Z -> T) s base : snd s = base ->
    let s3 := st_assign tf (loopz (h - 2) (fun _ s => st_assign tN s) (st_assign tf s)) in
    snd s3 = base + h /\
    forall q, fst s3 q = if inr base h q then (if isedge h (q - base) then tf q else tN q) else fst s q.
  Proof.
    intros Hb. cbv zeta.
    set (s1 := st_assign tf s).
    assert (H1 : snd s1 = base + 1) by (unfold s1, st_assign; cbn [snd]; lia).
    pose proof (assign_run (h - 2) tN (fst s1) (snd s1) ltac:(lia)) as R. cbv zeta in R.
    replace (fst s1, snd s1) with s1 in R by (destruct s1; reflexivity).
    set (s2 := loopz (h - 2) (fun _ s => st_assign tN s) s1) in *. destruct R as [R1 R2].
    change (st_assign tf s2) with (updz (fst s2) (snd s2) (tf (snd s2)), snd s2 + 1). cbn [fst snd]. split; [lia|]. intros q.
    destruct (Z.eq_dec q (snd s2)) as [->|Hne].
    - rewrite updz_same. rewrite (proj2 (inr_true base h (snd s2))) by lia.
      rewrite (proj2 (isedge_true h (snd s2 - base))) by (right; lia). reflexivity.
    - rewrite updz_other by auto. rewrite R2.
      destruct (inr (snd s1) (h - 2) q) eqn:E.
      + apply inr_true in E. rewrite (proj2 (inr_true base h q)) by lia.
        rewrite (proj2 (isedge_false h (q - base))) by lia. reflexivity.
      + apply inr_false in E. unfold s1, st_assign. cbn [fst snd].
        destruct (Z.eq_dec q (snd s)) as [->|Hne0].
        * rewrite updz_same. rewrite (proj2 (inr_true base h (snd s))) by lia.
          rewrite (proj2 (isedge_true h (snd s - base))) by (left; lia). reflexivity.
        * rewrite updz_other by auto. rewrite (proj2 (inr_false base h q)); [reflexivity|].
          lia.
  Qed.

  Definition fkind (per : bool) (n k : Z) : option T := if isedge n k then Some (edgef O per) else None.

  (* x terms of interior columns *)
  Lemma xint_spec LA i j : 0 <= j < h ->
    xint O sh A LA (i * h + j) =
      if (1 <=? i) && (i <? w - 1)
      then cen O A ffx (fkind (py sh) h j) (i * h + j) (i * h + j - h) (i * h + j + h)
      else LA (i * h + j).
  Proof.
    intros Hj. unfold xint. cbv zeta.
    set (term := fun f idx => cen O A ffx f idx (idx - h) (idx + h)).
    set (body := fun (_ : Z) s => st_assign (term (Some (edgef O (py sh))))
                   (loopz (h - 2) (fun _ s0 => st_assign (term None) s0) (st_assign (term (Some (edgef O (py sh)))) s))).
    assert (G : (fun s => snd s = (1 + (w - 2)) * h /\ forall i j, 0 <= j < h ->
                   fst s (i * h + j) = if (1 <=? i) && (i <? 1 + (w - 2)) then term (fkind (py sh) h j) (i * h + j) else LA (i * h + j))
                (loopz (w - 2) body (LA, h))).
    { apply (loopz_ind (fun k s => snd s = (1 + k) * h /\ forall i j, 0 <= j < h ->
               fst s (i * h + j) = if (1 <=? i) && (i <? 1 + k) then term (fkind (py sh) h j) (i * h + j) else LA (i * h + j))); [lia | |].
      - cbn [fst snd]. split; [lia|]. intros i0 j0 Hj0.
        destruct (Z.leb_spec 1 i0); destruct (Z.ltb_spec i0 (1 + 0)); cbn [andb]; try reflexivity; lia.
      - intros k s' Hk [I1 I2]. unfold body.
        destruct (col_assign (term (Some (edgef O (py sh)))) (term None) s' ((1 + k) * h) I1) as [C1 C2].
        cbv zeta in C1, C2. split; [rewrite C1; ring|]. intros i0 j0 Hj0. rewrite C2.
        destruct (Z.eq_dec i0 (1 + k)) as [->|Hne].
        + rewrite (proj2 (inr_true ((1 + k) * h) h ((1 + k) * h + j0))) by lia.
          replace ((1 + k) * h + j0 - (1 + k) * h) with j0 by ring.
          destruct (Z.leb_spec 1 (1 + k)); [|lia]. destruct (Z.ltb_spec (1 + k) (1 + (k + 1))); [|lia]. cbn [andb].
          unfold fkind. destruct (isedge h j0); reflexivity.
        + rewrite (proj2 (inr_false ((1 + k) * h) h (i0 * h + j0))).
          2:{ intros Hin. apply Hne. apply (flat_col h i0 j0 (1 + k)); lia. }
          rewrite I2 by auto.
          destruct (Z.leb_spec 1 i0); destruct (Z.ltb_spec i0 (1 + k)); destruct (Z.ltb_spec i0 (1 + (k + 1)));
            cbn [andb]; try reflexivity; lia. }
    destruct G as [_ G]. rewrite G by auto. replace (1 + (w - 2)) with (w - 1) by lia. reflexivity.
  Qed.

  (* ---------------- x terms of the two edge columns *)
  Definition xtl (f : option T) (idx : Z) : T :=
    if px sh then cen O A ffx f idx (idx + h * (w - 1)) (idx + h) else one_sided O A ffx f idx (idx + h).
  Definition xtr (f : option T) (idx : Z) : T :=
    if px sh then cen O A ffx f idx (idx - h) (idx - h * (w - 1)) else one_sided O A ffx f idx (idx + - h).

  Lemma pair_assign_one (vl vr : Z -> T) (s : (Z -> T) * Z * Z) : snd s <> snd (fst s) ->
    forall q, fst (fst (pair_assign vl vr s)) q =
      if q =? snd s then vr q else if q =? snd (fst s) then vl q else fst (fst s) q.
  Proof.
    intros Hne q. unfold pair_assign. cbn [fst snd].
    destruct (Z.eqb_spec q (snd s)) as [->|H2]; [apply updz_same|]. rewrite updz_other by auto.
    destruct (Z.eqb_spec q (snd (fst s))) as [->|H1]; [apply updz_same|]. rewrite updz_other by auto. reflexivity.
  Qed.

  Lemma pair_col_assign (tlf tlN trf trN : Z -> T) s a b : snd (fst s) = a -> snd s = b -> a + h <= b ->
    let s3 := pair_assign tlf trf (loopz (h - 2) (fun _ s => pair_assign tlN trN s) (pair_assign tlf trf s)) in
    forall q, fst (fst s3) q =
      if inr a h q then (if isedge h (q - a) then tlf q else tlN q)
      else if inr b h q then (if isedge h (q - b) then trf q else trN q) else fst (fst s) q.
  Proof.
    intros Ha Hb Hab. cbv zeta.
    set (s1 := pair_assign tlf trf s).
    assert (A1 : snd (fst s1) = a + 1) by (unfold s1, pair_assign; cbn [fst snd]; lia).
    assert (B1 : snd s1 = b + 1) by (unfold s1, pair_assign; cbn [fst snd]; lia).
    pose proof (pair_assign_run (h - 2) tlN trN (fst (fst s1)) (snd (fst s1)) (snd s1) ltac:(lia) ltac:(lia)) as R.
    cbv zeta in R. replace (fst (fst s1), snd (fst s1), snd s1) with s1 in R by (destruct s1 as [[? ?] ?]; reflexivity).
    set (s2 := loopz (h - 2) (fun _ s => pair_assign tlN trN s) s1) in *. destruct R as [R1 [R2 R3]].
    intros q. rewrite (pair_assign_one tlf trf s2) by lia. rewrite R3.
    unfold s1 at 3. rewrite (pair_assign_one tlf trf s) by lia.
    destruct (Z.eqb_spec q (snd s2)) as [E|E].
    { rewrite (proj2 (inr_false a h q)), (proj2 (inr_true b h q)) by lia.
      rewrite (proj2 (isedge_true h (q - b))) by (right; lia). reflexivity. }
    destruct (Z.eqb_spec q (snd (fst s2))) as [E'|E'].
    { rewrite (proj2 (inr_true a h q)) by lia. rewrite (proj2 (isedge_true h (q - a))) by (right; lia). reflexivity. }
    destruct (inr (snd (fst s1)) (h - 2) q) eqn:M1.
    { apply inr_true in M1. rewrite (proj2 (inr_true a h q)) by lia.
      rewrite (proj2 (isedge_false h (q - a))) by lia. reflexivity. }
    apply inr_false in M1.
    destruct (inr (snd s1) (h - 2) q) eqn:M2.
    { apply inr_true in M2. rewrite (proj2 (inr_false a h q)), (proj2 (inr_true b h q)) by lia.
      rewrite (proj2 (isedge_false h (q - b))) by lia. reflexivity. }
    apply inr_false in M2.
    destruct (Z.eqb_spec q (snd s)) as [F|F].
    { rewrite (proj2 (inr_false a h q)), (proj2 (inr_true b h q)) by lia.
      rewrite (proj2 (isedge_true h (q - b))) by (left; lia). reflexivity. }
    destruct (Z.eqb_spec q (snd (fst s))) as [F'|F'].
    { rewrite (proj2 (inr_true a h q)) by lia. rewrite (proj2 (isedge_true h (q - a))) by (left; lia). reflexivity. }
    rewrite (proj2 (inr_false a h q)), (proj2 (inr_false b h q)) by lia. reflexivity.
  Qed.

  Lemma xedge_spec LA i j : 0 <= i < w -> 0 <= j < h ->
    xedge O sh A LA (i * h + j) =
      if i =? 0 then xtl (fkind (py sh) h j) (i * h + j)
      else if i =? w - 1 then xtr (fkind (py sh) h j) (i * h + j)
      else LA (i * h + j).
  Proof.
    intros Hi Hj. assert (Hwh : 0 + h <= h * (w - 1)) by nia.
    unfold xedge, xtl, xtr. cbv zeta. pose proof Hw as Hw'.
    set (W := npmf (px sh) (nxg sh)) in *.
    destruct (px sh) eqn:Epx;
    (match goal with
     | |- fst (fst (pair_assign ?tlf ?trf (loopz _ (fun _ s0 => pair_assign ?tlN ?trN s0) _))) _ = _ =>
       rewrite (pair_col_assign tlf tlN trf trN (LA, 0, h * (W - 1)) 0 (h * (W - 1)) eq_refl eq_refl Hwh)
     end);
    cbn [fst snd];
    (destruct (Z.eqb_spec i 0) as [->|Hi0];
     [ rewrite (proj2 (inr_true 0 h (0 * h + j))) by lia;
       replace (0 * h + j - 0) with j by ring; unfold fkind; destruct (isedge h j); reflexivity
     | rewrite (proj2 (inr_false 0 h (i * h + j))) by nia;
       destruct (Z.eqb_spec i (W - 1)) as [->|Hiw];
       [ rewrite (proj2 (inr_true (h * (W - 1)) h ((W - 1) * h + j))) by lia;
         replace ((W - 1) * h + j - h * (W - 1)) with j by ring; unfold fkind; destruct (isedge h j); reflexivity
       | rewrite (proj2 (inr_false (h * (W - 1)) h (i * h + j))) by nia; reflexivity ] ]).
  Qed.

  (* ---------------- y terms of interior rows *)
  Definition fi (i : Z) : T := if isedge w i then edgef O (px sh) else n1 O.
  Definition midrow (j : Z) : bool := (1 <=? j) && (j <? h - 1).

  Lemma yint_spec LA i j : 0 <= i < w -> 0 <= j < h ->
    yint O sh A LA (i * h + j) =
      if midrow j then nadd O (LA (i * h + j)) (cen O A ffy (Some (fi i)) (i * h + j) (i * h + j - 1) (i * h + j + 1))
      else LA (i * h + j).
  Proof.
    intros Hi Hj. unfold yint. cbv zeta.
    set (term := fun f idx => cen O A ffy (Some f) idx (idx - 1) (idx + 1)).
    set (body := fun i (s : (Z -> T) * Z * T) =>
       (fst (loopz (h - 2) (fun _ s0 => st_add O (term (if i =? w - 1 then edgef O (px sh) else if i =? 1 then n1 O else snd s)) s0) (fst s)),
        snd (loopz (h - 2) (fun _ s0 => st_add O (term (if i =? w - 1 then edgef O (px sh) else if i =? 1 then n1 O else snd s)) s0) (fst s)) + 2,
        if i =? w - 1 then edgef O (px sh) else if i =? 1 then n1 O else snd s)).
    assert (G : (fun s => forall i j, 0 <= j < h ->
                   fst (fst s) (i * h + j) = if (0 <=? i) && (i <? w) && midrow j
                                             then nadd O (LA (i * h + j)) (term (fi i) (i * h + j)) else LA (i * h + j))
                (loopz w body (LA, 1, edgef O (px sh)))).
    { apply (loopz_ind (fun k s => snd (fst s) = k * h + 1 /\ snd s = (if k =? 0 then edgef O (px sh) else fi (k - 1)) /\
               forall i j, 0 <= j < h ->
                 fst (fst s) (i * h + j) = if (0 <=? i) && (i <? k) && midrow j
                                           then nadd O (LA (i * h + j)) (term (fi i) (i * h + j)) else LA (i * h + j))); [lia | |].
      - cbn [fst snd]. repeat split. intros i0 j0 Hj0.
        destruct (Z.leb_spec 0 i0); destruct (Z.ltb_spec i0 0); cbn [andb]; try reflexivity; lia.
      - intros k s' Hk [I1 [I2 I3]]. unfold body.
        assert (Ef : (if k =? w - 1 then edgef O (px sh) else if k =? 1 then n1 O else snd s') = fi k).
        { unfold fi. rewrite I2.
          destruct (Z.eqb_spec k (w - 1)) as [E1|E1].
          - rewrite (proj2 (isedge_true w k)) by (right; auto). reflexivity.
          - destruct (Z.eqb_spec k 1) as [E2|E2].
            + rewrite (proj2 (isedge_false w k)) by lia. reflexivity.
            + destruct (Z.eqb_spec k 0) as [E3|E3].
              * rewrite (proj2 (isedge_true w k)) by (left; auto). reflexivity.
              * rewrite (proj2 (isedge_false w k)) by lia. unfold fi.
                rewrite (proj2 (isedge_false w (k - 1))) by lia. reflexivity. }
        rewrite Ef.
        pose proof (add_run O (h - 2) (term (fi k)) (fst (fst s')) (snd (fst s')) ltac:(lia)) as R. cbv zeta in R.
        replace (fst (fst s'), snd (fst s')) with (fst s') in R by (destruct (fst s'); reflexivity).
        destruct R as [R1 R2]. cbn [fst snd]. split; [rewrite R1, I1; ring|]. split.
        { destruct (Z.eqb_spec (k + 1) 0); [lia|]. replace (k + 1 - 1) with k by ring. reflexivity. }
        intros i0 j0 Hj0. rewrite R2, I1.
        destruct (Z.eq_dec i0 k) as [->|Hne].
        + destruct (midrow j0) eqn:M.
          * unfold midrow in M. apply andb_true_iff in M. destruct M as [M1 M2]. apply Z.leb_le in M1. apply Z.ltb_lt in M2.
            rewrite (proj2 (inr_true (k * h + 1) (h - 2) (k * h + j0))) by lia.
            rewrite I3 by auto. destruct (Z.ltb_spec k k); [lia|]. rewrite andb_false_r. cbn [andb].
            destruct (Z.leb_spec 0 k); [|lia]. destruct (Z.ltb_spec k (k + 1)); [|lia]. reflexivity.
          * rewrite (proj2 (inr_false (k * h + 1) (h - 2) (k * h + j0))).
            2:{ unfold midrow in M. apply andb_false_iff in M. rewrite Z.leb_gt, Z.ltb_ge in M. lia. }
            rewrite I3 by auto. rewrite ?M, !andb_false_r. reflexivity.
        + rewrite (proj2 (inr_false (k * h + 1) (h - 2) (i0 * h + j0))).
          2:{ intros Hin. apply Hne. apply (flat_col h i0 j0 k); lia. }
          rewrite I3 by auto.
          destruct (Z.leb_spec 0 i0); destruct (Z.ltb_spec i0 k); destruct (Z.ltb_spec i0 (k + 1)); cbn [andb]; try reflexivity; lia. }
    match goal with |- fst (fst (loopz _ ?b ?s0)) _ = _ =>
      replace (loopz w b s0) with (loopz w body s0) by (apply loopz_ext_body; intros; reflexivity) end.
    rewrite G by auto.
    destruct (Z.leb_spec 0 i); [|lia]. destruct (Z.ltb_spec i w); [|lia]. cbn [andb]. reflexivity.
  Qed.

  (* ---------------- y terms of the two edge rows *)
  Definition ytl (f : option T) (idx : Z) : T :=
    if py sh then cen O A ffy f idx (idx + (h - 1)) (idx + 1) else one_sided O A ffy f idx (idx + 1).
  Definition ytr (f : option T) (idx : Z) : T :=
    if py sh then cen O A ffy f idx (idx - 1) (idx - (h - 1)) else one_sided O A ffy f idx (idx + -1).

  Lemma pair_add_one (vl vr : Z -> T) (s : (Z -> T) * Z * Z) : snd s <> snd (fst s) ->
    forall q, fst (fst (pair_add O sh vl vr s)) q =
      if q =? snd s then nadd O (fst (fst s) q) (vr q)
      else if q =? snd (fst s) then nadd O (fst (fst s) q) (vl q) else fst (fst s) q.
  Proof.
    intros Hne q. unfold pair_add. cbn [fst snd].
    destruct (Z.eqb_spec q (snd s)) as [->|H2].
    - rewrite updz_same. rewrite updz_other by auto. reflexivity.
    - rewrite updz_other by auto.
      destruct (Z.eqb_spec q (snd (fst s))) as [->|H1]; [apply updz_same|]. rewrite updz_other by auto. reflexivity.
  Qed.

  Definition yrow_val (LA : Z -> T) (k : Z) (i j : Z) : T :=
    if (0 <=? i) && (i <? k)
    then (if j =? 0 then nadd O (LA (i * h + j)) (ytl (fkind (px sh) w i) (i * h + j))
          else if j =? h - 1 then nadd O (LA (i * h + j)) (ytr (fkind (px sh) w i) (i * h + j))
          else LA (i * h + j))
    else LA (i * h + j).

  Definition yedge_inv (LA : Z -> T) (k : Z) (s : (Z -> T) * Z * Z) : Prop :=
    snd (fst s) = k * h /\ snd s = k * h + (h - 1) /\
    forall i j, 0 <= j < h -> fst (fst s) (i * h + j) = yrow_val LA k i j.

  Lemma yedge_step LA k s f : 0 <= k -> f = fkind (px sh) w k -> yedge_inv LA k s ->
    yedge_inv LA (k + 1) (pair_add O sh (ytl f) (ytr f) s).
  Proof.
    intros Hk Hf [I1 [I2 I3]]. subst f. unfold yedge_inv. repeat split.
    - unfold pair_add. cbn [fst snd]. rewrite I1. ring.
    - unfold pair_add. cbn [fst snd]. rewrite I2. ring.
    - intros i j Hj. rewrite pair_add_one by lia. rewrite I1, I2. unfold yrow_val.
      destruct (Z.eqb_spec (i * h + j) (k * h + (h - 1))) as [E|E].
      + apply (flat_eq h i j k (h - 1)) in E; try lia. destruct E as [-> ->].
        rewrite I3 by lia. unfold yrow_val.
        destruct (Z.ltb_spec k k); [lia|]. rewrite andb_false_r.
        destruct (Z.leb_spec 0 k); [|lia]. destruct (Z.ltb_spec k (k + 1)); [|lia]. cbn [andb].
        destruct (Z.eqb_spec (h - 1) 0); [lia|]. rewrite Z.eqb_refl. reflexivity.
      + destruct (Z.eqb_spec (i * h + j) (k * h)) as [E'|E'].
        * replace (k * h) with (k * h + 0) in E' by ring. apply (flat_eq h i j k 0) in E'; try lia. destruct E' as [-> ->].
          rewrite I3 by lia. unfold yrow_val.
          destruct (Z.ltb_spec k k); [lia|]. rewrite andb_false_r.
          destruct (Z.leb_spec 0 k); [|lia]. destruct (Z.ltb_spec k (k + 1)); [|lia]. cbn [andb]. reflexivity.
        * rewrite I3 by auto. unfold yrow_val.
          destruct (Z.eq_dec i k) as [->|Hne].
          -- assert (j <> 0) by (intros ->; apply E'; ring). assert (j <> h - 1) by (intros ->; apply E; ring).
             destruct (Z.ltb_spec k k); [lia|]. rewrite andb_false_r.
             destruct (Z.leb_spec 0 k); [|lia]. destruct (Z.ltb_spec k (k + 1)); [|lia]. cbn [andb].
             destruct (Z.eqb_spec j 0); [contradiction|]. destruct (Z.eqb_spec j (h - 1)); [contradiction|]. reflexivity.
          -- destruct (Z.leb_spec 0 i); destruct (Z.ltb_spec i k); destruct (Z.ltb_spec i (k + 1)); cbn [andb]; try reflexivity; lia.
  Qed.

  Lemma yedge_spec LA i j : 0 <= i < w -> 0 <= j < h ->
    yedge O sh A LA (i * h + j) =
      if j =? 0 then nadd O (LA (i * h + j)) (ytl (fkind (px sh) w i) (i * h + j))
      else if j =? h - 1 then nadd O (LA (i * h + j)) (ytr (fkind (px sh) w i) (i * h + j))
      else LA (i * h + j).
  Proof.
    intros Hi Hj. unfold yedge. cbv beta zeta.
    assert (I0 : yedge_inv LA 0 (LA, 0, h - 1)).
    { unfold yedge_inv. cbn [fst snd]. repeat split; try ring. intros i0 j0 Hj0. unfold yrow_val.
      destruct (Z.leb_spec 0 i0); destruct (Z.ltb_spec i0 0); cbn [andb]; try reflexivity; lia. }
    assert (Fe : forall k, k = 0 \/ k = w - 1 -> Some (edgef O (px sh)) = fkind (px sh) w k).
    { intros k Hk. unfold fkind. rewrite (proj2 (isedge_true w k)) by auto. reflexivity. }
    assert (Fm : forall k, 0 < k < w - 1 -> None = fkind (px sh) w k).
    { intros k Hk. unfold fkind. rewrite (proj2 (isedge_false w k)) by lia. reflexivity. }
    assert (E : forall f s,
      pair_add O sh (fun idx => if py sh then cen O A ffy f idx (idx + (if py sh then h - 1 else -1)) (idx + 1)
                                else one_sided O A ffy f idx (idx + 1))
                    (fun idx => if py sh then cen O A ffy f idx (idx - 1) (idx - (if py sh then h - 1 else -1))
                                else one_sided O A ffy f idx (idx + (if py sh then h - 1 else -1))) s
      = pair_add O sh (ytl f) (ytr f) s)
      by (intros; unfold pair_add, ytl, ytr; destruct (py sh); reflexivity).
    cbv beta. rewrite !E.
    rewrite (loopz_ext_body (w - 2) _ (fun _ s => pair_add O sh (ytl None) (ytr None) s)) by (intros; apply E).
    pose proof (yedge_step LA 0 _ _ ltac:(lia) (Fe 0 ltac:(left; reflexivity)) I0) as I1.
    assert (I2 : yedge_inv LA (1 + (w - 2))
                   (loopz (w - 2) (fun _ s => pair_add O sh (ytl None) (ytr None) s)
                      (pair_add O sh (ytl (Some (edgef O (px sh)))) (ytr (Some (edgef O (px sh)))) (LA, 0, h - 1)))).
    { apply (loopz_ind (fun k s => yedge_inv LA (1 + k) s)); [lia | exact I1 |].
      intros k s' Hk Inv. replace (1 + (k + 1)) with ((1 + k) + 1) by ring.
      apply yedge_step; [lia | apply Fm; lia | exact Inv]. }
    pose proof (yedge_step LA (1 + (w - 2)) _ _ ltac:(lia) (Fe (1 + (w - 2)) ltac:(right; lia)) I2) as I3.
    destruct I3 as [_ [_ I3]]. rewrite I3 by auto. unfold yrow_val.
    destruct (Z.leb_spec 0 i); [|lia]. destruct (Z.ltb_spec i (1 + (w - 2) + 1)); [|lia]. cbn [andb]. reflexivity.
  Qed.
End Phases.

(* ------------------------------------------------------------------ loops = per-point stencil, over the reals *)
Section LoopsEqStencil.
  Local Open Scope R_scope.
  Variable sh : shape2 (T:=R).
  Variable A : Z -> R.
  Notation w := (npmf (px sh) (nxg sh)).
  Notation h := (npmf (py sh) (nyg sh)).
  Notation ffx := (1 / (wx sh * wx sh)).
  Notation ffy := (1 / (wy sh * wy sh)).
  Hypothesis Hw : (2 <= w)%Z.
  Hypothesis Hh : (2 <= h)%Z.

  Lemma wrap_m1 n : (2 <= n)%Z -> wrap1 true n (0 - 1) = (n - 1)%Z.
  Proof. intros Hn. rewrite wrap1_mod by lia. replace (0 - 1)%Z with (-1)%Z by lia. apply mod_minus_one. lia. Qed.
  Lemma wrap_small n k : (0 <= k < n)%Z -> wrap1 true n k = k.
  Proof. intros Hk. rewrite wrap1_mod by lia. apply Z.mod_small. lia. Qed.
  Lemma wrap_top n : (2 <= n)%Z -> wrap1 true n (n - 1 + 1) = 0%Z.
  Proof. intros Hn. rewrite wrap1_mod by lia. replace (n - 1 + 1)%Z with n by lia. apply Z.mod_same. lia. Qed.

  (* make the index expressions that are equal as polynomials syntactically equal *)
  Ltac norm_idx :=
    repeat match goal with
           | |- context [A ?e1] =>
             match goal with
             | |- context [A ?e2] => tryif constr_eq e1 e2 then fail else (replace e1 with e2 by ring)
             end
           end.

  Lemma kind_fact per n k (c : R) :
    match fkind Rops per n k with Some fa => fa * c | None => c end = efact Rops per n k * c.
  Proof.
    unfold fkind, efact, edgef, isedge. destruct per; destruct ((k =? 0)%Z || (k =? n - 1)%Z); cbn [n1 Rops]; ring.
  Qed.

  (* x direction *)
  Lemma xval_eq i j : (0 <= i < w)%Z -> (0 <= j < h)%Z ->
    (if (i =? 0)%Z then xtl Rops sh A (fkind Rops (py sh) h j) (i * h + j)
     else if (i =? w - 1)%Z then xtr Rops sh A (fkind Rops (py sh) h j) (i * h + j)
     else cen Rops A ffx (fkind Rops (py sh) h j) (i * h + j) (i * h + j - h) (i * h + j + h))
    = efact Rops (py sh) h j * ffx * lap1 Rops (px sh) w (fun i' => A (i' * h + j)%Z) i.
  Proof.
    intros Hi Hj. rewrite Rmult_assoc, <- kind_fact. pose proof Hw as Hw'.
    unfold xtl, xtr, cen, one_sided, lap1.
    set (W := npmf (px sh) (nxg sh)) in *.
    destruct (Z.eqb_spec i 0) as [->|Hi0]; [|destruct (Z.eqb_spec i (W - 1)) as [->|Hiw]].
    - destruct (px sh) eqn:Epx; cbn [nadd nsub nmul ndiv nofZ n1 Rops].
      + rewrite wrap_m1 by lia. rewrite (wrap_small W (0 + 1)) by lia.
        destruct (fkind Rops (py sh) h j); norm_idx; ring.
      + cbn [Z.eqb]. destruct (fkind Rops (py sh) h j); norm_idx; ring.
    - destruct (px sh) eqn:Epx; cbn [nadd nsub nmul ndiv nofZ n1 Rops].
      + rewrite wrap_top by lia. rewrite (wrap_small W (W - 1 - 1)) by lia.
        destruct (fkind Rops (py sh) h j); norm_idx; ring.
      + repeat match goal with |- context [(?a =? ?b)%Z] => destruct (Z.eqb_spec a b); try lia end.
        destruct (fkind Rops (py sh) h j); cbn [nsub Rops]; norm_idx; ring.
    - destruct (px sh) eqn:Epx; cbn [nadd nsub nmul ndiv nofZ n1 Rops].
      + rewrite (wrap_small W (i - 1)), (wrap_small W (i + 1)) by lia.
        destruct (fkind Rops (py sh) h j); norm_idx; ring.
      + destruct (Z.eqb_spec i 0); [lia|]. destruct (Z.eqb_spec i (W - 1)); [lia|].
        destruct (fkind Rops (py sh) h j); cbn [nadd nsub nmul nofZ Rops]; norm_idx; ring.
  Qed.

  (* y direction *)
  Lemma yval_eq i j : (0 <= i < w)%Z -> (0 <= j < h)%Z ->
    (if (j =? 0)%Z then ytl Rops sh A (fkind Rops (px sh) w i) (i * h + j)
     else if (j =? h - 1)%Z then ytr Rops sh A (fkind Rops (px sh) w i) (i * h + j)
     else cen Rops A ffy (Some (fi Rops sh i)) (i * h + j) (i * h + j - 1) (i * h + j + 1))
    = efact Rops (px sh) w i * ffy * lap1 Rops (py sh) h (fun j' => A (i * h + j')%Z) j.
  Proof.
    intros Hi Hj. rewrite Rmult_assoc.
    assert (Efi : forall c, fi Rops sh i * ffy * c = efact Rops (px sh) w i * (ffy * c)).
    { intros c. unfold fi, efact, edgef, isedge. destruct (px sh); destruct ((i =? 0)%Z || (i =? _ - 1)%Z); cbn [n1 Rops]; ring. }
    pose proof Hh as Hh'. unfold ytl, ytr, cen, one_sided, lap1.
    set (H := npmf (py sh) (nyg sh)) in *.
    destruct (Z.eqb_spec j 0) as [->|Hj0]; [|destruct (Z.eqb_spec j (H - 1)) as [->|Hjh]].
    - rewrite <- kind_fact. destruct (py sh) eqn:Epy; cbn [nadd nsub nmul ndiv nofZ n1 Rops].
      + rewrite wrap_m1 by lia. rewrite (wrap_small H (0 + 1)) by lia.
        destruct (fkind Rops (px sh) w i); norm_idx; ring.
      + cbn [Z.eqb]. destruct (fkind Rops (px sh) w i); norm_idx; ring.
    - rewrite <- kind_fact. destruct (py sh) eqn:Epy; cbn [nadd nsub nmul ndiv nofZ n1 Rops].
      + rewrite wrap_top by lia. rewrite (wrap_small H (H - 1 - 1)) by lia.
        destruct (fkind Rops (px sh) w i); norm_idx; ring.
      + repeat match goal with |- context [(?a =? ?b)%Z] => destruct (Z.eqb_spec a b); try lia end.
        destruct (fkind Rops (px sh) w i); cbn [nsub Rops]; norm_idx; ring.
    - cbn [nadd nsub nmul ndiv nofZ n1 Rops]. rewrite Efi. f_equal. f_equal.
      destruct (py sh) eqn:Epy; cbn [nadd nsub nmul nofZ Rops].
      + rewrite (wrap_small H (j - 1)), (wrap_small H (j + 1)) by lia. norm_idx. ring.
      + destruct (Z.eqb_spec j 0); [lia|]. destruct (Z.eqb_spec j (H - 1)); [lia|].
        cbn [nadd nsub nmul nofZ Rops]. norm_idx. ring.
  Qed.

  Theorem atimes2_loops_eq_stencil LA i j : (0 <= i < w)%Z -> (0 <= j < h)%Z ->
    atimes2_loops Rops sh A LA (i * h + j) = atimes2 Rops sh (fun p => A (fst p * h + snd p)%Z) (i, j).
  Proof.
    intros Hi Hj. rewrite atimes2_eq. cbn [fst snd].
    rewrite <- (xval_eq i j Hi Hj), <- (yval_eq i j Hi Hj).
    unfold atimes2_loops.
    rewrite (yedge_spec Rops sh A Hw Hh) by auto. rewrite (yint_spec Rops sh A Hw Hh) by auto.
    rewrite (xedge_spec Rops sh A Hw Hh) by auto. rewrite (xint_spec Rops sh A Hw Hh) by auto.
    unfold midrow. cbn [nadd Rops].
    destruct (Z.eqb_spec i 0) as [Ei|Ei]; [|destruct (Z.eqb_spec i (w - 1)) as [Ei'|Ei']];
    destruct (Z.eqb_spec j 0) as [Ej|Ej]; try (destruct (Z.eqb_spec j (h - 1)) as [Ej'|Ej']);
    repeat match goal with
           | |- context [(?a <=? ?b)%Z] => destruct (Z.leb_spec a b); try lia
           | |- context [(?a <? ?b)%Z] => destruct (Z.ltb_spec a b); try lia
           end; cbn [andb]; try reflexivity; try lia.
  Qed.
End LoopsEqStencil.
