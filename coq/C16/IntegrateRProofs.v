(* C16 proofs, part 2 (real numbers): 1-D cumulative sum and periodic closure, symmetry and kernel of
   the Laplacian (atimes), residual certificate. *)
Set Default Timeout 60.
From Coq Require Import ZArith List Bool Reals Lra Lia Psatz.
From CV Require Import Base.Num Base.RNum C16.IntegrateModel C16.IntegrateProofs.
Import ListNotations.
Local Open Scope R_scope.

(* ------------------------------------------------------------------ finite sums *)
Fixpoint psum (f : nat -> R) (n : nat) : R :=
  match n with O => 0 | S k => psum f k + f k end.

Lemma psum_ext f g n : (forall j, (j < n)%nat -> f j = g j) -> psum f n = psum g n.
Proof.
  induction n as [|n IH]; intros H; cbn [psum]; auto.
  rewrite IH by (intros j Hj; apply H; lia). rewrite (H n) by lia. reflexivity.
Qed.

Lemma psum_shift f n : psum f (S n) = f O + psum (fun j => f (S j)) n.
Proof.
  induction n as [|n IH]; [cbn [psum]; ring|].
  change (psum f (S (S n))) with (psum f (S n) + f (S n)). rewrite IH. cbn [psum]. ring.
Qed.

Lemma psum_plus f g n : psum (fun j => f j + g j) n = psum f n + psum g n.
Proof. induction n as [|n IH]; cbn [psum]; [ring | rewrite IH; ring]. Qed.

Lemma psum_scal c f n : psum (fun j => c * f j) n = c * psum f n.
Proof. induction n as [|n IH]; cbn [psum]; [ring | rewrite IH; ring]. Qed.

Lemma psum_zero n : psum (fun _ => 0) n = 0.
Proof. induction n as [|n IH]; cbn [psum]; [ring | rewrite IH; ring]. Qed.

Lemma psum_swap (F : nat -> nat -> R) n m :
  psum (fun i => psum (fun j => F i j) m) n = psum (fun j => psum (fun i => F i j) n) m.
Proof.
  induction n as [|n IH]; cbn [psum].
  - rewrite psum_zero. reflexivity.
  - rewrite IH, <- psum_plus. reflexivity.
Qed.

Lemma psum_sub_const g c w n : psum (fun j => (g j - c) * w) n = (psum g n - INR n * c) * w.
Proof.
  induction n as [|n IH]; [cbn [psum INR]; ring|].
  cbn [psum]. rewrite IH, S_INR. ring.
Qed.

(* ------------------------------------------------------------------ 1-D *)
Section OneD.
  Variable sc : smooth_cfg.

  Definition ghat (sm : bool) (gd : list R) (gc : list Z) (j : nat) : R := nth j (vals1 Rops sc sm gd gc) 0.

  Lemma vals1_length sm gd gc : length (vals1 Rops sc sm gd gc) = length gd.
  Proof.
    revert gc. induction gd as [|d gd IH]; intros gc; [reflexivity|].
    destruct gc as [|c gc]; cbn [vals1 length]; rewrite IH; reflexivity.
  Qed.

  Lemma cumsum_spec w corr vals : forall sum,
    length (fst (cumsum Rops w corr vals sum)) = length vals /\
    (forall i, (i < length vals)%nat ->
       nth i (fst (cumsum Rops w corr vals sum)) 0 = sum + psum (fun j => (nth j vals 0 - corr) * w) i) /\
    snd (cumsum Rops w corr vals sum) = sum + psum (fun j => (nth j vals 0 - corr) * w) (length vals).
  Proof.
    induction vals as [|v r IH]; intros sum.
    - cbn [cumsum fst snd length psum]. repeat split; [intros i Hi; lia | ring].
    - cbn [cumsum]. specialize (IH (nadd Rops sum (nmul Rops (nsub Rops v corr) w))).
      destruct (cumsum Rops w corr r (nadd Rops sum (nmul Rops (nsub Rops v corr) w))) as [l s].
      cbn [fst snd length nadd nmul nsub Rops] in *. destruct IH as [IH1 [IH2 IH3]].
      split; [rewrite IH1; reflexivity|]. split.
      + intros i Hi. destruct i as [|i]; [cbn [nth psum]; ring|].
        cbn [nth]. rewrite IH2 by lia. rewrite psum_shift. cbn [nth]. ring.
      + rewrite IH3. rewrite psum_shift. cbn [nth]. ring.
  Qed.

  Lemma fold_left_Rplus l : forall a, fold_left Rplus l a = a + psum (fun j => nth j l 0) (length l).
  Proof.
    induction l as [|x l IH]; intros a; [cbn [fold_left length psum]; ring|].
    cbn [fold_left length]. rewrite IH, psum_shift. cbn [nth]. ring.
  Qed.

  (* average(smoothed) is the arithmetic mean of the (smoothed) bin values *)
  Lemma average1_is_mean sm gd gc : gd <> [] ->
    average1 Rops sc sm gd gc = psum (ghat sm gd gc) (length gd) / INR (length gd).
  Proof.
    intros Hne. unfold average1. destruct gd as [|d gd']; [contradiction|].
    set (gd := d :: gd') in *. cbn [ndiv nadd n0 nofZ Rops].
    change (fold_left (nadd Rops)) with (fold_left Rplus).
    rewrite fold_left_Rplus, vals1_length, <- INR_IZR_INZ. unfold ghat.
    f_equal. ring.
  Qed.

  (* the unsmoothed value of a bin is the accumulated sum divided by the count (0 for an empty bin) *)
  Lemma bin_average gd gc j : s_has_samples sc = true ->
    (j < length gd)%nat -> length gc = length gd ->
    ghat false gd gc j = if (0 <? nth j gc 0%Z)%Z then nth j gd 0 / IZR (nth j gc 0%Z) else 0.
  Proof.
    intros Hs. unfold ghat. revert gc j. induction gd as [|d gd IH]; intros gc j Hj Hl; [cbn in Hj; lia|].
    destruct gc as [|c gc]; [cbn in Hl; lia|]. cbn [vals1].
    destruct j as [|j]; cbn [nth].
    - unfold out_fact. rewrite Hs. cbn [nmul nltb ndiv n0 n1 nofZ Rops].
      destruct (Z.ltb_spec 0 c) as [Hc|Hc].
      + assert (0 < IZR c) by (apply IZR_lt; auto). rewrite (proj2 (Rltb_true 0 (IZR c))) by auto. field. lra.
      + assert (IZR c <= 0) by (apply IZR_le; auto). rewrite (proj2 (Rltb_false 0 (IZR c))) by auto. ring.
    - apply IH; cbn [length] in *; lia.
  Qed.

  (* between minSamples and fullSamples the smoothed value is the bin average times the ramp *)
  Lemma smoothed_value gd gc j : s_has_samples sc = true ->
    (j < length gd)%nat -> length gc = length gd ->
    let c := nth j gc 0%Z in
    ghat true gd gc j =
      if Z_le_dec c (s_min sc) then 0
      else if Z_lt_dec c (s_full sc)
           then IZR (c - s_min sc) / IZR (s_full sc - s_min sc) * (nth j gd 0 / IZR c)
           else nth j gd 0 / IZR c.
  Proof.
    intros Hs. unfold ghat. revert gc j. induction gd as [|d gd IH]; intros gc j Hj Hl; [cbn in Hj; lia|].
    destruct gc as [|c gc]; [cbn in Hl; lia|]. cbn [vals1].
    destruct j as [|j]; cbn [nth].
    - unfold out_fact, smooth_inverse_weight. rewrite Hs. cbn [nmul nltb nleb ndiv nsub n0 n1 nofZ Rops]. cbv zeta.
      destruct (Z_le_dec c (s_min sc)) as [H1|H1].
      + rewrite (proj2 (Rleb_true (IZR c) (IZR (s_min sc)))) by (apply IZR_le; auto). ring.
      + rewrite (proj2 (Rleb_false (IZR c) (IZR (s_min sc)))) by (apply IZR_lt; lia).
        destruct (Z_lt_dec c (s_full sc)) as [H2|H2].
        * rewrite (proj2 (Rltb_true (IZR c) (IZR (s_full sc)))) by (apply IZR_lt; auto).
          assert (Hmin : 0 <= IZR (s_min sc) \/ IZR (s_min sc) < 0) by lra.
          rewrite !minus_IZR.
          assert (IZR (s_min sc) < IZR c) by (apply IZR_lt; lia).
          assert (IZR c < IZR (s_full sc)) by (apply IZR_lt; lia).
          destruct (Req_dec (IZR c) 0) as [E|E].
          -- rewrite E. unfold Rdiv. rewrite Rmult_0_l, Rinv_0, !Rmult_0_r, Rmult_0_l. ring.
          -- field. split; lra.
        * rewrite (proj2 (Rltb_false (IZR c) (IZR (s_full sc)))) by (apply IZR_le; lia). unfold Rdiv. ring.
    - apply IH; cbn [length] in *; lia.
  Qed.

  Lemma integrate1_spec (per sm : bool) w gd gc :
    let corr := if per then average1 Rops sc sm gd gc else 0 in
    let pmf := integrate1 Rops sc per sm w gd gc in
    length pmf = (if per then length gd else S (length gd)) /\
    forall i, (i < length pmf)%nat -> nth i pmf 0 = psum (fun j => (ghat sm gd gc j - corr) * w) i.
  Proof.
    cbv zeta. unfold integrate1. cbn [n0 Rops].
    set (corr := if per then average1 Rops sc sm gd gc else 0).
    pose proof (cumsum_spec w corr (vals1 Rops sc sm gd gc) 0) as [H1 [H2 H3]].
    destruct (cumsum Rops w corr (vals1 Rops sc sm gd gc) 0) as [l s]. cbn [fst snd] in *.
    rewrite vals1_length in *. unfold ghat.
    destruct per.
    - split; [auto|]. intros i Hi. rewrite H2 by lia. ring.
    - split; [rewrite app_length, H1; cbn [length]; lia|].
      intros i Hi. rewrite app_length in Hi. cbn [length] in Hi.
      destruct (Nat.eq_dec i (length gd)) as [E|E].
      + subst i. rewrite app_nth2 by lia. rewrite H1, Nat.sub_diag. cbn [nth]. rewrite H3. ring.
      + rewrite app_nth1 by lia. rewrite H2 by lia. ring.
  Qed.

  Lemma closing1_spec (per sm : bool) w gd gc :
    let corr := if per then average1 Rops sc sm gd gc else 0 in
    closing1 Rops sc per sm w gd gc = psum (fun j => (ghat sm gd gc j - corr) * w) (length gd).
  Proof.
    cbv zeta. unfold closing1. cbn [n0 Rops].
    set (corr := if per then average1 Rops sc sm gd gc else 0).
    pose proof (cumsum_spec w corr (vals1 Rops sc sm gd gc) 0) as [H1 [H2 H3]].
    rewrite H3, vals1_length. unfold ghat. ring.
  Qed.

  (* periodic closure: the mean that is removed is the mean of the gradients that are integrated *)
  Lemma periodic_closes sm w gd gc : gd <> [] ->
    closing1 Rops sc true sm w gd gc = 0.
  Proof.
    intros Hne. rewrite closing1_spec. rewrite psum_sub_const.
    rewrite average1_is_mean by auto.
    assert (Hn : INR (length gd) <> 0).
    { apply not_0_INR. destruct gd; [contradiction | cbn [length]; lia]. }
    field. auto.
  Qed.

  (* ---------------- write_1D_integral (.ti.pmf) *)
  Definition tval (gd : list R) (gc : list Z) (j : nat) : R := ti_val Rops sc (nth j gd 0) (nth j gc 0%Z).
  (* the partial sums that the loop goes through *)
  Definition tsum (per : bool) w gd gc (i : nat) : R :=
    psum (fun j => (tval gd gc j - (if per then average1 Rops sc false gd gc else 0)) * w) i.

  Lemma nth_tl {A} (l : list A) j d : nth j (tl l) d = nth (S j) l d.
  Proof. destruct l; [destruct j; reflexivity | reflexivity]. Qed.

  Lemma ti_loop_spec w corr : forall gd gc I M,
    let l := fst (ti_loop Rops sc w corr gd gc I M) in
    let m := snd (ti_loop Rops sc w corr gd gc I M) in
    length l = length gd /\
    (forall i, (i < length gd)%nat -> nth i l 0 = I + psum (fun j => (tval gd gc j - corr) * w) (S i)) /\
    m <= M /\ (forall i, (i < length gd)%nat -> m <= nth i l 0) /\
    (m = M \/ exists i, (i < length gd)%nat /\ m = nth i l 0).
  Proof.
    induction gd as [|d gd IH]; intros gc I M; cbv zeta.
    - cbn [ti_loop fst snd length]. repeat split; try (intros i Hi; lia); [lra | left; reflexivity].
    - cbn [ti_loop].
      set (c := match gc with c :: _ => c | [] => 0%Z end).
      assert (Hc : c = nth 0 gc 0%Z) by (destruct gc; reflexivity).
      set (I' := nadd Rops I (nmul Rops (nsub Rops (ti_val Rops sc d c) corr) w)).
      set (M' := if nltb Rops I' M then I' else M).
      specialize (IH (tl gc) I' M'). cbv zeta in IH.
      destruct (ti_loop Rops sc w corr gd (tl gc) I' M') as [l m]. cbn [fst snd length] in *.
      destruct IH as [IH1 [IH2 [IH3 [IH4 IH5]]]].
      assert (HI' : I' = I + (tval (d :: gd) gc 0 - corr) * w).
      { unfold I', tval. cbn [nth nadd nmul nsub Rops]. rewrite Hc. reflexivity. }
      assert (Hsh : forall k, psum (fun j => (tval (d :: gd) gc j - corr) * w) (S k) =
                              (tval (d :: gd) gc 0 - corr) * w + psum (fun j => (tval gd (tl gc) j - corr) * w) k).
      { intros k. rewrite psum_shift. f_equal. apply psum_ext. intros j Hj. unfold tval. cbn [nth]. rewrite nth_tl. reflexivity. }
      assert (HM' : M' <= M /\ M' <= I' /\ (M' = M \/ M' = I')).
      { unfold M'. cbn [nltb Rops]. destruct (Rltb I' M) eqn:E.
        - apply Rltb_true in E. lra.
        - apply Rltb_false in E. lra. }
      split; [rewrite IH1; reflexivity|]. split; [|split; [|split]].
      + intros i Hi. destruct i as [|i]; cbn [nth].
        * rewrite HI'. cbn [psum]. ring.
        * rewrite IH2 by lia. rewrite HI', (Hsh (S i)). ring.
      + lra.
      + intros i Hi. destruct i as [|i]; cbn [nth]; [lra | apply IH4; lia].
      + destruct IH5 as [E | [i [Hi E]]].
        * destruct HM' as [_ [_ [E' | E']]]; [left; lra | right; exists 0%nat; split; [lia | cbn [nth]; lra]].
        * right. exists (S i). split; [lia | exact E].
  Qed.

  (* the written column: n+1 values; entry i is the partial sum up to bin i minus the smallest partial sum *)
  Lemma ti_integral1_spec per w gd gc :
    let out := ti_integral1 Rops sc per w gd gc in
    length out = S (length gd) /\
    exists m, (forall i, (i <= length gd)%nat -> nth i out 0 = tsum per w gd gc i - m) /\
              (forall i, (i <= length gd)%nat -> m <= tsum per w gd gc i) /\
              (exists k, (k <= length gd)%nat /\ m = tsum per w gd gc k).
  Proof.
    cbv zeta. unfold ti_integral1. cbn [n0 Rops].
    set (corr := if per then average1 Rops sc false gd gc else 0).
    pose proof (ti_loop_spec w corr gd gc 0 0) as H. cbv zeta in H.
    destruct (ti_loop Rops sc w corr gd gc 0 0) as [l m]. cbn [fst snd] in H.
    destruct H as [H1 [H2 [H3 [H4 H5]]]].
    split; [rewrite map_length; cbn [length]; rewrite H1; reflexivity|].
    assert (Hts : forall i, (i < length gd)%nat -> nth i l 0 = tsum per w gd gc (S i)).
    { intros i Hi. rewrite H2 by auto. unfold tsum. fold corr. ring. }
    exists m. split; [|split].
    - intros i Hi. rewrite (nth_indep _ 0 ((fun v => nsub Rops v m) 0)) by (rewrite map_length; cbn [length]; lia).
      rewrite (map_nth (fun v => nsub Rops v m)).
      cbn [nsub Rops]. destruct i as [|i]; cbn [nth].
      + unfold tsum. cbn [psum]. ring.
      + rewrite Hts by lia. ring.
    - intros i Hi. destruct i as [|i]; [unfold tsum; cbn [psum]; lra|].
      rewrite <- Hts by lia. apply H4. lia.
    - destruct H5 as [E | [i [Hi E]]].
      + exists 0%nat. split; [lia | unfold tsum; cbn [psum]; lra].
      + exists (S i). split; [lia | rewrite <- Hts by lia; exact E].
  Qed.

  (* for non-negative counts the bin value of write_1D_integral is the unsmoothed bin average *)
  Lemma tval_ghat gd : forall gc j, Forall (fun c => 0 <= c)%Z gc -> (j < length gd)%nat ->
    tval gd gc j = ghat false gd gc j.
  Proof.
    unfold tval, ghat. induction gd as [|d gd IH]; intros gc j Hc Hj; [cbn in Hj; lia|].
    destruct gc as [|c gc]; cbn [vals1].
    - destruct j as [|j]; cbn [nth].
      + unfold ti_val, out_fact. destruct (s_has_samples sc); cbn [nmul nltb ndiv n0 n1 nofZ Rops Z.eqb].
        * rewrite (proj2 (Rltb_false 0 0)) by lra. ring.
        * rewrite (proj2 (Rltb_true 0 1)) by lra. field.
      + specialize (IH [] j Hc). destruct j; cbn [nth] in IH |- *; apply IH; cbn [length] in *; lia.
    - inversion Hc as [|c' gc' Hc0 Hc']; subst.
      destruct j as [|j]; cbn [nth].
      + unfold ti_val, out_fact. destruct (s_has_samples sc); cbn [nmul nltb ndiv n0 n1 nofZ Rops].
        * destruct (Z.eqb_spec c 0) as [->|Hne].
          -- rewrite (proj2 (Rltb_false 0 0)) by lra. ring.
          -- assert (0 < IZR c) by (apply IZR_lt; lia).
             rewrite (proj2 (Rltb_true 0 (IZR c))) by auto. field. lra.
        * rewrite (proj2 (Rltb_true 0 1)) by lra. field.
      + apply IH; cbn [length] in *; [auto | lia].
  Qed.

  (* periodic: the last partial sum is 0, so the last written value equals the first *)
  Lemma tsum_periodic_closes w gd gc : gd <> [] -> Forall (fun c => 0 <= c)%Z gc ->
    tsum true w gd gc (length gd) = 0.
  Proof.
    intros Hne Hc. unfold tsum. rewrite psum_sub_const. rewrite average1_is_mean by auto.
    assert (Hn : INR (length gd) <> 0).
    { apply not_0_INR. destruct gd; [contradiction | cbn [length]; lia]. }
    rewrite (psum_ext (tval gd gc) (ghat false gd gc)) by (intros j Hj; apply tval_ghat; auto).
    field. auto.
  Qed.

  (* the column written for a periodic variable ends where it starts *)
  Lemma ti_periodic_last_eq_first w gd gc : gd <> [] -> Forall (fun c => 0 <= c)%Z gc ->
    let out := ti_integral1 Rops sc true w gd gc in
    nth (length gd) out 0 = nth 0 out 0.
  Proof.
    intros Hne Hc. cbv zeta. destruct (ti_integral1_spec true w gd gc) as [_ [m [H1 _]]]. cbv zeta in H1.
    rewrite (H1 (length gd)) by lia. rewrite (H1 0%nat) by lia.
    rewrite tsum_periodic_closes by auto. unfold tsum. cbn [psum]. ring.
  Qed.

  (* the column is shifted so that its minimum is zero *)
  Lemma ti_minimum_is_zero per w gd gc :
    let out := ti_integral1 Rops sc per w gd gc in
    (forall i, (i <= length gd)%nat -> 0 <= nth i out 0) /\ (exists k, (k <= length gd)%nat /\ nth k out 0 = 0).
  Proof.
    cbv zeta. destruct (ti_integral1_spec per w gd gc) as [_ [m [H1 [H2 [k [Hk E]]]]]]. cbv zeta in H1.
    split.
    - intros i Hi. rewrite H1 by auto. specialize (H2 i Hi). lra.
    - exists k. split; [auto|]. rewrite H1 by auto. lra.
  Qed.
End OneD.

(* ------------------------------------------------------------------ the empty state is consistent (reals) *)
Lemma init2_consistent sc sm (sh : shape2 (T:=R)) : consistent2 Rops sc sm sh (init2 Rops).
Proof.
  intros p Hp. unfold init2, div_value2, div_formula2, gval2, get_grad2. cbn [dv2 gsum2 gcnt2].
  repeat match goal with |- context [wde2 sh ?ix] => destruct (wde2 sh ix) as [[|] ?] end;
  cbn [fst snd n0 nadd nsub nmul ndiv Rops]; unfold Rdiv; ring.
Qed.

Lemma gval3_init sc sm (sh : shape3 (T:=R)) ix : gval3 Rops sc sm sh (init3 Rops) ix = (0, 0, 0).
Proof.
  unfold gval3, get_grad3, init3, t3x, t3y, t3z. cbn [gsum3 gcnt3].
  destruct (wde3 sh ix) as [[|] ?]; cbn [fst snd n0 nmul Rops]; rewrite ?Rmult_0_r; reflexivity.
Qed.

Lemma init3_consistent sc sm (sh : shape3 (T:=R)) : consistent3 Rops sc sm sh (init3 Rops).
Proof.
  intros p Hp. unfold div_value3. cbv zeta. rewrite !gval3_init.
  unfold init3, div_formula3, t3x, t3y, t3z. cbn [dv3 fst snd n0 nadd nsub nmul ndiv Rops]. unfold Rdiv. ring.
Qed.

(* ------------------------------------------------------------------ smoothed gradients inside the divergence *)
Lemma out_fact_below_min sc c : s_has_samples sc = true -> (c <= s_min sc)%Z -> out_fact Rops sc true c = 0.
Proof.
  intros Hs Hc. unfold out_fact, smooth_inverse_weight. rewrite Hs. cbn [nleb nofZ n0 Rops].
  rewrite (proj2 (Rleb_true (IZR c) (IZR (s_min sc)))) by (apply IZR_le; auto). reflexivity.
Qed.

Lemma out_fact_above_full sc c : s_has_samples sc = true -> (s_min sc < c)%Z -> (s_full sc <= c)%Z ->
  out_fact Rops sc true c = 1 / IZR c.
Proof.
  intros Hs H1 H2. unfold out_fact, smooth_inverse_weight. rewrite Hs. cbn [nleb nltb ndiv nofZ n0 n1 Rops].
  rewrite (proj2 (Rleb_false (IZR c) (IZR (s_min sc)))) by (apply IZR_lt; auto).
  rewrite (proj2 (Rltb_false (IZR c) (IZR (s_full sc)))) by (apply IZR_le; auto). reflexivity.
Qed.

(* a bin at or below minSamples contributes a zero gradient to every divergence stencil that reads it, whatever
   its neighbours hold; a bin at or above fullSamples contributes its plain average *)
Lemma gval2_below_min sc (sh : shape2 (T:=R)) st ix : s_has_samples sc = true ->
  (gcnt2 st (snd (wde2 sh ix)) <= s_min sc)%Z -> gval2 Rops sc true sh st ix = (0, 0).
Proof.
  intros Hs Hc. unfold gval2, get_grad2. destruct (wde2 sh ix) as [e ix'] eqn:E. cbn [snd] in Hc.
  destruct e; [reflexivity|]. rewrite (out_fact_below_min sc _ Hs Hc). cbn [fst nmul Rops]. rewrite !Rmult_0_l. reflexivity.
Qed.

Lemma gval3_below_min sc (sh : shape3 (T:=R)) st ix : s_has_samples sc = true ->
  (gcnt3 st (snd (wde3 sh ix)) <= s_min sc)%Z -> gval3 Rops sc true sh st ix = (0, 0, 0).
Proof.
  intros Hs Hc. unfold gval3, get_grad3. destruct (wde3 sh ix) as [e ix'] eqn:E. cbn [snd] in Hc.
  destruct e; [reflexivity|]. rewrite (out_fact_below_min sc _ Hs Hc). cbn [fst nmul Rops]. rewrite !Rmult_0_l. reflexivity.
Qed.
