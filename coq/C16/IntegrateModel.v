(* C16 model: integrate_potential (src/colvargrid.cpp / colvargrid.h).
   Definitions only; generic over the numeric carrier (NumOps); extracted and run against the C++.

   What is mirrored (function by function, same order of reads/updates, same guards):
     colvar_grid_gradient::smooth_inverse_weight, value_output_smoothed / vector_value_smoothed,
     average(), colvar_grid::wrap / wrap_detect_edge (per dimension),
     integrate_potential::integrate (nd == 1), get_grad, update_div_local (nd == 2, 3),
     update_div_neighbors (nd == 2, 3), set_div, acc_force (the arrival of one ABF sample),
     atimes (nd == 2, 3; as a per-point function, see NOTES.md).
   Grids are total functions from index vectors to values with pointwise update (DESIGN 3.3);
   C15_address_bijective is the bridge to the flat arrays. *)
From Coq Require Import ZArith List Bool.
From CV Require Import Base.Num.
Import ListNotations.
Local Open Scope Z_scope.

(* index ranges 0 .. n-1 in increasing order (new_index / incr loops) *)
Definition zrange (n : Z) : list Z := map Z.of_nat (seq 0 (Z.to_nat n)).

Notation ix2 := (Z * Z)%type (only parsing).
Notation ix3 := (Z * Z * Z)%type (only parsing).
Definition ix2_eqb (a b : ix2) : bool := (fst a =? fst b) && (snd a =? snd b).
Definition ix3_eqb (a b : ix3) : bool :=
  (fst (fst a) =? fst (fst b)) && (snd (fst a) =? snd (fst b)) && (snd a =? snd b).
Definition upd2 {V} (g : ix2 -> V) (k : ix2) (v : V) : ix2 -> V := fun q => if ix2_eqb q k then v else g q.
Definition upd3 {V} (g : ix3 -> V) (k : ix3) (v : V) : ix3 -> V := fun q => if ix3_eqb q k then v else g q.

(* colvar_grid::wrap / wrap_detect_edge, one dimension: ((ix % nx) + nx) % nx with the C++ truncating
   remainder, i.e. the mathematical modulo, if periodic; otherwise the index is left alone and reported
   as an edge when out of range *)
Definition wrap1 (per : bool) (n i : Z) : Z := if per then Z.rem (Z.rem i n + n) n else i.
Definition edge1 (per : bool) (n i : Z) : bool := if per then false else (i <? 0) || (n <=? i).
(* size of the PMF grid along a dimension whose gradient grid has n points (one extra point if not periodic) *)
Definition npmf (per : bool) (n : Z) : Z := if per then n else n + 1.

Section Integrate.
  Context {T : Type} (O : NumOps T).
  Let zero := n0 O.
  Let one := n1 O.
  Let add := nadd O.
  Let sub := nsub O.
  Let mul := nmul O.
  Let div := ndiv O.
  Let ofZ := nofZ O.

  (* ------------------------------------------------------------------ sample weights *)
  (* has_samples: gradients->samples != NULL; min_s/full_s: gradients->min_samples/full_samples *)
  Record smooth_cfg := mkSmooth { s_has_samples : bool; s_min : Z; s_full : Z }.
  Variable sc : smooth_cfg.

  Definition smooth_inverse_weight (weight : T) : T :=
    if nleb O weight (ofZ (s_min sc)) then zero
    else if nltb O weight (ofZ (s_full sc))
         then div (sub weight (ofZ (s_min sc))) (mul weight (ofZ (s_full sc - s_min sc)))
         else div one weight.

  (* the factor applied to the accumulated sum in value_output_smoothed / vector_value_smoothed *)
  Definition out_fact (smoothed : bool) (count : Z) : T :=
    let weight := if s_has_samples sc then ofZ count else one in
    if smoothed then smooth_inverse_weight weight
    else if nltb O zero weight then div one weight else zero.

  (* ------------------------------------------------------------------ one dimension *)
  (* gradient grid: accumulated sums gd and counts gc (same length = nx[0]) *)
  Fixpoint vals1 (smoothed : bool) (gd : list T) (gc : list Z) : list T :=
    match gd, gc with
    | d :: gd', c :: gc' => mul (out_fact smoothed c) d :: vals1 smoothed gd' gc'
    | d :: gd', [] => mul (out_fact smoothed 0) d :: vals1 smoothed gd' []
    | [], _ => []
    end.

  (* colvar_grid_gradient::average(smoothed): sum of value_output_smoothed(ix, smoothed) / nx[0] *)
  Definition average1 (smoothed : bool) (gd : list T) (gc : list Z) : T :=
    match gd with
    | [] => zero
    | _ => div (fold_left add (vals1 smoothed gd gc) zero) (ofZ (Z.of_nat (length gd)))
    end.

  (* the loop of integrate(): set_value(ix, sum); sum += (val - corr) * widths[0] *)
  Fixpoint cumsum (w corr : T) (vals : list T) (sum : T) : list T * T :=
    match vals with
    | [] => ([], sum)
    | v :: r => let '(l, s) := cumsum w corr r (add sum (mul (sub v corr) w)) in (sum :: l, s)
    end.

  (* integrate(), nd == 1: the data array of the PMF grid (nx points if periodic, nx+1 otherwise) *)
  (* corr = gradients->average(b_smoothed) (after the fix "1-D PMF of a periodic variable was not periodic with
     smoothed gradients"; before it the call was average(), i.e. average1 false) *)
  Definition integrate1 (per b_smoothed : bool) (w : T) (gd : list T) (gc : list Z) : list T :=
    let corr := if per then average1 b_smoothed gd gc else zero in
    let '(l, s) := cumsum w corr (vals1 b_smoothed gd gc) zero in
    if per then l else l ++ [s].

  (* the value the loop holds after the last bin (what index nx would receive) *)
  Definition closing1 (per b_smoothed : bool) (w : T) (gd : list T) (gc : list Z) : T :=
    let corr := if per then average1 b_smoothed gd gc else zero in
    snd (cumsum w corr (vals1 b_smoothed gd gc) zero).

  (* ---- colvar_grid_gradient::write_1D_integral (the .ti.pmf file of colvarbias::write_state_data):
     int_vals = [0; partial sums], min = the smallest partial sum (starting from 0), output int_vals[i] - min,
     nx+1 values whatever the periodicity.  Bin value: value(ix) / samples_here (a division, unlike
     value_output_smoothed) or 0 for an empty bin; (after the fix "TI PMF of a periodic variable ..." the
     correction is subtracted in every bin; before it an empty bin added nothing at all) *)
  Definition ti_val (d : T) (c : Z) : T :=
    if s_has_samples sc then (if c =? 0 then zero else div d (ofZ c)) else d.

  Fixpoint ti_loop (w corr : T) (gd : list T) (gc : list Z) (integral mn : T) : list T * T :=
    match gd with
    | [] => ([], mn)
    | d :: gd' =>
      let c := match gc with c :: _ => c | [] => 0 end in
      let integral := add integral (mul (sub (ti_val d c) corr) w) in
      let mn := if nltb O integral mn then integral else mn in
      let '(l, m) := ti_loop w corr gd' (tl gc) integral mn in (integral :: l, m)
    end.

  Definition ti_integral1 (per : bool) (w : T) (gd : list T) (gc : list Z) : list T :=
    let corr := if per then average1 false gd gc else zero in
    let '(l, m) := ti_loop w corr gd gc zero zero in
    map (fun v => sub v m) (zero :: l).

  (* ------------------------------------------------------------------ two dimensions *)
  Variable b_smoothed : bool.

  Record shape2 := mkShape2 { px : bool; py : bool; nxg : Z; nyg : Z; wx : T; wy : T }.
  Record state2 := mkState2 { gsum2 : ix2 -> T * T; gcnt2 : ix2 -> Z; dv2 : ix2 -> T }.

  Section Dim2.
    Variable sh : shape2.

    (* gradients->wrap_detect_edge(ix): returns edge and the index modified in place *)
    Definition wde2 (ix : ix2) : bool * ix2 :=
      (edge1 (px sh) (nxg sh) (fst ix) || edge1 (py sh) (nyg sh) (snd ix),
       (wrap1 (px sh) (nxg sh) (fst ix), wrap1 (py sh) (nyg sh) (snd ix))).

    (* get_grad(g, ix): zero on an edge, otherwise the (smoothed) average; ix is modified *)
    Definition get_grad2 (st : state2) (ix : ix2) : (T * T) * ix2 :=
      let '(edge, ix') := wde2 ix in
      if edge then ((zero, zero), ix')
      else let f := out_fact b_smoothed (gcnt2 st ix') in
           ((mul f (fst (gsum2 st ix')), mul f (snd (gsum2 st ix'))), ix').

    (* the arithmetic of update_div_local, nd == 2 *)
    Definition div_formula2 (g00 g01 g10 g11 : T * T) : T :=
      mul (add (div (sub (add (sub (fst g10) (fst g00)) (fst g11)) (fst g01)) (wx sh))
               (div (sub (add (sub (snd g01) (snd g00)) (snd g11)) (snd g10)) (wy sh)))
          (nhalf O).

    (* update_div_local(ix0), nd == 2, with the index variable ix threaded as in the code *)
    Definition update_div_local2 (st : state2) (D : ix2 -> T) (ix0 : ix2) : ix2 -> T :=
      let ix := ix0 in
      let '(g11, ix) := get_grad2 st ix in
      let ix := (fst ix0 - 1, snd ix) in
      let '(g01, ix) := get_grad2 st ix in
      let ix := (fst ix, snd ix0 - 1) in
      let '(g00, ix) := get_grad2 st ix in
      let ix := (fst ix0, snd ix) in
      let '(g10, ix) := get_grad2 st ix in
      upd2 D ix0 (div_formula2 g00 g01 g10 g11).

    (* this->wrap(ix) on the PMF grid *)
    Definition wrapP2 (ix : ix2) : ix2 :=
      (wrap1 (px sh) (npmf (px sh) (nxg sh)) (fst ix), wrap1 (py sh) (npmf (py sh) (nyg sh)) (snd ix)).

    (* update_div_neighbors(ix0), nd == 2 *)
    Definition update_div_neighbors2 (st : state2) (D : ix2 -> T) (ix0 : ix2) : ix2 -> T :=
      let ix := ix0 in
      let D := update_div_local2 st D ix in
      let ix := wrapP2 (fst ix + 1, snd ix) in
      let D := update_div_local2 st D ix in
      let ix := wrapP2 (fst ix, snd ix + 1) in
      let D := update_div_local2 st D ix in
      let ix := wrapP2 (fst ix - 1, snd ix) in
      update_div_local2 st D ix.

    (* all index vectors of the PMF grid in the order of new_index()/incr() *)
    Definition all_ix2 : list ix2 :=
      flat_map (fun i => map (fun j => (i, j)) (zrange (npmf (py sh) (nyg sh)))) (zrange (npmf (px sh) (nxg sh))).

    (* set_div() *)
    Definition set_div2 (st : state2) : state2 :=
      mkState2 (gsum2 st) (gcnt2 st) (fold_left (update_div_local2 st) all_ix2 (dv2 st)).

    (* gradients->acc_force(ix, force): sums the opposite of the force, increments the count *)
    Definition acc_force2 (st : state2) (b : ix2) (f : T * T) : state2 :=
      mkState2 (upd2 (gsum2 st) b (sub (fst (gsum2 st b)) (fst f), sub (snd (gsum2 st b)) (snd f)))
               (upd2 (gcnt2 st) b (gcnt2 st b + 1))
               (dv2 st).

    (* one ABF sample (colvarbias_abf::update): acc_force then update_div_neighbors *)
    Definition arrive2 (st : state2) (e : ix2 * (T * T)) : state2 :=
      let st' := acc_force2 st (fst e) (snd e) in
      mkState2 (gsum2 st') (gcnt2 st') (update_div_neighbors2 st' (dv2 st') (fst e)).

    Definition run2 (st : state2) (h : list (ix2 * (T * T))) : state2 := fold_left arrive2 h st.

    (* data accumulated without divergence update (grids read at start-up) *)
    Definition preload2 (st : state2) (h : list (ix2 * (T * T))) : state2 :=
      fold_left (fun s e => acc_force2 s (fst e) (snd e)) h st.

    Definition init2 : state2 := mkState2 (fun _ => (zero, zero)) (fun _ => 0) (fun _ => zero).

    Definition dump2 (D : ix2 -> T) : list T := map D all_ix2.

    (* ---- atimes, nd == 2: per-point form of the loops (x terms assigned, y terms added) *)
    (* second difference along one dimension at position i of n points: periodic -> wrapped neighbours,
       otherwise one-sided difference at the two ends *)
    Definition lap1 (per : bool) (n : Z) (a : Z -> T) (i : Z) : T :=
      if per then sub (add (a (wrap1 true n (i - 1))) (a (wrap1 true n (i + 1)))) (mul (ofZ 2) (a i))
      else if i =? 0 then sub (a (i + 1)) (a i)
      else if i =? n - 1 then sub (a (i - 1)) (a i)
      else sub (add (a (i - 1)) (a (i + 1))) (mul (ofZ 2) (a i)).

    (* factor 1/2 on the first and last point of a non-periodic dimension *)
    Definition efact (per : bool) (n i : Z) : T :=
      if per then one else if (i =? 0) || (i =? n - 1) then nhalf O else one.

    Definition atimes2 (A : ix2 -> T) (p : ix2) : T :=
      let w := npmf (px sh) (nxg sh) in
      let h := npmf (py sh) (nyg sh) in
      let ffx := div one (mul (wx sh) (wx sh)) in
      let ffy := div one (mul (wy sh) (wy sh)) in
      let '(i, j) := p in
      add (mul (mul (efact (py sh) h j) ffx) (lap1 (px sh) w (fun i' => A (i', j)) i))
          (mul (mul (efact (px sh) w i) ffy) (lap1 (py sh) h (fun j' => A (i, j')) j)).
  End Dim2.

  (* ------------------------------------------------------------------ three dimensions *)
  Record shape3 := mkShape3 { qx : bool; qy : bool; qz : bool; mxg : Z; myg : Z; mzg : Z; vx : T; vy : T; vz : T }.
  Record state3 := mkState3 { gsum3 : ix3 -> T * T * T; gcnt3 : ix3 -> Z; dv3 : ix3 -> T }.

  Section Dim3.
    Variable sh : shape3.
    Definition i3x (p : ix3) := fst (fst p).
    Definition i3y (p : ix3) := snd (fst p).
    Definition i3z (p : ix3) := snd p.
    Definition t3x (p : T * T * T) := fst (fst p).
    Definition t3y (p : T * T * T) := snd (fst p).
    Definition t3z (p : T * T * T) := snd p.

    Definition wde3 (ix : ix3) : bool * ix3 :=
      (edge1 (qx sh) (mxg sh) (i3x ix) || edge1 (qy sh) (myg sh) (i3y ix) || edge1 (qz sh) (mzg sh) (i3z ix),
       (wrap1 (qx sh) (mxg sh) (i3x ix), wrap1 (qy sh) (myg sh) (i3y ix), wrap1 (qz sh) (mzg sh) (i3z ix))).

    Definition get_grad3 (st : state3) (ix : ix3) : (T * T * T) * ix3 :=
      let '(edge, ix') := wde3 ix in
      if edge then ((zero, zero, zero), ix')
      else let f := out_fact b_smoothed (gcnt3 st ix') in
           ((mul f (t3x (gsum3 st ix')), mul f (t3y (gsum3 st ix')), mul f (t3z (gsum3 st ix'))), ix').

    (* gc[3*k + c], k = 4 i + 2 j + k' in the order of the three nested loops *)
    Definition div_formula3 (c0 c1 c2 c3 c4 c5 c6 c7 : T * T * T) : T :=
      mul (add (add
        (div (sub (add (sub (add (sub (add (sub (t3x c4) (t3x c0)) (t3x c5)) (t3x c1)) (t3x c6)) (t3x c2)) (t3x c7)) (t3x c3)) (vx sh))
        (div (sub (add (sub (add (sub (add (sub (t3y c2) (t3y c0)) (t3y c3)) (t3y c1)) (t3y c6)) (t3y c4)) (t3y c7)) (t3y c5)) (vy sh)))
        (div (sub (add (sub (add (sub (add (sub (t3z c1) (t3z c0)) (t3z c3)) (t3z c2)) (t3z c5)) (t3z c4)) (t3z c7)) (t3z c6)) (vz sh)))
        (div one (ofZ 4)).

    (* update_div_local(ix0), nd == 3: the three nested loops unrolled, ix threaded as in the code
       (ix[1] and ix[2] are reset from ix0 at the top of the i and j loops; ix[0], ix[1], ix[2] are
       incremented after having been wrapped in place by get_grad) *)
    Definition update_div_local3 (st : state3) (D : ix3 -> T) (ix0 : ix3) : ix3 -> T :=
      let x0 := i3x ix0 - 1 in
      (* i = 0 *)
      let '(c0, ix) := get_grad3 st (x0, i3y ix0 - 1, i3z ix0 - 1) in
      let '(c1, ix) := get_grad3 st (i3x ix, i3y ix, i3z ix + 1) in
      let '(c2, ix) := get_grad3 st (i3x ix, i3y ix + 1, i3z ix0 - 1) in
      let '(c3, ix) := get_grad3 st (i3x ix, i3y ix, i3z ix + 1) in
      (* i = 1 *)
      let '(c4, ix) := get_grad3 st (i3x ix + 1, i3y ix0 - 1, i3z ix0 - 1) in
      let '(c5, ix) := get_grad3 st (i3x ix, i3y ix, i3z ix + 1) in
      let '(c6, ix) := get_grad3 st (i3x ix, i3y ix + 1, i3z ix0 - 1) in
      let '(c7, ix) := get_grad3 st (i3x ix, i3y ix, i3z ix + 1) in
      upd3 D ix0 (div_formula3 c0 c1 c2 c3 c4 c5 c6 c7).

    Definition wrapP3 (ix : ix3) : ix3 :=
      (wrap1 (qx sh) (npmf (qx sh) (mxg sh)) (i3x ix), wrap1 (qy sh) (npmf (qy sh) (myg sh)) (i3y ix),
       wrap1 (qz sh) (npmf (qz sh) (mzg sh)) (i3z ix)).

    (* update_div_neighbors(ix0), nd == 3: the three nested two-iteration loops on the state (divergence, ix).
       innermost body:  wrap(ix); update_div_local(ix); ix[2]++ *)
    Definition udn3_k (st : state3) (s : (ix3 -> T) * ix3) : (ix3 -> T) * ix3 :=
      let ix := wrapP3 (snd s) in
      (update_div_local3 st (fst s) ix, (i3x ix, i3y ix, i3z ix + 1)).
    (* j body:  ix[2] = ix0[2]; for (k..) {...}; ix[1]++ *)
    Definition udn3_j (st : state3) (ix0 : ix3) (s : (ix3 -> T) * ix3) : (ix3 -> T) * ix3 :=
      let s := udn3_k st (udn3_k st (fst s, (i3x (snd s), i3y (snd s), i3z ix0))) in
      (fst s, (i3x (snd s), i3y (snd s) + 1, i3z (snd s))).
    (* i body:  ix[1] = ix0[1]; for (j..) {...}; ix[0]++ *)
    Definition udn3_i (st : state3) (ix0 : ix3) (s : (ix3 -> T) * ix3) : (ix3 -> T) * ix3 :=
      let s := udn3_j st ix0 (udn3_j st ix0 (fst s, (i3x (snd s), i3y ix0, i3z (snd s)))) in
      (fst s, (i3x (snd s) + 1, i3y (snd s), i3z (snd s))).
    Definition update_div_neighbors3 (st : state3) (D : ix3 -> T) (ix0 : ix3) : ix3 -> T :=
      fst (udn3_i st ix0 (udn3_i st ix0 (D, ix0))).

    Definition all_ix3 : list ix3 :=
      flat_map (fun i => flat_map (fun j => map (fun k => (i, j, k)) (zrange (npmf (qz sh) (mzg sh))))
                                  (zrange (npmf (qy sh) (myg sh))))
               (zrange (npmf (qx sh) (mxg sh))).

    Definition set_div3 (st : state3) : state3 :=
      mkState3 (gsum3 st) (gcnt3 st) (fold_left (update_div_local3 st) all_ix3 (dv3 st)).

    Definition acc_force3 (st : state3) (b : ix3) (f : T * T * T) : state3 :=
      mkState3 (upd3 (gsum3 st) b (sub (t3x (gsum3 st b)) (t3x f), sub (t3y (gsum3 st b)) (t3y f),
                                   sub (t3z (gsum3 st b)) (t3z f)))
               (upd3 (gcnt3 st) b (gcnt3 st b + 1))
               (dv3 st).

    Definition arrive3 (st : state3) (e : ix3 * (T * T * T)) : state3 :=
      let st' := acc_force3 st (fst e) (snd e) in
      mkState3 (gsum3 st') (gcnt3 st') (update_div_neighbors3 st' (dv3 st') (fst e)).

    Definition run3 (st : state3) (h : list (ix3 * (T * T * T))) : state3 := fold_left arrive3 h st.
    Definition preload3 (st : state3) (h : list (ix3 * (T * T * T))) : state3 :=
      fold_left (fun s e => acc_force3 s (fst e) (snd e)) h st.
    Definition init3 : state3 := mkState3 (fun _ => (zero, zero, zero)) (fun _ => 0) (fun _ => zero).
    Definition dump3 (D : ix3 -> T) : list T := map D all_ix3.

    (* atimes, nd == 3, per point: each directional term carries the edge factors of the two other dimensions *)
    Definition atimes3 (A : ix3 -> T) (p : ix3) : T :=
      let w := npmf (qx sh) (mxg sh) in
      let d := npmf (qy sh) (myg sh) in
      let h := npmf (qz sh) (mzg sh) in
      let ffx := div one (mul (vx sh) (vx sh)) in
      let ffy := div one (mul (vy sh) (vy sh)) in
      let ffz := div one (mul (vz sh) (vz sh)) in
      let i := i3x p in let j := i3y p in let k := i3z p in
      add (add
        (mul (mul (mul (efact (qy sh) d j) (efact (qz sh) h k)) ffx) (lap1 (qx sh) w (fun i' => A (i', j, k)) i))
        (mul (mul (mul (efact (qx sh) w i) (efact (qz sh) h k)) ffy) (lap1 (qy sh) d (fun j' => A (i, j', k)) j)))
        (mul (mul (mul (efact (qx sh) w i) (efact (qy sh) d j)) ffz) (lap1 (qz sh) h (fun k' => A (i, j, k')) k)).
  End Dim3.

End Integrate.

(* ---------------------------------------------------------------------- conjugate gradient
   integrate_potential::nr_linbcg_sym (the preconditioner calls are commented out in the C++), written once
   for any finite grid: P = index vectors, pts = all of them in storage order, A = atimes.
   Vectors are total functions on P that are re-materialised (tab) after each array assignment loop. *)
Section CG.
  Context {T : Type} (O : NumOps T).
  Variable P : Type.
  Variable peqb : P -> P -> bool.
  Variable pts : list P.
  Variable A : (P -> T) -> P -> T.

  (* an array filled by a loop over all points: a table looked up by index vector *)
  Definition tab (f : P -> T) : P -> T :=
    let l := map (fun q => (q, f q)) pts in
    fun p => match find (fun e => peqb (fst e) p) l with Some e => snd e | None => n0 O end.

  (* for (s = 0.0, j = 0; j < nt; j++) s += u[j] * v[j] *)
  Definition vdot (u v : P -> T) : T := fold_left (fun s q => nadd O s (nmul O (u q) (v q))) pts (n0 O).
  Definition l2norm (u : P -> T) : T := nsqrt O (vdot u u).
  (* EPS = 1.0e-14 *)
  Definition cg_eps : T := ndiv O (n1 O) (nofZ O 100000000000000).

  (* the while (iter < itmax) loop; fuel = itmax - iter.  Returns ((x, r), (iter, err)) *)
  Fixpoint cg_loop (fuel : nat) (bnrm tol : T) (iter : Z) (x r p : P -> T) (bkden err : T)
    : ((P -> T) * (P -> T)) * (Z * T) :=
    match fuel with
    | 0%nat => ((x, r), (iter, err))
    | S fuel' =>
      let iter := (iter + 1)%Z in
      let bknum := vdot r r in
      (* if (bknum == 0.0) { err = 0.0; break; }   (after the fix "PMF integration returned NaN when the initial guess
         already solved the system exactly"): the residual is exactly zero, nothing is left to do *)
      if neqb O bknum (n0 O) then ((x, r), (iter, n0 O)) else
      let p := if (iter =? 1)%Z then tab r
               else tab (fun q => nadd O (nmul O (ndiv O bknum bkden) (p q)) (r q)) in
      let z := tab (A p) in
      let akden := vdot z p in
      let ak := ndiv O bknum akden in
      let x := tab (fun q => nadd O (x q) (nmul O ak (p q))) in
      let r := tab (fun q => nsub O (r q) (nmul O ak (z q))) in
      let err := ndiv O (l2norm r) bnrm in
      if nleb O err tol then ((x, r), (iter, err))
      else cg_loop fuel' bnrm tol iter x r p bknum err
    end.

  (* nr_linbcg_sym(b, x, tol, itmax, iter, err): x0 is the content of data (the previous solution),
     err0 the caller's variable, which is left untouched when no iteration is made *)
  Definition cg_solve (itmax : nat) (tol : T) (b x0 : P -> T) (err0 : T) : ((P -> T) * (P -> T)) * (Z * T) :=
    let r := tab (fun q => nsub O (b q) (A x0 q)) in
    let bnrm := l2norm b in
    if nltb O bnrm cg_eps then ((x0, r), (0%Z, err0))
    else cg_loop itmax bnrm tol 0%Z x0 r r (n1 O) err0.
End CG.

(* pmf_grid_too_small (after the fix "2-D/3-D PMF integration on a grid with a single point ..."): the constructor raises an
   input error and integrate() returns 0 without touching data or err when a dimension of the PMF grid has fewer
   than two points (only possible for a periodic variable whose bin width is its period) *)
Definition shape_ok2 {T} (sh : shape2 (T:=T)) : bool :=
  (2 <=? npmf (px sh) (nxg sh)) && (2 <=? npmf (py sh) (nyg sh)).
Definition shape_ok3 {T} (sh : shape3 (T:=T)) : bool :=
  (2 <=? npmf (qx sh) (mxg sh)) && (2 <=? npmf (qy sh) (myg sh)) && (2 <=? npmf (qz sh) (mzg sh)).

(* integrate(itmax, tol, err), nd == 2 / nd == 3: solve  atimes(data) = divergence  starting from data *)
Definition integrate2 {T} (O : NumOps T) (sh : shape2) (itmax : nat) (tol : T) (D data : ix2 -> T) (err0 : T) :=
  if shape_ok2 sh then cg_solve O ix2 ix2_eqb (all_ix2 sh) (atimes2 O sh) itmax tol D data err0
  else ((data, D), (0, err0)).
Definition integrate3 {T} (O : NumOps T) (sh : shape3) (itmax : nat) (tol : T) (D data : ix3 -> T) (err0 : T) :=
  if shape_ok3 sh then cg_solve O ix3 ix3_eqb (all_ix3 sh) (atimes3 O sh) itmax tol D data err0
  else ((data, D), (0, err0)).

(* ---------------------------------------------------------------------- atimes, nd == 2, loop by loop
   The C++ fills LA with hand-indexed loops over the flat arrays: x terms are assigned (interior columns, then the
   two edge columns in lockstep), y terms are added (interior rows, then the two edge rows in lockstep), every loop
   written as first / middle / last with a running index.  This mirrors those loops statement by statement on flat
   arrays (total functions of the flat index, pointwise update); LaplaceProofs.v proves it equal to the per-point
   stencil atimes2 for every shape with at least two points per dimension. *)
Definition updz {V} (g : Z -> V) (k : Z) (v : V) : Z -> V := fun q => if q =? k then v else g q.
(* for (k = 0; k < n; k++) body *)
Definition loopz {S} (n : Z) (body : Z -> S -> S) (s : S) : S := fold_left (fun s k => body k s) (zrange n) s.

Section Loops2.
  Context {T : Type} (O : NumOps T).
  Variable sh : shape2 (T:=T).
  Variable A : Z -> T.
  Let w := npmf (px sh) (nxg sh).
  Let h := npmf (py sh) (nyg sh).
  Let ffx := ndiv O (n1 O) (nmul O (wx sh) (wx sh)).
  Let ffy := ndiv O (n1 O) (nmul O (wy sh) (wy sh)).

  (* periodic[k] ? 1.0 : 0.5 *)
  Definition edgef (per : bool) : T := if per then n1 O else nhalf O.
  (* [fact *] ff * (A[im] + A[ip] - 2.0 * A[i])   and   [fact *] ff * (A[inb] - A[i]) *)
  Definition cen (ff : T) (f : option T) (i im ip : Z) : T :=
    let core := nsub O (nadd O (A im) (A ip)) (nmul O (nofZ O 2) (A i)) in
    match f with Some fa => nmul O (nmul O fa ff) core | None => nmul O ff core end.
  Definition one_sided (ff : T) (f : option T) (i inb : Z) : T :=
    let core := nsub O (A inb) (A i) in
    match f with Some fa => nmul O (nmul O fa ff) core | None => nmul O ff core end.

  (* LA[index] = v(index); index++ *)
  Definition st_assign (v : Z -> T) (s : (Z -> T) * Z) : (Z -> T) * Z :=
    (updz (fst s) (snd s) (v (snd s)), snd s + 1).
  (* LA[index] += v(index); index++ *)
  Definition st_add (v : Z -> T) (s : (Z -> T) * Z) : (Z -> T) * Z :=
    (updz (fst s) (snd s) (nadd O (fst s (snd s)) (v (snd s))), snd s + 1).

  (* All x components except on x edges *)
  Definition xint (LA : Z -> T) : Z -> T :=
    let fact := edgef (py sh) in
    let term f idx := cen ffx f idx (idx - h) (idx + h) in
    fst (loopz (w - 2) (fun _ s =>
           let s := st_assign (term (Some fact)) s in
           let s := loopz (h - 2) (fun _ s => st_assign (term None) s) s in
           st_assign (term (Some fact)) s) (LA, h)).

  (* Edges along x: LA[index] = ..; LA[index2] = ..; index++; index2++ with index from 0, index2 from h*(w-1) *)
  Definition pair_assign (vl vr : Z -> T) (s : (Z -> T) * Z * Z) : (Z -> T) * Z * Z :=
    let LA := updz (fst (fst s)) (snd (fst s)) (vl (snd (fst s))) in
    let LA := updz LA (snd s) (vr (snd s)) in
    (LA, snd (fst s) + 1, snd s + 1).
  Definition xedge (LA : Z -> T) : Z -> T :=
    let fact := edgef (py sh) in
    let xm := if px sh then h * (w - 1) else - h in
    let xp := h in
    let tl f idx := if px sh then cen ffx f idx (idx + xm) (idx + xp) else one_sided ffx f idx (idx + xp) in
    let tr f idx := if px sh then cen ffx f idx (idx - xp) (idx - xm) else one_sided ffx f idx (idx + xm) in
    let s := pair_assign (tl (Some fact)) (tr (Some fact)) (LA, 0, h * (w - 1)) in
    let s := loopz (h - 2) (fun _ s => pair_assign (tl None) (tr None) s) s in
    fst (fst (pair_assign (tl (Some fact)) (tr (Some fact)) s)).

  (* All y components except on y edges: index from 1, skipping the two edge elements of each column *)
  Definition yint (LA : Z -> T) : Z -> T :=
    let term f idx := cen ffy (Some f) idx (idx - 1) (idx + 1) in
    fst (fst (loopz w (fun i s =>
           let fact := if i =? 1 then n1 O else snd s in
           let fact := if i =? w - 1 then edgef (px sh) else fact in
           let s' := loopz (h - 2) (fun _ s => st_add (term fact) s) (fst s) in
           (fst s', snd s' + 2, fact)) (LA, 1, edgef (px sh)))).

  (* Edges along y: index from 0, index2 from h-1, both advancing by h *)
  Definition pair_add (vl vr : Z -> T) (s : (Z -> T) * Z * Z) : (Z -> T) * Z * Z :=
    let LA := fst (fst s) in
    let LA := updz LA (snd (fst s)) (nadd O (LA (snd (fst s))) (vl (snd (fst s)))) in
    let LA := updz LA (snd s) (nadd O (LA (snd s)) (vr (snd s))) in
    (LA, snd (fst s) + h, snd s + h).
  Definition yedge (LA : Z -> T) : Z -> T :=
    let fact := edgef (px sh) in
    let ym := if py sh then h - 1 else -1 in
    let yp := 1 in
    let tl f idx := if py sh then cen ffy f idx (idx + ym) (idx + yp) else one_sided ffy f idx (idx + yp) in
    let tr f idx := if py sh then cen ffy f idx (idx - yp) (idx - ym) else one_sided ffy f idx (idx + ym) in
    let s := pair_add (tl (Some fact)) (tr (Some fact)) (LA, 0, h - 1) in
    let s := loopz (w - 2) (fun _ s => pair_add (tl None) (tr None) s) s in
    fst (fst (pair_add (tl (Some fact)) (tr (Some fact)) s)).

  Definition atimes2_loops (LA : Z -> T) : Z -> T := yedge (yint (xedge (xint LA))).
End Loops2.

(* ---------------------------------------------------------------------- the call site in colvarbias_abf::update()
   bin = the bin of this step; force_bin = the bin the delivered total force belongs to: bin itself when the engine
   gives same-step forces (f_cv_total_force_current_step), the previous step's bin otherwise (force_bin = bin at the end
   of update()).  A sample is taken when (step_relative > 0 || same-step) and samples->index_ok(force_bin):
       gradients->acc_force(force_bin, system_force);  pmf->update_div_neighbors(force_bin);
   [site_ok = false is NOT the code: it refreshes the neighbourhood of bin instead, used only as a counter-example] *)
Definition in_grid2b {T} (sh : shape2 (T:=T)) (b : ix2) : bool :=
  (0 <=? fst b) && (fst b <? nxg sh) && (0 <=? snd b) && (snd b <? nyg sh).
Definition in_grid3b {T} (sh : shape3 (T:=T)) (b : ix3) : bool :=
  (0 <=? i3x b) && (i3x b <? mxg sh) && (0 <=? i3y b) && (i3y b <? myg sh) && (0 <=? i3z b) && (i3z b <? mzg sh).

Section AbfSite.
  Context {T : Type} (O : NumOps T) (sc : smooth_cfg) (sm : bool).

  Definition abf_site2 (site_ok : bool) (sh : shape2 (T:=T)) (same : bool)
      (s : state2 (T:=T) * ix2 * bool) (e : ix2 * (T * T)) : state2 (T:=T) * ix2 * bool :=
    let st := fst (fst s) in let fb := snd (fst s) in let first := snd s in
    let bin := fst e in
    let fbin := if same then bin else fb in
    let st' := if (negb first || same) && in_grid2b sh fbin then
                 let st1 := acc_force2 O st fbin (snd e) in
                 mkState2 (gsum2 st1) (gcnt2 st1)
                          (update_div_neighbors2 O sc sm sh st1 (dv2 st1) (if site_ok then fbin else bin))
               else st in
    (st', bin, false).
  Definition abf_run2 (site_ok : bool) (sh : shape2 (T:=T)) (same : bool) (st0 : state2 (T:=T)) (l : list (ix2 * (T * T))) :=
    fst (fst (fold_left (abf_site2 site_ok sh same) l (st0, (0, 0), true))).

  Definition abf_site3 (site_ok : bool) (sh : shape3 (T:=T)) (same : bool)
      (s : state3 (T:=T) * ix3 * bool) (e : ix3 * (T * T * T)) : state3 (T:=T) * ix3 * bool :=
    let st := fst (fst s) in let fb := snd (fst s) in let first := snd s in
    let bin := fst e in
    let fbin := if same then bin else fb in
    let st' := if (negb first || same) && in_grid3b sh fbin then
                 let st1 := acc_force3 O st fbin (snd e) in
                 mkState3 (gsum3 st1) (gcnt3 st1)
                          (update_div_neighbors3 O sc sm sh st1 (dv3 st1) (if site_ok then fbin else bin))
               else st in
    (st', bin, false).
  Definition abf_run3 (site_ok : bool) (sh : shape3 (T:=T)) (same : bool) (st0 : state3 (T:=T)) (l : list (ix3 * (T * T * T))) :=
    fst (fst (fold_left (abf_site3 site_ok sh same) l (st0, (0, 0, 0), true))).
End AbfSite.

(* ---------------------------------------------------------------------- colvarbias_abf::write_gradients_samples, local data
   of a shared-ABF walker (and every PMF that is not kept up to date incrementally: czar_pmf, local_pmf):
       local_pmf->set_div();  local_pmf->integrate(integrate_iterations, integrate_tol, err);
   whatever the divergence array held before (after a restart it is the zero array of a fresh object) *)
Definition write_pmf_batch2 {T} (O : NumOps T) (sc : smooth_cfg) (sm : bool) (sh : shape2 (T:=T)) (st : state2 (T:=T))
    (itmax : nat) (tol : T) (data : ix2 -> T) (err0 : T) :=
  let st' := set_div2 O sc sm sh st in (st', integrate2 O sh itmax tol (dv2 st') data err0).
Definition write_pmf_batch3 {T} (O : NumOps T) (sc : smooth_cfg) (sm : bool) (sh : shape3 (T:=T)) (st : state3 (T:=T))
    (itmax : nat) (tol : T) (data : ix3 -> T) (err0 : T) :=
  let st' := set_div3 O sc sm sh st in (st', integrate3 O sh itmax tol (dv3 st') data err0).
