(* C16 proofs, part 3 (real numbers): the discrete Laplacian of atimes (energy form, symmetry, kernel),
   solvability (the divergence sums to zero), the conjugate-gradient residual invariant and the
   discrete Poisson statement. *)
Set Default Timeout 60.
From Coq Require Import ZArith List Bool Reals Lra Lia Psatz.
From CV Require Import Base.Num Base.RNum C16.IntegrateModel C16.IntegrateProofs C16.IntegrateRProofs.
Import ListNotations.
Local Open Scope R_scope.

Lemma sq_nonneg x : 0 <= x * x.
Proof. exact (Rle_0_sqr x). Qed.
Lemma eq_by_diff a b c d : a = b -> c - a = d - b -> c = d.
Proof. intros H1 H2. lra. Qed.
Lemma sq_zero x : x * x = 0 -> x = 0.
Proof. intros H. destruct (Rmult_integral _ _ H); auto. Qed.

(* ------------------------------------------------------------------ sums over 0 .. n-1 (n : Z) *)
Definition zsum (f : Z -> R) (n : Z) : R := psum (fun k => f (Z.of_nat k)) (Z.to_nat n).

Lemma zsum_ext f g n : (forall i, (0 <= i < n)%Z -> f i = g i) -> zsum f n = zsum g n.
Proof. intros H. unfold zsum. apply psum_ext. intros j Hj. apply H. lia. Qed.

Lemma zsum_plus f g n : zsum (fun i => f i + g i) n = zsum f n + zsum g n.
Proof. unfold zsum. apply psum_plus. Qed.

Lemma zsum_scal c f n : zsum (fun i => c * f i) n = c * zsum f n.
Proof. unfold zsum. apply psum_scal. Qed.

Lemma zsum_zero n : zsum (fun _ => 0) n = 0.
Proof. unfold zsum. apply psum_zero. Qed.

Lemma zsum_minus f g n : zsum (fun i => f i - g i) n = zsum f n - zsum g n.
Proof.
  rewrite (zsum_ext _ (fun i => f i + (-1) * g i)) by (intros; ring).
  rewrite zsum_plus, zsum_scal. ring.
Qed.

Lemma zsum_0 f : zsum f 0 = 0.
Proof. reflexivity. Qed.

Lemma zsum_succ f n : (0 <= n)%Z -> zsum f (n + 1) = zsum f n + f n.
Proof.
  intros Hn. unfold zsum. replace (Z.to_nat (n + 1)) with (S (Z.to_nat n)) by lia.
  cbn [psum]. rewrite Z2Nat.id by lia. reflexivity.
Qed.

Lemma zsum_shift f n : (0 <= n)%Z -> zsum f (n + 1) = f 0%Z + zsum (fun i => f (i + 1)%Z) n.
Proof.
  intros Hn. unfold zsum. replace (Z.to_nat (n + 1)) with (S (Z.to_nat n)) by lia.
  rewrite psum_shift. cbn [Z.of_nat]. f_equal. apply psum_ext. intros j Hj. f_equal. lia.
Qed.

Lemma zsum_swap (F : Z -> Z -> R) n m :
  zsum (fun i => zsum (fun j => F i j) m) n = zsum (fun j => zsum (fun i => F i j) n) m.
Proof. unfold zsum. apply (psum_swap (fun i j => F (Z.of_nat i) (Z.of_nat j))). Qed.

Lemma zsum_tele H n : (0 <= n)%Z -> zsum (fun i => H i - H (i - 1)%Z) n = H (n - 1)%Z - H (-1)%Z.
Proof.
  intros Hn. pattern n. apply natlike_ind; [| |exact Hn].
  - rewrite zsum_0. replace (0 - 1)%Z with (-1)%Z by lia. ring.
  - intros x Hx IH. change (Z.succ x) with (x + 1)%Z. rewrite zsum_succ by lia. rewrite IH.
    replace (x + 1 - 1)%Z with x by lia. ring.
Qed.

Lemma psum_nonneg g m : (forall k, (k < m)%nat -> 0 <= g k) -> 0 <= psum g m.
Proof.
  induction m as [|m IH]; intros H; cbn [psum]; [lra|].
  specialize (IH (fun k Hk => H k (Nat.lt_lt_succ_r _ _ Hk))). specialize (H m (Nat.lt_succ_diag_r m)). lra.
Qed.

Lemma psum_zero_terms g m : (forall k, (k < m)%nat -> 0 <= g k) -> psum g m = 0 ->
  forall k, (k < m)%nat -> g k = 0.
Proof.
  induction m as [|m IH]; intros H E k Hk; [lia|]. cbn [psum] in E.
  pose proof (psum_nonneg g m (fun k Hk => H k (Nat.lt_lt_succ_r _ _ Hk))) as Hp.
  pose proof (H m (Nat.lt_succ_diag_r m)) as Hm.
  destruct (Nat.eq_dec k m) as [->|Hne]; [lra|].
  apply IH; [intros j Hj; apply H; lia | lra | lia].
Qed.

Lemma zsum_nonneg f n : (forall i, (0 <= i < n)%Z -> 0 <= f i) -> 0 <= zsum f n.
Proof. intros H. unfold zsum. apply psum_nonneg. intros k Hk. apply H. lia. Qed.

Lemma zsum_zero_terms f n : (forall i, (0 <= i < n)%Z -> 0 <= f i) -> zsum f n = 0 ->
  forall i, (0 <= i < n)%Z -> f i = 0.
Proof.
  intros H E i Hi. unfold zsum in E.
  assert (H' : forall k, (k < Z.to_nat n)%nat -> 0 <= f (Z.of_nat k)) by (intros k Hk; apply H; lia).
  assert (Hi' : (Z.to_nat i < Z.to_nat n)%nat) by lia.
  pose proof (psum_zero_terms _ _ H' E (Z.to_nat i) Hi') as G.
  cbv beta in G. rewrite Z2Nat.id in G by lia. exact G.
Qed.

(* sums over lists of grid points, in the order and association of the C++ loops *)
Definition lsumR {P} (F : P -> R) (l : list P) : R := fold_left (fun s q => s + F q) l 0.

Lemma fold_lsum {P} (F : P -> R) l : forall a, fold_left (fun s q => s + F q) l a = a + lsumR F l.
Proof.
  unfold lsumR. induction l as [|x l IH]; intros a; cbn [fold_left]; [ring|].
  rewrite IH, (IH (0 + F x)). ring.
Qed.

Lemma lsumR_cons {P} (F : P -> R) x l : lsumR F (x :: l) = F x + lsumR F l.
Proof. unfold lsumR at 1. cbn [fold_left]. rewrite fold_lsum. ring. Qed.

Lemma lsumR_app {P} (F : P -> R) l1 l2 : lsumR F (l1 ++ l2) = lsumR F l1 + lsumR F l2.
Proof. induction l1 as [|x l1 IH]; cbn [app]; [unfold lsumR at 2; cbn; ring|]. rewrite !lsumR_cons, IH. ring. Qed.

Lemma lsumR_map {P Q} (F : Q -> R) (g : P -> Q) l : lsumR F (map g l) = lsumR (fun x => F (g x)) l.
Proof. induction l as [|x l IH]; [reflexivity|]. cbn [map]. rewrite !lsumR_cons, IH. reflexivity. Qed.

Lemma lsumR_flat_map {P Q} (F : Q -> R) (g : P -> list Q) l :
  lsumR F (flat_map g l) = lsumR (fun x => lsumR F (g x)) l.
Proof. induction l as [|x l IH]; [reflexivity|]. cbn [flat_map]. rewrite lsumR_app, lsumR_cons, IH. reflexivity. Qed.

Lemma lsumR_ext {P} (F G : P -> R) l : (forall q, In q l -> F q = G q) -> lsumR F l = lsumR G l.
Proof.
  induction l as [|x l IH]; intros H; [reflexivity|]. rewrite !lsumR_cons.
  rewrite (H x) by (left; auto). rewrite IH by (intros q Hq; apply H; right; auto). reflexivity.
Qed.

Lemma lsumR_zrange (G : Z -> R) n : lsumR G (zrange n) = zsum G n.
Proof.
  unfold zrange, zsum. rewrite lsumR_map. generalize (Z.to_nat n) as m.
  induction m as [|m IH]; [reflexivity|].
  rewrite seq_S, lsumR_app, IH. cbn [plus psum]. unfold lsumR at 1. cbn [fold_left]. ring.
Qed.

Lemma lsumR_all_ix2 {T} (sh : shape2 (T:=T)) (F : Z * Z -> R) :
  lsumR F (all_ix2 sh) =
  zsum (fun i => zsum (fun j => F (i, j)) (npmf (py sh) (nyg sh))) (npmf (px sh) (nxg sh)).
Proof.
  unfold all_ix2. rewrite lsumR_flat_map, lsumR_zrange. apply zsum_ext. intros i Hi.
  rewrite lsumR_map, lsumR_zrange. reflexivity.
Qed.

Lemma lsumR_all_ix3 {T} (sh : shape3 (T:=T)) (F : Z * Z * Z -> R) :
  lsumR F (all_ix3 sh) =
  zsum (fun i => zsum (fun j => zsum (fun k => F (i, j, k)) (npmf (qz sh) (mzg sh))) (npmf (qy sh) (myg sh)))
       (npmf (qx sh) (mxg sh)).
Proof.
  unfold all_ix3. rewrite lsumR_flat_map, lsumR_zrange. apply zsum_ext. intros i Hi.
  rewrite lsumR_flat_map, lsumR_zrange. apply zsum_ext. intros j Hj.
  rewrite lsumR_map, lsumR_zrange. reflexivity.
Qed.

(* ------------------------------------------------------------------ one-dimensional second difference *)
Definition wr (n i : Z) : Z := wrap1 true n i.

Lemma wr_mod n i : (0 < n)%Z -> wr n i = (i mod n)%Z.
Proof. intros Hn. unfold wr. rewrite wrap1_mod by auto. reflexivity. Qed.

Lemma wr_small n i : (0 <= i < n)%Z -> wr n i = i.
Proof. intros Hi. rewrite wr_mod by lia. apply Z.mod_small. lia. Qed.

Lemma wr_range n i : (0 < n)%Z -> (0 <= wr n i < n)%Z.
Proof. intros Hn. rewrite wr_mod by auto. apply Z.mod_pos_bound. auto. Qed.

Lemma wr_succ_pred n i : (0 <= i < n)%Z -> wr n (wr n (i + 1) - 1) = i.
Proof.
  intros Hi. rewrite !wr_mod by lia. rewrite Zminus_mod_idemp_l.
  replace (i + 1 - 1)%Z with i by lia. apply Z.mod_small. lia.
Qed.

Lemma zsum_cyc F n : (1 <= n)%Z -> zsum (fun i => F (wr n (i + 1))) n = zsum F n.
Proof.
  intros Hn.
  assert (G : forall m, (0 <= m)%Z -> zsum (fun i => F (wr (m + 1) (i + 1))) (m + 1) = zsum F (m + 1)).
  { intros m Hm. rewrite zsum_succ, zsum_shift by lia.
    rewrite (zsum_ext (fun i => F (wr (m + 1) (i + 1))) (fun i => F (i + 1)%Z)) by (intros i Hi; rewrite wr_small by lia; reflexivity).
    rewrite wr_mod, Z.mod_same by lia. ring. }
  specialize (G (n - 1)%Z ltac:(lia)). replace (n - 1 + 1)%Z with n in G by lia. exact G.
Qed.

(* the quadratic form of the second difference: sum of products of forward differences *)
Definition energy1 (per : bool) (n : Z) (u v : Z -> R) : R :=
  if per then zsum (fun i => (u (wr n (i + 1)) - u i) * (v (wr n (i + 1)) - v i)) n
  else zsum (fun i => (u (i + 1)%Z - u i) * (v (i + 1)%Z - v i)) (n - 1).

Lemma energy1_sym per n u v : energy1 per n u v = energy1 per n v u.
Proof. unfold energy1. destruct per; apply zsum_ext; intros; ring. Qed.

Lemma energy1_nonneg per n u : 0 <= energy1 per n u u.
Proof. unfold energy1. destruct per; apply zsum_nonneg; intros; apply sq_nonneg. Qed.

Lemma lap1_first n (v : Z -> R) : lap1 Rops false n v 0%Z = v 1%Z - v 0%Z.
Proof. reflexivity. Qed.

Lemma lap1_last n (v : Z -> R) i : (2 <= n)%Z -> i = (n - 1)%Z ->
  lap1 Rops false n v i = v (i - 1)%Z - v i.
Proof.
  intros Hn ->. unfold lap1. destruct (Z.eqb_spec (n - 1) 0); [lia|]. rewrite Z.eqb_refl. reflexivity.
Qed.

Lemma lap1_mid n (v : Z -> R) i : (0 < i < n - 1)%Z ->
  lap1 Rops false n v i = v (i - 1)%Z + v (i + 1)%Z - 2 * v i.
Proof.
  intros Hi. unfold lap1. destruct (Z.eqb_spec i 0); [lia|]. destruct (Z.eqb_spec i (n - 1)); [lia|].
  reflexivity.
Qed.

Lemma lap1_np_energy n u v : (2 <= n)%Z ->
  zsum (fun i => u i * lap1 Rops false n v i) n = - energy1 false n u v.
Proof.
  intros Hn. unfold energy1. replace n with (2 + (n - 2))%Z by lia.
  assert (H0 : (0 <= n - 2)%Z) by lia. revert H0. generalize (n - 2)%Z as m. clear n Hn.
  intros m Hm. pattern m. apply natlike_ind; [| |exact Hm]; clear m Hm.
  - change (2 + 0)%Z with 2%Z. change (2 - 1)%Z with 1%Z. unfold zsum.
    change (Z.to_nat 2) with 2%nat. change (Z.to_nat 1) with 1%nat. cbn [psum].
    change (Z.of_nat 0) with 0%Z. change (Z.of_nat 1) with 1%Z.
    replace (lap1 Rops false 2 v 0%Z) with (v 1%Z - v 0%Z) by reflexivity.
    replace (lap1 Rops false 2 v 1%Z) with (v 0%Z - v 1%Z) by reflexivity.
    change (0 + 1)%Z with 1%Z. ring.
  - intros x Hx IH. set (n := (2 + x)%Z) in *. replace (2 + Z.succ x)%Z with (n + 1)%Z by lia.
    assert (Hn : (2 <= n)%Z) by lia.
    assert (S1 : forall f m, (1 <= m)%Z -> zsum f m = zsum f (m - 1) + f (m - 1)%Z).
    { intros f m Hm. replace m with ((m - 1) + 1)%Z at 1 by lia. apply zsum_succ. lia. }
    rewrite (S1 _ (n + 1)%Z) by lia. replace (n + 1 - 1)%Z with n by lia.
    rewrite (S1 _ n) by lia. rewrite (S1 _ n) in IH by lia.
    rewrite (S1 (fun i => (u (i + 1)%Z - u i) * (v (i + 1)%Z - v i)) n) by lia.
    rewrite (zsum_ext (fun i => u i * lap1 Rops false (n + 1) v i) (fun i => u i * lap1 Rops false n v i) (n - 1)).
    2:{ intros i Hi. f_equal. destruct (Z.eq_dec i 0) as [->|Hi0]; [reflexivity|]. rewrite !lap1_mid by lia. reflexivity. }
    rewrite (lap1_last n v (n - 1)) in IH by lia.
    rewrite (lap1_mid (n + 1) v (n - 1)) by lia.
    rewrite (lap1_last (n + 1) v n) by lia.
    replace (n - 1 + 1)%Z with n by lia.
    apply (eq_by_diff _ _ _ _ IH). ring.
Qed.

Lemma lap1_per_energy n u v : (1 <= n)%Z ->
  zsum (fun i => u i * lap1 Rops true n v i) n = - energy1 true n u v.
Proof.
  intros Hn. unfold energy1.
  set (C := fun i => u i * v i). set (F := fun i => u i * v (wr n (i - 1))).
  assert (E : zsum (fun i => u i * lap1 Rops true n v i + (u (wr n (i + 1)) - u i) * (v (wr n (i + 1)) - v i)) n =
              (zsum (fun i => C (wr n (i + 1))) n - zsum C n) - (zsum (fun i => F (wr n (i + 1))) n - zsum F n)).
  { rewrite <- !zsum_minus. apply zsum_ext. intros i Hi. unfold C, F, lap1. fold (wr n (i - 1)) (wr n (i + 1)).
    rewrite wr_succ_pred by lia. cbn [nadd nsub nmul nofZ Rops]. ring. }
  rewrite !zsum_cyc in E by lia. rewrite zsum_plus in E. lra.
Qed.

Lemma lap1_energy per n u v : (0 < n)%Z -> (per = false -> (2 <= n)%Z) ->
  zsum (fun i => u i * lap1 Rops per n v i) n = - energy1 per n u v.
Proof. intros Hn Hp. destruct per; [apply lap1_per_energy; lia | apply lap1_np_energy; auto]. Qed.

(* zero energy: the sequence is constant *)
Lemma energy1_zero_const per n u : (0 < n)%Z -> energy1 per n u u = 0 -> forall i, (0 <= i < n)%Z -> u i = u 0%Z.
Proof.
  intros Hn E.
  assert (D : forall i, (0 <= i < n - 1)%Z -> u (i + 1)%Z = u i).
  { intros i Hi. unfold energy1 in E. destruct per.
    - pose proof (zsum_zero_terms _ n (fun i _ => sq_nonneg (u (wr n (i + 1)) - u i)) E i ltac:(lia)) as Z0.
      cbv beta in Z0. apply sq_zero in Z0. rewrite wr_small in Z0 by lia. lra.
    - pose proof (zsum_zero_terms _ (n - 1) (fun i _ => sq_nonneg (u (i + 1)%Z - u i)) E i ltac:(lia)) as Z0.
      cbv beta in Z0. apply sq_zero in Z0. lra. }
  intros i Hi. destruct Hi as [Hi0 Hi1]. revert Hi1. pattern i. apply natlike_ind; [| |exact Hi0].
  - reflexivity.
  - intros x Hx IH Hlt. change (Z.succ x) with (x + 1)%Z. rewrite D by lia. apply IH. lia.
Qed.

Lemma lap1_linear per n (f g : Z -> R) c i :
  lap1 Rops per n (fun k => f k + c * g k) i = lap1 Rops per n f i + c * lap1 Rops per n g i.
Proof.
  unfold lap1. destruct per; [cbn [nadd nsub nmul nofZ Rops]; ring|].
  destruct (i =? 0)%Z; [cbn [nsub Rops]; ring|]. destruct (i =? n - 1)%Z; cbn [nadd nsub nmul nofZ Rops]; ring.
Qed.

Lemma lap1_const per n c i : lap1 Rops per n (fun _ => c) i = 0.
Proof.
  unfold lap1. destruct per; [cbn [nadd nsub nmul nofZ Rops]; ring|].
  destruct (i =? 0)%Z; [cbn [nsub Rops]; ring|]. destruct (i =? n - 1)%Z; cbn [nadd nsub nmul nofZ Rops]; ring.
Qed.

Lemma lap1_ext per n (a a' : Z -> R) i : (0 < n)%Z -> (per = false -> (2 <= n)%Z) -> (0 <= i < n)%Z ->
  (forall k, (0 <= k < n)%Z -> a k = a' k) -> lap1 Rops per n a i = lap1 Rops per n a' i.
Proof.
  intros Hn Hp Hi H. unfold lap1. destruct per.
  - fold (wr n (i - 1)) (wr n (i + 1)). rewrite !(H (wr n _)) by (apply wr_range; auto). rewrite (H i) by auto. reflexivity.
  - specialize (Hp eq_refl). destruct (Z.eqb_spec i 0); [rewrite !H by lia; reflexivity|].
    destruct (Z.eqb_spec i (n - 1)); rewrite !H by lia; reflexivity.
Qed.

Lemma efact_pos per n i : 0 < efact Rops per n i.
Proof.
  unfold efact. destruct per; cbn [n1 Rops]; [lra|].
  destruct ((i =? 0)%Z || (i =? n - 1)%Z); unfold nhalf; cbn [n1 ndiv nofZ Rops]; lra.
Qed.
