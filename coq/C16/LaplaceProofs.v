(* C16 proofs, part 3 (real numbers): the discrete Laplacian of atimes (energy form, symmetry, kernel),
   solvability (the divergence sums to zero), the conjugate-gradient residual invariant and the
   discrete Poisson statement. *)
Set Default Timeout 60.
From Coq Require Import ZArith List Bool Reals Lra Lia Psatz.
From CV Require Import Base.Num Base.RNum C16.IntegrateModel C16.IntegrateProofs C16.IntegrateRProofs.
Import ListNotations.
Local Open Scope R_scope.

Lemma sq_nonneg x : 0 <= x * x.
Proof. exact (Rle_0_sqr x). Qed.
Lemma eq_by_diff a b c d : a = b -> c - a = d - b -> c = d.
Proof. intros H1 H2. lra. Qed.
Lemma sq_zero x : x * x = 0 -> x = 0.
Proof. intros H. destruct (Rmult_integral _ _ H); auto. Qed.

(* ------------------------------------------------------------------ sums over 0 .. n-1 (n : Z) *)
Definition zsum (f : Z -> R) (n : Z) : R := psum (fun k => f (Z.of_nat k)) (Z.to_nat n).

Lemma zsum_ext f g n : (forall i, (0 <= i < n)%Z -> f i = g i) -> zsum f n = zsum g n.
Proof. intros H. unfold zsum. apply psum_ext. intros j Hj. apply H. lia. Qed.

Lemma zsum_plus f g n : zsum (fun i => f i + g i) n = zsum f n + zsum g n.
Proof. unfold zsum. apply psum_plus. Qed.

Lemma zsum_scal c f n : zsum (fun i => c * f i) n = c * zsum f n.
Proof. unfold zsum. apply psum_scal. Qed.

Lemma zsum_zero n : zsum (fun _ => 0) n = 0.
Proof. unfold zsum. apply psum_zero. Qed.

Lemma zsum_minus f g n : zsum (fun i => f i - g i) n = zsum f n - zsum g n.
Proof.
  rewrite (zsum_ext _ (fun i => f i + (-1) * g i)) by (intros; ring).
  rewrite zsum_plus, zsum_scal. ring.
Qed.

Lemma zsum_0 f : zsum f 0 = 0.
Proof. reflexivity. Qed.

Lemma zsum_succ f n : (0 <= n)%Z -> zsum f (n + 1) = zsum f n + f n.
Proof.
  intros Hn. unfold zsum. replace (Z.to_nat (n + 1)) with (S (Z.to_nat n)) by lia.
  cbn [psum]. rewrite Z2Nat.id by lia. reflexivity.
Qed.

Lemma zsum_shift f n : (0 <= n)%Z -> zsum f (n + 1) = f 0%Z + zsum (fun i => f (i + 1)%Z) n.
Proof.
  intros Hn. unfold zsum. replace (Z.to_nat (n + 1)) with (S (Z.to_nat n)) by lia.
  rewrite psum_shift. cbn [Z.of_nat]. f_equal. apply psum_ext. intros j Hj. f_equal. lia.
Qed.

Lemma zsum_swap (F : Z -> Z -> R) n m :
  zsum (fun i => zsum (fun j => F i j) m) n = zsum (fun j => zsum (fun i => F i j) n) m.
Proof. unfold zsum. apply (psum_swap (fun i j => F (Z.of_nat i) (Z.of_nat j))). Qed.

Lemma zsum_tele H n : (0 <= n)%Z -> zsum (fun i => H i - H (i - 1)%Z) n = H (n - 1)%Z - H (-1)%Z.
Proof.
  intros Hn. pattern n. apply natlike_ind; [| |exact Hn].
  - rewrite zsum_0. replace (0 - 1)%Z with (-1)%Z by lia. ring.
  - intros x Hx IH. change (Z.succ x) with (x + 1)%Z. rewrite zsum_succ by lia. rewrite IH.
    replace (x + 1 - 1)%Z with x by lia. ring.
Qed.

Lemma psum_nonneg g m : (forall k, (k < m)%nat -> 0 <= g k) -> 0 <= psum g m.
Proof.
  induction m as [|m IH]; intros H; cbn [psum]; [lra|].
  specialize (IH (fun k Hk => H k (Nat.lt_lt_succ_r _ _ Hk))). specialize (H m (Nat.lt_succ_diag_r m)). lra.
Qed.

Lemma psum_zero_terms g m : (forall k, (k < m)%nat -> 0 <= g k) -> psum g m = 0 ->
  forall k, (k < m)%nat -> g k = 0.
Proof.
  induction m as [|m IH]; intros H E k Hk; [lia|]. cbn [psum] in E.
  pose proof (psum_nonneg g m (fun k Hk => H k (Nat.lt_lt_succ_r _ _ Hk))) as Hp.
  pose proof (H m (Nat.lt_succ_diag_r m)) as Hm.
  destruct (Nat.eq_dec k m) as [->|Hne]; [lra|].
  apply IH; [intros j Hj; apply H; lia | lra | lia].
Qed.

Lemma zsum_nonneg f n : (forall i, (0 <= i < n)%Z -> 0 <= f i) -> 0 <= zsum f n.
Proof. intros H. unfold zsum. apply psum_nonneg. intros k Hk. apply H. lia. Qed.

Lemma zsum_zero_terms f n : (forall i, (0 <= i < n)%Z -> 0 <= f i) -> zsum f n = 0 ->
  forall i, (0 <= i < n)%Z -> f i = 0.
Proof.
  intros H E i Hi. unfold zsum in E.
  assert (H' : forall k, (k < Z.to_nat n)%nat -> 0 <= f (Z.of_nat k)) by (intros k Hk; apply H; lia).
  assert (Hi' : (Z.to_nat i < Z.to_nat n)%nat) by lia.
  pose proof (psum_zero_terms _ _ H' E (Z.to_nat i) Hi') as G.
  cbv beta in G. rewrite Z2Nat.id in G by lia. exact G.
Qed.

(* sums over lists of grid points, in the order and association of the C++ loops *)
Definition lsumR {P} (F : P -> R) (l : list P) : R := fold_left (fun s q => s + F q) l 0.

Lemma fold_lsum {P} (F : P -> R) l : forall a, fold_left (fun s q => s + F q) l a = a + lsumR F l.
Proof.
  unfold lsumR. induction l as [|x l IH]; intros a; cbn [fold_left]; [ring|].
  rewrite IH, (IH (0 + F x)). ring.
Qed.

Lemma lsumR_cons {P} (F : P -> R) x l : lsumR F (x :: l) = F x + lsumR F l.
Proof. unfold lsumR at 1. cbn [fold_left]. rewrite fold_lsum. ring. Qed.

Lemma lsumR_app {P} (F : P -> R) l1 l2 : lsumR F (l1 ++ l2) = lsumR F l1 + lsumR F l2.
Proof. induction l1 as [|x l1 IH]; cbn [app]; [unfold lsumR at 2; cbn; ring|]. rewrite !lsumR_cons, IH. ring. Qed.

Lemma lsumR_map {P Q} (F : Q -> R) (g : P -> Q) l : lsumR F (map g l) = lsumR (fun x => F (g x)) l.
Proof. induction l as [|x l IH]; [reflexivity|]. cbn [map]. rewrite !lsumR_cons, IH. reflexivity. Qed.

Lemma lsumR_flat_map {P Q} (F : Q -> R) (g : P -> list Q) l :
  lsumR F (flat_map g l) = lsumR (fun x => lsumR F (g x)) l.
Proof. induction l as [|x l IH]; [reflexivity|]. cbn [flat_map]. rewrite lsumR_app, lsumR_cons, IH. reflexivity. Qed.

Lemma lsumR_ext {P} (F G : P -> R) l : (forall q, In q l -> F q = G q) -> lsumR F l = lsumR G l.
Proof.
  induction l as [|x l IH]; intros H; [reflexivity|]. rewrite !lsumR_cons.
  rewrite (H x) by (left; auto). rewrite IH by (intros q Hq; apply H; right; auto). reflexivity.
Qed.

Lemma lsumR_zrange (G : Z -> R) n : lsumR G (zrange n) = zsum G n.
Proof.
  unfold zrange, zsum. rewrite lsumR_map. generalize (Z.to_nat n) as m.
  induction m as [|m IH]; [reflexivity|].
  rewrite seq_S, lsumR_app, IH. cbn [plus psum]. unfold lsumR at 1. cbn [fold_left]. ring.
Qed.

Lemma lsumR_all_ix2 {T} (sh : shape2 (T:=T)) (F : Z * Z -> R) :
  lsumR F (all_ix2 sh) =
  zsum (fun i => zsum (fun j => F (i, j)) (npmf (py sh) (nyg sh))) (npmf (px sh) (nxg sh)).
Proof.
  unfold all_ix2. rewrite lsumR_flat_map, lsumR_zrange. apply zsum_ext. intros i Hi.
  rewrite lsumR_map, lsumR_zrange. reflexivity.
Qed.

Lemma lsumR_all_ix3 {T} (sh : shape3 (T:=T)) (F : Z * Z * Z -> R) :
  lsumR F (all_ix3 sh) =
  zsum (fun i => zsum (fun j => zsum (fun k => F (i, j, k)) (npmf (qz sh) (mzg sh))) (npmf (qy sh) (myg sh)))
       (npmf (qx sh) (mxg sh)).
Proof.
  unfold all_ix3. rewrite lsumR_flat_map, lsumR_zrange. apply zsum_ext. intros i Hi.
  rewrite lsumR_flat_map, lsumR_zrange. apply zsum_ext. intros j Hj.
  rewrite lsumR_map, lsumR_zrange. reflexivity.
Qed.

(* ------------------------------------------------------------------ one-dimensional second difference *)
Definition wr (n i : Z) : Z := wrap1 true n i.

Lemma wr_mod n i : (0 < n)%Z -> wr n i = (i mod n)%Z.
Proof. intros Hn. unfold wr. rewrite wrap1_mod by auto. reflexivity. Qed.

Lemma wr_small n i : (0 <= i < n)%Z -> wr n i = i.
Proof. intros Hi. rewrite wr_mod by lia. apply Z.mod_small. lia. Qed.

Lemma wr_range n i : (0 < n)%Z -> (0 <= wr n i < n)%Z.
Proof. intros Hn. rewrite wr_mod by auto. apply Z.mod_pos_bound. auto. Qed.

Lemma wr_succ_pred n i : (0 <= i < n)%Z -> wr n (wr n (i + 1) - 1) = i.
Proof.
  intros Hi. rewrite !wr_mod by lia. rewrite Zminus_mod_idemp_l.
  replace (i + 1 - 1)%Z with i by lia. apply Z.mod_small. lia.
Qed.

Lemma zsum_cyc F n : (1 <= n)%Z -> zsum (fun i => F (wr n (i + 1))) n = zsum F n.
Proof.
  intros Hn.
  assert (G : forall m, (0 <= m)%Z -> zsum (fun i => F (wr (m + 1) (i + 1))) (m + 1) = zsum F (m + 1)).
  { intros m Hm. rewrite zsum_succ, zsum_shift by lia.
    rewrite (zsum_ext (fun i => F (wr (m + 1) (i + 1))) (fun i => F (i + 1)%Z)) by (intros i Hi; rewrite wr_small by lia; reflexivity).
    rewrite wr_mod, Z.mod_same by lia. ring. }
  specialize (G (n - 1)%Z ltac:(lia)). replace (n - 1 + 1)%Z with n in G by lia. exact G.
Qed.

(* the quadratic form of the second difference: sum of products of forward differences *)
Definition energy1 (per : bool) (n : Z) (u v : Z -> R) : R :=
  if per then zsum (fun i => (u (wr n (i + 1)) - u i) * (v (wr n (i + 1)) - v i)) n
  else zsum (fun i => (u (i + 1)%Z - u i) * (v (i + 1)%Z - v i)) (n - 1).

Lemma energy1_sym per n u v : energy1 per n u v = energy1 per n v u.
Proof. unfold energy1. destruct per; apply zsum_ext; intros; ring. Qed.

Lemma energy1_nonneg per n u : 0 <= energy1 per n u u.
Proof. unfold energy1. destruct per; apply zsum_nonneg; intros; apply sq_nonneg. Qed.

Lemma lap1_first n (v : Z -> R) : lap1 Rops false n v 0%Z = v 1%Z - v 0%Z.
Proof. reflexivity. Qed.

Lemma lap1_last n (v : Z -> R) i : (2 <= n)%Z -> i = (n - 1)%Z ->
  lap1 Rops false n v i = v (i - 1)%Z - v i.
Proof.
  intros Hn ->. unfold lap1. destruct (Z.eqb_spec (n - 1) 0); [lia|]. rewrite Z.eqb_refl. reflexivity.
Qed.

Lemma lap1_mid n (v : Z -> R) i : (0 < i < n - 1)%Z ->
  lap1 Rops false n v i = v (i - 1)%Z + v (i + 1)%Z - 2 * v i.
Proof.
  intros Hi. unfold lap1. destruct (Z.eqb_spec i 0); [lia|]. destruct (Z.eqb_spec i (n - 1)); [lia|].
  reflexivity.
Qed.

Lemma lap1_np_energy n u v : (2 <= n)%Z ->
  zsum (fun i => u i * lap1 Rops false n v i) n = - energy1 false n u v.
Proof.
  intros Hn. unfold energy1. replace n with (2 + (n - 2))%Z by lia.
  assert (H0 : (0 <= n - 2)%Z) by lia. revert H0. generalize (n - 2)%Z as m. clear n Hn.
  intros m Hm. pattern m. apply natlike_ind; [| |exact Hm]; clear m Hm.
  - change (2 + 0)%Z with 2%Z. change (2 - 1)%Z with 1%Z. unfold zsum.
    change (Z.to_nat 2) with 2%nat. change (Z.to_nat 1) with 1%nat. cbn [psum].
    change (Z.of_nat 0) with 0%Z. change (Z.of_nat 1) with 1%Z.
    replace (lap1 Rops false 2 v 0%Z) with (v 1%Z - v 0%Z) by reflexivity.
    replace (lap1 Rops false 2 v 1%Z) with (v 0%Z - v 1%Z) by reflexivity.
    change (0 + 1)%Z with 1%Z. ring.
  - intros x Hx IH. set (n := (2 + x)%Z) in *. replace (2 + Z.succ x)%Z with (n + 1)%Z by lia.
    assert (Hn : (2 <= n)%Z) by lia.
    assert (S1 : forall f m, (1 <= m)%Z -> zsum f m = zsum f (m - 1) + f (m - 1)%Z).
    { intros f m Hm. replace m with ((m - 1) + 1)%Z at 1 by lia. apply zsum_succ. lia. }
    rewrite (S1 _ (n + 1)%Z) by lia. replace (n + 1 - 1)%Z with n by lia.
    rewrite (S1 _ n) by lia. rewrite (S1 _ n) in IH by lia.
    rewrite (S1 (fun i => (u (i + 1)%Z - u i) * (v (i + 1)%Z - v i)) n) by lia.
    rewrite (zsum_ext (fun i => u i * lap1 Rops false (n + 1) v i) (fun i => u i * lap1 Rops false n v i) (n - 1)).
    2:{ intros i Hi. f_equal. destruct (Z.eq_dec i 0) as [->|Hi0]; [reflexivity|]. rewrite !lap1_mid by lia. reflexivity. }
    rewrite (lap1_last n v (n - 1)) in IH by lia.
    rewrite (lap1_mid (n + 1) v (n - 1)) by lia.
    rewrite (lap1_last (n + 1) v n) by lia.
    replace (n - 1 + 1)%Z with n by lia.
    apply (eq_by_diff _ _ _ _ IH). ring.
Qed.

Lemma lap1_per_energy n u v : (1 <= n)%Z ->
  zsum (fun i => u i * lap1 Rops true n v i) n = - energy1 true n u v.
Proof.
  intros Hn. unfold energy1.
  set (C := fun i => u i * v i). set (F := fun i => u i * v (wr n (i - 1))).
  assert (E : zsum (fun i => u i * lap1 Rops true n v i + (u (wr n (i + 1)) - u i) * (v (wr n (i + 1)) - v i)) n =
              (zsum (fun i => C (wr n (i + 1))) n - zsum C n) - (zsum (fun i => F (wr n (i + 1))) n - zsum F n)).
  { rewrite <- !zsum_minus. apply zsum_ext. intros i Hi. unfold C, F, lap1. fold (wr n (i - 1)) (wr n (i + 1)).
    rewrite wr_succ_pred by lia. cbn [nadd nsub nmul nofZ Rops]. ring. }
  rewrite !zsum_cyc in E by lia. rewrite zsum_plus in E. lra.
Qed.

Lemma lap1_energy per n u v : (0 < n)%Z -> (per = false -> (2 <= n)%Z) ->
  zsum (fun i => u i * lap1 Rops per n v i) n = - energy1 per n u v.
Proof. intros Hn Hp. destruct per; [apply lap1_per_energy; lia | apply lap1_np_energy; auto]. Qed.

(* zero energy: the sequence is constant *)
Lemma energy1_zero_const per n u : (0 < n)%Z -> energy1 per n u u = 0 -> forall i, (0 <= i < n)%Z -> u i = u 0%Z.
Proof.
  intros Hn E.
  assert (D : forall i, (0 <= i < n - 1)%Z -> u (i + 1)%Z = u i).
  { intros i Hi. unfold energy1 in E. destruct per.
    - pose proof (zsum_zero_terms _ n (fun i _ => sq_nonneg (u (wr n (i + 1)) - u i)) E i ltac:(lia)) as Z0.
      cbv beta in Z0. apply sq_zero in Z0. rewrite wr_small in Z0 by lia. lra.
    - pose proof (zsum_zero_terms _ (n - 1) (fun i _ => sq_nonneg (u (i + 1)%Z - u i)) E i ltac:(lia)) as Z0.
      cbv beta in Z0. apply sq_zero in Z0. lra. }
  intros i Hi. destruct Hi as [Hi0 Hi1]. revert Hi1. pattern i. apply natlike_ind; [| |exact Hi0].
  - reflexivity.
  - intros x Hx IH Hlt. change (Z.succ x) with (x + 1)%Z. rewrite D by lia. apply IH. lia.
Qed.

Lemma lap1_linear per n (f g : Z -> R) c i :
  lap1 Rops per n (fun k => f k + c * g k) i = lap1 Rops per n f i + c * lap1 Rops per n g i.
Proof.
  unfold lap1. destruct per; [cbn [nadd nsub nmul nofZ Rops]; ring|].
  destruct (i =? 0)%Z; [cbn [nsub Rops]; ring|]. destruct (i =? n - 1)%Z; cbn [nadd nsub nmul nofZ Rops]; ring.
Qed.

Lemma lap1_const per n c i : lap1 Rops per n (fun _ => c) i = 0.
Proof.
  unfold lap1. destruct per; [cbn [nadd nsub nmul nofZ Rops]; ring|].
  destruct (i =? 0)%Z; [cbn [nsub Rops]; ring|]. destruct (i =? n - 1)%Z; cbn [nadd nsub nmul nofZ Rops]; ring.
Qed.

Lemma lap1_ext per n (a a' : Z -> R) i : (0 < n)%Z -> (per = false -> (2 <= n)%Z) -> (0 <= i < n)%Z ->
  (forall k, (0 <= k < n)%Z -> a k = a' k) -> lap1 Rops per n a i = lap1 Rops per n a' i.
Proof.
  intros Hn Hp Hi H. unfold lap1. destruct per.
  - fold (wr n (i - 1)) (wr n (i + 1)). rewrite !(H (wr n _)) by (apply wr_range; auto). rewrite (H i) by auto. reflexivity.
  - specialize (Hp eq_refl). destruct (Z.eqb_spec i 0); [rewrite !H by lia; reflexivity|].
    destruct (Z.eqb_spec i (n - 1)); rewrite !H by lia; reflexivity.
Qed.

Lemma efact_pos per n i : 0 < efact Rops per n i.
Proof.
  unfold efact. destruct per; cbn [n1 Rops]; [lra|].
  destruct ((i =? 0)%Z || (i =? n - 1)%Z); unfold nhalf; cbn [n1 ndiv nofZ Rops]; lra.
Qed.

(* ================================================================== the Laplacian of atimes, two dimensions *)
Section Lap2.
  Variable sh : shape2 (T:=R).
  Hypothesis Hnx : (0 < nxg sh)%Z.
  Hypothesis Hny : (0 < nyg sh)%Z.
  Notation Nx := (npmf (px sh) (nxg sh)).
  Notation Ny := (npmf (py sh) (nyg sh)).
  Notation ffx := (1 / (wx sh * wx sh)).
  Notation ffy := (1 / (wy sh * wy sh)).
  Notation ex := (efact Rops (px sh) Nx).
  Notation ey := (efact Rops (py sh) Ny).

  Lemma Nx_pos : (0 < Nx)%Z. Proof. apply npmf_pos; auto. Qed.
  Lemma Ny_pos : (0 < Ny)%Z. Proof. apply npmf_pos; auto. Qed.
  Lemma Nx_np : px sh = false -> (2 <= Nx)%Z. Proof. intros H. rewrite H. unfold npmf. lia. Qed.
  Lemma Ny_np : py sh = false -> (2 <= Ny)%Z. Proof. intros H. rewrite H. unfold npmf. lia. Qed.

  (* <x, y> over the PMF grid, summed in storage order *)
  Definition dot2 (x y : ix2 -> R) : R := lsumR (fun p => x p * y p) (all_ix2 sh).

  (* the quadratic form: squared forward differences, those along a non-periodic boundary halved *)
  Definition Q2 (x y : ix2 -> R) : R :=
    ffx * zsum (fun j => ey j * energy1 (px sh) Nx (fun i => x (i, j)) (fun i => y (i, j))) Ny +
    ffy * zsum (fun i => ex i * energy1 (py sh) Ny (fun j => x (i, j)) (fun j => y (i, j))) Nx.

  Lemma atimes2_eq A i j :
    atimes2 Rops sh A (i, j) = ey j * ffx * lap1 Rops (px sh) Nx (fun i' => A (i', j)) i +
                              ex i * ffy * lap1 Rops (py sh) Ny (fun j' => A (i, j')) j.
  Proof. reflexivity. Qed.

  Lemma dot2_atimes x y : dot2 x (atimes2 Rops sh y) = - Q2 x y.
  Proof.
    unfold dot2, Q2. rewrite lsumR_all_ix2.
    rewrite (zsum_ext _ (fun i => zsum (fun j => x (i, j) * (ey j * ffx * lap1 Rops (px sh) Nx (fun i' => y (i', j)) i)) Ny +
                                  zsum (fun j => x (i, j) * (ex i * ffy * lap1 Rops (py sh) Ny (fun j' => y (i, j')) j)) Ny)).
    2:{ intros i Hi. rewrite <- zsum_plus. apply zsum_ext. intros j Hj. rewrite atimes2_eq. ring. }
    rewrite zsum_plus.
    assert (H1 : zsum (fun i => zsum (fun j => x (i, j) * (ey j * ffx * lap1 Rops (px sh) Nx (fun i' => y (i', j)) i)) Ny) Nx =
                 - (ffx * zsum (fun j => ey j * energy1 (px sh) Nx (fun i => x (i, j)) (fun i => y (i, j))) Ny)).
    { rewrite zsum_swap.
      transitivity (zsum (fun j => (- ffx) * (ey j * energy1 (px sh) Nx (fun i => x (i, j)) (fun i => y (i, j)))) Ny);
        [|rewrite zsum_scal; ring].
      apply zsum_ext. intros j Hj.
      rewrite (zsum_ext _ (fun i => (ey j * ffx) * (x (i, j) * lap1 Rops (px sh) Nx (fun i' => y (i', j)) i))) by (intros; ring).
      rewrite zsum_scal.
      pose proof (lap1_energy (px sh) Nx (fun i => x (i, j)) (fun i => y (i, j)) Nx_pos Nx_np) as E. cbv beta in E.
      rewrite E. ring. }
    assert (H2 : zsum (fun i => zsum (fun j => x (i, j) * (ex i * ffy * lap1 Rops (py sh) Ny (fun j' => y (i, j')) j)) Ny) Nx =
                 - (ffy * zsum (fun i => ex i * energy1 (py sh) Ny (fun j => x (i, j)) (fun j => y (i, j))) Nx)).
    { transitivity (zsum (fun i => (- ffy) * (ex i * energy1 (py sh) Ny (fun j => x (i, j)) (fun j => y (i, j)))) Nx);
        [|rewrite zsum_scal; ring].
      apply zsum_ext. intros i Hi.
      rewrite (zsum_ext _ (fun j => (ex i * ffy) * (x (i, j) * lap1 Rops (py sh) Ny (fun j' => y (i, j')) j))) by (intros; ring).
      rewrite zsum_scal.
      pose proof (lap1_energy (py sh) Ny (fun j => x (i, j)) (fun j => y (i, j)) Ny_pos Ny_np) as E. cbv beta in E.
      rewrite E. ring. }
    rewrite H1, H2. ring.
  Qed.

  Lemma Q2_sym x y : Q2 x y = Q2 y x.
  Proof.
    unfold Q2. f_equal; f_equal; apply zsum_ext; intros k Hk; rewrite energy1_sym; reflexivity.
  Qed.

  Lemma dot2_comm x y : dot2 x y = dot2 y x.
  Proof. unfold dot2. apply lsumR_ext. intros; ring. Qed.

  (* the matrix of atimes is symmetric: the precondition of the conjugate-gradient solver *)
  Lemma laplacian_symmetric2 x y : dot2 x (atimes2 Rops sh y) = dot2 (atimes2 Rops sh x) y.
  Proof. rewrite dot2_atimes, (dot2_comm (atimes2 Rops sh x) y), dot2_atimes, Q2_sym. reflexivity. Qed.

  (* constants are in its kernel, at every point *)
  Lemma laplacian_kernel2 c p : atimes2 Rops sh (fun _ => c) p = 0.
  Proof. destruct p as [i j]. rewrite atimes2_eq, !lap1_const. ring. Qed.

  Lemma atimes2_linear f g c p :
    atimes2 Rops sh (fun q => f q + c * g q) p = atimes2 Rops sh f p + c * atimes2 Rops sh g p.
  Proof.
    destruct p as [i j]. rewrite !atimes2_eq.
    rewrite (lap1_linear (px sh) Nx (fun i' => f (i', j)) (fun i' => g (i', j))).
    rewrite (lap1_linear (py sh) Ny (fun j' => f (i, j')) (fun j' => g (i, j'))). ring.
  Qed.

  Lemma atimes2_ext f g p : in_pmf2 sh p -> (forall q, in_pmf2 sh q -> f q = g q) ->
    atimes2 Rops sh f p = atimes2 Rops sh g p.
  Proof.
    intros [Hp1 Hp2] H. destruct p as [i j]. cbn [fst snd] in *. rewrite !atimes2_eq.
    rewrite (lap1_ext (px sh) Nx (fun i' => f (i', j)) (fun i' => g (i', j)) i Nx_pos Nx_np Hp1)
      by (intros k Hk; apply H; split; cbn [fst snd]; lia).
    rewrite (lap1_ext (py sh) Ny (fun j' => f (i, j')) (fun j' => g (i, j')) j Ny_pos Ny_np Hp2)
      by (intros k Hk; apply H; split; cbn [fst snd]; lia).
    reflexivity.
  Qed.

  (* negative semi-definite, and the kernel is exactly the constants (non-zero widths) *)
  Hypothesis Hwx : wx sh <> 0.
  Hypothesis Hwy : wy sh <> 0.

  Lemma ffx_pos : 0 < ffx.
  Proof. apply Rdiv_lt_0_compat; [lra|]. pose proof (sq_nonneg (wx sh)). destruct (Req_dec (wx sh * wx sh) 0) as [E|E]; [apply sq_zero in E; contradiction | lra]. Qed.
  Lemma ffy_pos : 0 < ffy.
  Proof. apply Rdiv_lt_0_compat; [lra|]. pose proof (sq_nonneg (wy sh)). destruct (Req_dec (wy sh * wy sh) 0) as [E|E]; [apply sq_zero in E; contradiction | lra]. Qed.

  Lemma Q2_nonneg x : 0 <= Q2 x x.
  Proof.
    unfold Q2. apply Rplus_le_le_0_compat; apply Rmult_le_pos;
      try (left; first [apply ffx_pos | apply ffy_pos]);
      apply zsum_nonneg; intros k Hk; apply Rmult_le_pos; try (left; apply efact_pos); apply energy1_nonneg.
  Qed.

  Lemma laplacian_negative_semidefinite2 x : dot2 x (atimes2 Rops sh x) <= 0.
  Proof. rewrite dot2_atimes. pose proof (Q2_nonneg x). lra. Qed.

  Lemma Q2_zero_const x : Q2 x x = 0 -> forall p, in_pmf2 sh p -> x p = x (0, 0)%Z.
  Proof.
    intros E. unfold Q2 in E.
    set (S1 := zsum (fun j => ey j * energy1 (px sh) Nx (fun i => x (i, j)) (fun i => x (i, j))) Ny) in *.
    set (S2 := zsum (fun i => ex i * energy1 (py sh) Ny (fun j => x (i, j)) (fun j => x (i, j))) Nx) in *.
    assert (P1 : forall j, (0 <= j < Ny)%Z -> 0 <= ey j * energy1 (px sh) Nx (fun i => x (i, j)) (fun i => x (i, j)))
      by (intros; apply Rmult_le_pos; [left; apply efact_pos | apply energy1_nonneg]).
    assert (P2 : forall i, (0 <= i < Nx)%Z -> 0 <= ex i * energy1 (py sh) Ny (fun j => x (i, j)) (fun j => x (i, j)))
      by (intros; apply Rmult_le_pos; [left; apply efact_pos | apply energy1_nonneg]).
    pose proof (zsum_nonneg _ _ P1) as N1. pose proof (zsum_nonneg _ _ P2) as N2. fold S1 in N1. fold S2 in N2.
    pose proof ffx_pos as Fx. pose proof ffy_pos as Fy.
    assert (Z1 : S1 = 0).
    { pose proof (Rmult_le_pos _ _ (Rlt_le _ _ Fx) N1). pose proof (Rmult_le_pos _ _ (Rlt_le _ _ Fy) N2).
      assert (ffx * S1 = 0) by lra. destruct (Rmult_integral _ _ H1); lra. }
    assert (Z2 : S2 = 0).
    { pose proof (Rmult_le_pos _ _ (Rlt_le _ _ Fx) N1). pose proof (Rmult_le_pos _ _ (Rlt_le _ _ Fy) N2).
      assert (ffy * S2 = 0) by lra. destruct (Rmult_integral _ _ H1); lra. }
    intros [i j] [Hi Hj]. cbn [fst snd] in *.
    (* along x at fixed j, then along y at i = 0 *)
    pose proof (zsum_zero_terms _ _ P1 Z1 j Hj) as T1. cbv beta in T1.
    destruct (Rmult_integral _ _ T1) as [T|T]; [pose proof (efact_pos (py sh) Ny j); lra|].
    pose proof (energy1_zero_const (px sh) Nx (fun i => x (i, j)) Nx_pos T i Hi) as C1. cbv beta in C1.
    pose proof (zsum_zero_terms _ _ P2 Z2 0%Z ltac:(pose proof Nx_pos; lia)) as T2. cbv beta in T2.
    destruct (Rmult_integral _ _ T2) as [T'|T']; [pose proof (efact_pos (px sh) Nx 0); lra|].
    pose proof (energy1_zero_const (py sh) Ny (fun j => x (0%Z, j)) Ny_pos T' j Hj) as C2. cbv beta in C2.
    rewrite C1, C2. reflexivity.
  Qed.

  (* two solutions of the same discrete Poisson problem differ by a constant *)
  Lemma poisson_unique2 x y : (forall p, in_pmf2 sh p -> atimes2 Rops sh x p = atimes2 Rops sh y p) ->
    exists c, forall p, in_pmf2 sh p -> x p = y p + c.
  Proof.
    intros H. set (d := fun q => x q + (-1) * y q).
    assert (Hd : forall p, in_pmf2 sh p -> atimes2 Rops sh d p = 0).
    { intros p Hp. unfold d. rewrite atimes2_linear, H by auto. ring. }
    assert (Q0 : Q2 d d = 0).
    { pose proof (dot2_atimes d d) as E. unfold dot2 in E.
      rewrite (lsumR_ext _ (fun _ => 0)) in E.
      2:{ intros q Hq. apply (in_all_ix2 sh) in Hq. rewrite Hd by auto. ring. }
      assert (Z0 : forall l : list ix2, lsumR (fun _ => 0) l = 0).
      { induction l as [|a l IHl]; [reflexivity | rewrite lsumR_cons, IHl; ring]. }
      rewrite Z0 in E. lra. }
    exists (d (0, 0)%Z). intros p Hp. pose proof (Q2_zero_const d Q0 p Hp) as C. unfold d in C |- *. lra.
  Qed.
End Lap2.

(* ================================================================== the Laplacian of atimes, three dimensions *)
Section Lap3.
  Variable sh : shape3 (T:=R).
  Hypothesis Hnx : (0 < mxg sh)%Z.
  Hypothesis Hny : (0 < myg sh)%Z.
  Hypothesis Hnz : (0 < mzg sh)%Z.
  Notation Nx := (npmf (qx sh) (mxg sh)).
  Notation Ny := (npmf (qy sh) (myg sh)).
  Notation Nz := (npmf (qz sh) (mzg sh)).
  Notation ffx := (1 / (vx sh * vx sh)).
  Notation ffy := (1 / (vy sh * vy sh)).
  Notation ffz := (1 / (vz sh * vz sh)).
  Notation ex := (efact Rops (qx sh) Nx).
  Notation ey := (efact Rops (qy sh) Ny).
  Notation ez := (efact Rops (qz sh) Nz).

  Lemma Mx_pos : (0 < Nx)%Z. Proof. apply npmf_pos; auto. Qed.
  Lemma My_pos : (0 < Ny)%Z. Proof. apply npmf_pos; auto. Qed.
  Lemma Mz_pos : (0 < Nz)%Z. Proof. apply npmf_pos; auto. Qed.
  Lemma Mx_np : qx sh = false -> (2 <= Nx)%Z. Proof. intros H. rewrite H. unfold npmf. lia. Qed.
  Lemma My_np : qy sh = false -> (2 <= Ny)%Z. Proof. intros H. rewrite H. unfold npmf. lia. Qed.
  Lemma Mz_np : qz sh = false -> (2 <= Nz)%Z. Proof. intros H. rewrite H. unfold npmf. lia. Qed.

  Definition dot3 (x y : ix3 -> R) : R := lsumR (fun p => x p * y p) (all_ix3 sh).

  Definition Q3 (x y : ix3 -> R) : R :=
    ffx * zsum (fun j => zsum (fun k => ey j * ez k * energy1 (qx sh) Nx (fun i => x (i, j, k)) (fun i => y (i, j, k))) Nz) Ny +
    ffy * zsum (fun i => zsum (fun k => ex i * ez k * energy1 (qy sh) Ny (fun j => x (i, j, k)) (fun j => y (i, j, k))) Nz) Nx +
    ffz * zsum (fun i => zsum (fun j => ex i * ey j * energy1 (qz sh) Nz (fun k => x (i, j, k)) (fun k => y (i, j, k))) Ny) Nx.

  Lemma atimes3_eq A i j k :
    atimes3 Rops sh A (i, j, k) =
      ey j * ez k * ffx * lap1 Rops (qx sh) Nx (fun i' => A (i', j, k)) i +
      ex i * ez k * ffy * lap1 Rops (qy sh) Ny (fun j' => A (i, j', k)) j +
      ex i * ey j * ffz * lap1 Rops (qz sh) Nz (fun k' => A (i, j, k')) k.
  Proof. reflexivity. Qed.

  Lemma dot3_atimes x y : dot3 x (atimes3 Rops sh y) = - Q3 x y.
  Proof.
    unfold dot3, Q3. rewrite lsumR_all_ix3.
    set (tx := fun i j k => x (i, j, k) * (ey j * ez k * ffx * lap1 Rops (qx sh) Nx (fun i' => y (i', j, k)) i)).
    set (ty := fun i j k => x (i, j, k) * (ex i * ez k * ffy * lap1 Rops (qy sh) Ny (fun j' => y (i, j', k)) j)).
    set (tz := fun i j k => x (i, j, k) * (ex i * ey j * ffz * lap1 Rops (qz sh) Nz (fun k' => y (i, j, k')) k)).
    rewrite (zsum_ext _ (fun i => zsum (fun j => zsum (fun k => tx i j k) Nz) Ny +
                                  zsum (fun j => zsum (fun k => ty i j k) Nz) Ny +
                                  zsum (fun j => zsum (fun k => tz i j k) Nz) Ny)).
    2:{ intros i Hi. rewrite <- !zsum_plus. apply zsum_ext. intros j Hj. rewrite <- !zsum_plus.
        apply zsum_ext. intros k Hk. rewrite atimes3_eq. unfold tx, ty, tz. ring. }
    rewrite !zsum_plus.
    assert (H1 : zsum (fun i => zsum (fun j => zsum (fun k => tx i j k) Nz) Ny) Nx =
                 - (ffx * zsum (fun j => zsum (fun k => ey j * ez k * energy1 (qx sh) Nx (fun i => x (i, j, k)) (fun i => y (i, j, k))) Nz) Ny)).
    { rewrite (zsum_swap (fun i j => zsum (fun k => tx i j k) Nz)).
      transitivity (zsum (fun j => (- ffx) * zsum (fun k => ey j * ez k * energy1 (qx sh) Nx (fun i => x (i, j, k)) (fun i => y (i, j, k))) Nz) Ny);
        [|rewrite zsum_scal; ring].
      apply zsum_ext. intros j Hj. rewrite (zsum_swap (fun i k => tx i j k)). rewrite <- zsum_scal.
      apply zsum_ext. intros k Hk. unfold tx.
      rewrite (zsum_ext _ (fun i => (ey j * ez k * ffx) * (x (i, j, k) * lap1 Rops (qx sh) Nx (fun i' => y (i', j, k)) i))) by (intros; ring).
      rewrite zsum_scal.
      pose proof (lap1_energy (qx sh) Nx (fun i => x (i, j, k)) (fun i => y (i, j, k)) Mx_pos Mx_np) as E. cbv beta in E.
      rewrite E. ring. }
    assert (H2 : zsum (fun i => zsum (fun j => zsum (fun k => ty i j k) Nz) Ny) Nx =
                 - (ffy * zsum (fun i => zsum (fun k => ex i * ez k * energy1 (qy sh) Ny (fun j => x (i, j, k)) (fun j => y (i, j, k))) Nz) Nx)).
    { transitivity (zsum (fun i => (- ffy) * zsum (fun k => ex i * ez k * energy1 (qy sh) Ny (fun j => x (i, j, k)) (fun j => y (i, j, k))) Nz) Nx);
        [|rewrite zsum_scal; ring].
      apply zsum_ext. intros i Hi. rewrite (zsum_swap (fun j k => ty i j k)). rewrite <- zsum_scal.
      apply zsum_ext. intros k Hk. unfold ty.
      rewrite (zsum_ext _ (fun j => (ex i * ez k * ffy) * (x (i, j, k) * lap1 Rops (qy sh) Ny (fun j' => y (i, j', k)) j))) by (intros; ring).
      rewrite zsum_scal.
      pose proof (lap1_energy (qy sh) Ny (fun j => x (i, j, k)) (fun j => y (i, j, k)) My_pos My_np) as E. cbv beta in E.
      rewrite E. ring. }
    assert (H3 : zsum (fun i => zsum (fun j => zsum (fun k => tz i j k) Nz) Ny) Nx =
                 - (ffz * zsum (fun i => zsum (fun j => ex i * ey j * energy1 (qz sh) Nz (fun k => x (i, j, k)) (fun k => y (i, j, k))) Ny) Nx)).
    { transitivity (zsum (fun i => (- ffz) * zsum (fun j => ex i * ey j * energy1 (qz sh) Nz (fun k => x (i, j, k)) (fun k => y (i, j, k))) Ny) Nx);
        [|rewrite zsum_scal; ring].
      apply zsum_ext. intros i Hi. rewrite <- zsum_scal.
      apply zsum_ext. intros j Hj. unfold tz.
      rewrite (zsum_ext _ (fun k => (ex i * ey j * ffz) * (x (i, j, k) * lap1 Rops (qz sh) Nz (fun k' => y (i, j, k')) k))) by (intros; ring).
      rewrite zsum_scal.
      pose proof (lap1_energy (qz sh) Nz (fun k => x (i, j, k)) (fun k => y (i, j, k)) Mz_pos Mz_np) as E. cbv beta in E.
      rewrite E. ring. }
    rewrite H1, H2, H3. ring.
  Qed.

  Lemma Q3_sym x y : Q3 x y = Q3 y x.
  Proof.
    unfold Q3. f_equal; [f_equal|]; f_equal; apply zsum_ext; intros a Ha; apply zsum_ext; intros b Hb;
      rewrite energy1_sym; reflexivity.
  Qed.

  Lemma dot3_comm x y : dot3 x y = dot3 y x.
  Proof. unfold dot3. apply lsumR_ext. intros; ring. Qed.

  Lemma laplacian_symmetric3 x y : dot3 x (atimes3 Rops sh y) = dot3 (atimes3 Rops sh x) y.
  Proof. rewrite dot3_atimes, (dot3_comm (atimes3 Rops sh x) y), dot3_atimes, Q3_sym. reflexivity. Qed.

  Lemma laplacian_kernel3 c p : atimes3 Rops sh (fun _ => c) p = 0.
  Proof. destruct p as [[i j] k]. rewrite atimes3_eq, !lap1_const. ring. Qed.

  Lemma atimes3_linear f g c p :
    atimes3 Rops sh (fun q => f q + c * g q) p = atimes3 Rops sh f p + c * atimes3 Rops sh g p.
  Proof.
    destruct p as [[i j] k]. rewrite !atimes3_eq.
    rewrite (lap1_linear (qx sh) Nx (fun i' => f (i', j, k)) (fun i' => g (i', j, k))).
    rewrite (lap1_linear (qy sh) Ny (fun j' => f (i, j', k)) (fun j' => g (i, j', k))).
    rewrite (lap1_linear (qz sh) Nz (fun k' => f (i, j, k')) (fun k' => g (i, j, k'))). ring.
  Qed.

  Lemma atimes3_ext f g p : in_pmf3 sh p -> (forall q, in_pmf3 sh q -> f q = g q) ->
    atimes3 Rops sh f p = atimes3 Rops sh g p.
  Proof.
    intros [Hp1 [Hp2 Hp3]] H. destruct p as [[i j] k]. unfold i3x, i3y, i3z in *. cbn [fst snd] in *. rewrite !atimes3_eq.
    rewrite (lap1_ext (qx sh) Nx (fun i' => f (i', j, k)) (fun i' => g (i', j, k)) i Mx_pos Mx_np Hp1)
      by (intros a Ha; apply H; unfold in_pmf3, i3x, i3y, i3z; cbn [fst snd]; lia).
    rewrite (lap1_ext (qy sh) Ny (fun j' => f (i, j', k)) (fun j' => g (i, j', k)) j My_pos My_np Hp2)
      by (intros a Ha; apply H; unfold in_pmf3, i3x, i3y, i3z; cbn [fst snd]; lia).
    rewrite (lap1_ext (qz sh) Nz (fun k' => f (i, j, k')) (fun k' => g (i, j, k')) k Mz_pos Mz_np Hp3)
      by (intros a Ha; apply H; unfold in_pmf3, i3x, i3y, i3z; cbn [fst snd]; lia).
    reflexivity.
  Qed.

  Hypothesis Hwx : vx sh <> 0.
  Hypothesis Hwy : vy sh <> 0.
  Hypothesis Hwz : vz sh <> 0.

  Lemma ff_pos w : w <> 0 -> 0 < 1 / (w * w).
  Proof. intros Hw. apply Rdiv_lt_0_compat; [lra|]. pose proof (sq_nonneg w). destruct (Req_dec (w * w) 0) as [E|E]; [apply sq_zero in E; contradiction | lra]. Qed.

  Lemma term3_nonneg (e1 e2 : Z -> R) (E : Z -> Z -> R) n m :
    (forall a, 0 < e1 a) -> (forall b, 0 < e2 b) -> (forall a b, 0 <= E a b) ->
    forall a, (0 <= a < n)%Z -> 0 <= zsum (fun b => e1 a * e2 b * E a b) m.
  Proof.
    intros H1 H2 HE a Ha. apply zsum_nonneg. intros b Hb.
    apply Rmult_le_pos; [apply Rmult_le_pos; left; auto | auto].
  Qed.

  Lemma Q3_nonneg x : 0 <= Q3 x x.
  Proof.
    unfold Q3. repeat apply Rplus_le_le_0_compat; (apply Rmult_le_pos; [left; apply ff_pos; auto|]);
      apply zsum_nonneg; intros a Ha; apply zsum_nonneg; intros b Hb;
      (apply Rmult_le_pos; [apply Rmult_le_pos; left; apply efact_pos | apply energy1_nonneg]).
  Qed.

  Lemma laplacian_negative_semidefinite3 x : dot3 x (atimes3 Rops sh x) <= 0.
  Proof. rewrite dot3_atimes. pose proof (Q3_nonneg x). lra. Qed.

  Lemma three_zero a b c fa fb fc : 0 < fa -> 0 < fb -> 0 < fc -> 0 <= a -> 0 <= b -> 0 <= c ->
    fa * a + fb * b + fc * c = 0 -> a = 0 /\ b = 0 /\ c = 0.
  Proof.
    intros Ha Hb Hc Pa Pb Pc E.
    pose proof (Rmult_le_pos _ _ (Rlt_le _ _ Ha) Pa). pose proof (Rmult_le_pos _ _ (Rlt_le _ _ Hb) Pb).
    pose proof (Rmult_le_pos _ _ (Rlt_le _ _ Hc) Pc).
    assert (E1 : fa * a = 0) by lra. assert (E2 : fb * b = 0) by lra. assert (E3 : fc * c = 0) by lra.
    repeat split; [destruct (Rmult_integral _ _ E1) | destruct (Rmult_integral _ _ E2) | destruct (Rmult_integral _ _ E3)]; lra.
  Qed.

  Lemma Q3_zero_const x : Q3 x x = 0 -> forall p, in_pmf3 sh p -> x p = x (0, 0, 0)%Z.
  Proof.
    intros E. unfold Q3 in E.
    set (FX := fun j k => ey j * ez k * energy1 (qx sh) Nx (fun i => x (i, j, k)) (fun i => x (i, j, k))) in *.
    set (FY := fun i k => ex i * ez k * energy1 (qy sh) Ny (fun j => x (i, j, k)) (fun j => x (i, j, k))) in *.
    set (FZ := fun i j => ex i * ey j * energy1 (qz sh) Nz (fun k => x (i, j, k)) (fun k => x (i, j, k))) in *.
    assert (PX : forall j k, 0 <= FX j k)
      by (intros; unfold FX; apply Rmult_le_pos; [apply Rmult_le_pos; left; apply efact_pos | apply energy1_nonneg]).
    assert (PY : forall i k, 0 <= FY i k)
      by (intros; unfold FY; apply Rmult_le_pos; [apply Rmult_le_pos; left; apply efact_pos | apply energy1_nonneg]).
    assert (PZ : forall i j, 0 <= FZ i j)
      by (intros; unfold FZ; apply Rmult_le_pos; [apply Rmult_le_pos; left; apply efact_pos | apply energy1_nonneg]).
    assert (NX : forall j, (0 <= j < Ny)%Z -> 0 <= zsum (fun k => FX j k) Nz) by (intros; apply zsum_nonneg; intros; apply PX).
    assert (NY : forall i, (0 <= i < Nx)%Z -> 0 <= zsum (fun k => FY i k) Nz) by (intros; apply zsum_nonneg; intros; apply PY).
    assert (NZ : forall i, (0 <= i < Nx)%Z -> 0 <= zsum (fun j => FZ i j) Ny) by (intros; apply zsum_nonneg; intros; apply PZ).
    destruct (three_zero _ _ _ _ _ _ (ff_pos _ Hwx) (ff_pos _ Hwy) (ff_pos _ Hwz)
                (zsum_nonneg _ _ NX) (zsum_nonneg _ _ NY) (zsum_nonneg _ _ NZ) E) as [Z1 [Z2 Z3]].
    pose proof Mx_pos as Px. pose proof My_pos as Py.
    intros [[i j] k] [Hi [Hj Hk]]. unfold i3x, i3y, i3z in *. cbn [fst snd] in *.
    (* along x at (j, k) *)
    pose proof (zsum_zero_terms _ _ NX Z1 j Hj) as A1. cbv beta in A1.
    pose proof (zsum_zero_terms _ _ (fun k _ => PX j k) A1 k Hk) as A2. unfold FX in A2.
    destruct (Rmult_integral _ _ A2) as [A3|A3];
      [pose proof (efact_pos (qy sh) Ny j); pose proof (efact_pos (qz sh) Nz k); destruct (Rmult_integral _ _ A3); lra|].
    pose proof (energy1_zero_const (qx sh) Nx (fun i => x (i, j, k)) Mx_pos A3 i Hi) as C1. cbv beta in C1.
    (* along y at (0, k) *)
    pose proof (zsum_zero_terms _ _ NY Z2 0%Z ltac:(lia)) as B1. cbv beta in B1.
    pose proof (zsum_zero_terms _ _ (fun k _ => PY 0%Z k) B1 k Hk) as B2. unfold FY in B2.
    destruct (Rmult_integral _ _ B2) as [B3|B3];
      [pose proof (efact_pos (qx sh) Nx 0); pose proof (efact_pos (qz sh) Nz k); destruct (Rmult_integral _ _ B3); lra|].
    pose proof (energy1_zero_const (qy sh) Ny (fun j => x (0%Z, j, k)) My_pos B3 j Hj) as C2. cbv beta in C2.
    (* along z at (0, 0) *)
    pose proof (zsum_zero_terms _ _ NZ Z3 0%Z ltac:(lia)) as D1. cbv beta in D1.
    pose proof (zsum_zero_terms _ _ (fun j _ => PZ 0%Z j) D1 0%Z ltac:(lia)) as D2. unfold FZ in D2.
    destruct (Rmult_integral _ _ D2) as [D3|D3];
      [pose proof (efact_pos (qx sh) Nx 0); pose proof (efact_pos (qy sh) Ny 0); destruct (Rmult_integral _ _ D3); lra|].
    pose proof (energy1_zero_const (qz sh) Nz (fun k => x (0%Z, 0%Z, k)) Mz_pos D3 k Hk) as C3. cbv beta in C3.
    rewrite C1, C2, C3. reflexivity.
  Qed.

  Lemma poisson_unique3 x y : (forall p, in_pmf3 sh p -> atimes3 Rops sh x p = atimes3 Rops sh y p) ->
    exists c, forall p, in_pmf3 sh p -> x p = y p + c.
  Proof.
    intros H. set (d := fun q => x q + (-1) * y q).
    assert (Hd : forall p, in_pmf3 sh p -> atimes3 Rops sh d p = 0).
    { intros p Hp. unfold d. rewrite atimes3_linear, H by auto. ring. }
    assert (Q0 : Q3 d d = 0).
    { pose proof (dot3_atimes d d) as E. unfold dot3 in E.
      rewrite (lsumR_ext _ (fun _ => 0)) in E.
      2:{ intros q Hq. apply (in_all_ix3 sh) in Hq. rewrite Hd by auto. ring. }
      assert (Z0 : forall l : list ix3, lsumR (fun _ => 0) l = 0).
      { induction l as [|a l IHl]; [reflexivity | rewrite lsumR_cons, IHl; ring]. }
      rewrite Z0 in E. lra. }
    exists (d (0, 0, 0)%Z). intros p Hp. pose proof (Q3_zero_const d Q0 p Hp) as C. unfold d in C |- *. lra.
  Qed.
End Lap3.

(* ================================================================== solvability: the divergence sums to zero *)
Section DivSum2.
  Variable sc : smooth_cfg.
  Variable sm : bool.
  Variable sh : shape2 (T:=R).
  Hypothesis Hnx : (0 < nxg sh)%Z.
  Hypothesis Hny : (0 < nyg sh)%Z.
  Notation Nx := (npmf (px sh) (nxg sh)).
  Notation Ny := (npmf (py sh) (nyg sh)).
  Notation g := (gval2 Rops sc sm sh).

  (* the gradient seen one step below the PMF grid is the one seen at its last point: both are outside a
     non-periodic gradient grid (zero), or the same bin of a periodic one *)
  Lemma gval2_edge st ix : fst (wde2 sh ix) = true -> g st ix = (0, 0).
  Proof. intros H. unfold gval2, get_grad2. destruct (wde2 sh ix) as [e ix']. cbn [fst] in H. subst e. reflexivity. Qed.

  Lemma gval2_closes_x st j : g st (Nx - 1, j)%Z = g st (-1, j)%Z.
  Proof.
    destruct (px sh) eqn:Ep; unfold npmf.
    - rewrite <- (gval2_wrap_fst Rops sc sm sh Hnx st (-1) j). rewrite Ep.
      rewrite wrap1_mod, mod_minus_one by lia. reflexivity.
    - rewrite !gval2_edge; [reflexivity | |]; unfold wde2, edge1; cbn [fst snd]; rewrite Ep.
      + reflexivity.
      + replace (nxg sh + 1 - 1)%Z with (nxg sh) by lia. rewrite Z.leb_refl, orb_true_r. reflexivity.
  Qed.

  Lemma gval2_closes_y st i : g st (i, Ny - 1)%Z = g st (i, -1)%Z.
  Proof.
    destruct (py sh) eqn:Ep; unfold npmf.
    - rewrite <- (gval2_wrap_snd Rops sc sm sh Hny st i (-1)). rewrite Ep.
      rewrite wrap1_mod, mod_minus_one by lia. reflexivity.
    - rewrite !gval2_edge; [reflexivity | |]; unfold wde2, edge1; cbn [fst snd]; rewrite Ep.
      + rewrite orb_true_r. reflexivity.
      + replace (nyg sh + 1 - 1)%Z with (nyg sh) by lia. rewrite Z.leb_refl, !orb_true_r. reflexivity.
  Qed.

  Lemma div_value2_tele st i j :
    div_value2 Rops sc sm sh st (i, j) =
      / 2 * / wx sh * ((fst (g st (i, j - 1)%Z) + fst (g st (i, j))) - (fst (g st (i - 1, j - 1)%Z) + fst (g st (i - 1, j)%Z))) +
      / 2 * / wy sh * ((snd (g st (i - 1, j)%Z) + snd (g st (i, j))) - (snd (g st (i - 1, j - 1)%Z) + snd (g st (i, j - 1)%Z))).
  Proof.
    unfold div_value2, div_formula2, nhalf. cbn [fst snd nadd nsub nmul ndiv n1 nofZ Rops]. unfold Rdiv. ring.
  Qed.

  Lemma divergence_sums_to_zero2 st : lsumR (div_value2 Rops sc sm sh st) (all_ix2 sh) = 0.
  Proof.
    pose proof (npmf_pos (px sh) (nxg sh) Hnx) as Px. pose proof (npmf_pos (py sh) (nyg sh) Hny) as Py.
    rewrite lsumR_all_ix2.
    set (HX := fun j i => fst (g st (i, j - 1)%Z) + fst (g st (i, j))).
    set (HY := fun i j => snd (g st (i - 1, j)%Z) + snd (g st (i, j))).
    rewrite (zsum_ext _ (fun i => zsum (fun j => / 2 * / wx sh * (HX j i - HX j (i - 1)%Z)) Ny +
                                  zsum (fun j => / 2 * / wy sh * (HY i j - HY i (j - 1)%Z)) Ny)).
    2:{ intros i Hi. rewrite <- zsum_plus. apply zsum_ext. intros j Hj. rewrite div_value2_tele. unfold HX, HY. ring. }
    rewrite zsum_plus.
    rewrite (zsum_swap (fun i j => / 2 * / wx sh * (HX j i - HX j (i - 1)%Z))).
    rewrite (zsum_ext (fun j => zsum (fun i => / 2 * / wx sh * (HX j i - HX j (i - 1)%Z)) Nx) (fun _ => 0)).
    2:{ intros j Hj. rewrite zsum_scal, zsum_tele by lia. unfold HX. rewrite !gval2_closes_x. ring. }
    rewrite (zsum_ext (fun i => zsum (fun j => / 2 * / wy sh * (HY i j - HY i (j - 1)%Z)) Ny) (fun _ => 0)).
    2:{ intros i Hi. rewrite zsum_scal, zsum_tele by lia. unfold HY. rewrite !gval2_closes_y. ring. }
    rewrite !zsum_zero. ring.
  Qed.
End DivSum2.

Section DivSum3.
  Variable sc : smooth_cfg.
  Variable sm : bool.
  Variable sh : shape3 (T:=R).
  Hypothesis Hnx : (0 < mxg sh)%Z.
  Hypothesis Hny : (0 < myg sh)%Z.
  Hypothesis Hnz : (0 < mzg sh)%Z.
  Notation Nx := (npmf (qx sh) (mxg sh)).
  Notation Ny := (npmf (qy sh) (myg sh)).
  Notation Nz := (npmf (qz sh) (mzg sh)).
  Notation g := (gval3 Rops sc sm sh).

  Lemma gval3_edge st ix : fst (wde3 sh ix) = true -> g st ix = (0, 0, 0).
  Proof. intros H. unfold gval3, get_grad3. destruct (wde3 sh ix) as [e ix']. cbn [fst] in H. subst e. reflexivity. Qed.

  Lemma edge1_np_last n : edge1 false n (n + 1 - 1) = true.
  Proof. unfold edge1. replace (n + 1 - 1)%Z with n by lia. rewrite Z.leb_refl, orb_true_r. reflexivity. Qed.
  Lemma edge1_np_m1 n : edge1 false n (-1) = true.
  Proof. reflexivity. Qed.

  Lemma gval3_closes_x st b c : g st (Nx - 1, b, c)%Z = g st (-1, b, c)%Z.
  Proof.
    destruct (qx sh) eqn:Ep; unfold npmf.
    - apply gval3_cong; try reflexivity; rewrite Ep; [reflexivity|].
      rewrite !wrap1_mod, mod_minus_one by lia. apply Z.mod_small. lia.
    - rewrite !gval3_edge; [reflexivity | |]; unfold wde3, i3x, i3y, i3z; cbn [fst snd]; rewrite Ep;
        [rewrite edge1_np_m1 | rewrite edge1_np_last]; reflexivity.
  Qed.

  Lemma gval3_closes_y st a c : g st (a, Ny - 1, c)%Z = g st (a, -1, c)%Z.
  Proof.
    destruct (qy sh) eqn:Ep; unfold npmf.
    - apply gval3_cong; try reflexivity; rewrite Ep; [reflexivity|].
      rewrite !wrap1_mod, mod_minus_one by lia. apply Z.mod_small. lia.
    - rewrite !gval3_edge; [reflexivity | |]; unfold wde3, i3x, i3y, i3z; cbn [fst snd]; rewrite Ep;
        [rewrite edge1_np_m1 | rewrite edge1_np_last]; rewrite orb_true_r; reflexivity.
  Qed.

  Lemma gval3_closes_z st a b : g st (a, b, Nz - 1)%Z = g st (a, b, -1)%Z.
  Proof.
    destruct (qz sh) eqn:Ep; unfold npmf.
    - apply gval3_cong; try reflexivity; rewrite Ep; [reflexivity|].
      rewrite !wrap1_mod, mod_minus_one by lia. apply Z.mod_small. lia.
    - rewrite !gval3_edge; [reflexivity | |]; unfold wde3, i3x, i3y, i3z; cbn [fst snd]; rewrite Ep;
        [rewrite edge1_np_m1 | rewrite edge1_np_last]; rewrite orb_true_r; reflexivity.
  Qed.

  Definition HX3 st (j k i : Z) : R :=
    t3x (g st (i, j - 1, k - 1)%Z) + t3x (g st (i, j - 1, k)%Z) + t3x (g st (i, j, k - 1)%Z) + t3x (g st (i, j, k)).
  Definition HY3 st (i k j : Z) : R :=
    t3y (g st (i - 1, j, k - 1)%Z) + t3y (g st (i - 1, j, k)%Z) + t3y (g st (i, j, k - 1)%Z) + t3y (g st (i, j, k)).
  Definition HZ3 st (i j k : Z) : R :=
    t3z (g st (i - 1, j - 1, k)%Z) + t3z (g st (i - 1, j, k)%Z) + t3z (g st (i, j - 1, k)%Z) + t3z (g st (i, j, k)).

  Lemma div_value3_tele st i j k :
    div_value3 Rops sc sm sh st (i, j, k) =
      / 4 * / vx sh * (HX3 st j k i - HX3 st j k (i - 1)%Z) +
      / 4 * / vy sh * (HY3 st i k j - HY3 st i k (j - 1)%Z) +
      / 4 * / vz sh * (HZ3 st i j k - HZ3 st i j (k - 1)%Z).
  Proof.
    unfold div_value3, div_formula3, HX3, HY3, HZ3, i3x, i3y, i3z. cbn [fst snd nadd nsub nmul ndiv n1 nofZ Rops].
    unfold Rdiv. ring.
  Qed.

  Lemma divergence_sums_to_zero3 st : lsumR (div_value3 Rops sc sm sh st) (all_ix3 sh) = 0.
  Proof.
    pose proof (npmf_pos (qx sh) (mxg sh) Hnx) as Px. pose proof (npmf_pos (qy sh) (myg sh) Hny) as Py.
    pose proof (npmf_pos (qz sh) (mzg sh) Hnz) as Pz.
    rewrite lsumR_all_ix3.
    set (TX := fun i j k => / 4 * / vx sh * (HX3 st j k i - HX3 st j k (i - 1)%Z)).
    set (TY := fun i j k => / 4 * / vy sh * (HY3 st i k j - HY3 st i k (j - 1)%Z)).
    set (TZ := fun i j k => / 4 * / vz sh * (HZ3 st i j k - HZ3 st i j (k - 1)%Z)).
    rewrite (zsum_ext _ (fun i => zsum (fun j => zsum (fun k => TX i j k) Nz) Ny +
                                  zsum (fun j => zsum (fun k => TY i j k) Nz) Ny +
                                  zsum (fun j => zsum (fun k => TZ i j k) Nz) Ny)).
    2:{ intros i Hi. rewrite <- !zsum_plus. apply zsum_ext. intros j Hj. rewrite <- !zsum_plus.
        apply zsum_ext. intros k Hk. rewrite div_value3_tele. reflexivity. }
    rewrite !zsum_plus.
    assert (H1 : zsum (fun i => zsum (fun j => zsum (fun k => TX i j k) Nz) Ny) Nx = 0).
    { rewrite (zsum_swap (fun i j => zsum (fun k => TX i j k) Nz)).
      rewrite (zsum_ext _ (fun _ => 0)); [apply zsum_zero|]. intros j Hj.
      rewrite (zsum_swap (fun i k => TX i j k)).
      rewrite (zsum_ext _ (fun _ => 0)); [apply zsum_zero|]. intros k Hk.
      unfold TX. rewrite zsum_scal, zsum_tele by lia. unfold HX3. rewrite !gval3_closes_x. ring. }
    assert (H2 : zsum (fun i => zsum (fun j => zsum (fun k => TY i j k) Nz) Ny) Nx = 0).
    { rewrite (zsum_ext _ (fun _ => 0)); [apply zsum_zero|]. intros i Hi.
      rewrite (zsum_swap (fun j k => TY i j k)).
      rewrite (zsum_ext _ (fun _ => 0)); [apply zsum_zero|]. intros k Hk.
      unfold TY. rewrite zsum_scal, zsum_tele by lia. unfold HY3. rewrite !gval3_closes_y. ring. }
    assert (H3 : zsum (fun i => zsum (fun j => zsum (fun k => TZ i j k) Nz) Ny) Nx = 0).
    { rewrite (zsum_ext _ (fun _ => 0)); [apply zsum_zero|]. intros i Hi.
      rewrite (zsum_ext _ (fun _ => 0)); [apply zsum_zero|]. intros j Hj.
      unfold TZ. rewrite zsum_scal, zsum_tele by lia. unfold HZ3. rewrite !gval3_closes_z. ring. }
    rewrite H1, H2, H3. ring.
  Qed.
End DivSum3.

(* ================================================================== conjugate gradient: what it returns *)
Lemma lsumR_nonneg {P} (F : P -> R) l : (forall q, In q l -> 0 <= F q) -> 0 <= lsumR F l.
Proof.
  induction l as [|a l IH]; intros H; [unfold lsumR; cbn; lra|]. rewrite lsumR_cons.
  specialize (IH (fun q Hq => H q (or_intror Hq))). specialize (H a (or_introl eq_refl)). lra.
Qed.

Lemma lsumR_zero_terms {P} (F : P -> R) l : (forall q, In q l -> 0 <= F q) -> lsumR F l = 0 ->
  forall q, In q l -> F q = 0.
Proof.
  induction l as [|a l IH]; intros H E q Hq; [destruct Hq|]. rewrite lsumR_cons in E.
  pose proof (lsumR_nonneg F l (fun q Hq => H q (or_intror Hq))) as Hl.
  pose proof (H a (or_introl eq_refl)) as Ha.
  destruct Hq as [->|Hq]; [lra|]. apply IH; auto; [intros q' Hq'; apply H; right; auto | lra].
Qed.

Section CGProofs.
  Variable P : Type.
  Variable peqb : P -> P -> bool.
  Hypothesis peqb_eq : forall a b, peqb a b = true <-> a = b.
  Variable pts : list P.
  Variable A : (P -> R) -> P -> R.
  Hypothesis A_linear : forall f g c p, A (fun q => f q + c * g q) p = A f p + c * A g p.
  Hypothesis A_ext : forall f g p, In p pts -> (forall q, In q pts -> f q = g q) -> A f p = A g p.

  Notation tabR := (tab Rops P peqb pts).
  Notation norm := (l2norm Rops P pts).

  Lemma find_tab (f : P -> R) p : forall l, In p l ->
    match find (fun e => peqb (fst e) p) (map (fun q => (q, f q)) l) with Some e => snd e | None => 0 end = f p.
  Proof.
    induction l as [|a l IH]; intros Hp; [destruct Hp|].
    cbn [map find fst snd]. destruct (peqb a p) eqn:E.
    - apply peqb_eq in E. subst a. reflexivity.
    - destruct Hp as [->|Hp]; [|apply IH; auto].
      assert (peqb p p = true) by (apply peqb_eq; reflexivity). congruence.
  Qed.

  Lemma tab_spec f p : In p pts -> tabR f p = f p.
  Proof. intros Hp. unfold tab. cbv zeta. apply (find_tab f p pts Hp). Qed.

  Lemma norm_eq u : norm u = sqrt (lsumR (fun q => u q * u q) pts).
  Proof. reflexivity. Qed.

  Lemma norm_ext u v : (forall q, In q pts -> u q = v q) -> norm u = norm v.
  Proof. intros H. rewrite !norm_eq. f_equal. apply lsumR_ext. intros q Hq. rewrite H by auto. reflexivity. Qed.

  Lemma norm_nonneg u : 0 <= norm u.
  Proof. rewrite norm_eq. apply sqrt_pos. Qed.

  Lemma norm_zero u : norm u = 0 -> forall q, In q pts -> u q = 0.
  Proof.
    intros H q Hq. rewrite norm_eq in H. apply sqrt_eq_0 in H; [|apply lsumR_nonneg; intros; apply sq_nonneg].
    apply sq_zero. apply (lsumR_zero_terms (fun q => u q * u q) pts); auto. intros; apply sq_nonneg.
  Qed.

  Lemma cg_eps_pos : 0 < cg_eps Rops.
  Proof. unfold cg_eps. cbn [ndiv n1 nofZ Rops]. apply Rdiv_lt_0_compat; [lra | apply IZR_lt; lia]. Qed.

  (* r is the residual of x for the right-hand side b, at every grid point *)
  Definition is_residual (b x r : P -> R) : Prop := forall p, In p pts -> r p = b p - A x p.

  Definition cg_out := ((P -> R) * (P -> R) * (Z * R))%type.
  Definition out_x (o : cg_out) := fst (fst o).
  Definition out_r (o : cg_out) := snd (fst o).
  Definition out_iter (o : cg_out) := fst (snd o).
  Definition out_err (o : cg_out) := snd (snd o).

  Lemma cg_loop_spec b bnrm tol : forall fuel iter x r p bkden err,
    is_residual b x r -> (iter = 0%Z \/ err = norm r / bnrm) ->
    let o := cg_loop Rops P peqb pts A fuel bnrm tol iter x r p bkden err in
    is_residual b (out_x o) (out_r o) /\
    (out_iter o = 0%Z \/ out_err o = norm (out_r o) / bnrm) /\
    (iter <= out_iter o <= iter + Z.of_nat fuel)%Z /\
    (fuel <> 0%nat -> iter < out_iter o)%Z /\
    ((out_iter o < iter + Z.of_nat fuel)%Z -> out_err o <= tol \/ out_err o = 0) /\
    (out_iter o = iter -> forall q, out_x o q = x q).
  Proof.
    induction fuel as [|fuel IH]; intros iter x r p bkden err Hres Herr; cbv zeta.
    - cbn [cg_loop]. unfold out_x, out_r, out_iter, out_err. cbn [fst snd].
      repeat split; auto; try lia.
    - cbn [cg_loop].
      set (bknum := vdot Rops P pts r r).
      destruct (neqb Rops bknum (n0 Rops)) eqn:Eb0.
      { cbn [neqb n0 Rops] in Eb0. apply Reqb_true in Eb0. unfold out_x, out_r, out_iter, out_err. cbn [fst snd].
        assert (Hn0 : norm r = 0) by (unfold l2norm; fold bknum; rewrite Eb0; cbn [nsqrt Rops]; apply sqrt_0).
        repeat split; auto; try lia; try (intros _; right; reflexivity).
        right. rewrite Hn0. cbn [n0 Rops]. unfold Rdiv. ring. }
      set (p' := if (iter + 1 =? 1)%Z then tabR r else tabR (fun q => nadd Rops (nmul Rops (ndiv Rops bknum bkden) (p q)) (r q))).
      set (z := tabR (A p')).
      set (ak := ndiv Rops bknum (vdot Rops P pts z p')).
      set (x' := tabR (fun q => nadd Rops (x q) (nmul Rops ak (p' q)))).
      set (r' := tabR (fun q => nsub Rops (r q) (nmul Rops ak (z q)))).
      set (err' := ndiv Rops (l2norm Rops P pts r') bnrm).
      assert (Hres' : is_residual b x' r').
      { intros q Hq. unfold r', x', z. rewrite !tab_spec by auto. cbn [nsub nadd nmul Rops].
        rewrite (A_ext (tabR (fun q0 => x q0 + ak * p' q0)) (fun q0 => x q0 + ak * p' q0) q Hq)
          by (intros q0 Hq0; apply tab_spec; auto).
        rewrite A_linear, (Hres q Hq). ring. }
      assert (Herr' : (iter + 1 = 0)%Z \/ err' = norm r' / bnrm) by (right; reflexivity).
      destruct (nleb Rops err' tol) eqn:El.
      + unfold out_x, out_r, out_iter, out_err. cbn [fst snd].
        cbn [nleb Rops] in El. apply Rleb_true in El.
        repeat split; auto; try lia.
      + specialize (IH (iter + 1)%Z x' r' p' bknum err' Hres' Herr'). cbv zeta in IH.
        destruct IH as [I1 [I2 [I3 [I4 [I5 I6]]]]].
        repeat split; auto; try lia.
        intros H. apply I5. lia.
  Qed.

  Lemma cg_solve_spec itmax tol b x0 err0 :
    let o := cg_solve Rops P peqb pts A itmax tol b x0 err0 in
    is_residual b (out_x o) (out_r o) /\
    (0 <= out_iter o <= Z.of_nat itmax)%Z /\
    ((1 <= out_iter o)%Z -> out_err o = norm (out_r o) / norm b /\ 0 < norm b) /\
    ((1 <= out_iter o < Z.of_nat itmax)%Z -> out_err o <= tol \/ out_err o = 0) /\
    (out_iter o = 0%Z -> forall q, out_x o q = x0 q).
  Proof.
    cbv zeta. unfold cg_solve.
    set (r0 := tabR (fun q => nsub Rops (b q) (A x0 q))).
    assert (Hres : is_residual b x0 r0) by (intros q Hq; unfold r0; rewrite tab_spec by auto; reflexivity).
    destruct (nltb Rops (l2norm Rops P pts b) (cg_eps Rops)) eqn:El.
    - unfold out_x, out_r, out_iter, out_err. cbn [fst snd]. repeat split; auto; try lia.
    - cbn [nltb Rops] in El. apply Rltb_false in El. pose proof cg_eps_pos as Hp.
      pose proof (cg_loop_spec b (norm b) tol itmax 0%Z x0 r0 r0 (n1 Rops) err0 Hres (or_introl eq_refl)) as H.
      cbv zeta in H. destruct H as [I1 [I2 [I3 [I4 [I5 I6]]]]].
      repeat split; auto; try lia.
      + destruct I2 as [I2|I2]; [lia | exact I2].
      + lra.
      + intros H. apply I5. lia.
  Qed.

  (* the residual certificate: when at least one iteration was made and the reported error is within the
     tolerance, the value returned solves  A x = b  to that tolerance in the l2 norm *)
  Lemma cg_residual_certificate itmax tol b x0 err0 :
    let o := cg_solve Rops P peqb pts A itmax tol b x0 err0 in
    (1 <= out_iter o)%Z -> out_err o <= tol ->
    norm (fun q => b q - A (out_x o) q) <= tol * norm b.
  Proof.
    cbv zeta. intros Hit Herr.
    destruct (cg_solve_spec itmax tol b x0 err0) as [I1 [I2 [I3 _]]]. cbv zeta in *.
    destruct (I3 Hit) as [E Hb].
    rewrite <- (norm_ext (out_r (cg_solve Rops P peqb pts A itmax tol b x0 err0))) by (intros q Hq; apply I1; auto).
    rewrite E in Herr. apply (Rmult_le_compat_r (norm b)) in Herr; [|lra].
    unfold Rdiv in Herr. rewrite Rmult_assoc, Rinv_l, Rmult_1_r in Herr by lra. exact Herr.
  Qed.

  (* an exact solve (reported error 0): the equation holds at every grid point *)
  Lemma cg_exact itmax tol b x0 err0 :
    let o := cg_solve Rops P peqb pts A itmax tol b x0 err0 in
    (1 <= out_iter o)%Z -> out_err o = 0 -> forall p, In p pts -> A (out_x o) p = b p.
  Proof.
    cbv zeta. intros Hit Herr p Hp.
    destruct (cg_solve_spec itmax tol b x0 err0) as [I1 [I2 [I3 _]]]. cbv zeta in *.
    destruct (I3 Hit) as [E Hb]. rewrite E in Herr.
    assert (N0 : norm (out_r (cg_solve Rops P peqb pts A itmax tol b x0 err0)) = 0).
    { unfold Rdiv in Herr. destruct (Rmult_integral _ _ Herr) as [H|H]; [exact H|].
      exfalso. apply (Rinv_neq_0_compat (norm b)); [lra | exact H]. }
    pose proof (norm_zero _ N0 p Hp) as Z0. rewrite (I1 p Hp) in Z0. lra.
  Qed.

  (* non-vacuity of the certificate: a right-hand side that is an eigenvector of A is solved exactly in one
     iteration from the zero initial guess *)
  Lemma vdot_eq u v : vdot Rops P pts u v = lsumR (fun q => u q * v q) pts.
  Proof. reflexivity. Qed.

  Lemma cg_eigen_one_step itmax tol b lam err0 :
    (forall p, In p pts -> A b p = lam * b p) -> lam <> 0 -> cg_eps Rops <= norm b -> 0 <= tol ->
    let o := cg_solve Rops P peqb pts A (S itmax) tol b (fun _ => 0) err0 in
    out_iter o = 1%Z /\ out_err o = 0.
  Proof.
    intros Heig Hlam Hb Htol. cbv zeta. pose proof cg_eps_pos as Hp.
    assert (A0 : forall p, In p pts -> A (fun _ => 0) p = 0).
    { intros p Hpp. pose proof (A_linear (fun _ => 0) (fun _ => 0) (-1) p) as L. cbv beta in L.
      assert (E : A (fun _ : P => 0 + -1 * 0) p = A (fun _ => 0) p) by (apply A_ext; auto; intros; ring).
      rewrite E in L. lra. }
    unfold cg_solve.
    set (r0 := tabR (fun q => nsub Rops (b q) (A (fun _ => 0) q))).
    assert (Hr0 : forall q, In q pts -> r0 q = b q).
    { intros q Hq. unfold r0. rewrite tab_spec by auto. cbn [nsub Rops]. rewrite A0 by auto. ring. }
    assert (El : nltb Rops (l2norm Rops P pts b) (cg_eps Rops) = false) by (cbn [nltb Rops]; apply Rltb_false; exact Hb).
    rewrite El. cbn [cg_loop].
    change (0 + 1 =? 1)%Z with true. cbv iota.
    set (bknum := vdot Rops P pts r0 r0).
    assert (Eb0 : neqb Rops bknum (n0 Rops) = false).
    { cbn [neqb n0 Rops]. destruct (Reqb' bknum 0) eqn:E; [|reflexivity]. apply Reqb_true in E. exfalso.
      unfold bknum in E. rewrite vdot_eq in E.
      rewrite (lsumR_ext _ (fun q => b q * b q)) in E by (intros q Hq; rewrite Hr0 by auto; reflexivity).
      rewrite norm_eq in Hb. rewrite E, sqrt_0 in Hb. lra. }
    rewrite Eb0.
    set (p' := tabR r0).
    set (z := tabR (A p')).
    set (ak := ndiv Rops bknum (vdot Rops P pts z p')).
    set (x' := tabR (fun q => nadd Rops 0 (nmul Rops ak (p' q)))).
    set (r' := tabR (fun q => nsub Rops (r0 q) (nmul Rops ak (z q)))).
    set (s := lsumR (fun q => b q * b q) pts).
    assert (Hs : s <> 0).
    { intros E. rewrite norm_eq in Hb. fold s in Hb. rewrite E, sqrt_0 in Hb. lra. }
    assert (Hp' : forall q, In q pts -> p' q = b q) by (intros q Hq; unfold p'; rewrite tab_spec by auto; apply Hr0; auto).
    assert (Hz : forall q, In q pts -> z q = lam * b q).
    { intros q Hq. unfold z. rewrite tab_spec by auto. rewrite (A_ext p' b q Hq Hp'). apply Heig; auto. }
    assert (Hbk : bknum = s).
    { unfold bknum. rewrite vdot_eq. apply lsumR_ext. intros q Hq. rewrite Hr0 by auto. reflexivity. }
    assert (Hak : vdot Rops P pts z p' = lam * s).
    { rewrite vdot_eq. rewrite (lsumR_ext _ (fun q => lam * (b q * b q))) by (intros q Hq; rewrite Hz, Hp' by auto; ring).
      unfold s. clear. induction pts as [|a l IH]; [unfold lsumR; cbn; ring | rewrite !lsumR_cons, IH; ring]. }
    assert (Hr' : forall q, In q pts -> r' q = 0).
    { intros q Hq. unfold r', ak. rewrite tab_spec by auto. cbn [nsub nmul ndiv Rops].
      rewrite Hr0, Hz, Hak, Hbk by auto. field. split; auto. }
    assert (Hn : l2norm Rops P pts r' = 0).
    { rewrite (norm_ext r' (fun _ => 0) Hr'). rewrite norm_eq.
      replace (lsumR (fun _ : P => 0 * 0) pts) with 0; [apply sqrt_0|].
      clear. induction pts as [|a l IH]; [reflexivity | rewrite lsumR_cons, <- IH; ring]. }
    rewrite Hn. cbn [ndiv nleb Rops]. unfold Rdiv. rewrite Rmult_0_l.
    rewrite (proj2 (Rleb_true 0 tol)) by exact Htol.
    unfold out_iter, out_err. cbn [fst snd]. split; reflexivity.
  Qed.

  (* ------------------------------------------------------------ monotone decrease of the energy (A-norm error)
     for a symmetric negative semi-definite A and a right-hand side orthogonal to its kernel *)
  Notation ip u v := (lsumR (fun q => u q * v q) pts).

  Lemma lsumR_plus (F G : P -> R) l : lsumR (fun q => F q + G q) l = lsumR F l + lsumR G l.
  Proof. induction l as [|a l IH]; [unfold lsumR; cbn; ring | rewrite !lsumR_cons, IH; ring]. Qed.
  Lemma lsumR_scal c (F : P -> R) l : lsumR (fun q => c * F q) l = c * lsumR F l.
  Proof. induction l as [|a l IH]; [unfold lsumR; cbn; ring | rewrite !lsumR_cons, IH; ring]. Qed.
  Lemma lsumR_zero l : lsumR (fun _ : P => 0) l = 0.
  Proof. induction l as [|a l IH]; [reflexivity | rewrite lsumR_cons, IH; ring]. Qed.

  Lemma ip_comm u v : ip u v = ip v u.
  Proof. apply lsumR_ext. intros; ring. Qed.
  Lemma ip_ext u u' v v' : (forall q, In q pts -> u q = u' q) -> (forall q, In q pts -> v q = v' q) -> ip u v = ip u' v'.
  Proof. intros H1 H2. apply lsumR_ext. intros q Hq. rewrite H1, H2 by auto. reflexivity. Qed.
  Lemma ip_add_l u v c w : ip (fun q => u q + c * v q) w = ip u w + c * ip v w.
  Proof.
    rewrite <- lsumR_scal, <- lsumR_plus. apply lsumR_ext. intros; ring.
  Qed.
  Lemma ip_add_r w u v c : ip w (fun q => u q + c * v q) = ip w u + c * ip w v.
  Proof. rewrite ip_comm, ip_add_l, (ip_comm u w), (ip_comm v w). reflexivity. Qed.
  Lemma ip_zero_l u v : (forall q, In q pts -> u q = 0) -> ip u v = 0.
  Proof. intros H. rewrite <- (lsumR_zero pts). apply lsumR_ext. intros q Hq. rewrite H by auto. ring. Qed.

  (* ------------------------------------------------------------ scale covariance: right-hand side and initial guess
     multiplied by c <> 0  =>  same iteration count, same reported error, solution and residual multiplied by c
     (the stopping criterion is relative).  The only absolute quantity in the solver is EPS = 1e-14 below which |b| is
     treated as zero: both |b| and |c b| are assumed to be above it. *)
  Lemma A_zero p : In p pts -> A (fun _ => 0) p = 0.
  Proof.
    intros Hp. pose proof (A_linear (fun _ => 0) (fun _ => 0) (-1) p) as L. cbv beta in L.
    assert (E : A (fun _ : P => 0 + -1 * 0) p = A (fun _ => 0) p) by (apply A_ext; auto; intros; ring).
    rewrite E in L. lra.
  Qed.
  Lemma A_scal c f p : In p pts -> A (fun q => c * f q) p = c * A f p.
  Proof.
    intros Hp. rewrite (A_ext (fun q => c * f q) (fun q => 0 + c * f q) p Hp) by (intros; ring).
    rewrite (A_linear (fun _ => 0) f c p), A_zero by auto. ring.
  Qed.
  Lemma norm_scal c u : norm (fun q => c * u q) = Rabs c * norm u.
  Proof.
    rewrite !norm_eq. rewrite (lsumR_ext _ (fun q => (c * c) * (u q * u q))) by (intros; ring).
    rewrite lsumR_scal. rewrite sqrt_mult; [|apply sq_nonneg | apply lsumR_nonneg; intros; apply sq_nonneg].
    f_equal. change (c * c) with (Rsqr c). apply sqrt_Rsqr_abs.
  Qed.
  Lemma div_scal2 c a d : c <> 0 -> (c * c * a) / (c * c * d) = a / d.
  Proof.
    intros Hc. unfold Rdiv. rewrite !Rinv_mult.
    replace (c * c * a * (/ c * / c * / d)) with ((c * / c) * (c * / c) * (a * / d)) by ring.
    rewrite Rinv_r by auto. ring.
  Qed.
  Lemma div_scal1 c a d : c <> 0 -> (c * a) / (c * d) = a / d.
  Proof.
    intros Hc. unfold Rdiv. rewrite Rinv_mult.
    replace (c * a * (/ c * / d)) with ((c * / c) * (a * / d)) by ring.
    rewrite Rinv_r by auto. ring.
  Qed.

  Definition eqc (c : R) (u' u : P -> R) : Prop := forall q, In q pts -> u' q = c * u q.

  Lemma ip_eqc c u' u v' v : eqc c u' u -> eqc c v' v -> ip u' v' = c * c * ip u v.
  Proof.
    intros Hu Hv. rewrite <- lsumR_scal. apply lsumR_ext. intros q Hq. rewrite (Hu q Hq), (Hv q Hq). ring.
  Qed.

  Lemma cg_loop_scal c bnrm tol : c <> 0 -> forall fuel iter x r p bkden err x' r' p' bkden',
    eqc c x' x -> eqc c r' r -> (iter = 0%Z \/ (eqc c p' p /\ bkden' = c * c * bkden)) ->
    let o := cg_loop Rops P peqb pts A fuel bnrm tol iter x r p bkden err in
    let o' := cg_loop Rops P peqb pts A fuel (Rabs c * bnrm) tol iter x' r' p' bkden' err in
    out_iter o' = out_iter o /\ out_err o' = out_err o /\ eqc c (out_x o') (out_x o) /\ eqc c (out_r o') (out_r o).
  Proof.
    intros Hc. induction fuel as [|fuel IH]; intros iter x r p bkden err x' r' p' bkden' Hx Hr Hp; cbv zeta.
    - cbn [cg_loop]. unfold out_iter, out_err, out_x, out_r. cbn [fst snd]. auto.
    - cbn [cg_loop].
      set (bknum := vdot Rops P pts r r). set (bknum' := vdot Rops P pts r' r').
      assert (Ebk : bknum' = c * c * bknum) by (unfold bknum, bknum'; rewrite !vdot_eq; apply ip_eqc; auto).
      assert (Eb0 : neqb Rops bknum' (n0 Rops) = neqb Rops bknum (n0 Rops)).
      { cbn [neqb n0 Rops]. rewrite Ebk. destruct (Reqb' bknum 0) eqn:E1.
        - apply Reqb_true in E1. rewrite E1. apply Reqb_true. ring.
        - destruct (Reqb' (c * c * bknum) 0) eqn:E2; [|reflexivity]. apply Reqb_true in E2.
          assert (bknum = 0) by (destruct (Rmult_integral _ _ E2) as [Hcc|Hb]; [destruct (Rmult_integral _ _ Hcc); contradiction | exact Hb]).
          apply Reqb_true in H. congruence. }
      rewrite Eb0. destruct (neqb Rops bknum (n0 Rops));
        [unfold out_iter, out_err, out_x, out_r; cbn [fst snd]; auto|].
      set (p1 := if (iter + 1 =? 1)%Z then tabR r else tabR (fun q => nadd Rops (nmul Rops (ndiv Rops bknum bkden) (p q)) (r q))).
      set (p1' := if (iter + 1 =? 1)%Z then tabR r' else tabR (fun q => nadd Rops (nmul Rops (ndiv Rops bknum' bkden') (p' q)) (r' q))).
      assert (Hp1 : eqc c p1' p1).
      { intros q Hq. unfold p1, p1'. destruct (Z.eqb_spec (iter + 1) 1) as [E|E]; rewrite !tab_spec by auto.
        - apply Hr; auto.
        - destruct Hp as [I0|[Hp Hb]]; [lia|]. cbn [nadd nmul ndiv Rops]. rewrite Ebk, Hb, div_scal2 by auto.
          rewrite (Hp q Hq), (Hr q Hq). ring. }
      set (z := tabR (A p1)). set (z' := tabR (A p1')).
      assert (Hz : eqc c z' z).
      { intros q Hq. unfold z, z'. rewrite !tab_spec by auto.
        rewrite (A_ext p1' (fun q0 => c * p1 q0) q Hq Hp1). apply A_scal; auto. }
      set (ak := ndiv Rops bknum (vdot Rops P pts z p1)). set (ak' := ndiv Rops bknum' (vdot Rops P pts z' p1')).
      assert (Eak : ak' = ak).
      { unfold ak, ak'. cbn [ndiv Rops]. rewrite !vdot_eq, (ip_eqc c z' z p1' p1 Hz Hp1), Ebk. apply div_scal2; auto. }
      set (x1 := tabR (fun q => nadd Rops (x q) (nmul Rops ak (p1 q)))).
      set (x1' := tabR (fun q => nadd Rops (x' q) (nmul Rops ak' (p1' q)))).
      set (r1 := tabR (fun q => nsub Rops (r q) (nmul Rops ak (z q)))).
      set (r1' := tabR (fun q => nsub Rops (r' q) (nmul Rops ak' (z' q)))).
      assert (Hx1 : eqc c x1' x1).
      { intros q Hq. unfold x1, x1'. rewrite !tab_spec by auto. cbn [nadd nmul Rops]. rewrite Eak, (Hx q Hq), (Hp1 q Hq). ring. }
      assert (Hr1 : eqc c r1' r1).
      { intros q Hq. unfold r1, r1'. rewrite !tab_spec by auto. cbn [nsub nmul Rops]. rewrite Eak, (Hr q Hq), (Hz q Hq). ring. }
      assert (Eerr : ndiv Rops (l2norm Rops P pts r1') (Rabs c * bnrm) = ndiv Rops (l2norm Rops P pts r1) bnrm).
      { cbn [ndiv Rops]. rewrite (norm_ext r1' (fun q => c * r1 q) Hr1), norm_scal. apply div_scal1. apply Rabs_no_R0; auto. }
      rewrite Eerr.
      destruct (nleb Rops (ndiv Rops (l2norm Rops P pts r1) bnrm) tol).
      + unfold out_iter, out_err, out_x, out_r. cbn [fst snd]. auto.
      + apply IH; auto.
  Qed.

  Lemma cg_solve_scal c itmax tol bb x0 err0 : c <> 0 ->
    cg_eps Rops <= norm bb -> cg_eps Rops <= Rabs c * norm bb ->
    let o := cg_solve Rops P peqb pts A itmax tol bb x0 err0 in
    let o' := cg_solve Rops P peqb pts A itmax tol (fun q => c * bb q) (fun q => c * x0 q) err0 in
    out_iter o' = out_iter o /\ out_err o' = out_err o /\ eqc c (out_x o') (out_x o) /\ eqc c (out_r o') (out_r o).
  Proof.
    intros Hc H1 H2. cbv zeta. unfold cg_solve.
    rewrite norm_scal.
    assert (E1 : nltb Rops (l2norm Rops P pts bb) (cg_eps Rops) = false) by (cbn [nltb Rops]; apply Rltb_false; exact H1).
    assert (E2 : nltb Rops (Rabs c * l2norm Rops P pts bb) (cg_eps Rops) = false) by (cbn [nltb Rops]; apply Rltb_false; exact H2).
    rewrite E1, E2.
    apply cg_loop_scal; auto.
    - intros q Hq. reflexivity.
    - intros q Hq. rewrite !tab_spec by auto. cbn [nsub Rops]. rewrite A_scal by auto. ring.
  Qed.

  Hypothesis A_sym : forall x y, ip x (A y) = ip (A x) y.
  Hypothesis A_nsd : forall x, ip x (A x) <= 0.

  Lemma ip_A_lin w f g c : ip w (A (fun q => f q + c * g q)) = ip w (A f) + c * ip w (A g).
  Proof.
    rewrite <- ip_add_r. apply lsumR_ext. intros q Hq. rewrite A_linear. reflexivity.
  Qed.

  (* <A p, p> = 0 forces A p = 0 (Cauchy-Schwarz for the semi-definite form) *)
  Lemma nsd_zero p : ip (A p) p = 0 -> forall q, In q pts -> A p q = 0.
  Proof.
    intros K.
    set (y := A p). set (s := ip y y). set (d := ip y (A y)).
    assert (Hs : 0 <= s) by (apply lsumR_nonneg; intros; apply sq_nonneg).
    assert (Hd : d <= 0) by apply A_nsd.
    assert (G : forall t, 2 * t * s + t * t * d <= 0).
    { intros t. pose proof (A_nsd (fun q => p q + t * y q)) as N.
      rewrite ip_A_lin, !ip_add_l in N.
      assert (E1 : ip p (A p) = 0) by (rewrite ip_comm; exact K).
      assert (E2 : ip p (A y) = s) by (rewrite A_sym; reflexivity).
      assert (E3 : ip y (A p) = s) by reflexivity.
      rewrite E1, E2, E3 in N. fold d in N. lra. }
    assert (S0 : s = 0).
    { destruct (Req_dec s 0) as [E|E]; [exact E|]. exfalso. assert (0 < s) by lra.
      destruct (Req_dec d 0) as [D0|D0].
      - specialize (G 1). rewrite D0 in G. lra.
      - assert (Hdn : d < 0) by lra. specialize (G (- s / d)).
        assert (E' : 2 * (- s / d) * s + - s / d * (- s / d) * d = - (s * s) / d) by (field; exact D0).
        rewrite E' in G.
        assert (0 < - (s * s) / d).
        { unfold Rdiv. rewrite <- Ropp_mult_distr_l, Ropp_mult_distr_r.
          apply Rmult_lt_0_compat; [apply Rmult_lt_0_compat; lra|].
          rewrite <- Rinv_opp. apply Rinv_0_lt_compat. lra. }
        lra. }
    intros q Hq. apply sq_zero. apply (lsumR_zero_terms (fun q => y q * y q) pts); auto.
    intros; apply sq_nonneg.
  Qed.

  Variable b : P -> R.
  Hypothesis b_orth : forall p, (forall q, In q pts -> A p q = 0) -> ip p b = 0.

  (* the functional minimised by the solver; F x - F x* = 1/2 |x - x*|^2 in the (-A)-norm for a solution x* *)
  Definition energy (x : P -> R) : R := ip b x - / 2 * ip x (A x).

  Lemma energy_ext x x' : (forall q, In q pts -> x q = x' q) -> energy x = energy x'.
  Proof.
    intros H. unfold energy.
    assert (E1 : ip b x = ip b x') by (apply ip_ext; auto).
    assert (E2 : ip x (A x) = ip x' (A x')) by (apply ip_ext; auto; intros q Hq; apply A_ext; auto).
    rewrite E1, E2. reflexivity.
  Qed.

  Lemma energy_step x p al :
    energy (fun q => x q + al * p q) = energy x + al * (ip p b - ip p (A x)) - / 2 * (al * al) * ip p (A p).
  Proof.
    unfold energy. rewrite ip_add_r, ip_add_l, !ip_A_lin.
    rewrite (A_sym x p), (ip_comm (A x) p), (ip_comm b p). cbv beta. field.
  Qed.

  (* one iteration: alpha = <r,r> / <A p, p> with <p, r> = <r, r> *)
  Lemma cg_step_facts x r p :
    is_residual b x r -> ip p r = ip r r ->
    let al := ip r r / ip (A p) p in
    energy (fun q => x q + al * p q) <= energy x /\
    ip (fun q => r q - al * A p q) p = 0.
  Proof.
    intros Hres Hpr. cbv zeta. set (rho := ip r r) in *. set (ka := ip (A p) p).
    assert (Hpr' : ip p b - ip p (A x) = rho).
    { rewrite <- Hpr. rewrite (ip_ext p p r (fun q => b q + (-1) * A x q)); auto.
      - rewrite ip_add_r. ring.
      - intros q Hq. rewrite (Hres q Hq). ring. }
    assert (Hka : ka <= 0) by (unfold ka; rewrite ip_comm; apply A_nsd).
    assert (Hrho : 0 <= rho) by (apply lsumR_nonneg; intros; apply sq_nonneg).
    destruct (Req_dec ka 0) as [K0|K0].
    - (* degenerate direction: A p = 0, hence r = 0 *)
      assert (Ap0 : forall q, In q pts -> A p q = 0) by (apply nsd_zero; exact K0).
      assert (R0 : rho = 0).
      { rewrite <- Hpr'. rewrite (b_orth p Ap0). rewrite A_sym. rewrite (ip_zero_l (A p) x Ap0). ring. }
      assert (r0 : forall q, In q pts -> r q = 0).
      { intros q Hq. apply sq_zero. apply (lsumR_zero_terms (fun q => r q * r q) pts); auto. intros; apply sq_nonneg. }
      rewrite R0. unfold Rdiv. rewrite Rmult_0_l. split.
      + rewrite energy_step. lra.
      + apply ip_zero_l. intros q Hq. rewrite r0 by auto. ring.
    - assert (Kn : ka < 0) by lra. split.
      + rewrite energy_step, Hpr'. rewrite (ip_comm p (A p)). fold ka.
        assert (E : rho / ka * rho - / 2 * (rho / ka * (rho / ka)) * ka = / 2 * (rho * rho) * / ka) by (field; exact K0).
        assert (N : / 2 * (rho * rho) * / ka <= 0).
        { assert (/ ka < 0) by (apply Rinv_lt_0_compat; exact Kn).
          assert (0 <= / 2 * (rho * rho)) by (apply Rmult_le_pos; [lra | apply sq_nonneg]).
          rewrite <- (Rmult_0_r (/ 2 * (rho * rho))). apply Rmult_le_compat_l; lra. }
        lra.
      + rewrite (ip_ext _ (fun q => r q + (- (rho / ka)) * A p q) p p) by (intros; auto; ring).
        rewrite ip_add_l. rewrite (ip_comm r p), Hpr. fold ka. field. exact K0.
  Qed.

  (* the loop: the energy never increases *)
  Lemma cg_loop_energy bnrm tol : forall fuel iter x r p bkden err,
    is_residual b x r -> (iter = 0%Z \/ ip r p = 0) ->
    energy (out_x (cg_loop Rops P peqb pts A fuel bnrm tol iter x r p bkden err)) <= energy x.
  Proof.
    induction fuel as [|fuel IH]; intros iter x r p bkden err Hres Hinv.
    - cbn [cg_loop]. unfold out_x. cbn [fst]. lra.
    - cbn [cg_loop].
      set (bknum := vdot Rops P pts r r).
      destruct (neqb Rops bknum (n0 Rops)) eqn:Eb0; [unfold out_x; cbn [fst]; lra|].
      set (p' := if (iter + 1 =? 1)%Z then tabR r else tabR (fun q => nadd Rops (nmul Rops (ndiv Rops bknum bkden) (p q)) (r q))).
      set (z := tabR (A p')).
      set (ak := ndiv Rops bknum (vdot Rops P pts z p')).
      set (x' := tabR (fun q => nadd Rops (x q) (nmul Rops ak (p' q)))).
      set (r' := tabR (fun q => nsub Rops (r q) (nmul Rops ak (z q)))).
      set (err' := ndiv Rops (l2norm Rops P pts r') bnrm).
      (* <p', r> = <r, r> *)
      assert (Hpr : ip p' r = ip r r).
      { unfold p'. destruct (Z.eqb_spec (iter + 1) 1) as [E|E].
        - apply ip_ext; [intros q Hq; apply tab_spec; auto | auto].
        - destruct Hinv as [I0|I0]; [lia|].
          rewrite (ip_ext _ (fun q => r q + bknum / bkden * p q) r r);
            [|intros q Hq; rewrite tab_spec by auto; cbn [nadd nmul ndiv Rops]; ring | auto].
          rewrite ip_add_l, (ip_comm p r), I0. ring. }
      assert (Hak : ak = ip r r / ip (A p') p').
      { unfold ak, bknum. cbn [ndiv Rops]. rewrite !vdot_eq. f_equal.
        apply ip_ext; [intros q Hq; unfold z; apply tab_spec; auto | auto]. }
      destruct (cg_step_facts x r p' Hres Hpr) as [S1 S2]. cbv zeta in S1, S2. rewrite <- Hak in S1, S2.
      assert (Hres' : is_residual b x' r').
      { intros q Hq. unfold r', x', z. rewrite !tab_spec by auto. cbn [nsub nadd nmul Rops].
        rewrite (A_ext (tabR (fun q0 => x q0 + ak * p' q0)) (fun q0 => x q0 + ak * p' q0) q Hq)
          by (intros q0 Hq0; apply tab_spec; auto).
        rewrite A_linear, (Hres q Hq). ring. }
      assert (Ex' : energy x' = energy (fun q => x q + ak * p' q)).
      { apply energy_ext. intros q Hq. unfold x'. rewrite tab_spec by auto. reflexivity. }
      assert (Hinv' : (iter + 1 = 0)%Z \/ ip r' p' = 0).
      { right. rewrite <- S2. apply ip_ext; [|auto]. intros q Hq. unfold r', z. rewrite !tab_spec by auto.
        cbn [nsub nmul Rops]. reflexivity. }
      destruct (nleb Rops err' tol).
      + unfold out_x. cbn [fst]. lra.
      + specialize (IH (iter + 1)%Z x' r' p' bknum err' Hres' Hinv'). lra.
  Qed.

  Lemma cg_solve_energy itmax tol x0 err0 :
    energy (out_x (cg_solve Rops P peqb pts A itmax tol b x0 err0)) <= energy x0.
  Proof.
    unfold cg_solve.
    set (r0 := tabR (fun q => nsub Rops (b q) (A x0 q))).
    assert (Hres : is_residual b x0 r0) by (intros q Hq; unfold r0; rewrite tab_spec by auto; reflexivity).
    destruct (nltb Rops (l2norm Rops P pts b) (cg_eps Rops)).
    - unfold out_x. cbn [fst]. lra.
    - apply cg_loop_energy; auto.
  Qed.

  (* ... and it strictly decreases at every iteration that starts from a non-zero residual *)
  Lemma cg_step_strict x r p :
    is_residual b x r -> ip p r = ip r r -> 0 < ip r r ->
    energy (fun q => x q + ip r r / ip (A p) p * p q) < energy x.
  Proof.
    intros Hres Hpr Hpos. set (rho := ip r r) in *. set (ka := ip (A p) p).
    assert (Hpr' : ip p b - ip p (A x) = rho).
    { rewrite <- Hpr. rewrite (ip_ext p p r (fun q => b q + (-1) * A x q)); auto.
      - rewrite ip_add_r. ring.
      - intros q Hq. rewrite (Hres q Hq). ring. }
    assert (Hka : ka <= 0) by (unfold ka; rewrite ip_comm; apply A_nsd).
    destruct (Req_dec ka 0) as [K0|K0].
    - exfalso. assert (Ap0 : forall q, In q pts -> A p q = 0) by (apply nsd_zero; exact K0).
      assert (R0 : rho = 0).
      { rewrite <- Hpr'. rewrite (b_orth p Ap0). rewrite A_sym. rewrite (ip_zero_l (A p) x Ap0). ring. }
      lra.
    - assert (Kn : ka < 0) by lra.
      rewrite energy_step, Hpr'. rewrite (ip_comm p (A p)). fold ka.
      assert (E : rho / ka * rho - / 2 * (rho / ka * (rho / ka)) * ka = / 2 * (rho * rho) * / ka) by (field; exact K0).
      assert (N : / 2 * (rho * rho) * / ka < 0).
      { assert (/ ka < 0) by (apply Rinv_lt_0_compat; exact Kn).
        assert (0 < / 2 * (rho * rho)) by (apply Rmult_lt_0_compat; [lra | apply Rmult_lt_0_compat; lra]).
        rewrite <- (Rmult_0_r (/ 2 * (rho * rho))). apply Rmult_lt_compat_l; lra. }
      lra.
  Qed.

  Lemma cg_loop_energy_strict bnrm tol fuel x r p bkden err :
    is_residual b x r -> 0 < ip r r ->
    energy (out_x (cg_loop Rops P peqb pts A (S fuel) bnrm tol 0%Z x r p bkden err)) < energy x.
  Proof.
    intros Hres Hpos. cbn [cg_loop]. change (0 + 1 =? 1)%Z with true. cbv iota.
    set (bknum := vdot Rops P pts r r).
    assert (Eb0 : neqb Rops bknum (n0 Rops) = false).
    { cbn [neqb n0 Rops]. destruct (Reqb' bknum 0) eqn:E; [|reflexivity]. apply Reqb_true in E.
      unfold bknum in E. rewrite vdot_eq in E. lra. }
    rewrite Eb0.
    set (p' := tabR r).
    set (z := tabR (A p')).
    set (ak := ndiv Rops bknum (vdot Rops P pts z p')).
    set (x' := tabR (fun q => nadd Rops (x q) (nmul Rops ak (p' q)))).
    set (r' := tabR (fun q => nsub Rops (r q) (nmul Rops ak (z q)))).
    set (err' := ndiv Rops (l2norm Rops P pts r') bnrm).
    assert (Hpr : ip p' r = ip r r) by (apply ip_ext; [intros q Hq; apply tab_spec; auto | auto]).
    assert (Hak : ak = ip r r / ip (A p') p').
    { unfold ak, bknum. cbn [ndiv Rops]. rewrite !vdot_eq. f_equal.
      apply ip_ext; [intros q Hq; unfold z; apply tab_spec; auto | auto]. }
    pose proof (cg_step_strict x r p' Hres Hpr Hpos) as S1. rewrite <- Hak in S1.
    destruct (cg_step_facts x r p' Hres Hpr) as [_ S2]. cbv zeta in S2. rewrite <- Hak in S2.
    assert (Hres' : is_residual b x' r').
    { intros q Hq. unfold r', x', z. rewrite !tab_spec by auto. cbn [nsub nadd nmul Rops].
      rewrite (A_ext (tabR (fun q0 => x q0 + ak * p' q0)) (fun q0 => x q0 + ak * p' q0) q Hq)
        by (intros q0 Hq0; apply tab_spec; auto).
      rewrite A_linear, (Hres q Hq). ring. }
    assert (Ex' : energy x' = energy (fun q => x q + ak * p' q)).
    { apply energy_ext. intros q Hq. unfold x'. rewrite tab_spec by auto. reflexivity. }
    assert (Hinv' : (0 + 1 = 0)%Z \/ ip r' p' = 0).
    { right. rewrite <- S2. apply ip_ext; [|auto]. intros q Hq. unfold r', z. rewrite !tab_spec by auto.
      cbn [nsub nmul Rops]. reflexivity. }
    destruct (nleb Rops err' tol).
    - unfold out_x. cbn [fst]. lra.
    - pose proof (cg_loop_energy bnrm tol fuel (0 + 1)%Z x' r' p' bknum err' Hres' Hinv'). lra.
  Qed.

  Lemma cg_solve_energy_strict itmax tol x0 err0 :
    cg_eps Rops <= norm b -> (exists q, In q pts /\ b q - A x0 q <> 0) ->
    energy (out_x (cg_solve Rops P peqb pts A (S itmax) tol b x0 err0)) < energy x0.
  Proof.
    intros Hb [q0 [Hq0 Hne]]. unfold cg_solve.
    set (r0 := tabR (fun q => nsub Rops (b q) (A x0 q))).
    assert (Hres : is_residual b x0 r0) by (intros q Hq; unfold r0; rewrite tab_spec by auto; reflexivity).
    assert (El : nltb Rops (l2norm Rops P pts b) (cg_eps Rops) = false) by (cbn [nltb Rops]; apply Rltb_false; exact Hb).
    rewrite El. apply cg_loop_energy_strict; auto.
    assert (N : 0 <= ip r0 r0) by (apply lsumR_nonneg; intros; apply sq_nonneg).
    destruct (Req_dec (ip r0 r0) 0) as [E|E]; [|lra]. exfalso. apply Hne.
    rewrite <- (Hres q0 Hq0). apply sq_zero.
    apply (lsumR_zero_terms (fun q => r0 q * r0 q) pts); auto. intros; apply sq_nonneg.
  Qed.

  (* in terms of the error: for any solution xs of A xs = b, the (-A)-norm of x - xs does not increase *)
  Definition err_norm2 (xs x : P -> R) : R := - ip (fun q => x q + (-1) * xs q) (A (fun q => x q + (-1) * xs q)).

  Lemma energy_error xs x : (forall q, In q pts -> A xs q = b q) ->
    err_norm2 xs x = 2 * energy x - ip xs (A xs).
  Proof.
    intros Hs. unfold err_norm2, energy. rewrite ip_A_lin, !ip_add_l.
    rewrite (A_sym x xs), (ip_comm (A x) xs).
    assert (E : ip b x = ip xs (A x)).
    { rewrite A_sym. apply ip_ext; auto. intros q Hq. symmetry. auto. }
    rewrite E. cbv beta. field.
  Qed.

  Lemma cg_solve_error_monotone itmax tol x0 err0 xs : (forall q, In q pts -> A xs q = b q) ->
    err_norm2 xs (out_x (cg_solve Rops P peqb pts A itmax tol b x0 err0)) <= err_norm2 xs x0.
  Proof.
    intros Hs. rewrite !(energy_error xs) by auto. pose proof (cg_solve_energy itmax tol x0 err0). lra.
  Qed.

  Lemma cg_solve_error_strict itmax tol x0 err0 xs : (forall q, In q pts -> A xs q = b q) ->
    cg_eps Rops <= norm b -> (exists q, In q pts /\ b q - A x0 q <> 0) ->
    err_norm2 xs (out_x (cg_solve Rops P peqb pts A (S itmax) tol b x0 err0)) < err_norm2 xs x0.
  Proof.
    intros Hs Hb Hne. rewrite !(energy_error xs) by auto. pose proof (cg_solve_energy_strict itmax tol x0 err0 Hb Hne). lra.
  Qed.
End CGProofs.

(* ================================================================== the discrete Poisson statement *)
Section Poisson2.
  Variable sc : smooth_cfg.
  Variable sm : bool.
  Variable sh : shape2 (T:=R).
  Hypothesis Hnx : (0 < nxg sh)%Z.
  Hypothesis Hny : (0 < nyg sh)%Z.

  Notation pts := (all_ix2 sh).
  Notation nrm := (l2norm Rops (Z * Z) pts).
  Notation A := (atimes2 Rops sh).

  Lemma A2_ext f g p : In p pts -> (forall q, In q pts -> f q = g q) -> A f p = A g p.
  Proof.
    intros Hp H. apply (atimes2_ext sh Hnx Hny); [apply (in_all_ix2 sh); auto|].
    intros q Hq. apply H. apply (in_all_ix2 sh). auto.
  Qed.

  (* integrate() after any history of samples: the right-hand side handed to the solver is the divergence
     of the final gradients (incremental = batch), that problem is solvable (it sums to zero), and what the
     solver returns satisfies the residual bound / the equation itself *)
  Lemma poisson2 st itmax tol x0 err0 :
    consistent2 Rops sc sm sh st ->
    let D := div_value2 Rops sc sm sh st in
    let o := integrate2 Rops sh itmax tol (dv2 st) x0 err0 in
    lsumR D pts = 0 /\
    ((1 <= out_iter _ o)%Z -> out_err _ o <= tol -> nrm (fun p => D p - A (out_x _ o) p) <= tol * nrm D) /\
    ((1 <= out_iter _ o)%Z -> out_err _ o = 0 -> forall p, in_pmf2 sh p -> A (out_x _ o) p = D p) /\
    ((1 <= out_iter _ o < Z.of_nat itmax)%Z -> out_err _ o <= tol \/ out_err _ o = 0).
  Proof.
    intros Hc. cbv zeta. unfold integrate2.
    assert (Hd : forall q, In q pts -> dv2 st q = div_value2 Rops sc sm sh st q)
      by (intros q Hq; apply Hc; apply (in_all_ix2 sh); auto).
    split; [apply divergence_sums_to_zero2; auto|].
    destruct (shape_ok2 sh);
      [|unfold out_iter, out_err, out_x; cbn [fst snd]; repeat split; intros; lia].
    split; [|split].
    - intros Hit Herr.
      pose proof (cg_residual_certificate _ _ ix2_eqb_eq pts A (atimes2_linear sh) A2_ext itmax tol (dv2 st) x0 err0 Hit Herr) as H.
      cbv zeta in H.
      rewrite (norm_ext _ pts (dv2 st) (div_value2 Rops sc sm sh st) Hd) in H.
      erewrite (norm_ext _ pts) in H; [exact H|]. intros q Hq. cbv beta. rewrite Hd by auto. reflexivity.
    - intros Hit Herr p Hp. rewrite <- Hd by (apply (in_all_ix2 sh); auto).
      apply (cg_exact _ _ ix2_eqb_eq pts A (atimes2_linear sh) A2_ext itmax tol (dv2 st) x0 err0 Hit Herr).
      apply (in_all_ix2 sh); auto.
    - intros Hit.
      destruct (cg_solve_spec _ _ ix2_eqb_eq pts A (atimes2_linear sh) A2_ext itmax tol (dv2 st) x0 err0) as [_ [_ [_ [H _]]]].
      apply H. exact Hit.
  Qed.

  (* the (-A)-norm of the error does not increase along the iterations of the solver (non-zero widths) *)
  Hypothesis Hwx : wx sh <> 0.
  Hypothesis Hwy : wy sh <> 0.

  Lemma b_orth2 st : consistent2 Rops sc sm sh st ->
    forall p, (forall q, In q pts -> A p q = 0) -> lsumR (fun q => p q * dv2 st q) pts = 0.
  Proof.
    intros Hc p Hp.
    destruct (poisson_unique2 sh Hnx Hny Hwx Hwy p (fun _ => 0)) as [c Hcst].
    { intros q Hq. rewrite laplacian_kernel2. apply Hp. apply (in_all_ix2 sh); auto. }
    rewrite (lsumR_ext _ (fun q => c * div_value2 Rops sc sm sh st q)).
    - rewrite lsumR_scal. rewrite divergence_sums_to_zero2 by auto. ring.
    - intros q Hq. apply (in_all_ix2 sh) in Hq. rewrite (Hcst q Hq), (Hc q Hq). ring.
  Qed.

  Lemma cg_error_monotone2 st itmax tol x0 err0 xs :
    consistent2 Rops sc sm sh st ->
    (forall q, in_pmf2 sh q -> A xs q = div_value2 Rops sc sm sh st q) ->
    err_norm2 _ pts A xs (out_x _ (integrate2 Rops sh itmax tol (dv2 st) x0 err0)) <= err_norm2 _ pts A xs x0.
  Proof.
    intros Hc Hs. unfold integrate2. destruct (shape_ok2 sh); [|unfold out_x; cbn [fst]; lra].
    apply (cg_solve_error_monotone _ _ ix2_eqb_eq pts A (atimes2_linear sh) A2_ext
             (laplacian_symmetric2 sh Hnx Hny) (fun x => laplacian_negative_semidefinite2 sh Hnx Hny Hwx Hwy x)
             (dv2 st) (b_orth2 st Hc)).
    intros q Hq. rewrite (Hc q) by (apply (in_all_ix2 sh); auto). apply Hs. apply (in_all_ix2 sh); auto.
  Qed.

  Lemma cg_error_strict2 st itmax tol x0 err0 xs :
    consistent2 Rops sc sm sh st -> shape_ok2 sh = true ->
    (forall q, in_pmf2 sh q -> A xs q = div_value2 Rops sc sm sh st q) ->
    cg_eps Rops <= nrm (div_value2 Rops sc sm sh st) ->
    (exists q, in_pmf2 sh q /\ div_value2 Rops sc sm sh st q - A x0 q <> 0) ->
    err_norm2 _ pts A xs (out_x _ (integrate2 Rops sh (S itmax) tol (dv2 st) x0 err0)) < err_norm2 _ pts A xs x0.
  Proof.
    intros Hc Hok Hs Hb [q [Hq Hne]]. unfold integrate2. rewrite Hok.
    assert (Hd : forall q, In q pts -> dv2 st q = div_value2 Rops sc sm sh st q)
      by (intros q' Hq'; apply Hc; apply (in_all_ix2 sh); auto).
    apply (cg_solve_error_strict _ _ ix2_eqb_eq pts A (atimes2_linear sh) A2_ext
             (laplacian_symmetric2 sh Hnx Hny) (fun x => laplacian_negative_semidefinite2 sh Hnx Hny Hwx Hwy x)
             (dv2 st) (b_orth2 st Hc)).
    - intros q' Hq'. rewrite Hd by auto. apply Hs. apply (in_all_ix2 sh); auto.
    - rewrite (norm_ext _ pts (dv2 st) (div_value2 Rops sc sm sh st) Hd). exact Hb.
    - exists q. split; [apply (in_all_ix2 sh); auto|]. rewrite Hd by (apply (in_all_ix2 sh); auto). exact Hne.
  Qed.
End Poisson2.

Section Poisson3.
  Variable sc : smooth_cfg.
  Variable sm : bool.
  Variable sh : shape3 (T:=R).
  Hypothesis Hnx : (0 < mxg sh)%Z.
  Hypothesis Hny : (0 < myg sh)%Z.
  Hypothesis Hnz : (0 < mzg sh)%Z.

  Notation pts := (all_ix3 sh).
  Notation nrm := (l2norm Rops (Z * Z * Z) pts).
  Notation A := (atimes3 Rops sh).

  Lemma A3_ext f g p : In p pts -> (forall q, In q pts -> f q = g q) -> A f p = A g p.
  Proof.
    intros Hp H. apply (atimes3_ext sh Hnx Hny Hnz); [apply (in_all_ix3 sh); auto|].
    intros q Hq. apply H. apply (in_all_ix3 sh). auto.
  Qed.

  Lemma poisson3 st itmax tol x0 err0 :
    consistent3 Rops sc sm sh st ->
    let D := div_value3 Rops sc sm sh st in
    let o := integrate3 Rops sh itmax tol (dv3 st) x0 err0 in
    lsumR D pts = 0 /\
    ((1 <= out_iter _ o)%Z -> out_err _ o <= tol -> nrm (fun p => D p - A (out_x _ o) p) <= tol * nrm D) /\
    ((1 <= out_iter _ o)%Z -> out_err _ o = 0 -> forall p, in_pmf3 sh p -> A (out_x _ o) p = D p) /\
    ((1 <= out_iter _ o < Z.of_nat itmax)%Z -> out_err _ o <= tol \/ out_err _ o = 0).
  Proof.
    intros Hc. cbv zeta. unfold integrate3.
    assert (Hd : forall q, In q pts -> dv3 st q = div_value3 Rops sc sm sh st q)
      by (intros q Hq; apply Hc; apply (in_all_ix3 sh); auto).
    split; [apply divergence_sums_to_zero3; auto|].
    destruct (shape_ok3 sh);
      [|unfold out_iter, out_err, out_x; cbn [fst snd]; repeat split; intros; lia].
    split; [|split].
    - intros Hit Herr.
      pose proof (cg_residual_certificate _ _ ix3_eqb_eq pts A (atimes3_linear sh) A3_ext itmax tol (dv3 st) x0 err0 Hit Herr) as H.
      cbv zeta in H.
      rewrite (norm_ext _ pts (dv3 st) (div_value3 Rops sc sm sh st) Hd) in H.
      erewrite (norm_ext _ pts) in H; [exact H|]. intros q Hq. cbv beta. rewrite Hd by auto. reflexivity.
    - intros Hit Herr p Hp. rewrite <- Hd by (apply (in_all_ix3 sh); auto).
      apply (cg_exact _ _ ix3_eqb_eq pts A (atimes3_linear sh) A3_ext itmax tol (dv3 st) x0 err0 Hit Herr).
      apply (in_all_ix3 sh); auto.
    - intros Hit.
      destruct (cg_solve_spec _ _ ix3_eqb_eq pts A (atimes3_linear sh) A3_ext itmax tol (dv3 st) x0 err0) as [_ [_ [_ [H _]]]].
      apply H. exact Hit.
  Qed.

  Hypothesis Hwx : vx sh <> 0.
  Hypothesis Hwy : vy sh <> 0.
  Hypothesis Hwz : vz sh <> 0.

  Lemma b_orth3 st : consistent3 Rops sc sm sh st ->
    forall p, (forall q, In q pts -> A p q = 0) -> lsumR (fun q => p q * dv3 st q) pts = 0.
  Proof.
    intros Hc p Hp.
    destruct (poisson_unique3 sh Hnx Hny Hnz Hwx Hwy Hwz p (fun _ => 0)) as [c Hcst].
    { intros q Hq. rewrite laplacian_kernel3. apply Hp. apply (in_all_ix3 sh); auto. }
    rewrite (lsumR_ext _ (fun q => c * div_value3 Rops sc sm sh st q)).
    - rewrite lsumR_scal. rewrite divergence_sums_to_zero3 by auto. ring.
    - intros q Hq. apply (in_all_ix3 sh) in Hq. rewrite (Hcst q Hq), (Hc q Hq). ring.
  Qed.

  Lemma cg_error_monotone3 st itmax tol x0 err0 xs :
    consistent3 Rops sc sm sh st ->
    (forall q, in_pmf3 sh q -> A xs q = div_value3 Rops sc sm sh st q) ->
    err_norm2 _ pts A xs (out_x _ (integrate3 Rops sh itmax tol (dv3 st) x0 err0)) <= err_norm2 _ pts A xs x0.
  Proof.
    intros Hc Hs. unfold integrate3. destruct (shape_ok3 sh); [|unfold out_x; cbn [fst]; lra].
    apply (cg_solve_error_monotone _ _ ix3_eqb_eq pts A (atimes3_linear sh) A3_ext
             (laplacian_symmetric3 sh Hnx Hny Hnz) (fun x => laplacian_negative_semidefinite3 sh Hnx Hny Hnz Hwx Hwy Hwz x)
             (dv3 st) (b_orth3 st Hc)).
    intros q Hq. rewrite (Hc q) by (apply (in_all_ix3 sh); auto). apply Hs. apply (in_all_ix3 sh); auto.
  Qed.

  Lemma cg_error_strict3 st itmax tol x0 err0 xs :
    consistent3 Rops sc sm sh st -> shape_ok3 sh = true ->
    (forall q, in_pmf3 sh q -> A xs q = div_value3 Rops sc sm sh st q) ->
    cg_eps Rops <= nrm (div_value3 Rops sc sm sh st) ->
    (exists q, in_pmf3 sh q /\ div_value3 Rops sc sm sh st q - A x0 q <> 0) ->
    err_norm2 _ pts A xs (out_x _ (integrate3 Rops sh (S itmax) tol (dv3 st) x0 err0)) < err_norm2 _ pts A xs x0.
  Proof.
    intros Hc Hok Hs Hb [q [Hq Hne]]. unfold integrate3. rewrite Hok.
    assert (Hd : forall q, In q pts -> dv3 st q = div_value3 Rops sc sm sh st q)
      by (intros q' Hq'; apply Hc; apply (in_all_ix3 sh); auto).
    apply (cg_solve_error_strict _ _ ix3_eqb_eq pts A (atimes3_linear sh) A3_ext
             (laplacian_symmetric3 sh Hnx Hny Hnz) (fun x => laplacian_negative_semidefinite3 sh Hnx Hny Hnz Hwx Hwy Hwz x)
             (dv3 st) (b_orth3 st Hc)).
    - intros q' Hq'. rewrite Hd by auto. apply Hs. apply (in_all_ix3 sh); auto.
    - rewrite (norm_ext _ pts (dv3 st) (div_value3 Rops sc sm sh st) Hd). exact Hb.
    - exists q. split; [apply (in_all_ix3 sh); auto|]. rewrite Hd by (apply (in_all_ix3 sh); auto). exact Hne.
  Qed.
End Poisson3.

(* ------------------------------------------------------------------ from histories of samples *)
Lemma poisson2_history sc sm (sh : shape2 (T:=R)) st0 pre h itmax tol x0 err0 :
  (0 < nxg sh)%Z -> (0 < nyg sh)%Z -> Forall (fun e => in_grad2 sh (fst e)) h ->
  let st := run2 Rops sc sm sh (set_div2 Rops sc sm sh (preload2 Rops st0 pre)) h in
  let D := div_value2 Rops sc sm sh st in
  let o := integrate2 Rops sh itmax tol (dv2 st) x0 err0 in
  lsumR D (all_ix2 sh) = 0 /\
  ((1 <= out_iter _ o)%Z -> out_err _ o <= tol ->
     l2norm Rops _ (all_ix2 sh) (fun p => D p - atimes2 Rops sh (out_x _ o) p) <= tol * l2norm Rops _ (all_ix2 sh) D) /\
  ((1 <= out_iter _ o)%Z -> out_err _ o = 0 -> forall p, in_pmf2 sh p -> atimes2 Rops sh (out_x _ o) p = D p) /\
  ((1 <= out_iter _ o < Z.of_nat itmax)%Z -> out_err _ o <= tol \/ out_err _ o = 0).
Proof.
  intros Hx Hy Hh. apply poisson2; auto. apply run2_consistent; auto. apply set_div2_consistent; auto.
Qed.

Lemma poisson3_history sc sm (sh : shape3 (T:=R)) st0 pre h itmax tol x0 err0 :
  (0 < mxg sh)%Z -> (0 < myg sh)%Z -> (0 < mzg sh)%Z -> Forall (fun e => in_grad3 sh (fst e)) h ->
  let st := run3 Rops sc sm sh (set_div3 Rops sc sm sh (preload3 Rops st0 pre)) h in
  let D := div_value3 Rops sc sm sh st in
  let o := integrate3 Rops sh itmax tol (dv3 st) x0 err0 in
  lsumR D (all_ix3 sh) = 0 /\
  ((1 <= out_iter _ o)%Z -> out_err _ o <= tol ->
     l2norm Rops _ (all_ix3 sh) (fun p => D p - atimes3 Rops sh (out_x _ o) p) <= tol * l2norm Rops _ (all_ix3 sh) D) /\
  ((1 <= out_iter _ o)%Z -> out_err _ o = 0 -> forall p, in_pmf3 sh p -> atimes3 Rops sh (out_x _ o) p = D p) /\
  ((1 <= out_iter _ o < Z.of_nat itmax)%Z -> out_err _ o <= tol \/ out_err _ o = 0).
Proof.
  intros Hx Hy Hz Hh. apply poisson3; auto. apply run3_consistent; auto. apply set_div3_consistent; auto.
Qed.

(* ------------------------------------------------------------------ non-vacuity witnesses *)
Definition sh22 : shape2 (T:=R) := mkShape2 false false 1 1 1 1.
Definition b22 : Z * Z -> R := fun p => IZR (snd p - fst p).

Lemma pts22 : all_ix2 sh22 = [(0, 0); (0, 1); (1, 0); (1, 1)]%Z.
Proof. reflexivity. Qed.

Lemma b22_eigen p : In p (all_ix2 sh22) -> atimes2 Rops sh22 b22 p = -1 * b22 p.
Proof.
  rewrite pts22. intros Hp.
  destruct Hp as [<-|[<-|[<-|[<-|[]]]]]; cbv - [Rplus Rminus Rmult Rdiv Rinv Ropp IZR]; lra.
Qed.

Lemma b22_norm : cg_eps Rops <= l2norm Rops (Z * Z) (all_ix2 sh22) b22.
Proof.
  rewrite pts22. cbv - [Rplus Rminus Rmult Rdiv Rinv Ropp IZR Rle sqrt].
  apply Rle_trans with 1; [lra|]. rewrite <- sqrt_1 at 1. apply sqrt_le_1_alt. lra.
Qed.

Lemma cg_example2 : let o := integrate2 Rops sh22 1 0 b22 (fun _ => 0) 0 in
  out_iter _ o = 1%Z /\ out_err _ o = 0.
Proof.
  unfold integrate2. change (shape_ok2 sh22) with true. cbv iota.
  apply (cg_eigen_one_step _ _ ix2_eqb_eq (all_ix2 sh22) (atimes2 Rops sh22) (atimes2_linear sh22)
           (A2_ext sh22 ltac:(reflexivity) ltac:(reflexivity)) 0%nat 0 b22 (-1) 0 b22_eigen); [lra | apply b22_norm | lra].
Qed.

Definition sh222 : shape3 (T:=R) := mkShape3 false false false 1 1 1 1 1 1.
Definition b222 : Z * Z * Z -> R := fun p => IZR (snd p - fst (fst p)).

Lemma pts222 : all_ix3 sh222 = [(0,0,0); (0,0,1); (0,1,0); (0,1,1); (1,0,0); (1,0,1); (1,1,0); (1,1,1)]%Z.
Proof. reflexivity. Qed.

Lemma b222_eigen p : In p (all_ix3 sh222) -> atimes3 Rops sh222 b222 p = - (1 / 2) * b222 p.
Proof.
  rewrite pts222. intros Hp.
  destruct Hp as [<-|[<-|[<-|[<-|[<-|[<-|[<-|[<-|[]]]]]]]]]; cbv - [Rplus Rminus Rmult Rdiv Rinv Ropp IZR]; lra.
Qed.

Lemma b222_norm : cg_eps Rops <= l2norm Rops (Z * Z * Z) (all_ix3 sh222) b222.
Proof.
  rewrite pts222. cbv - [Rplus Rminus Rmult Rdiv Rinv Ropp IZR Rle sqrt].
  apply Rle_trans with 1; [lra|]. rewrite <- sqrt_1 at 1. apply sqrt_le_1_alt. lra.
Qed.

Lemma cg_example3 : let o := integrate3 Rops sh222 1 0 b222 (fun _ => 0) 0 in
  out_iter _ o = 1%Z /\ out_err _ o = 0.
Proof.
  unfold integrate3. change (shape_ok3 sh222) with true. cbv iota.
  apply (cg_eigen_one_step _ _ ix3_eqb_eq (all_ix3 sh222) (atimes3 Rops sh222) (atimes3_linear sh222)
           (A3_ext sh222 ltac:(reflexivity) ltac:(reflexivity) ltac:(reflexivity)) 0%nat 0 b222 (- (1 / 2)) 0 b222_eigen);
    [lra | apply b222_norm | lra].
Qed.

(* ------------------------------------------------------------------ the grids that are refused *)
Lemma shape_ok2_spec {T} (sh : shape2 (T:=T)) : (0 < nxg sh)%Z -> (0 < nyg sh)%Z ->
  (shape_ok2 sh = false <-> (px sh = true /\ nxg sh = 1%Z) \/ (py sh = true /\ nyg sh = 1%Z)).
Proof.
  intros Hx Hy. unfold shape_ok2, npmf. rewrite andb_false_iff, !Z.leb_gt.
  destruct (px sh), (py sh); split; intros H; try lia;
    try (destruct H as [H|H]; [left | right]; try (split; [reflexivity|]); lia);
    try (destruct H as [[H1 H2]|[H1 H2]]; try discriminate; lia).
Qed.

Lemma shape_ok3_spec {T} (sh : shape3 (T:=T)) : (0 < mxg sh)%Z -> (0 < myg sh)%Z -> (0 < mzg sh)%Z ->
  (shape_ok3 sh = false <->
   (qx sh = true /\ mxg sh = 1%Z) \/ (qy sh = true /\ myg sh = 1%Z) \/ (qz sh = true /\ mzg sh = 1%Z)).
Proof.
  intros Hx Hy Hz. unfold shape_ok3, npmf. rewrite !andb_false_iff, !Z.leb_gt.
  destruct (qx sh), (qy sh), (qz sh); split; intros H;
    repeat match goal with
           | H : _ \/ _ |- _ => destruct H
           | H : _ /\ _ |- _ => destruct H
           end; try discriminate; try lia;
    try (left; split; [reflexivity | lia]); try (right; left; split; [reflexivity | lia]);
    try (right; right; split; [reflexivity | lia]);
    try (left; left; lia); try (left; right; lia); try (right; lia).
Qed.

(* a refused grid: integrate() makes no iteration and leaves the surface and the caller's error untouched *)
Lemma integrate2_refused (sh : shape2 (T:=R)) itmax tol D x0 err0 : shape_ok2 sh = false ->
  let o := integrate2 Rops sh itmax tol D x0 err0 in out_iter _ o = 0%Z /\ out_x _ o = x0 /\ out_err _ o = err0.
Proof. intros H. cbv zeta. unfold integrate2. rewrite H. repeat split. Qed.
Lemma integrate3_refused (sh : shape3 (T:=R)) itmax tol D x0 err0 : shape_ok3 sh = false ->
  let o := integrate3 Rops sh itmax tol D x0 err0 in out_iter _ o = 0%Z /\ out_x _ o = x0 /\ out_err _ o = err0.
Proof. intros H. cbv zeta. unfold integrate3. rewrite H. repeat split. Qed.

Lemma cg_error_monotone2_history sc sm (sh : shape2 (T:=R)) st0 pre h itmax tol x0 err0 xs :
  (0 < nxg sh)%Z -> (0 < nyg sh)%Z -> wx sh <> 0 -> wy sh <> 0 -> Forall (fun e => in_grad2 sh (fst e)) h ->
  let st := run2 Rops sc sm sh (set_div2 Rops sc sm sh (preload2 Rops st0 pre)) h in
  (forall q, in_pmf2 sh q -> atimes2 Rops sh xs q = div_value2 Rops sc sm sh st q) ->
  err_norm2 _ (all_ix2 sh) (atimes2 Rops sh) xs (out_x _ (integrate2 Rops sh itmax tol (dv2 st) x0 err0))
  <= err_norm2 _ (all_ix2 sh) (atimes2 Rops sh) xs x0.
Proof.
  intros Hx Hy Wx Wy Hh st Hs. apply (cg_error_monotone2 sc sm sh Hx Hy Wx Wy); auto.
  apply run2_consistent; auto. apply set_div2_consistent; auto.
Qed.

Lemma cg_error_monotone3_history sc sm (sh : shape3 (T:=R)) st0 pre h itmax tol x0 err0 xs :
  (0 < mxg sh)%Z -> (0 < myg sh)%Z -> (0 < mzg sh)%Z -> vx sh <> 0 -> vy sh <> 0 -> vz sh <> 0 ->
  Forall (fun e => in_grad3 sh (fst e)) h ->
  let st := run3 Rops sc sm sh (set_div3 Rops sc sm sh (preload3 Rops st0 pre)) h in
  (forall q, in_pmf3 sh q -> atimes3 Rops sh xs q = div_value3 Rops sc sm sh st q) ->
  err_norm2 _ (all_ix3 sh) (atimes3 Rops sh) xs (out_x _ (integrate3 Rops sh itmax tol (dv3 st) x0 err0))
  <= err_norm2 _ (all_ix3 sh) (atimes3 Rops sh) xs x0.
Proof.
  intros Hx Hy Hz Wx Wy Wz Hh st Hs. apply (cg_error_monotone3 sc sm sh Hx Hy Hz Wx Wy Wz); auto.
  apply run3_consistent; auto. apply set_div3_consistent; auto.
Qed.

(* a solution exists in the witness case: A (-b22) = b22 *)
Lemma b22_solution q : In q (all_ix2 sh22) -> atimes2 Rops sh22 (fun p => 0 + -1 * b22 p) q = b22 q.
Proof. intros Hq. rewrite atimes2_linear, laplacian_kernel2, (b22_eigen q Hq). ring. Qed.

Lemma cg_error_strict2_history sc sm (sh : shape2 (T:=R)) st0 pre h itmax tol x0 err0 xs :
  (0 < nxg sh)%Z -> (0 < nyg sh)%Z -> wx sh <> 0 -> wy sh <> 0 -> Forall (fun e => in_grad2 sh (fst e)) h ->
  let st := run2 Rops sc sm sh (set_div2 Rops sc sm sh (preload2 Rops st0 pre)) h in
  let D := div_value2 Rops sc sm sh st in
  shape_ok2 sh = true ->
  (forall q, in_pmf2 sh q -> atimes2 Rops sh xs q = D q) ->
  cg_eps Rops <= l2norm Rops _ (all_ix2 sh) D ->
  (exists q, in_pmf2 sh q /\ D q - atimes2 Rops sh x0 q <> 0) ->
  err_norm2 _ (all_ix2 sh) (atimes2 Rops sh) xs (out_x _ (integrate2 Rops sh (S itmax) tol (dv2 st) x0 err0))
  < err_norm2 _ (all_ix2 sh) (atimes2 Rops sh) xs x0.
Proof.
  intros Hx Hy Wx Wy Hh st D Hok Hs Hb Hne. apply (cg_error_strict2 sc sm sh Hx Hy Wx Wy); auto.
  apply run2_consistent; auto. apply set_div2_consistent; auto.
Qed.

Lemma cg_error_strict3_history sc sm (sh : shape3 (T:=R)) st0 pre h itmax tol x0 err0 xs :
  (0 < mxg sh)%Z -> (0 < myg sh)%Z -> (0 < mzg sh)%Z -> vx sh <> 0 -> vy sh <> 0 -> vz sh <> 0 ->
  Forall (fun e => in_grad3 sh (fst e)) h ->
  let st := run3 Rops sc sm sh (set_div3 Rops sc sm sh (preload3 Rops st0 pre)) h in
  let D := div_value3 Rops sc sm sh st in
  shape_ok3 sh = true ->
  (forall q, in_pmf3 sh q -> atimes3 Rops sh xs q = D q) ->
  cg_eps Rops <= l2norm Rops _ (all_ix3 sh) D ->
  (exists q, in_pmf3 sh q /\ D q - atimes3 Rops sh x0 q <> 0) ->
  err_norm2 _ (all_ix3 sh) (atimes3 Rops sh) xs (out_x _ (integrate3 Rops sh (S itmax) tol (dv3 st) x0 err0))
  < err_norm2 _ (all_ix3 sh) (atimes3 Rops sh) xs x0.
Proof.
  intros Hx Hy Hz Wx Wy Wz Hh st D Hok Hs Hb Hne. apply (cg_error_strict3 sc sm sh Hx Hy Hz Wx Wy Wz); auto.
  apply run3_consistent; auto. apply set_div3_consistent; auto.
Qed.

(* ================================================================== consistency: the scheme is exact on cubics
   Gradient data equal to the gradient of a polynomial U of total degree <= 3 at the bin centres: at every interior
   PMF node the divergence stored by set_div / update_div_neighbors equals the discrete Laplacian (atimes) of the
   samples of U at the nodes, EXACTLY.  (This is the algebraic content of second-order consistency: for a C^4 surface
   the local truncation error is the Taylor remainder of degree 4, O(w^2).) *)
Section Consistency2.
  Variable sc : smooth_cfg.
  Variable sm : bool.
  Variable sh : shape2 (T:=R).
  Variable st : state2 (T:=R).
  Variables x0 y0 : R.
  Variables c00 c10 c01 c20 c11 c02 c30 c21 c12 c03 : R.
  Notation Nx := (npmf (px sh) (nxg sh)).
  Notation Ny := (npmf (py sh) (nyg sh)).

  Definition cubU (x y : R) : R :=
    c00 + c10 * x + c01 * y + c20 * x * x + c11 * x * y + c02 * y * y
    + c30 * x * x * x + c21 * x * x * y + c12 * x * y * y + c03 * y * y * y.
  Definition cubUx (x y : R) : R := c10 + 2 * c20 * x + c11 * y + 3 * c30 * x * x + 2 * c21 * x * y + c12 * y * y.
  Definition cubUy (x y : R) : R := c01 + c11 * x + 2 * c02 * y + c21 * x * x + 2 * c12 * x * y + 3 * c03 * y * y.
  (* PMF node i sits at x0 + i w; gradient bin a lies between nodes a and a+1, its centre at x0 + (a + 1/2) w *)
  Definition nodx (i : Z) : R := x0 + IZR i * wx sh.
  Definition nody (j : Z) : R := y0 + IZR j * wy sh.
  Definition cenx (a : Z) : R := x0 + (IZR a + / 2) * wx sh.
  Definition ceny (b : Z) : R := y0 + (IZR b + / 2) * wy sh.

  Lemma scheme_exact_on_cubics2 i j :
    (1 <= i <= Nx - 2)%Z -> (1 <= j <= Ny - 2)%Z -> wx sh <> 0 -> wy sh <> 0 ->
    (forall a b, (a = i - 1 \/ a = i)%Z -> (b = j - 1 \/ b = j)%Z ->
       gval2 Rops sc sm sh st (a, b) = (cubUx (cenx a) (ceny b), cubUy (cenx a) (ceny b))) ->
    div_value2 Rops sc sm sh st (i, j) = atimes2 Rops sh (fun p => cubU (nodx (fst p)) (nody (snd p))) (i, j).
  Proof.
    intros Hi Hj Wx Wy Hg. rewrite atimes2_eq. unfold div_value2, div_formula2. cbn [fst snd].
    rewrite !Hg by (auto; lia).
    assert (Ex : efact Rops (px sh) Nx i = 1).
    { unfold efact. set (N := npmf (px sh) (nxg sh)) in *. destruct (px sh); [reflexivity|].
      destruct (Z.eqb_spec i 0); [lia|]. destruct (Z.eqb_spec i (N - 1)); [lia|]. reflexivity. }
    assert (Ey : efact Rops (py sh) Ny j = 1).
    { unfold efact. set (N := npmf (py sh) (nyg sh)) in *. destruct (py sh); [reflexivity|].
      destruct (Z.eqb_spec j 0); [lia|]. destruct (Z.eqb_spec j (N - 1)); [lia|]. reflexivity. }
    assert (Lx : forall a : Z -> R, lap1 Rops (px sh) Nx a i = a (i - 1)%Z + a (i + 1)%Z - 2 * a i).
    { intros a. unfold lap1. set (N := npmf (px sh) (nxg sh)) in *. destruct (px sh).
      - fold (wr N (i - 1)) (wr N (i + 1)). rewrite !wr_small by lia. reflexivity.
      - destruct (Z.eqb_spec i 0); [lia|]. destruct (Z.eqb_spec i (N - 1)); [lia|]. reflexivity. }
    assert (Ly : forall a : Z -> R, lap1 Rops (py sh) Ny a j = a (j - 1)%Z + a (j + 1)%Z - 2 * a j).
    { intros a. unfold lap1. set (N := npmf (py sh) (nyg sh)) in *. destruct (py sh).
      - fold (wr N (j - 1)) (wr N (j + 1)). rewrite !wr_small by lia. reflexivity.
      - destruct (Z.eqb_spec j 0); [lia|]. destruct (Z.eqb_spec j (N - 1)); [lia|]. reflexivity. }
    rewrite Ex, Ey, Lx, Ly. cbn [fst snd nadd nsub nmul ndiv n1 nofZ Rops]. unfold nhalf. cbn [ndiv n1 nofZ Rops].
    unfold cubU, cubUx, cubUy, nodx, nody, cenx, ceny. rewrite !minus_IZR, !plus_IZR. field. split; assumption.
  Qed.
End Consistency2.

Section Consistency3.
  Variable sc : smooth_cfg.
  Variable sm : bool.
  Variable sh : shape3 (T:=R).
  Variable st : state3 (T:=R).
  Variables x0 y0 z0 : R.
  Variables k000 k001 k002 k003 k010 k011 k012 k020 k021 k030 k100 k101 k102 k110 k111 k120 k200 k201 k210 k300 : R.
  Notation Nx := (npmf (qx sh) (mxg sh)).
  Notation Ny := (npmf (qy sh) (myg sh)).
  Notation Nz := (npmf (qz sh) (mzg sh)).

  Definition cub3 (x y z : R) : R := k000 + k001 * z + k002 * z * z + k003 * z * z * z + k010 * y + k011 * y * z + k012 * y * z * z + k020 * y * y + k021 * y * y * z + k030 * y * y * y + k100 * x + k101 * x * z + k102 * x * z * z + k110 * x * y + k111 * x * y * z + k120 * x * y * y + k200 * x * x + k201 * x * x * z + k210 * x * x * y + k300 * x * x * x.
  Definition cub3x (x y z : R) : R := k100 + k101 * z + k102 * z * z + k110 * y + k111 * y * z + k120 * y * y + 2 * k200 * x + 2 * k201 * x * z + 2 * k210 * x * y + 3 * k300 * x * x.
  Definition cub3y (x y z : R) : R := k010 + k011 * z + k012 * z * z + 2 * k020 * y + 2 * k021 * y * z + 3 * k030 * y * y + k110 * x + k111 * x * z + 2 * k120 * x * y + k210 * x * x.
  Definition cub3z (x y z : R) : R := k001 + 2 * k002 * z + 3 * k003 * z * z + k011 * y + 2 * k012 * y * z + k021 * y * y + k101 * x + 2 * k102 * x * z + k111 * x * y + k201 * x * x.
  Definition nod3x (i : Z) : R := x0 + IZR i * vx sh.
  Definition nod3y (j : Z) : R := y0 + IZR j * vy sh.
  Definition nod3z (k : Z) : R := z0 + IZR k * vz sh.
  Definition cen3x (a : Z) : R := x0 + (IZR a + / 2) * vx sh.
  Definition cen3y (b : Z) : R := y0 + (IZR b + / 2) * vy sh.
  Definition cen3z (c : Z) : R := z0 + (IZR c + / 2) * vz sh.

  Lemma interior_efact per n i : (1 <= i <= n - 2)%Z -> efact Rops per n i = 1.
  Proof.
    intros Hi. unfold efact. destruct per; [reflexivity|].
    destruct (Z.eqb_spec i 0); [lia|]. destruct (Z.eqb_spec i (n - 1)); [lia|]. reflexivity.
  Qed.
  Lemma interior_lap1 per n (a : Z -> R) i : (1 <= i <= n - 2)%Z ->
    lap1 Rops per n a i = a (i - 1)%Z + a (i + 1)%Z - 2 * a i.
  Proof.
    intros Hi. unfold lap1. destruct per.
    - fold (wr n (i - 1)) (wr n (i + 1)). rewrite !wr_small by lia. reflexivity.
    - destruct (Z.eqb_spec i 0); [lia|]. destruct (Z.eqb_spec i (n - 1)); [lia|]. reflexivity.
  Qed.

  Lemma scheme_exact_on_cubics3 i j k :
    (1 <= i <= Nx - 2)%Z -> (1 <= j <= Ny - 2)%Z -> (1 <= k <= Nz - 2)%Z -> vx sh <> 0 -> vy sh <> 0 -> vz sh <> 0 ->
    (forall a b c, (a = i - 1 \/ a = i)%Z -> (b = j - 1 \/ b = j)%Z -> (c = k - 1 \/ c = k)%Z ->
       gval3 Rops sc sm sh st (a, b, c) =
       (cub3x (cen3x a) (cen3y b) (cen3z c), cub3y (cen3x a) (cen3y b) (cen3z c), cub3z (cen3x a) (cen3y b) (cen3z c))) ->
    div_value3 Rops sc sm sh st (i, j, k) =
    atimes3 Rops sh (fun p => cub3 (nod3x (fst (fst p))) (nod3y (snd (fst p))) (nod3z (snd p))) (i, j, k).
  Proof.
    intros Hi Hj Hk Wx Wy Wz Hg. rewrite atimes3_eq. unfold div_value3, div_formula3, i3x, i3y, i3z. cbn [fst snd].
    rewrite !Hg by (auto; lia).
    rewrite !interior_efact, !interior_lap1 by assumption.
    unfold t3x, t3y, t3z. cbn [fst snd nadd nsub nmul ndiv n1 nofZ Rops].
    unfold cub3, cub3x, cub3y, cub3z, nod3x, nod3y, nod3z, cen3x, cen3y, cen3z. rewrite !minus_IZR, !plus_IZR. field.
    repeat split; assumption.
  Qed.
End Consistency3.

(* ------------------------------------------------------------------ scale covariance of the whole pipeline *)
Definition scale_st2 (c : R) (st : state2 (T:=R)) : state2 (T:=R) :=
  mkState2 (fun p => (c * fst (gsum2 st p), c * snd (gsum2 st p))) (gcnt2 st) (fun p => c * dv2 st p).
Definition scale_st3 (c : R) (st : state3 (T:=R)) : state3 (T:=R) :=
  mkState3 (fun p => (c * t3x (gsum3 st p), c * t3y (gsum3 st p), c * t3z (gsum3 st p))) (gcnt3 st) (fun p => c * dv3 st p).

Lemma gval2_scal sc sm (sh : shape2 (T:=R)) c st ix :
  gval2 Rops sc sm sh (scale_st2 c st) ix = (c * fst (gval2 Rops sc sm sh st ix), c * snd (gval2 Rops sc sm sh st ix)).
Proof.
  unfold gval2, get_grad2, scale_st2. destruct (wde2 sh ix) as [e ix']. cbn [gsum2 gcnt2 fst snd].
  destruct e; cbn [fst snd n0 nmul Rops]; f_equal; ring.
Qed.

Lemma div_value2_scal sc sm (sh : shape2 (T:=R)) c st p :
  div_value2 Rops sc sm sh (scale_st2 c st) p = c * div_value2 Rops sc sm sh st p.
Proof.
  unfold div_value2, div_formula2. rewrite !gval2_scal. cbn [fst snd nadd nsub nmul ndiv Rops]. unfold Rdiv. ring.
Qed.

Lemma gval3_scal sc sm (sh : shape3 (T:=R)) c st ix :
  gval3 Rops sc sm sh (scale_st3 c st) ix =
  (c * t3x (gval3 Rops sc sm sh st ix), c * t3y (gval3 Rops sc sm sh st ix), c * t3z (gval3 Rops sc sm sh st ix)).
Proof.
  unfold gval3, get_grad3, scale_st3. destruct (wde3 sh ix) as [e ix']. cbn [gsum3 gcnt3 fst snd].
  destruct e; unfold t3x, t3y, t3z; cbn [fst snd n0 nmul Rops]; (f_equal; [f_equal|]); ring.
Qed.

Lemma div_value3_scal sc sm (sh : shape3 (T:=R)) c st p :
  div_value3 Rops sc sm sh (scale_st3 c st) p = c * div_value3 Rops sc sm sh st p.
Proof.
  unfold div_value3, div_formula3. cbv zeta. rewrite !gval3_scal. unfold t3x, t3y, t3z.
  cbn [fst snd nadd nsub nmul ndiv n1 nofZ Rops]. unfold Rdiv. ring.
Qed.

Lemma integrate2_scal (sh : shape2 (T:=R)) c itmax tol D x0 err0 : (0 < nxg sh)%Z -> (0 < nyg sh)%Z -> c <> 0 ->
  cg_eps Rops <= l2norm Rops _ (all_ix2 sh) D -> cg_eps Rops <= Rabs c * l2norm Rops _ (all_ix2 sh) D ->
  let o := integrate2 Rops sh itmax tol D x0 err0 in
  let o' := integrate2 Rops sh itmax tol (fun q => c * D q) (fun q => c * x0 q) err0 in
  out_iter _ o' = out_iter _ o /\ out_err _ o' = out_err _ o /\
  forall q, in_pmf2 sh q -> out_x _ o' q = c * out_x _ o q.
Proof.
  intros Hx Hy Hc H1 H2. cbv zeta. unfold integrate2. destruct (shape_ok2 sh).
  - destruct (cg_solve_scal _ _ ix2_eqb_eq (all_ix2 sh) (atimes2 Rops sh) (atimes2_linear sh) (A2_ext sh Hx Hy)
                c itmax tol D x0 err0 Hc H1 H2) as [I1 [I2 [I3 _]]]. cbv zeta in *.
    repeat split; auto. intros q Hq. apply I3. apply (in_all_ix2 sh); auto.
  - unfold out_iter, out_err, out_x. cbn [fst snd]. repeat split.
Qed.

Lemma integrate3_scal (sh : shape3 (T:=R)) c itmax tol D x0 err0 : (0 < mxg sh)%Z -> (0 < myg sh)%Z -> (0 < mzg sh)%Z -> c <> 0 ->
  cg_eps Rops <= l2norm Rops _ (all_ix3 sh) D -> cg_eps Rops <= Rabs c * l2norm Rops _ (all_ix3 sh) D ->
  let o := integrate3 Rops sh itmax tol D x0 err0 in
  let o' := integrate3 Rops sh itmax tol (fun q => c * D q) (fun q => c * x0 q) err0 in
  out_iter _ o' = out_iter _ o /\ out_err _ o' = out_err _ o /\
  forall q, in_pmf3 sh q -> out_x _ o' q = c * out_x _ o q.
Proof.
  intros Hx Hy Hz Hc H1 H2. cbv zeta. unfold integrate3. destruct (shape_ok3 sh).
  - destruct (cg_solve_scal _ _ ix3_eqb_eq (all_ix3 sh) (atimes3 Rops sh) (atimes3_linear sh) (A3_ext sh Hx Hy Hz)
                c itmax tol D x0 err0 Hc H1 H2) as [I1 [I2 [I3 _]]]. cbv zeta in *.
    repeat split; auto. intros q Hq. apply I3. apply (in_all_ix3 sh); auto.
  - unfold out_iter, out_err, out_x. cbn [fst snd]. repeat split.
Qed.

(* ------------------------------------------------------------------ PMFs written from a freshly set divergence *)
Lemma write_pmf_batch2_poisson sc sm (sh : shape2 (T:=R)) st itmax tol x0 err0 :
  (0 < nxg sh)%Z -> (0 < nyg sh)%Z ->
  let D := div_value2 Rops sc sm sh st in
  let o := snd (write_pmf_batch2 Rops sc sm sh st itmax tol x0 err0) in
  lsumR D (all_ix2 sh) = 0 /\
  ((1 <= out_iter _ o)%Z -> out_err _ o <= tol ->
     l2norm Rops _ (all_ix2 sh) (fun p => D p - atimes2 Rops sh (out_x _ o) p) <= tol * l2norm Rops _ (all_ix2 sh) D) /\
  ((1 <= out_iter _ o)%Z -> out_err _ o = 0 -> forall p, in_pmf2 sh p -> atimes2 Rops sh (out_x _ o) p = D p) /\
  ((1 <= out_iter _ o < Z.of_nat itmax)%Z -> out_err _ o <= tol \/ out_err _ o = 0).
Proof.
  intros Hx Hy. cbv zeta. unfold write_pmf_batch2. cbn [snd].
  exact (poisson2 sc sm sh Hx Hy (set_div2 Rops sc sm sh st) itmax tol x0 err0 (set_div2_consistent Rops sc sm sh Hx Hy st)).
Qed.

Lemma write_pmf_batch3_poisson sc sm (sh : shape3 (T:=R)) st itmax tol x0 err0 :
  (0 < mxg sh)%Z -> (0 < myg sh)%Z -> (0 < mzg sh)%Z ->
  let D := div_value3 Rops sc sm sh st in
  let o := snd (write_pmf_batch3 Rops sc sm sh st itmax tol x0 err0) in
  lsumR D (all_ix3 sh) = 0 /\
  ((1 <= out_iter _ o)%Z -> out_err _ o <= tol ->
     l2norm Rops _ (all_ix3 sh) (fun p => D p - atimes3 Rops sh (out_x _ o) p) <= tol * l2norm Rops _ (all_ix3 sh) D) /\
  ((1 <= out_iter _ o)%Z -> out_err _ o = 0 -> forall p, in_pmf3 sh p -> atimes3 Rops sh (out_x _ o) p = D p) /\
  ((1 <= out_iter _ o < Z.of_nat itmax)%Z -> out_err _ o <= tol \/ out_err _ o = 0).
Proof.
  intros Hx Hy Hz. cbv zeta. unfold write_pmf_batch3. cbn [snd].
  exact (poisson3 sc sm sh Hx Hy Hz (set_div3 Rops sc sm sh st) itmax tol x0 err0 (set_div3_consistent Rops sc sm sh Hx Hy Hz st)).
Qed.
