Set Default Timeout 30.
(* C16 proofs, part 1: index arithmetic, incremental divergence = batch divergence (2-D and 3-D).
   These lemmas hold for EVERY numeric carrier (they never look inside the arithmetic), hence for the
   real-number instance of the theorems and for the float instance that the tie runs. *)
From Coq Require Import ZArith List Bool Lia.
From CV Require Import Base.Num C16.IntegrateModel.
Import ListNotations.
Local Open Scope Z_scope.

(* ------------------------------------------------------------------ ranges *)
Lemma in_zrange n i : In i (zrange n) <-> 0 <= i < n.
Proof.
  unfold zrange. rewrite in_map_iff. split.
  - intros [k [Hk Hin]]. apply in_seq in Hin. lia.
  - intros H. exists (Z.to_nat i). split; [lia|]. apply in_seq. lia.
Qed.

Lemma ix2_eqb_eq a b : ix2_eqb a b = true <-> a = b.
Proof.
  destruct a as [a1 a2], b as [b1 b2]. unfold ix2_eqb; cbn [fst snd].
  rewrite andb_true_iff, !Z.eqb_eq. split; [intros [-> ->]; reflexivity | intros H; inversion H; auto].
Qed.

Lemma ix3_eqb_eq a b : ix3_eqb a b = true <-> a = b.
Proof.
  destruct a as [[a1 a2] a3], b as [[b1 b2] b3]. unfold ix3_eqb; cbn [fst snd].
  rewrite !andb_true_iff, !Z.eqb_eq. split; [intros [[-> ->] ->]; reflexivity | intros H; inversion H; auto].
Qed.

Lemma ix2_dec (a b : ix2) : {a = b} + {a <> b}.
Proof. decide equality; apply Z.eq_dec. Qed.
Lemma ix3_dec (a b : ix3) : {a = b} + {a <> b}.
Proof. decide equality; [apply Z.eq_dec | apply ix2_dec]. Qed.

Lemma upd2_same {V} (g : ix2 -> V) k v : upd2 g k v k = v.
Proof. unfold upd2. destruct (ix2_eqb k k) eqn:E; auto. assert (ix2_eqb k k = true) by (apply ix2_eqb_eq; auto). congruence. Qed.
Lemma upd2_other {V} (g : ix2 -> V) k v q : q <> k -> upd2 g k v q = g q.
Proof. intros H. unfold upd2. destruct (ix2_eqb q k) eqn:E; auto. apply ix2_eqb_eq in E. contradiction. Qed.
Lemma upd3_same {V} (g : ix3 -> V) k v : upd3 g k v k = v.
Proof. unfold upd3. destruct (ix3_eqb k k) eqn:E; auto. assert (ix3_eqb k k = true) by (apply ix3_eqb_eq; auto). congruence. Qed.
Lemma upd3_other {V} (g : ix3 -> V) k v q : q <> k -> upd3 g k v q = g q.
Proof. intros H. unfold upd3. destruct (ix3_eqb q k) eqn:E; auto. apply ix3_eqb_eq in E. contradiction. Qed.

(* ------------------------------------------------------------------ one dimension of wrap / edge *)
(* ((i % n) + n) % n with truncating remainders is the mathematical modulo *)
Lemma rem_rem_mod n i : 0 < n -> Z.rem (Z.rem i n + n) n = i mod n.
Proof.
  intros Hn.
  pose proof (Z.rem_bound_abs i n ltac:(lia)) as Hb.
  rewrite Z.rem_mod_nonneg by lia.
  rewrite (Z.rem_eq i n) by lia.
  replace (i - n * (Z.quot i n) + n) with (i + (1 - Z.quot i n) * n) by ring.
  apply Z.mod_add; lia.
Qed.

Lemma wrap1_mod per n i : 0 < n -> wrap1 per n i = if per then i mod n else i.
Proof. intros Hn. unfold wrap1. destruct per; auto. apply rem_rem_mod; auto. Qed.

Lemma mod_minus_one n : 0 < n -> (-1) mod n = n - 1.
Proof. intros Hn. replace (-1) with (n - 1 + (-1) * n) by ring. rewrite Z.mod_add by lia. apply Z.mod_small; lia. Qed.

(* wrap_detect_edge applied twice = applied once (the code re-wraps indices it has already wrapped) *)
Lemma wrap1_idem per n i : 0 < n -> wrap1 per n (wrap1 per n i) = wrap1 per n i.
Proof. intros Hn. rewrite !wrap1_mod by lia. destruct per; auto. apply Z.mod_mod; lia. Qed.

(* ... and incrementing a wrapped index then wrapping = wrapping the incremented index *)
Lemma wrap1_succ per n i : 0 < n -> wrap1 per n (wrap1 per n i + 1) = wrap1 per n (i + 1).
Proof. intros Hn. rewrite !wrap1_mod by lia. destruct per; auto. apply Z.add_mod_idemp_l; lia. Qed.

Lemma edge1_wrap1 per n i : edge1 per n (wrap1 per n i) = edge1 per n i.
Proof. unfold edge1, wrap1. destruct per; auto. Qed.

Lemma edge1_wrap1_succ per n i : edge1 per n (wrap1 per n i + 1) = edge1 per n (i + 1).
Proof. unfold edge1, wrap1. destruct per; auto. Qed.

(* the wrapped, non-edge index is a valid index of the gradient grid *)
Lemma wrap1_in_range per n i : 0 < n -> edge1 per n i = false -> 0 <= wrap1 per n i < n.
Proof.
  intros Hn He. rewrite wrap1_mod by lia. unfold edge1 in *. destruct per.
  - apply Z.mod_pos_bound; lia.
  - apply orb_false_iff in He. destruct He as [H1 H2]. apply Z.ltb_ge in H1. apply Z.leb_gt in H2. lia.
Qed.

Lemma npmf_pos per n : 0 < n -> 0 < npmf per n.
Proof. unfold npmf; destruct per; lia. Qed.

(* the two PMF points along one dimension whose stencil contains gradient bin b: b and wrap(b+1) *)
Lemma pmf_wrap_in_range per N s : 0 < N -> 0 <= s < N -> wrap1 per N s = s.
Proof. intros HN Hs. rewrite wrap1_mod by lia. destruct per; auto. apply Z.mod_small; lia. Qed.

Lemma pmf_succ_range per n b : 0 < n -> 0 <= b < n -> 0 <= wrap1 per (npmf per n) (b + 1) < npmf per n.
Proof.
  intros Hn Hb. rewrite wrap1_mod by (apply npmf_pos; lia). unfold npmf. destruct per; [|lia].
  apply Z.mod_pos_bound; lia.
Qed.

Lemma pmf_succ_pred per n b : 0 < n -> 0 <= b < n ->
  wrap1 per (npmf per n) (wrap1 per (npmf per n) (b + 1) - 1) = b.
Proof.
  intros Hn Hb. rewrite !wrap1_mod by (apply npmf_pos; lia). unfold npmf. destruct per; [|lia].
  destruct (Z.eq_dec (b + 1) n) as [E|E].
  - rewrite E, Z.mod_same by lia. replace (0 - 1) with (-1) by ring. rewrite mod_minus_one; lia.
  - rewrite (Z.mod_small (b + 1) n) by lia. replace (b + 1 - 1) with b by ring. apply Z.mod_small; lia.
Qed.

(* locality along one dimension: if the gradient bin read at PMF position p with offset d in {-1,0}
   is bin b, then p is b or wrap(b+1) *)
Lemma stencil1 per n p d b : 0 < n -> 0 <= p < npmf per n -> (d = 0 \/ d = -1) ->
  edge1 per n (p + d) = false -> wrap1 per n (p + d) = b ->
  p = b \/ p = wrap1 per (npmf per n) (b + 1).
Proof.
  intros Hn Hp Hd He Hw. rewrite wrap1_mod in Hw by lia. rewrite wrap1_mod by (apply npmf_pos; lia).
  unfold edge1, npmf in *. destruct per.
  - destruct Hd as [-> | ->].
    + left. rewrite <- Hw. replace (p + 0) with p by ring. symmetry. apply Z.mod_small; lia.
    + right. destruct (Z.eq_dec p 0) as [E|E].
      * subst p. replace (0 + -1) with (-1) in Hw by ring. rewrite mod_minus_one in Hw by lia.
        subst b. replace (n - 1 + 1) with n by ring. symmetry. apply Z.mod_same; lia.
      * rewrite (Z.mod_small (p + -1) n) in Hw by lia. subst b.
        replace (p + -1 + 1) with p by ring. symmetry. apply Z.mod_small; lia.
  - apply orb_false_iff in He. destruct He as [H1 H2]. apply Z.ltb_ge in H1. apply Z.leb_gt in H2.
    destruct Hd as [-> | ->]; [left | right]; lia.
Qed.

(* ================================================================== two dimensions *)
Section Inc2.
  Context {T : Type} (O : NumOps T) (sc : smooth_cfg) (sm : bool) (sh : shape2 (T:=T)).
  Hypothesis Hnx : 0 < nxg sh.
  Hypothesis Hny : 0 < nyg sh.

  Notation Nx := (npmf (px sh) (nxg sh)).
  Notation Ny := (npmf (py sh) (nyg sh)).
  Definition in_pmf2 (p : ix2) : Prop := 0 <= fst p < Nx /\ 0 <= snd p < Ny.
  Definition in_grad2 (b : ix2) : Prop := 0 <= fst b < nxg sh /\ 0 <= snd b < nyg sh.

  (* the gradient returned by get_grad at a given index *)
  Definition gval2 (st : state2) (ix : ix2) : T * T := fst (get_grad2 O sc sm sh st ix).

  Lemma get_grad2_eq st ix : get_grad2 O sc sm sh st ix = (gval2 st ix, snd (wde2 sh ix)).
  Proof.
    unfold gval2, get_grad2. destruct (wde2 sh ix) as [e ix'] eqn:E. cbn [snd].
    destruct e; reflexivity.
  Qed.

  Lemma gval2_wrap_fst st i j : gval2 st (wrap1 (px sh) (nxg sh) i, j) = gval2 st (i, j).
  Proof.
    unfold gval2, get_grad2, wde2; cbn [fst snd].
    rewrite edge1_wrap1, wrap1_idem by lia. reflexivity.
  Qed.

  Lemma gval2_wrap_snd st i j : gval2 st (i, wrap1 (py sh) (nyg sh) j) = gval2 st (i, j).
  Proof.
    unfold gval2, get_grad2, wde2; cbn [fst snd].
    rewrite edge1_wrap1, wrap1_idem by lia. reflexivity.
  Qed.

  (* the divergence at PMF point p as a function of the gradient data alone: the cell-averaged
     centred difference of the four surrounding gradient bins (zero outside a non-periodic grid) *)
  Definition div_value2 (st : state2) (p : ix2) : T :=
    div_formula2 O sh (gval2 st (fst p - 1, snd p - 1)) (gval2 st (fst p - 1, snd p))
                      (gval2 st (fst p, snd p - 1)) (gval2 st (fst p, snd p)).

  Lemma udl2_spec st D p : in_pmf2 p ->
    update_div_local2 O sc sm sh st D p = upd2 D p (div_value2 st p).
  Proof.
    intros [[Hp1 Hp1'] [Hp2 Hp2']]. destruct p as [i j]. cbn [fst snd] in *.
    unfold update_div_local2, div_value2. cbn [fst snd].
    repeat (rewrite get_grad2_eq; cbn [fst snd wde2]).
    rewrite (gval2_wrap_snd st (i - 1) j).
    rewrite (gval2_wrap_fst st (i - 1) (j - 1)).
    rewrite (gval2_wrap_snd st i (j - 1)).
    reflexivity.
  Qed.

  (* the four PMF points visited by update_div_neighbors(b) *)
  Definition sx (b : ix2) := wrap1 (px sh) Nx (fst b + 1).
  Definition sy (b : ix2) := wrap1 (py sh) Ny (snd b + 1).

  Lemma udn2_spec st D b : in_grad2 b ->
    update_div_neighbors2 O sc sm sh st D b =
    upd2 (upd2 (upd2 (upd2 D b (div_value2 st b)) (sx b, snd b) (div_value2 st (sx b, snd b)))
               (sx b, sy b) (div_value2 st (sx b, sy b)))
         (fst b, sy b) (div_value2 st (fst b, sy b)).
  Proof.
    intros [Hb1 Hb2]. destruct b as [b1 b2]. cbn [fst snd] in *.
    pose proof (pmf_succ_range (px sh) (nxg sh) b1 Hnx Hb1) as Hs1.
    pose proof (pmf_succ_range (py sh) (nyg sh) b2 Hny Hb2) as Hs2.
    pose proof (npmf_pos (px sh) (nxg sh) Hnx) as HNx.
    pose proof (npmf_pos (py sh) (nyg sh) Hny) as HNy.
    assert (HbNx : 0 <= b1 < Nx) by (unfold npmf; destruct (px sh); lia).
    assert (HbNy : 0 <= b2 < Ny) by (unfold npmf; destruct (py sh); lia).
    unfold update_div_neighbors2, sx, sy, wrapP2. cbn [fst snd].
    rewrite (pmf_wrap_in_range (py sh) Ny b2) by lia.
    rewrite (pmf_wrap_in_range (px sh) Nx (wrap1 (px sh) Nx (b1 + 1))) by lia.
    rewrite (pmf_succ_pred (px sh) (nxg sh) b1) by lia.
    rewrite (pmf_wrap_in_range (py sh) Ny (wrap1 (py sh) Ny (b2 + 1))) by lia.
    rewrite !udl2_spec; try reflexivity; unfold in_pmf2; cbn [fst snd]; lia.
  Qed.

  (* acc_force changes the gradient data of bin b only *)
  Lemma gval2_acc_other st b f ix :
    (fst (wde2 sh ix) = false -> snd (wde2 sh ix) <> b) ->
    gval2 (acc_force2 O st b f) ix = gval2 st ix.
  Proof.
    intros H. unfold gval2, get_grad2. destruct (wde2 sh ix) as [e ix'] eqn:E. cbn [fst snd] in H.
    destruct e; [reflexivity|]. specialize (H eq_refl).
    unfold acc_force2; cbn [gsum2 gcnt2 fst snd]. rewrite !upd2_other by auto. reflexivity.
  Qed.

  (* locality: the divergence at p depends on bin b only if p is one of the four points above *)
  Lemma div_value2_local st b f p : in_pmf2 p ->
    p <> b -> p <> (sx b, snd b) -> p <> (sx b, sy b) -> p <> (fst b, sy b) ->
    div_value2 (acc_force2 O st b f) p = div_value2 st p.
  Proof.
    intros [Hp1 Hp2] N1 N2 N3 N4. destruct p as [i j], b as [b1 b2]. unfold sx, sy in *. cbn [fst snd] in *.
    assert (Hloc : forall d1 d2, (d1 = 0 \/ d1 = -1) -> (d2 = 0 \/ d2 = -1) ->
              gval2 (acc_force2 O st (b1, b2) f) (i + d1, j + d2) = gval2 st (i + d1, j + d2)).
    { intros d1 d2 Hd1 Hd2. apply gval2_acc_other. unfold wde2; cbn [fst snd].
      intros He Hw. apply orb_false_iff in He. destruct He as [He1 He2].
      inversion Hw as [[Hw1 Hw2]].
      destruct (stencil1 _ _ _ _ _ Hnx Hp1 Hd1 He1 Hw1) as [E1|E1];
      destruct (stencil1 _ _ _ _ _ Hny Hp2 Hd2 He2 Hw2) as [E2|E2]; subst i j;
      [apply N1 | apply N4 | apply N2 | apply N3]; try reflexivity;
      rewrite ?Hw1, ?Hw2; reflexivity. }
    unfold div_value2; cbn [fst snd].
    pose proof (Hloc (-1) (-1)) as H00. pose proof (Hloc (-1) 0) as H01.
    pose proof (Hloc 0 (-1)) as H10. pose proof (Hloc 0 0) as H11.
    replace (i + -1) with (i - 1) in * by ring. replace (j + -1) with (j - 1) in * by ring.
    replace (i + 0) with i in * by ring. replace (j + 0) with j in * by ring.
    rewrite H00, H01, H10, H11 by auto. reflexivity.
  Qed.

  (* the divergence formula reads the gradient fields only *)
  Lemma div_value2_fields st D p : div_value2 (mkState2 (gsum2 st) (gcnt2 st) D) p = div_value2 st p.
  Proof. reflexivity. Qed.

  (* INVARIANT: on the PMF grid the stored divergence is the divergence of the current gradient data *)
  Definition consistent2 (st : state2) : Prop := forall p, in_pmf2 p -> dv2 st p = div_value2 st p.

  Lemma arrive2_consistent st e : in_grad2 (fst e) -> consistent2 st -> consistent2 (arrive2 O sc sm sh st e).
  Proof.
    intros Hb Hc p Hp. destruct e as [b f]. cbn [fst snd] in *.
    unfold arrive2; cbn [fst snd dv2]. rewrite div_value2_fields.
    rewrite udn2_spec by auto.
    set (st' := acc_force2 O st b f).
    destruct (ix2_eqb p (fst b, sy b)) eqn:E4; [apply ix2_eqb_eq in E4; subst p; apply upd2_same|].
    rewrite upd2_other by (intros X; apply ix2_eqb_eq in X; congruence).
    destruct (ix2_eqb p (sx b, sy b)) eqn:E3; [apply ix2_eqb_eq in E3; subst p; apply upd2_same|].
    rewrite upd2_other by (intros X; apply ix2_eqb_eq in X; congruence).
    destruct (ix2_eqb p (sx b, snd b)) eqn:E2; [apply ix2_eqb_eq in E2; subst p; apply upd2_same|].
    rewrite upd2_other by (intros X; apply ix2_eqb_eq in X; congruence).
    destruct (ix2_eqb p b) eqn:E1; [apply ix2_eqb_eq in E1; subst p; apply upd2_same|].
    rewrite upd2_other by (intros X; apply ix2_eqb_eq in X; congruence).
    unfold st', acc_force2 at 1; cbn [dv2]. rewrite (Hc p Hp). symmetry.
    apply div_value2_local; auto; intros X; apply ix2_eqb_eq in X; congruence.
  Qed.

  Lemma run2_consistent h st : Forall (fun e => in_grad2 (fst e)) h -> consistent2 st ->
    consistent2 (run2 O sc sm sh st h).
  Proof.
    revert st. induction h as [|e h IH]; intros st Hh Hc; cbn [run2 fold_left]; auto.
    inversion Hh as [|e' h' He Hh']; subst. apply IH; auto. apply arrive2_consistent; auto.
  Qed.

  (* set_div: every PMF point receives the divergence of the current gradient data *)
  Lemma in_all_ix2 p : In p (all_ix2 sh) <-> in_pmf2 p.
  Proof.
    unfold all_ix2, in_pmf2. rewrite in_flat_map. split.
    - intros [i [Hi Hin]]. apply in_map_iff in Hin. destruct Hin as [j [<- Hj]].
      apply in_zrange in Hi. apply in_zrange in Hj. cbn [fst snd]. lia.
    - intros [H1 H2]. exists (fst p). split; [apply in_zrange; lia|].
      apply in_map_iff. exists (snd p). split; [destruct p; reflexivity | apply in_zrange; lia].
  Qed.

  Lemma fold_udl2 st l : (forall q, In q l -> in_pmf2 q) -> forall D p,
    (In p l -> fold_left (update_div_local2 O sc sm sh st) l D p = div_value2 st p) /\
    (~ In p l -> fold_left (update_div_local2 O sc sm sh st) l D p = D p).
  Proof.
    induction l as [|q l IH]; intros Hl D p; cbn [fold_left].
    - split; [intros []|auto].
    - assert (Hl' : forall q', In q' l -> in_pmf2 q') by (intros q' Hq'; apply Hl; right; auto).
      rewrite udl2_spec by (apply Hl; left; auto).
      destruct (IH Hl' (upd2 D q (div_value2 st q)) p) as [IH1 IH2].
      destruct (in_dec ix2_dec p l) as [Hin|Hnin].
      + split; [intros _; apply IH1; auto | intros Hn; exfalso; apply Hn; right; auto].
      + split.
        * intros [->|Hin]; [|contradiction]. rewrite IH2 by auto. apply upd2_same.
        * intros Hn. rewrite IH2 by auto. apply upd2_other. intros ->. apply Hn. left; auto.
  Qed.

  Lemma set_div2_spec st p : in_pmf2 p -> dv2 (set_div2 O sc sm sh st) p = div_value2 st p.
  Proof.
    intros Hp. unfold set_div2; cbn [dv2].
    apply (fold_udl2 st (all_ix2 sh)); [intros q Hq; apply in_all_ix2; auto | apply in_all_ix2; auto].
  Qed.

  Lemma set_div2_consistent st : consistent2 (set_div2 O sc sm sh st).
  Proof. intros p Hp. rewrite set_div2_spec by auto. reflexivity. Qed.

  Lemma init2_consistent_aux : True. Proof. exact I. Qed.

  (* incremental = batch, as equality of the two divergence arrays *)
  Lemma incremental_eq_batch2 st h : Forall (fun e => in_grad2 (fst e)) h -> consistent2 st ->
    dump2 sh (dv2 (run2 O sc sm sh st h)) = dump2 sh (dv2 (set_div2 O sc sm sh (run2 O sc sm sh st h))).
  Proof.
    intros Hh Hc. unfold dump2. apply map_ext_in. intros p Hp. apply in_all_ix2 in Hp.
    rewrite set_div2_spec by auto. apply run2_consistent; auto.
  Qed.

  Lemma preload2_fields st h : dv2 (preload2 O st h) = dv2 st.
  Proof. revert st. induction h as [|e h IH]; intros st; cbn [preload2 fold_left]; auto. unfold preload2 in IH. rewrite IH. reflexivity. Qed.
End Inc2.

(* ================================================================== three dimensions *)
Section Inc3.
  Context {T : Type} (O : NumOps T) (sc : smooth_cfg) (sm : bool) (sh : shape3 (T:=T)).
  Hypothesis Hnx : 0 < mxg sh.
  Hypothesis Hny : 0 < myg sh.
  Hypothesis Hnz : 0 < mzg sh.

  Notation Nx := (npmf (qx sh) (mxg sh)).
  Notation Ny := (npmf (qy sh) (myg sh)).
  Notation Nz := (npmf (qz sh) (mzg sh)).
  Definition in_pmf3 (p : ix3) : Prop := 0 <= i3x p < Nx /\ 0 <= i3y p < Ny /\ 0 <= i3z p < Nz.
  Definition in_grad3 (b : ix3) : Prop := 0 <= i3x b < mxg sh /\ 0 <= i3y b < myg sh /\ 0 <= i3z b < mzg sh.

  Definition gval3 (st : state3) (ix : ix3) : T * T * T := fst (get_grad3 O sc sm sh st ix).

  Lemma get_grad3_eq st ix : get_grad3 O sc sm sh st ix = (gval3 st ix, snd (wde3 sh ix)).
  Proof.
    unfold gval3, get_grad3. destruct (wde3 sh ix) as [e ix'] eqn:E. cbn [snd].
    destruct e; reflexivity.
  Qed.

  Lemma gval3_cong st a b c a' b' c' :
    edge1 (qx sh) (mxg sh) a = edge1 (qx sh) (mxg sh) a' -> wrap1 (qx sh) (mxg sh) a = wrap1 (qx sh) (mxg sh) a' ->
    edge1 (qy sh) (myg sh) b = edge1 (qy sh) (myg sh) b' -> wrap1 (qy sh) (myg sh) b = wrap1 (qy sh) (myg sh) b' ->
    edge1 (qz sh) (mzg sh) c = edge1 (qz sh) (mzg sh) c' -> wrap1 (qz sh) (mzg sh) c = wrap1 (qz sh) (mzg sh) c' ->
    gval3 st (a, b, c) = gval3 st (a', b', c').
  Proof.
    intros E1 W1 E2 W2 E3 W3. unfold gval3, get_grad3, wde3, i3x, i3y, i3z; cbn [fst snd].
    rewrite E1, W1, E2, W2, E3, W3. reflexivity.
  Qed.

  (* divergence at PMF point p from the eight surrounding gradient bins *)
  Definition div_value3 (st : state3) (p : ix3) : T :=
    let x := i3x p in let y := i3y p in let z := i3z p in
    div_formula3 O sh (gval3 st (x - 1, y - 1, z - 1)) (gval3 st (x - 1, y - 1, z))
                      (gval3 st (x - 1, y, z - 1)) (gval3 st (x - 1, y, z))
                      (gval3 st (x, y - 1, z - 1)) (gval3 st (x, y - 1, z))
                      (gval3 st (x, y, z - 1)) (gval3 st (x, y, z)).

  Ltac norm_wrap :=
    repeat first [ rewrite edge1_wrap1 | rewrite edge1_wrap1_succ
                 | rewrite wrap1_idem by assumption
                 | rewrite wrap1_succ by assumption ].

  Lemma udl3_spec st D p : in_pmf3 p ->
    update_div_local3 O sc sm sh st D p = upd3 D p (div_value3 st p).
  Proof.
    intros [[Hp1 Hp1'] [[Hp2 Hp2'] [Hp3 Hp3']]]. destruct p as [[x y] z].
    unfold i3x, i3y, i3z in *. cbn [fst snd] in *.
    unfold update_div_local3, div_value3. unfold i3x, i3y, i3z. cbn [fst snd].
    repeat (rewrite get_grad3_eq; unfold wde3, i3x, i3y, i3z; cbn [fst snd]).
    f_equal. f_equal; apply gval3_cong; norm_wrap; try reflexivity; f_equal; lia.
  Qed.

  Definition tx (b : ix3) := wrap1 (qx sh) Nx (i3x b + 1).
  Definition ty (b : ix3) := wrap1 (qy sh) Ny (i3y b + 1).
  Definition tz (b : ix3) := wrap1 (qz sh) Nz (i3z b + 1).

  (* the eight PMF points visited by update_div_neighbors(b), in the order of the three nested loops *)
  Definition nb3 (b : ix3) : list ix3 :=
    [ (i3x b, i3y b, i3z b); (i3x b, i3y b, tz b); (i3x b, ty b, i3z b); (i3x b, ty b, tz b);
      (tx b, i3y b, i3z b); (tx b, i3y b, tz b); (tx b, ty b, i3z b); (tx b, ty b, tz b) ].

  Lemma udn3_k_spec st D ix q : wrapP3 sh ix = q -> in_pmf3 q ->
    udn3_k O sc sm sh st (D, ix) = (upd3 D q (div_value3 st q), (i3x q, i3y q, i3z q + 1)).
  Proof. intros E Hq. unfold udn3_k. cbn [fst snd]. rewrite E. cbv zeta. rewrite udl3_spec by auto. reflexivity. Qed.

  Lemma wrapP3_eq x y z X Y Z :
    wrap1 (qx sh) Nx x = X -> wrap1 (qy sh) Ny y = Y -> wrap1 (qz sh) Nz z = Z -> wrapP3 sh (x, y, z) = (X, Y, Z).
  Proof. intros <- <- <-. reflexivity. Qed.

  Lemma in_pmf3_intro x y z : 0 <= x < Nx -> 0 <= y < Ny -> 0 <= z < Nz -> in_pmf3 (x, y, z).
  Proof. intros; unfold in_pmf3, i3x, i3y, i3z; cbn [fst snd]; lia. Qed.

  (* the j-loop body started with ix = (x', y', _) where x', y' wrap to X, Y *)
  Lemma udn3_j_spec st b D x' y' z' X Y : in_grad3 b ->
    wrap1 (qx sh) Nx x' = X -> 0 <= X < Nx -> wrap1 (qy sh) Ny y' = Y -> 0 <= Y < Ny ->
    udn3_j O sc sm sh st b (D, (x', y', z')) =
    (upd3 (upd3 D (X, Y, i3z b) (div_value3 st (X, Y, i3z b))) (X, Y, tz b) (div_value3 st (X, Y, tz b)),
     (X, Y + 1, tz b + 1)).
  Proof.
    intros [Hb1 [Hb2 Hb3]] EX HX EY HY. destruct b as [[b1 b2] b3]. unfold tz, i3x, i3y, i3z in *. cbn [fst snd] in *.
    pose proof (pmf_succ_range (qz sh) (mzg sh) b3 Hnz Hb3) as Hs3.
    pose proof (npmf_pos (qx sh) (mxg sh) Hnx) as HNx.
    pose proof (npmf_pos (qy sh) (myg sh) Hny) as HNy.
    pose proof (npmf_pos (qz sh) (mzg sh) Hnz) as HNz.
    assert (HbNz : 0 <= b3 < Nz) by (unfold npmf; destruct (qz sh); lia).
    unfold udn3_j. cbn [fst snd]. unfold i3x, i3y, i3z. cbn [fst snd].
    rewrite (udn3_k_spec st D (x', y', b3) (X, Y, b3))
      by (first [apply in_pmf3_intro; lia | apply wrapP3_eq; auto; apply pmf_wrap_in_range; lia]).
    unfold i3x, i3y, i3z. cbn [fst snd].
    rewrite (udn3_k_spec st _ (X, Y, b3 + 1) (X, Y, wrap1 (qz sh) Nz (b3 + 1)))
      by (first [apply in_pmf3_intro; lia | apply wrapP3_eq; auto; apply pmf_wrap_in_range; lia]).
    unfold i3x, i3y, i3z. cbn [fst snd]. reflexivity.
  Qed.

  (* the i-loop body started with ix = (x', _, _) where x' wraps to X *)
  Lemma udn3_i_spec st b D x' y' z' X : in_grad3 b ->
    wrap1 (qx sh) Nx x' = X -> 0 <= X < Nx ->
    udn3_i O sc sm sh st b (D, (x', y', z')) =
    (fold_left (fun D q => upd3 D q (div_value3 st q))
               [ (X, i3y b, i3z b); (X, i3y b, tz b); (X, ty b, i3z b); (X, ty b, tz b) ] D,
     (X + 1, ty b + 1, tz b + 1)).
  Proof.
    intros Hb EX HX. pose proof Hb as [Hb1 [Hb2 Hb3]].
    pose proof (pmf_succ_range (qy sh) (myg sh) (i3y b) Hny Hb2) as Hs2.
    pose proof (npmf_pos (qx sh) (mxg sh) Hnx) as HNx.
    pose proof (npmf_pos (qy sh) (myg sh) Hny) as HNy.
    assert (HbNy : 0 <= i3y b < Ny) by (unfold npmf; destruct (qy sh); lia).
    unfold udn3_i. cbn [fst snd]. change (i3x (x', y', z')) with x'. change (i3z (x', y', z')) with z'.
    rewrite (udn3_j_spec st b D x' (i3y b) z' X (i3y b)) by (auto; apply pmf_wrap_in_range; lia).
    rewrite (udn3_j_spec st b _ X (i3y b + 1) (tz b + 1) X (ty b)) by (auto; apply pmf_wrap_in_range; lia).
    cbn [fst snd fold_left]. unfold i3x, i3y, i3z. cbn [fst snd]. reflexivity.
  Qed.

  Lemma udn3_spec st D b : in_grad3 b ->
    update_div_neighbors3 O sc sm sh st D b =
    fold_left (fun D q => upd3 D q (div_value3 st q)) (nb3 b) D.
  Proof.
    intros Hb. pose proof Hb as [Hb1 [Hb2 Hb3]].
    pose proof (pmf_succ_range (qx sh) (mxg sh) (i3x b) Hnx Hb1) as Hs1.
    pose proof (npmf_pos (qx sh) (mxg sh) Hnx) as HNx.
    assert (HbNx : 0 <= i3x b < Nx) by (unfold npmf; destruct (qx sh); lia).
    unfold update_div_neighbors3. destruct b as [[b1 b2] b3].
    change (i3x (b1, b2, b3)) with b1 in *.
    rewrite (udn3_i_spec st (b1, b2, b3) D b1 b2 b3 b1) by (auto; apply pmf_wrap_in_range; auto).
    rewrite (udn3_i_spec st (b1, b2, b3) _ (b1 + 1) (ty (b1, b2, b3) + 1) (tz (b1, b2, b3) + 1) (tx (b1, b2, b3))) by (auto).
    cbn [fst]. unfold nb3. cbn [fold_left]. reflexivity.
  Qed.

  Lemma gval3_acc_other st b f ix :
    (fst (wde3 sh ix) = false -> snd (wde3 sh ix) <> b) ->
    gval3 (acc_force3 O st b f) ix = gval3 st ix.
  Proof.
    intros H. unfold gval3, get_grad3. destruct (wde3 sh ix) as [e ix'] eqn:E. cbn [fst snd] in H.
    destruct e; [reflexivity|]. specialize (H eq_refl).
    unfold acc_force3; cbn [gsum3 gcnt3 fst snd]. rewrite !upd3_other by auto. reflexivity.
  Qed.

  Lemma div_value3_local st b f p : in_pmf3 p -> ~ In p (nb3 b) ->
    div_value3 (acc_force3 O st b f) p = div_value3 st p.
  Proof.
    intros [Hp1 [Hp2 Hp3]] Hn. destruct p as [[x y] z], b as [[b1 b2] b3].
    unfold nb3, tx, ty, tz, i3x, i3y, i3z in *. cbn [fst snd] in *.
    assert (Hloc : forall d1 d2 d3, (d1 = 0 \/ d1 = -1) -> (d2 = 0 \/ d2 = -1) -> (d3 = 0 \/ d3 = -1) ->
              gval3 (acc_force3 O st (b1, b2, b3) f) (x + d1, y + d2, z + d3) = gval3 st (x + d1, y + d2, z + d3)).
    { intros d1 d2 d3 Hd1 Hd2 Hd3. apply gval3_acc_other. unfold wde3, i3x, i3y, i3z; cbn [fst snd].
      intros He Hw. apply orb_false_iff in He. destruct He as [He12 He3].
      apply orb_false_iff in He12. destruct He12 as [He1 He2].
      inversion Hw as [[Hw1 Hw2 Hw3]].
      apply Hn.
      destruct (stencil1 _ _ _ _ _ Hnx Hp1 Hd1 He1 Hw1) as [E1|E1];
      destruct (stencil1 _ _ _ _ _ Hny Hp2 Hd2 He2 Hw2) as [E2|E2];
      destruct (stencil1 _ _ _ _ _ Hnz Hp3 Hd3 He3 Hw3) as [E3|E3];
      rewrite ?Hw1, ?Hw2, ?Hw3 in *; rewrite E1, E2, E3; cbn [In]; tauto. }
    unfold div_value3, i3x, i3y, i3z; cbn [fst snd].
    pose proof (Hloc (-1) (-1) (-1)) as H0. pose proof (Hloc (-1) (-1) 0) as H1.
    pose proof (Hloc (-1) 0 (-1)) as H2. pose proof (Hloc (-1) 0 0) as H3.
    pose proof (Hloc 0 (-1) (-1)) as H4. pose proof (Hloc 0 (-1) 0) as H5.
    pose proof (Hloc 0 0 (-1)) as H6. pose proof (Hloc 0 0 0) as H7.
    replace (x + -1) with (x - 1) in * by ring. replace (y + -1) with (y - 1) in * by ring.
    replace (z + -1) with (z - 1) in * by ring.
    replace (x + 0) with x in * by ring. replace (y + 0) with y in * by ring. replace (z + 0) with z in * by ring.
    rewrite H0, H1, H2, H3, H4, H5, H6, H7 by auto. reflexivity.
  Qed.

  Definition consistent3 (st : state3) : Prop := forall p, in_pmf3 p -> dv3 st p = div_value3 st p.

  (* a sequence of point updates with values v(q): the result at p is v(p) if p was visited, else unchanged *)
  Lemma fold_upd3 (v : ix3 -> T) l : forall D p,
    (In p l -> fold_left (fun D q => upd3 D q (v q)) l D p = v p) /\
    (~ In p l -> fold_left (fun D q => upd3 D q (v q)) l D p = D p).
  Proof.
    induction l as [|q l IH]; intros D p; cbn [fold_left].
    - split; [intros []|auto].
    - destruct (IH (upd3 D q (v q)) p) as [IH1 IH2].
      destruct (in_dec ix3_dec p l) as [Hin|Hnin].
      + split; [intros _; apply IH1; auto | intros Hn; exfalso; apply Hn; right; auto].
      + split.
        * intros [->|Hin]; [|contradiction]. rewrite IH2 by auto. apply upd3_same.
        * intros Hn. rewrite IH2 by auto. apply upd3_other. intros ->. apply Hn. left; auto.
  Qed.

  Lemma arrive3_consistent st e : in_grad3 (fst e) -> consistent3 st -> consistent3 (arrive3 O sc sm sh st e).
  Proof.
    intros Hb Hc p Hp. destruct e as [b f]. cbn [fst snd] in *.
    unfold arrive3; cbn [fst snd dv3].
    change (div_value3 (mkState3 (gsum3 (acc_force3 O st b f)) (gcnt3 (acc_force3 O st b f)) _) p)
      with (div_value3 (acc_force3 O st b f) p).
    rewrite udn3_spec by auto.
    destruct (fold_upd3 (div_value3 (acc_force3 O st b f)) (nb3 b) (dv3 (acc_force3 O st b f)) p) as [F1 F2].
    destruct (in_dec ix3_dec p (nb3 b)) as [Hin|Hnin].
    - apply F1; auto.
    - rewrite F2 by auto. unfold acc_force3 at 1; cbn [dv3]. rewrite (Hc p Hp). symmetry.
      apply div_value3_local; auto.
  Qed.

  Lemma run3_consistent h st : Forall (fun e => in_grad3 (fst e)) h -> consistent3 st ->
    consistent3 (run3 O sc sm sh st h).
  Proof.
    revert st. induction h as [|e h IH]; intros st Hh Hc; cbn [run3 fold_left]; auto.
    inversion Hh as [|e' h' He Hh']; subst. apply IH; auto. apply arrive3_consistent; auto.
  Qed.

  Lemma in_all_ix3 p : In p (all_ix3 sh) <-> in_pmf3 p.
  Proof.
    unfold all_ix3, in_pmf3, i3x, i3y, i3z. rewrite in_flat_map. split.
    - intros [i [Hi Hin]]. apply in_flat_map in Hin. destruct Hin as [j [Hj Hin]].
      apply in_map_iff in Hin. destruct Hin as [k [<- Hk]].
      apply in_zrange in Hi. apply in_zrange in Hj. apply in_zrange in Hk. cbn [fst snd]. lia.
    - intros [H1 [H2 H3]]. destruct p as [[x y] z]. cbn [fst snd] in *.
      exists x. split; [apply in_zrange; lia|]. apply in_flat_map.
      exists y. split; [apply in_zrange; lia|]. apply in_map_iff.
      exists z. split; [reflexivity | apply in_zrange; lia].
  Qed.

  Lemma fold_udl3_eq st l D : (forall q, In q l -> in_pmf3 q) ->
    fold_left (update_div_local3 O sc sm sh st) l D = fold_left (fun D q => upd3 D q (div_value3 st q)) l D.
  Proof.
    revert D. induction l as [|q l IH]; intros D Hl; cbn [fold_left]; auto.
    rewrite udl3_spec by (apply Hl; left; auto). apply IH. intros q' Hq'. apply Hl; right; auto.
  Qed.

  Lemma set_div3_spec st p : in_pmf3 p -> dv3 (set_div3 O sc sm sh st) p = div_value3 st p.
  Proof.
    intros Hp. unfold set_div3; cbn [dv3].
    rewrite fold_udl3_eq by (intros q Hq; apply in_all_ix3; auto).
    apply (fold_upd3 (div_value3 st) (all_ix3 sh)). apply in_all_ix3; auto.
  Qed.

  Lemma set_div3_consistent st : consistent3 (set_div3 O sc sm sh st).
  Proof. intros p Hp. rewrite set_div3_spec by auto. reflexivity. Qed.

  Lemma incremental_eq_batch3 st h : Forall (fun e => in_grad3 (fst e)) h -> consistent3 st ->
    dump3 sh (dv3 (run3 O sc sm sh st h)) = dump3 sh (dv3 (set_div3 O sc sm sh (run3 O sc sm sh st h))).
  Proof.
    intros Hh Hc. unfold dump3. apply map_ext_in. intros p Hp. apply in_all_ix3 in Hp.
    rewrite set_div3_spec by auto. apply run3_consistent; auto.
  Qed.
End Inc3.

(* ================================================================== corollaries used by the property file *)
Section Corollaries.
  Context {T : Type} (O : NumOps T) (sc : smooth_cfg) (sm : bool).

  (* after set_div (data read at start-up, then set_div) the state is consistent, whatever it was before *)
  Lemma incremental_eq_batch2_after_set_div (sh : shape2 (T:=T)) st0 pre h :
    0 < nxg sh -> 0 < nyg sh -> Forall (fun e => in_grad2 sh (fst e)) h ->
    let st1 := set_div2 O sc sm sh (preload2 O st0 pre) in
    dump2 sh (dv2 (run2 O sc sm sh st1 h)) = dump2 sh (dv2 (set_div2 O sc sm sh (run2 O sc sm sh st1 h))).
  Proof.
    intros Hx Hy Hh st1. apply incremental_eq_batch2; auto.
    intros p Hp. unfold st1. rewrite set_div2_spec by auto. reflexivity.
  Qed.

  Lemma incremental_eq_batch3_after_set_div (sh : shape3 (T:=T)) st0 pre h :
    0 < mxg sh -> 0 < myg sh -> 0 < mzg sh -> Forall (fun e => in_grad3 sh (fst e)) h ->
    let st1 := set_div3 O sc sm sh (preload3 O st0 pre) in
    dump3 sh (dv3 (run3 O sc sm sh st1 h)) = dump3 sh (dv3 (set_div3 O sc sm sh (run3 O sc sm sh st1 h))).
  Proof.
    intros Hx Hy Hz Hh st1. apply incremental_eq_batch3; auto.
    intros p Hp. unfold st1. rewrite set_div3_spec by auto. reflexivity.
  Qed.
End Corollaries.

(* a rational instance of the carrier (results kept in lowest terms), used only to compute
   non-vacuity examples inside Coq *)
(* ================================================================== the call site in colvarbias_abf::update() *)
Section AbfSiteProofs.
  Context {T : Type} (O : NumOps T) (sc : smooth_cfg) (sm : bool).

  Lemma in_grid2b_spec (sh : shape2 (T:=T)) b : in_grid2b sh b = true -> in_grad2 sh b.
  Proof.
    unfold in_grid2b, in_grad2. rewrite !andb_true_iff, !Z.leb_le, !Z.ltb_lt. intros [[[H1 H2] H3] H4]. lia.
  Qed.
  Lemma in_grid3b_spec (sh : shape3 (T:=T)) b : in_grid3b sh b = true -> in_grad3 sh b.
  Proof.
    unfold in_grid3b, in_grad3. rewrite !andb_true_iff, !Z.leb_le, !Z.ltb_lt. intros [[[[[H1 H2] H3] H4] H5] H6]. lia.
  Qed.

  Lemma abf_run2_consistent (sh : shape2 (T:=T)) same l : 0 < nxg sh -> 0 < nyg sh -> forall st0,
    consistent2 O sc sm sh st0 -> consistent2 O sc sm sh (abf_run2 O sc sm true sh same st0 l).
  Proof.
    intros Hx Hy st0 Hc. unfold abf_run2.
    assert (G : forall l s, consistent2 O sc sm sh (fst (fst s)) ->
                consistent2 O sc sm sh (fst (fst (fold_left (abf_site2 O sc sm true sh same) l s)))).
    { clear - Hx Hy. intros l. induction l as [|e l IH]; intros s Hs; [exact Hs|]. cbn [fold_left]. apply IH.
      unfold abf_site2. cbn [fst snd].
      destruct ((negb (snd s) || same) && in_grid2b sh (if same then fst e else snd (fst s))) eqn:E; [|exact Hs].
      apply andb_true_iff in E. destruct E as [_ E]. apply in_grid2b_spec in E.
      apply (arrive2_consistent O sc sm sh Hx Hy (fst (fst s)) ((if same then fst e else snd (fst s)), snd e)); auto. }
    apply G. exact Hc.
  Qed.

  Lemma abf_run3_consistent (sh : shape3 (T:=T)) same l : 0 < mxg sh -> 0 < myg sh -> 0 < mzg sh -> forall st0,
    consistent3 O sc sm sh st0 -> consistent3 O sc sm sh (abf_run3 O sc sm true sh same st0 l).
  Proof.
    intros Hx Hy Hz st0 Hc. unfold abf_run3.
    assert (G : forall l s, consistent3 O sc sm sh (fst (fst s)) ->
                consistent3 O sc sm sh (fst (fst (fold_left (abf_site3 O sc sm true sh same) l s)))).
    { clear - Hx Hy Hz. intros l. induction l as [|e l IH]; intros s Hs; [exact Hs|]. cbn [fold_left]. apply IH.
      unfold abf_site3. cbn [fst snd].
      destruct ((negb (snd s) || same) && in_grid3b sh (if same then fst e else snd (fst s))) eqn:E; [|exact Hs].
      apply andb_true_iff in E. destruct E as [_ E]. apply in_grid3b_spec in E.
      apply (arrive3_consistent O sc sm sh Hx Hy Hz (fst (fst s)) ((if same then fst e else snd (fst s)), snd e)); auto. }
    apply G. exact Hc.
  Qed.

  (* incremental = batch at the call site, for every history of (bin, force) steps, same-step or lagged forces,
     including steps outside the grid *)
  Lemma abf_site_incremental_eq_batch2 (sh : shape2 (T:=T)) same st0 pre l : 0 < nxg sh -> 0 < nyg sh ->
    let st := abf_run2 O sc sm true sh same (set_div2 O sc sm sh (preload2 O st0 pre)) l in
    dump2 sh (dv2 st) = dump2 sh (dv2 (set_div2 O sc sm sh st)).
  Proof.
    intros Hx Hy. cbv zeta. unfold dump2. apply map_ext_in. intros p Hp. apply (in_all_ix2 sh) in Hp.
    rewrite set_div2_spec by auto. apply abf_run2_consistent; auto. apply set_div2_consistent; auto.
  Qed.

  Lemma abf_site_incremental_eq_batch3 (sh : shape3 (T:=T)) same st0 pre l : 0 < mxg sh -> 0 < myg sh -> 0 < mzg sh ->
    let st := abf_run3 O sc sm true sh same (set_div3 O sc sm sh (preload3 O st0 pre)) l in
    dump3 sh (dv3 st) = dump3 sh (dv3 (set_div3 O sc sm sh st)).
  Proof.
    intros Hx Hy Hz. cbv zeta. unfold dump3. apply map_ext_in. intros p Hp. apply (in_all_ix3 sh) in Hp.
    rewrite set_div3_spec by auto. apply abf_run3_consistent; auto. apply set_div3_consistent; auto.
  Qed.
End AbfSiteProofs.

From Coq Require Import QArith Qround.
Definition Qops : NumOps Q :=
  mkNumOps Q 0%Q 1%Q (fun a b => Qred (a + b)) (fun a b => Qred (a - b)) (fun a b => Qred (a * b))
           (fun a b => Qred (a / b)) (fun a => Qred (- a))
           (fun x => x) (fun x => x) (fun x => x) (fun x => x) (fun x => x) (fun x => x)
           (fun x _ => x) (fun x _ => x) inject_Z Qfloor
           (fun a b => negb (Qle_bool b a)) Qle_bool Qeq_bool.

