(* Semantic layer of the scripting model: on top of the object sets of ScriptModel.v, the numbers the module holds after a
   step (per variable: value, applied force, total force, atoms, collected gradients; per bias: energy; module: step number,
   total bias energy, the proxy-side atom arrays) and the bodies of the QUERY commands as projections of that state.
   The numbers are not computed by this model (that is the subject of other properties): a step REPLACES them by the
   observation of the engine-side / internal arrays of that step; what is modelled is which command returns which component,
   which commands leave everything alone, which ones change flags (getgradients / set collect_gradient), and which ones make
   the numbers unknown until the next step.   T is the type of a number (never operated on).   Definitions only. *)
From Coq Require Import ZArith List Bool String Ascii Arith.
From CV Require Import C20.ScriptModel.
Import ListNotations.
Local Open Scope string_scope.

(* the argument of `cvcflags`: `while (is >> flag) flags.push_back(flag != 0)` with int flag.  Tokens of 1..9 digits with an optional
   sign, separated by white space; anything else (and a number that does not fit) ends the list *)
Definition is_digit (c : ascii) : bool := let n := nat_of_ascii c in (48 <=? n)%nat && (n <=? 57)%nat.
Definition is_space (c : ascii) : bool := let n := nat_of_ascii c in (n =? 32)%nat || ((9 <=? n)%nat && (n <=? 13)%nat).
Definition is_sign (c : ascii) : bool := let n := nat_of_ascii c in (n =? 43)%nat || (n =? 45)%nat.
Definition tok_ok (nd : nat) : bool := (0 <? nd)%nat && (nd <=? 9)%nat.
Fixpoint pflags (s : string) (tok : option (bool * nat)) : list bool :=
  match s with
  | EmptyString => match tok with Some (nz, nd) => if tok_ok nd then [nz] else [] | None => [] end
  | String c r =>
      if is_digit c then
        match tok with
        | Some (nz, nd) => pflags r (Some (nz || negb (nat_of_ascii c =? 48)%nat, S nd))
        | None => pflags r (Some (negb (nat_of_ascii c =? 48)%nat, 1%nat))
        end
      else if is_space c then
        match tok with
        | Some (nz, nd) => if tok_ok nd then nz :: pflags r None else []
        | None => pflags r None
        end
      else if is_sign c then
        match tok with
        | None => pflags r (Some (false, 0%nat))
        | Some (nz, nd) => if tok_ok nd then [nz] else []
        end
      else match tok with Some (nz, nd) => if tok_ok nd then [nz] else [] | None => [] end
  end.
Definition parse_flags (s : string) : list bool := pflags s None.

(* colvar::update_cvc_flags at the next calc(): pending flags replace the current ones; if none is set the components are all
   switched off, the update fails and the flags stay pending *)
Definition apply_pending (cur : list bool) (p : option (list bool)) : list bool * option (list bool) :=
  match p with
  | None => (cur, None)
  | Some f => if existsb (fun b => b) f then (f, None) else (f, Some f)
  end.
(* colvar::set_cvc_flags: refused unless there is one flag per component; otherwise it replaces whatever was pending *)
Definition set_pending (cur : list bool) (p : option (list bool)) (f : list bool) : option (list bool) * bool :=
  if (List.length f =? List.length cur)%nat then (Some f, true) else (p, false).

(* colvarparse::to_lower_cppstr *)
Definition lower_ascii (c : ascii) : ascii :=
  let n := nat_of_ascii c in if (65 <=? n)%nat && (n <=? 90)%nat then ascii_of_nat (n + 32) else c.
Fixpoint lower (s : string) : string :=
  match s with EmptyString => EmptyString | String c r => String (lower_ascii c) (lower r) end.

(* the dependency state of one object as the script sees it: feature description -> (available, enabled) *)
Definition featmap : Type := list (string * (bool * bool)).

Section Sem.
  Context {T : Type}.
  Definition vec : Type := (T * T * T)%type.

  Record cvdata := mk_cvdata {
    cd_value : T; cd_af : T; cd_tf : T;
    cd_active : bool;             (* the variable was computed at that step (feature "active") *)
    cd_atoms : list Z;            (* sorted ids of the atoms of all groups (colvar::get_atom_lists) *)
    cd_grads : list vec;          (* colvar::atomic_gradients as collected at that step *)
    cd_cvcs : list bool;          (* which components are enabled *)
    cd_contrib : list T }.        (* sup_coeff * value of every component *)
  Record cvsem := mk_cvsem {
    cs_data : option cvdata;      (* None: not known (new variable, or a state-changing body ran since the last step) *)
    cs_collect : bool;            (* feature collect_gradient enabled *)
    cs_valid : option bool;       (* gradients collected since the feature was enabled (None: not known, e.g. after a failed step or `update`) *)
    cs_cvcs : option (list bool); (* enabled flags of the components (None: not known) *)
    cs_pending : option (list bool) }.   (* colvar::cvc_flags: flags waiting for the next calc() *)
  Record moddata := mk_moddata {
    md_step : Z; md_energy : T;
    md_ids : list Z; md_masses : list T; md_charges : list T;
    md_pos : list vec; md_af : list vec; md_tf : list vec;
    md_feat : list (string * featmap) }.   (* features of every object ("c:<variable>" / "b:<bias>"); [] = not known any more *)
  Record sem := mk_sem {
    sm_objs : mstate;
    sm_cv : list (string * cvsem);
    sm_bias : list (string * option T);
    sm_mod : option moddata }.
  Record obs := mk_obs { ob_ok : bool;  (* the step returned without error (a failing step stops before some variables are updated) *)
                         ob_mod : moddata; ob_cv : list (string * cvdata); ob_bias : list (string * T) }.

  Inductive qresult :=
  | QErr                      (* the call answers with an error *)
  | QOk                       (* no claim about the answer (not modelled, or the numbers are not known at this point) *)
  | QReal (x : T)             (* a number printed with cv_prec digits *)
  | QReal6 (x : T)            (* a number printed with the default stream precision *)
  | QInt (z : Z) | QInts (l : list Z)
  | QVecs (l : list vec) | QReals6 (l : list T)
  | QNames (l : list string).

  Fixpoint alookup {A} (n : string) (l : list (string * A)) : option A :=
    match l with [] => None | (m, a) :: r => if String.eqb m n then Some a else alookup n r end.
  Fixpoint aset {A} (n : string) (a : A) (l : list (string * A)) : list (string * A) :=
    match l with [] => [] | (m, b) :: r => if String.eqb m n then (m, a) :: r else (m, b) :: aset n a r end.

  Definition fresh_cv : cvsem := mk_cvsem None false (Some false) None None.

  (* are gradients available after a step?  requested + (already there, or the step ran through and the variable is active) *)
  Definition step_valid (ok : bool) (c : cvsem) (d : option cvdata) : option bool :=
    if cs_collect c then
      match cs_valid c with
      | Some true => Some true
      | v => if ok then match d with
                        | Some x => if cd_active x then Some true else v
                        | None => None
                        end
             else None
      end
    else Some false.

  (* after a structural command: keep what is known about the objects that remain, new objects are fresh *)
  Definition resync (st : sem) (objs : mstate) : sem :=
    mk_sem objs
      (map (fun n => (n, match alookup n (sm_cv st) with Some c => c | None => fresh_cv end)) (st_cvs objs))
      (map (fun b => (fst b, match alookup (fst b) (sm_bias st) with Some e => e | None => None end)) (st_biases objs))
      None.

  (* a body that may change numbers ran: nothing is known until the next step (flags stay) *)
  Definition invalidate (st : sem) : sem :=
    mk_sem (sm_objs st) (map (fun p => (fst p, mk_cvsem None (cs_collect (snd p)) (cs_valid (snd p)) (cs_cvcs (snd p)) (cs_pending (snd p)))) (sm_cv st))
           (map (fun p => (fst p, None)) (sm_bias st)) None.

  (* component flags after a step: pending flags are applied by the calc() of an active variable; a variable whose flags are not
     known takes the observed ones; after a step that failed nothing is known *)
  Definition step_cvcs (ok : bool) (c : cvsem) (d : option cvdata) : option (list bool) * option (list bool) :=
    match d with
    | None => (cs_cvcs c, cs_pending c)
    | Some x =>
        if negb ok then (None, None)
        else if negb (cd_active x) then (cs_cvcs c, cs_pending c)
        else match cs_cvcs c with
             | None => (Some (cd_cvcs x), None)
             | Some cur => let (a, p) := apply_pending cur (cs_pending c) in (Some a, p)
             end
    end.

  (* one step: the numbers are replaced by the observation of that step; gradients are collected where requested *)
  Definition sem_step (st : sem) (ob : obs) : sem :=
    mk_sem (sm_objs st)
      (map (fun p => let d := alookup (fst p) (ob_cv ob) in
                     (fst p, mk_cvsem d (cs_collect (snd p)) (step_valid (ob_ok ob) (snd p) d)
                                      (fst (step_cvcs (ob_ok ob) (snd p) d)) (snd (step_cvcs (ob_ok ob) (snd p) d))))
           (sm_cv st))
      (map (fun p => (fst p, alookup (fst p) (ob_bias ob))) (sm_bias st))
      (Some (ob_mod ob)).

  Definition with_cv (st : sem) (n : string) (f : cvdata -> qresult) : qresult :=
    match alookup n (sm_cv st) with
    | Some c => match cs_data c with Some d => f d | None => QOk end
    | None => QOk
    end.
  Definition with_mod (st : sem) (f : moddata -> qresult) : qresult :=
    match sm_mod st with Some m => f m | None => QOk end.

  (* a feature was switched by the call (set, getgradients enabling collect_gradient on demand): enabling or disabling one
     feature changes others through the dependency engine (C13), so the feature states are unknown until the next step *)
  Definition drop_feat (st : sem) : sem :=
    match sm_mod st with
    | Some m => mk_sem (sm_objs st) (sm_cv st) (sm_bias st)
                  (Some (mk_moddata (md_step m) (md_energy m) (md_ids m) (md_masses m) (md_charges m) (md_pos m) (md_af m) (md_tf m) []))
    | None => st
    end.

  (* colvarscript::proc_features, sub-command `get`: the feature whose description is the lower-cased argument; unknown or
     unavailable: error; otherwise 1/0.  collect_gradient is known from the flags; collect_atom_ids is switched on by getatomids
     behind the model's back: no claim *)
  Definition feature_query (st : sem) (key f : string) (collect : option bool) : qresult :=
    let lf := lower f in
    if String.eqb lf "collect_atom_ids" then QOk
    else if String.eqb lf "collect_gradient" then match collect with Some b => QInt (if b then 1 else 0)%Z | None => QOk end
    else with_mod st (fun m =>
           match alookup key (md_feat m) with
           | None => QOk
           | Some fm => match alookup lf fm with
                        | None => QErr
                        | Some (av, en) => if av then QInt (if en then 1 else 0)%Z else QErr
                        end
           end).

  (* commands that read: name of the function -> what they return.  obj = the object name, arg = first argument if any *)
  Definition pure_query (st : sem) (fn obj : string) (arg : option string) : option qresult :=
    if String.eqb fn "colvar_value" then Some (with_cv st obj (fun d => QReal (cd_value d)))
    else if String.eqb fn "colvar_getappliedforce" then Some (with_cv st obj (fun d => QReal (cd_af d)))
    else if String.eqb fn "colvar_gettotalforce" then Some (with_cv st obj (fun d => QReal (cd_tf d)))
    else if String.eqb fn "colvar_getatomids" then Some (with_cv st obj (fun d => QInts (cd_atoms d)))
    else if String.eqb fn "bias_energy" then
      Some (match alookup obj (sm_bias st) with Some (Some e) => QReal6 e | _ => QOk end)
    else if String.eqb fn "cv_getenergy" then Some (with_mod st (fun m => QReal6 (md_energy m)))
    else if String.eqb fn "cv_getstepabsolute" then Some (with_mod st (fun m => QInt (md_step m)))
    else if String.eqb fn "cv_getnumatoms" then Some (with_mod st (fun m => QInt (Z.of_nat (List.length (md_ids m)))))
    else if String.eqb fn "cv_getatomids" then Some (with_mod st (fun m => QInts (md_ids m)))
    else if String.eqb fn "cv_getatommasses" then Some (with_mod st (fun m => QReals6 (md_masses m)))
    else if String.eqb fn "cv_getatomcharges" then Some (with_mod st (fun m => QReals6 (md_charges m)))
    else if String.eqb fn "cv_getatompositions" then Some (with_mod st (fun m => QVecs (md_pos m)))
    else if String.eqb fn "cv_getatomappliedforces" then Some (with_mod st (fun m => QVecs (md_af m)))
    else if String.eqb fn "cv_getatomtotalforces" then Some (with_mod st (fun m => QVecs (md_tf m)))
    else if String.eqb fn "cv_list" then
      Some (match arg with
            | None => QNames (st_cvs (sm_objs st))
            | Some a => if String.eqb a "colvars" then QNames (st_cvs (sm_objs st))
                        else if String.eqb a "biases" then QNames (bias_names (sm_objs st)) else QErr
            end)
    else None.

  (* bodies that answer without touching any number or flag, text not modelled *)
  Definition inert (fn : string) : bool :=
    existsb (String.eqb fn)
      ["cv_version"; "cv_units"; "cv_help"; "cv_listcommands"; "cv_listindexfiles"; "cv_listinputfiles"; "cv_getconfig";
       "cv_languageversion"; "cv_patchversion"; "cv_featurereport"; "cv_printframe"; "cv_printframelabels"; "cv_savetostring";
       "cv_getsteprelative"; "cv_getnumactiveatoms"; "cv_getnumactiveatomgroups"; "cv_getatomappliedforcesmax";
       "cv_getatomappliedforcesrms"; "cv_getatomappliedforcesmaxid"; "cv_molid"; "cv_frame"; "cv_delete";
       "colvar_type"; "colvar_width"; "colvar_help"; "colvar_getconfig"; "colvar_getatomgroups"; "colvar_getvolmapids";
       "colvar_state"; "colvar_run_ave";
       "bias_type"; "bias_getconfig"; "bias_help"; "bias_state"; "bias_savetostring";
       "bias_save"].
  (* the biases of this model are harmonic restraints: no grid, no replicas - these bodies can only report that *)
  Definition grid_only (fn : string) : bool :=
    existsb (String.eqb fn) ["bias_bin"; "bias_bincount"; "bias_binnum"; "bias_local_sample_count"; "bias_share"].

  Definition set_flags (st : sem) (n : string) (c : bool) (v : option bool) : sem :=
    match alookup n (sm_cv st) with
    | Some cs => mk_sem (sm_objs st) (aset n (mk_cvsem (cs_data cs) c v (cs_cvcs cs) (cs_pending cs)) (sm_cv st)) (sm_bias st) (sm_mod st)
    | None => st
    end.

  Definition set_cvcs (st : sem) (n : string) (a p : option (list bool)) : sem :=
    match alookup n (sm_cv st) with
    | Some cs => mk_sem (sm_objs st) (aset n (mk_cvsem (cs_data cs) (cs_collect cs) (cs_valid cs) a p) (sm_cv st)) (sm_bias st) (sm_mod st)
    | None => st
    end.

  Definition truthy (s : string) : option bool :=
    if String.eqb s "yes" || String.eqb s "on" || String.eqb s "1" then Some true
    else if String.eqb s "no" || String.eqb s "off" || String.eqb s "0" then Some false else None.

  (* the body of a command that the structural model leaves alone *)
  Definition body_sem (st : sem) (e : cmd_entry) (words : list string) : sem * qresult :=
    let fn := e_name e in
    let obj := nth 2 words "" in
    match pure_query st fn obj (nth_error words 2) with
    | Some r => (st, r)
    | None =>
      if inert fn then (st, QOk)
      else if grid_only fn then (st, QErr)
      else if String.eqb fn "colvar_get" then
        (st, feature_query st ("c:" ++ obj) (nth 4 words "")
               (match alookup obj (sm_cv st) with Some cs => Some (cs_collect cs) | None => None end))
      else if String.eqb fn "bias_get" then (st, feature_query st ("b:" ++ obj) (nth 4 words "") None)
      else if String.eqb fn "colvar_getgradients" then
        match alookup obj (sm_cv st) with
        | None => (st, QOk)
        | Some cs =>
          if negb (cs_collect cs) then (drop_feat (set_flags st obj true (Some false)), QErr)      (* enabled on demand; nothing collected yet *)
          else match cs_valid cs with
               | Some false => (st, QErr)
               | Some true => (st, match cs_data cs with Some d => QVecs (cd_grads d) | None => QOk end)
               | None => (st, QOk)
               end
        end
      else if String.eqb fn "colvar_set" && String.eqb (nth 4 words "") "collect_gradient" then
        match alookup obj (sm_cv st), truthy (nth 5 words "") with
        | Some cs, Some true => (if cs_collect cs then st else drop_feat (set_flags st obj true (Some false)), QOk)
        | Some cs, Some false => (drop_feat (set_flags st obj false (Some false)), QOk)
        | _, _ => (st, QErr)
        end
      else if String.eqb fn "colvar_cvcflags" then
        (* the flags are only stored: nothing changes before the next calc() of the variable; the last accepted command wins *)
        match alookup obj (sm_cv st) with
        | None => (st, QOk)
        | Some cs =>
          match cs_cvcs cs with
          | Some cur => let (p, ok) := set_pending cur (cs_pending cs) (parse_flags (nth 4 words "")) in
                        (set_cvcs st obj (Some cur) p, if ok then QInt 0 else QErr)
          | None => (set_cvcs st obj None None, QOk)
          end
        end
      else if String.eqb fn "colvar_update" then
        (* recomputes this variable (gradients are collected again if requested): numbers and availability unknown *)
        (match alookup obj (sm_cv st) with
         | Some cs => set_cvcs (set_flags (invalidate st) obj (cs_collect cs) (if cs_collect cs then None else Some false)) obj None None
         | None => invalidate st
         end, QOk)
      else if String.eqb fn "cv_update" then
        (let st' := invalidate st in
         mk_sem (sm_objs st') (map (fun p => (fst p, mk_cvsem None (cs_collect (snd p)) (if cs_collect (snd p) then None else Some false) None None)) (sm_cv st'))
                (sm_bias st') (sm_mod st'), QOk)
      else (invalidate st, QOk)       (* any other body: may change numbers; its own answer is not modelled *)
    end.

  Section ExecSem.
    Variable tbl : list cmd_entry.
    Variable parse_conf : string -> option (list decl).
    Variable read_file : string -> option string.

    Definition exec_sem (st : sem) (words : list string) : sem * outcome * qresult :=
      let '(objs', o, c) := exec tbl parse_conf read_file (sm_objs st) words in
      match o with
      | Run k e ex =>
          match c with
          | BOk => (resync st objs', o, QOk)
          | BErr => (resync st objs', o, QErr)
          | BUnknown => let (st', r) := body_sem st e words in (st', o, r)
          end
      | _ => (st, o, QErr)
      end.

    Inductive sevent := SCmd (words : list string) | SStep (ob : obs) | SConfig (text : string).
    Definition do_sevent (st : sem) (ev : sevent) : sem :=
      match ev with
      | SCmd w => fst (fst (exec_sem st w))
      | SStep ob => sem_step st ob
      | SConfig t => resync st (fst (apply_conf parse_conf (sm_objs st) t))
      end.
    Definition run_sevents (st : sem) (evs : list sevent) : sem := fold_left do_sevent evs st.
  End ExecSem.

  (* colvar::calc_cvc_values for a linear combination: the contributions of the enabled components, in order *)
  Fixpoint combine (add : T -> T -> T) (acc : T) (contrib : list T) (flags : list bool) : T :=
    match contrib, flags with
    | c :: cr, f :: fr => combine add (if f then add acc c else acc) cr fr
    | _, _ => acc
    end.

  (* the data are about the objects that exist, in the same order *)
  Definition sem_wf (st : sem) : Prop :=
    map fst (sm_cv st) = st_cvs (sm_objs st) /\ map fst (sm_bias st) = bias_names (sm_objs st).
End Sem.
