From Coq Require Import ZArith List Bool String Lia.
From CV Require Import C20.ScriptModel.
Import ListNotations.
Local Open Scope string_scope.
Local Open Scope Z_scope.

Lemma lookup_some tbl n e : lookup tbl n = Some e -> In e tbl /\ e_name e = n.
Proof.
  induction tbl as [|a r IH]; cbn [lookup]; [discriminate|].
  destruct (String.eqb (e_name a) n) eqn:E.
  - intros H; injection H as <-. split; [left; reflexivity | apply String.eqb_eq; exact E].
  - intros H. destruct (IH H) as [H1 H2]. split; [right; exact H1 | exact H2].
Qed.

Lemma lookup_none tbl n : lookup tbl n = None <-> ~ In n (map e_name tbl).
Proof.
  induction tbl as [|a r IH]; cbn [lookup map]; [split; auto|].
  destruct (String.eqb (e_name a) n) eqn:E.
  - apply String.eqb_eq in E. split; [discriminate | intros H; exfalso; apply H; left; exact E].
  - apply String.eqb_neq in E. rewrite IH. split; intros H.
    + intros [H1|H1]; [apply E; exact H1 | apply H; exact H1].
    + intros H1. apply H. right. exact H1.
Qed.

Lemma mem_str_in s l : mem_str s l = true <-> In s l.
Proof.
  unfold mem_str. rewrite existsb_exists. split.
  - intros [x [Hin He]]. apply String.eqb_eq in He. subst; exact Hin.
  - intros H. exists s. split; [exact H | apply String.eqb_refl].
Qed.

Lemma nodup_names_NoDup l : nodup_names l = true -> NoDup l.
Proof.
  induction l as [|a r IH]; cbn [nodup_names]; intros H; [constructor|].
  apply andb_true_iff in H as [H1 H2]. constructor; [|apply IH; exact H2].
  intros Hin. apply mem_str_in in Hin. rewrite Hin in H1. discriminate.
Qed.

(* in a well-formed table every entry is found under its own name *)
Lemma lookup_wf tbl e : table_wf tbl = true -> In e tbl -> lookup tbl (e_name e) = Some e.
Proof.
  unfold table_wf. intros H. apply andb_true_iff in H as [_ H]. apply nodup_names_NoDup in H.
  induction tbl as [|a r IH]; intros Hin; [destruct Hin|].
  cbn [map] in H. inversion H as [|? ? Hnot Hnd]; subst.
  cbn [lookup]. destruct Hin as [->|Hin].
  - rewrite String.eqb_refl. reflexivity.
  - destruct (String.eqb (e_name a) (e_name e)) eqn:E.
    + apply String.eqb_eq in E. exfalso. apply Hnot. rewrite E. apply in_map. exact Hin.
    + apply IH; auto.
Qed.

(* ---- specification of the dispatcher, as close to the documentation as possible ---- *)
Definition nargs_ok (k : objkind) (e : cmd_entry) (objc : Z) : Prop :=
  shift_of k + e_min e <= objc <= shift_of k + e_max e.

Inductive runs (tbl : list cmd_entry) (colvars biases : list string) : list string -> objkind -> cmd_entry -> bool -> Prop :=
| runs_module main cmd rest e :
    cmd <> "colvar" -> cmd <> "bias" -> lookup tbl ("cv_" ++ cmd) = Some e ->
    nargs_ok OModule e (Z.of_nat (List.length (main :: cmd :: rest))) ->
    runs tbl colvars biases (main :: cmd :: rest) OModule e true
| runs_colvar main name sub rest e :
    (In name colvars \/ sub = "help") -> lookup tbl ("colvar_" ++ sub) = Some e ->
    nargs_ok OColvar e (Z.of_nat (List.length (main :: "colvar" :: name :: sub :: rest))) ->
    runs tbl colvars biases (main :: "colvar" :: name :: sub :: rest) OColvar e (mem_str name colvars)
| runs_bias main name sub rest e :
    (In name biases \/ sub = "help") -> lookup tbl ("bias_" ++ sub) = Some e ->
    nargs_ok OBias e (Z.of_nat (List.length (main :: "bias" :: name :: sub :: rest))) ->
    runs tbl colvars biases (main :: "bias" :: name :: sub :: rest) OBias e (mem_str name biases).

Lemma check_nargs_run k e objc ex k' e' ex' :
  check_nargs k e objc ex = Run k' e' ex' <-> (k' = k /\ e' = e /\ ex' = ex /\ nargs_ok k e objc).
Proof.
  unfold check_nargs, nargs_ok.
  destruct (objc <? shift_of k + e_min e) eqn:E1; [split; [discriminate | intros (_ & _ & _ & H); lia]|].
  destruct (shift_of k + e_max e <? objc) eqn:E2; [split; [discriminate | intros (_ & _ & _ & H); lia]|].
  split.
  - intros H; injection H as <- <- <-. repeat split; lia.
  - intros (-> & -> & -> & _). reflexivity.
Qed.

Lemma dispatch_obj_run tbl k names words k' e ex :
  dispatch_obj tbl k names words = Run k' e ex <->
  exists main c name sub rest, words = main :: c :: name :: sub :: rest /\ k' = k /\
    (In name names \/ sub = "help") /\ lookup tbl (prefix_of k ++ sub) = Some e /\
    nargs_ok k e (Z.of_nat (List.length words)) /\ ex = mem_str name names.
Proof.
  unfold dispatch_obj.
  destruct words as [|main [|c [|name [|sub rest]]]];
    try (split; [discriminate | intros (? & ? & ? & ? & ? & H & _); discriminate]).
  destruct (mem_str name names) eqn:Em.
  - cbn [negb andb].
    destruct (lookup tbl (prefix_of k ++ sub)) as [e0|] eqn:El.
    + rewrite check_nargs_run. split.
      * intros (-> & -> & -> & Hn). exists main, c, name, sub, rest. repeat split; auto; try (destruct Hn; assumption).
        left. apply mem_str_in. exact Em.
      * intros (m & c' & n & s & r & Hw & -> & _ & Hl & Hn & ->). injection Hw as -> -> -> -> ->.
        rewrite El in Hl. injection Hl as ->. rewrite Em. repeat split; auto; try (destruct Hn; assumption).
    + split; [discriminate|]. intros (m & c' & n & s & r & Hw & _ & _ & Hl & _). injection Hw as -> -> -> -> ->.
      rewrite El in Hl. discriminate.
  - cbn [negb andb]. destruct (String.eqb sub "help") eqn:Eh; cbn [negb].
    + apply String.eqb_eq in Eh.
      destruct (lookup tbl (prefix_of k ++ sub)) as [e0|] eqn:El.
      * rewrite check_nargs_run. split.
        -- intros (-> & -> & -> & Hn). exists main, c, name, sub, rest. repeat split; auto; try (destruct Hn; assumption).
        -- intros (m & c' & n & s & r & Hw & -> & _ & Hl & Hn & ->). injection Hw as -> -> -> -> ->.
           rewrite El in Hl. injection Hl as ->. rewrite Em. repeat split; auto; try (destruct Hn; assumption).
      * split; [discriminate|]. intros (m & c' & n & s & r & Hw & _ & _ & Hl & _). injection Hw as -> -> -> -> ->.
        rewrite El in Hl. discriminate.
    + apply String.eqb_neq in Eh. split; [discriminate|].
      intros (m & c' & n & s & r & Hw & _ & [Hin|Hs] & _). 
      * injection Hw as -> -> -> -> ->. apply mem_str_in in Hin. rewrite Hin in Em. discriminate.
      * injection Hw as -> -> -> -> ->. contradiction.
Qed.

(* the dispatcher runs a command body exactly in the documented situations *)
Lemma dispatch_run_iff tbl colvars biases words k e ex :
  dispatch tbl colvars biases words = Run k e ex <-> runs tbl colvars biases words k e ex.
Proof.
  split.
  - unfold dispatch. destruct words as [|main [|cmd rest]]; try discriminate.
    destruct (String.eqb cmd "colvar") eqn:Ec.
    + apply String.eqb_eq in Ec; subst cmd. intros H. apply dispatch_obj_run in H.
      destruct H as (m & c & n & s & r & Hw & -> & Hor & Hl & Hn & ->). injection Hw as -> <- ->.
      apply runs_colvar; auto.
    + destruct (String.eqb cmd "bias") eqn:Eb.
      * apply String.eqb_eq in Eb; subst cmd. intros H. apply dispatch_obj_run in H.
        destruct H as (m & c & n & s & r & Hw & -> & Hor & Hl & Hn & ->). injection Hw as -> <- ->.
        apply runs_bias; auto.
      * apply String.eqb_neq in Ec. apply String.eqb_neq in Eb.
        destruct (lookup tbl (prefix_of OModule ++ cmd)) as [e0|] eqn:El; [|discriminate].
        rewrite check_nargs_run. intros (-> & -> & -> & Hn). apply runs_module; auto.
  - intros H. destruct H as [main cmd rest e Hc Hb Hl Hn | main name sub rest e Hor Hl Hn | main name sub rest e Hor Hl Hn].
    + unfold dispatch. apply String.eqb_neq in Hc. apply String.eqb_neq in Hb. rewrite Hc, Hb.
      cbn [prefix_of]. rewrite Hl. apply check_nargs_run. auto.
    + unfold dispatch. rewrite String.eqb_refl. apply dispatch_obj_run.
      exists main, "colvar", name, sub, rest. repeat split; auto; try (destruct Hn; assumption).
    + unfold dispatch. replace (String.eqb "bias" "colvar") with false by reflexivity. rewrite String.eqb_refl.
      apply dispatch_obj_run. exists main, "bias", name, sub, rest. repeat split; auto; try (destruct Hn; assumption).
Qed.

(* anything else is an error *)
Lemma dispatch_error_iff tbl colvars biases words :
  is_error (dispatch tbl colvars biases words) = true <-> ~ exists k e ex, runs tbl colvars biases words k e ex.
Proof.
  split.
  - intros H (k & e & ex & Hr). apply dispatch_run_iff in Hr. rewrite Hr in H. discriminate.
  - intros H. destruct (dispatch tbl colvars biases words) as [| | | | | |k e ex] eqn:E; try reflexivity.
    exfalso. apply H. exists k, e, ex. apply dispatch_run_iff. exact E.
Qed.

(* a command name that is not in the table is always rejected *)
Lemma unknown_module_command_rejected tbl colvars biases main cmd rest :
  cmd <> "colvar" -> cmd <> "bias" -> ~ In ("cv_" ++ cmd) (map e_name tbl) ->
  is_error (dispatch tbl colvars biases (main :: cmd :: rest)) = true.
Proof.
  intros Hc Hb Hn. apply dispatch_error_iff. intros (k & e & ex & Hr).
  inversion Hr as [m c r e0 _ _ Hl _ | |]; subst; try congruence.
  apply lookup_some in Hl. destruct Hl as [Hin He]. apply Hn. rewrite <- He. apply in_map. exact Hin.
Qed.

Lemma unknown_object_command_rejected tbl colvars biases main name sub rest :
  ~ In ("colvar_" ++ sub) (map e_name tbl) ->
  is_error (dispatch tbl colvars biases (main :: "colvar" :: name :: sub :: rest)) = true.
Proof.
  intros Hn. apply dispatch_error_iff. intros (k & e & ex & Hr).
  inversion Hr as [m c r e0 Hc _ _ _ | m n s r e0 _ Hl _ | m n s r e0 _ _ _]; subst; try congruence.
  apply lookup_some in Hl. destruct Hl as [Hin He]. apply Hn. rewrite <- He. apply in_map. exact Hin.
Qed.

(* a wrong number of arguments is always rejected *)
Lemma wrong_nargs_rejected tbl colvars biases words k e ex :
  runs tbl colvars biases words k e ex -> nargs_ok k e (Z.of_nat (List.length words)).
Proof. intros H; destruct H; auto. Qed.
