From Coq Require Import ZArith List Bool String Lia.
From CV Require Import C20.ScriptModel.
Import ListNotations.
Local Open Scope string_scope.
Local Open Scope Z_scope.

Lemma lookup_some tbl n e : lookup tbl n = Some e -> In e tbl /\ e_name e = n.
Proof.
  induction tbl as [|a r IH]; cbn [lookup]; [discriminate|].
  destruct (String.eqb (e_name a) n) eqn:E.
  - intros H; injection H as <-. split; [left; reflexivity | apply String.eqb_eq; exact E].
  - intros H. destruct (IH H) as [H1 H2]. split; [right; exact H1 | exact H2].
Qed.

Lemma lookup_none tbl n : lookup tbl n = None <-> ~ In n (map e_name tbl).
Proof.
  induction tbl as [|a r IH]; cbn [lookup map]; [split; auto|].
  destruct (String.eqb (e_name a) n) eqn:E.
  - apply String.eqb_eq in E. split; [discriminate | intros H; exfalso; apply H; left; exact E].
  - apply String.eqb_neq in E. rewrite IH. split; intros H.
    + intros [H1|H1]; [apply E; exact H1 | apply H; exact H1].
    + intros H1. apply H. right. exact H1.
Qed.

Lemma mem_str_in s l : mem_str s l = true <-> In s l.
Proof.
  unfold mem_str. rewrite existsb_exists. split.
  - intros [x [Hin He]]. apply String.eqb_eq in He. subst; exact Hin.
  - intros H. exists s. split; [exact H | apply String.eqb_refl].
Qed.

Lemma nodup_names_NoDup l : nodup_names l = true -> NoDup l.
Proof.
  induction l as [|a r IH]; cbn [nodup_names]; intros H; [constructor|].
  apply andb_true_iff in H as [H1 H2]. constructor; [|apply IH; exact H2].
  intros Hin. apply mem_str_in in Hin. rewrite Hin in H1. discriminate.
Qed.

(* in a well-formed table every entry is found under its own name *)
Lemma lookup_wf tbl e : table_wf tbl = true -> In e tbl -> lookup tbl (e_name e) = Some e.
Proof.
  unfold table_wf. intros H. apply andb_true_iff in H as [_ H]. apply nodup_names_NoDup in H.
  induction tbl as [|a r IH]; intros Hin; [destruct Hin|].
  cbn [map] in H. inversion H as [|? ? Hnot Hnd]; subst.
  cbn [lookup]. destruct Hin as [->|Hin].
  - rewrite String.eqb_refl. reflexivity.
  - destruct (String.eqb (e_name a) (e_name e)) eqn:E.
    + apply String.eqb_eq in E. exfalso. apply Hnot. rewrite E. apply in_map. exact Hin.
    + apply IH; auto.
Qed.

(* ---- specification of the dispatcher, as close to the documentation as possible ---- *)
Definition nargs_ok (k : objkind) (e : cmd_entry) (objc : Z) : Prop :=
  shift_of k + e_min e <= objc <= shift_of k + e_max e.

Inductive runs (tbl : list cmd_entry) (colvars biases : list string) : list string -> objkind -> cmd_entry -> bool -> Prop :=
| runs_module main cmd rest e :
    cmd <> "colvar" -> cmd <> "bias" -> lookup tbl ("cv_" ++ cmd) = Some e ->
    nargs_ok OModule e (Z.of_nat (List.length (main :: cmd :: rest))) ->
    runs tbl colvars biases (main :: cmd :: rest) OModule e true
| runs_colvar main name sub rest e :
    (In name colvars \/ sub = "help") -> lookup tbl ("colvar_" ++ sub) = Some e ->
    nargs_ok OColvar e (Z.of_nat (List.length (main :: "colvar" :: name :: sub :: rest))) ->
    runs tbl colvars biases (main :: "colvar" :: name :: sub :: rest) OColvar e (mem_str name colvars)
| runs_bias main name sub rest e :
    (In name biases \/ sub = "help") -> lookup tbl ("bias_" ++ sub) = Some e ->
    nargs_ok OBias e (Z.of_nat (List.length (main :: "bias" :: name :: sub :: rest))) ->
    runs tbl colvars biases (main :: "bias" :: name :: sub :: rest) OBias e (mem_str name biases).

Lemma check_nargs_run k e objc ex k' e' ex' :
  check_nargs k e objc ex = Run k' e' ex' <-> (k' = k /\ e' = e /\ ex' = ex /\ nargs_ok k e objc).
Proof.
  unfold check_nargs, nargs_ok.
  destruct (objc <? shift_of k + e_min e) eqn:E1; [split; [discriminate | intros (_ & _ & _ & H); lia]|].
  destruct (shift_of k + e_max e <? objc) eqn:E2; [split; [discriminate | intros (_ & _ & _ & H); lia]|].
  split.
  - intros H; injection H as <- <- <-. repeat split; lia.
  - intros (-> & -> & -> & _). reflexivity.
Qed.

Lemma dispatch_obj_run tbl k names words k' e ex :
  dispatch_obj tbl k names words = Run k' e ex <->
  exists main c name sub rest, words = main :: c :: name :: sub :: rest /\ k' = k /\
    (In name names \/ sub = "help") /\ lookup tbl (prefix_of k ++ sub) = Some e /\
    nargs_ok k e (Z.of_nat (List.length words)) /\ ex = mem_str name names.
Proof.
  unfold dispatch_obj.
  destruct words as [|main [|c [|name [|sub rest]]]];
    try (split; [discriminate | intros (? & ? & ? & ? & ? & H & _); discriminate]).
  destruct (mem_str name names) eqn:Em.
  - cbn [negb andb].
    destruct (lookup tbl (prefix_of k ++ sub)) as [e0|] eqn:El.
    + rewrite check_nargs_run. split.
      * intros (-> & -> & -> & Hn). exists main, c, name, sub, rest. repeat split; auto; try (destruct Hn; assumption).
        left. apply mem_str_in. exact Em.
      * intros (m & c' & n & s & r & Hw & -> & _ & Hl & Hn & ->). injection Hw as -> -> -> -> ->.
        rewrite El in Hl. injection Hl as ->. rewrite Em. repeat split; auto; try (destruct Hn; assumption).
    + split; [discriminate|]. intros (m & c' & n & s & r & Hw & _ & _ & Hl & _). injection Hw as -> -> -> -> ->.
      rewrite El in Hl. discriminate.
  - cbn [negb andb]. destruct (String.eqb sub "help") eqn:Eh; cbn [negb].
    + apply String.eqb_eq in Eh.
      destruct (lookup tbl (prefix_of k ++ sub)) as [e0|] eqn:El.
      * rewrite check_nargs_run. split.
        -- intros (-> & -> & -> & Hn). exists main, c, name, sub, rest. repeat split; auto; try (destruct Hn; assumption).
        -- intros (m & c' & n & s & r & Hw & -> & _ & Hl & Hn & ->). injection Hw as -> -> -> -> ->.
           rewrite El in Hl. injection Hl as ->. rewrite Em. repeat split; auto; try (destruct Hn; assumption).
      * split; [discriminate|]. intros (m & c' & n & s & r & Hw & _ & _ & Hl & _). injection Hw as -> -> -> -> ->.
        rewrite El in Hl. discriminate.
    + apply String.eqb_neq in Eh. split; [discriminate|].
      intros (m & c' & n & s & r & Hw & _ & [Hin|Hs] & _). 
      * injection Hw as -> -> -> -> ->. apply mem_str_in in Hin. rewrite Hin in Em. discriminate.
      * injection Hw as -> -> -> -> ->. contradiction.
Qed.

(* the dispatcher runs a command body exactly in the documented situations *)
Lemma dispatch_run_iff tbl colvars biases words k e ex :
  dispatch tbl colvars biases words = Run k e ex <-> runs tbl colvars biases words k e ex.
Proof.
  split.
  - unfold dispatch. destruct words as [|main [|cmd rest]]; try discriminate.
    destruct (String.eqb cmd "colvar") eqn:Ec.
    + apply String.eqb_eq in Ec; subst cmd. intros H. apply dispatch_obj_run in H.
      destruct H as (m & c & n & s & r & Hw & -> & Hor & Hl & Hn & ->). injection Hw as -> <- ->.
      apply runs_colvar; auto.
    + destruct (String.eqb cmd "bias") eqn:Eb.
      * apply String.eqb_eq in Eb; subst cmd. intros H. apply dispatch_obj_run in H.
        destruct H as (m & c & n & s & r & Hw & -> & Hor & Hl & Hn & ->). injection Hw as -> <- ->.
        apply runs_bias; auto.
      * apply String.eqb_neq in Ec. apply String.eqb_neq in Eb.
        destruct (lookup tbl (prefix_of OModule ++ cmd)) as [e0|] eqn:El; [|discriminate].
        rewrite check_nargs_run. intros (-> & -> & -> & Hn). apply runs_module; auto.
  - intros H. destruct H as [main cmd rest e Hc Hb Hl Hn | main name sub rest e Hor Hl Hn | main name sub rest e Hor Hl Hn].
    + unfold dispatch. apply String.eqb_neq in Hc. apply String.eqb_neq in Hb. rewrite Hc, Hb.
      cbn [prefix_of]. rewrite Hl. apply check_nargs_run. auto.
    + unfold dispatch. rewrite String.eqb_refl. apply dispatch_obj_run.
      exists main, "colvar", name, sub, rest. repeat split; auto; try (destruct Hn; assumption).
    + unfold dispatch. replace (String.eqb "bias" "colvar") with false by reflexivity. rewrite String.eqb_refl.
      apply dispatch_obj_run. exists main, "bias", name, sub, rest. repeat split; auto; try (destruct Hn; assumption).
Qed.

(* anything else is an error *)
Lemma dispatch_error_iff tbl colvars biases words :
  is_error (dispatch tbl colvars biases words) = true <-> ~ exists k e ex, runs tbl colvars biases words k e ex.
Proof.
  split.
  - intros H (k & e & ex & Hr). apply dispatch_run_iff in Hr. rewrite Hr in H. discriminate.
  - intros H. destruct (dispatch tbl colvars biases words) as [| | | | | |k e ex] eqn:E; try reflexivity.
    exfalso. apply H. exists k, e, ex. apply dispatch_run_iff. exact E.
Qed.

(* a command name that is not in the table is always rejected *)
Lemma unknown_module_command_rejected tbl colvars biases main cmd rest :
  cmd <> "colvar" -> cmd <> "bias" -> ~ In ("cv_" ++ cmd) (map e_name tbl) ->
  is_error (dispatch tbl colvars biases (main :: cmd :: rest)) = true.
Proof.
  intros Hc Hb Hn. apply dispatch_error_iff. intros (k & e & ex & Hr).
  inversion Hr as [m c r e0 _ _ Hl _ | |]; subst; try congruence.
  apply lookup_some in Hl. destruct Hl as [Hin He]. apply Hn. rewrite <- He. apply in_map. exact Hin.
Qed.

Lemma unknown_object_command_rejected tbl colvars biases main name sub rest :
  ~ In ("colvar_" ++ sub) (map e_name tbl) ->
  is_error (dispatch tbl colvars biases (main :: "colvar" :: name :: sub :: rest)) = true.
Proof.
  intros Hn. apply dispatch_error_iff. intros (k & e & ex & Hr).
  inversion Hr as [m c r e0 Hc _ _ _ | m n s r e0 _ Hl _ | m n s r e0 _ _ _]; subst; try congruence.
  apply lookup_some in Hl. destruct Hl as [Hin He]. apply Hn. rewrite <- He. apply in_map. exact Hin.
Qed.

(* a wrong number of arguments is always rejected *)
Lemma wrong_nargs_rejected tbl colvars biases words k e ex :
  runs tbl colvars biases words k e ex -> nargs_ok k e (Z.of_nat (List.length words)).
Proof. intros H; destruct H; auto. Qed.

(* ================= object class of a command; one name per command ================= *)
Lemma strip_some p s r : strip p s = Some r <-> s = p ++ r.
Proof.
  revert s. induction p as [|a p IH]; intros s; cbn [strip append].
  - split; [intros H; injection H as <-; reflexivity | intros ->; reflexivity].
  - destruct s as [|b s]; [split; discriminate|].
    destruct (Ascii.eqb a b) eqn:E.
    + apply Ascii.eqb_eq in E; subst b. rewrite IH. split; [intros ->; reflexivity | intros H; injection H as ->; reflexivity].
    + apply Ascii.eqb_neq in E. split; [discriminate | intros H; injection H as H1 _; congruence].
Qed.

Lemma strip_app p r : strip p (p ++ r) = Some r.
Proof. apply strip_some. reflexivity. Qed.

Lemma entry_class_name e k r : entry_class e = Some (k, r) -> e_name e = prefix_of k ++ r.
Proof.
  unfold entry_class.
  destruct (strip "cv_" (e_name e)) as [r1|] eqn:E1.
  - intros H; injection H as <- <-. apply strip_some. exact E1.
  - destruct (strip "colvar_" (e_name e)) as [r2|] eqn:E2.
    + intros H; injection H as <- <-. apply strip_some. exact E2.
    + destruct (strip "bias_" (e_name e)) as [r3|] eqn:E3; [|discriminate].
      intros H; injection H as <- <-. apply strip_some. exact E3.
Qed.

(* the three prefixes cannot be confused: a function name determines the object class and the command word *)
Lemma prefix_inj k1 k2 s1 s2 : prefix_of k1 ++ s1 = prefix_of k2 ++ s2 -> k1 = k2 /\ s1 = s2.
Proof.
  destruct k1, k2; cbn [prefix_of append]; intros H; try discriminate;
    (split; [reflexivity|]); repeat (injection H as H); exact H.
Qed.

Lemma entry_class_of_name e k r : e_name e = prefix_of k ++ r -> entry_class e = Some (k, r).
Proof.
  intros H. unfold entry_class. rewrite H.
  destruct k; cbn [prefix_of].
  - rewrite strip_app. reflexivity.
  - replace (strip "cv_" ("colvar_" ++ r)) with (@None string) by reflexivity.
    rewrite strip_app. reflexivity.
  - replace (strip "cv_" ("bias_" ++ r)) with (@None string) by reflexivity.
    replace (strip "colvar_" ("bias_" ++ r)) with (@None string) by reflexivity.
    rewrite strip_app. reflexivity.
Qed.

(* the word of the command line that selects the command *)
Definition cmd_word (k : objkind) (words : list string) : string :=
  match k with OModule => nth 1 words "" | _ => nth 3 words "" end.

Lemma runs_name tbl cvs bs words k e ex :
  runs tbl cvs bs words k e ex -> e_name e = prefix_of k ++ cmd_word k words.
Proof.
  intros H. destruct H as [main cmd rest e _ _ Hl _ | main name sub rest e _ Hl _ | main name sub rest e _ Hl _];
    apply lookup_some in Hl; destruct Hl as [_ Hl]; rewrite Hl; reflexivity.
Qed.

Lemma runs_in tbl cvs bs words k e ex : runs tbl cvs bs words k e ex -> In e tbl.
Proof.
  intros H. destruct H as [main cmd rest e _ _ Hl _ | main name sub rest e _ Hl _ | main name sub rest e _ Hl _];
    apply lookup_some in Hl; destruct Hl as [Hl _]; exact Hl.
Qed.

(* a command is run under exactly one object class and one command word, whatever the objects defined *)
Lemma one_name_per_command tbl cvs1 bs1 cvs2 bs2 w1 w2 k1 k2 e ex1 ex2 :
  dispatch tbl cvs1 bs1 w1 = Run k1 e ex1 -> dispatch tbl cvs2 bs2 w2 = Run k2 e ex2 ->
  k1 = k2 /\ cmd_word k1 w1 = cmd_word k2 w2 /\ entry_class e = Some (k1, cmd_word k1 w1).
Proof.
  intros H1 H2. apply dispatch_run_iff in H1. apply dispatch_run_iff in H2.
  apply runs_name in H1. apply runs_name in H2.
  assert (H := H1). rewrite H2 in H. apply prefix_inj in H. destruct H as [Hk Hw].
  split; [symmetry; exact Hk|]. split; [symmetry; exact Hw|]. apply entry_class_of_name. exact H1.
Qed.

(* the two prefix pseudo-commands are never run by the dispatcher *)
Lemma pseudo_never_run tbl cvs bs words k e ex :
  dispatch tbl cvs bs words = Run k e ex -> is_pseudo e = false.
Proof.
  intros H. apply dispatch_run_iff in H.
  assert (Hn := runs_name _ _ _ _ _ _ _ H).
  unfold is_pseudo. apply orb_false_iff. split; apply String.eqb_neq; intros Heq; rewrite Heq in Hn.
  - change "cv_colvar" with (prefix_of OModule ++ "colvar") in Hn. apply prefix_inj in Hn. destruct Hn as [<- Hw].
    inversion H as [main cmd rest e0 Hc _ _ _ Hwd | |]; subst. cbn [cmd_word nth] in Hw. congruence.
  - change "cv_bias" with (prefix_of OModule ++ "bias") in Hn. apply prefix_inj in Hn. destruct Hn as [<- Hw].
    inversion H as [main cmd rest e0 _ Hb _ _ Hwd | |]; subst. cbn [cmd_word nth] in Hw. congruence.
Qed.

Lemma entry_wf_bounds e : entry_wf e = true -> 0 <= e_min e <= e_max e.
Proof.
  unfold entry_wf. intros H. apply andb_true_iff in H as [H _]. apply andb_true_iff in H as [H1 H2].
  apply Z.leb_le in H1. apply Z.leb_le in H2. lia.
Qed.

Lemma table_wf_entry tbl e : table_wf tbl = true -> In e tbl -> entry_wf e = true.
Proof.
  unfold table_wf. intros H Hin. apply andb_true_iff in H as [H _]. rewrite forallb_forall in H. apply H. exact Hin.
Qed.

Lemma length_witness k sub name e : 0 <= e_min e ->
  Z.of_nat (List.length (witness_words k sub name e)) = shift_of k + e_min e.
Proof.
  intros H. destruct k; cbn [witness_words List.length shift_of]; rewrite repeat_length; lia.
Qed.

(* every command of a well-formed table other than the two pseudo-commands is run by some command line *)
Lemma every_command_runs tbl cvs bs e k sub name :
  table_wf tbl = true -> In e tbl -> is_pseudo e = false -> entry_class e = Some (k, sub) ->
  (k = OColvar -> In name cvs) -> (k = OBias -> In name bs) ->
  dispatch tbl cvs bs (witness_words k sub name e) = Run k e true.
Proof.
  intros Hwf Hin Hps Hcl Hc Hb.
  assert (Hb0 := entry_wf_bounds e (table_wf_entry _ _ Hwf Hin)).
  assert (Hl := lookup_wf _ _ Hwf Hin).
  assert (Hn := entry_class_name _ _ _ Hcl).
  apply dispatch_run_iff.
  assert (Hlen := length_witness k sub name e (proj1 Hb0)).
  destruct k; cbn [witness_words prefix_of] in *.
  - apply runs_module.
    + intros ->. unfold is_pseudo in Hps. rewrite Hn in Hps. cbn in Hps. discriminate.
    + intros ->. unfold is_pseudo in Hps. rewrite Hn in Hps. cbn in Hps. discriminate.
    + rewrite <- Hn. exact Hl.
    + unfold nargs_ok. rewrite Hlen. lia.
  - assert (Hm : mem_str name cvs = true) by (apply mem_str_in; apply Hc; reflexivity).
    assert (R : runs tbl cvs bs ("cv" :: "colvar" :: name :: sub :: repeat "" (Z.to_nat (e_min e))) OColvar e (mem_str name cvs)).
    { apply runs_colvar.
      + left. apply Hc. reflexivity.
      + rewrite <- Hn. exact Hl.
      + unfold nargs_ok. rewrite Hlen. lia. }
    rewrite Hm in R. exact R.
  - assert (Hm : mem_str name bs = true) by (apply mem_str_in; apply Hb; reflexivity).
    assert (R : runs tbl cvs bs ("cv" :: "bias" :: name :: sub :: repeat "" (Z.to_nat (e_min e))) OBias e (mem_str name bs)).
    { apply runs_bias.
      + left. apply Hb. reflexivity.
      + rewrite <- Hn. exact Hl.
      + unfold nargs_ok. rewrite Hlen. lia. }
    rewrite Hm in R. exact R.
Qed.

(* ================= effect of commands on the object sets ================= *)
Definition state_ok (st : mstate) : Prop :=
  NoDup (st_cvs st) /\ NoDup (bias_names st) /\
  (forall b c, In b (st_biases st) -> In c (snd b) -> In c (st_cvs st)).

Lemma NoDup_nodup_names l : NoDup l -> nodup_names l = true.
Proof.
  induction l as [|a r IH]; intros H; [reflexivity|].
  inversion H as [|? ? Hnot Hnd]; subst. cbn [nodup_names]. rewrite (IH Hnd), andb_true_r.
  destruct (mem_str a r) eqn:E; [|reflexivity]. apply mem_str_in in E. contradiction.
Qed.

Lemma mem_str_false s l : mem_str s l = false <-> ~ In s l.
Proof.
  split.
  - intros H Hin. apply mem_str_in in Hin. congruence.
  - intros H. destruct (mem_str s l) eqn:E; [|reflexivity]. apply mem_str_in in E. contradiction.
Qed.

Lemma state_wf_ok st : state_wf st = true <-> state_ok st.
Proof.
  unfold state_wf, state_ok. rewrite !andb_true_iff. split.
  - intros [[H1 H2] H3]. repeat split.
    + apply nodup_names_NoDup; exact H1.
    + apply nodup_names_NoDup; exact H2.
    + intros b c Hb Hc. rewrite forallb_forall in H3. specialize (H3 b Hb). rewrite forallb_forall in H3.
      apply mem_str_in. apply H3. exact Hc.
  - intros (H1 & H2 & H3). repeat split.
    + apply NoDup_nodup_names; exact H1.
    + apply NoDup_nodup_names; exact H2.
    + apply forallb_forall. intros b Hb. apply forallb_forall. intros c Hc. apply mem_str_in. apply (H3 b c Hb Hc).
Qed.

Lemma NoDup_map_filter {A B} (f : A -> B) (p : A -> bool) l : NoDup (map f l) -> NoDup (map f (filter p l)).
Proof.
  induction l as [|a r IH]; cbn [map filter]; intros H; [constructor|].
  inversion H as [|? ? Hnot Hnd]; subst.
  destruct (p a); cbn [map]; [|apply IH; exact Hnd].
  constructor; [|apply IH; exact Hnd].
  intros Hin. apply Hnot. apply in_map_iff in Hin. destruct Hin as (x & Hx & Hin).
  apply filter_In in Hin. apply in_map_iff. exists x. split; [exact Hx | apply Hin].
Qed.

Lemma del_cv_ok n st : state_ok st -> state_ok (del_cv n st).
Proof.
  intros (H1 & H2 & H3). unfold state_ok, del_cv, bias_names. cbn [st_cvs st_biases]. repeat split.
  - apply NoDup_filter. exact H1.
  - apply NoDup_map_filter. exact H2.
  - intros b c Hb Hc. apply filter_In in Hb. destruct Hb as [Hb Hm]. apply filter_In. split.
    + apply (H3 b c Hb Hc).
    + apply negb_true_iff in Hm. apply mem_str_false in Hm. apply negb_true_iff. apply String.eqb_neq.
      intros ->. apply Hm. exact Hc.
Qed.

Lemma del_bias_ok n st : state_ok st -> state_ok (del_bias n st).
Proof.
  intros (H1 & H2 & H3). unfold state_ok, del_bias, bias_names. cbn [st_cvs st_biases]. repeat split.
  - exact H1.
  - apply NoDup_map_filter. exact H2.
  - intros b c Hb Hc. apply filter_In in Hb. destruct Hb as [Hb _]. apply (H3 b c Hb Hc).
Qed.

Lemma NoDup_snoc {A} (l : list A) a : NoDup l -> ~ In a l -> NoDup (l ++ [a]).
Proof.
  intros H Hn. induction l as [|x r IH]; cbn [app]; [constructor; [intros []|constructor]|].
  inversion H as [|? ? Hnot Hnd]; subst. constructor.
  - intros Hin. apply in_app_or in Hin. destruct Hin as [Hin|[->|[]]]; [contradiction|]. apply Hn. left. reflexivity.
  - apply IH; [exact Hnd|]. intros Hin. apply Hn. right. exact Hin.
Qed.

Lemma add_decl_ok st d : state_ok st -> state_ok (fst (add_decl st d)).
Proof.
  intros (H1 & H2 & H3). destruct d as [on|on cs]; cbn [add_decl].
  - destruct (mem_str (match on with Some n => n | None => default_cv_name st end) (st_cvs st)) eqn:E; cbn [fst]; [repeat split; assumption|].
    apply mem_str_false in E. unfold state_ok, bias_names. cbn [st_cvs st_biases]. repeat split.
    + apply NoDup_snoc; assumption.
    + exact H2.
    + intros b c Hb Hc. apply in_or_app. left. apply (H3 b c Hb Hc).
  - destruct (mem_str (match on with Some n => n | None => default_bias_name (S (st_nharm st)) end) (bias_names st)) eqn:E; cbn [fst];
      [unfold state_ok, bias_names in *; cbn [st_cvs st_biases]; repeat split; assumption|].
    destruct (forallb (fun c => mem_str c (st_cvs st)) cs) eqn:F; cbn [fst];
      [|unfold state_ok, bias_names in *; cbn [st_cvs st_biases]; repeat split; assumption].
    apply mem_str_false in E. unfold state_ok, bias_names in *. cbn [st_cvs st_biases]. repeat split.
    + exact H1.
    + rewrite map_app. cbn [map fst]. apply NoDup_snoc; assumption.
    + intros b c Hb Hc. apply in_app_or in Hb. destruct Hb as [Hb|[<-|[]]].
      * apply (H3 b c Hb Hc).
      * cbn [snd] in Hc. rewrite forallb_forall in F. apply mem_str_in. apply F. exact Hc.
Qed.

Lemma add_decls_ok ds : forall st, state_ok st -> state_ok (fst (add_decls st ds)).
Proof.
  induction ds as [|d r IH]; intros st H; cbn [add_decls]; [exact H|].
  assert (H' := add_decl_ok st d H). destruct (add_decl st d) as [st' ok]. cbn [fst] in H'.
  destruct ok; [apply IH; exact H' | exact H'].
Qed.

(* the rank counter never decreases while objects are added or deleted: a default bias name is never handed out twice *)
Lemma add_decl_counter st d : (st_nharm st <= st_nharm (fst (add_decl st d)))%nat.
Proof.
  destruct d as [on|on cs]; cbn [add_decl].
  - destruct (mem_str _ (st_cvs st)); cbn [fst st_nharm]; lia.
  - destruct (mem_str _ (bias_names st)); [cbn [fst st_nharm]; lia|]. destruct (forallb _ cs); cbn [fst st_nharm]; lia.
Qed.

Lemma rank_counter_survives_deletion n st d :
  st_nharm (del_bias n st) = st_nharm st /\ st_nharm (del_cv n st) = st_nharm st /\ (st_nharm st <= st_nharm (fst (add_decl st d)))%nat.
Proof. split; [reflexivity|]. split; [reflexivity | apply add_decl_counter]. Qed.

Lemma unnamed_bias_gets_fresh_rank st cs st' :
  add_decl st (DBias None cs) = (st', true) ->
  st_nharm st' = S (st_nharm st) /\ In (default_bias_name (S (st_nharm st)), cs) (st_biases st') /\
  ~ In (default_bias_name (S (st_nharm st))) (bias_names st).
Proof.
  cbn [add_decl]. destruct (mem_str (default_bias_name (S (st_nharm st))) (bias_names st)) eqn:E; [intros H; discriminate|].
  destruct (forallb (fun c => mem_str c (st_cvs st)) cs); [|intros H; discriminate].
  intros H. injection H as <-. cbn [st_nharm st_biases]. split; [reflexivity|]. split.
  - apply in_or_app. right. left. reflexivity.
  - apply mem_str_false. exact E.
Qed.

Section ExecProofs.
  Variable tbl : list cmd_entry.
  Variable parse_conf : string -> option (list decl).
  Variable read_file : string -> option string.

  Lemma apply_conf_ok st text : state_ok st -> state_ok (fst (apply_conf parse_conf st text)).
  Proof.
    intros H. unfold apply_conf. destruct (parse_conf text) as [ds|]; [|exact H].
    assert (H' := add_decls_ok ds st H). destruct (add_decls st ds) as [st' ok]. exact H'.
  Qed.

  Lemma body_ok e words st : state_ok st -> state_ok (fst (body parse_conf read_file e words st)).
  Proof.
    intros H. unfold body.
    destruct (String.eqb (e_name e) "colvar_delete"); [apply del_cv_ok; exact H|].
    destruct (String.eqb (e_name e) "bias_delete"); [apply del_bias_ok; exact H|].
    destruct (String.eqb (e_name e) "cv_reset"); [repeat split; try constructor; intros b c []|].
    destruct (String.eqb (e_name e) "cv_config"); [apply apply_conf_ok; exact H|].
    destruct (String.eqb (e_name e) "cv_configfile"); [|exact H].
    destruct (read_file (nth 2 words "")) as [t|]; [apply apply_conf_ok; exact H | exact H].
  Qed.

  (* a rejected call (any dispatcher error) leaves the state alone and is classified as an error *)
  Lemma rejected_unchanged st words :
    is_error (dispatch tbl (st_cvs st) (bias_names st) words) = true ->
    exec tbl parse_conf read_file st words = (st, dispatch tbl (st_cvs st) (bias_names st) words, BErr).
  Proof.
    unfold exec. destruct (dispatch tbl (st_cvs st) (bias_names st) words); cbn [is_error]; try reflexivity. discriminate.
  Qed.

  Lemma exec_ok st words : state_ok st -> state_ok (fst (fst (exec tbl parse_conf read_file st words))).
  Proof.
    intros H. unfold exec. destruct (dispatch tbl (st_cvs st) (bias_names st) words) as [| | | | | |k e ex]; try exact H.
    assert (H' := body_ok e words st H). destruct (body parse_conf read_file e words st) as [st' c]. exact H'.
  Qed.

  Lemma do_event_ok st ev : state_ok st -> state_ok (do_event tbl parse_conf read_file st ev).
  Proof.
    intros H. destruct ev as [w| |t]; cbn [do_event]; [apply exec_ok; exact H | exact H | apply apply_conf_ok; exact H].
  Qed.

  (* after ANY history of script calls (well formed or not), steps and engine-side configurations, the object
     sets the dispatcher uses are consistent: names unique, every bias refers to existing variables *)
  Lemma run_events_ok evs : forall st, state_ok st -> state_ok (run_events tbl parse_conf read_file st evs).
  Proof.
    unfold run_events. induction evs as [|ev r IH]; intros st H; cbn [fold_left]; [exact H|].
    apply IH. apply do_event_ok. exact H.
  Qed.

  (* and the dispatcher still answers every call: a result class and a state *)
  Lemma run_events_then_total evs st words :
    state_ok st ->
    let st' := run_events tbl parse_conf read_file st evs in
    state_ok st' /\
    ((exists k e ex, dispatch tbl (st_cvs st') (bias_names st') words = Run k e ex) \/
     (is_error (dispatch tbl (st_cvs st') (bias_names st') words) = true /\
      exec tbl parse_conf read_file st' words = (st', dispatch tbl (st_cvs st') (bias_names st') words, BErr))).
  Proof.
    intros H st'. split; [apply run_events_ok; exact H|].
    destruct (dispatch tbl (st_cvs st') (bias_names st') words) as [| | | | | |k e ex] eqn:E;
      try (right; split; [reflexivity | unfold exec; rewrite E; reflexivity]).
    left. exists k, e, ex. reflexivity.
  Qed.

  (* configuration through the script = configuration on the engine side, whenever the table has the command
     with one argument *)
  Lemma script_config_equiv st main text e :
    lookup tbl "cv_config" = Some e -> e_name e = "cv_config" -> e_min e = 1 -> e_max e = 1 ->
    do_event tbl parse_conf read_file st (ECmd [main; "config"; text]) = do_event tbl parse_conf read_file st (EConfig text).
  Proof.
    intros Hl Hn Hmin Hmax. cbn [do_event]. unfold exec, dispatch.
    replace (String.eqb "config" "colvar") with false by reflexivity.
    replace (String.eqb "config" "bias") with false by reflexivity.
    cbn [prefix_of]. change ("cv_" ++ "config") with "cv_config". rewrite Hl.
    unfold check_nargs. cbn [List.length shift_of]. rewrite Hmin, Hmax. cbn [Z.of_nat Z.ltb Z.add Z.compare Pos.of_succ_nat Pos.succ Pos.add Pos.compare Pos.compare_cont].
    unfold body. rewrite Hn.
    replace (String.eqb "cv_config" "colvar_delete") with false by reflexivity.
    replace (String.eqb "cv_config" "bias_delete") with false by reflexivity.
    replace (String.eqb "cv_config" "cv_reset") with false by reflexivity.
    replace (String.eqb "cv_config" "cv_config") with true by reflexivity.
    cbn [nth]. destruct (apply_conf parse_conf st text) as [st' c]. reflexivity.
  Qed.
End ExecProofs.

(* what deleting a variable does to the object sets: the variable and exactly the biases that use it disappear *)
Lemma del_cv_spec n st :
  (forall c, In c (st_cvs (del_cv n st)) <-> In c (st_cvs st) /\ c <> n) /\
  (forall b, In b (st_biases (del_cv n st)) <-> In b (st_biases st) /\ ~ In n (snd b)).
Proof.
  unfold del_cv. cbn [st_cvs st_biases]. split; intros x; rewrite filter_In, negb_true_iff.
  - rewrite String.eqb_neq. reflexivity.
  - rewrite mem_str_false. reflexivity.
Qed.

Lemma del_bias_spec n st :
  st_cvs (del_bias n st) = st_cvs st /\
  (forall b, In b (st_biases (del_bias n st)) <-> In b (st_biases st) /\ fst b <> n).
Proof.
  unfold del_bias. cbn [st_cvs st_biases]. split; [reflexivity|]. intros x. rewrite filter_In, negb_true_iff, String.eqb_neq. reflexivity.
Qed.

(* ================= statements used by Properties_C20.v ================= *)
Lemma dispatch_total tbl colvars biases words :
  (exists k e ex, dispatch tbl colvars biases words = Run k e ex /\ runs tbl colvars biases words k e ex) \/
  (is_error (dispatch tbl colvars biases words) = true /\ ~ exists k e ex, runs tbl colvars biases words k e ex).
Proof.
  destruct (dispatch tbl colvars biases words) as [| | | | | |k e ex] eqn:E;
    try (right; split; [reflexivity | apply dispatch_error_iff; rewrite E; reflexivity]).
  left. exists k, e, ex. split; [reflexivity | apply dispatch_run_iff; exact E].
Qed.

Lemma unknown_command_rejected tbl colvars biases main cmd name sub rest :
  (cmd <> "colvar" -> cmd <> "bias" -> ~ In ("cv_" ++ cmd) (map e_name tbl) ->
     is_error (dispatch tbl colvars biases (main :: cmd :: rest)) = true) /\
  (~ In ("colvar_" ++ sub) (map e_name tbl) ->
     is_error (dispatch tbl colvars biases (main :: "colvar" :: name :: sub :: rest)) = true).
Proof. split; [apply unknown_module_command_rejected | apply unknown_object_command_rejected]. Qed.

Lemma wrong_argument_count_rejected tbl colvars biases words k e ex :
  dispatch tbl colvars biases words = Run k e ex ->
  shift_of k + e_min e <= Z.of_nat (List.length words) <= shift_of k + e_max e.
Proof. intros H. apply dispatch_run_iff in H. exact (wrong_nargs_rejected _ _ _ _ _ _ _ H). Qed.

Lemma usable_after_any_history tbl parse_conf read_file evs st words :
  state_wf st = true ->
  let st' := run_events tbl parse_conf read_file st evs in
  state_wf st' = true /\
  ((exists k e ex, dispatch tbl (st_cvs st') (bias_names st') words = Run k e ex) \/
   (is_error (dispatch tbl (st_cvs st') (bias_names st') words) = true /\
    exec tbl parse_conf read_file st' words = (st', dispatch tbl (st_cvs st') (bias_names st') words, BErr))).
Proof.
  intros H st'.
  apply state_wf_ok in H. destruct (run_events_then_total tbl parse_conf read_file evs st words H) as [H1 H2].
  split; [apply state_wf_ok; exact H1 | exact H2].
Qed.

Lemma delete_effect n st :
  ((forall c, In c (st_cvs (del_cv n st)) <-> In c (st_cvs st) /\ c <> n) /\
   (forall b, In b (st_biases (del_cv n st)) <-> In b (st_biases st) /\ ~ In n (snd b))) /\
  (st_cvs (del_bias n st) = st_cvs st /\
   (forall b, In b (st_biases (del_bias n st)) <-> In b (st_biases st) /\ fst b <> n)).
Proof. split; [apply del_cv_spec | apply del_bias_spec]. Qed.

(* ================= every command, every argument count ================= *)
Definition witness_n (k : objkind) (sub name : string) (n : nat) : list string :=
  match k with
  | OModule => "cv" :: sub :: repeat "" n
  | OColvar => "cv" :: "colvar" :: name :: sub :: repeat "" n
  | OBias => "cv" :: "bias" :: name :: sub :: repeat "" n
  end.

Lemma dispatch_any_argument_count tbl cvs bs e k sub name n :
  table_wf tbl = true -> In e tbl -> is_pseudo e = false -> entry_class e = Some (k, sub) ->
  (k = OColvar -> In name cvs) -> (k = OBias -> In name bs) ->
  dispatch tbl cvs bs (witness_n k sub name n) = check_nargs k e (shift_of k + Z.of_nat n) true.
Proof.
  intros Hwf Hin Hps Hcl Hc Hb.
  assert (Hl := lookup_wf _ _ Hwf Hin).
  assert (Hn := entry_class_name _ _ _ Hcl).
  destruct k; cbn [witness_n prefix_of] in *.
  - unfold dispatch.
    assert (E1 : String.eqb sub "colvar" = false).
    { apply String.eqb_neq. intros ->. unfold is_pseudo in Hps. rewrite Hn in Hps. cbn in Hps. discriminate. }
    assert (E2 : String.eqb sub "bias" = false).
    { apply String.eqb_neq. intros ->. unfold is_pseudo in Hps. rewrite Hn in Hps. cbn in Hps. discriminate. }
    rewrite E1, E2. cbn [prefix_of]. rewrite <- Hn, Hl. f_equal.
    cbn [List.length shift_of]. rewrite repeat_length. lia.
  - unfold dispatch. replace (String.eqb "colvar" "colvar") with true by reflexivity. unfold dispatch_obj.
    assert (Hm : mem_str name cvs = true) by (apply mem_str_in; apply Hc; reflexivity).
    rewrite Hm. cbn [negb andb prefix_of]. rewrite <- Hn, Hl. f_equal.
    cbn [List.length shift_of]. rewrite repeat_length. lia.
  - unfold dispatch. replace (String.eqb "bias" "colvar") with false by reflexivity.
    replace (String.eqb "bias" "bias") with true by reflexivity. unfold dispatch_obj.
    assert (Hm : mem_str name bs = true) by (apply mem_str_in; apply Hb; reflexivity).
    rewrite Hm. cbn [negb andb prefix_of]. rewrite <- Hn, Hl. f_equal.
    cbn [List.length shift_of]. rewrite repeat_length. lia.
Qed.

(* spelled out: too few / too many / run, for every number of arguments *)
Lemma dispatch_total_per_argument_count tbl cvs bs e k sub name n :
  table_wf tbl = true -> In e tbl -> is_pseudo e = false -> entry_class e = Some (k, sub) ->
  (k = OColvar -> In name cvs) -> (k = OBias -> In name bs) ->
  dispatch tbl cvs bs (witness_n k sub name n) =
    if (Z.of_nat n <? e_min e) then ErrTooFewArgs e else if (e_max e <? Z.of_nat n) then ErrTooManyArgs e else Run k e true.
Proof.
  intros. rewrite (dispatch_any_argument_count tbl cvs bs e k sub name n); try assumption.
  unfold check_nargs.
  replace (shift_of k + Z.of_nat n <? shift_of k + e_min e) with (Z.of_nat n <? e_min e)
    by (destruct (Z.of_nat n <? e_min e) eqn:E; symmetry; [apply Z.ltb_lt; apply Z.ltb_lt in E; lia | apply Z.ltb_ge; apply Z.ltb_ge in E; lia]).
  replace (shift_of k + e_max e <? shift_of k + Z.of_nat n) with (e_max e <? Z.of_nat n)
    by (destruct (e_max e <? Z.of_nat n) eqn:E; symmetry; [apply Z.ltb_lt; apply Z.ltb_lt in E; lia | apply Z.ltb_ge; apply Z.ltb_ge in E; lia]).
  reflexivity.
Qed.
