From Coq Require Import Extraction ExtrOcamlBasic.
From CV Require Import C20.ScriptModel C20.GradModel C20.SemModel C20.EnergyModel.
Extraction Language OCaml.
Extraction "model.ml" dispatch is_error table_wf lookup entry_class is_pseudo witness_words exec do_event run_events state_wf
  lower_bound collect_groups build_ids increasing exec_sem do_sevent run_sevents resync sem_step combine parse_flags apply_pending energy_step.
