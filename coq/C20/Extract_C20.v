From Coq Require Import Extraction ExtrOcamlBasic.
From CV Require Import C20.ScriptModel.
Extraction Language OCaml.
Extraction "model.ml" dispatch is_error table_wf lookup.
