(* Lemmas about the command table REGENERATED from the freshly built binary (Gen/GenScript.v). *)
From Coq Require Import ZArith List Bool String.
From CV Require Import C20.ScriptModel C20.ScriptProofs Gen.GenScript.
Import ListNotations.
Local Open Scope string_scope.
Local Open Scope Z_scope.

Lemma script_table_wf : table_wf script_table = true /\
  lookup script_table "cv_colvar" = Some ("cv_colvar", 0, 0) /\ lookup script_table "cv_bias" = Some ("cv_bias", 0, 0) /\
  lookup script_table "cv_config" = Some ("cv_config", 1, 1) /\ lookup script_table "cv_configfile" = Some ("cv_configfile", 1, 1) /\
  lookup script_table "cv_reset" = Some ("cv_reset", 0, 0) /\
  lookup script_table "colvar_delete" = Some ("colvar_delete", 0, 0) /\ lookup script_table "bias_delete" = Some ("bias_delete", 0, 0).
Proof. vm_compute. repeat split. Qed.

Lemma script_table_every_command_reachable e cvs bs name : In e script_table -> is_pseudo e = false ->
  exists k sub, entry_class e = Some (k, sub) /\
    ((k = OColvar -> In name cvs) -> (k = OBias -> In name bs) ->
     dispatch script_table cvs bs (witness_words k sub name e) = Run k e true).
Proof.
  intros Hin Hps.
  assert (Hwf : table_wf script_table = true) by apply script_table_wf.
  assert (He := table_wf_entry _ _ Hwf Hin). unfold entry_wf in He. apply andb_true_iff in He as [_ He].
  destruct (entry_class e) as [[k sub]|] eqn:E; [|discriminate].
  exists k, sub. split; [reflexivity|]. intros Hc Hb. apply every_command_runs; assumption.
Qed.

Lemma script_table_config_equiv parse_conf read_file st main text :
  do_event script_table parse_conf read_file st (ECmd [main; "config"; text]) =
  do_event script_table parse_conf read_file st (EConfig text).
Proof.
  apply (script_config_equiv script_table parse_conf read_file st main text ("cv_config", 1, 1)); [|reflexivity|reflexivity|reflexivity].
  exact (proj1 (proj2 (proj2 (proj2 script_table_wf)))).
Qed.

Lemma script_table_every_argument_count e cvs bs name n : In e script_table -> is_pseudo e = false ->
  exists k sub, entry_class e = Some (k, sub) /\
    ((k = OColvar -> In name cvs) -> (k = OBias -> In name bs) ->
     dispatch script_table cvs bs (witness_n k sub name n) =
       if (Z.of_nat n <? e_min e) then ErrTooFewArgs e else if (e_max e <? Z.of_nat n) then ErrTooManyArgs e else Run k e true).
Proof.
  intros Hin Hps.
  assert (Hwf : table_wf script_table = true) by apply script_table_wf.
  assert (He := table_wf_entry _ _ Hwf Hin). unfold entry_wf in He. apply andb_true_iff in He as [_ He].
  destruct (entry_class e) as [[k sub]|] eqn:E; [|discriminate].
  exists k, sub. split; [reflexivity|]. intros Hc Hb. apply dispatch_total_per_argument_count; assumption.
Qed.
