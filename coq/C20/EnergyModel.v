(* The order in which one step of colvarmodule (calc_biases, then update_colvar_forces) resets the total bias energy, runs the
   force script (which may call `cv addenergy E` any number of times), adds the energies of the biases and hands the total to
   the engine (proxy->add_energy).  `scriptingAfterBiases` moves the script from before the bias loop (inside calc_biases) to
   after the biases have communicated their forces (inside update_colvar_forces); in both cases the engine is given the total
   AFTER the script ran.   Definitions only. *)
From Coq Require Import List Bool.
Import ListNotations.

Section Energy.
  Context {T : Type}.
  Variable add : T -> T -> T.
  Variable zero : T.

  Inductive phase :=
  | PReset      (* total_bias_energy = 0 *)
  | PScript     (* run_force_callback(): every `cv addenergy E` of the script adds E to total_bias_energy *)
  | PBiases     (* bias loop, then total_bias_energy += energy of every bias that applies its force *)
  | PSend.      (* proxy->add_energy(total_bias_energy) *)

  Record estate := mk_estate { es_total : T; es_sent : option T }.

  Definition run_phase (script : list T) (biases : list T) (st : estate) (ph : phase) : estate :=
    match ph with
    | PReset => mk_estate zero None
    | PScript => mk_estate (fold_left add script (es_total st)) (es_sent st)
    | PBiases => mk_estate (fold_left add biases (es_total st)) (es_sent st)
    | PSend => mk_estate (es_total st) (Some (es_total st))
    end.

  (* colvarmodule::calc_biases + update_colvar_forces *)
  Definition schedule (scripted after_biases : bool) : list phase :=
    if scripted then (if after_biases then [PReset; PBiases; PScript; PSend] else [PReset; PScript; PBiases; PSend])
    else [PReset; PBiases; PSend].

  Definition energy_step (scripted after_biases : bool) (script biases : list T) (st : estate) : estate :=
    fold_left (run_phase script biases) (schedule scripted after_biases) st.
End Energy.
