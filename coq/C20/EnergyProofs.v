From Coq Require Import List Bool.
From CV Require Import C20.EnergyModel.
Import ListNotations.

Section EnergyProofs.
  Context {T : Type}.
  Variable add : T -> T -> T.
  Variable zero : T.

  (* whatever the setting and the previous state: the engine is given exactly the total that `cv getenergy` reports after the step,
     and that total contains every `cv addenergy` of the script and every bias *)
  Lemma engine_receives_the_total scripted after script biases st :
    let st' := energy_step add zero scripted after script biases st in
    es_sent st' = Some (es_total st') /\
    es_total st' = (if scripted
                    then (if after then fold_left add script (fold_left add biases zero) else fold_left add biases (fold_left add script zero))
                    else fold_left add biases zero).
  Proof. destruct scripted, after; cbn; split; reflexivity. Qed.

  Hypothesis add_comm : forall a b, add a b = add b a.
  Hypothesis add_assoc : forall a b c, add a (add b c) = add (add a b) c.

  Lemma fold_add_shift l : forall a b, fold_left add l (add a b) = add (fold_left add l a) b.
  Proof.
    induction l as [|x r IH]; intros a b; cbn [fold_left]; [reflexivity|].
    replace (add (add a b) x) with (add (add a x) b) by (rewrite <- !add_assoc; f_equal; apply add_comm). apply IH.
  Qed.

  (* with an exact addition the two settings give the same energy: the sum of the biases plus the sum of the script's additions *)
  Lemma scripting_order_irrelevant script biases st (Hz : forall a, add zero a = a) :
    es_total (energy_step add zero true true script biases st) = es_total (energy_step add zero true false script biases st) /\
    es_total (energy_step add zero true true script biases st) = add (fold_left add biases zero) (fold_left add script zero).
  Proof.
    cbn. assert (G : forall l a, fold_left add l a = add a (fold_left add l zero)).
    { induction l as [|x r IH]; intros a; cbn [fold_left]; [rewrite add_comm; symmetry; apply Hz|].
      rewrite IH. rewrite (IH (add zero x)). rewrite Hz. rewrite add_assoc. reflexivity. }
    split.
    - rewrite (G script (fold_left add biases zero)). rewrite (G biases (fold_left add script zero)). apply add_comm.
    - apply G.
  Qed.
End EnergyProofs.
