(* Model of the dispatcher of the scripting interface: colvarscript::run (src/colvarscript.cpp) and the
   argument-count check that opens every command body (check_cmd_nargs, src/colvarscript.h).
   The command table (name, n_args_min, n_args_max) is NOT written here: it is dumped from the freshly
   built binary into Gen/GenScript.v on every run.  Definitions only. *)
From Coq Require Import ZArith List Bool String.
Import ListNotations.
Local Open Scope string_scope.
Local Open Scope Z_scope.

Definition cmd_entry : Type := (string * Z * Z)%type.      (* function name, n_args_min, n_args_max *)
Definition e_name (e : cmd_entry) : string := fst (fst e).
Definition e_min (e : cmd_entry) : Z := snd (fst e).
Definition e_max (e : cmd_entry) : Z := snd e.

Inductive objkind := OModule | OColvar | OBias.
Definition prefix_of (k : objkind) : string :=
  match k with OModule => "cv_" | OColvar => "colvar_" | OBias => "bias_" end.
(* colvarscript::cmd_arg_shift *)
Definition shift_of (k : objkind) : Z := match k with OModule => 2 | _ => 4 end.

Fixpoint lookup (tbl : list cmd_entry) (name : string) : option cmd_entry :=
  match tbl with
  | [] => None
  | e :: r => if String.eqb (e_name e) name then Some e else lookup r name
  end.

Inductive outcome :=
| ErrNoCommand            (* fewer than two words *)
| ErrMissingParams        (* "colvar"/"bias" with fewer than four words *)
| ErrObjectNotFound       (* no such variable / bias, and the sub-command is not "help" *)
| ErrSyntax               (* no command of that name *)
| ErrTooFewArgs (e : cmd_entry)
| ErrTooManyArgs (e : cmd_entry)
| Run (k : objkind) (e : cmd_entry) (object_exists : bool).   (* the command body is executed *)

Definition mem_str (s : string) (l : list string) : bool := existsb (String.eqb s) l.

(* check_cmd_nargs *)
Definition check_nargs (k : objkind) (e : cmd_entry) (objc : Z) (ex : bool) : outcome :=
  if objc <? shift_of k + e_min e then ErrTooFewArgs e
  else if shift_of k + e_max e <? objc then ErrTooManyArgs e
  else Run k e ex.

Definition dispatch_obj (tbl : list cmd_entry) (k : objkind) (names : list string) (words : list string) : outcome :=
  match words with
  | _ :: _ :: name :: subcmd :: _ =>
      let ex := mem_str name names in
      if negb ex && negb (String.eqb subcmd "help") then ErrObjectNotFound
      else match lookup tbl (prefix_of k ++ subcmd) with
           | None => ErrSyntax
           | Some e => check_nargs k e (Z.of_nat (List.length words)) ex
           end
  | _ => ErrMissingParams
  end.

(* colvarscript::run *)
Definition dispatch (tbl : list cmd_entry) (colvars biases : list string) (words : list string) : outcome :=
  match words with
  | _ :: cmd :: _ =>
      if String.eqb cmd "colvar" then dispatch_obj tbl OColvar colvars words
      else if String.eqb cmd "bias" then dispatch_obj tbl OBias biases words
      else match lookup tbl (prefix_of OModule ++ cmd) with
           | None => ErrSyntax
           | Some e => check_nargs OModule e (Z.of_nat (List.length words)) true
           end
  | _ => ErrNoCommand
  end.

Definition is_error (o : outcome) : bool := match o with Run _ _ _ => false | _ => true end.

(* well-formedness of a command table *)
Definition has_prefix (p s : string) : bool := String.prefix p s.
Definition entry_wf (e : cmd_entry) : bool :=
  (0 <=? e_min e) && (e_min e <=? e_max e) &&
  (has_prefix "cv_" (e_name e) || has_prefix "colvar_" (e_name e) || has_prefix "bias_" (e_name e)).
Fixpoint nodup_names (l : list string) : bool :=
  match l with [] => true | a :: r => negb (mem_str a r) && nodup_names r end.
Definition table_wf (tbl : list cmd_entry) : bool :=
  forallb entry_wf tbl && nodup_names (map e_name tbl).
