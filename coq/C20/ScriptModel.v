(* Model of the scripting interface: the dispatcher colvarscript::run (src/colvarscript.cpp), the
   argument-count check that opens every command body (check_cmd_nargs, src/colvarscript.h; called by the
   CVSCRIPT_COMM_FN wrappers of src/colvarscript_commands*.cpp), and the effect of a command on the sets of
   objects the dispatcher looks names up in (variables, biases).
   The command table (function name, n_args_min, n_args_max) is NOT written here: it is dumped from the
   freshly built binary into Gen/GenScript.v on every run (cvscript_n_commands/cvscript_command_names/
   cvscript_command_n_args_min/max); the object class of a command is the prefix of its function name
   (colvarscript::get_cmd_prefix).   Definitions only. *)
From Coq Require Import ZArith List Bool String Ascii DecimalString.
Import ListNotations.
Local Open Scope string_scope.
Local Open Scope Z_scope.

Definition cmd_entry : Type := (string * Z * Z)%type.      (* function name, n_args_min, n_args_max *)
Definition e_name (e : cmd_entry) : string := fst (fst e).
Definition e_min (e : cmd_entry) : Z := snd (fst e).
Definition e_max (e : cmd_entry) : Z := snd e.

Inductive objkind := OModule | OColvar | OBias.
(* colvarscript::get_cmd_prefix *)
Definition prefix_of (k : objkind) : string :=
  match k with OModule => "cv_" | OColvar => "colvar_" | OBias => "bias_" end.
(* colvarscript::cmd_arg_shift *)
Definition shift_of (k : objkind) : Z := match k with OModule => 2 | _ => 4 end.

(* cmd_str_map lookup (get_cmd_fn) *)
Fixpoint lookup (tbl : list cmd_entry) (name : string) : option cmd_entry :=
  match tbl with
  | [] => None
  | e :: r => if String.eqb (e_name e) name then Some e else lookup r name
  end.

Inductive outcome :=
| ErrNoCommand            (* fewer than two words: "No commands given" *)
| ErrMissingParams        (* "colvar"/"bias" with fewer than four words: "Missing parameters" *)
| ErrObjectNotFound       (* no such variable / bias, and the sub-command is not "help" *)
| ErrSyntax               (* no command of that name: "Syntax error" *)
| ErrTooFewArgs (e : cmd_entry)      (* "Insufficient number of arguments" *)
| ErrTooManyArgs (e : cmd_entry)     (* "Too many arguments" *)
| Run (k : objkind) (e : cmd_entry) (object_exists : bool).   (* the command body is executed *)

Definition mem_str (s : string) (l : list string) : bool := existsb (String.eqb s) l.

(* check_cmd_nargs *)
Definition check_nargs (k : objkind) (e : cmd_entry) (objc : Z) (ex : bool) : outcome :=
  if objc <? shift_of k + e_min e then ErrTooFewArgs e
  else if shift_of k + e_max e <? objc then ErrTooManyArgs e
  else Run k e ex.

Definition dispatch_obj (tbl : list cmd_entry) (k : objkind) (names : list string) (words : list string) : outcome :=
  match words with
  | _ :: _ :: name :: subcmd :: _ =>
      let ex := mem_str name names in
      if negb ex && negb (String.eqb subcmd "help") then ErrObjectNotFound
      else match lookup tbl (prefix_of k ++ subcmd) with
           | None => ErrSyntax
           | Some e => check_nargs k e (Z.of_nat (List.length words)) ex
           end
  | _ => ErrMissingParams
  end.

(* colvarscript::run *)
Definition dispatch (tbl : list cmd_entry) (colvars biases : list string) (words : list string) : outcome :=
  match words with
  | _ :: cmd :: _ =>
      if String.eqb cmd "colvar" then dispatch_obj tbl OColvar colvars words
      else if String.eqb cmd "bias" then dispatch_obj tbl OBias biases words
      else match lookup tbl (prefix_of OModule ++ cmd) with
           | None => ErrSyntax
           | Some e => check_nargs OModule e (Z.of_nat (List.length words)) true
           end
  | _ => ErrNoCommand
  end.

Definition is_error (o : outcome) : bool := match o with Run _ _ _ => false | _ => true end.

(* ---- object class of a table entry: the prefix of its name ---- *)
Fixpoint strip (p s : string) : option string :=
  match p with
  | EmptyString => Some s
  | String a p' => match s with
                   | EmptyString => None
                   | String b s' => if Ascii.eqb a b then strip p' s' else None
                   end
  end.

Definition entry_class (e : cmd_entry) : option (objkind * string) :=
  match strip "cv_" (e_name e) with
  | Some r => Some (OModule, r)
  | None => match strip "colvar_" (e_name e) with
            | Some r => Some (OColvar, r)
            | None => match strip "bias_" (e_name e) with
                      | Some r => Some (OBias, r)
                      | None => None
                      end
            end
  end.

(* well-formedness of a command table *)
Definition entry_wf (e : cmd_entry) : bool :=
  (0 <=? e_min e) && (e_min e <=? e_max e) &&
  match entry_class e with Some _ => true | None => false end.
Fixpoint nodup_names (l : list string) : bool :=
  match l with [] => true | a :: r => negb (mem_str a r) && nodup_names r end.
Definition table_wf (tbl : list cmd_entry) : bool :=
  forallb entry_wf tbl && nodup_names (map e_name tbl).

(* the two prefix pseudo-commands ("This cannot be executed from a command line") *)
Definition is_pseudo (e : cmd_entry) : bool :=
  String.eqb (e_name e) "cv_colvar" || String.eqb (e_name e) "cv_bias".

(* a word list that runs entry e of class (k, sub) on object `name` with exactly e_min e (empty) arguments *)
Definition witness_words (k : objkind) (sub name : string) (e : cmd_entry) : list string :=
  match k with
  | OModule => "cv" :: sub :: repeat "" (Z.to_nat (e_min e))
  | OColvar => "cv" :: "colvar" :: name :: sub :: repeat "" (Z.to_nat (e_min e))
  | OBias => "cv" :: "bias" :: name :: sub :: repeat "" (Z.to_nat (e_min e))
  end.

(* ---- the part of the module state the dispatcher depends on, and what commands do to it ---- *)
Record mstate := mk_state {
  st_cvs : list string;                        (* names of the variables, in creation order *)
  st_biases : list (string * list string);     (* biases: name, names of the variables it uses *)
  st_nharm : nat }.                            (* how many harmonic blocks were ever read (colvarmodule::num_biases_types_used_):
                                                  it never goes down when a bias is deleted, only `reset` clears it *)

Definition bias_names (st : mstate) : list string := map fst (st_biases st).

(* a block with or without an explicit `name` *)
Inductive decl := DCv (n : option string) | DBias (n : option string) (cs : list string).

Definition dec (n : nat) : string := NilZero.string_of_uint (Nat.to_uint n).
(* default names: colvar::init uses the number of variables including the new one; colvarbias::init uses <type><rank>, the rank being
   the per-type counter of parse_biases_type after it was incremented for this block *)
Definition default_cv_name (st : mstate) : string := "colvar" ++ dec (S (List.length (st_cvs st))).
Definition default_bias_name (rank : nat) : string := "harmonic" ++ dec rank.

(* colvar::~colvar: biases that use the variable are deleted with it *)
Definition del_cv (n : string) (st : mstate) : mstate :=
  mk_state (filter (fun c => negb (String.eqb c n)) (st_cvs st))
           (filter (fun b => negb (mem_str n (snd b))) (st_biases st)) (st_nharm st).
Definition del_bias (n : string) (st : mstate) : mstate :=
  mk_state (st_cvs st) (filter (fun b => negb (String.eqb (fst b) n)) (st_biases st)) (st_nharm st).

(* one "colvar { [name n] ...}" / "harmonic { [name n]  colvars cs ...}" block: refused when the name is taken or a variable is
   missing (colvar::init, colvarbias::init + colvarmodule::check_new_bias); a refused bias block still uses up a rank *)
Definition add_decl (st : mstate) (d : decl) : mstate * bool :=
  match d with
  | DCv on => let n := match on with Some n => n | None => default_cv_name st end in
              if mem_str n (st_cvs st) then (st, false) else (mk_state (st_cvs st ++ [n]) (st_biases st) (st_nharm st), true)
  | DBias on cs => let rank := S (st_nharm st) in
                   let n := match on with Some n => n | None => default_bias_name rank end in
                   if mem_str n (bias_names st) then (mk_state (st_cvs st) (st_biases st) rank, false)
                   else if forallb (fun c => mem_str c (st_cvs st)) cs
                        then (mk_state (st_cvs st) (st_biases st ++ [(n, cs)]) rank, true)
                        else (mk_state (st_cvs st) (st_biases st) rank, false)
  end.
(* colvarmodule::parse_config: blocks in order, stop at the first that fails; what was added stays *)
Fixpoint add_decls (st : mstate) (ds : list decl) : mstate * bool :=
  match ds with
  | [] => (st, true)
  | d :: r => let (st', ok) := add_decl st d in if ok then add_decls st' r else (st', false)
  end.

(* result class of a body: ok / error / not modelled *)
Inductive bclass := BOk | BErr | BUnknown.

Section Exec.
  Variable tbl : list cmd_entry.
  (* the configuration parser is outside this property: a configuration string is represented by the list of
     named blocks it defines (None: not parseable) *)
  Variable parse_conf : string -> option (list decl).
  (* the file system: contents of a configuration file (None: cannot be read) *)
  Variable read_file : string -> option string.

  Definition apply_conf (st : mstate) (text : string) : mstate * bclass :=
    match parse_conf text with
    | None => (st, BErr)
    | Some ds => let (st', ok) := add_decls st ds in (st', if ok then BOk else BErr)
    end.

  (* bodies that change the sets of objects; every other body leaves them alone *)
  Definition body (e : cmd_entry) (words : list string) (st : mstate) : mstate * bclass :=
    let n := e_name e in
    if String.eqb n "colvar_delete" then (del_cv (nth 2 words "") st, BOk)
    else if String.eqb n "bias_delete" then (del_bias (nth 2 words "") st, BOk)
    else if String.eqb n "cv_reset" then (mk_state [] [] 0, BOk)
    else if String.eqb n "cv_config" then apply_conf st (nth 2 words "")
    else if String.eqb n "cv_configfile" then
      match read_file (nth 2 words "") with
      | None => (st, BErr)
      | Some text => apply_conf st text
      end
    else (st, BUnknown).

  (* one script call *)
  Definition exec (st : mstate) (words : list string) : mstate * outcome * bclass :=
    let o := dispatch tbl (st_cvs st) (bias_names st) words in
    match o with
    | Run k e ex => let (st', c) := body e words st in (st', o, c)
    | _ => (st, o, BErr)
    end.

  Inductive event :=
  | ECmd (words : list string)       (* script call *)
  | EStep                            (* one simulation step *)
  | EConfig (text : string).         (* configuration given on the engine side (colvarmodule::read_config_string) *)

  Definition do_event (st : mstate) (ev : event) : mstate :=
    match ev with
    | ECmd w => fst (fst (exec st w))
    | EStep => st
    | EConfig t => fst (apply_conf st t)
    end.
  Definition run_events (st : mstate) (evs : list event) : mstate := fold_left do_event evs st.
End Exec.

(* consistency of the object sets: names unique, every bias refers to existing variables *)
Definition state_wf (st : mstate) : bool :=
  nodup_names (st_cvs st) && nodup_names (bias_names st) &&
  forallb (fun b => forallb (fun c => mem_str c (st_cvs st)) (snd b)) (st_biases st).
