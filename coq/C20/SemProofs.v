From Coq Require Import ZArith List Bool String Lia.
From CV Require Import C20.ScriptModel C20.ScriptProofs C20.SemModel.
Import ListNotations.
Local Open Scope string_scope.

(* the commands whose body is a projection of the state *)
Definition query_names : list string :=
  ["colvar_value"; "colvar_getappliedforce"; "colvar_gettotalforce"; "colvar_getatomids"; "bias_energy"; "cv_getenergy";
   "cv_getstepabsolute"; "cv_getnumatoms"; "cv_getatomids"; "cv_getatommasses"; "cv_getatomcharges"; "cv_getatompositions";
   "cv_getatomappliedforces"; "cv_getatomtotalforces"; "cv_list"].

Section SemProofs.
  Context {T : Type}.
  Variable tbl : list cmd_entry.
  Variable parse_conf : string -> option (list decl).
  Variable read_file : string -> option string.
  Notation sem := (@sem T).

  Lemma alookup_map_fst {A B} (f : string * A -> B) n (l : list (string * A)) :
    alookup n (map (fun p => (fst p, f p)) l) = match alookup n l with Some a => Some (f (n, a)) | None => None end.
  Proof.
    induction l as [|[m a] r IH]; cbn [map alookup fst]; [reflexivity|].
    destruct (String.eqb m n) eqn:E; [apply String.eqb_eq in E; subst; reflexivity | exact IH].
  Qed.

  Lemma map_fst_aset {A} n (a : A) l : map fst (aset n a l) = map fst l.
  Proof.
    induction l as [|[m b] r IH]; cbn [aset map fst]; [reflexivity|].
    destruct (String.eqb m n); cbn [map fst]; [reflexivity | rewrite IH; reflexivity].
  Qed.

  Lemma drop_feat_cv (st : sem) : sm_cv (drop_feat st) = sm_cv st /\ sm_bias (drop_feat st) = sm_bias st /\ sm_objs (drop_feat st) = sm_objs st.
  Proof. unfold drop_feat. destruct (sm_mod st); repeat split; reflexivity. Qed.

  (* a body that the structural model does not know leaves the object sets alone *)
  Lemma body_unknown e words objs objs' : body parse_conf read_file e words objs = (objs', BUnknown) -> objs' = objs.
  Proof.
    unfold body, apply_conf.
    destruct (String.eqb (e_name e) "colvar_delete"); [discriminate|].
    destruct (String.eqb (e_name e) "bias_delete"); [discriminate|].
    destruct (String.eqb (e_name e) "cv_reset"); [discriminate|].
    destruct (String.eqb (e_name e) "cv_config").
    { destruct (parse_conf (nth 2 words "")); [destruct (add_decls objs l) as [s b]; destruct b|]; discriminate. }
    destruct (String.eqb (e_name e) "cv_configfile").
    { destruct (read_file (nth 2 words "")); [|discriminate].
      destruct (parse_conf s); [destruct (add_decls objs l) as [s' b]; destruct b|]; discriminate. }
    intros H; injection H as <-. reflexivity.
  Qed.

  (* the structural model does not know the query / inert commands *)
  Lemma body_of_query e words objs : In (e_name e) query_names \/ inert (e_name e) = true \/ e_name e = "colvar_getgradients" \/ e_name e = "colvar_set" ->
    body parse_conf read_file e words objs = (objs, BUnknown).
  Proof.
    intros H. unfold body.
    assert (N : String.eqb (e_name e) "colvar_delete" = false /\ String.eqb (e_name e) "bias_delete" = false /\
                String.eqb (e_name e) "cv_reset" = false /\ String.eqb (e_name e) "cv_config" = false /\
                String.eqb (e_name e) "cv_configfile" = false).
    { destruct H as [H|[H|[H|H]]].
      - unfold query_names in H. repeat (destruct H as [<-|H]; [repeat split; reflexivity|]). destruct H.
      - unfold inert in H. apply existsb_exists in H. destruct H as [x [Hin Hx]]. apply String.eqb_eq in Hx. subst x.
        repeat (destruct Hin as [<-|Hin]; [repeat split; reflexivity|]). destruct Hin.
      - rewrite H. repeat split; reflexivity.
      - rewrite H. repeat split; reflexivity. }
    destruct N as (N1 & N2 & N3 & N4 & N5). rewrite N1, N2, N3, N4, N5. reflexivity.
  Qed.

  Lemma pure_query_defined (st : sem) fn obj arg : In fn query_names -> exists r, pure_query st fn obj arg = Some r.
  Proof.
    unfold query_names. intros H.
    repeat (destruct H as [<-|H]; [eexists; reflexivity|]). destruct H.
  Qed.

  (* C20_getters_read_state: a query returns the component of the state and changes nothing *)
  Lemma getters_read_state (st : sem) words k e ex :
    dispatch tbl (st_cvs (sm_objs st)) (bias_names (sm_objs st)) words = Run k e ex ->
    In (e_name e) query_names ->
    exists r, pure_query st (e_name e) (nth 2 words "") (nth_error words 2) = Some r /\
              exec_sem tbl parse_conf read_file st words = (st, Run k e ex, r).
  Proof.
    intros Hd Hq. destruct (pure_query_defined st (e_name e) (nth 2 words "") (nth_error words 2) Hq) as [r Hr].
    exists r. split; [exact Hr|].
    unfold exec_sem, exec. rewrite Hd. rewrite (body_of_query e words (sm_objs st) (or_introl Hq)).
    unfold body_sem. rewrite Hr. reflexivity.
  Qed.

  Lemma inert_not_query (st : sem) fn obj arg : inert fn = true -> pure_query st fn obj arg = None.
  Proof.
    unfold inert. intros H. apply existsb_exists in H. destruct H as [x [Hin Hx]]. apply String.eqb_eq in Hx. subst x.
    repeat (destruct Hin as [<-|Hin]; [reflexivity|]). destruct Hin.
  Qed.

  Lemma inert_changes_nothing (st : sem) words k e ex :
    dispatch tbl (st_cvs (sm_objs st)) (bias_names (sm_objs st)) words = Run k e ex ->
    inert (e_name e) = true ->
    exec_sem tbl parse_conf read_file st words = (st, Run k e ex, QOk).
  Proof.
    intros Hd Hi. unfold exec_sem, exec. rewrite Hd.
    rewrite (body_of_query e words (sm_objs st) (or_intror (or_introl Hi))).
    unfold body_sem. rewrite (inert_not_query st _ _ _ Hi), Hi. reflexivity.
  Qed.

  Lemma rejected_sem (st : sem) words :
    is_error (dispatch tbl (st_cvs (sm_objs st)) (bias_names (sm_objs st)) words) = true ->
    exec_sem tbl parse_conf read_file st words = (st, dispatch tbl (st_cvs (sm_objs st)) (bias_names (sm_objs st)) words, QErr).
  Proof.
    intros H. unfold exec_sem. rewrite (rejected_unchanged tbl parse_conf read_file (sm_objs st) words H).
    destruct (dispatch tbl (st_cvs (sm_objs st)) (bias_names (sm_objs st)) words); try reflexivity. discriminate.
  Qed.

  (* a call that cannot change anything: rejected, a query, or an inert body *)
  Definition quiet (st : sem) (words : list string) : Prop :=
    let o := dispatch tbl (st_cvs (sm_objs st)) (bias_names (sm_objs st)) words in
    is_error o = true \/ exists k e ex, o = Run k e ex /\ (In (e_name e) query_names \/ inert (e_name e) = true).

  Lemma quiet_unchanged (st : sem) words : quiet st words -> fst (fst (exec_sem tbl parse_conf read_file st words)) = st.
  Proof.
    intros [H|(k & e & ex & Hd & [Hq|Hi])].
    - rewrite (rejected_sem st words H). reflexivity.
    - destruct (getters_read_state st words k e ex Hd Hq) as [r [_ Hr]]. rewrite Hr. reflexivity.
    - rewrite (inert_changes_nothing st words k e ex Hd Hi). reflexivity.
  Qed.

  Lemma quiet_sequence_unchanged (st : sem) qs : Forall (quiet st) qs ->
    run_sevents tbl parse_conf read_file st (map (@SCmd T) qs) = st.
  Proof.
    unfold run_sevents. induction qs as [|w r IH]; intros H; cbn [map fold_left]; [reflexivity|].
    inversion H as [|? ? Hw Hr]; subst. cbn [do_sevent]. rewrite (quiet_unchanged st w Hw). apply IH. exact Hr.
  Qed.

  (* after a step, and after any number of rejected calls and queries, a query on a variable returns the numbers observed
     on the engine side at that step *)
  Lemma query_returns_last_observation (st : sem) ob qs x d :
    alookup x (sm_cv st) <> None -> alookup x (ob_cv ob) = Some d ->
    let st1 := sem_step st ob in
    Forall (quiet st1) qs ->
    let st2 := run_sevents tbl parse_conf read_file st1 (map (@SCmd T) qs) in
    st2 = st1 /\
    pure_query st2 "colvar_value" x None = Some (QReal (cd_value d)) /\
    pure_query st2 "colvar_getappliedforce" x None = Some (QReal (cd_af d)) /\
    pure_query st2 "colvar_gettotalforce" x None = Some (QReal (cd_tf d)) /\
    pure_query st2 "colvar_getatomids" x None = Some (QInts (cd_atoms d)) /\
    pure_query st2 "cv_getenergy" x None = Some (QReal6 (md_energy (ob_mod ob))) /\
    pure_query st2 "cv_getatomappliedforces" x None = Some (QVecs (md_af (ob_mod ob))) /\
    pure_query st2 "cv_getatompositions" x None = Some (QVecs (md_pos (ob_mod ob))).
  Proof.
    intros Hx Hd st1 Hq st2. assert (E : st2 = st1) by (apply quiet_sequence_unchanged; exact Hq).
    split; [exact E|]. rewrite E. unfold st1.
    assert (L : alookup x (sm_cv (sem_step st ob)) =
                match alookup x (sm_cv st) with
                | Some c => Some (mk_cvsem (Some d) (cs_collect c) (step_valid (ob_ok ob) c (Some d))
                                           (fst (step_cvcs (ob_ok ob) c (Some d))) (snd (step_cvcs (ob_ok ob) c (Some d))))
                | None => None end).
    { unfold sem_step. cbn [sm_cv]. rewrite alookup_map_fst. cbn [fst snd]. rewrite Hd. reflexivity. }
    destruct (alookup x (sm_cv st)) as [c|] eqn:Ec; [|contradiction].
    repeat split; cbn -[alookup sem_step]; unfold with_cv, with_mod; try rewrite L; reflexivity.
  Qed.

  Lemma bias_energy_returns_last_observation (st : sem) ob b en :
    alookup b (sm_bias st) <> None -> alookup b (ob_bias ob) = Some en ->
    pure_query (sem_step st ob) "bias_energy" b None = Some (QReal6 en).
  Proof.
    intros Hb He. cbn -[alookup sem_step]. unfold sem_step. cbn [sm_bias]. rewrite alookup_map_fst. cbn [fst].
    destruct (alookup b (sm_bias st)); [|contradiction]. rewrite He. reflexivity.
  Qed.

  (* gradients: without the feature, or before a step has followed its activation, the answer is an error; afterwards the feature
     is on and the gradients are still unavailable *)
  Lemma getgradients_needs_a_step (st : sem) e words x c :
    e_name e = "colvar_getgradients" -> nth 2 words "" = x -> alookup x (sm_cv st) = Some c ->
    (cs_collect c = false \/ cs_valid c = Some false) ->
    snd (body_sem st e words) = QErr /\
    forall c', alookup x (sm_cv (fst (body_sem st e words))) = Some c' -> cs_collect c' = true /\ cs_valid c' = Some false.
  Proof.
    intros Hn Hx Hc Hf. unfold body_sem. rewrite Hn. cbn -[alookup set_flags]. rewrite Hx, Hc.
    destruct (cs_collect c) eqn:E1; cbn [negb].
    - destruct Hf as [Hf|Hf]; [discriminate|]. rewrite Hf. cbn [snd fst]. split; [reflexivity|].
      intros c' Hc'. rewrite Hc in Hc'. injection Hc' as <-. rewrite E1, Hf. split; reflexivity.
    - cbn [snd fst]. split; [reflexivity|]. intros c' Hc'. rewrite (proj1 (drop_feat_cv _)) in Hc'. unfold set_flags in Hc'. rewrite Hc in Hc'. cbn [sm_cv] in Hc'.
      assert (A : forall l, alookup x l = Some c -> alookup x (aset x (mk_cvsem (cs_data c) true (Some false) (cs_cvcs c) (cs_pending c)) l)
                                                  = Some (mk_cvsem (cs_data c) true (Some false) (cs_cvcs c) (cs_pending c))).
      { induction l as [|[m b] r IH]; cbn [alookup aset]; [discriminate|].
        destruct (String.eqb m x) eqn:Em; cbn [alookup]; rewrite Em; [reflexivity | exact IH]. }
      rewrite (A _ Hc) in Hc'. injection Hc' as <-. cbn [cs_collect cs_valid]. split; reflexivity.
  Qed.

  (* and after a step that ran through, with the feature on and the variable active, they are the gradients observed *)
  Lemma getgradients_after_step (st : sem) ob e words x c d :
    e_name e = "colvar_getgradients" -> nth 2 words "" = x -> alookup x (sm_cv st) = Some c -> alookup x (ob_cv ob) = Some d ->
    cs_collect c = true -> ob_ok ob = true -> cd_active d = true ->
    body_sem (sem_step st ob) e words = (sem_step st ob, QVecs (cd_grads d)).
  Proof.
    intros Hn Hx Hc Hd Hcol Hok Hact. unfold body_sem. rewrite Hn. cbn -[alookup sem_step]. rewrite Hx.
    assert (L : alookup x (sm_cv (sem_step st ob)) = Some (mk_cvsem (Some d) (cs_collect c) (step_valid (ob_ok ob) c (Some d))
                                                                 (fst (step_cvcs (ob_ok ob) c (Some d))) (snd (step_cvcs (ob_ok ob) c (Some d))))).
    { unfold sem_step. cbn [sm_cv]. rewrite alookup_map_fst. cbn [fst snd]. rewrite Hc, Hd. reflexivity. }
    rewrite L. cbn [cs_collect cs_valid cs_data]. rewrite Hcol. cbn [negb]. unfold step_valid. rewrite Hcol, Hok, Hact.
    destruct (cs_valid c) as [[|]|]; reflexivity.
  Qed.

  (* `get <feature>` returns the observed state of the feature and changes nothing *)
  Lemma feature_get_reads_state (st : sem) e words :
    e_name e = "colvar_get" \/ e_name e = "bias_get" -> fst (body_sem st e words) = st /\
    snd (body_sem st e words) =
      (if String.eqb (e_name e) "colvar_get"
       then feature_query st ("c:" ++ nth 2 words "") (nth 4 words "")
              (match alookup (nth 2 words "") (sm_cv st) with Some cs => Some (cs_collect cs) | None => None end)
       else feature_query st ("b:" ++ nth 2 words "") (nth 4 words "") None).
  Proof. intros [H|H]; unfold body_sem; rewrite H; cbn -[feature_query alookup]; split; reflexivity. Qed.

  (* ---- deferred component flags (cvcflags): stored, last accepted command wins, applied by the next calc() ---- *)
  Lemma alookup_aset_same {A} x (a : A) l : alookup x l <> None -> alookup x (aset x a l) = Some a.
  Proof.
    induction l as [|[m b] r IH]; cbn [alookup aset]; [intros H; contradiction|].
    destruct (String.eqb m x) eqn:Em; cbn [alookup]; rewrite Em; [reflexivity | exact IH].
  Qed.

  Lemma cvcflags_body (st : sem) e words x cs cur :
    e_name e = "colvar_cvcflags" -> nth 2 words "" = x -> alookup x (sm_cv st) = Some cs -> cs_cvcs cs = Some cur ->
    let r := set_pending cur (cs_pending cs) (parse_flags (nth 4 words "")) in
    snd (body_sem st e words) = (if snd r then QInt 0 else QErr) /\
    alookup x (sm_cv (fst (body_sem st e words))) =
      Some (mk_cvsem (cs_data cs) (cs_collect cs) (cs_valid cs) (Some cur) (fst r)) /\
    sm_mod (fst (body_sem st e words)) = sm_mod st /\ sm_bias (fst (body_sem st e words)) = sm_bias st.
  Proof.
    intros Hn Hx Hc Hcur r. unfold body_sem. rewrite Hn. cbn -[alookup set_cvcs set_pending parse_flags]. rewrite Hx, Hc, Hcur.
    fold r. destruct r as [p ok]. cbn [fst snd]. split; [reflexivity|].
    unfold set_cvcs. rewrite Hc. cbn [sm_cv sm_mod sm_bias]. split; [|split; reflexivity].
    apply alookup_aset_same. rewrite Hc. discriminate.
  Qed.

  (* ---- an error answer of a modelled body leaves the state as it was ---- *)
  Lemma aset_same {A} x (a : A) l : alookup x l = Some a -> aset x a l = l.
  Proof.
    induction l as [|[m b] r IH]; cbn [alookup aset]; [reflexivity|].
    destruct (String.eqb m x) eqn:Em.
    - intros H; injection H as ->. reflexivity.
    - intros H. rewrite (IH H). reflexivity.
  Qed.

  Definition error_is_clean (fn : string) : bool :=
    existsb (String.eqb fn) ["cv_list"; "colvar_get"; "bias_get"; "colvar_cvcflags"; "bias_bin"; "bias_bincount"; "bias_binnum";
                             "bias_local_sample_count"; "bias_share"].

  Lemma error_answer_changes_nothing (st : sem) e words :
    error_is_clean (e_name e) = true -> snd (body_sem st e words) = QErr -> fst (body_sem st e words) = st.
  Proof.
    unfold error_is_clean. intros H. apply existsb_exists in H. destruct H as [x [Hin Hx]]. apply String.eqb_eq in Hx. subst x.
    destruct Hin as [Hn|[Hn|[Hn|[Hn|Hin]]]].
    - unfold body_sem. rewrite <- Hn. cbn -[alookup]. destruct (nth_error words 2); intros _; reflexivity.
    - unfold body_sem. rewrite <- Hn. cbn -[alookup feature_query]. intros _. reflexivity.
    - unfold body_sem. rewrite <- Hn. cbn -[alookup feature_query]. intros _. reflexivity.
    - unfold body_sem. rewrite <- Hn. cbn -[alookup set_cvcs set_pending parse_flags].
      destruct (alookup (nth 2 words "") (sm_cv st)) as [cs|] eqn:Ec; [|intros _; reflexivity].
      destruct (cs_cvcs cs) as [cur|] eqn:Ecur; [|cbn [snd]; discriminate].
      unfold set_pending. destruct (List.length (parse_flags (nth 4 words "")) =? List.length cur)%nat; cbn [fst snd]; [discriminate|].
      intros _. unfold set_cvcs. rewrite Ec. rewrite <- Ecur.
      replace (mk_cvsem (cs_data cs) (cs_collect cs) (cs_valid cs) (cs_cvcs cs) (cs_pending cs)) with cs by (destruct cs; reflexivity).
      rewrite (aset_same _ _ _ Ec). destruct st; reflexivity.
    - unfold body_sem. repeat (destruct Hin as [Hn|Hin]; [rewrite <- Hn; cbn -[alookup]; intros _; reflexivity|]). destruct Hin.
  Qed.

  (* the data stay attached to the objects that exist, over every history *)
  Lemma resync_wf (st : sem) objs : sem_wf (resync st objs).
  Proof.
    unfold sem_wf, resync, bias_names. cbn [sm_cv sm_bias sm_objs]. rewrite !map_map. cbn [fst]. split; [apply map_id | reflexivity].
  Qed.

  Lemma body_sem_wf (st : sem) e words : sem_wf st -> sem_wf (fst (body_sem st e words)) /\ sm_objs (fst (body_sem st e words)) = sm_objs st.
  Proof.
    intros [H1 H2].
    assert (F : forall n c v, sem_wf (set_flags st n c v) /\ sm_objs (set_flags st n c v) = sm_objs st).
    { intros n c v. unfold set_flags. destruct (alookup n (sm_cv st)); [|split; [split; assumption | reflexivity]].
      unfold sem_wf. cbn [sm_cv sm_bias sm_objs]. rewrite map_fst_aset. repeat split; assumption. }
    assert (I : sem_wf (invalidate st) /\ sm_objs (invalidate st) = sm_objs st).
    { unfold sem_wf, invalidate. cbn [sm_cv sm_bias sm_objs]. rewrite !map_map. cbn [fst]. repeat split; assumption. }
    assert (D : forall s0 : sem, sem_wf s0 /\ sm_objs s0 = sm_objs st -> sem_wf (drop_feat s0) /\ sm_objs (drop_feat s0) = sm_objs st).
    { intros s0 [[W1 W2] Ho]. destruct (drop_feat_cv s0) as (E1 & E2 & E3). unfold sem_wf. rewrite E1, E2, E3. repeat split; assumption. }
    unfold body_sem.
    destruct (pure_query st (e_name e) (nth 2 words "") (nth_error words 2)); [split; [split; assumption | reflexivity]|].
    destruct (inert (e_name e)); [split; [split; assumption | reflexivity]|].
    destruct (grid_only (e_name e)); [split; [split; assumption | reflexivity]|].
    destruct (String.eqb (e_name e) "colvar_get"); [split; [split; assumption | reflexivity]|].
    destruct (String.eqb (e_name e) "bias_get"); [split; [split; assumption | reflexivity]|].
    destruct (String.eqb (e_name e) "colvar_getgradients").
    { destruct (alookup (nth 2 words "") (sm_cv st)) as [cs|]; [|split; [split; assumption | reflexivity]].
      destruct (negb (cs_collect cs)); [apply D; apply F|]. destruct (cs_valid cs) as [[|]|]; split; try split; try assumption; reflexivity. }
    destruct (String.eqb (e_name e) "colvar_set" && String.eqb (nth 4 words "") "collect_gradient").
    { destruct (alookup (nth 2 words "") (sm_cv st)) as [cs|]; [|split; [split; assumption | reflexivity]].
      destruct (truthy (nth 5 words "")) as [[|]|]; cbn [fst].
      - destruct (cs_collect cs); [split; [split; assumption | reflexivity] | apply D; apply F].
      - apply D; apply F.
      - split; [split; assumption | reflexivity]. }
    assert (G : forall (s0 : sem) n a p, sem_wf s0 -> sm_objs s0 = sm_objs st -> sem_wf (set_cvcs s0 n a p) /\ sm_objs (set_cvcs s0 n a p) = sm_objs st).
    { intros s0 n a p [W1 W2] Ho. unfold set_cvcs. destruct (alookup n (sm_cv s0)); [|split; [split; assumption | exact Ho]].
      unfold sem_wf. cbn [sm_cv sm_bias sm_objs]. rewrite map_fst_aset. repeat split; assumption. }
    destruct (String.eqb (e_name e) "colvar_cvcflags").
    { destruct (alookup (nth 2 words "") (sm_cv st)) as [cs|]; [|split; [split; assumption | reflexivity]].
      destruct (cs_cvcs cs) as [cur|].
      - destruct (set_pending cur (cs_pending cs) (parse_flags (nth 4 words ""))) as [p ok]. cbn [fst]. apply G; [split; assumption | reflexivity].
      - cbn [fst]. apply G; [split; assumption | reflexivity]. }
    assert (FI : forall n c v, sem_wf (set_flags (invalidate st) n c v) /\ sm_objs (set_flags (invalidate st) n c v) = sm_objs st).
    { intros n c v. destruct I as [[I1 I2] I3]. unfold set_flags. destruct (alookup n (sm_cv (invalidate st))); [|split; [split; assumption | exact I3]].
      unfold sem_wf. cbn [sm_cv sm_bias sm_objs]. rewrite map_fst_aset. repeat split; assumption. }
    destruct (String.eqb (e_name e) "colvar_update").
    { cbn [fst]. destruct (alookup (nth 2 words "") (sm_cv st)) as [cs|]; [|exact I].
      destruct (FI (nth 2 words "") (cs_collect cs) (if cs_collect cs then None else Some false)) as [W Ho]. apply G; assumption. }
    destruct (String.eqb (e_name e) "cv_update"); [|exact I].
    cbn [fst]. destruct I as [[I1 I2] I3]. unfold sem_wf. cbn [sm_cv sm_bias sm_objs]. rewrite map_map. cbn [fst].
    repeat split; assumption.
  Qed.

  Lemma exec_sem_wf (st : sem) words : sem_wf st -> sem_wf (fst (fst (exec_sem tbl parse_conf read_file st words))).
  Proof.
    intros H. unfold exec_sem.
    destruct (exec tbl parse_conf read_file (sm_objs st) words) as [[objs' o] c] eqn:E.
    destruct o; try exact H.
    destruct c; cbn [fst]; try apply resync_wf.
    assert (B := body_sem_wf st e words H). destruct (body_sem st e words) as [st' r]. cbn [fst] in *. apply B.
  Qed.

  Lemma sem_step_wf (st : sem) ob : sem_wf st -> sem_wf (sem_step st ob).
  Proof. intros [H1 H2]. unfold sem_wf, sem_step. cbn [sm_cv sm_bias sm_objs]. rewrite !map_map. cbn [fst]. split; assumption. Qed.

  Lemma run_sevents_wf evs : forall st : sem, sem_wf st -> sem_wf (run_sevents tbl parse_conf read_file st evs).
  Proof.
    unfold run_sevents. induction evs as [|ev r IH]; intros st H; cbn [fold_left]; [exact H|]. apply IH.
    destruct ev as [w|ob|t]; cbn [do_sevent]; [apply exec_sem_wf; exact H | apply sem_step_wf; exact H | apply resync_wf].
  Qed.

  (* the semantic layer refines the structural one: the object sets evolve as in ScriptModel *)
End SemProofs.

(* ---- last accepted command wins (list level) ---- *)
Definition last_accepted (cur : list bool) (cmds : list (list bool)) : option (list bool) :=
  find (fun f => (List.length f =? List.length cur)%nat) (rev cmds).
Definition pending_after (cur : list bool) (p0 : option (list bool)) (cmds : list (list bool)) : option (list bool) :=
  fold_left (fun p f => fst (set_pending cur p f)) cmds p0.

Lemma find_snoc {A} (p : A -> bool) l x : find p (l ++ [x])%list = match find p l with Some y => Some y | None => if p x then Some x else None end.
Proof. induction l as [|a r IH]; cbn [app find]; [reflexivity|]. destruct (p a); [reflexivity | exact IH]. Qed.

Lemma pending_after_last cur cmds : forall p0,
  pending_after cur p0 cmds = match last_accepted cur cmds with Some f => Some f | None => p0 end.
Proof.
  unfold pending_after, last_accepted. induction cmds as [|f r IH]; intros p0; cbn [fold_left rev find]; [reflexivity|].
  rewrite IH. rewrite find_snoc. unfold set_pending.
  destruct (find (fun f0 => (List.length f0 =? List.length cur)%nat) (rev r)) as [g|]; [reflexivity|].
  destruct (List.length f =? List.length cur)%nat; reflexivity.
Qed.

(* after any burst of cvcflags commands between two updates, the components enabled at the next update are those of the LAST
   accepted command (unchanged if none was accepted; all off and still pending if it enables nothing) *)
Lemma cvcflags_last_command_wins cur cmds :
  apply_pending cur (pending_after cur None cmds) =
  match last_accepted cur cmds with
  | None => (cur, None)
  | Some f => if existsb (fun b => b) f then (f, None) else (f, Some f)
  end.
Proof. rewrite pending_after_last. destruct (last_accepted cur cmds); reflexivity. Qed.

Lemma last_accepted_spec cur cmds f : last_accepted cur cmds = Some f ->
  List.length f = List.length cur /\ exists before after, cmds = (before ++ f :: after)%list /\
  Forall (fun g => List.length g <> List.length cur) after.
Proof.
  unfold last_accepted. revert f. induction cmds as [|g r IH] using rev_ind; intros f H; [discriminate|].
  rewrite rev_app_distr in H. cbn [rev app find] in H.
  destruct (List.length g =? List.length cur)%nat eqn:E.
  - injection H as <-. apply Nat.eqb_eq in E. split; [exact E|]. exists r, []. split; [reflexivity | constructor].
  - destruct (IH f H) as [Hl (b & a & Hr & Ha)]. split; [exact Hl|]. exists b, (a ++ [g])%list. split.
    + rewrite Hr. rewrite <- app_assoc. reflexivity.
    + apply Forall_app. split; [exact Ha|]. constructor; [|constructor]. apply Nat.eqb_neq. exact E.
Qed.
