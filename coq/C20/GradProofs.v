From Coq Require Import ZArith List Bool Lia Permutation.
From CV Require Import C20.GradModel.
Import ListNotations.
Local Open Scope Z_scope.

Lemma increasing_tail x r : increasing (x :: r) = true -> increasing r = true.
Proof. cbn [increasing]. destruct r as [|y r']; [reflexivity|]. intros H. apply andb_true_iff in H. apply H. Qed.

Lemma increasing_head_lt x r a : increasing (x :: r) = true -> In a r -> x < a.
Proof.
  revert x. induction r as [|y r IH]; intros x H Hin; [destruct Hin|].
  cbn [increasing] in H. apply andb_true_iff in H as [H1 H2]. apply Z.ltb_lt in H1.
  destruct Hin as [<-|Hin]; [exact H1|]. assert (y < a) by (apply IH; assumption). lia.
Qed.

(* looking an id of the list up gives its position *)
Lemma lower_bound_nth ids a : increasing ids = true -> In a ids -> nth (lower_bound ids a) ids 0 = a /\ (lower_bound ids a < length ids)%nat.
Proof.
  induction ids as [|x r IH]; intros H Hin; [destruct Hin|].
  cbn [lower_bound]. destruct Hin as [->|Hin].
  - rewrite Z.ltb_irrefl. cbn [nth length]. split; [reflexivity | lia].
  - assert (Hlt := increasing_head_lt x r a H Hin). apply Z.ltb_lt in Hlt. rewrite Hlt.
    destruct (IH (increasing_tail _ _ H) Hin) as [H1 H2]. cbn [nth length]. split; [exact H1 | lia].
Qed.

Lemma lower_bound_inj ids a b : increasing ids = true -> In a ids -> In b ids -> lower_bound ids a = lower_bound ids b -> a = b.
Proof.
  intros H Ha Hb E. destruct (lower_bound_nth ids a H Ha) as [H1 _]. destruct (lower_bound_nth ids b H Hb) as [H2 _].
  rewrite E in H1. congruence.
Qed.

Section CollectProofs.
  Context {T : Type}.
  Variable add : T -> T -> T.
  Hypothesis add_comm : forall a b, add a b = add b a.
  Hypothesis add_assoc : forall a b c, add a (add b c) = add (add a b) c.

  Lemma bump_length g i v : length (bump add g i v) = length g.
  Proof. revert i. induction g as [|x r IH]; intros i; [reflexivity|]. destruct i; cbn [bump length]; [reflexivity | rewrite IH; reflexivity]. Qed.

  Lemma bump_comm g i j v w : bump add (bump add g i v) j w = bump add (bump add g j w) i v.
  Proof.
    revert i j. induction g as [|x r IH]; intros i j; [reflexivity|].
    destruct i, j; cbn [bump]; try reflexivity.
    - f_equal. rewrite <- !add_assoc. f_equal. apply add_comm.
    - f_equal. apply IH.
  Qed.

  Lemma nth_bump g i j v d : (j < length g)%nat ->
    nth i (bump add g j v) d = if Nat.eqb i j then add (nth i g d) v else nth i g d.
  Proof.
    revert i j. induction g as [|x r IH]; intros i j H; [cbn [length] in H; lia|].
    destruct j, i; cbn [bump nth Nat.eqb]; try reflexivity.
    apply IH. cbn [length] in H. lia.
  Qed.

  Lemma collect_group_length ids grp : forall acc, length (collect_group add ids acc grp) = length acc.
  Proof.
    unfold collect_group. induction grp as [|p r IH]; intros acc; cbn [fold_left]; [reflexivity|].
    rewrite IH. apply bump_length.
  Qed.

  (* the listing order of the atoms of a group is irrelevant *)
  Lemma collect_group_perm ids g g' : Permutation g g' -> forall acc, collect_group add ids acc g = collect_group add ids acc g'.
  Proof.
    unfold collect_group. induction 1 as [|p l l' Hp IH|p q l|l l' l'' H1 IH1 H2 IH2]; intros acc; cbn [fold_left].
    - reflexivity.
    - apply IH.
    - rewrite bump_comm. reflexivity.
    - rewrite IH1. apply IH2.
  Qed.

  Lemma collect_groups_concat ids grps : forall acc, collect_groups add ids acc grps = collect_group add ids acc (concat grps).
  Proof.
    unfold collect_groups, collect_group. induction grps as [|g r IH]; intros acc; cbn [fold_left concat]; [reflexivity|].
    rewrite fold_left_app. apply IH.
  Qed.

  (* neither is the distribution of the atoms over groups / components / fitting groups *)
  Lemma collect_groups_perm ids grps grps' acc : Permutation (concat grps) (concat grps') ->
    collect_groups add ids acc grps = collect_groups add ids acc grps'.
  Proof. intros H. rewrite !collect_groups_concat. apply collect_group_perm. exact H. Qed.

  (* the entry of id a receives exactly the contributions made under id a *)
  Lemma collect_group_attribution ids a d grp : increasing ids = true -> In a ids -> Forall (fun p => In (fst p) ids) grp ->
    forall acc, length acc = length ids ->
    nth (lower_bound ids a) (collect_group add ids acc grp) d =
    fold_left (fun s p => if fst p =? a then add s (snd p) else s) grp (nth (lower_bound ids a) acc d).
  Proof.
    intros Hinc Ha. unfold collect_group. induction grp as [|p r IH]; intros Hall acc Hlen; cbn [fold_left]; [reflexivity|].
    inversion Hall as [|? ? Hp Hr]; subst.
    rewrite IH; [|exact Hr | rewrite bump_length; exact Hlen].
    f_equal. destruct (lower_bound_nth ids (fst p) Hinc Hp) as [_ Hlt].
    rewrite nth_bump; [|rewrite Hlen; exact Hlt].
    destruct (fst p =? a) eqn:E.
    - apply Z.eqb_eq in E. rewrite E, Nat.eqb_refl. reflexivity.
    - apply Z.eqb_neq in E. destruct (Nat.eqb (lower_bound ids a) (lower_bound ids (fst p))) eqn:E2; [|reflexivity].
      apply Nat.eqb_eq in E2. exfalso. apply E. symmetry. apply (lower_bound_inj ids a (fst p) Hinc Ha Hp E2).
  Qed.
End CollectProofs.

(* the id list of build_atom_list: increasing, and it contains exactly the ids of the groups *)
Lemma insert_id_in a b ids : In b (insert_id a ids) <-> b = a \/ In b ids.
Proof.
  induction ids as [|x r IH]; cbn [insert_id In]; [intuition|].
  destruct (a <? x); [cbn [In]; intuition|]. destruct (a =? x) eqn:E.
  - apply Z.eqb_eq in E. subst. cbn [In]. intuition.
  - cbn [In]. rewrite IH. intuition.
Qed.

Lemma insert_id_increasing a ids : increasing ids = true -> increasing (insert_id a ids) = true.
Proof.
  induction ids as [|x r IH]; intros H; [reflexivity|].
  cbn [insert_id]. destruct (a <? x) eqn:E1.
  - cbn [increasing]. cbn [increasing] in H. rewrite E1. exact H.
  - destruct (a =? x) eqn:E2; [exact H|].
    apply Z.ltb_ge in E1. apply Z.eqb_neq in E2. assert (Hx : x < a) by lia.
    assert (Ht := IH (increasing_tail _ _ H)).
    destruct r as [|y r'].
    + cbn [insert_id increasing]. apply Z.ltb_lt in Hx. rewrite Hx. reflexivity.
    + cbn [insert_id] in *. cbn [increasing] in H. apply andb_true_iff in H as [Hxy _].
      destruct (a <? y) eqn:E3.
      * change (increasing (x :: a :: y :: r')) with ((x <? a) && increasing (a :: y :: r')).
        apply Z.ltb_lt in Hx. rewrite Hx. exact Ht.
      * destruct (a =? y) eqn:E4.
        -- change (increasing (x :: y :: r')) with ((x <? y) && increasing (y :: r')). rewrite Hxy. exact Ht.
        -- change (increasing (x :: y :: insert_id a r')) with ((x <? y) && increasing (y :: insert_id a r')). rewrite Hxy. exact Ht.
Qed.

Lemma build_ids_spec grps : increasing (build_ids grps) = true /\ forall a, In a (build_ids grps) <-> In a (concat grps).
Proof.
  unfold build_ids.
  assert (G : forall g ids, increasing ids = true ->
            increasing (fold_left (fun ids a => insert_id a ids) g ids) = true /\
            forall a, In a (fold_left (fun ids a => insert_id a ids) g ids) <-> In a g \/ In a ids).
  { induction g as [|b r IH]; intros ids H; cbn [fold_left]; [split; [exact H | intros a; cbn [In]; intuition]|].
    destruct (IH (insert_id b ids) (insert_id_increasing b ids H)) as [H1 H2]. split; [exact H1|].
    intros a. rewrite H2, insert_id_in. cbn [In]. intuition. }
  assert (F : forall grps ids, increasing ids = true ->
            increasing (fold_left (fun ids g => fold_left (fun ids a => insert_id a ids) g ids) grps ids) = true /\
            forall a, In a (fold_left (fun ids g => fold_left (fun ids a => insert_id a ids) g ids) grps ids) <-> In a (concat grps) \/ In a ids).
  { induction grps0 as [|g r IH]; intros ids H; cbn [fold_left concat]; [split; [exact H | intros a; cbn [In]; intuition]|].
    destruct (G g ids H) as [G1 G2]. destruct (IH _ G1) as [H1 H2]. split; [exact H1|].
    intros a. rewrite H2, G2, in_app_iff. intuition. }
  destruct (F grps [] eq_refl) as [H1 H2]. split; [exact H1|]. intros a. rewrite H2. cbn [In]. intuition.
Qed.

(* ================= statements used by Properties_C20.v ================= *)
Lemma gradients_listing_order_irrelevant (T : Type) (add : T -> T -> T) :
  (forall a b, add a b = add b a) -> (forall a b c, add a (add b c) = add (add a b) c) ->
  forall ids acc grps grps', Permutation (concat grps) (concat grps') ->
  collect_groups add ids acc grps = collect_groups add ids acc grps'.
Proof. intros Hc Ha ids acc grps grps' H. apply collect_groups_perm; assumption. Qed.

Lemma gradients_attributed_to_their_ids (T : Type) (add : T -> T -> T) (zero : T) (grps : list (list (Z * T))) :
  let ids := build_ids (map (map fst) grps) in
  increasing ids = true /\
  (forall a, In a ids <-> In a (map fst (concat grps))) /\
  forall a, In a ids ->
    nth (lower_bound ids a) (collect_groups add ids (repeat zero (length ids)) grps) zero = total_for add zero a (concat grps).
Proof.
  intros ids. destruct (build_ids_spec (map (map fst) grps)) as [Hinc Hin]. fold ids in Hinc, Hin.
  assert (Hc : forall a, In a (concat (map (map fst) grps)) <-> In a (map fst (concat grps))).
  { intros a. rewrite concat_map. reflexivity. }
  split; [exact Hinc|]. split; [intros a; rewrite Hin; apply Hc|].
  intros a Ha. rewrite collect_groups_concat. unfold total_for.
  rewrite (collect_group_attribution add ids a zero (concat grps) Hinc Ha).
  - f_equal. apply nth_repeat.
  - apply Forall_forall. intros p Hp. apply Hin. apply Hc. apply in_map. exact Hp.
  - apply repeat_length.
Qed.
