(* Model of the attribution of atomic gradients to atom ids: colvar::build_atom_list (sorted, duplicate-free list of the
   ids of all atoms of all groups) and colvar::cvc::collect_gradients (src/colvarcomp.cpp), which for every atom of every
   group - in the order the user listed them - looks the id up in that list with std::lower_bound and accumulates the
   contribution there.  `colvar getgradients` returns the resulting array, `colvar getatomids` the id list.
   T is the type of a contribution (a 3-vector of numbers in the code).  Definitions only. *)
From Coq Require Import ZArith List Bool.
Import ListNotations.
Local Open Scope Z_scope.

(* std::lower_bound on an increasing list: the number of elements smaller than a *)
Fixpoint lower_bound (ids : list Z) (a : Z) : nat :=
  match ids with
  | [] => O
  | x :: r => if x <? a then S (lower_bound r a) else O
  end.

Section Collect.
  Context {T : Type}.
  Variable add : T -> T -> T.

  (* atomic_gradients[i] += v   (out of range: nothing, the code would write past the array) *)
  Fixpoint bump (g : list T) (i : nat) (v : T) : list T :=
    match g, i with
    | [], _ => []
    | x :: r, O => add x v :: r
    | x :: r, S j => x :: bump r j v
    end.

  (* one group (or fitting group): its (id, contribution) pairs in listing order *)
  Definition collect_group (ids : list Z) (acc : list T) (grp : list (Z * T)) : list T :=
    fold_left (fun acc p => bump acc (lower_bound ids (fst p)) (snd p)) grp acc.

  (* all groups of all components, in order *)
  Definition collect_groups (ids : list Z) (acc : list T) (grps : list (list (Z * T))) : list T :=
    fold_left (collect_group ids) grps acc.

  (* what the array must contain for id a: everything contributed under that id *)
  Definition total_for (zero : T) (a : Z) (grp : list (Z * T)) : T :=
    fold_left (fun s p => if fst p =? a then add s (snd p) else s) grp zero.
End Collect.

(* colvar::build_atom_list: insertion into a sorted duplicate-free list *)
Fixpoint insert_id (a : Z) (ids : list Z) : list Z :=
  match ids with
  | [] => [a]
  | x :: r => if a <? x then a :: ids else if a =? x then ids else x :: insert_id a r
  end.
Definition build_ids (grps : list (list Z)) : list Z :=
  fold_left (fun ids g => fold_left (fun ids a => insert_id a ids) g ids) grps [].

Fixpoint increasing (ids : list Z) : bool :=
  match ids with
  | [] => true
  | x :: r => match r with [] => true | y :: _ => (x <? y) && increasing r end
  end.
