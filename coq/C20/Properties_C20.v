(* C20: the scripting interface is total and agrees with the engine-side view (dispatcher part).
   Statements only.  script_table is REGENERATED from the built binary on every run (Gen/GenScript.v). *)
From Coq Require Import ZArith List Bool String.
From CV Require Import C20.ScriptModel C20.ScriptProofs Gen.GenScript.
Import ListNotations.
Local Open Scope string_scope.
Local Open Scope Z_scope.

(* the table the binary actually uses is well formed: 0 <= min <= max, names unique, every name carries one
   of the three prefixes; the two prefix pseudo-commands exist *)
Theorem GenScript_table_wf : table_wf script_table = true /\
  lookup script_table "cv_colvar" <> None /\ lookup script_table "cv_bias" <> None /\
  lookup script_table "cv_version" <> None.
Proof. vm_compute. repeat split; discriminate. Qed.
Print Assumptions GenScript_table_wf.

(* every entry of the real table is reachable under its own name (no shadowing) *)
Theorem GenScript_every_command_reachable : forall e, In e script_table -> lookup script_table (e_name e) = Some e.
Proof. intros e. apply lookup_wf. apply GenScript_table_wf. Qed.
Print Assumptions GenScript_every_command_reachable.

(* the dispatcher executes a command body exactly in the documented situations, for every table,
   every set of object names and every word list; everything else returns an error *)
Theorem C20_dispatch_run_iff : forall tbl colvars biases words k e ex,
  dispatch tbl colvars biases words = Run k e ex <-> runs tbl colvars biases words k e ex.
Proof. exact dispatch_run_iff. Qed.
Print Assumptions C20_dispatch_run_iff.

Theorem C20_dispatch_total : forall tbl colvars biases words,
  (exists k e ex, dispatch tbl colvars biases words = Run k e ex /\ runs tbl colvars biases words k e ex) \/
  (is_error (dispatch tbl colvars biases words) = true /\ ~ exists k e ex, runs tbl colvars biases words k e ex).
Proof.
  intros tbl colvars biases words.
  destruct (dispatch tbl colvars biases words) as [| | | | | |k e ex] eqn:E;
    try (right; split; [reflexivity | apply dispatch_error_iff; rewrite E; reflexivity]).
  left. exists k, e, ex. split; [reflexivity | apply dispatch_run_iff; exact E].
Qed.
Print Assumptions C20_dispatch_total.

Theorem C20_unknown_command_rejected : forall tbl colvars biases main cmd name sub rest,
  (cmd <> "colvar" -> cmd <> "bias" -> ~ In ("cv_" ++ cmd) (map e_name tbl) ->
     is_error (dispatch tbl colvars biases (main :: cmd :: rest)) = true) /\
  (~ In ("colvar_" ++ sub) (map e_name tbl) ->
     is_error (dispatch tbl colvars biases (main :: "colvar" :: name :: sub :: rest)) = true).
Proof.
  intros. split; [apply unknown_module_command_rejected | apply unknown_object_command_rejected].
Qed.
Print Assumptions C20_unknown_command_rejected.

Theorem C20_wrong_argument_count_rejected : forall tbl colvars biases words k e ex,
  dispatch tbl colvars biases words = Run k e ex ->
  shift_of k + e_min e <= Z.of_nat (List.length words) <= shift_of k + e_max e.
Proof. intros tbl colvars biases words k e ex H. apply dispatch_run_iff in H. exact (wrong_nargs_rejected _ _ _ _ _ _ _ H). Qed.
Print Assumptions C20_wrong_argument_count_rejected.

Example C20_example_dispatch :
  dispatch script_table ["x"] [] ["cv"; "version"] = Run OModule ("cv_version", 0, 0) true /\
  is_error (dispatch script_table ["x"] [] ["cv"; "version"; "extra"]) = true /\
  is_error (dispatch script_table ["x"] [] ["cv"; "colvar"; "y"; "value"]) = true.
Proof. vm_compute. repeat split. Qed.
