(* C20: the scripting interface is total and agrees with the engine-side view.
   Statements only.  script_table is REGENERATED from the built binary on every run (Gen/GenScript.v), so the
   theorems that mention it are re-checked against the command table the binary actually has.
   What is modelled: the dispatcher colvarscript::run + check_cmd_nargs, and the effect of commands on the sets
   of objects (variables, biases) the dispatcher looks names up in.  The 86 command BODIES are not modelled
   (apart from delete/reset/config on the object sets); number agreement and crash freedom of the C++ are
   checked by the oracle of props/C20/check.py, not proved. *)
From Coq Require Import ZArith List Bool String Permutation.
From CV Require Import C20.ScriptModel C20.ScriptProofs C20.ScriptTable C20.GradModel C20.GradProofs C20.SemModel C20.SemProofs C20.EnergyModel C20.EnergyProofs Gen.GenScript.
Import ListNotations.
Local Open Scope string_scope.
Local Open Scope Z_scope.

(* the table the binary actually uses is well formed: 0 <= min <= max, names unique, every name carries one
   of the three prefixes; the two prefix pseudo-commands and the commands the model gives a meaning to exist
   with the argument counts the model assumes *)
Theorem GenScript_table_wf : table_wf script_table = true /\
  lookup script_table "cv_colvar" = Some ("cv_colvar", 0, 0) /\ lookup script_table "cv_bias" = Some ("cv_bias", 0, 0) /\
  lookup script_table "cv_config" = Some ("cv_config", 1, 1) /\ lookup script_table "cv_configfile" = Some ("cv_configfile", 1, 1) /\
  lookup script_table "cv_reset" = Some ("cv_reset", 0, 0) /\
  lookup script_table "colvar_delete" = Some ("colvar_delete", 0, 0) /\ lookup script_table "bias_delete" = Some ("bias_delete", 0, 0).
Proof. exact script_table_wf. Qed.
Print Assumptions GenScript_table_wf.

(* every command of the real table (other than the two prefix pseudo-commands) is run by a command line, under
   the object class and the command word read off its function name ... *)
Theorem GenScript_every_command_reachable : forall e cvs bs name, In e script_table -> is_pseudo e = false ->
  exists k sub, entry_class e = Some (k, sub) /\
    ((k = OColvar -> In name cvs) -> (k = OBias -> In name bs) ->
     dispatch script_table cvs bs (witness_words k sub name e) = Run k e true).
Proof. exact script_table_every_command_reachable. Qed.
Print Assumptions GenScript_every_command_reachable.

(* every command of the regenerated table has a definite dispatch result for EVERY number of arguments: too few below min, run
   between min and max, too many above *)
Theorem GenScript_every_command_every_argument_count : forall e cvs bs name n, In e script_table -> is_pseudo e = false ->
  exists k sub, entry_class e = Some (k, sub) /\
    ((k = OColvar -> In name cvs) -> (k = OBias -> In name bs) ->
     dispatch script_table cvs bs (witness_n k sub name n) =
       if (Z.of_nat n <? e_min e) then ErrTooFewArgs e else if (e_max e <? Z.of_nat n) then ErrTooManyArgs e else Run k e true).
Proof. exact script_table_every_argument_count. Qed.
Print Assumptions GenScript_every_command_every_argument_count.

(* ... and under no other: for ANY table, two command lines that run the same command have the same object
   class and the same command word (whatever objects are defined when each is given) *)
Theorem C20_one_name_per_command : forall tbl cvs1 bs1 cvs2 bs2 w1 w2 k1 k2 e ex1 ex2,
  dispatch tbl cvs1 bs1 w1 = Run k1 e ex1 -> dispatch tbl cvs2 bs2 w2 = Run k2 e ex2 ->
  k1 = k2 /\ cmd_word k1 w1 = cmd_word k2 w2 /\ entry_class e = Some (k1, cmd_word k1 w1).
Proof. exact one_name_per_command. Qed.
Print Assumptions C20_one_name_per_command.

Theorem C20_pseudo_commands_never_run : forall tbl cvs bs words k e ex,
  dispatch tbl cvs bs words = Run k e ex -> is_pseudo e = false.
Proof. exact pseudo_never_run. Qed.
Print Assumptions C20_pseudo_commands_never_run.

(* the dispatcher executes a command body exactly in the documented situations, for every table,
   every set of object names and every word list; everything else returns an error *)
Theorem C20_dispatch_run_iff : forall tbl colvars biases words k e ex,
  dispatch tbl colvars biases words = Run k e ex <-> runs tbl colvars biases words k e ex.
Proof. exact dispatch_run_iff. Qed.
Print Assumptions C20_dispatch_run_iff.

Theorem C20_dispatch_total : forall tbl colvars biases words,
  (exists k e ex, dispatch tbl colvars biases words = Run k e ex /\ runs tbl colvars biases words k e ex) \/
  (is_error (dispatch tbl colvars biases words) = true /\ ~ exists k e ex, runs tbl colvars biases words k e ex).
Proof. exact dispatch_total. Qed.
Print Assumptions C20_dispatch_total.

Theorem C20_unknown_command_rejected : forall tbl colvars biases main cmd name sub rest,
  (cmd <> "colvar" -> cmd <> "bias" -> ~ In ("cv_" ++ cmd) (map e_name tbl) ->
     is_error (dispatch tbl colvars biases (main :: cmd :: rest)) = true) /\
  (~ In ("colvar_" ++ sub) (map e_name tbl) ->
     is_error (dispatch tbl colvars biases (main :: "colvar" :: name :: sub :: rest)) = true).
Proof. exact unknown_command_rejected. Qed.
Print Assumptions C20_unknown_command_rejected.

Theorem C20_wrong_argument_count_rejected : forall tbl colvars biases words k e ex,
  dispatch tbl colvars biases words = Run k e ex ->
  shift_of k + e_min e <= Z.of_nat (List.length words) <= shift_of k + e_max e.
Proof. exact wrong_argument_count_rejected. Qed.
Print Assumptions C20_wrong_argument_count_rejected.

(* a rejected call changes nothing (in the model: the object sets) and is classified as an error *)
Theorem C20_rejected_call_changes_nothing : forall tbl parse_conf read_file st words,
  is_error (dispatch tbl (st_cvs st) (bias_names st) words) = true ->
  exec tbl parse_conf read_file st words = (st, dispatch tbl (st_cvs st) (bias_names st) words, BErr).
Proof. exact rejected_unchanged. Qed.
Print Assumptions C20_rejected_call_changes_nothing.

(* after ANY finite history of script calls (well formed or malformed), steps and engine-side configurations
   the object sets are consistent (names unique, every bias refers to existing variables: the module is
   "usable" as far as the model goes), and every further call gets an answer: it runs a body, or it is
   rejected without changing anything *)
Theorem C20_usable_after_any_history : forall tbl parse_conf read_file evs st words,
  state_wf st = true ->
  let st' := run_events tbl parse_conf read_file st evs in
  state_wf st' = true /\
  ((exists k e ex, dispatch tbl (st_cvs st') (bias_names st') words = Run k e ex) \/
   (is_error (dispatch tbl (st_cvs st') (bias_names st') words) = true /\
    exec tbl parse_conf read_file st' words = (st', dispatch tbl (st_cvs st') (bias_names st') words, BErr))).
Proof. exact usable_after_any_history. Qed.
Print Assumptions C20_usable_after_any_history.

(* configuration given through `cv config` has the same effect (in the model) as the same text given on the
   engine side, with the command table of the binary *)
Theorem C20_script_config_equiv : forall parse_conf read_file st main text,
  do_event script_table parse_conf read_file st (ECmd [main; "config"; text]) =
  do_event script_table parse_conf read_file st (EConfig text).
Proof. exact script_table_config_equiv. Qed.
Print Assumptions C20_script_config_equiv.

(* deleting a variable removes it and exactly the biases that use it; deleting a bias removes only that bias *)
Theorem C20_delete_effect : forall n st,
  ((forall c, In c (st_cvs (del_cv n st)) <-> In c (st_cvs st) /\ c <> n) /\
   (forall b, In b (st_biases (del_cv n st)) <-> In b (st_biases st) /\ ~ In n (snd b))) /\
  (st_cvs (del_bias n st) = st_cvs st /\
   (forall b, In b (st_biases (del_bias n st)) <-> In b (st_biases st) /\ fst b <> n)).
Proof. exact delete_effect. Qed.
Print Assumptions C20_delete_effect.

(* `colvar getgradients` / `getatomids` (colvar::build_atom_list + cvc::collect_gradients): for any exact commutative and
   associative addition of contributions, the array depends only on the multiset of (atom id, contribution) pairs - not on
   the order in which the user listed the atoms of a group, nor on how they are spread over groups, components and fitting
   groups *)
Theorem C20_gradients_listing_order_irrelevant : forall (T : Type) (add : T -> T -> T),
  (forall a b, add a b = add b a) -> (forall a b c, add a (add b c) = add (add a b) c) ->
  forall ids acc grps grps', Permutation (List.concat grps) (List.concat grps') ->
  collect_groups add ids acc grps = collect_groups add ids acc grps'.
Proof. exact gradients_listing_order_irrelevant. Qed.
Print Assumptions C20_gradients_listing_order_irrelevant.

(* the id list is increasing and holds exactly the ids of the groups, and the entry found for id a holds exactly what was
   contributed under id a (for every addition, commutative or not: the order of the contributions is the listing order) *)
Theorem C20_gradients_attributed_to_their_ids : forall (T : Type) (add : T -> T -> T) (zero : T) (grps : list (list (Z * T))),
  let ids := build_ids (map (map fst) grps) in
  increasing ids = true /\
  (forall a, In a ids <-> In a (map fst (List.concat grps))) /\
  forall a, In a ids ->
    nth (lower_bound ids a) (collect_groups add ids (repeat zero (List.length ids)) grps) zero = total_for add zero a (List.concat grps).
Proof. exact gradients_attributed_to_their_ids. Qed.
Print Assumptions C20_gradients_attributed_to_their_ids.

(* ---- default names of blocks without `name` (colvarmodule::parse_biases_type, colvarbias::init) ---- *)
(* an unnamed harmonic block that is accepted is called harmonic<rank> with rank = one more than the number of harmonic blocks
   ever read, a name no living bias has; deleting objects does not give ranks back *)
Theorem C20_unnamed_bias_gets_fresh_rank : forall st cs st',
  add_decl st (DBias None cs) = (st', true) ->
  st_nharm st' = S (st_nharm st) /\ In (default_bias_name (S (st_nharm st)), cs) (st_biases st') /\
  ~ In (default_bias_name (S (st_nharm st))) (bias_names st).
Proof. exact unnamed_bias_gets_fresh_rank. Qed.
Print Assumptions C20_unnamed_bias_gets_fresh_rank.

Theorem C20_rank_counter_survives_deletion : forall n st d,
  st_nharm (del_bias n st) = st_nharm st /\ st_nharm (del_cv n st) = st_nharm st /\ (st_nharm st <= st_nharm (fst (add_decl st d)))%nat.
Proof. exact rank_counter_survives_deletion. Qed.
Print Assumptions C20_rank_counter_survives_deletion.

(* ---- semantic layer (SemModel.v): the numbers held after a step and the query bodies as projections ---- *)
(* a query command (15 of them: value, getappliedforce, gettotalforce, getatomids, bias energy, getenergy, getstepabsolute,
   getnumatoms, the five proxy-side atom arrays, getatomids, list) returns the component of the state and changes nothing *)
Theorem C20_getters_read_state : forall (T : Type) tbl parse_conf read_file (st : @sem T) words k e ex,
  dispatch tbl (st_cvs (sm_objs st)) (bias_names (sm_objs st)) words = Run k e ex ->
  In (e_name e) query_names ->
  exists r, pure_query st (e_name e) (nth 2 words "") (nth_error words 2) = Some r /\
            exec_sem tbl parse_conf read_file st words = (st, Run k e ex, r).
Proof. exact (@getters_read_state). Qed.
Print Assumptions C20_getters_read_state.

(* 43 further commands (version, help, getconfig, printframe, savetostring, type, state, get ...) change nothing either *)
Theorem C20_inert_commands_change_nothing : forall (T : Type) tbl parse_conf read_file (st : @sem T) words k e ex,
  dispatch tbl (st_cvs (sm_objs st)) (bias_names (sm_objs st)) words = Run k e ex ->
  inert (e_name e) = true ->
  exec_sem tbl parse_conf read_file st words = (st, Run k e ex, QOk).
Proof. exact (@inert_changes_nothing). Qed.
Print Assumptions C20_inert_commands_change_nothing.

(* after a step, and after any number of rejected calls, queries and inert calls, the queries on a variable return the numbers
   observed at that step (same for the module-level energy and atom arrays) *)
Theorem C20_query_returns_last_observation : forall (T : Type) tbl parse_conf read_file (st : @sem T) ob qs x d,
  alookup x (sm_cv st) <> None -> alookup x (ob_cv ob) = Some d ->
  let st1 := sem_step st ob in
  Forall (quiet tbl st1) qs ->
  let st2 := run_sevents tbl parse_conf read_file st1 (map (@SCmd T) qs) in
  st2 = st1 /\
  pure_query st2 "colvar_value" x None = Some (QReal (cd_value d)) /\
  pure_query st2 "colvar_getappliedforce" x None = Some (QReal (cd_af d)) /\
  pure_query st2 "colvar_gettotalforce" x None = Some (QReal (cd_tf d)) /\
  pure_query st2 "colvar_getatomids" x None = Some (QInts (cd_atoms d)) /\
  pure_query st2 "cv_getenergy" x None = Some (QReal6 (md_energy (ob_mod ob))) /\
  pure_query st2 "cv_getatomappliedforces" x None = Some (QVecs (md_af (ob_mod ob))) /\
  pure_query st2 "cv_getatompositions" x None = Some (QVecs (md_pos (ob_mod ob))).
Proof. exact (@query_returns_last_observation). Qed.
Print Assumptions C20_query_returns_last_observation.

Theorem C20_bias_energy_returns_last_observation : forall (T : Type) (st : @sem T) ob b en,
  alookup b (sm_bias st) <> None -> alookup b (ob_bias ob) = Some en ->
  pure_query (sem_step st ob) "bias_energy" b None = Some (QReal6 en).
Proof. exact (@bias_energy_returns_last_observation). Qed.
Print Assumptions C20_bias_energy_returns_last_observation.

(* getgradients (repaired behaviour): without the feature, or before a step has followed its activation, the answer is an
   error, the feature is on afterwards and the gradients stay unavailable until a step *)
Theorem C20_getgradients_needs_a_step : forall (T : Type) (st : @sem T) e words x c,
  e_name e = "colvar_getgradients" -> nth 2 words "" = x -> alookup x (sm_cv st) = Some c ->
  (cs_collect c = false \/ cs_valid c = Some false) ->
  snd (body_sem st e words) = QErr /\
  forall c', alookup x (sm_cv (fst (body_sem st e words))) = Some c' -> cs_collect c' = true /\ cs_valid c' = Some false.
Proof. exact (@getgradients_needs_a_step). Qed.
Print Assumptions C20_getgradients_needs_a_step.

(* ... and after a step that ran through, with the feature on and the variable active, the answer is the gradients observed *)
Theorem C20_getgradients_after_step : forall (T : Type) (st : @sem T) ob e words x c d,
  e_name e = "colvar_getgradients" -> nth 2 words "" = x -> alookup x (sm_cv st) = Some c -> alookup x (ob_cv ob) = Some d ->
  cs_collect c = true -> ob_ok ob = true -> cd_active d = true ->
  body_sem (sem_step st ob) e words = (sem_step st ob, QVecs (cd_grads d)).
Proof. exact (@getgradients_after_step). Qed.
Print Assumptions C20_getgradients_after_step.

(* `cv colvar x get <feature>` / `cv bias b get <feature>`: the state of the feature observed at the last step, and nothing changes *)
Theorem C20_feature_get_reads_state : forall (T : Type) (st : @sem T) e words,
  e_name e = "colvar_get" \/ e_name e = "bias_get" -> fst (body_sem st e words) = st /\
  snd (body_sem st e words) =
    (if String.eqb (e_name e) "colvar_get"
     then feature_query st ("c:" ++ nth 2 words "") (nth 4 words "")
            (match alookup (nth 2 words "") (sm_cv st) with Some cs => Some (cs_collect cs) | None => None end)
     else feature_query st ("b:" ++ nth 2 words "") (nth 4 words "") None).
Proof. exact (@feature_get_reads_state). Qed.
Print Assumptions C20_feature_get_reads_state.

(* an ERROR answer of a body whose semantics is modelled (list, get, cvcflags, the grid-only bias queries, share) leaves the whole
   semantic state unchanged (dispatcher errors: C20_rejected_call_changes_nothing) *)
Theorem C20_error_answer_changes_nothing : forall (T : Type) (st : @sem T) e words,
  error_is_clean (e_name e) = true -> snd (body_sem st e words) = QErr -> fst (body_sem st e words) = st.
Proof. exact (@error_answer_changes_nothing). Qed.
Print Assumptions C20_error_answer_changes_nothing.

(* ---- deferred effect of `cvcflags` (colvar::set_cvc_flags / update_cvc_flags) ---- *)
(* a cvcflags call only stores its flags (refused unless there is one per component): no number, no other variable changes *)
Theorem C20_cvcflags_only_stores : forall (T : Type) (st : @sem T) e words x cs cur,
  e_name e = "colvar_cvcflags" -> nth 2 words "" = x -> alookup x (sm_cv st) = Some cs -> cs_cvcs cs = Some cur ->
  let r := set_pending cur (cs_pending cs) (parse_flags (nth 4 words "")) in
  snd (body_sem st e words) = (if snd r then QInt 0 else QErr) /\
  alookup x (sm_cv (fst (body_sem st e words))) = Some (mk_cvsem (cs_data cs) (cs_collect cs) (cs_valid cs) (Some cur) (fst r)) /\
  sm_mod (fst (body_sem st e words)) = sm_mod st /\ sm_bias (fst (body_sem st e words)) = sm_bias st.
Proof. exact (@cvcflags_body). Qed.
Print Assumptions C20_cvcflags_only_stores.

(* after ANY burst of cvcflags commands between two updates the components enabled by the next update are those of the LAST
   accepted command - also when that command equals the state currently in effect -, unchanged if none was accepted; a command
   that enables nothing switches everything off and stays pending (the update fails) *)
Theorem C20_cvcflags_last_command_wins : forall cur cmds,
  apply_pending cur (pending_after cur None cmds) =
  match last_accepted cur cmds with
  | None => (cur, None)
  | Some f => if existsb (fun b => b) f then (f, None) else (f, Some f)
  end.
Proof. exact cvcflags_last_command_wins. Qed.
Print Assumptions C20_cvcflags_last_command_wins.

Theorem C20_last_accepted_is_the_last_well_formed : forall cur cmds f, last_accepted cur cmds = Some f ->
  List.length f = List.length cur /\ exists before after, cmds = (before ++ f :: after)%list /\
  Forall (fun g => List.length g <> List.length cur) after.
Proof. exact last_accepted_spec. Qed.
Print Assumptions C20_last_accepted_is_the_last_well_formed.

(* over ANY history of calls, steps with arbitrary observations and engine-side configurations the data stay attached to
   exactly the objects that exist (nothing can be read about a deleted object, a new object starts unknown) *)
Theorem C20_data_follow_objects_over_any_history : forall (T : Type) tbl parse_conf read_file evs (st : @sem T),
  sem_wf st -> sem_wf (run_sevents tbl parse_conf read_file st evs).
Proof. exact (@run_sevents_wf). Qed.
Print Assumptions C20_data_follow_objects_over_any_history.

(* ---- energy given to the engine vs `cv getenergy` / `cv addenergy` (order of colvarmodule::calc_biases / update_colvar_forces) ---- *)
(* for scriptedColvarForces off/on and scriptingAfterBiases off/on, any list of `cv addenergy` values issued by the force script, any
   bias energies and any previous state: the engine is handed exactly the total that the module holds after the step (what
   `cv getenergy` returns), and that total contains every addition of the script and every bias, in the order of the code *)
Theorem C20_engine_receives_the_total_energy : forall (T : Type) (add : T -> T -> T) (zero : T) scripted after script biases st,
  let st' := energy_step add zero scripted after script biases st in
  es_sent st' = Some (es_total st') /\
  es_total st' = (if scripted
                  then (if after then fold_left add script (fold_left add biases zero) else fold_left add biases (fold_left add script zero))
                  else fold_left add biases zero).
Proof. exact (@engine_receives_the_total). Qed.
Print Assumptions C20_engine_receives_the_total_energy.

(* with an exact addition the setting scriptingAfterBiases does not change the energy: biases + script *)
Theorem C20_scripting_order_irrelevant_for_the_energy : forall (T : Type) (add : T -> T -> T) (zero : T),
  (forall a b, add a b = add b a) -> (forall a b c, add a (add b c) = add (add a b) c) ->
  forall script biases st, (forall a, add zero a = a) ->
  es_total (energy_step add zero true true script biases st) = es_total (energy_step add zero true false script biases st) /\
  es_total (energy_step add zero true true script biases st) = add (fold_left add biases zero) (fold_left add script zero).
Proof. exact (@scripting_order_irrelevant). Qed.
Print Assumptions C20_scripting_order_irrelevant_for_the_energy.

(* ---- the premises of the implications above are satisfiable ---- *)
Example C20_example_dispatch :
  dispatch script_table ["x"] [] ["cv"; "version"] = Run OModule ("cv_version", 0, 0) true /\
  is_error (dispatch script_table ["x"] [] ["cv"; "version"; "extra"]) = true /\
  is_error (dispatch script_table ["x"] [] ["cv"; "colvar"; "y"; "value"]) = true /\
  dispatch script_table ["x"] [] ["cv"; "colvar"; "y"; "help"] = Run OColvar ("colvar_help", 0, 1) false /\
  is_error (dispatch script_table ["x"] [] ["cv"; "colvar"]) = true.
Proof. vm_compute. repeat split. Qed.

Example C20_example_reachable :
  In ("colvar_value", 0, 0) script_table /\ is_pseudo ("colvar_value", 0, 0) = false /\
  entry_class ("colvar_value", 0, 0) = Some (OColvar, "value") /\
  dispatch script_table ["x"] [] (witness_words OColvar "value" "x" ("colvar_value", 0, 0)) = Run OColvar ("colvar_value", 0, 0) true /\
  is_pseudo ("cv_colvar", 0, 0) = true.
Proof. vm_compute. repeat split. right; right. repeat (try (left; reflexivity); right). Qed.

Definition ex_parse (s : string) : option (list decl) :=
  if String.eqb s "A" then Some [DCv (Some "y"); DBias (Some "hy") ["y"; "x"]] else if String.eqb s "B" then Some [DCv (Some "x")]
  else if String.eqb s "U" then Some [DBias None ["x"]] else None.
Definition ex_read (s : string) : option string := if String.eqb s "f" then Some "A" else None.
Definition ex_st := mk_state ["x"] [("h", ["x"])] 1.

(* a history with malformed calls, a rejected configuration, a deletion that takes a bias with it, and steps *)
Example C20_example_history :
  state_wf ex_st = true /\
  run_events script_table ex_parse ex_read ex_st
    [ECmd ["cv"; "config"; "A"]; EStep; ECmd ["cv"; "nosuch"]; ECmd ["cv"; "config"; "B"]; ECmd ["cv"; "colvar"; "q"; "delete"];
     ECmd ["cv"; "colvar"; "x"; "delete"; "extra"]; ECmd ["cv"; "colvar"; "x"; "delete"]; EStep; ECmd []]
  = mk_state ["y"] [] 2 /\
  run_events script_table ex_parse ex_read ex_st [ECmd ["cv"; "configfile"; "f"]; ECmd ["cv"; "bias"; "h"; "delete"]]
  = mk_state ["x"; "y"] [("hy", ["y"; "x"])] 2 /\
  exec script_table ex_parse ex_read ex_st ["cv"; "config"; "B"] = (ex_st, Run OModule ("cv_config", 1, 1) true, BErr) /\
  is_error (dispatch script_table (st_cvs ex_st) (bias_names ex_st) ["cv"; "bias"; "h"; "energy"; "1"]) = true.
Proof. vm_compute. repeat split. Qed.

(* a group listed in decreasing id order and an atom shared by two groups *)
Example C20_example_gradients :
  build_ids [[3; 1]; [4; 1]] = [1; 3; 4] /\
  collect_groups Z.add [1; 3; 4] [0; 0; 0] [[(3, 10); (1, 20)]; [(4, 5); (1, 7)]] = [27; 10; 5] /\
  Permutation (List.concat [[(3, 10); (1, 20)]; [(4, 5); (1, 7)]]) (List.concat [[(1, 20); (3, 10); (1, 7)]; [(4, 5)]]) /\
  collect_groups Z.add [1; 3; 4] [0; 0; 0] [[(1, 20); (3, 10); (1, 7)]; [(4, 5)]] = [27; 10; 5].
Proof.
  repeat split; try reflexivity. cbn [List.concat app].
  apply Permutation_trans with ((1, 20) :: (3, 10) :: (4, 5) :: (1, 7) :: nil); [apply perm_swap|].
  apply perm_skip, perm_skip, perm_swap.
Qed.

Definition ex_sem : @sem Z :=
  mk_sem ex_st [("x", mk_cvsem None false (Some false) None None)] [("h", None)] None.
Definition ex_ob : @obs Z :=
  mk_obs true (mk_moddata 7 42%Z [0%Z] [1%Z] [0%Z] [(1, 2, 3)%Z] [(4, 5, 6)%Z] [(0, 0, 0)%Z] [("c:x", [("active", (true, true)); ("total force", (true, false)); ("periodic", (false, false))])])
         [("x", mk_cvdata 11%Z 12%Z 13%Z true [0%Z] [(1, 0, 0)%Z] [true; true] [4; 7]%Z)] [("h", 5%Z)].
(* a step, malformed calls and queries, then the queries; getgradients: error, still error after set, answer after a step *)
Example C20_example_semantics :
  sem_wf ex_sem /\
  Forall (quiet script_table (sem_step ex_sem ex_ob)) [["cv"; "colvar"; "x"; "value"]; ["cv"; "nosuch"]; ["cv"; "version"]; ["cv"; "colvar"; "x"; "value"; "1"]] /\
  snd (exec_sem script_table ex_parse ex_read (sem_step ex_sem ex_ob) ["cv"; "colvar"; "x"; "value"]) = QReal 11%Z /\
  snd (exec_sem script_table ex_parse ex_read (sem_step ex_sem ex_ob) ["cv"; "bias"; "h"; "energy"]) = QReal6 5%Z /\
  snd (exec_sem script_table ex_parse ex_read (sem_step ex_sem ex_ob) ["cv"; "colvar"; "x"; "getgradients"]) = QErr /\
  (let st := run_sevents script_table ex_parse ex_read ex_sem
               [SStep ex_ob; SCmd ["cv"; "colvar"; "x"; "getgradients"]; SCmd ["cv"; "colvar"; "x"; "set"; "collect_gradient"; "on"]] in
   snd (exec_sem script_table ex_parse ex_read st ["cv"; "colvar"; "x"; "getgradients"]) = QErr /\
   snd (exec_sem script_table ex_parse ex_read (sem_step st ex_ob) ["cv"; "colvar"; "x"; "getgradients"]) = QVecs [(1, 0, 0)%Z]) /\
  snd (exec_sem script_table ex_parse ex_read
         (run_sevents script_table ex_parse ex_read ex_sem [SStep ex_ob; SCmd ["cv"; "colvar"; "x"; "addforce"; "1"]]) ["cv"; "colvar"; "x"; "value"]) = QOk.
Proof.
  split; [split; reflexivity|]. split.
  { apply Forall_cons; [|apply Forall_cons; [|apply Forall_cons; [|apply Forall_cons; [|apply Forall_nil]]]]; unfold quiet.
    - right. exists OColvar, ("colvar_value", 0, 0)%Z, true. split; [vm_compute; reflexivity | left; left; reflexivity].
    - left. vm_compute. reflexivity.
    - right. exists OModule, ("cv_version", 0, 0)%Z, true. split; [vm_compute; reflexivity | right; vm_compute; reflexivity].
    - left. vm_compute. reflexivity. }
  vm_compute. repeat split.
Qed.

(* "1 0" then "1 1" (the state in effect) then a malformed command: both components are on at the next update *)
Example C20_example_cvcflags :
  parse_flags "1 0" = [true; false] /\ parse_flags " 1  -2 0x" = [true; true; false] /\ parse_flags "1 abc 1" = [true] /\
  parse_flags "2147483648 1" = [] /\
  apply_pending [true; true] (pending_after [true; true] None [parse_flags "1 0"; parse_flags "1 1"; parse_flags "1"]) = ([true; true], None) /\
  apply_pending [true; true] (pending_after [true; true] None [parse_flags "1 1"; parse_flags "0 1"]) = ([false; true], None) /\
  apply_pending [true; true] (pending_after [true; true] None [parse_flags "0 0"]) = ([false; false], Some [false; false]) /\
  (let st := run_sevents script_table ex_parse ex_read ex_sem
               [SStep ex_ob; SCmd ["cv"; "colvar"; "x"; "cvcflags"; "1 0"]; SCmd ["cv"; "colvar"; "x"; "cvcflags"; "1 1"]; SCmd ["cv"; "colvar"; "x"; "cvcflags"; "1"]; SStep ex_ob] in
   match alookup "x" (sm_cv st) with Some c => cs_cvcs c = Some [true; true] /\ cs_pending c = None | None => False end) /\
  combine Z.add 0%Z [4; 7]%Z [false; true] = 7%Z /\
  snd (exec_sem script_table ex_parse ex_read (sem_step ex_sem ex_ob) ["cv"; "colvar"; "x"; "get"; "Total Force"]) = QInt 0 /\
  snd (exec_sem script_table ex_parse ex_read (sem_step ex_sem ex_ob) ["cv"; "colvar"; "x"; "get"; "periodic"]) = QErr /\
  snd (exec_sem script_table ex_parse ex_read (sem_step ex_sem ex_ob) ["cv"; "colvar"; "x"; "get"; "nosuch"]) = QErr /\
  snd (exec_sem script_table ex_parse ex_read (sem_step ex_sem ex_ob) ["cv"; "colvar"; "x"; "get"; "collect_gradient"]) = QInt 0.
Proof. vm_compute. repeat split. Qed.

(* two unnamed harmonic blocks, the first is deleted, a third unnamed block: harmonic3, not a second harmonic2 *)
Example C20_example_default_names :
  run_events script_table ex_parse ex_read (mk_state ["x"] [] 0)
    [ECmd ["cv"; "config"; "U"]; ECmd ["cv"; "config"; "U"]; ECmd ["cv"; "bias"; "harmonic1"; "delete"]; ECmd ["cv"; "config"; "U"]]
  = mk_state ["x"] [("harmonic2", ["x"]); ("harmonic3", ["x"])] 3 /\
  default_cv_name (mk_state ["a"; "b"] [] 0) = "colvar3".
Proof. vm_compute. split; reflexivity. Qed.

Example C20_example_energy :
  energy_step Z.add 0%Z true true [5; 1]%Z [10; 20]%Z (mk_estate 99%Z (Some 7%Z)) = mk_estate 36%Z (Some 36%Z) /\
  energy_step Z.add 0%Z true false [5; 1]%Z [10; 20]%Z (mk_estate 99%Z None) = mk_estate 36%Z (Some 36%Z) /\
  energy_step Z.add 0%Z false true [5; 1]%Z [10; 20]%Z (mk_estate 99%Z None) = mk_estate 30%Z (Some 30%Z).
Proof. vm_compute. repeat split. Qed.
