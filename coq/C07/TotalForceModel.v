(* Model of the total-force measurement of Colvars and of the forward path it inverts.
   Mirrors (definitions only, no proofs; extracted to OCaml and run against the C++):
     atom_group::calc_center_of_mass / total_force / set_weighted_gradient / apply_colvar_force (src/colvaratoms.cpp)
     calc_value / calc_gradients / calc_force_invgrads / calc_Jacobian_derivative of
       distance, distanceZ, distanceXY, gyration, rmsd and eigenvector without rotation (src/colvarcomp_distances.cpp),
       angle, dihedral (src/colvarcomp_angles.cpp)
     colvar::collect_cvc_total_forces / collect_cvc_Jacobians / calc_colvar_properties / update_forces_energy /
       communicate_forces / end_of_step and the order of calc_cvcs / collect_cvc_data (src/colvar.cpp)
     the engine's two force-timing conventions as played by harness/vsim.h (total_forces_same_step true/false).
   Per-atom data (positions, masses, force fields) are total functions of the atom index, so a statement
   about "every atom of the system" is a statement about every nat. *)
From Coq Require Import ZArith List Bool Arith.
From CV Require Import Base.Num.
Import ListNotations.

Section TotalForce.
  Context {T : Type} (O : NumOps T).
  Variable pi : T.   (* the constant PI of the carrier *)
  Local Notation "a + b" := (nadd O a b).
  Local Notation "a - b" := (nsub O a b).
  Local Notation "a * b" := (nmul O a b).
  Local Notation "a / b" := (ndiv O a b).
  Let zero : T := n0 O.
  Let one : T := n1 O.
  Let two : T := nofZ O 2.
  Let half : T := ndiv O (n1 O) (nofZ O 2).

  (* ------------------------------------------------------------------ cvm::rvector *)
  Definition vec : Type := (T * T * T)%type.
  Definition vzero : vec := (zero, zero, zero).
  Definition vadd (a b : vec) : vec :=
    let '(ax, ay, az) := a in let '(bx, by_, bz) := b in (ax + bx, ay + by_, az + bz).
  Definition vsub (a b : vec) : vec :=
    let '(ax, ay, az) := a in let '(bx, by_, bz) := b in (ax - bx, ay - by_, az - bz).
  Definition vscale (s : T) (a : vec) : vec := let '(ax, ay, az) := a in (s * ax, s * ay, s * az).
  Definition vneg (a : vec) : vec := let '(ax, ay, az) := a in (nneg O ax, nneg O ay, nneg O az).
  Definition vdot (a b : vec) : T :=
    let '(ax, ay, az) := a in let '(bx, by_, bz) := b in ax * bx + ay * by_ + az * bz.
  Definition vnorm2 (a : vec) : T := vdot a a.
  Definition vnorm (a : vec) : T := nsqrt O (vnorm2 a).
  (* rvector::outer *)
  Definition vcross (a b : vec) : vec :=
    let '(ax, ay, az) := a in let '(bx, by_, bz) := b in
    (ay * bz - by_ * az, nneg O ax * bz + bx * az, ax * by_ - bx * ay).
  (* rvector::unit: (1,0,0) for the null vector *)
  Definition vunit (a : vec) : vec :=
    let n := vnorm a in if nltb O zero n then vscale (one / n) a else (one, zero, zero).

  (* 3x3 matrices (rows); rotation::matrix() of the optimal rotation is an input of the model *)
  Definition mat : Type := (vec * vec * vec)%type.
  Definition mvmul (m : mat) (v : vec) : vec := let '(r1, r2, r3) := m in (vdot r1 v, vdot r2 v, vdot r3 v).
  Definition mtvmul (m : mat) (v : vec) : vec :=      (* transpose (= inverse rotation) times v *)
    let '(r1, r2, r3) := m in let '(vx, vy, vz) := v in vadd (vscale vx r1) (vadd (vscale vy r2) (vscale vz r3)).

  (* periodic cell (orthorhombic edges) or none; colvarproxy_system::position_distance(p1, p2): minimum image of p2 - p1 *)
  Variable cell : option vec.
  Definition min_image1 (L d : T) : T := d - nofZ O (nfloor O (d / L + half)) * L.
  Definition pdist (p1 p2 : vec) : vec :=
    let d := vsub p2 p1 in
    match cell with
    | None => d
    | Some (lx, ly, lz) => let '(dx, dy, dz) := d in (min_image1 lx dx, min_image1 ly dy, min_image1 lz dz)
    end.

  (* quaternions; quaternion::rotation_matrix() and conjugate(): rotation::matrix() is rotation_matrix of the optimal
     quaternion, rotation::inverse().matrix() that of its conjugate *)
  Definition quat : Type := (T * T * T * T)%type.
  Definition qconj (q : quat) : quat := let '(q0, q1, q2, q3) := q in (q0, nneg O q1, nneg O q2, nneg O q3).
  Definition qnorm2 (q : quat) : T := let '(q0, q1, q2, q3) := q in q0 * q0 + q1 * q1 + q2 * q2 + q3 * q3.
  Definition rotmat (q : quat) : mat :=
    let '(q0, q1, q2, q3) := q in
    ((q0 * q0 + q1 * q1 - q2 * q2 - q3 * q3, two * (q1 * q2 - q0 * q3), two * (q0 * q2 + q1 * q3)),
     (two * (q0 * q3 + q1 * q2), q0 * q0 - q1 * q1 + q2 * q2 - q3 * q3, two * (q2 * q3 - q0 * q1)),
     (two * (q1 * q3 - q0 * q2), two * (q0 * q1 + q2 * q3), q0 * q0 - q1 * q1 - q2 * q2 + q3 * q3)).

  Definition tsum (l : list T) : T := fold_right (fun x acc => x + acc) zero l.
  Definition vsum (l : list vec) : vec := fold_right vadd vzero l.
  Definition ofnat (n : nat) : T := nofZ O (Z.of_nat n).

  (* ------------------------------------------------------------------ per-atom fields *)
  Definition field : Type := nat -> vec.
  Definition fzero : field := fun _ => vzero.
  Definition fadd (F G : field) : field := fun a => vadd (F a) (G a).
  Definition fscale (s : T) (F : field) : field := fun a => vscale s (F a).
  Definition fsum (l : list field) : field := fold_right fadd fzero l.
  Definition frot (m : mat) (F : field) : field := fun a => mvmul m (F a).   (* read_total_forces in the rotated frame *)

  Fixpoint memn (a : nat) (l : list nat) : bool :=
    match l with [] => false | b :: r => if Nat.eqb a b then true else memn a r end.

  (* ------------------------------------------------------------------ atom groups *)
  Inductive group : Type := GAtoms (ids : list nat) | GDummy (p : vec).

  Section Sys.
    Variable mass : nat -> T.
    Variable pos : field.

    Definition gids (g : group) : list nat := match g with GAtoms ids => ids | GDummy _ => [] end.
    Definition gmass (g : group) : T :=
      match g with GAtoms ids => tsum (map mass ids) | GDummy _ => one end.
    (* calc_center_of_mass *)
    Definition gcom (g : group) : vec :=
      match g with
      | GAtoms ids => vscale (one / gmass g) (vsum (map (fun a => vscale (mass a) (pos a)) ids))
      | GDummy p => p
      end.
    (* atom_group::total_force (a dummy group has no atoms) *)
    Definition gforce (F : field) (g : group) : vec := vsum (map F (gids g)).
    (* set_weighted_gradient(grad) then apply_colvar_force(fc): atom a gets fc * ((m_a/M) * grad) *)
    Definition gapply (g : group) (grad : vec) (fc : T) : field :=
      fun a => if memn a (gids g) then vscale fc (vscale (mass a / gmass g) grad) else vzero.

    (* centre of geometry of a list of atoms *)
    Definition cog (ids : list nat) : vec := vscale (one / ofnat (length ids)) (vsum (map pos ids)).
    Definition vmean (l : list vec) : vec := vscale (one / ofnat (length l)) (vsum l).

    (* per-atom gradients (atom-wise components): atom ids[k] gets fc * grads[k] *)
    Fixpoint aapply (ids : list nat) (grads : list vec) (fc : T) : field :=
      match ids, grads with
      | a :: ri, g :: rg => fun b => vadd (if Nat.eqb b a then vscale fc g else vzero) (aapply ri rg fc b)
      | _, _ => fzero
      end.
    (* sum over the atoms of a group of w_k . F(ids[k]) *)
    Fixpoint adot (ids : list nat) (ws : list vec) (F : field) : T :=
      match ids, ws with
      | a :: ri, w :: rw => vdot w (F a) + adot ri rw F
      | _, _ => zero
      end.

    (* ------------------------------------------------------------------ components *)
    Inductive cvc : Type :=
    | CDistance (g1 g2 : group) (onesite : bool)
    | CDistanceZ (gm gr : group) (gr2 : option group) (axis : vec) (onesite : bool)
    | CDistanceXY (gm gr : group) (gr2 : option group) (axis : vec) (onesite : bool)
    | CAngle (g1 g2 g3 : group) (onesite : bool)
    | CDihedral (g1 g2 g3 g4 : group) (onesite : bool)
    | CGyration (ids : list nat)
    | CRmsd (ids : list nat) (refs : list vec) (extra : list (list vec)) (center : option vec)
    | CEigenvector (ids : list nat) (refs : list vec) (evec : list vec) (center : option vec)
    (* extra = the permuted copies of the reference positions made by the atomPermutation lines of rmsd
       (symmetry-adapted RMSD): value, gradients and inverse gradients use the copy closest to the positions *)
    (* fitf (CRmsdRot with atomPermutation only): the derivatives of the optimal rotation (atom_group::fit_gradients, laboratory
       frame, one per atom) that the forces of such an rmsd contain: an INPUT of the model like the quaternion *)
    (* the default fit of rmsd / eigenvector: centred and optimally rotated onto the reference positions.
       rotf gives the optimal quaternion rotation::q for the positions of a step (the matrices are computed from it) and jdf the Jacobian derivative computed from the
       derivatives of the optimal rotation: both are INPUTS of the model (not modelled), taken from the implementation *)
    | CRmsdRot (ids : list nat) (refs : list vec) (extra : list (list vec)) (rotf : field -> quat) (jdf : field -> T) (fitf : field -> list vec)
    | CEigenvectorRot (ids : list nat) (refs : list vec) (evec : list vec) (rotf : field -> quat) (jdf : field -> T).

    (* atoms a component depends on *)
    Definition cvc_atoms (c : cvc) : list nat :=
      match c with
      | CDistance g1 g2 _ => gids g1 ++ gids g2
      | CDistanceZ gm gr gr2 _ _ | CDistanceXY gm gr gr2 _ _ =>
          gids gm ++ gids gr ++ match gr2 with Some g => gids g | None => [] end
      | CAngle g1 g2 g3 _ => gids g1 ++ gids g2 ++ gids g3
      | CDihedral g1 g2 g3 g4 _ => gids g1 ++ gids g2 ++ gids g3 ++ gids g4
      | CGyration ids | CRmsd ids _ _ _ | CEigenvector ids _ _ _ => ids
      | CRmsdRot ids _ _ _ _ _ | CEigenvectorRot ids _ _ _ _ => ids
      end.

    (* atoms whose total force a component reads (read_total_forces in calc_force_invgrads) *)
    Definition cvc_measured (c : cvc) : list nat :=
      match c with
      | CDistance g1 g2 os => if os then gids g1 else gids g1 ++ gids g2
      | CDistanceZ gm gr gr2 _ os | CDistanceXY gm gr gr2 _ os =>
          match gr2 with
          | None => if os then gids gm else gids gm ++ gids gr
          | Some _ => gids gm
          end
      | CAngle g1 g2 g3 os => if os then gids g1 else gids g1 ++ gids g3
      | CDihedral g1 g2 g3 g4 os => if os then gids g1 else gids g1 ++ gids g4
      | CGyration ids | CRmsd ids _ _ _ | CEigenvector ids _ _ _ => ids
      | CRmsdRot ids _ _ _ _ _ | CEigenvectorRot ids _ _ _ _ => ids
      end.

    (* ---- distance ---- *)
    Definition dist_v (g1 g2 : group) : vec := pdist (gcom g1) (gcom g2).

    (* ---- distanceZ / distanceXY geometry ---- *)
    (* axis and its norm: fixed axis as configured, or the unit vector from ref to ref2 *)
    Definition dz_axis (gr : group) (gr2 : option group) (axis : vec) : vec :=
      match gr2 with None => axis | Some g2 => vunit (pdist (gcom gr) (gcom g2)) end.
    Definition dz_axis_norm (gr : group) (gr2 : option group) : T :=
      match gr2 with None => one | Some g2 => vnorm (pdist (gcom gr) (gcom g2)) end.
    Definition dz_dist_v (gm gr : group) (gr2 : option group) : vec :=
      match gr2 with
      | None => pdist (gcom gr) (gcom gm)
      (* midpoint of the references along their minimum-image vector *)
      | Some g2 => pdist (vadd (gcom gr) (vscale half (pdist (gcom gr) (gcom g2)))) (gcom gm)
      end.
    Definition dz_value (gm gr : group) (gr2 : option group) (axis : vec) : T :=
      vdot (dz_axis gr gr2 axis) (dz_dist_v gm gr gr2).
    (* distanceXY: dist_v is always main - ref *)
    Definition dxy_dist_v (gm gr : group) : vec := pdist (gcom gr) (gcom gm).
    Definition dxy_ortho (gm gr : group) (gr2 : option group) (axis : vec) : vec :=
      let ax := dz_axis gr gr2 axis in
      let dv := dxy_dist_v gm gr in vsub dv (vscale (vdot dv ax) ax).
    Definition dxy_value (gm gr : group) (gr2 : option group) (axis : vec) : T :=
      vnorm (dxy_ortho gm gr gr2 axis).

    (* ---- angle ---- *)
    Definition deg : T := nofZ O 180 / pi.
    Definition ang_r21 (g1 g2 : group) : vec := pdist (gcom g2) (gcom g1).
    Definition ang_r23 (g2 g3 : group) : vec := pdist (gcom g2) (gcom g3).
    Definition ang_cos (g1 g2 g3 : group) : T :=
      vdot (ang_r21 g1 g2) (ang_r23 g2 g3) / (vnorm (ang_r21 g1 g2) * vnorm (ang_r23 g2 g3)).
    Definition ang_dxdr1 (g1 g2 g3 : group) : vec :=
      let r21 := ang_r21 g1 g2 in let r23 := ang_r23 g2 g3 in
      let r21l := vnorm r21 in let r23l := vnorm r23 in
      let c := ang_cos g1 g2 g3 in
      let dxdcos := nneg O one / nsqrt O (one - c * c) in
      vscale (deg * dxdcos * (one / r21l))
             (vadd (vscale (one / r23l) r23) (vscale (nneg O one * c) (vscale (one / r21l) r21))).
    Definition ang_dxdr3 (g1 g2 g3 : group) : vec :=
      let r21 := ang_r21 g1 g2 in let r23 := ang_r23 g2 g3 in
      let r21l := vnorm r21 in let r23l := vnorm r23 in
      let c := ang_cos g1 g2 g3 in
      let dxdcos := nneg O one / nsqrt O (one - c * c) in
      vscale (deg * dxdcos * (one / r23l))
             (vadd (vscale (one / r21l) r21) (vscale (nneg O one * c) (vscale (one / r23l) r23))).

    (* ---- dihedral ---- *)
    Definition dih_r12 (g1 g2 : group) : vec := pdist (gcom g1) (gcom g2).
    Definition dih_f1 (g1 g2 g3 : group) : vec :=
      let r12 := dih_r12 g1 g2 in let r23 := dih_r12 g2 g3 in
      let A := vcross r12 r23 in vscale (deg * vnorm r23 / vnorm2 A) A.
    Definition dih_f3 (g2 g3 g4 : group) : vec :=
      let r23 := dih_r12 g2 g3 in let r34 := dih_r12 g3 g4 in
      let B := vcross r23 r34 in vscale (deg * vnorm r23 / vnorm2 B) B.
    Definition dih_f2 (g1 g2 g3 g4 : group) : vec :=
      let r12 := dih_r12 g1 g2 in let r23 := dih_r12 g2 g3 in let r34 := dih_r12 g3 g4 in
      let A := vcross r12 r23 in let B := vcross r23 r34 in let nG := vnorm r23 in
      vscale deg (vadd (vscale (vdot r12 r23 / (vnorm2 A * nG)) A) (vscale (vdot r34 r23 / (vnorm2 B * nG)) B)).
    (* factors of calc_force_invgrads *)
    Definition dih_cross1 (g1 g2 g3 : group) : vec :=
      vunit (vcross (vunit (dih_r12 g2 g3)) (vunit (dih_r12 g1 g2))).
    Definition dih_fact1 (g1 g2 g3 : group) : T :=
      let d := vdot (vunit (dih_r12 g2 g3)) (vunit (dih_r12 g1 g2)) in
      vnorm (dih_r12 g1 g2) * nsqrt O (one - d * d).
    Definition dih_cross4 (g2 g3 g4 : group) : vec :=
      vunit (vcross (vunit (dih_r12 g2 g3)) (vunit (dih_r12 g3 g4))).
    Definition dih_fact4 (g2 g3 g4 : group) : T :=
      let d := vdot (vunit (dih_r12 g2 g3)) (vunit (dih_r12 g3 g4)) in
      vnorm (dih_r12 g3 g4) * nsqrt O (one - d * d).

    (* ---- atom-wise components: positions in the (possibly centred) frame of the group ---- *)
    (* centerToReference without rotation: pos - cog + cog of the group's reference positions *)
    Definition frame_pos (ids : list nat) (center : option vec) : list vec :=
      match center with
      | None => map pos ids
      | Some rc => let c := cog ids in map (fun a => vadd (vsub (pos a) c) rc) ids
      end.
    Fixpoint vsub_list (l r : list vec) : list vec :=
      match l, r with a :: l', b :: r' => vsub a b :: vsub_list l' r' | _, _ => [] end.
    Definition norm2_sum (l : list vec) : T := tsum (map vnorm2 l).
    Fixpoint vadd_list (l r : list vec) : list vec :=
      match l, r with a :: l', b :: r' => vadd a b :: vadd_list l' r' | _, _ => [] end.
    (* rmsd::calc_value with atomPermutation: the copy of the reference with the smallest sum of squared
       displacements from the positions fp; a later copy wins only if strictly smaller *)
    Fixpoint best_copy (fp : list vec) (cur : list vec) (extra : list (list vec)) : list vec :=
      match extra with
      | [] => cur
      | c :: r => if nltb O (norm2_sum (vsub_list fp c)) (norm2_sum (vsub_list fp cur))
                  then best_copy fp c r else best_copy fp cur r
      end.

    Definition gyr_pos (ids : list nat) : list vec := frame_pos ids (Some vzero).
    Definition gyr_value (ids : list nat) : T :=
      nsqrt O (norm2_sum (gyr_pos ids) / ofnat (length ids)).

    Definition rmsd_diff (ids : list nat) (refs : list vec) (center : option vec) : list vec :=
      vsub_list (frame_pos ids center) refs.
    Definition rmsd_value (ids : list nat) (refs : list vec) (center : option vec) : T :=
      nsqrt O (norm2_sum (rmsd_diff ids refs center) / ofnat (length ids)).
    Definition rmsd_grads (ids : list nat) (refs : list vec) (center : option vec) : list vec :=
      let x := rmsd_value ids refs center in
      let k := if nltb O zero x then half / (x * ofnat (length ids)) else zero in
      map (fun d => vscale (k * two) d) (rmsd_diff ids refs center).
    (* centre-of-geometry fit gradient (calc_fit_forces_impl<true,false>): every atom of the group
       receives -(1/N) sum of the gradients; only when the group is centred *)
    Definition fit_grads (n : nat) (center : option vec) (grads : list vec) : list vec :=
      match center with
      | None => map (fun _ => vzero) grads
      | Some _ => let s := vscale (nneg O one / ofnat n) (vsum grads) in map (fun _ => s) grads
      end.

    (* eigenvector: the configured vector is centred at initialisation; invnorm2 = 1 / sum |e|^2 *)
    Definition eig_vec (evec : list vec) : list vec := let c := vmean evec in map (fun e => vsub e c) evec.
    Definition eig_invnorm2 (evec : list vec) : T := one / norm2_sum (eig_vec evec).
    (* rotated frame: R (pos - cog) + cog of the reference positions *)
    Definition rot_frame (ids : list nat) (refs : list vec) (R : mat) : list vec :=
      let c := cog ids in let rc := vmean refs in map (fun a => vadd (mvmul R (vsub (pos a) c)) rc) ids.
    (* r = the copy of the reference the rotated positions are compared with (refs itself without atomPermutation) *)
    Definition rmsdrot_diff (ids : list nat) (refs : list vec) (R : mat) (r : list vec) : list vec := vsub_list (rot_frame ids refs R) r.
    Definition rmsdrot_value (ids : list nat) (refs : list vec) (R : mat) (r : list vec) : T :=
      nsqrt O (norm2_sum (rmsdrot_diff ids refs R r) / ofnat (length ids)).
    Definition rmsdrot_grads (ids : list nat) (refs : list vec) (R : mat) (r : list vec) : list vec :=
      let x := rmsdrot_value ids refs R r in
      let k := if nltb O zero x then half / (x * ofnat (length ids)) else zero in
      map (fun d => vscale (k * two) d) (rmsdrot_diff ids refs R r).
    Definition rmsd_best (ids : list nat) (refs : list vec) (extra : list (list vec)) (center : option vec) : list vec :=
      best_copy (frame_pos ids center) refs extra.
    Definition rmsdrot_best (ids : list nat) (refs : list vec) (extra : list (list vec)) (R : mat) : list vec :=
      best_copy (rot_frame ids refs R) refs extra.
    Fixpoint dot_list (l r : list vec) : T :=
      match l, r with a :: l', b :: r' => vdot a b + dot_list l' r' | _, _ => zero end.

    (* ------------------------------------------------------------------ value *)
    Definition cvc_value (c : cvc) : T :=
      match c with
      | CDistance g1 g2 _ => vnorm (dist_v g1 g2)
      | CDistanceZ gm gr gr2 axis _ => dz_value gm gr gr2 axis
      | CDistanceXY gm gr gr2 axis _ => dxy_value gm gr gr2 axis
      | CAngle g1 g2 g3 _ => deg * nacos O (ang_cos g1 g2 g3)
      | CDihedral g1 g2 g3 g4 _ =>
          let r12 := dih_r12 g1 g2 in let r23 := dih_r12 g2 g3 in let r34 := dih_r12 g3 g4 in
          let n1 := vcross r12 r23 in let n2 := vcross r23 r34 in
          deg * natan2 O (vdot n1 r34 * vnorm r23) (vdot n1 n2)
      | CGyration ids => gyr_value ids
      | CRmsd ids refs extra center => rmsd_value ids (rmsd_best ids refs extra center) center
      | CEigenvector ids refs evec center => dot_list (vsub_list (frame_pos ids center) refs) (eig_vec evec)
      | CRmsdRot ids refs extra rotf _ _ =>
          let R := rotmat (rotf pos) in rmsdrot_value ids refs R (rmsdrot_best ids refs extra R)
      | CEigenvectorRot ids refs evec rotf _ => dot_list (vsub_list (rot_frame ids refs (rotmat (rotf pos))) refs) (eig_vec evec)
      end.

    (* ------------------------------------------------------------------ forward path:
       calc_gradients + apply_force(fc): the force field a component force fc puts on the atoms *)
    Definition cvc_apply (c : cvc) (fc : T) : field :=
      match c with
      | CDistance g1 g2 _ =>
          let u := vunit (dist_v g1 g2) in
          fadd (gapply g1 (vscale (nneg O one) u) fc) (gapply g2 u fc)
      | CDistanceZ gm gr None axis _ =>
          fadd (gapply gm axis fc) (gapply gr (vscale (nneg O one) axis) fc)
      | CDistanceZ gm gr (Some g2) axis _ =>
          let ax := dz_axis gr (Some g2) axis in
          let an := dz_axis_norm gr (Some g2) in
          let x := dz_value gm gr (Some g2) axis in
          (* repaired gradients (/repo "fix: distanceZ with ref2 gave ref and ref2 each other's gradient"):
             dx/dref = (ref - main + x axis)/|ref2-ref|, dx/dref2 = (main - ref2 - x axis)/|ref2-ref| *)
          fadd (gapply gm ax fc)
            (fadd (gapply gr (vscale (one / an) (vadd (pdist (gcom gm) (gcom gr)) (vscale x ax))) fc)
                  (gapply g2 (vscale (one / an) (vsub (pdist (gcom g2) (gcom gm)) (vscale x ax))) fc))
      | CDistanceXY gm gr None axis _ =>
          let x := dxy_value gm gr None axis in
          let dvo := dxy_ortho gm gr None axis in
          if neqb O x zero then fzero else
          fadd (gapply gr (vscale (nneg O one * (one / x)) dvo) fc) (gapply gm (vscale (one / x) dvo) fc)
      | CDistanceXY gm gr (Some g2) axis _ =>
          let x := dxy_value gm gr (Some g2) axis in
          let dvo := dxy_ortho gm gr (Some g2) axis in
          let A := vdot (dxy_dist_v gm gr) (dz_axis gr (Some g2) axis) / dz_axis_norm gr (Some g2) in
          if neqb O x zero then fzero else
          fadd (gapply gr (vscale ((A - one) * (one / x)) dvo) fc)
            (fadd (gapply g2 (vscale (nneg O A * (one / x)) dvo) fc)
                  (gapply gm (vscale (one * (one / x)) dvo) fc))
      | CAngle g1 g2 g3 _ =>
          let d1 := ang_dxdr1 g1 g2 g3 in let d3 := ang_dxdr3 g1 g2 g3 in
          fadd (gapply g1 d1 fc) (fadd (gapply g2 (vscale (nneg O one) (vadd d1 d3)) fc) (gapply g3 d3 fc))
      | CDihedral g1 g2 g3 g4 _ =>
          let f1 := dih_f1 g1 g2 g3 in let f2 := dih_f2 g1 g2 g3 g4 in let f3 := dih_f3 g2 g3 g4 in
          fadd (gapply g1 (vneg f1) fc)
            (fadd (gapply g2 (vadd f2 f1) fc)
               (fadd (gapply g3 (vsub (vneg f3) f2) fc) (gapply g4 f3 fc)))
      | CGyration ids =>
          let drdx := one / (ofnat (length ids) * gyr_value ids) in
          aapply ids (map (vscale drdx) (gyr_pos ids)) fc
      | CRmsd ids refs extra center =>
          let g := rmsd_grads ids (rmsd_best ids refs extra center) center in
          fadd (aapply ids g fc) (aapply ids (fit_grads (length ids) center g) fc)
      | CEigenvector ids refs evec center =>
          let g := eig_vec evec in
          fadd (aapply ids g fc) (aapply ids (fit_grads (length ids) center g) fc)
      (* apply_colvar_force with f_ag_rotate: forces rotated back with the inverse rotation; no fit gradients *)
      | CRmsdRot ids refs extra rotf _ fitf =>
          let R := rotmat (rotf pos) in
          let direct := aapply ids (map (mvmul (rotmat (qconj (rotf pos)))) (rmsdrot_grads ids refs R (rmsdrot_best ids refs extra R))) fc in
          match extra with
          | [] => direct                               (* standard rmsd: fit gradients disabled (they cancel) *)
          | _ => fadd direct (aapply ids (fitf pos) fc)  (* atomPermutation: + fc * fit_gradients *)
          end
      | CEigenvectorRot ids refs evec rotf _ => aapply ids (map (mvmul (rotmat (qconj (rotf pos)))) (eig_vec evec)) fc
      end.

    (* ------------------------------------------------------------------ calc_force_invgrads *)
    Definition cvc_ft (c : cvc) (F : field) : T :=
      match c with
      | CDistance g1 g2 onesite =>
          let u := vunit (dist_v g1 g2) in
          if onesite then nneg O one * vdot (gforce F g1) u
          else half * vdot (vsub (gforce F g2) (gforce F g1)) u
      | CDistanceZ gm gr gr2 axis onesite =>
          let ax := dz_axis gr gr2 axis in
          match gr2 with
          | None => if onesite then vdot (gforce F gm) ax
                    else half * vdot (vsub (gforce F gm) (gforce F gr)) ax
          | Some _ => vdot (gforce F gm) ax
          end
      | CDistanceXY gm gr gr2 axis onesite =>
          let x := dxy_value gm gr gr2 axis in
          let dvo := dxy_ortho gm gr gr2 axis in
          match gr2 with
          | None => if onesite then one / x * vdot (gforce F gm) dvo
                    else half / x * vdot (vsub (gforce F gm) (gforce F gr)) dvo
          | Some _ => one / x * vdot (gforce F gm) dvo
          end
      | CAngle g1 g2 g3 onesite =>
          let d1 := ang_dxdr1 g1 g2 g3 in let d3 := ang_dxdr3 g1 g2 g3 in
          if onesite then one / vnorm2 d1 * vdot d1 (gforce F g1)
          else one / (vnorm2 d1 + vnorm2 d3) * (vdot d1 (gforce F g1) + vdot d3 (gforce F g3))
      | CDihedral g1 g2 g3 g4 onesite =>
          let t1 := dih_fact1 g1 g2 g3 * vdot (dih_cross1 g1 g2 g3) (gforce F g1) in
          if onesite then pi / nofZ O 180 * t1
          else pi / nofZ O 180 * half * (t1 + dih_fact4 g2 g3 g4 * vdot (dih_cross4 g2 g3 g4) (gforce F g4))
      | CGyration ids =>
          let dxdr := one / gyr_value ids in
          adot ids (map (vscale dxdr) (gyr_pos ids)) F
      | CRmsd ids refs extra center =>
          let g := rmsd_grads ids (rmsd_best ids refs extra center) center in
          match center with
          | None => adot ids g F * ofnat (length ids)
          (* fit gradients enabled: project on the complete gradient G = grad + fit, normalised by sum |G|^2 *)
          | Some _ => let G := vadd_list g (fit_grads (length ids) center g) in adot ids G F / norm2_sum G
          end
      | CEigenvector ids refs evec center =>
          adot ids (map (vscale (eig_invnorm2 evec)) (eig_vec evec)) F
      (* read_total_forces rotates the atomic forces into the frame of the gradients *)
      | CRmsdRot ids refs extra rotf _ fitf =>
          let R := rotmat (rotf pos) in
          let g := rmsdrot_grads ids refs R (rmsdrot_best ids refs extra R) in
          match extra with
          | [] => adot ids g (frot R F) * ofnat (length ids)
          | _ => let G := vadd_list g (map (mvmul R) (fitf pos)) in adot ids G (frot R F) / norm2_sum G
          end
      | CEigenvectorRot ids refs evec rotf _ =>
          adot ids (map (vscale (eig_invnorm2 evec)) (eig_vec evec)) (frot (rotmat (rotf pos)) F)
      end.

    (* ------------------------------------------------------------------ calc_Jacobian_derivative *)
    Definition inv_or_zero (num x : T) : T := if neqb O x zero then zero else num / x.
    Definition cvc_jd (c : cvc) : T :=
      match c with
      | CDistance g1 g2 _ => inv_or_zero two (vnorm (dist_v g1 g2))
      | CDistanceZ _ _ _ _ _ => zero
      | CDistanceXY gm gr gr2 axis _ => inv_or_zero one (dxy_value gm gr gr2 axis)
      | CAngle g1 g2 g3 _ =>
          let theta := cvc_value c * pi / nofZ O 180 in
          pi / nofZ O 180 * (if neqb O theta zero then zero else ncos O theta / nsin O theta)
      | CDihedral _ _ _ _ _ => zero
      | CGyration ids => inv_or_zero (nofZ O 3 * ofnat (length ids) - nofZ O 4) (gyr_value ids)
      | CRmsd ids refs extra center =>
          let x := rmsd_value ids (rmsd_best ids refs extra center) center in
          let tr := match center with Some _ => nofZ O 3 | None => zero end in
          if nltb O zero x then (nofZ O 3 * ofnat (length ids) - one - tr - zero) / x else zero
      | CEigenvector _ _ _ _ => zero    (* no rotation: the projection is linear in the coordinates *)
      | CRmsdRot _ _ _ _ jdf _ | CEigenvectorRot _ _ _ _ jdf => jdf pos
      end.

    (* ------------------------------------------------------------------ the variable *)
    Record colvar : Type := mkColvar {
      cv_comps : list (cvc * T);      (* components and their coefficients (linear combination) *)
      cv_hide : bool;                 (* hideJacobian *)
      cv_subtract : bool;             (* subtractAppliedForce *)
      cv_samestep : bool;             (* f_cv_total_force_current_step = proxy->total_forces_same_step() *)
      cv_kT : T                       (* boltzmann * target temperature *)
    }.

    (* update_active_cvc_square_norm *)
    Definition cv_sqnorm (cv : colvar) : T := tsum (map (fun p => snd p * snd p) (cv_comps cv)).
    (* collect_cvc_total_forces, first part: sum ft_i c_i / sum c^2 *)
    Definition cv_proj (cv : colvar) (F : field) : T :=
      tsum (map (fun p => cvc_ft (fst p) F * snd p / cv_sqnorm cv) (cv_comps cv)).
    (* collect_cvc_Jacobians: kT * sum jd_i c_i / sum c^2 *)
    Definition cv_fj (cv : colvar) : T :=
      tsum (map (fun p => cvc_jd (fst p) * snd p / cv_sqnorm cv) (cv_comps cv)) * cv_kT cv.
    (* communicate_forces: component i receives f * c_i (np = 1) *)
    Definition cv_apply (cv : colvar) (f : T) : field :=
      fsum (map (fun p => cvc_apply (fst p) (f * snd p)) (cv_comps cv)).
    Definition cv_atoms (cv : colvar) : list nat := flat_map (fun p => cvc_atoms (fst p)) (cv_comps cv).
  End Sys.

  (* whether collect_cvc_total_forces adds the Jacobian force; comp = prev_Jacobian_force_compensated: the variable
     applied the compensating force -fj at the step the (lagged) total force is about *)
  Definition adds_fj (cv : colvar) (comp : bool) : bool :=
    negb (cv_hide cv && (cv_subtract cv || cv_samestep cv || negb comp)).
  (* update_forces_energy: f = fb - fj when the Jacobian is hidden AND a bias applies a force to the variable
     (apply = f_cv_apply_force: only then is the force communicated to the atoms) *)
  Definition applied_force (cv : colvar) (apply : bool) (fb fj : T) : T := if cv_hide cv && apply then fb - fj else fb.

  (* ------------------------------------------------------------------ one step of colvar::calc +
     update_forces_energy + communicate_forces + end_of_step.
     State: the geometry the components hold from the previous step, fj, ft, f_old, step_relative. *)
  Record cvstate : Type := mkCvstate {
    st_prev_pos : field;
    st_fj : T;
    st_ft : T;
    st_fold : T;
    st_rel : nat;
    st_comp : bool;    (* prev_Jacobian_force_compensated *)
    st_prev_cv : colvar   (* the configuration (prev_cvc_weights: coefficients and their square norm) of the previous step *)
  }.
  Definition cv_init : cvstate := mkCvstate fzero zero zero zero 0 false (mkColvar [] false false false zero).

  Record cvout : Type := mkCvout {
    o_ft : T;          (* ft_reported *)
    o_f : T;           (* force applied to the variable *)
    o_forces : field   (* atoms_new_colvar_forces *)
  }.

  Definition cv_step (mass : nat -> T) (cv : colvar) (s : cvstate) (pos F : field) (fb : T) (apply : bool) : cvstate * cvout :=
    let measured_lagged := negb (cv_samestep cv) && (0 <? st_rel s)%nat in
    (* lagged: calc_cvc_total_force + collect_cvc_total_forces before the values of this step *)
    let ft1 :=
      if cv_samestep cv then st_ft s
      else if measured_lagged
           (* the forces of the previous step are combined with the coefficients of the previous step *)
           then cv_proj mass (st_prev_pos s) (st_prev_cv s) F + (if adds_fj cv (st_comp s) then st_fj s else zero)
           else st_ft s in
    let fj := cv_fj mass pos cv in
    (* same step: after the values and Jacobians of this step *)
    let ft2 :=
      if cv_samestep cv then cv_proj mass pos cv F + (if adds_fj cv (st_comp s) then fj else zero) else ft1 in
    (* calc_colvar_properties *)
    let ft3 :=
      if cv_subtract cv && negb (cv_samestep cv) && measured_lagged then ft2 - st_fold s else ft2 in
    let f := applied_force cv apply fb fj in
    let fold := f in      (* end_of_step records f at every step, also while subtractAppliedForce is off (it may be switched on by script) *)
    (* communicate_forces runs only while a bias applies a force to the variable *)
    (mkCvstate pos fj ft3 fold (S (st_rel s)) (cv_hide cv && apply) cv,
     mkCvout ft3 f (if apply then cv_apply mass pos cv f else fzero)).

  (* ------------------------------------------------------------------ the engine (harness/vsim.h step()):
     positions and its own forces per step; in the lagged convention it hands over the force that acted at
     the previous step, including (includecv) the forces Colvars applied then. *)
  Record einput : Type := mkEinput { e_pos : field; e_force : field; e_fb : T; e_apply : bool }.
  Record estate : Type := mkEstate { es_cv : cvstate; es_prev_total : field }.
  Definition eng_init : estate := mkEstate cv_init fzero.
  Definition eng_step (mass : nat -> T) (cv : colvar) (includecv : bool) (s : estate) (i : einput) : estate * cvout :=
    let F := if cv_samestep cv then e_force i else es_prev_total s in
    let '(cs, out) := cv_step mass cv (es_cv s) (e_pos i) F (e_fb i) (e_apply i) in
    (mkEstate cs (if includecv then fadd (e_force i) (o_forces out) else e_force i), out).
  Fixpoint eng_run (mass : nat -> T) (cv : colvar) (includecv : bool) (s : estate) (l : list einput) : estate * list cvout :=
    match l with
    | [] => (s, [])
    | i :: r => let '(s1, o) := eng_step mass cv includecv s i in
                let '(s2, os) := eng_run mass cv includecv s1 r in (s2, o :: os)
    end.
End TotalForce.
