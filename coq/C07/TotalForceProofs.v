(* Lemmas about the total-force model over the real numbers (instance Rops). *)
From Coq Require Import ZArith List Bool Arith Reals Lra Lia Psatz.
From CV Require Import Base.Num Base.RNum C07.TotalForceModel.
Import ListNotations.
Local Open Scope R_scope.

Notation RV := (@vec R).
Notation RF := (@field R).
Notation RG := (@group R).
Notation RC := (@cvc R).

Ltac rs := cbn [nadd nsub nmul ndiv nneg n0 n1 nsqrt nofZ nltb nleb neqb Rops fst snd].
Ltac rs_in H := cbn [nadd nsub nmul ndiv nneg n0 n1 nsqrt nofZ nltb nleb neqb Rops fst snd] in H.
Ltac vd :=
  repeat match goal with
         | v : RV |- _ => destruct v as [[? ?] ?]
         | v : (R * R * R)%type |- _ => destruct v as [[? ?] ?]
         end.
Ltac rsa := cbn [nadd nsub nmul ndiv nneg n0 n1 nsqrt nofZ nltb nleb neqb Rops fst snd] in *.
Ltac vu := unfold vnorm2 in *; unfold vadd, vsub, vscale, vneg, vdot, vcross, vzero in *; rsa.

(* ------------------------------------------------------------------ vectors *)
Definition v0 : RV := vzero Rops.
Lemma vadd_0_l (a : RV) : vadd Rops v0 a = a.
Proof. unfold v0; vd; vu. f_equal; [f_equal|]; ring. Qed.
Lemma vadd_0_r (a : RV) : vadd Rops a v0 = a.
Proof. unfold v0; vd; vu. f_equal; [f_equal|]; ring. Qed.
Lemma vadd_comm (a b : RV) : vadd Rops a b = vadd Rops b a.
Proof. vd; vu. f_equal; [f_equal|]; ring. Qed.
Lemma vadd_assoc (a b c : RV) : vadd Rops a (vadd Rops b c) = vadd Rops (vadd Rops a b) c.
Proof. vd; vu. f_equal; [f_equal|]; ring. Qed.
Lemma vscale_vadd s (a b : RV) : vscale Rops s (vadd Rops a b) = vadd Rops (vscale Rops s a) (vscale Rops s b).
Proof. vd; vu. f_equal; [f_equal|]; ring. Qed.
Lemma vscale_0 s : vscale Rops s v0 = v0.
Proof. unfold v0; vu. f_equal; [f_equal|]; ring. Qed.
Lemma vscale_vscale s t (a : RV) : vscale Rops s (vscale Rops t a) = vscale Rops (s * t) a.
Proof. vd; vu. f_equal; [f_equal|]; ring. Qed.
Lemma vscale_add_l s t (a : RV) : vscale Rops (s + t) a = vadd Rops (vscale Rops s a) (vscale Rops t a).
Proof. vd; vu. f_equal; [f_equal|]; ring. Qed.
Lemma vscale_1 (a : RV) : vscale Rops 1 a = a.
Proof. vd; vu. f_equal; [f_equal|]; ring. Qed.
Lemma vscale_zero_l (a : RV) : vscale Rops 0 a = v0.
Proof. unfold v0; vd; vu. f_equal; [f_equal|]; ring. Qed.
Lemma vdot_0_r (a : RV) : vdot Rops a v0 = 0.
Proof. unfold v0; vd; vu. ring. Qed.
Lemma vdot_0_l (a : RV) : vdot Rops v0 a = 0.
Proof. unfold v0; vd; vu. ring. Qed.
Lemma vdot_comm (a b : RV) : vdot Rops a b = vdot Rops b a.
Proof. vd; vu. ring. Qed.
Lemma vdot_vadd_r (a b c : RV) : vdot Rops a (vadd Rops b c) = vdot Rops a b + vdot Rops a c.
Proof. vd; vu. ring. Qed.
Lemma vdot_vadd_l (a b c : RV) : vdot Rops (vadd Rops a b) c = vdot Rops a c + vdot Rops b c.
Proof. vd; vu. ring. Qed.
Lemma vdot_vscale_r s (a b : RV) : vdot Rops a (vscale Rops s b) = s * vdot Rops a b.
Proof. vd; vu. ring. Qed.
Lemma vdot_vscale_l s (a b : RV) : vdot Rops (vscale Rops s a) b = s * vdot Rops a b.
Proof. vd; vu. ring. Qed.
Lemma vnorm2_nonneg (a : RV) : 0 <= vnorm2 Rops a.
Proof. vd; vu. nra. Qed.
Lemma vnorm2_zero (a : RV) : vnorm2 Rops a = 0 -> a = v0.
Proof.
  unfold v0; vd; vu. intros H.
  assert (r = 0) by nra. assert (r0 = 0) by nra. assert (r1 = 0) by nra. subst. reflexivity.
Qed.
Lemma vnorm_sq (a : RV) : vnorm Rops a * vnorm Rops a = vnorm2 Rops a.
Proof. unfold vnorm; rs. apply sqrt_sqrt, vnorm2_nonneg. Qed.
Lemma vnorm_pos (a : RV) : 0 < vnorm2 Rops a -> 0 < vnorm Rops a.
Proof. intros H. unfold vnorm; rs. apply sqrt_lt_R0; exact H. Qed.
Lemma vnorm_nonneg (a : RV) : 0 <= vnorm Rops a.
Proof. unfold vnorm; rs. apply sqrt_pos. Qed.
Lemma vnorm_zero_iff (a : RV) : vnorm Rops a = 0 <-> vnorm2 Rops a = 0.
Proof.
  split; intros H.
  - rewrite <- vnorm_sq, H. ring.
  - unfold vnorm; rs. rewrite H. apply sqrt_0.
Qed.

(* rvector::unit always returns a unit vector: (1,0,0) for the null vector *)
Lemma vunit_pos (a : RV) : 0 < vnorm2 Rops a -> vunit Rops a = vscale Rops (1 / vnorm Rops a) a.
Proof.
  intros H. unfold vunit. rs.
  destruct (Rltb 0 (vnorm Rops a)) eqn:E; [reflexivity|].
  apply Rltb_false in E. pose proof (vnorm_pos a H). lra.
Qed.
Lemma vunit_dot (a : RV) : vdot Rops (vunit Rops a) (vunit Rops a) = 1.
Proof.
  unfold vunit. rs. destruct (Rltb 0 (vnorm Rops a)) eqn:E.
  - apply Rltb_true in E. rewrite vdot_vscale_l, vdot_vscale_r.
    change (vdot Rops a a) with (vnorm2 Rops a). rewrite <- vnorm_sq. field. lra.
  - vu. ring.
Qed.

(* Lagrange identity and the cross product of scaled vectors *)
Lemma lagrange (a b : RV) :
  vnorm2 Rops (vcross Rops a b) = vnorm2 Rops a * vnorm2 Rops b - vdot Rops a b * vdot Rops a b.
Proof. vd; vu. ring. Qed.
Lemma vcross_vscale s t (a b : RV) :
  vcross Rops (vscale Rops s a) (vscale Rops t b) = vscale Rops (s * t) (vcross Rops a b).
Proof. vd; vu. f_equal; [f_equal|]; ring. Qed.
Lemma vnorm2_vscale s (a : RV) : vnorm2 Rops (vscale Rops s a) = s * s * vnorm2 Rops a.
Proof. vd; vu. ring. Qed.
Lemma vnorm_vscale_pos s (a : RV) : 0 <= s -> vnorm Rops (vscale Rops s a) = s * vnorm Rops a.
Proof.
  intros Hs. unfold vnorm; rs. rewrite vnorm2_vscale.
  rewrite sqrt_mult; [|nra|apply vnorm2_nonneg]. rewrite sqrt_square by exact Hs. reflexivity.
Qed.

(* ------------------------------------------------------------------ matrices *)
Notation RM := (@mat R).
Lemma mvmul_vadd (m : RM) (a b : RV) : mvmul Rops m (vadd Rops a b) = vadd Rops (mvmul Rops m a) (mvmul Rops m b).
Proof. destruct m as [[r1 r2] r3]. vd. unfold mvmul. vu. f_equal; [f_equal|]; ring. Qed.
Lemma mvmul_vscale (m : RM) s (a : RV) : mvmul Rops m (vscale Rops s a) = vscale Rops s (mvmul Rops m a).
Proof. destruct m as [[r1 r2] r3]. vd. unfold mvmul. vu. f_equal; [f_equal|]; ring. Qed.
Lemma mvmul_0 (m : RM) : mvmul Rops m v0 = v0.
Proof. destruct m as [[r1 r2] r3]. unfold v0. vd. unfold mvmul. vu. f_equal; [f_equal|]; ring. Qed.
(* rotation matrices: R R^T = identity *)
Definition orthogonal (m : RM) : Prop := forall v : RV, mvmul Rops m (mtvmul Rops m v) = v.
Notation RQ := (@quat R).
(* quaternion::rotation_matrix of a unit quaternion is orthogonal, and that of the conjugate (rotation::inverse) is its transpose *)
Lemma rotmat_orthogonal (q : RQ) : qnorm2 Rops q = 1 -> orthogonal (rotmat Rops q).
Proof.
  destruct q as [[[q0 q1] q2] q3]. unfold qnorm2, orthogonal, rotmat, mvmul, mtvmul. rs. intros H [[x y] z]. vu.
  assert (E : forall a b, a = b -> a = b * ((q0 * q0 + q1 * q1 + q2 * q2 + q3 * q3) * (q0 * q0 + q1 * q1 + q2 * q2 + q3 * q3)))
    by (intros a b ->; rewrite H; ring).
  f_equal; [f_equal|]; (etransitivity; [|symmetry; apply E; reflexivity]); ring.
Qed.
Lemma rotmat_conj (q : RQ) (v : RV) : mvmul Rops (rotmat Rops (qconj Rops q)) v = mtvmul Rops (rotmat Rops q) v.
Proof. destruct q as [[[q0 q1] q2] q3]. destruct v as [[x y] z]. unfold qconj, rotmat, mvmul, mtvmul. rs. vu. f_equal; [f_equal|]; ring. Qed.

(* ------------------------------------------------------------------ sums *)
Lemma tsum_app (l r : list R) : tsum Rops (l ++ r) = tsum Rops l + tsum Rops r.
Proof. unfold tsum. induction l as [|a l IH]; cbn [fold_right app]; [rs; ring|]. rewrite IH. rs. ring. Qed.
Lemma vsum_cons (a : RV) l : vsum Rops (a :: l) = vadd Rops a (vsum Rops l).
Proof. reflexivity. Qed.
Lemma tsum_cons (a : R) l : tsum Rops (a :: l) = a + tsum Rops l.
Proof. reflexivity. Qed.

(* ------------------------------------------------------------------ fields and groups *)
Lemma memn_In a l : memn a l = true <-> In a l.
Proof.
  induction l as [|b l IH]; cbn [memn In]; [split; [discriminate|tauto]|].
  destruct (Nat.eqb a b) eqn:E.
  - apply Nat.eqb_eq in E. subst. tauto.
  - apply Nat.eqb_neq in E. rewrite IH. split; [tauto|]. intros [H|H]; [congruence|exact H].
Qed.
Lemma memn_false a l : memn a l = false <-> ~ In a l.
Proof. rewrite <- memn_In. destruct (memn a l); split; intros; congruence. Qed.

Lemma vsum_map_fadd (F G : RF) l :
  vsum Rops (map (fadd Rops F G) l) = vadd Rops (vsum Rops (map F l)) (vsum Rops (map G l)).
Proof.
  induction l as [|a l IH]; cbn [map]; [unfold vsum; cbn [fold_right]; symmetry; apply vadd_0_l|].
  rewrite !vsum_cons, IH. unfold fadd at 1.
  set (x := F a); set (y := G a); set (p := vsum Rops (map F l)); set (q := vsum Rops (map G l)).
  vd; vu. f_equal; [f_equal|]; ring.
Qed.
Lemma vsum_map_fscale s (F : RF) l :
  vsum Rops (map (fscale Rops s F) l) = vscale Rops s (vsum Rops (map F l)).
Proof.
  induction l as [|a l IH]; cbn [map]; [unfold vsum; cbn [fold_right]; symmetry; apply vscale_0|].
  rewrite !vsum_cons, IH, vscale_vadd. reflexivity.
Qed.
Lemma vsum_map_ext (F G : RF) l : (forall a, In a l -> F a = G a) -> vsum Rops (map F l) = vsum Rops (map G l).
Proof.
  induction l as [|a l IH]; intros H; cbn [map]; [reflexivity|].
  rewrite !vsum_cons, H by (left; reflexivity). rewrite IH; [reflexivity|]. intros b Hb. apply H. right; exact Hb.
Qed.
Lemma vsum_map_zero (F : RF) l : (forall a, In a l -> F a = v0) -> vsum Rops (map F l) = v0.
Proof.
  induction l as [|a l IH]; intros H; cbn [map]; [reflexivity|].
  rewrite vsum_cons, H by (left; reflexivity). rewrite IH; [apply vadd_0_l|]. intros b Hb. apply H. right; exact Hb.
Qed.

Lemma gforce_fadd (F G : RF) g : gforce Rops (fadd Rops F G) g = vadd Rops (gforce Rops F g) (gforce Rops G g).
Proof. unfold gforce. apply vsum_map_fadd. Qed.
Lemma gforce_fscale s (F : RF) g : gforce Rops (fscale Rops s F) g = vscale Rops s (gforce Rops F g).
Proof. unfold gforce. apply vsum_map_fscale. Qed.
Lemma gforce_ext (F G : RF) g : (forall a, In a (gids g) -> F a = G a) -> gforce Rops F g = gforce Rops G g.
Proof. unfold gforce. apply vsum_map_ext. Qed.
Lemma gforce_fzero g : gforce Rops (fzero Rops) g = v0.
Proof. unfold gforce. apply vsum_map_zero. reflexivity. Qed.

(* a group that can be measured: made of atoms, with non-zero total mass *)
Definition gok (mass : nat -> R) (g : RG) : Prop := (exists ids, g = GAtoms ids) /\ gmass Rops mass g <> 0.
Definition disj (g g' : RG) : Prop := forall a, In a (gids g) -> ~ In a (gids g').

(* the atoms of a group receive, in total, the force put on the group's centre *)
Lemma gapply_sum mass (g : RG) (v : RV) fc l :
  (forall a, In a l -> In a (gids g)) ->
  vsum Rops (map (gapply Rops mass g v fc) l) = vscale Rops (fc * (tsum Rops (map mass l) / gmass Rops mass g)) v.
Proof.
  induction l as [|a l IH]; intros H; cbn [map].
  - unfold vsum, tsum; cbn [fold_right]; rs. vd; vu. f_equal; [f_equal|]; unfold Rdiv; ring.
  - rewrite vsum_cons, IH by (intros b Hb; apply H; right; exact Hb).
    unfold gapply at 1. assert (Hm : memn a (gids g) = true) by (apply memn_In, H; left; reflexivity).
    rewrite Hm. cbn [map]. rewrite tsum_cons. rs. vd; vu. f_equal; [f_equal|]; unfold Rdiv; ring.
Qed.
Lemma gforce_gapply_same mass (g : RG) (v : RV) fc :
  gok mass g -> gforce Rops (gapply Rops mass g v fc) g = vscale Rops fc v.
Proof.
  intros [[ids ->] Hm]. unfold gforce. rewrite gapply_sum by (intros a Ha; exact Ha).
  cbn [gids gmass] in *. f_equal. field. exact Hm.
Qed.
Lemma gforce_gapply_disj mass (g g' : RG) (v : RV) fc :
  disj g g' -> gforce Rops (gapply Rops mass g' v fc) g = v0.
Proof.
  intros H. unfold gforce. apply vsum_map_zero. intros a Ha. unfold gapply.
  assert (Hm : memn a (gids g') = false) by (apply memn_false, H, Ha). rewrite Hm. reflexivity.
Qed.
Lemma gapply_support mass (g : RG) (v : RV) fc a : ~ In a (gids g) -> gapply Rops mass g v fc a = v0.
Proof. intros H. unfold gapply. apply memn_false in H. rewrite H. reflexivity. Qed.
Lemma disj_sym (g g' : RG) : disj g g' -> disj g' g.
Proof. unfold disj. intros H a Ha Hb. exact (H a Hb Ha). Qed.

(* ------------------------------------------------------------------ atom-wise application and projection *)
Lemma adot_fadd ids ws (F G : RF) : adot Rops ids ws (fadd Rops F G) = adot Rops ids ws F + adot Rops ids ws G.
Proof.
  revert ws; induction ids as [|a ids IH]; intros [|w ws]; cbn [adot]; rs; try ring.
  rewrite IH. unfold fadd at 1. rewrite vdot_vadd_r. ring.
Qed.
Lemma adot_fscale s ids ws (F : RF) : adot Rops ids ws (fscale Rops s F) = s * adot Rops ids ws F.
Proof.
  revert ws; induction ids as [|a ids IH]; intros [|w ws]; cbn [adot]; rs; try ring.
  rewrite IH. unfold fscale at 1. rewrite vdot_vscale_r. ring.
Qed.
Lemma adot_ext ids ws (F G : RF) : (forall a, In a ids -> F a = G a) -> adot Rops ids ws F = adot Rops ids ws G.
Proof.
  revert ws; induction ids as [|a ids IH]; intros [|w ws] H; cbn [adot]; try reflexivity.
  rewrite H by (left; reflexivity). rewrite (IH ws); [reflexivity|]. intros b Hb; apply H; right; exact Hb.
Qed.
Lemma adot_fzero ids ws : adot Rops ids ws (fzero Rops) = 0.
Proof.
  revert ws; induction ids as [|a ids IH]; intros [|w ws]; cbn [adot]; rs; try reflexivity.
  rewrite IH. unfold fzero. fold v0. rewrite vdot_0_r. ring.
Qed.
Lemma aapply_support ids gs fc a : ~ In a ids -> aapply Rops ids gs fc a = v0.
Proof.
  revert gs; induction ids as [|b ids IH]; intros [|g gs] H; cbn [aapply]; try reflexivity.
  assert (E : Nat.eqb a b = false) by (apply Nat.eqb_neq; intros ->; apply H; left; reflexivity).
  rewrite E, IH by (intros Hc; apply H; right; exact Hc). apply vadd_0_l.
Qed.
(* projecting the forces that aapply put on the same (duplicate-free) list of atoms *)
Lemma adot_aapply ids ws gs fc : NoDup ids -> length ws = length ids -> length gs = length ids ->
  adot Rops ids ws (aapply Rops ids gs fc) = fc * dot_list Rops ws gs.
Proof.
  revert ws gs; induction ids as [|a ids IH]; intros [|w ws] [|g gs] Hn Hw Hg; cbn [length] in *; try discriminate.
  - cbn [adot dot_list]; rs. ring.
  - inversion Hn as [|? ? Hna Hn']; subst.
    cbn [adot dot_list aapply]; rs. rewrite Nat.eqb_refl.
    rewrite (aapply_support ids gs fc a Hna), vadd_0_r, vdot_vscale_r.
    assert (E : adot Rops ids ws (fun b => vadd Rops (if Nat.eqb b a then vscale Rops fc g else vzero Rops) (aapply Rops ids gs fc b))
                = adot Rops ids ws (aapply Rops ids gs fc)).
    { apply adot_ext. intros b Hb. assert (Nat.eqb b a = false) as -> by (apply Nat.eqb_neq; intros ->; exact (Hna Hb)).
      apply vadd_0_l. }
    rewrite E, IH by (try assumption; lia). ring.
Qed.

Lemma dot_list_scale s t (l r : list RV) :
  dot_list Rops (map (vscale Rops s) l) (map (vscale Rops t) r) = s * t * dot_list Rops l r.
Proof.
  revert r; induction l as [|a l IH]; intros [|b r]; cbn [map dot_list]; rs; try ring.
  rewrite IH, vdot_vscale_l, vdot_vscale_r. ring.
Qed.
Lemma dot_list_scale_l s (l r : list RV) :
  dot_list Rops (map (vscale Rops s) l) r = s * dot_list Rops l r.
Proof.
  revert r; induction l as [|a l IH]; intros [|b r]; cbn [map dot_list]; rs; try ring.
  rewrite IH, vdot_vscale_l. ring.
Qed.
Lemma dot_list_self (l : list RV) : dot_list Rops l l = norm2_sum Rops l.
Proof.
  induction l as [|a l IH]; cbn [dot_list]; [reflexivity|].
  unfold norm2_sum in *. cbn [map]. rewrite tsum_cons, IH. reflexivity.
Qed.
Lemma dot_list_zeros (l r : list RV) : dot_list Rops l (map (fun _ => v0) r) = 0.
Proof.
  revert r; induction l as [|a l IH]; intros [|b r]; cbn [map dot_list]; rs; try ring.
  rewrite IH, vdot_0_r. ring.
Qed.
Lemma dot_list_const (l r : list RV) s : length r = length l ->
  dot_list Rops l (map (fun _ => s) r) = vdot Rops (vsum Rops l) s.
Proof.
  revert r; induction l as [|a l IH]; intros [|b r] H; cbn [length] in H; try discriminate; cbn [map dot_list].
  - unfold vsum; cbn [fold_right]. fold v0. rewrite vdot_0_l. reflexivity.
  - rewrite IH by lia. rewrite vsum_cons, vdot_vadd_l. reflexivity.
Qed.
Lemma dot_list_add_r (l a b : list RV) : length a = length b ->
  dot_list Rops l a + dot_list Rops l b = dot_list Rops l (map (fun p => vadd Rops (fst p) (snd p)) (combine a b)).
Proof.
  revert a b; induction l as [|x l IH]; intros [|u a] [|v b] H; cbn [length] in H; try discriminate;
    cbn [dot_list combine map]; rs; try ring.
  rewrite <- IH by lia. rewrite vdot_vadd_r. ring.
Qed.
Lemma vadd_list_length (l r : list RV) : length r = length l -> length (vadd_list Rops l r) = length l.
Proof.
  revert r; induction l as [|a l IH]; intros [|b r] H; cbn [length vadd_list] in *; try discriminate; try reflexivity.
  rewrite IH by lia. reflexivity.
Qed.
Lemma dot_list_vadd_list (l a b : list RV) : length a = length b ->
  dot_list Rops l a + dot_list Rops l b = dot_list Rops l (vadd_list Rops a b).
Proof.
  revert a b; induction l as [|x l IH]; intros [|u a] [|v b] H; cbn [length] in H; try discriminate;
    cbn [dot_list vadd_list]; rs; try ring.
  rewrite <- IH by lia. rewrite vdot_vadd_r. ring.
Qed.
(* the inverse gradient along a complete gradient G = g + fit: projecting the forces fc g + fc fit on G / sum |G|^2 gives fc *)
Lemma inv_complete_gradient ids (g fit : list RV) fc : NoDup ids -> length g = length ids -> length fit = length ids ->
  norm2_sum Rops (vadd_list Rops g fit) <> 0 ->
  adot Rops ids (vadd_list Rops g fit) (fadd Rops (aapply Rops ids g fc) (aapply Rops ids fit fc)) / norm2_sum Rops (vadd_list Rops g fit) = fc.
Proof.
  intros Hn Hg Hf Hs.
  assert (HG : length (vadd_list Rops g fit) = length ids) by (rewrite vadd_list_length; lia).
  rewrite adot_fadd, !adot_aapply by (try exact Hn; lia).
  replace (fc * dot_list Rops (vadd_list Rops g fit) g + fc * dot_list Rops (vadd_list Rops g fit) fit)
    with (fc * (dot_list Rops (vadd_list Rops g fit) g + dot_list Rops (vadd_list Rops g fit) fit)) by ring.
  rewrite dot_list_vadd_list by lia. rewrite dot_list_self. field. exact Hs.
Qed.
Lemma norm2_sum_nonneg (l : list RV) : 0 <= norm2_sum Rops l.
Proof.
  induction l as [|a l IH]; unfold norm2_sum in *; cbn [map]; [unfold tsum; cbn [fold_right]; rs; lra|].
  rewrite tsum_cons. pose proof (vnorm2_nonneg a). rs. lra.
Qed.

(* ================================================================== components *)
Section Components.
  Variable cell : option RV.
  Variable mass : nat -> R.
  Variable pos : RF.
  Local Notation ft := (cvc_ft Rops PI cell mass pos).
  Local Notation app := (cvc_apply Rops PI cell mass pos).

  Ltac gf :=
    repeat rewrite gforce_fadd;
    repeat first [ rewrite gforce_gapply_same by assumption
                 | rewrite gforce_gapply_disj by (auto using disj_sym) ].
  (* close a goal  L = fc  where L = fc * S is a field identity and H : S = 1 *)
  Ltac by_unit H :=
    match type of H with
    | ?S = 1 => match goal with |- ?L = ?fc => transitivity (fc * S); [field | rewrite H; ring] end
    end.

  (* ---- distance ---- *)
  Lemma inv_distance g1 g2 fc : gok mass g1 -> gok mass g2 -> disj g1 g2 ->
    ft (CDistance g1 g2 false) (app (CDistance g1 g2 false) fc) = fc.
  Proof.
    intros H1 H2 D. cbn [cvc_ft cvc_apply].
    set (u := vunit Rops (dist_v Rops cell mass pos g1 g2)). gf.
    pose proof (vunit_dot (dist_v Rops cell mass pos g1 g2)) as Hu. fold u in Hu.
    unfold v0 in *. vd. vu. by_unit Hu.
  Qed.
  Lemma inv_distance_onesite g1 g2 fc : gok mass g1 -> disj g1 g2 ->
    ft (CDistance g1 g2 true) (app (CDistance g1 g2 true) fc) = fc.
  Proof.
    intros H1 D. cbn [cvc_ft cvc_apply].
    set (u := vunit Rops (dist_v Rops cell mass pos g1 g2)). gf.
    pose proof (vunit_dot (dist_v Rops cell mass pos g1 g2)) as Hu. fold u in Hu.
    unfold v0 in *. vd. vu. by_unit Hu.
  Qed.

  (* ---- distanceZ ---- *)
  Lemma inv_distanceZ gm gr axis fc : gok mass gm -> gok mass gr -> disj gm gr -> vdot Rops axis axis = 1 ->
    ft (CDistanceZ gm gr None axis false) (app (CDistanceZ gm gr None axis false) fc) = fc.
  Proof.
    intros H1 H2 D Hu. cbn [cvc_ft cvc_apply dz_axis]. gf.
    unfold v0 in *. vd. vu. by_unit Hu.
  Qed.
  Lemma inv_distanceZ_onesite gm gr axis fc : gok mass gm -> disj gm gr -> vdot Rops axis axis = 1 ->
    ft (CDistanceZ gm gr None axis true) (app (CDistanceZ gm gr None axis true) fc) = fc.
  Proof.
    intros H1 D Hu. cbn [cvc_ft cvc_apply dz_axis]. gf.
    unfold v0 in *. vd. vu. by_unit Hu.
  Qed.
  Lemma inv_distanceZ_ref2 gm gr g2 axis os fc : gok mass gm -> disj gm gr -> disj gm g2 ->
    ft (CDistanceZ gm gr (Some g2) axis os) (app (CDistanceZ gm gr (Some g2) axis os) fc) = fc.
  Proof.
    intros H1 D1 D2. cbn [cvc_ft cvc_apply dz_axis].
    set (w := pdist Rops cell (gcom Rops mass pos gr) (gcom Rops mass pos g2)).
    pose proof (vunit_dot w) as Hu. set (u := vunit Rops w) in *. gf.
    unfold v0 in *. vd. vu. by_unit Hu.
  Qed.

  (* ---- distanceXY ---- *)
  Lemma inv_distanceXY_gen gm gr gr2 axis os fc :
    gok mass gm -> (gr2 = None -> os = false -> gok mass gr) -> disj gm gr ->
    (forall g2, gr2 = Some g2 -> disj gm g2) ->
    dxy_value Rops cell mass pos gm gr gr2 axis <> 0 ->
    ft (CDistanceXY gm gr gr2 axis os) (app (CDistanceXY gm gr gr2 axis os) fc) = fc.
  Proof.
    intros H1 H2 D1 D2 Hx. cbn [cvc_ft cvc_apply].
    set (x := dxy_value Rops cell mass pos gm gr gr2 axis) in *.
    set (dvo := dxy_ortho Rops cell mass pos gm gr gr2 axis).
    assert (Hs : x * x = vdot Rops dvo dvo) by (apply vnorm_sq).
    assert (Hn : neqb Rops x (n0 Rops) = false).
    { rs. destruct (Reqb' x 0) eqn:E; [apply Reqb_true in E; contradiction|reflexivity]. }
    destruct gr2 as [g2|].
    - specialize (D2 g2 eq_refl). fold x dvo. rewrite Hn. gf.
      unfold v0 in *. vd. vu. rs_in Hs.
      transitivity (fc * (x * x) / (x * x)); [rewrite Hs at 1; field; exact Hx | field; exact Hx].
    - fold x dvo. rewrite Hn. destruct os.
      + gf. unfold v0 in *. vd. vu. rs_in Hs.
        transitivity (fc * (x * x) / (x * x)); [rewrite Hs at 1; field; exact Hx | field; exact Hx].
      + specialize (H2 eq_refl eq_refl). gf. unfold v0 in *. vd. vu. rs_in Hs.
        transitivity (fc * (x * x) / (x * x)); [rewrite Hs at 1; field; exact Hx | field; exact Hx].
  Qed.

  (* ---- angle ---- *)
  Lemma inv_angle g1 g2 g3 fc : gok mass g1 -> gok mass g3 -> disj g1 g2 -> disj g1 g3 -> disj g3 g2 ->
    vnorm2 Rops (ang_dxdr1 Rops PI cell mass pos g1 g2 g3) + vnorm2 Rops (ang_dxdr3 Rops PI cell mass pos g1 g2 g3) <> 0 ->
    ft (CAngle g1 g2 g3 false) (app (CAngle g1 g2 g3 false) fc) = fc.
  Proof.
    intros H1 H3 D12 D13 D32 Hn. cbn [cvc_ft cvc_apply].
    set (d1 := ang_dxdr1 Rops PI cell mass pos g1 g2 g3) in *. set (d3 := ang_dxdr3 Rops PI cell mass pos g1 g2 g3) in *. gf.
    unfold v0 in *. vd. vu. field. exact Hn.
  Qed.
  Lemma inv_angle_onesite g1 g2 g3 fc : gok mass g1 -> disj g1 g2 -> disj g1 g3 ->
    vnorm2 Rops (ang_dxdr1 Rops PI cell mass pos g1 g2 g3) <> 0 ->
    ft (CAngle g1 g2 g3 true) (app (CAngle g1 g2 g3 true) fc) = fc.
  Proof.
    intros H1 D12 D13 Hn. cbn [cvc_ft cvc_apply].
    set (d1 := ang_dxdr1 Rops PI cell mass pos g1 g2 g3) in *. set (d3 := ang_dxdr3 Rops PI cell mass pos g1 g2 g3) in *. gf.
    unfold v0 in *. vd. vu. field. exact Hn.
  Qed.

  (* ---- dihedral: fact * cross = (q x p) / |q| ---- *)
  Lemma dih_factor (p q w : RV) : 0 < vnorm2 Rops (vcross Rops q p) ->
    vnorm Rops p * sqrt (1 - vdot Rops (vunit Rops q) (vunit Rops p) * vdot Rops (vunit Rops q) (vunit Rops p))
      * vdot Rops (vunit Rops (vcross Rops (vunit Rops q) (vunit Rops p))) w
    = 1 / vnorm Rops q * vdot Rops (vcross Rops q p) w.
  Proof.
    intros HC. pose proof (lagrange q p) as HL.
    pose proof (vnorm2_nonneg q) as Hq0. pose proof (vnorm2_nonneg p) as Hp0.
    assert (Hq : 0 < vnorm2 Rops q) by nra. assert (Hp : 0 < vnorm2 Rops p) by nra.
    pose proof (vnorm_pos q Hq) as Hnq. pose proof (vnorm_pos p Hp) as Hnp. pose proof (vnorm_pos _ HC) as HnC.
    pose proof (vnorm_sq q) as Sq. pose proof (vnorm_sq p) as Sp. pose proof (vnorm_sq (vcross Rops q p)) as SC.
    set (nq := vnorm Rops q) in *. set (np := vnorm Rops p) in *. set (C := vcross Rops q p) in *. set (nC := vnorm Rops C) in *.
    rewrite (vunit_pos q Hq), (vunit_pos p Hp). fold nq np.
    rewrite vcross_vscale. fold C.
    set (s := 1 / nq * (1 / np)).
    assert (Hs : 0 < s) by (unfold s; apply Rmult_lt_0_compat; apply Rdiv_lt_0_compat; lra).
    assert (HsC : 0 < vnorm2 Rops (vscale Rops s C)) by (rewrite vnorm2_vscale; apply Rmult_lt_0_compat; [apply Rmult_lt_0_compat; exact Hs | exact HC]).
    rewrite (vunit_pos _ HsC), (vnorm_vscale_pos s C) by lra. fold nC.
    rewrite vdot_vscale_l, vdot_vscale_r, vdot_vscale_l, vdot_vscale_l.
    set (d := vdot Rops q p) in *.
    assert (Hsq : 1 - 1 / nq * (1 / np * d) * (1 / nq * (1 / np * d)) = (nC / (nq * np)) * (nC / (nq * np))).
    { apply Rmult_eq_reg_r with (nq * nq * (np * np)); [|nra].
      transitivity (nq * nq * (np * np) - d * d); [field; lra|].
      transitivity (nC * nC); [rewrite Sq, Sp, SC, HL; ring | field; lra]. }
    rewrite Hsq, sqrt_square by (apply Rlt_le, Rdiv_lt_0_compat; nra).
    unfold s. field. lra.
  Qed.
  Lemma vcross_anti (a b : RV) : vcross Rops a b = vneg Rops (vcross Rops b a).
  Proof. vd; vu. f_equal; [f_equal|]; ring. Qed.
  Lemma vnorm2_vneg (a : RV) : vnorm2 Rops (vneg Rops a) = vnorm2 Rops a.
  Proof. vd; vu. ring. Qed.

  Lemma inv_dihedral g1 g2 g3 g4 fc :
    gok mass g1 -> gok mass g4 -> disj g1 g2 -> disj g1 g3 -> disj g1 g4 -> disj g4 g2 -> disj g4 g3 ->
    0 < vnorm2 Rops (vcross Rops (dih_r12 Rops cell mass pos g1 g2) (dih_r12 Rops cell mass pos g2 g3)) ->
    0 < vnorm2 Rops (vcross Rops (dih_r12 Rops cell mass pos g2 g3) (dih_r12 Rops cell mass pos g3 g4)) ->
    ft (CDihedral g1 g2 g3 g4 false) (app (CDihedral g1 g2 g3 g4 false) fc) = fc.
  Proof.
    intros H1 H4 D12 D13 D14 D42 D43 HA HB. cbn [cvc_ft cvc_apply]. gf.
    unfold dih_fact1, dih_cross1, dih_fact4, dih_cross4, dih_f1, dih_f3.
    set (r12 := dih_r12 Rops cell mass pos g1 g2) in *. set (r23 := dih_r12 Rops cell mass pos g2 g3) in *.
    set (r34 := dih_r12 Rops cell mass pos g3 g4) in *.
    assert (HA' : 0 < vnorm2 Rops (vcross Rops r23 r12)) by (rewrite vcross_anti, vnorm2_vneg; exact HA).
    rs. rewrite (dih_factor r12 r23) by exact HA'. rewrite (dih_factor r34 r23) by exact HB.
    rewrite (vcross_anti r23 r12).
    pose proof (lagrange r12 r23) as HL. pose proof (vnorm2_nonneg r12). pose proof (vnorm2_nonneg r23) as H23.
    assert (Hq : 0 < vnorm2 Rops r23) by nra. pose proof (vnorm_pos r23 Hq) as Hnq.
    set (A := vcross Rops r12 r23) in *. set (B := vcross Rops r23 r34) in *. set (nq := vnorm Rops r23) in *.
    clearbody A B nq. clear HL. unfold deg. rs.
    unfold v0 in *. vd. vu. field. pose proof PI_neq0. repeat split; lra.
  Qed.
  Lemma inv_dihedral_onesite g1 g2 g3 g4 fc :
    gok mass g1 -> disj g1 g2 -> disj g1 g3 -> disj g1 g4 ->
    0 < vnorm2 Rops (vcross Rops (dih_r12 Rops cell mass pos g1 g2) (dih_r12 Rops cell mass pos g2 g3)) ->
    ft (CDihedral g1 g2 g3 g4 true) (app (CDihedral g1 g2 g3 g4 true) fc) = fc.
  Proof.
    intros H1 D12 D13 D14 HA. cbn [cvc_ft cvc_apply]. gf.
    unfold dih_fact1, dih_cross1, dih_f1.
    set (r12 := dih_r12 Rops cell mass pos g1 g2) in *. set (r23 := dih_r12 Rops cell mass pos g2 g3) in *.
    assert (HA' : 0 < vnorm2 Rops (vcross Rops r23 r12)) by (rewrite vcross_anti, vnorm2_vneg; exact HA).
    rs. rewrite (dih_factor r12 r23) by exact HA'.
    rewrite (vcross_anti r23 r12).
    pose proof (lagrange r12 r23) as HL. pose proof (vnorm2_nonneg r12). pose proof (vnorm2_nonneg r23) as H23.
    assert (Hq : 0 < vnorm2 Rops r23) by nra. pose proof (vnorm_pos r23 Hq) as Hnq.
    set (A := vcross Rops r12 r23) in *. set (nq := vnorm Rops r23) in *.
    clearbody A nq. clear HL. unfold deg. rs.
    unfold v0 in *. vd. vu. field. pose proof PI_neq0. repeat split; lra.
  Qed.

  (* ---- atom-wise components ---- *)
  Lemma ofnat_pos n : (0 < n)%nat -> 0 < ofnat Rops n.
  Proof. intros H. unfold ofnat; rs. apply IZR_lt. lia. Qed.
  Lemma frame_pos_length ids c : length (frame_pos Rops pos ids c) = length ids.
  Proof. unfold frame_pos. destruct c; rewrite map_length; reflexivity. Qed.
  Lemma vsub_list_length (l r : list RV) : length r = length l -> length (vsub_list Rops l r) = length l.
  Proof.
    revert r; induction l as [|a l IH]; intros [|b r] H; cbn [length vsub_list] in *; try discriminate; try reflexivity.
    rewrite IH by lia. reflexivity.
  Qed.
  Lemma dot_fit_none (l g : list RV) n : dot_list Rops l (fit_grads Rops n None g) = 0.
  Proof. unfold fit_grads. change (vzero Rops) with v0. apply dot_list_zeros. Qed.
  Lemma dot_fit_some (l g : list RV) n rc : length g = length l ->
    dot_list Rops l (fit_grads Rops n (Some rc) g) = vdot Rops (vsum Rops l) (vscale Rops (-(1) / ofnat Rops n) (vsum Rops g)).
  Proof. intros H. unfold fit_grads. rs. apply dot_list_const. exact H. Qed.
  Lemma fit_grads_length n c (g : list RV) : length (fit_grads Rops n c g) = length g.
  Proof. unfold fit_grads. destruct c; rewrite map_length; reflexivity. Qed.
  Lemma vsum_map_vscale s (l : list RV) : vsum Rops (map (vscale Rops s) l) = vscale Rops s (vsum Rops l).
  Proof.
    induction l as [|a l IH]; cbn [map]; [unfold vsum; cbn [fold_right]; symmetry; apply vscale_0|].
    rewrite !vsum_cons, IH, vscale_vadd. reflexivity.
  Qed.
  Lemma vsum_vsub_list (l r : list RV) : length r = length l ->
    vsum Rops (vsub_list Rops l r) = vsub Rops (vsum Rops l) (vsum Rops r).
  Proof.
    revert r; induction l as [|a l IH]; intros [|b r] H; cbn [length vsub_list] in *; try discriminate.
    - unfold vsum; cbn [fold_right]. unfold vzero; vu. f_equal; [f_equal|]; ring.
    - rewrite !vsum_cons, IH by lia. set (x := vsum Rops l); set (y := vsum Rops r). vd; vu. f_equal; [f_equal|]; ring.
  Qed.
  Lemma vsum_shift (c : RV) (F : RF) l :
    vsum Rops (map (fun a => vadd Rops (F a) c) l) = vadd Rops (vsum Rops (map F l)) (vscale Rops (ofnat Rops (length l)) c).
  Proof.
    induction l as [|a l IH]; cbn [map length].
    - unfold vsum, ofnat; cbn [fold_right]; rs. change (IZR (Z.of_nat 0)) with 0. unfold vzero. vd; vu. f_equal; [f_equal|]; ring.
    - rewrite !vsum_cons, IH. unfold ofnat; rs. rewrite Nat2Z.inj_succ, succ_IZR.
      set (x := vsum Rops (map F l)). set (y := F a). vd; vu. f_equal; [f_equal|]; ring.
  Qed.
  (* the centred frame has the centre of geometry rc: sum of the positions = N rc *)
  Lemma vsum_frame_center ids rc : ids <> [] ->
    vsum Rops (frame_pos Rops pos ids (Some rc)) = vscale Rops (ofnat Rops (length ids)) rc.
  Proof.
    intros Hne. unfold frame_pos, cog.
    assert (HN : 0 < ofnat Rops (length ids)) by (apply ofnat_pos; destruct ids; [contradiction|cbn; lia]).
    set (N := ofnat Rops (length ids)) in *. set (S := vsum Rops (map pos ids)).
    pose proof (vsum_shift (vsub Rops rc (vscale Rops (1 / N) S)) pos ids) as E. fold N S in E.
    rewrite <- (vsum_map_ext (fun a => vadd Rops (pos a) (vsub Rops rc (vscale Rops (1 / N) S)))).
    - rewrite E. vd; vu. f_equal; [f_equal|]; field; lra.
    - intros a _. rs. set (y := pos a). vd; vu. f_equal; [f_equal|]; ring.
  Qed.

  Lemma inv_gyration ids fc : NoDup ids -> gyr_value Rops pos ids <> 0 ->
    ft (CGyration ids) (app (CGyration ids) fc) = fc.
  Proof.
    intros Hn Hx. cbn [cvc_ft cvc_apply].
    assert (Hne : ids <> []).
    { intros ->. apply Hx. unfold gyr_value, norm2_sum, gyr_pos, frame_pos, tsum. cbn [map fold_right length]. rs.
      unfold Rdiv. rewrite Rmult_0_l. apply sqrt_0. }
    assert (HN : 0 < ofnat Rops (length ids)) by (apply ofnat_pos; destruct ids; [contradiction|cbn; lia]).
    set (P := gyr_pos Rops pos ids). set (x := gyr_value Rops pos ids) in *.
    assert (HP : length P = length ids) by (apply frame_pos_length).
    rewrite adot_aapply by (try exact Hn; rewrite map_length; exact HP).
    rewrite dot_list_scale, dot_list_self.
    assert (Hsq : x * x = norm2_sum Rops P / ofnat Rops (length ids)).
    { unfold x, gyr_value; rs. fold P. apply sqrt_sqrt. apply Rmult_le_pos; [apply norm2_sum_nonneg|].
      apply Rlt_le, Rinv_0_lt_compat, HN. }
    set (N := ofnat Rops (length ids)) in *. set (S := norm2_sum Rops P) in *. rs.
    assert (HS : S = N * (x * x)) by (rewrite Hsq; field; lra).
    rewrite HS. field. split; [exact Hx | lra].
  Qed.

  Lemma rmsd_sq ids refs c : ids <> [] ->
    let x := rmsd_value Rops pos ids refs c in
    x * x = norm2_sum Rops (rmsd_diff Rops pos ids refs c) / ofnat Rops (length ids).
  Proof.
    intros Hne x. unfold x, rmsd_value; rs. apply sqrt_sqrt. apply Rmult_le_pos; [apply norm2_sum_nonneg|].
    apply Rlt_le, Rinv_0_lt_compat, ofnat_pos. destruct ids; [contradiction|cbn; lia].
  Qed.

  Lemma inv_rmsd_expr ids refs c fc : NoDup ids -> length refs = length ids -> rmsd_value Rops pos ids refs c <> 0 ->
    (forall rc, c = Some rc -> vsum Rops refs = vscale Rops (ofnat Rops (length ids)) rc) ->
    adot Rops ids (rmsd_grads Rops pos ids refs c)
      (fadd Rops (aapply Rops ids (rmsd_grads Rops pos ids refs c) fc)
                 (aapply Rops ids (fit_grads Rops (length ids) c (rmsd_grads Rops pos ids refs c)) fc))
    * ofnat Rops (length ids) = fc.
  Proof.
    intros Hn Hl Hx Hc.
    assert (Hne : ids <> []).
    { intros ->. apply Hx. unfold rmsd_value, norm2_sum, rmsd_diff, frame_pos, tsum. destruct c; cbn [map fold_right length vsub_list]; rs;
        unfold Rdiv; rewrite Rmult_0_l; apply sqrt_0. }
    pose proof (rmsd_sq ids refs c Hne) as Hsq. cbv zeta in Hsq.
    assert (HN : 0 < ofnat Rops (length ids)) by (apply ofnat_pos; destruct ids; [contradiction|cbn; lia]).
    set (D := rmsd_diff Rops pos ids refs c) in *.
    assert (HD : length D = length ids).
    { unfold D, rmsd_diff. rewrite vsub_list_length; rewrite frame_pos_length; [reflexivity|exact Hl]. }
    unfold rmsd_grads. fold D. set (x := rmsd_value Rops pos ids refs c) in *.
    assert (Hxp : 0 < x).
    { assert (0 <= x) by (unfold x, rmsd_value; rs; apply sqrt_pos). lra. }
    rs. assert (Rltb 0 x = true) as -> by (apply Rltb_true; exact Hxp).
    set (N := ofnat Rops (length ids)) in *. set (k := 1 / 2 / (x * N) * 2).
    set (g := map (vscale Rops k) D).
    assert (Hg : length g = length ids) by (unfold g; rewrite map_length; exact HD).
    rewrite adot_fadd, !adot_aapply by (try exact Hn; try exact Hg; rewrite fit_grads_length; exact Hg).
    assert (Hgg : dot_list Rops g g = k * k * norm2_sum Rops D) by (unfold g; rewrite dot_list_scale, dot_list_self; reflexivity).
    assert (Hfit : dot_list Rops g (fit_grads Rops (length ids) c g) = 0).
    { destruct c as [rc|]; [|apply dot_fit_none].
      rewrite dot_fit_some by reflexivity.
      assert (HS : vsum Rops g = v0).
      { unfold g. rewrite vsum_map_vscale. unfold D, rmsd_diff. rewrite vsum_vsub_list by (rewrite frame_pos_length; exact Hl).
        rewrite vsum_frame_center by exact Hne. rewrite (Hc rc eq_refl). fold N.
        set (y := vscale Rops N rc). unfold v0. vd; vu. f_equal; [f_equal|]; ring. }
      rewrite HS. apply vdot_0_l. }
    rewrite Hgg, Hfit.
    assert (HS : norm2_sum Rops D = N * (x * x)) by (rewrite Hsq; field; lra).
    rewrite HS. unfold k. field. split; lra.
  Qed.

  Lemma best_copy_In (fp cur : list RV) extra : In (best_copy Rops fp cur extra) (cur :: extra).
  Proof.
    revert cur; induction extra as [|c r IH]; intros cur; cbn [best_copy]; [left; reflexivity|].
    destruct (nltb Rops _ _).
    - right. exact (IH c).
    - destruct (IH cur) as [E|E]; [left; exact E | right; right; exact E].
  Qed.
  (* symmetry-adapted rmsd: whichever copy of the reference is selected, application and measurement use the same one *)
  Lemma rmsd_grads_length ids r c : length r = length ids -> length (rmsd_grads Rops pos ids r c) = length ids.
  Proof.
    intros H. unfold rmsd_grads. rewrite map_length. unfold rmsd_diff. rewrite vsub_list_length; rewrite frame_pos_length; [reflexivity|exact H].
  Qed.
  (* not centred (no fit gradients): N times the gradient *)
  Lemma inv_rmsd ids refs extra fc : NoDup ids ->
    (forall r, In r (refs :: extra) -> length r = length ids) ->
    rmsd_value Rops pos ids (rmsd_best Rops pos ids refs extra None) None <> 0 ->
    ft (CRmsd ids refs extra None) (app (CRmsd ids refs extra None) fc) = fc.
  Proof.
    intros Hn Hl Hx. cbn [cvc_ft cvc_apply]. cbv zeta.
    pose proof (best_copy_In (frame_pos Rops pos ids None) refs extra) as Hin. fold (rmsd_best Rops pos ids refs extra None) in Hin.
    apply inv_rmsd_expr; [exact Hn | exact (Hl _ Hin) | exact Hx | intros rc E; discriminate].
  Qed.
  (* centred (fit gradients on): the complete gradient, whatever the centre of the group's own reference positions *)
  Lemma inv_rmsd_centered ids refs extra rc fc : NoDup ids ->
    (forall r, In r (refs :: extra) -> length r = length ids) ->
    (let g := rmsd_grads Rops pos ids (rmsd_best Rops pos ids refs extra (Some rc)) (Some rc) in
     norm2_sum Rops (vadd_list Rops g (fit_grads Rops (length ids) (Some rc) g)) <> 0) ->
    ft (CRmsd ids refs extra (Some rc)) (app (CRmsd ids refs extra (Some rc)) fc) = fc.
  Proof.
    intros Hn Hl Hx. cbn [cvc_ft cvc_apply]. cbv zeta in *.
    pose proof (best_copy_In (frame_pos Rops pos ids (Some rc)) refs extra) as Hin. fold (rmsd_best Rops pos ids refs extra (Some rc)) in Hin.
    set (g := rmsd_grads Rops pos ids (rmsd_best Rops pos ids refs extra (Some rc)) (Some rc)) in *.
    assert (Hg : length g = length ids) by (apply rmsd_grads_length; exact (Hl _ Hin)).
    apply inv_complete_gradient; [exact Hn | exact Hg | rewrite fit_grads_length; exact Hg | exact Hx].
  Qed.

  Lemma vsum_eig_vec (evec : list RV) : evec <> [] -> vsum Rops (eig_vec Rops evec) = v0.
  Proof.
    intros Hne. unfold eig_vec, vmean.
    assert (HN : 0 < ofnat Rops (length evec)) by (apply ofnat_pos; destruct evec; [contradiction|cbn; lia]).
    set (N := ofnat Rops (length evec)) in *. set (S := vsum Rops evec).
    assert (E : forall l : list RV, vsum Rops (map (fun e => vsub Rops e (vscale Rops (1 / N) S)) l)
                 = vsub Rops (vsum Rops l) (vscale Rops (ofnat Rops (length l)) (vscale Rops (1 / N) S))).
    { induction l as [|a l IH]; cbn [map length].
      - unfold vsum, ofnat; cbn [fold_right]; rs. change (IZR (Z.of_nat 0)) with 0. unfold vzero. vd; vu. f_equal; [f_equal|]; ring.
      - rewrite !vsum_cons, IH. unfold ofnat; rs. rewrite Nat2Z.inj_succ, succ_IZR.
        set (y := vsum Rops l). vd; vu. f_equal; [f_equal|]; ring. }
    rs. rewrite E. fold N S. unfold v0. vd; vu. f_equal; [f_equal|]; field; lra.
  Qed.

  Lemma inv_eigenvector ids refs evec c fc : NoDup ids -> length evec = length ids ->
    norm2_sum Rops (eig_vec Rops evec) <> 0 ->
    ft (CEigenvector ids refs evec c) (app (CEigenvector ids refs evec c) fc) = fc.
  Proof.
    intros Hn Hl Hs. cbn [cvc_ft cvc_apply].
    set (E := eig_vec Rops evec) in *.
    assert (HE : length E = length ids) by (unfold E, eig_vec; rewrite map_length; exact Hl).
    assert (Hne : evec <> []).
    { intros ->. apply Hs. reflexivity. }
    rewrite adot_fadd, !adot_aapply by (try exact Hn; rewrite ?map_length, ?fit_grads_length; exact HE).
    rewrite !dot_list_scale_l.
    assert (Hfit : dot_list Rops E (fit_grads Rops (length ids) c E) = 0).
    { destruct c as [rc|]; [|apply dot_fit_none].
      rewrite dot_fit_some by reflexivity. unfold E at 1. rewrite vsum_eig_vec by exact Hne. apply vdot_0_l. }
    rewrite Hfit, dot_list_self. unfold eig_invnorm2. fold E. rs. field. exact Hs.
  Qed.
End Components.

(* ================================================================== rotated frames (rotation matrix = input, assumed orthogonal) *)
Section Rotated.
  Variable cell : option RV.
  Variable mass : nat -> R.
  Variable pos : RF.
  Local Notation ft := (cvc_ft Rops PI cell mass pos).
  Local Notation app := (cvc_apply Rops PI cell mass pos).

  Lemma frot_aapply (m : RM) ids gs fc b :
    frot Rops m (aapply Rops ids gs fc) b = aapply Rops ids (map (mvmul Rops m) gs) fc b.
  Proof.
    unfold frot. revert gs; induction ids as [|a ids IH]; intros [|g gs]; cbn [aapply map]; try apply mvmul_0.
    rewrite mvmul_vadd, IH. f_equal. destruct (Nat.eqb b a); [apply mvmul_vscale | apply mvmul_0].
  Qed.
  Lemma map_orthogonal (m : RM) (g : list RV) : orthogonal m -> map (mvmul Rops m) (map (mtvmul Rops m) g) = g.
  Proof. intros H. rewrite map_map. rewrite <- (map_id g) at 2. apply map_ext. intros v. apply H. Qed.
  Lemma rot_frame_length ids refs (m : RM) : length (rot_frame Rops pos ids refs m) = length ids.
  Proof. unfold rot_frame. rewrite map_length. reflexivity. Qed.

  Lemma inv_rmsd_rot_expr ids refs (Rm : RM) r fc : NoDup ids -> length r = length ids -> orthogonal Rm ->
    rmsdrot_value Rops pos ids refs Rm r <> 0 ->
    adot Rops ids (rmsdrot_grads Rops pos ids refs Rm r)
      (frot Rops Rm (aapply Rops ids (map (mtvmul Rops Rm) (rmsdrot_grads Rops pos ids refs Rm r)) fc))
    * ofnat Rops (length ids) = fc.
  Proof.
    intros Hn Hl Ho Hx.
    assert (Hne : ids <> []).
    { intros ->. apply Hx. unfold rmsdrot_value, norm2_sum, rmsdrot_diff, rot_frame, tsum. cbn [map fold_right length vsub_list]; rs.
      unfold Rdiv; rewrite Rmult_0_l; apply sqrt_0. }
    assert (HN : 0 < ofnat Rops (length ids)) by (apply ofnat_pos; destruct ids; [contradiction|cbn; lia]).
    set (D := rmsdrot_diff Rops pos ids refs Rm r) in *.
    assert (HD : length D = length ids).
    { unfold D, rmsdrot_diff. rewrite vsub_list_length; rewrite rot_frame_length; [reflexivity|exact Hl]. }
    assert (Hsq : rmsdrot_value Rops pos ids refs Rm r * rmsdrot_value Rops pos ids refs Rm r = norm2_sum Rops D / ofnat Rops (length ids)).
    { unfold rmsdrot_value; rs. fold D. apply sqrt_sqrt. apply Rmult_le_pos; [apply norm2_sum_nonneg|].
      apply Rlt_le, Rinv_0_lt_compat, HN. }
    unfold rmsdrot_grads. fold D. set (x := rmsdrot_value Rops pos ids refs Rm r) in *.
    assert (Hxp : 0 < x).
    { assert (0 <= x) by (unfold x, rmsdrot_value; rs; apply sqrt_pos). lra. }
    rs. assert (Rltb 0 x = true) as -> by (apply Rltb_true; exact Hxp).
    set (N := ofnat Rops (length ids)) in *. set (k := 1 / 2 / (x * N) * 2).
    set (g := map (vscale Rops k) D).
    assert (Hg : length g = length ids) by (unfold g; rewrite map_length; exact HD).
    rewrite (adot_ext ids g _ (aapply Rops ids (map (mvmul Rops Rm) (map (mtvmul Rops Rm) g)) fc))
      by (intros b _; apply frot_aapply).
    rewrite map_orthogonal by exact Ho.
    rewrite adot_aapply by assumption.
    assert (Hgg : dot_list Rops g g = k * k * norm2_sum Rops D) by (unfold g; rewrite dot_list_scale, dot_list_self; reflexivity).
    rewrite Hgg.
    assert (HS : norm2_sum Rops D = N * (x * x)) by (rewrite Hsq; field; lra).
    rewrite HS. unfold k. field. split; lra.
  Qed.
  (* standard rotated rmsd (no atomPermutation): fit gradients disabled *)
  Lemma inv_rmsd_rot ids refs rotf jdf fitf fc : NoDup ids -> length refs = length ids -> qnorm2 Rops (rotf pos) = 1 ->
    rmsdrot_value Rops pos ids refs (rotmat Rops (rotf pos)) refs <> 0 ->
    ft (CRmsdRot ids refs [] rotf jdf fitf) (app (CRmsdRot ids refs [] rotf jdf fitf) fc) = fc.
  Proof.
    intros Hn Hl Hq Hx. cbn [cvc_ft cvc_apply]. cbv zeta. cbn [rmsdrot_best best_copy].
    rewrite (map_ext _ (mtvmul Rops (rotmat Rops (rotf pos))) (rotmat_conj (rotf pos))).
    apply inv_rmsd_rot_expr; [exact Hn | exact Hl | apply rotmat_orthogonal; exact Hq | exact Hx].
  Qed.
  Lemma frot_fadd (m : RM) (A B : RF) b : frot Rops m (fadd Rops A B) b = fadd Rops (frot Rops m A) (frot Rops m B) b.
  Proof. unfold frot, fadd. apply mvmul_vadd. Qed.
  Lemma rmsdrot_grads_length ids refs (m : RM) r : length r = length ids -> length (rmsdrot_grads Rops pos ids refs m r) = length ids.
  Proof.
    intros H. unfold rmsdrot_grads. rewrite map_length. unfold rmsdrot_diff. rewrite vsub_list_length; rewrite rot_frame_length; [reflexivity|exact H].
  Qed.
  (* symmetry-adapted rotated rmsd: the forces contain fc * fit_gradients (derivatives of the optimal rotation, an input):
     the projection on the complete gradient is the inverse for EVERY value of that input *)
  Lemma inv_rmsd_rot_perm ids refs e es rotf jdf fitf fc : NoDup ids ->
    (forall r, In r (refs :: e :: es) -> length r = length ids) -> length (fitf pos) = length ids -> qnorm2 Rops (rotf pos) = 1 ->
    (let R := rotmat Rops (rotf pos) in
     let g := rmsdrot_grads Rops pos ids refs R (rmsdrot_best Rops pos ids refs (e :: es) R) in
     norm2_sum Rops (vadd_list Rops g (map (mvmul Rops R) (fitf pos))) <> 0) ->
    ft (CRmsdRot ids refs (e :: es) rotf jdf fitf) (app (CRmsdRot ids refs (e :: es) rotf jdf fitf) fc) = fc.
  Proof.
    intros Hn Hl Hf Hq Hx. cbn [cvc_ft cvc_apply]. cbv zeta in *. set (Rm := rotmat Rops (rotf pos)) in *.
    assert (Ho : orthogonal Rm) by (apply rotmat_orthogonal; exact Hq).
    pose proof (best_copy_In (rot_frame Rops pos ids refs Rm) refs (e :: es)) as Hin.
    fold (rmsdrot_best Rops pos ids refs (e :: es) Rm) in Hin.
    set (g := rmsdrot_grads Rops pos ids refs Rm (rmsdrot_best Rops pos ids refs (e :: es) Rm)) in *.
    assert (Hg : length g = length ids) by (apply rmsdrot_grads_length; exact (Hl _ Hin)).
    rewrite (map_ext _ (mtvmul Rops Rm) (rotmat_conj (rotf pos))).
    rewrite (adot_ext ids _ _ (fadd Rops (aapply Rops ids g fc) (aapply Rops ids (map (mvmul Rops Rm) (fitf pos)) fc))).
    - apply inv_complete_gradient; [exact Hn | exact Hg | rewrite map_length; exact Hf | exact Hx].
    - intros b _. rewrite frot_fadd. unfold fadd. rewrite !frot_aapply, map_orthogonal by exact Ho. reflexivity.
  Qed.

  Lemma inv_eigenvector_rot ids refs evec rotf jdf fc : NoDup ids -> length evec = length ids -> qnorm2 Rops (rotf pos) = 1 ->
    norm2_sum Rops (eig_vec Rops evec) <> 0 ->
    ft (CEigenvectorRot ids refs evec rotf jdf) (app (CEigenvectorRot ids refs evec rotf jdf) fc) = fc.
  Proof.
    intros Hn Hl Hq Hs. cbn [cvc_ft cvc_apply]. set (Rm := rotmat Rops (rotf pos)) in *.
    assert (Ho : orthogonal Rm) by (apply rotmat_orthogonal; exact Hq).
    rewrite (map_ext _ (mtvmul Rops Rm) (rotmat_conj (rotf pos))).
    set (E := eig_vec Rops evec) in *.
    assert (HE : length E = length ids) by (unfold E, eig_vec; rewrite map_length; exact Hl).
    rewrite (adot_ext ids _ _ (aapply Rops ids (map (mvmul Rops Rm) (map (mtvmul Rops Rm) E)) fc))
      by (intros b _; apply frot_aapply).
    rewrite map_orthogonal by exact Ho.
    rewrite adot_aapply by (try exact Hn; rewrite ?map_length; exact HE).
    rewrite dot_list_scale_l, dot_list_self. unfold eig_invnorm2. fold E. rs. field. exact Hs.
  Qed.
End Rotated.

(* ================================================================== linearity, locality, support: every component *)
Section General.
  Variable cell : option RV.
  Variable mass : nat -> R.
  Variable pos : RF.
  Local Notation ft := (cvc_ft Rops PI cell mass pos).
  Local Notation app := (cvc_apply Rops PI cell mass pos).

  Lemma cvc_ft_linear (c : RC) (F G : RF) a b :
    ft c (fadd Rops (fscale Rops a F) (fscale Rops b G)) = a * ft c F + b * ft c G.
  Proof.
    destruct c as [g1 g2 os|gm gr gr2 axis os|gm gr gr2 axis os|g1 g2 g3 os|g1 g2 g3 g4 os|ids|ids refs extra c|ids refs evec c|ids refs extra rotf jdf fitf|ids refs evec rotf jdf];
      cbn [cvc_ft]; rewrite ?gforce_fadd, ?gforce_fscale, ?adot_fadd, ?adot_fscale.
    - set (u := vunit Rops _). set (x := gforce Rops F g1). set (y := gforce Rops G g1).
      set (x' := gforce Rops F g2). set (y' := gforce Rops G g2). destruct os; vd; vu; unfold Rdiv; ring.
    - set (u := dz_axis Rops cell mass pos gr gr2 axis). set (x := gforce Rops F gm). set (y := gforce Rops G gm).
      set (x' := gforce Rops F gr). set (y' := gforce Rops G gr). destruct gr2, os; vd; vu; unfold Rdiv; ring.
    - set (u := dxy_ortho Rops cell mass pos gm gr gr2 axis). set (xv := dxy_value Rops cell mass pos gm gr gr2 axis).
      set (x := gforce Rops F gm). set (y := gforce Rops G gm).
      set (x' := gforce Rops F gr). set (y' := gforce Rops G gr). destruct gr2, os; vd; vu; unfold Rdiv; ring.
    - set (d1 := ang_dxdr1 Rops PI cell mass pos g1 g2 g3). set (d3 := ang_dxdr3 Rops PI cell mass pos g1 g2 g3).
      set (x := gforce Rops F g1). set (y := gforce Rops G g1).
      set (x' := gforce Rops F g3). set (y' := gforce Rops G g3). destruct os; vd; vu; unfold Rdiv; ring.
    - set (c1 := dih_cross1 Rops cell mass pos g1 g2 g3). set (c4 := dih_cross4 Rops cell mass pos g2 g3 g4).
      set (f1 := dih_fact1 Rops cell mass pos g1 g2 g3). set (f4 := dih_fact4 Rops cell mass pos g2 g3 g4).
      set (x := gforce Rops F g1). set (y := gforce Rops G g1).
      set (x' := gforce Rops F g4). set (y' := gforce Rops G g4). destruct os; vd; vu; unfold Rdiv; ring.
    - ring.
    - cbv zeta. destruct c; rs; unfold Rdiv; ring.
    - ring.
    - cbv zeta. destruct extra.
      + rewrite (adot_ext _ _ (frot Rops (rotmat Rops (rotf pos)) (fadd Rops (fscale Rops a F) (fscale Rops b G)))
                 (fadd Rops (fscale Rops a (frot Rops (rotmat Rops (rotf pos)) F)) (fscale Rops b (frot Rops (rotmat Rops (rotf pos)) G))))
          by (intros x _; unfold frot, fadd, fscale; rewrite mvmul_vadd, !mvmul_vscale; reflexivity).
        rewrite adot_fadd, !adot_fscale. rs. ring.
      + rewrite (adot_ext _ _ (frot Rops (rotmat Rops (rotf pos)) (fadd Rops (fscale Rops a F) (fscale Rops b G)))
                 (fadd Rops (fscale Rops a (frot Rops (rotmat Rops (rotf pos)) F)) (fscale Rops b (frot Rops (rotmat Rops (rotf pos)) G))))
          by (intros x _; unfold frot, fadd, fscale; rewrite mvmul_vadd, !mvmul_vscale; reflexivity).
        rewrite adot_fadd, !adot_fscale. rs. unfold Rdiv. ring.
    - cbv zeta. rewrite (adot_ext _ _ (frot Rops (rotmat Rops (rotf pos)) (fadd Rops (fscale Rops a F) (fscale Rops b G)))
                 (fadd Rops (fscale Rops a (frot Rops (rotmat Rops (rotf pos)) F)) (fscale Rops b (frot Rops (rotmat Rops (rotf pos)) G))))
        by (intros x _; unfold frot, fadd, fscale; rewrite mvmul_vadd, !mvmul_vscale; reflexivity).
      rewrite adot_fadd, !adot_fscale. ring.
  Qed.

  Lemma cvc_ft_local (c : RC) (F G : RF) : (forall a, In a (cvc_atoms c) -> F a = G a) -> ft c F = ft c G.
  Proof.
    intros H.
    assert (E : forall g, (forall a, In a (gids g) -> In a (cvc_atoms c)) -> gforce Rops F g = gforce Rops G g).
    { intros g Hg. apply gforce_ext. intros a Ha. apply H, Hg, Ha. }
    destruct c as [g1 g2 os|gm gr gr2 axis os|gm gr gr2 axis os|g1 g2 g3 os|g1 g2 g3 g4 os|ids|ids refs extra c|ids refs evec c|ids refs extra rotf jdf fitf|ids refs evec rotf jdf];
      cbn [cvc_ft cvc_atoms] in *.
    - rewrite (E g1), (E g2) by (intros a Ha; rewrite ?in_app_iff; tauto). reflexivity.
    - rewrite (E gm), (E gr) by (intros a Ha; rewrite ?in_app_iff; tauto). reflexivity.
    - rewrite (E gm), (E gr) by (intros a Ha; rewrite ?in_app_iff; tauto). reflexivity.
    - rewrite (E g1), (E g3) by (intros a Ha; rewrite ?in_app_iff; tauto). reflexivity.
    - rewrite (E g1), (E g4) by (intros a Ha; rewrite ?in_app_iff; tauto). reflexivity.
    - apply adot_ext. exact H.
    - cbv zeta. destruct c; f_equal; apply adot_ext; exact H.
    - apply adot_ext. exact H.
    - cbv zeta. destruct extra; f_equal; apply adot_ext; intros x Hx; unfold frot; rewrite (H x Hx); reflexivity.
    - apply adot_ext. intros x Hx. unfold frot. rewrite (H x Hx). reflexivity.
  Qed.

  (* sharper: only the atoms whose forces are read matter (oneSiteTotalForce: the first group only) *)
  Lemma cvc_ft_local_measured (c : RC) (F G : RF) : (forall a, In a (cvc_measured c) -> F a = G a) -> ft c F = ft c G.
  Proof.
    intros H.
    assert (E : forall g, (forall a, In a (gids g) -> In a (cvc_measured c)) -> gforce Rops F g = gforce Rops G g).
    { intros g Hg. apply gforce_ext. intros a Ha. apply H, Hg, Ha. }
    destruct c as [g1 g2 os|gm gr gr2 axis os|gm gr gr2 axis os|g1 g2 g3 os|g1 g2 g3 g4 os|ids|ids refs extra c|ids refs evec c|ids refs extra rotf jdf fitf|ids refs evec rotf jdf];
      cbn [cvc_ft cvc_measured] in *.
    - destruct os; [rewrite (E g1) by (intros a Ha; exact Ha); reflexivity|].
      rewrite (E g1), (E g2) by (intros a Ha; rewrite ?in_app_iff; tauto). reflexivity.
    - destruct gr2 as [g2|]; [rewrite (E gm) by (intros a Ha; exact Ha); reflexivity|].
      destruct os; [rewrite (E gm) by (intros a Ha; exact Ha); reflexivity|].
      rewrite (E gm), (E gr) by (intros a Ha; rewrite ?in_app_iff; tauto). reflexivity.
    - destruct gr2 as [g2|]; [rewrite (E gm) by (intros a Ha; exact Ha); reflexivity|].
      destruct os; [rewrite (E gm) by (intros a Ha; exact Ha); reflexivity|].
      rewrite (E gm), (E gr) by (intros a Ha; rewrite ?in_app_iff; tauto). reflexivity.
    - destruct os; [rewrite (E g1) by (intros a Ha; exact Ha); reflexivity|].
      rewrite (E g1), (E g3) by (intros a Ha; rewrite ?in_app_iff; tauto). reflexivity.
    - destruct os; [rewrite (E g1) by (intros a Ha; exact Ha); reflexivity|].
      rewrite (E g1), (E g4) by (intros a Ha; rewrite ?in_app_iff; tauto). reflexivity.
    - apply adot_ext. exact H.
    - cbv zeta. destruct c; f_equal; apply adot_ext; exact H.
    - apply adot_ext. exact H.
    - cbv zeta. destruct extra; f_equal; apply adot_ext; intros x Hx; unfold frot; rewrite (H x Hx); reflexivity.
    - apply adot_ext. intros x Hx. unfold frot. rewrite (H x Hx). reflexivity.
  Qed.

  Lemma cvc_apply_support (c : RC) fc a : ~ In a (cvc_atoms c) -> app c fc a = v0.
  Proof.
    intros H.
    assert (E : forall g v, (forall b, In b (gids g) -> In b (cvc_atoms c)) -> gapply Rops mass g v fc a = v0).
    { intros g v Hg. apply gapply_support. intros Ha. apply H, Hg, Ha. }
    destruct c as [g1 g2 os|gm gr gr2 axis os|gm gr gr2 axis os|g1 g2 g3 os|g1 g2 g3 g4 os|ids|ids refs extra c|ids refs evec c|ids refs extra rotf jdf fitf|ids refs evec rotf jdf];
      cbn [cvc_apply cvc_atoms] in *.
    - unfold fadd. rewrite !E by (intros b Hb; rewrite ?in_app_iff; tauto). apply vadd_0_l.
    - destruct gr2 as [g2|]; unfold fadd; rewrite !E by (intros b Hb; rewrite ?in_app_iff; tauto); rewrite ?vadd_0_l; reflexivity.
    - destruct gr2 as [g2|]; destruct (neqb Rops _ _); try reflexivity;
        unfold fadd; rewrite !E by (intros b Hb; rewrite ?in_app_iff; tauto); rewrite ?vadd_0_l; reflexivity.
    - unfold fadd. rewrite !E by (intros b Hb; rewrite ?in_app_iff; tauto). rewrite ?vadd_0_l; reflexivity.
    - unfold fadd. rewrite !E by (intros b Hb; rewrite ?in_app_iff; tauto). rewrite ?vadd_0_l; reflexivity.
    - apply aapply_support. exact H.
    - unfold fadd. rewrite !aapply_support by exact H. apply vadd_0_l.
    - unfold fadd. rewrite !aapply_support by exact H. apply vadd_0_l.
    - cbv zeta. destruct extra; [apply aapply_support; exact H|].
      unfold fadd. rewrite !aapply_support by exact H. apply vadd_0_l.
    - apply aapply_support. exact H.
  Qed.

  Lemma cvc_ft_ext (c : RC) (F G : RF) : (forall a, F a = G a) -> ft c F = ft c G.
  Proof. intros H. apply cvc_ft_local. intros a _. apply H. Qed.
  Lemma cvc_ft_fzero (c : RC) : ft c (fzero Rops) = 0.
  Proof.
    rewrite (cvc_ft_ext c (fzero Rops) (fadd Rops (fscale Rops 0 (fzero Rops)) (fscale Rops 0 (fzero Rops)))).
    - rewrite cvc_ft_linear. ring.
    - intros a. unfold fadd, fscale, fzero. fold v0. rewrite vscale_0, vadd_0_l. reflexivity.
  Qed.
  Lemma cvc_ft_fadd (c : RC) (F G : RF) : ft c (fadd Rops F G) = ft c F + ft c G.
  Proof.
    rewrite (cvc_ft_ext c (fadd Rops F G) (fadd Rops (fscale Rops 1 F) (fscale Rops 1 G))).
    - rewrite cvc_ft_linear. ring.
    - intros a. unfold fadd, fscale. rewrite !vscale_1. reflexivity.
  Qed.
  Lemma cvc_ft_vanish (c : RC) (X : RF) : (forall a, In a (cvc_atoms c) -> X a = v0) -> ft c X = 0.
  Proof. intros H. rewrite <- (cvc_ft_fzero c). apply cvc_ft_local. intros a Ha. rewrite H by exact Ha. reflexivity. Qed.

  (* ------------------------------------------------------------------ the variable *)
  Definition proj_list (l : list (RC * R)) (s : R) (F : RF) : R :=
    tsum Rops (map (fun p => ft (fst p) F * snd p / s) l).
  Lemma cv_proj_eq cv F : cv_proj Rops PI cell mass pos cv F = proj_list (cv_comps cv) (cv_sqnorm Rops cv) F.
  Proof. reflexivity. Qed.

  Lemma proj_list_linear l s (F G : RF) a b :
    proj_list l s (fadd Rops (fscale Rops a F) (fscale Rops b G)) = a * proj_list l s F + b * proj_list l s G.
  Proof.
    unfold proj_list. induction l as [|p l IH]; cbn [map]; [unfold tsum; cbn [fold_right]; rs; ring|].
    rewrite !tsum_cons, IH, cvc_ft_linear. rs. unfold Rdiv. ring.
  Qed.
  Lemma proj_list_local l s (F G : RF) :
    (forall a, In a (flat_map (fun p => cvc_atoms (fst p)) l) -> F a = G a) -> proj_list l s F = proj_list l s G.
  Proof.
    unfold proj_list. induction l as [|p l IH]; intros H; cbn [map flat_map] in *; [reflexivity|].
    rewrite !tsum_cons, IH by (intros a Ha; apply H; rewrite in_app_iff; tauto).
    rewrite (cvc_ft_local (fst p) F G) by (intros a Ha; apply H; rewrite in_app_iff; tauto). reflexivity.
  Qed.

  Definition inv_ok (c : RC) : Prop := forall fc, ft c (app c fc) = fc.
  Definition atoms_disj (c c' : RC) : Prop := forall a, In a (cvc_atoms c) -> ~ In a (cvc_atoms c').
  Definition appf (f : R) (p : RC * R) : RF := app (fst p) (f * snd p).

  Lemma fsum_cons (X : RF) l : fsum Rops (X :: l) = fadd Rops X (fsum Rops l).
  Proof. reflexivity. Qed.
  Lemma fsum_support f (l : list (RC * R)) a :
    (forall q, In q l -> ~ In a (cvc_atoms (fst q))) -> fsum Rops (map (appf f) l) a = v0.
  Proof.
    induction l as [|q l IH]; intros H; cbn [map]; [reflexivity|].
    rewrite fsum_cons. unfold fadd. unfold appf at 1. rewrite cvc_apply_support by (apply H; left; reflexivity).
    rewrite IH by (intros q' Hq'; apply H; right; exact Hq'). apply vadd_0_l.
  Qed.

  Lemma proj_combination f s : forall (l : list (RC * R)) (X : RF),
    Forall (fun p => inv_ok (fst p)) l ->
    ForallOrdPairs (fun p q => atoms_disj (fst p) (fst q)) l ->
    (forall p, In p l -> forall a, In a (cvc_atoms (fst p)) -> X a = v0) ->
    proj_list l s (fadd Rops X (fsum Rops (map (appf f) l))) = tsum Rops (map (fun p => f * snd p * snd p / s) l).
  Proof.
    induction l as [|p l IH]; intros X Hinv Hd HX; [reflexivity|].
    inversion Hinv as [|? ? Hp Hinv']; subst. inversion Hd as [|? ? Hpl Hd']; subst.
    cbn [map]. unfold proj_list in *. cbn [map]. rewrite !tsum_cons, fsum_cons.
    f_equal.
    - rewrite !cvc_ft_fadd.
      rewrite (cvc_ft_vanish (fst p) X) by (intros a Ha; apply (HX p); [left; reflexivity|exact Ha]).
      unfold appf at 1. rewrite Hp.
      rewrite (cvc_ft_vanish (fst p) (fsum Rops (map (appf f) l))).
      + rs. unfold Rdiv. ring.
      + intros a Ha. apply fsum_support. intros q Hq. rewrite Forall_forall in Hpl. exact (Hpl q Hq a Ha).
    - rewrite <- (IH (fadd Rops X (appf f p)) Hinv' Hd').
      + f_equal. apply map_ext_in. intros q Hq.
        rewrite (cvc_ft_ext (fst q) _ (fadd Rops (fadd Rops X (appf f p)) (fsum Rops (map (appf f) l)))); [reflexivity|].
        intros a. unfold fadd. apply vadd_assoc.
      + intros q Hq a Ha. unfold fadd. rewrite (HX q) by (try (right; exact Hq); exact Ha).
        unfold appf. rewrite cvc_apply_support; [apply vadd_0_l|].
        intros Hc. rewrite Forall_forall in Hpl. exact (Hpl q Hq a Hc Ha).
  Qed.

  Lemma tsum_scale (l : list (RC * R)) f s :
    tsum Rops (map (fun p => f * snd p * snd p / s) l) = f * tsum Rops (map (fun p => snd p * snd p) l) / s.
  Proof.
    induction l as [|p l IH]; cbn [map]; [unfold tsum; cbn [fold_right]; rs; unfold Rdiv; ring|].
    rewrite !tsum_cons, IH. rs. unfold Rdiv. ring.
  Qed.

  (* a linear combination of inverse-correct components on disjoint atoms is inverse-correct *)
  Lemma cv_inverse cv f :
    Forall (fun p => inv_ok (fst p)) (cv_comps cv) ->
    ForallOrdPairs (fun p q => atoms_disj (fst p) (fst q)) (cv_comps cv) ->
    cv_sqnorm Rops cv <> 0 ->
    cv_proj Rops PI cell mass pos cv (cv_apply Rops PI cell mass pos cv f) = f.
  Proof.
    intros Hinv Hd Hs. rewrite cv_proj_eq. unfold cv_apply.
    rewrite (proj_list_local _ _ _ (fadd Rops (fzero Rops) (fsum Rops (map (appf f) (cv_comps cv))))).
    - rewrite proj_combination; try assumption; [|reflexivity].
      rewrite tsum_scale. unfold cv_sqnorm in *. rs. field. exact Hs.
    - intros a _. unfold fadd, fzero. fold v0. rewrite vadd_0_l. reflexivity.
  Qed.

  Lemma cv_proj_linear cv (F G : RF) a b :
    cv_proj Rops PI cell mass pos cv (fadd Rops (fscale Rops a F) (fscale Rops b G))
    = a * cv_proj Rops PI cell mass pos cv F + b * cv_proj Rops PI cell mass pos cv G.
  Proof. rewrite !cv_proj_eq. apply proj_list_linear. Qed.
  Lemma cv_proj_local cv (F G : RF) : (forall a, In a (cv_atoms cv) -> F a = G a) ->
    cv_proj Rops PI cell mass pos cv F = cv_proj Rops PI cell mass pos cv G.
  Proof. rewrite !cv_proj_eq. apply proj_list_local. Qed.
  Lemma cv_proj_fadd cv (F G : RF) :
    cv_proj Rops PI cell mass pos cv (fadd Rops F G) = cv_proj Rops PI cell mass pos cv F + cv_proj Rops PI cell mass pos cv G.
  Proof.
    rewrite (cv_proj_local cv (fadd Rops F G) (fadd Rops (fscale Rops 1 F) (fscale Rops 1 G))).
    - rewrite cv_proj_linear. ring.
    - intros a _. unfold fadd, fscale. rewrite !vscale_1. reflexivity.
  Qed.
End General.

(* ================================================================== one step, the engine, histories *)
Section Steps.
  Variable cell : option RV.
  Variable mass : nat -> R.
  Local Notation proj := (cv_proj Rops PI cell mass).
  Local Notation fjf := (cv_fj Rops PI cell mass).
  Local Notation capply := (cv_apply Rops PI cell mass).
  Local Notation step := (cv_step Rops PI cell mass).
  Local Notation estep := (eng_step Rops PI cell mass).
  Local Notation erun := (eng_run Rops PI cell mass).

  Lemma step_same cv s pos F fb ap : cv_samestep cv = true ->
    o_ft (snd (step cv s pos F fb ap)) = proj pos cv F + (if cv_hide cv then 0 else fjf pos cv).
  Proof.
    intros H. unfold cv_step, adds_fj. rewrite H. cbn [snd o_ft andb orb negb].
    destruct (cv_hide cv), (cv_subtract cv); cbn [andb orb negb]; rs; reflexivity.
  Qed.
  Lemma step_lag cv s pos F fb ap : cv_samestep cv = false -> (0 < st_rel s)%nat ->
    o_ft (snd (step cv s pos F fb ap)) =
      proj (st_prev_pos s) (st_prev_cv s) F + (if adds_fj cv (st_comp s) then st_fj s else 0) - (if cv_subtract cv then st_fold s else 0).
  Proof.
    intros H Hr. unfold cv_step. rewrite H. apply Nat.ltb_lt in Hr. rewrite Hr. cbn [snd o_ft andb orb negb].
    destruct (cv_subtract cv); cbn [andb orb negb]; rs; ring.
  Qed.
  Lemma step_first_lag cv s pos F fb ap : cv_samestep cv = false -> st_rel s = 0%nat ->
    o_ft (snd (step cv s pos F fb ap)) = st_ft s.
  Proof.
    intros H Hr. unfold cv_step. rewrite H, Hr. cbn [snd o_ft andb orb negb Nat.ltb Nat.leb].
    destruct (cv_subtract cv); reflexivity.
  Qed.
  Lemma step_state cv s pos F fb ap :
    let r := step cv s pos F fb ap in
    let f := applied_force Rops cv ap fb (fjf pos cv) in
    st_prev_pos (fst r) = pos /\ st_fj (fst r) = fjf pos cv /\ st_rel (fst r) = S (st_rel s) /\
    st_fold (fst r) = f /\
    o_f (snd r) = f /\ o_forces (snd r) = (if ap then capply pos cv f else fzero Rops) /\
    st_comp (fst r) = (cv_hide cv && ap)%bool /\ st_prev_cv (fst r) = cv.
  Proof. unfold cv_step. cbn [fst snd st_prev_pos st_fj st_rel st_fold o_f o_forces st_comp st_prev_cv]. repeat split; reflexivity. Qed.

  Lemma estep_eq cv inc s i :
    estep cv inc s i =
      (let r := step cv (es_cv s) (e_pos i) (if cv_samestep cv then e_force i else es_prev_total s) (e_fb i) (e_apply i) in
       (mkEstate (fst r) (if inc then fadd Rops (e_force i) (o_forces (snd r)) else e_force i), snd r)).
  Proof. unfold eng_step. destruct (cv_step _ _ _ _ _ _ _ _ _) as [cs out]. reflexivity. Qed.

  (* what the engine delivers in the lagged convention for the step of input i *)
  Definition own_force (cv : colvar) (i : einput) : R := applied_force Rops cv (e_apply i) (e_fb i) (fjf (e_pos i) cv).
  Definition exerted (cv : colvar) (inc : bool) (i : einput) : RF :=
    if inc then fadd Rops (e_force i) (if e_apply i then capply (e_pos i) cv (own_force cv i) else fzero Rops) else e_force i.
  Definition lag_report (cv : colvar) (inc : bool) (i : einput) : R :=
    proj (e_pos i) cv (exerted cv inc i) + (if adds_fj cv (cv_hide cv && e_apply i) then fjf (e_pos i) cv else 0)
    - (if cv_subtract cv then own_force cv i else 0).
  Definition same_report (cv : colvar) (i : einput) : R :=
    proj (e_pos i) cv (e_force i) + (if cv_hide cv then 0 else fjf (e_pos i) cv).

  (* two consecutive steps whose configuration may differ (parameters changed by script or by the engine between the steps:
     temperature, subtractAppliedForce, hideJacobian, component flags / coefficients): cv1 at step t-1, cv2 at step t *)
  Lemma two_steps_lag_gen cv1 cv2 inc s0 i1 i2 : cv_samestep cv2 = false ->
    o_ft (snd (estep cv2 inc (fst (estep cv1 inc s0 i1)) i2)) =
      proj (e_pos i1) cv1 (exerted cv1 inc i1)
      + (if adds_fj cv2 (cv_hide cv1 && e_apply i1) then fjf (e_pos i1) cv1 else 0)
      - (if cv_subtract cv2 then own_force cv1 i1 else 0).
  Proof.
    intros H. rewrite (estep_eq cv2 inc _ i2). cbv zeta. cbn [snd]. rewrite H.
    rewrite (estep_eq cv1 inc s0 i1). cbv zeta. cbn [fst es_cv es_prev_total].
    set (F1 := if cv_samestep cv1 then e_force i1 else es_prev_total s0).
    set (r1 := step cv1 (es_cv s0) (e_pos i1) F1 (e_fb i1) (e_apply i1)).
    pose proof (step_state cv1 (es_cv s0) (e_pos i1) F1 (e_fb i1) (e_apply i1)) as St. cbv zeta in St. fold r1 in St.
    destruct St as (Sp & Sj & Sr & Sf & So & Sc & Sm & Sv).
    rewrite step_lag by (try exact H; rewrite Sr; lia).
    rewrite Sp, Sj, Sf, Sc, Sm, Sv. unfold exerted, own_force.
    destruct inc; reflexivity.
  Qed.
  Lemma two_steps_lag cv inc s0 i1 i2 : cv_samestep cv = false ->
    o_ft (snd (estep cv inc (fst (estep cv inc s0 i1)) i2)) = lag_report cv inc i1.
  Proof. intros H. rewrite two_steps_lag_gen by exact H. reflexivity. Qed.
  Lemma one_step_same cv inc s i : cv_samestep cv = true -> o_ft (snd (estep cv inc s i)) = same_report cv i.
  Proof. intros H. rewrite estep_eq. cbv zeta. cbn [snd]. rewrite H. apply step_same. exact H. Qed.

  (* the last report of a history *)
  Definition last_ft (l : list cvout) : R := last (map (@o_ft R) l) 0.
  Lemma erun_cons cv inc s i l :
    erun cv inc s (i :: l) = (fst (erun cv inc (fst (estep cv inc s i)) l), snd (estep cv inc s i) :: snd (erun cv inc (fst (estep cv inc s i)) l)).
  Proof. cbn [eng_run]. destruct (eng_step _ _ _ _ _ _ _) as [s1 o]. destruct (eng_run _ _ _ _ _ _ _) as [s2 os]. reflexivity. Qed.
  Lemma erun_nil cv inc s : erun cv inc s [] = (s, []).
  Proof. reflexivity. Qed.

  Lemma history_lag cv inc i1 i2 : cv_samestep cv = false ->
    forall pre s, last_ft (snd (erun cv inc s (pre ++ [i1; i2]))) = lag_report cv inc i1.
  Proof.
    intros H. induction pre as [|i pre IH]; intros s.
    - cbn [app]. rewrite !erun_cons, erun_nil. cbn [snd fst]. unfold last_ft. cbn [map last].
      apply two_steps_lag. exact H.
    - cbn [app]. rewrite erun_cons. cbn [snd]. unfold last_ft in *. cbn [map].
      specialize (IH (fst (estep cv inc s i))).
      destruct (map (@o_ft R) (snd (erun cv inc (fst (estep cv inc s i)) (pre ++ [i1; i2])))) as [|x xs] eqn:E.
      + exfalso. assert (L : length (snd (erun cv inc (fst (estep cv inc s i)) (pre ++ [i1; i2]))) = 0%nat)
          by (rewrite <- (map_length (@o_ft R)), E; reflexivity).
        clear - L. revert L. generalize (fst (estep cv inc s i)). induction pre as [|j pre IHp]; intros s'; cbn [app];
          rewrite erun_cons; cbn [snd length]; discriminate.
      + cbn [last]. exact IH.
  Qed.
  Lemma history_same cv inc i : cv_samestep cv = true ->
    forall pre s, last_ft (snd (erun cv inc s (pre ++ [i]))) = same_report cv i.
  Proof.
    intros H. induction pre as [|j pre IH]; intros s.
    - cbn [app]. rewrite erun_cons, erun_nil. cbn [snd]. unfold last_ft. cbn [map last]. apply one_step_same. exact H.
    - cbn [app]. rewrite erun_cons. cbn [snd]. unfold last_ft in *. cbn [map].
      specialize (IH (fst (estep cv inc s j))).
      destruct (map (@o_ft R) (snd (erun cv inc (fst (estep cv inc s j)) (pre ++ [i])))) as [|x xs] eqn:E.
      + exfalso. assert (L : length (snd (erun cv inc (fst (estep cv inc s j)) (pre ++ [i]))) = 0%nat)
          by (rewrite <- (map_length (@o_ft R)), E; reflexivity).
        clear - L. revert L. generalize (fst (estep cv inc s j)). induction pre as [|k pre IHp]; intros s'; cbn [app];
          rewrite erun_cons; cbn [snd length]; discriminate.
      + cbn [last]. exact IH.
  Qed.
  (* first step of a run in the lagged convention: nothing has been measured *)
  Lemma history_first_lag cv inc i : cv_samestep cv = false ->
    last_ft (snd (erun cv inc (eng_init Rops) [i])) = 0.
  Proof.
    intros H. rewrite erun_cons, erun_nil. cbn [snd]. unfold last_ft. cbn [map last].
    rewrite estep_eq. cbv zeta. cbn [snd]. rewrite step_first_lag by (try exact H; reflexivity). reflexivity.
  Qed.

  (* ---- consequences for an inverse-correct variable ---- *)
  Definition cv_inv_ok (pos : RF) (cv : colvar) : Prop :=
    Forall (fun p => inv_ok cell mass pos (fst p)) (cv_comps cv) /\
    ForallOrdPairs (fun p q => atoms_disj (fst p) (fst q)) (cv_comps cv) /\
    cv_sqnorm Rops cv <> 0.

  Lemma proj_exerted cv i : e_apply i = true -> cv_inv_ok (e_pos i) cv ->
    proj (e_pos i) cv (exerted cv true i) = proj (e_pos i) cv (e_force i) + own_force cv i.
  Proof.
    intros Ha (Hi & Hd & Hs). unfold exerted. rewrite Ha, cv_proj_fadd, cv_inverse by assumption. reflexivity.
  Qed.
  (* no bias applies a force at the step: nothing of Colvars is in the engine's total force *)
  Lemma proj_exerted_off cv inc i : e_apply i = false -> proj (e_pos i) cv (exerted cv inc i) = proj (e_pos i) cv (e_force i).
  Proof.
    intros Ha. unfold exerted. rewrite Ha. destruct inc; [|reflexivity].
    apply cv_proj_local. intros a _. unfold fadd, fzero. fold v0. apply vadd_0_r.
  Qed.
  Lemma proj_vanish cv pos (F : RF) : (forall a, In a (cv_atoms cv) -> F a = v0) -> proj pos cv F = 0.
  Proof.
    intros H. rewrite (cv_proj_local cell mass pos cv F (fzero Rops)) by (intros a Ha; rewrite H by exact Ha; reflexivity).
    rewrite cv_proj_eq. unfold proj_list. induction (cv_comps cv) as [|p l IH]; cbn [map]; [reflexivity|].
    rewrite tsum_cons, IH, cvc_ft_fzero. rs. unfold Rdiv. ring.
  Qed.

  Lemma cv_fj_T0 cv pos : cv_kT cv = 0 -> fjf pos cv = 0.
  Proof. intros H. unfold cv_fj. rewrite H. rs. ring. Qed.

  Lemma sqnorm_pm1 cv : cv_comps cv <> [] -> Forall (fun p => snd p = 1 \/ snd p = -1) (cv_comps cv) ->
    cv_sqnorm Rops cv = ofnat Rops (length (cv_comps cv)) /\ cv_sqnorm Rops cv <> 0.
  Proof.
    intros Hne H.
    assert (E : cv_sqnorm Rops cv = ofnat Rops (length (cv_comps cv))).
    { unfold cv_sqnorm. induction (cv_comps cv) as [|p l IH]; cbn [map length].
      - reflexivity.
      - inversion H as [|? ? Hp Hl]; subst. rewrite tsum_cons. unfold tsum in *.
        assert (IH' : fold_right (fun x acc : R => nadd Rops x acc) (n0 Rops) (map (fun p0 : RC * R => nmul Rops (snd p0) (snd p0)) l) = ofnat Rops (length l)).
        { destruct l as [|q l']; [reflexivity|]. apply IH; [discriminate|exact Hl]. }
        rewrite IH'. unfold ofnat. rs. rewrite Nat2Z.inj_succ, succ_IZR. destruct Hp as [-> | ->]; ring. }
    split; [exact E|]. rewrite E. apply Rgt_not_eq, Rlt_gt, ofnat_pos. destruct (cv_comps cv); [contradiction|cbn; lia].
  Qed.
End Steps.

(* ================================================================== statements used by Properties_C07.v *)
Section Final.
  Variable cell : option RV.
  Variable mass : nat -> R.
  Local Notation proj := (cv_proj Rops PI cell mass).
  Local Notation fjf := (cv_fj Rops PI cell mass).
  Local Notation capply := (cv_apply Rops PI cell mass).
  Local Notation erun := (eng_run Rops PI cell mass).

  (* lagged convention, the engine hands back exactly what Colvars applied (its own force is zero on the
     variable's atoms): the report of the next step *)
  Lemma inverse_lagged cv pre s i1 i2 :
    cv_samestep cv = false -> e_apply i1 = true -> cv_inv_ok cell mass (e_pos i1) cv ->
    (forall a, In a (cv_atoms cv) -> e_force i1 a = v0) ->
    last_ft (snd (erun cv true s (pre ++ [i1; i2]))) =
      own_force cell mass cv i1 + (if adds_fj cv (cv_hide cv) then fjf (e_pos i1) cv else 0)
      - (if cv_subtract cv then own_force cell mass cv i1 else 0).
  Proof.
    intros H Ha Hok Hz. rewrite history_lag by exact H. unfold lag_report.
    rewrite proj_exerted by assumption. rewrite (proj_vanish cell mass cv (e_pos i1) (e_force i1) Hz).
    rewrite Ha, andb_true_r. ring.
  Qed.
  Lemma inverse_lagged_jacobian cv pre s i1 i2 :
    cv_samestep cv = false -> e_apply i1 = true -> cv_hide cv = false -> cv_subtract cv = false ->
    cv_inv_ok cell mass (e_pos i1) cv -> (forall a, In a (cv_atoms cv) -> e_force i1 a = v0) ->
    last_ft (snd (erun cv true s (pre ++ [i1; i2]))) = e_fb i1 + fjf (e_pos i1) cv.
  Proof.
    intros H Ha Hh Hs Hok Hz. rewrite inverse_lagged by assumption.
    unfold own_force, applied_force, adds_fj. rewrite Hh, Hs. cbn [andb negb]. ring.
  Qed.
  Lemma inverse_lagged_hidden cv pre s i1 i2 :
    cv_samestep cv = false -> e_apply i1 = true -> cv_hide cv = true -> cv_subtract cv = false ->
    cv_inv_ok cell mass (e_pos i1) cv -> (forall a, In a (cv_atoms cv) -> e_force i1 a = v0) ->
    last_ft (snd (erun cv true s (pre ++ [i1; i2]))) = e_fb i1.
  Proof.
    intros H Ha Hh Hs Hok Hz. rewrite inverse_lagged by assumption.
    unfold own_force, applied_force, adds_fj. rewrite Hh, Hs, H, Ha. cbn [andb orb negb]. rs. ring.
  Qed.
  Lemma inverse_lagged_T0 cv pre s i1 i2 :
    cv_samestep cv = false -> e_apply i1 = true -> cv_kT cv = 0 -> cv_subtract cv = false ->
    cv_inv_ok cell mass (e_pos i1) cv -> (forall a, In a (cv_atoms cv) -> e_force i1 a = v0) ->
    last_ft (snd (erun cv true s (pre ++ [i1; i2]))) = e_fb i1.
  Proof.
    intros H Ha HT Hs Hok Hz. rewrite inverse_lagged by assumption.
    unfold own_force, applied_force. rewrite Hs, (cv_fj_T0 cell mass cv (e_pos i1) HT). rs.
    destruct (cv_hide cv && e_apply i1)%bool, (adds_fj cv (cv_hide cv)); ring.
  Qed.
  (* a step at which no bias applies a force to the variable: the report of the next step is the projection of the engine's
     forces, plus the Jacobian term unless hidden (hidden: nothing was compensated, nothing is added), minus f_old = fb *)
  Lemma lagged_not_applied cv inc pre s i1 i2 :
    cv_samestep cv = false -> e_apply i1 = false ->
    last_ft (snd (erun cv inc s (pre ++ [i1; i2]))) =
      proj (e_pos i1) cv (e_force i1) + (if cv_hide cv then 0 else fjf (e_pos i1) cv) - (if cv_subtract cv then e_fb i1 else 0).
  Proof.
    intros H Ha. rewrite history_lag by exact H. unfold lag_report.
    rewrite proj_exerted_off by exact Ha. unfold own_force, applied_force, adds_fj. rewrite Ha, andb_false_r.
    destruct (cv_hide cv); cbn [andb orb negb]; [rewrite orb_true_r|]; cbn [andb negb]; ring.
  Qed.
  (* same-step convention: the engine's force field is exactly the distribution of a variable force f *)
  Lemma inverse_same cv inc pre s i f :
    cv_samestep cv = true -> cv_inv_ok cell mass (e_pos i) cv ->
    (forall a, In a (cv_atoms cv) -> e_force i a = capply (e_pos i) cv f a) ->
    last_ft (snd (erun cv inc s (pre ++ [i]))) = f + (if cv_hide cv then 0 else fjf (e_pos i) cv).
  Proof.
    intros H (Hi & Hd & Hs) HF. rewrite history_same by exact H. unfold same_report.
    rewrite (cv_proj_local cell mass (e_pos i) cv (e_force i) (capply (e_pos i) cv f) HF).
    rewrite cv_inverse by assumption. reflexivity.
  Qed.

  (* subtractAppliedForce: what is reported is the projection of the engine's own forces *)
  Lemma subtract_applied cv pre s i1 i2 :
    cv_samestep cv = false -> e_apply i1 = true -> cv_subtract cv = true -> cv_inv_ok cell mass (e_pos i1) cv ->
    last_ft (snd (erun cv true s (pre ++ [i1; i2]))) =
      proj (e_pos i1) cv (e_force i1) + (if cv_hide cv then 0 else fjf (e_pos i1) cv).
  Proof.
    intros H Ha Hs Hok. rewrite history_lag by exact H. unfold lag_report.
    rewrite proj_exerted by assumption. unfold adds_fj. rewrite Hs. destruct (cv_hide cv); cbn [andb orb negb]; ring.
  Qed.
  Lemma without_subtract cv pre s i1 i2 :
    cv_samestep cv = false -> e_apply i1 = true -> cv_subtract cv = false -> cv_inv_ok cell mass (e_pos i1) cv ->
    last_ft (snd (erun cv true s (pre ++ [i1; i2]))) =
      proj (e_pos i1) cv (e_force i1) + own_force cell mass cv i1 + (if adds_fj cv (cv_hide cv) then fjf (e_pos i1) cv else 0).
  Proof.
    intros H Ha Hs Hok. rewrite history_lag by exact H. unfold lag_report.
    rewrite proj_exerted by assumption. rewrite Hs, Ha, andb_true_r. ring.
  Qed.

  (* locality at the level of reports *)
  Lemma local_lagged cv inc pre pre' s s' i1 i1' i2 i2' :
    cv_samestep cv = false -> e_pos i1 = e_pos i1' -> e_fb i1 = e_fb i1' -> e_apply i1 = e_apply i1' ->
    (forall a, In a (cv_atoms cv) -> e_force i1 a = e_force i1' a) ->
    last_ft (snd (erun cv inc s (pre ++ [i1; i2]))) = last_ft (snd (erun cv inc s' (pre' ++ [i1'; i2']))).
  Proof.
    intros H Hp Hb Hap HF. rewrite !history_lag by exact H. unfold lag_report, exerted, own_force.
    rewrite <- Hp, <- Hb, <- Hap. f_equal. f_equal. apply cv_proj_local. intros a Ha.
    destruct inc; [unfold fadd; rewrite (HF a Ha); reflexivity | exact (HF a Ha)].
  Qed.
  Lemma local_same cv inc pre pre' s s' i i' :
    cv_samestep cv = true -> e_pos i = e_pos i' ->
    (forall a, In a (cv_atoms cv) -> e_force i a = e_force i' a) ->
    last_ft (snd (erun cv inc s (pre ++ [i]))) = last_ft (snd (erun cv inc s' (pre' ++ [i']))).
  Proof.
    intros H Hp HF. rewrite !history_same by exact H. unfold same_report. rewrite <- Hp. f_equal.
    apply cv_proj_local. exact HF.
  Qed.

  (* +-1 combinations *)
  Lemma pm1_combination cv pos f :
    cv_comps cv <> [] -> Forall (fun p => snd p = 1 \/ snd p = -1) (cv_comps cv) ->
    Forall (fun p => inv_ok cell mass pos (fst p)) (cv_comps cv) ->
    ForallOrdPairs (fun p q => atoms_disj (fst p) (fst q)) (cv_comps cv) ->
    proj pos cv (capply pos cv f) = f /\
    fjf pos cv = tsum Rops (map (fun p => cvc_jd Rops PI cell mass pos (fst p) * snd p / ofnat Rops (length (cv_comps cv))) (cv_comps cv)) * cv_kT cv.
  Proof.
    intros Hne Hpm Hi Hd. destruct (sqnorm_pm1 cv Hne Hpm) as [E Hs]. split.
    - apply cv_inverse; assumption.
    - unfold cv_fj. rewrite E. reflexivity.
  Qed.
End Final.

(* ================================================================== the angle guard from the documented singularities *)
Section AngleGuard.
  Variable cell : option RV.
  Variable mass : nat -> R.
  Variable pos : RF.
  Lemma ang_guard g1 g2 g3 :
    0 < vnorm2 Rops (ang_r21 Rops cell mass pos g1 g2) -> 0 < vnorm2 Rops (ang_r23 Rops cell mass pos g2 g3) ->
    ang_cos Rops cell mass pos g1 g2 g3 * ang_cos Rops cell mass pos g1 g2 g3 < 1 ->
    0 < vnorm2 Rops (ang_dxdr1 Rops PI cell mass pos g1 g2 g3) /\ 0 < vnorm2 Rops (ang_dxdr3 Rops PI cell mass pos g1 g2 g3).
  Proof.
    intros H1 H3 Hc. unfold ang_dxdr1, ang_dxdr3. cbv zeta.
    set (c := ang_cos Rops cell mass pos g1 g2 g3) in *.
    assert (Ec : c = vdot Rops (ang_r21 Rops cell mass pos g1 g2) (ang_r23 Rops cell mass pos g2 g3)
                     / (vnorm Rops (ang_r21 Rops cell mass pos g1 g2) * vnorm Rops (ang_r23 Rops cell mass pos g2 g3))) by reflexivity.
    set (r21 := ang_r21 Rops cell mass pos g1 g2) in *. set (r23 := ang_r23 Rops cell mass pos g2 g3) in *.
    pose proof (vnorm_pos r21 H1) as L1. pose proof (vnorm_pos r23 H3) as L3.
    pose proof (vnorm_sq r21) as S1. pose proof (vnorm_sq r23) as S3.
    set (l1 := vnorm Rops r21) in *. set (l3 := vnorm Rops r23) in *.
    assert (Hs : 0 < sqrt (1 - c * c)) by (apply sqrt_lt_R0; lra).
    pose proof (sqrt_sqrt (1 - c * c)) as Hss. assert (Hss' : sqrt (1 - c * c) * sqrt (1 - c * c) = 1 - c * c) by (apply Hss; lra).
    set (q := sqrt (1 - c * c)) in *.
    pose proof PI_RGT_0 as Hpi.
    rewrite !vnorm2_vscale. rs.
    assert (Hd : vdot Rops r21 r23 = c * (l1 * l3)) by (rewrite Ec; field; lra).
    assert (W1 : vnorm2 Rops (vadd Rops (vscale Rops (1 / l3) r23) (vscale Rops (- (1) * c) (vscale Rops (1 / l1) r21))) = 1 - c * c).
    { transitivity (vnorm2 Rops r23 / (l3 * l3) - 2 * c * vdot Rops r21 r23 / (l1 * l3) + c * c * vnorm2 Rops r21 / (l1 * l1)).
      - clear Hd Ec S1 S3. clearbody c l1 l3 r21 r23. vd; vu. field. lra.
      - rewrite Hd, <- S1, <- S3. field. lra. }
    assert (W3 : vnorm2 Rops (vadd Rops (vscale Rops (1 / l1) r21) (vscale Rops (- (1) * c) (vscale Rops (1 / l3) r23))) = 1 - c * c).
    { transitivity (vnorm2 Rops r21 / (l1 * l1) - 2 * c * vdot Rops r21 r23 / (l1 * l3) + c * c * vnorm2 Rops r23 / (l3 * l3)).
      - clear Hd Ec S1 S3. clearbody c l1 l3 r21 r23. vd; vu. field. lra.
      - rewrite Hd, <- S1, <- S3. field. lra. }
    rewrite W1, W3. unfold deg. rs.
    assert (K1 : 0 < 180 / PI * (- (1) / q) * (1 / l1) * (180 / PI * (- (1) / q) * (1 / l1))).
    { replace (180 / PI * (- (1) / q) * (1 / l1) * (180 / PI * (- (1) / q) * (1 / l1)))
        with ((180 / (PI * q * l1)) * (180 / (PI * q * l1))) by (field; lra).
      assert (Hden : 0 < PI * q * l1) by (apply Rmult_lt_0_compat; [apply Rmult_lt_0_compat; lra | lra]).
      assert (Hq : 0 < 180 / (PI * q * l1)) by (apply Rdiv_lt_0_compat; lra).
      apply Rmult_lt_0_compat; exact Hq. }
    assert (K3 : 0 < 180 / PI * (- (1) / q) * (1 / l3) * (180 / PI * (- (1) / q) * (1 / l3))).
    { replace (180 / PI * (- (1) / q) * (1 / l3) * (180 / PI * (- (1) / q) * (1 / l3)))
        with ((180 / (PI * q * l3)) * (180 / (PI * q * l3))) by (field; lra).
      assert (Hden : 0 < PI * q * l3) by (apply Rmult_lt_0_compat; [apply Rmult_lt_0_compat; lra | lra]).
      assert (Hq : 0 < 180 / (PI * q * l3)) by (apply Rdiv_lt_0_compat; lra).
      apply Rmult_lt_0_compat; exact Hq. }
    split; apply Rmult_lt_0_compat; [exact K1 | lra | exact K3 | lra].
  Qed.
End AngleGuard.

(* ================================================================== closed form of the angle's Jacobian derivative *)
Section AngleJacobian.
  Variable cell : option RV.
  Variable mass : nat -> R.
  Variable pos : RF.
  (* jd = (pi/180) cot(theta) = (pi/180) cos(theta) / sqrt(1 - cos^2(theta)), theta the angle in radians *)
  Lemma angle_jd_closed g1 g2 g3 os :
    ang_cos Rops cell mass pos g1 g2 g3 * ang_cos Rops cell mass pos g1 g2 g3 < 1 ->
    cvc_jd Rops PI cell mass pos (CAngle g1 g2 g3 os) =
      PI / 180 * (ang_cos Rops cell mass pos g1 g2 g3 / sqrt (1 - ang_cos Rops cell mass pos g1 g2 g3 * ang_cos Rops cell mass pos g1 g2 g3)).
  Proof.
    intros Hc. cbn [cvc_jd cvc_value]. set (c := ang_cos Rops cell mass pos g1 g2 g3) in *.
    assert (Hb : -1 <= c <= 1) by (split; nra).
    pose proof PI_RGT_0 as Hpi.
    unfold deg. rs. cbn [nacos ncos nsin Rops].
    replace (180 / PI * acos c * PI / 180) with (acos c) by (field; lra).
    assert (Hne : acos c <> 0).
    { intros E. pose proof (cos_acos c Hb) as C. rewrite E, cos_0 in C. clearbody c. subst c. lra. }
    destruct (Reqb' (acos c) 0) eqn:E0; [apply Reqb_true in E0; contradiction|].
    rewrite cos_acos, sin_acos by exact Hb. unfold Rsqr. reflexivity.
  Qed.
End AngleJacobian.

(* ================================================================== a concrete system: the premises are satisfiable *)
Definition ex_mass : nat -> R := fun _ => 1.
Definition ex_pos : RF := fun a =>
  match a with 0%nat => (1, 0, 0) | 1%nat => (0, 0, 0) | 2%nat => (0, 1, 0) | 3%nat => (0, 1, 1) | _ => (0, 0, 0) end.
Definition G (a : nat) : RG := GAtoms [a].

Lemma gcom_single a : gcom Rops ex_mass ex_pos (G a) = ex_pos a.
Proof.
  unfold G, gcom, gmass, ex_mass, tsum, vsum. cbn [map fold_right]. destruct (ex_pos a) as [[x y] z].
  unfold vscale, vadd, vzero. rs. f_equal; [f_equal|]; field.
Qed.
Lemma ex_gok a : gok ex_mass (G a).
Proof. split; [eexists; reflexivity|]. unfold G, gmass, ex_mass, tsum. cbn [map fold_right]. rs. lra. Qed.
Lemma ex_disj a b : a <> b -> disj (G a) (G b).
Proof. intros H c [Hc|[]] [Hd|[]]. congruence. Qed.

Lemma ex_axis : vdot Rops ((0, 0, 1) : RV) (0, 0, 1) = 1.
Proof. unfold vdot. rs. ring. Qed.
Lemma ex_dxy : dxy_value Rops None ex_mass ex_pos (G 0) (G 1) None (0, 0, 1) <> 0.
Proof.
  unfold dxy_value, dxy_ortho, dxy_dist_v, dz_axis, pdist. rewrite !gcom_single. cbn [ex_pos].
  unfold vnorm, vnorm2, vdot, vsub, vscale. rs.
  apply Rgt_not_eq, Rlt_gt, sqrt_lt_R0. lra.
Qed.

Lemma ex_angle :
  0 < vnorm2 Rops (ang_r21 Rops None ex_mass ex_pos (G 0) (G 1)) /\ 0 < vnorm2 Rops (ang_r23 Rops None ex_mass ex_pos (G 1) (G 2)) /\
  ang_cos Rops None ex_mass ex_pos (G 0) (G 1) (G 2) * ang_cos Rops None ex_mass ex_pos (G 0) (G 1) (G 2) < 1.
Proof.
  unfold ang_cos, ang_r21, ang_r23, pdist. rewrite !gcom_single. cbn [ex_pos].
  unfold vnorm, vnorm2, vdot, vsub. rs. repeat split; try lra.
Qed.
Lemma ex_dihedral :
  0 < vnorm2 Rops (vcross Rops (dih_r12 Rops None ex_mass ex_pos (G 0) (G 1)) (dih_r12 Rops None ex_mass ex_pos (G 1) (G 2))) /\
  0 < vnorm2 Rops (vcross Rops (dih_r12 Rops None ex_mass ex_pos (G 1) (G 2)) (dih_r12 Rops None ex_mass ex_pos (G 2) (G 3))).
Proof.
  unfold dih_r12, pdist. rewrite !gcom_single. cbn [ex_pos]. unfold vnorm2, vdot, vcross, vsub. rs. split; lra.
Qed.
Lemma ex_cog2 : cog Rops ex_pos [0%nat; 1%nat] = (1 / 2, 0, 0).
Proof. unfold cog, vsum, ofnat. cbn [map fold_right length ex_pos]. unfold vscale, vadd, vzero. rs. change (IZR (Z.of_nat 2)) with 2. f_equal; [f_equal|]; field. Qed.
Lemma ex_gyration : NoDup [0%nat; 1%nat] /\ gyr_value Rops ex_pos [0%nat; 1%nat] <> 0.
Proof.
  split; [repeat constructor; cbn; intuition congruence|].
  unfold gyr_value, gyr_pos, frame_pos. rewrite ex_cog2. unfold norm2_sum, tsum, ofnat. cbn [map fold_right length ex_pos].
  unfold vnorm2, vdot, vadd, vsub, vzero. rs. change (IZR (Z.of_nat 2)) with 2.
  apply Rgt_not_eq, Rlt_gt, sqrt_lt_R0. lra.
Qed.
Definition ex_refs : list RV := [(0, 0, 0); (0, 0, 0)].
Lemma ex_rmsd c : c = None \/ c = Some (0, 0, 0) ->
  NoDup [0%nat; 1%nat] /\ length ex_refs = length [0%nat; 1%nat] /\ rmsd_value Rops ex_pos [0%nat; 1%nat] ex_refs c <> 0 /\
  (forall rc, c = Some rc -> vsum Rops ex_refs = vscale Rops (ofnat Rops (length [0%nat; 1%nat])) rc).
Proof.
  intros Hc. split; [repeat constructor; cbn; intuition congruence|]. split; [reflexivity|]. split.
  - unfold rmsd_value, rmsd_diff, frame_pos. destruct Hc as [-> | ->].
    + unfold norm2_sum, tsum, ofnat, ex_refs. cbn [map fold_right length ex_pos vsub_list].
      unfold vnorm2, vdot, vsub. rs. change (IZR (Z.of_nat 2)) with 2. apply Rgt_not_eq, Rlt_gt, sqrt_lt_R0. lra.
    + rewrite ex_cog2. unfold norm2_sum, tsum, ofnat, ex_refs. cbn [map fold_right length ex_pos vsub_list].
      unfold vnorm2, vdot, vsub, vadd. rs. change (IZR (Z.of_nat 2)) with 2. apply Rgt_not_eq, Rlt_gt, sqrt_lt_R0. lra.
  - intros rc E. destruct Hc as [-> | ->]; [discriminate|]. inversion E; subst.
    unfold ex_refs, vsum, ofnat. cbn [fold_right length]. unfold vadd, vscale, vzero. rs. f_equal; [f_equal|]; ring.
Qed.
Definition ex_q : RQ := (1, 0, 0, 0).
Lemma ex_rotated :
  qnorm2 Rops ex_q = 1 /\
  rmsdrot_value Rops ex_pos [0%nat; 1%nat] ex_refs (rotmat Rops ex_q) ex_refs <> 0.
Proof.
  split.
  - unfold ex_q, qnorm2. rs. ring.
  - unfold rmsdrot_value, rmsdrot_diff, rot_frame. rewrite ex_cog2.
    unfold vmean, norm2_sum, tsum, ofnat, ex_refs, ex_q, rotmat, vsum. cbn [map fold_right length ex_pos vsub_list].
    unfold mvmul, vnorm2, vdot, vsub, vadd, vscale, vzero. rs. change (IZR (Z.of_nat 2)) with 2.
    apply Rgt_not_eq, Rlt_gt, sqrt_lt_R0. lra.
Qed.
Definition ex_evec : list RV := [(1, 0, 0); (-1, 0, 0)].
Lemma ex_eigenvector : NoDup [0%nat; 1%nat] /\ length ex_evec = length [0%nat; 1%nat] /\ norm2_sum Rops (eig_vec Rops ex_evec) <> 0.
Proof.
  split; [repeat constructor; cbn; intuition congruence|]. split; [reflexivity|].
  unfold eig_vec, vmean, ex_evec, vsum, ofnat, norm2_sum, tsum. cbn [map fold_right length].
  unfold vnorm2, vdot, vsub, vadd, vscale, vzero. rs. change (IZR (Z.of_nat 2)) with 2. lra.
Qed.

Definition ex_cv (h sb sm : bool) (kT : R) : @colvar R :=
  mkColvar [(CDistance (G 0) (G 1) false, 1); (CDistance (G 2) (G 3) false, -1)] h sb sm kT.
Lemma ex_cv_ok pos h sb sm kT : cv_inv_ok None ex_mass pos (ex_cv h sb sm kT).
Proof.
  unfold cv_inv_ok, ex_cv. cbn [cv_comps]. repeat split.
  - repeat constructor; cbn [fst]; intros fc; apply inv_distance; auto using ex_gok, ex_disj.
  - repeat constructor; cbn [fst]. intros a Ha Hb. cbn in Ha, Hb. intuition congruence.
  - unfold cv_sqnorm, tsum. cbn [cv_comps map fold_right snd]. rs. lra.
Qed.
Lemma ex_cv_pm1 h sb sm kT : cv_comps (ex_cv h sb sm kT) <> [] /\ Forall (fun p => snd p = 1 \/ snd p = -1) (cv_comps (ex_cv h sb sm kT)).
Proof. split; [discriminate|]. unfold ex_cv; cbn [cv_comps]. constructor; [left; reflexivity|]. constructor; [right; reflexivity|]. constructor. Qed.

Lemma ex_rmsd_centered :
  let g := rmsd_grads Rops ex_pos [0%nat; 1%nat] (rmsd_best Rops ex_pos [0%nat; 1%nat] ex_refs [] (Some (0, 0, 0))) (Some (0, 0, 0)) in
  norm2_sum Rops (vadd_list Rops g (fit_grads Rops (length [0%nat; 1%nat]) (Some (0, 0, 0)) g)) <> 0.
Proof.
  cbv zeta. cbn [rmsd_best best_copy].
  assert (Hx : rmsd_value Rops ex_pos [0%nat; 1%nat] ex_refs (Some (0, 0, 0)) = 1 / 2).
  { unfold rmsd_value, rmsd_diff, frame_pos. rewrite ex_cog2. unfold norm2_sum, tsum, ofnat, ex_refs.
    cbn [map fold_right length ex_pos vsub_list]. unfold vnorm2, vdot, vsub, vadd. rs. change (IZR (Z.of_nat 2)) with 2.
    match goal with |- sqrt ?e = _ => replace e with ((1 / 2) * (1 / 2)) by field end. apply sqrt_square. lra. }
  unfold rmsd_grads. rewrite Hx. rs. assert (Rltb 0 (1 / 2) = true) as -> by (apply Rltb_true; lra).
  unfold rmsd_diff, frame_pos. rewrite ex_cog2. unfold fit_grads, norm2_sum, tsum, ofnat, ex_refs, vsum.
  cbn [map fold_right length ex_pos vsub_list vadd_list]. unfold vnorm2, vdot, vsub, vadd, vscale, vzero. rs. change (IZR (Z.of_nat 2)) with 2.
  match goal with |- ?e <> 0 => replace e with (1 / 2) by field end. lra.
Qed.

(* ================================================================== statements of Properties_C07.v, verbatim *)
Lemma thm_inverse_distance : forall (cell : option RV) (mass : nat -> R) (pos : RF) (g1 g2 : RG) (fc : R),
  gok mass g1 -> gok mass g2 -> disj g1 g2 ->
  cvc_ft Rops PI cell mass pos (CDistance g1 g2 false) (cvc_apply Rops PI cell mass pos (CDistance g1 g2 false) fc) = fc.
Proof. exact inv_distance. Qed.
Lemma thm_inverse_distance_onesite : forall (cell : option RV) (mass : nat -> R) (pos : RF) (g1 g2 : RG) (fc : R),
  gok mass g1 -> disj g1 g2 ->
  cvc_ft Rops PI cell mass pos (CDistance g1 g2 true) (cvc_apply Rops PI cell mass pos (CDistance g1 g2 true) fc) = fc.
Proof. exact inv_distance_onesite. Qed.
Lemma thm_inverse_distanceZ : forall (cell : option RV) (mass : nat -> R) (pos : RF) (gm gr : RG) (axis : RV) (fc : R),
  gok mass gm -> gok mass gr -> disj gm gr -> vdot Rops axis axis = 1 ->
  cvc_ft Rops PI cell mass pos (CDistanceZ gm gr None axis false) (cvc_apply Rops PI cell mass pos (CDistanceZ gm gr None axis false) fc) = fc.
Proof. exact inv_distanceZ. Qed.
Lemma thm_inverse_distanceZ_onesite : forall (cell : option RV) (mass : nat -> R) (pos : RF) (gm gr : RG) (axis : RV) (fc : R),
  gok mass gm -> disj gm gr -> vdot Rops axis axis = 1 ->
  cvc_ft Rops PI cell mass pos (CDistanceZ gm gr None axis true) (cvc_apply Rops PI cell mass pos (CDistanceZ gm gr None axis true) fc) = fc.
Proof. exact inv_distanceZ_onesite. Qed.
Lemma thm_inverse_distanceZ_ref2 : forall (cell : option RV) (mass : nat -> R) (pos : RF) (gm gr g2 : RG) (axis : RV) (os : bool) (fc : R),
  gok mass gm -> disj gm gr -> disj gm g2 ->
  cvc_ft Rops PI cell mass pos (CDistanceZ gm gr (Some g2) axis os) (cvc_apply Rops PI cell mass pos (CDistanceZ gm gr (Some g2) axis os) fc) = fc.
Proof. exact inv_distanceZ_ref2. Qed.
Lemma thm_inverse_distanceXY : forall (cell : option RV) (mass : nat -> R) (pos : RF) (gm gr : RG) (gr2 : option RG) (axis : RV) (os : bool) (fc : R),
  gok mass gm -> (gr2 = None -> os = false -> gok mass gr) -> disj gm gr ->
  (forall g2, gr2 = Some g2 -> disj gm g2) ->
  dxy_value Rops cell mass pos gm gr gr2 axis <> 0 ->
  cvc_ft Rops PI cell mass pos (CDistanceXY gm gr gr2 axis os) (cvc_apply Rops PI cell mass pos (CDistanceXY gm gr gr2 axis os) fc) = fc.
Proof. exact inv_distanceXY_gen. Qed.
Lemma thm_inverse_angle : forall (cell : option RV) (mass : nat -> R) (pos : RF) (g1 g2 g3 : RG) (fc : R),
  gok mass g1 -> gok mass g3 -> disj g1 g2 -> disj g1 g3 -> disj g3 g2 ->
  0 < vnorm2 Rops (ang_r21 Rops cell mass pos g1 g2) -> 0 < vnorm2 Rops (ang_r23 Rops cell mass pos g2 g3) ->
  ang_cos Rops cell mass pos g1 g2 g3 * ang_cos Rops cell mass pos g1 g2 g3 < 1 ->
  cvc_ft Rops PI cell mass pos (CAngle g1 g2 g3 false) (cvc_apply Rops PI cell mass pos (CAngle g1 g2 g3 false) fc) = fc.
Proof. intros cell mass pos g1 g2 g3 fc H1 H3 D12 D13 D32 L1 L3 Hc.
  destruct (ang_guard cell mass pos g1 g2 g3 L1 L3 Hc) as [A B]. apply inv_angle; try assumption. lra. Qed.
Lemma thm_inverse_angle_onesite : forall (cell : option RV) (mass : nat -> R) (pos : RF) (g1 g2 g3 : RG) (fc : R),
  gok mass g1 -> disj g1 g2 -> disj g1 g3 ->
  0 < vnorm2 Rops (ang_r21 Rops cell mass pos g1 g2) -> 0 < vnorm2 Rops (ang_r23 Rops cell mass pos g2 g3) ->
  ang_cos Rops cell mass pos g1 g2 g3 * ang_cos Rops cell mass pos g1 g2 g3 < 1 ->
  cvc_ft Rops PI cell mass pos (CAngle g1 g2 g3 true) (cvc_apply Rops PI cell mass pos (CAngle g1 g2 g3 true) fc) = fc.
Proof. intros cell mass pos g1 g2 g3 fc H1 D12 D13 L1 L3 Hc.
  destruct (ang_guard cell mass pos g1 g2 g3 L1 L3 Hc) as [A B]. apply inv_angle_onesite; try assumption. lra. Qed.
Lemma thm_inverse_dihedral : forall (cell : option RV) (mass : nat -> R) (pos : RF) (g1 g2 g3 g4 : RG) (fc : R),
  gok mass g1 -> gok mass g4 -> disj g1 g2 -> disj g1 g3 -> disj g1 g4 -> disj g4 g2 -> disj g4 g3 ->
  0 < vnorm2 Rops (vcross Rops (dih_r12 Rops cell mass pos g1 g2) (dih_r12 Rops cell mass pos g2 g3)) ->
  0 < vnorm2 Rops (vcross Rops (dih_r12 Rops cell mass pos g2 g3) (dih_r12 Rops cell mass pos g3 g4)) ->
  cvc_ft Rops PI cell mass pos (CDihedral g1 g2 g3 g4 false) (cvc_apply Rops PI cell mass pos (CDihedral g1 g2 g3 g4 false) fc) = fc.
Proof. exact inv_dihedral. Qed.
Lemma thm_inverse_dihedral_onesite : forall (cell : option RV) (mass : nat -> R) (pos : RF) (g1 g2 g3 g4 : RG) (fc : R),
  gok mass g1 -> disj g1 g2 -> disj g1 g3 -> disj g1 g4 ->
  0 < vnorm2 Rops (vcross Rops (dih_r12 Rops cell mass pos g1 g2) (dih_r12 Rops cell mass pos g2 g3)) ->
  cvc_ft Rops PI cell mass pos (CDihedral g1 g2 g3 g4 true) (cvc_apply Rops PI cell mass pos (CDihedral g1 g2 g3 g4 true) fc) = fc.
Proof. exact inv_dihedral_onesite. Qed.
Lemma thm_inverse_gyration : forall (cell : option RV) (mass : nat -> R) (pos : RF) (ids : list nat) (fc : R),
  NoDup ids -> gyr_value Rops pos ids <> 0 ->
  cvc_ft Rops PI cell mass pos (CGyration ids) (cvc_apply Rops PI cell mass pos (CGyration ids) fc) = fc.
Proof. exact inv_gyration. Qed.
Lemma thm_inverse_rmsd : forall (cell : option RV) (mass : nat -> R) (pos : RF) (ids : list nat) (refs : list RV) (extra : list (list RV)) (fc : R),
  NoDup ids -> (forall r, In r (refs :: extra) -> length r = length ids) ->
  rmsd_value Rops pos ids (rmsd_best Rops pos ids refs extra None) None <> 0 ->
  cvc_ft Rops PI cell mass pos (CRmsd ids refs extra None) (cvc_apply Rops PI cell mass pos (CRmsd ids refs extra None) fc) = fc.
Proof. exact inv_rmsd. Qed.
Lemma thm_inverse_rmsd_centered : forall (cell : option RV) (mass : nat -> R) (pos : RF) (ids : list nat) (refs : list RV) (extra : list (list RV)) (rc : RV) (fc : R),
  NoDup ids -> (forall r, In r (refs :: extra) -> length r = length ids) ->
  (let g := rmsd_grads Rops pos ids (rmsd_best Rops pos ids refs extra (Some rc)) (Some rc) in
   norm2_sum Rops (vadd_list Rops g (fit_grads Rops (length ids) (Some rc) g)) <> 0) ->
  cvc_ft Rops PI cell mass pos (CRmsd ids refs extra (Some rc)) (cvc_apply Rops PI cell mass pos (CRmsd ids refs extra (Some rc)) fc) = fc.
Proof. exact inv_rmsd_centered. Qed.
Lemma thm_inverse_eigenvector : forall (cell : option RV) (mass : nat -> R) (pos : RF) (ids : list nat) (refs evec : list RV) (center : option RV) (fc : R),
  NoDup ids -> length evec = length ids -> norm2_sum Rops (eig_vec Rops evec) <> 0 ->
  cvc_ft Rops PI cell mass pos (CEigenvector ids refs evec center) (cvc_apply Rops PI cell mass pos (CEigenvector ids refs evec center) fc) = fc.
Proof. exact inv_eigenvector. Qed.
Lemma thm_inverse_rmsd_rotated : forall (cell : option RV) (mass : nat -> R) (pos : RF) (ids : list nat) (refs : list RV) (rotf : RF -> RQ) (jdf : RF -> R) (fitf : RF -> list RV) (fc : R),
  NoDup ids -> length refs = length ids -> qnorm2 Rops (rotf pos) = 1 ->
  rmsdrot_value Rops pos ids refs (rotmat Rops (rotf pos)) refs <> 0 ->
  cvc_ft Rops PI cell mass pos (CRmsdRot ids refs [] rotf jdf fitf) (cvc_apply Rops PI cell mass pos (CRmsdRot ids refs [] rotf jdf fitf) fc) = fc.
Proof. exact inv_rmsd_rot. Qed.
Lemma thm_inverse_rmsd_rotated_permuted : forall (cell : option RV) (mass : nat -> R) (pos : RF) (ids : list nat) (refs : list RV) (e : list RV) (es : list (list RV)) (rotf : RF -> RQ) (jdf : RF -> R) (fitf : RF -> list RV) (fc : R),
  NoDup ids -> (forall r, In r (refs :: e :: es) -> length r = length ids) -> length (fitf pos) = length ids ->
  qnorm2 Rops (rotf pos) = 1 ->
  (let R := rotmat Rops (rotf pos) in
   let g := rmsdrot_grads Rops pos ids refs R (rmsdrot_best Rops pos ids refs (e :: es) R) in
   norm2_sum Rops (vadd_list Rops g (map (mvmul Rops R) (fitf pos))) <> 0) ->
  cvc_ft Rops PI cell mass pos (CRmsdRot ids refs (e :: es) rotf jdf fitf) (cvc_apply Rops PI cell mass pos (CRmsdRot ids refs (e :: es) rotf jdf fitf) fc) = fc.
Proof. exact inv_rmsd_rot_perm. Qed.
Lemma thm_rotation_matrices : forall q : RQ, qnorm2 Rops q = 1 ->
  (forall v : RV, mvmul Rops (rotmat Rops q) (mtvmul Rops (rotmat Rops q) v) = v) /\
  (forall v : RV, mvmul Rops (rotmat Rops (qconj Rops q)) v = mtvmul Rops (rotmat Rops q) v).
Proof. intros q H. split; [exact (rotmat_orthogonal q H) | exact (rotmat_conj q)]. Qed.
Lemma thm_inverse_eigenvector_rotated : forall (cell : option RV) (mass : nat -> R) (pos : RF) (ids : list nat) (refs evec : list RV) (rotf : RF -> RQ) (jdf : RF -> R) (fc : R),
  NoDup ids -> length evec = length ids ->
  qnorm2 Rops (rotf pos) = 1 ->
  norm2_sum Rops (eig_vec Rops evec) <> 0 ->
  cvc_ft Rops PI cell mass pos (CEigenvectorRot ids refs evec rotf jdf) (cvc_apply Rops PI cell mass pos (CEigenvectorRot ids refs evec rotf jdf) fc) = fc.
Proof. exact inv_eigenvector_rot. Qed.
Lemma thm_inverse_variable : forall (cell : option RV) (mass : nat -> R) (pos : RF) (cv : colvar) (f : R),
  Forall (fun p => forall fc, cvc_ft Rops PI cell mass pos (fst p) (cvc_apply Rops PI cell mass pos (fst p) fc) = fc) (cv_comps cv) ->
  ForallOrdPairs (fun p q => forall a, In a (cvc_atoms (fst p)) -> ~ In a (cvc_atoms (fst q))) (cv_comps cv) ->
  cv_sqnorm Rops cv <> 0 ->
  cv_proj Rops PI cell mass pos cv (cv_apply Rops PI cell mass pos cv f) = f.
Proof. exact cv_inverse. Qed.
Lemma thm_pm1_combination : forall (cell : option RV) (mass : nat -> R) (cv : colvar) (pos : RF) (f : R),
  cv_comps cv <> [] -> Forall (fun p => snd p = 1 \/ snd p = -1) (cv_comps cv) ->
  Forall (fun p => forall fc, cvc_ft Rops PI cell mass pos (fst p) (cvc_apply Rops PI cell mass pos (fst p) fc) = fc) (cv_comps cv) ->
  ForallOrdPairs (fun p q => forall a, In a (cvc_atoms (fst p)) -> ~ In a (cvc_atoms (fst q))) (cv_comps cv) ->
  cv_proj Rops PI cell mass pos cv (cv_apply Rops PI cell mass pos cv f) = f /\
  cv_fj Rops PI cell mass pos cv =
    tsum Rops (map (fun p => cvc_jd Rops PI cell mass pos (fst p) * snd p / ofnat Rops (length (cv_comps cv))) (cv_comps cv)) * cv_kT cv.
Proof. exact pm1_combination. Qed.
Lemma thm_inverse_lagged : forall (cell : option RV) (mass : nat -> R) (cv : colvar) (pre : list einput) (s : estate) (i1 i2 : einput),
  cv_samestep cv = false -> e_apply i1 = true ->
  Forall (fun p => forall fc, cvc_ft Rops PI cell mass (e_pos i1) (fst p) (cvc_apply Rops PI cell mass (e_pos i1) (fst p) fc) = fc) (cv_comps cv) ->
  ForallOrdPairs (fun p q => forall a, In a (cvc_atoms (fst p)) -> ~ In a (cvc_atoms (fst q))) (cv_comps cv) ->
  cv_sqnorm Rops cv <> 0 ->
  (forall a, In a (cv_atoms cv) -> e_force i1 a = vzero Rops) ->
  last_ft (snd (eng_run Rops PI cell mass cv true s (pre ++ [i1; i2]))) =
    applied_force Rops cv (e_apply i1) (e_fb i1) (cv_fj Rops PI cell mass (e_pos i1) cv) + (if adds_fj cv (cv_hide cv) then cv_fj Rops PI cell mass (e_pos i1) cv else 0)
    - (if cv_subtract cv then applied_force Rops cv (e_apply i1) (e_fb i1) (cv_fj Rops PI cell mass (e_pos i1) cv) else 0).
Proof. intros cell mass cv pre s i1 i2 H Ha Hi Hd Hs Hz. assert (Hok : cv_inv_ok cell mass (e_pos i1) cv) by (repeat split; assumption). exact (inverse_lagged cell mass cv pre s i1 i2 H Ha Hok Hz). Qed.
Lemma thm_inverse_lagged_jacobian : forall (cell : option RV) (mass : nat -> R) (cv : colvar) (pre : list einput) (s : estate) (i1 i2 : einput),
  cv_samestep cv = false -> e_apply i1 = true -> cv_hide cv = false -> cv_subtract cv = false ->
  Forall (fun p => forall fc, cvc_ft Rops PI cell mass (e_pos i1) (fst p) (cvc_apply Rops PI cell mass (e_pos i1) (fst p) fc) = fc) (cv_comps cv) ->
  ForallOrdPairs (fun p q => forall a, In a (cvc_atoms (fst p)) -> ~ In a (cvc_atoms (fst q))) (cv_comps cv) ->
  cv_sqnorm Rops cv <> 0 ->
  (forall a, In a (cv_atoms cv) -> e_force i1 a = vzero Rops) ->
  last_ft (snd (eng_run Rops PI cell mass cv true s (pre ++ [i1; i2]))) = e_fb i1 + cv_fj Rops PI cell mass (e_pos i1) cv.
Proof. intros cell mass cv pre s i1 i2 H Ha Hh Hsb Hi Hd Hs Hz. assert (Hok : cv_inv_ok cell mass (e_pos i1) cv) by (repeat split; assumption). exact (inverse_lagged_jacobian cell mass cv pre s i1 i2 H Ha Hh Hsb Hok Hz). Qed.
Lemma thm_inverse_lagged_hidden : forall (cell : option RV) (mass : nat -> R) (cv : colvar) (pre : list einput) (s : estate) (i1 i2 : einput),
  cv_samestep cv = false -> e_apply i1 = true -> cv_hide cv = true -> cv_subtract cv = false ->
  Forall (fun p => forall fc, cvc_ft Rops PI cell mass (e_pos i1) (fst p) (cvc_apply Rops PI cell mass (e_pos i1) (fst p) fc) = fc) (cv_comps cv) ->
  ForallOrdPairs (fun p q => forall a, In a (cvc_atoms (fst p)) -> ~ In a (cvc_atoms (fst q))) (cv_comps cv) ->
  cv_sqnorm Rops cv <> 0 ->
  (forall a, In a (cv_atoms cv) -> e_force i1 a = vzero Rops) ->
  last_ft (snd (eng_run Rops PI cell mass cv true s (pre ++ [i1; i2]))) = e_fb i1.
Proof. intros cell mass cv pre s i1 i2 H Ha Hh Hsb Hi Hd Hs Hz. assert (Hok : cv_inv_ok cell mass (e_pos i1) cv) by (repeat split; assumption). exact (inverse_lagged_hidden cell mass cv pre s i1 i2 H Ha Hh Hsb Hok Hz). Qed.
Lemma thm_inverse_lagged_T0 : forall (cell : option RV) (mass : nat -> R) (cv : colvar) (pre : list einput) (s : estate) (i1 i2 : einput),
  cv_samestep cv = false -> e_apply i1 = true -> cv_kT cv = 0 -> cv_subtract cv = false ->
  Forall (fun p => forall fc, cvc_ft Rops PI cell mass (e_pos i1) (fst p) (cvc_apply Rops PI cell mass (e_pos i1) (fst p) fc) = fc) (cv_comps cv) ->
  ForallOrdPairs (fun p q => forall a, In a (cvc_atoms (fst p)) -> ~ In a (cvc_atoms (fst q))) (cv_comps cv) ->
  cv_sqnorm Rops cv <> 0 ->
  (forall a, In a (cv_atoms cv) -> e_force i1 a = vzero Rops) ->
  last_ft (snd (eng_run Rops PI cell mass cv true s (pre ++ [i1; i2]))) = e_fb i1.
Proof. intros cell mass cv pre s i1 i2 H Ha HT Hsb Hi Hd Hs Hz. assert (Hok : cv_inv_ok cell mass (e_pos i1) cv) by (repeat split; assumption). exact (inverse_lagged_T0 cell mass cv pre s i1 i2 H Ha HT Hsb Hok Hz). Qed.
Lemma thm_lagged_not_applied : forall (cell : option RV) (mass : nat -> R) (cv : colvar) (inc : bool) (pre : list einput) (s : estate) (i1 i2 : einput),
  cv_samestep cv = false -> e_apply i1 = false ->
  last_ft (snd (eng_run Rops PI cell mass cv inc s (pre ++ [i1; i2]))) =
    cv_proj Rops PI cell mass (e_pos i1) cv (e_force i1) + (if cv_hide cv then 0 else cv_fj Rops PI cell mass (e_pos i1) cv)
    - (if cv_subtract cv then e_fb i1 else 0).
Proof. exact lagged_not_applied. Qed.
Lemma thm_inverse_same_step : forall (cell : option RV) (mass : nat -> R) (cv : colvar) (inc : bool) (pre : list einput) (s : estate) (i : einput) (f : R),
  cv_samestep cv = true ->
  Forall (fun p => forall fc, cvc_ft Rops PI cell mass (e_pos i) (fst p) (cvc_apply Rops PI cell mass (e_pos i) (fst p) fc) = fc) (cv_comps cv) ->
  ForallOrdPairs (fun p q => forall a, In a (cvc_atoms (fst p)) -> ~ In a (cvc_atoms (fst q))) (cv_comps cv) ->
  cv_sqnorm Rops cv <> 0 ->
  (forall a, In a (cv_atoms cv) -> e_force i a = cv_apply Rops PI cell mass (e_pos i) cv f a) ->
  last_ft (snd (eng_run Rops PI cell mass cv inc s (pre ++ [i]))) = f + (if cv_hide cv then 0 else cv_fj Rops PI cell mass (e_pos i) cv).
Proof. intros cell mass cv inc pre s i f H Hi Hd Hs HF. assert (Hok : cv_inv_ok cell mass (e_pos i) cv) by (repeat split; assumption). exact (inverse_same cell mass cv inc pre s i f H Hok HF). Qed.
Lemma thm_linear : forall (cell : option RV) (mass : nat -> R) (pos : RF) (c : RC) (F G : RF) (a b : R),
  cvc_ft Rops PI cell mass pos c (fadd Rops (fscale Rops a F) (fscale Rops b G)) = a * cvc_ft Rops PI cell mass pos c F + b * cvc_ft Rops PI cell mass pos c G.
Proof. exact cvc_ft_linear. Qed.
Lemma thm_linear_variable : forall (cell : option RV) (mass : nat -> R) (pos : RF) (cv : colvar) (F G : RF) (a b : R),
  cv_proj Rops PI cell mass pos cv (fadd Rops (fscale Rops a F) (fscale Rops b G)) = a * cv_proj Rops PI cell mass pos cv F + b * cv_proj Rops PI cell mass pos cv G.
Proof. exact cv_proj_linear. Qed.
Lemma thm_local : forall (cell : option RV) (mass : nat -> R) (pos : RF) (c : RC) (F G : RF),
  (forall a, In a (cvc_atoms c) -> F a = G a) -> cvc_ft Rops PI cell mass pos c F = cvc_ft Rops PI cell mass pos c G.
Proof. exact cvc_ft_local. Qed.
Lemma thm_local_measured : forall (cell : option RV) (mass : nat -> R) (pos : RF) (c : RC) (F G : RF),
  (forall a, In a (cvc_measured c) -> F a = G a) -> cvc_ft Rops PI cell mass pos c F = cvc_ft Rops PI cell mass pos c G.
Proof. exact cvc_ft_local_measured. Qed.
Lemma thm_local_variable : forall (cell : option RV) (mass : nat -> R) (pos : RF) (cv : colvar) (F G : RF),
  (forall a, In a (cv_atoms cv) -> F a = G a) -> cv_proj Rops PI cell mass pos cv F = cv_proj Rops PI cell mass pos cv G.
Proof. exact cv_proj_local. Qed.
Lemma thm_local_report_lagged : forall (cell : option RV) (mass : nat -> R) (cv : colvar) (inc : bool) (pre pre' : list einput) (s s' : estate) (i1 i1' i2 i2' : einput),
  cv_samestep cv = false -> e_pos i1 = e_pos i1' -> e_fb i1 = e_fb i1' -> e_apply i1 = e_apply i1' ->
  (forall a, In a (cv_atoms cv) -> e_force i1 a = e_force i1' a) ->
  last_ft (snd (eng_run Rops PI cell mass cv inc s (pre ++ [i1; i2]))) = last_ft (snd (eng_run Rops PI cell mass cv inc s' (pre' ++ [i1'; i2']))).
Proof. exact local_lagged. Qed.
Lemma thm_local_report_same_step : forall (cell : option RV) (mass : nat -> R) (cv : colvar) (inc : bool) (pre pre' : list einput) (s s' : estate) (i i' : einput),
  cv_samestep cv = true -> e_pos i = e_pos i' ->
  (forall a, In a (cv_atoms cv) -> e_force i a = e_force i' a) ->
  last_ft (snd (eng_run Rops PI cell mass cv inc s (pre ++ [i]))) = last_ft (snd (eng_run Rops PI cell mass cv inc s' (pre' ++ [i']))).
Proof. exact local_same. Qed.
Lemma thm_subtract_applied : forall (cell : option RV) (mass : nat -> R) (cv : colvar) (pre : list einput) (s : estate) (i1 i2 : einput),
  cv_samestep cv = false -> e_apply i1 = true -> cv_subtract cv = true ->
  Forall (fun p => forall fc, cvc_ft Rops PI cell mass (e_pos i1) (fst p) (cvc_apply Rops PI cell mass (e_pos i1) (fst p) fc) = fc) (cv_comps cv) ->
  ForallOrdPairs (fun p q => forall a, In a (cvc_atoms (fst p)) -> ~ In a (cvc_atoms (fst q))) (cv_comps cv) ->
  cv_sqnorm Rops cv <> 0 ->
  last_ft (snd (eng_run Rops PI cell mass cv true s (pre ++ [i1; i2]))) =
    cv_proj Rops PI cell mass (e_pos i1) cv (e_force i1) + (if cv_hide cv then 0 else cv_fj Rops PI cell mass (e_pos i1) cv).
Proof. intros cell mass cv pre s i1 i2 H Ha Hsb Hi Hd Hs. assert (Hok : cv_inv_ok cell mass (e_pos i1) cv) by (repeat split; assumption). exact (subtract_applied cell mass cv pre s i1 i2 H Ha Hsb Hok). Qed.
Lemma thm_without_subtract : forall (cell : option RV) (mass : nat -> R) (cv : colvar) (pre : list einput) (s : estate) (i1 i2 : einput),
  cv_samestep cv = false -> e_apply i1 = true -> cv_subtract cv = false ->
  Forall (fun p => forall fc, cvc_ft Rops PI cell mass (e_pos i1) (fst p) (cvc_apply Rops PI cell mass (e_pos i1) (fst p) fc) = fc) (cv_comps cv) ->
  ForallOrdPairs (fun p q => forall a, In a (cvc_atoms (fst p)) -> ~ In a (cvc_atoms (fst q))) (cv_comps cv) ->
  cv_sqnorm Rops cv <> 0 ->
  last_ft (snd (eng_run Rops PI cell mass cv true s (pre ++ [i1; i2]))) =
    cv_proj Rops PI cell mass (e_pos i1) cv (e_force i1) + applied_force Rops cv (e_apply i1) (e_fb i1) (cv_fj Rops PI cell mass (e_pos i1) cv)
    + (if adds_fj cv (cv_hide cv) then cv_fj Rops PI cell mass (e_pos i1) cv else 0).
Proof. intros cell mass cv pre s i1 i2 H Ha Hsb Hi Hd Hs. assert (Hok : cv_inv_ok cell mass (e_pos i1) cv) by (repeat split; assumption). exact (without_subtract cell mass cv pre s i1 i2 H Ha Hsb Hok). Qed.
Lemma thm_timing : forall (cell : option RV) (mass : nat -> R) (cv : colvar) (inc : bool) (i1 i2 : einput),
  cv_samestep cv = false -> forall (pre : list einput) (s : estate),
  last_ft (snd (eng_run Rops PI cell mass cv inc s (pre ++ [i1; i2]))) =
    cv_proj Rops PI cell mass (e_pos i1) cv
      (if inc then fadd Rops (e_force i1) (if e_apply i1 then cv_apply Rops PI cell mass (e_pos i1) cv (applied_force Rops cv (e_apply i1) (e_fb i1) (cv_fj Rops PI cell mass (e_pos i1) cv)) else fzero Rops) else e_force i1)
    + (if adds_fj cv (cv_hide cv && e_apply i1) then cv_fj Rops PI cell mass (e_pos i1) cv else 0)
    - (if cv_subtract cv then applied_force Rops cv (e_apply i1) (e_fb i1) (cv_fj Rops PI cell mass (e_pos i1) cv) else 0).
Proof. exact history_lag. Qed.
Lemma thm_timing_parameter_change : forall (cell : option RV) (mass : nat -> R) (cv1 cv2 : colvar) (inc : bool) (s0 : estate) (i1 i2 : einput),
  cv_samestep cv2 = false ->
  o_ft (snd (eng_step Rops PI cell mass cv2 inc (fst (eng_step Rops PI cell mass cv1 inc s0 i1)) i2)) =
    cv_proj Rops PI cell mass (e_pos i1) cv1
      (if inc then fadd Rops (e_force i1)
                   (if e_apply i1 then cv_apply Rops PI cell mass (e_pos i1) cv1
                                         (applied_force Rops cv1 (e_apply i1) (e_fb i1) (cv_fj Rops PI cell mass (e_pos i1) cv1))
                    else fzero Rops)
       else e_force i1)
    + (if adds_fj cv2 (cv_hide cv1 && e_apply i1) then cv_fj Rops PI cell mass (e_pos i1) cv1 else 0)
    - (if cv_subtract cv2 then applied_force Rops cv1 (e_apply i1) (e_fb i1) (cv_fj Rops PI cell mass (e_pos i1) cv1) else 0).
Proof. exact two_steps_lag_gen. Qed.
Lemma thm_timing_same_step : forall (cell : option RV) (mass : nat -> R) (cv : colvar) (inc : bool) (i : einput),
  cv_samestep cv = true -> forall (pre : list einput) (s : estate),
  last_ft (snd (eng_run Rops PI cell mass cv inc s (pre ++ [i]))) =
    cv_proj Rops PI cell mass (e_pos i) cv (e_force i) + (if cv_hide cv then 0 else cv_fj Rops PI cell mass (e_pos i) cv).
Proof. exact history_same. Qed.
Lemma thm_timing_first_step : forall (cell : option RV) (mass : nat -> R) (cv : colvar) (inc : bool) (i : einput),
  cv_samestep cv = false -> last_ft (snd (eng_run Rops PI cell mass cv inc (eng_init Rops) [i])) = 0.
Proof. exact history_first_lag. Qed.
Lemma thm_jacobian_closed_forms : forall (cell : option RV) (mass : nat -> R) (pos : RF),
  (forall g1 g2 os, vnorm Rops (dist_v Rops cell mass pos g1 g2) <> 0 ->
     cvc_jd Rops PI cell mass pos (CDistance g1 g2 os) = 2 / cvc_value Rops PI cell mass pos (CDistance g1 g2 os)) /\
  (forall gm gr gr2 ax os, cvc_jd Rops PI cell mass pos (CDistanceZ gm gr gr2 ax os) = 0) /\
  (forall gm gr gr2 ax os, dxy_value Rops cell mass pos gm gr gr2 ax <> 0 ->
     cvc_jd Rops PI cell mass pos (CDistanceXY gm gr gr2 ax os) = 1 / cvc_value Rops PI cell mass pos (CDistanceXY gm gr gr2 ax os)) /\
  (forall g1 g2 g3 g4 os, cvc_jd Rops PI cell mass pos (CDihedral g1 g2 g3 g4 os) = 0) /\
  (forall ids, gyr_value Rops pos ids <> 0 ->
     cvc_jd Rops PI cell mass pos (CGyration ids) = (3 * ofnat Rops (length ids) - 4) / cvc_value Rops PI cell mass pos (CGyration ids)) /\
  (forall ids refs extra, 0 < cvc_value Rops PI cell mass pos (CRmsd ids refs extra None) ->
     cvc_jd Rops PI cell mass pos (CRmsd ids refs extra None) = (3 * ofnat Rops (length ids) - 1) / cvc_value Rops PI cell mass pos (CRmsd ids refs extra None)) /\
  (forall ids refs extra rc, 0 < cvc_value Rops PI cell mass pos (CRmsd ids refs extra (Some rc)) ->
     cvc_jd Rops PI cell mass pos (CRmsd ids refs extra (Some rc)) = (3 * ofnat Rops (length ids) - 4) / cvc_value Rops PI cell mass pos (CRmsd ids refs extra (Some rc))) /\
  (forall ids refs evec c, cvc_jd Rops PI cell mass pos (CEigenvector ids refs evec c) = 0).
Proof. intros cell mass pos. repeat split.
  - intros g1 g2 os H. cbn [cvc_jd cvc_value]. unfold inv_or_zero. rs.
    destruct (Reqb' (vnorm Rops (dist_v Rops cell mass pos g1 g2)) 0) eqn:E; [apply Reqb_true in E; contradiction|reflexivity].
  - intros gm gr gr2 ax os H. cbn [cvc_jd cvc_value]. unfold inv_or_zero. rs.
    destruct (Reqb' (dxy_value Rops cell mass pos gm gr gr2 ax) 0) eqn:E; [apply Reqb_true in E; contradiction|reflexivity].
  - intros ids H. cbn [cvc_jd cvc_value]. unfold inv_or_zero. rs.
    destruct (Reqb' (gyr_value Rops pos ids) 0) eqn:E; [apply Reqb_true in E; contradiction|reflexivity].
  - intros ids refs extra H. cbn [cvc_jd cvc_value] in *. rs. apply Rltb_true in H. rewrite H. f_equal. ring.
  - intros ids refs extra rc H. cbn [cvc_jd cvc_value] in *. rs. apply Rltb_true in H. rewrite H. f_equal. ring. Qed.
Lemma thm_jacobian_angle : forall (cell : option RV) (mass : nat -> R) (pos : RF) (g1 g2 g3 : RG) (os : bool),
  ang_cos Rops cell mass pos g1 g2 g3 * ang_cos Rops cell mass pos g1 g2 g3 < 1 ->
  cvc_jd Rops PI cell mass pos (CAngle g1 g2 g3 os) =
    PI / 180 * (ang_cos Rops cell mass pos g1 g2 g3 / sqrt (1 - ang_cos Rops cell mass pos g1 g2 g3 * ang_cos Rops cell mass pos g1 g2 g3)).
Proof. exact angle_jd_closed. Qed.

(* ---- fully instantiated history statements: the premises of the history theorems are satisfiable ---- *)
Lemma ex_split_ok pos h sb sm kT :
  Forall (fun p => forall fc, cvc_ft Rops PI None ex_mass pos (fst p) (cvc_apply Rops PI None ex_mass pos (fst p) fc) = fc) (cv_comps (ex_cv h sb sm kT)) /\
  ForallOrdPairs (fun p q => forall a, In a (cvc_atoms (fst p)) -> ~ In a (cvc_atoms (fst q))) (cv_comps (ex_cv h sb sm kT)) /\
  cv_sqnorm Rops (ex_cv h sb sm kT) <> 0.
Proof. exact (ex_cv_ok pos h sb sm kT). Qed.
Lemma ex_lagged_jacobian pre s pos fb1 i2 kT :
  last_ft (snd (eng_run Rops PI None ex_mass (ex_cv false false false kT) true s (pre ++ [mkEinput pos (fzero Rops) fb1 true; i2])))
  = fb1 + cv_fj Rops PI None ex_mass pos (ex_cv false false false kT).
Proof.
  destruct (ex_split_ok pos false false false kT) as (A & B & C).
  exact (thm_inverse_lagged_jacobian None ex_mass (ex_cv false false false kT) pre s (mkEinput pos (fzero Rops) fb1 true) i2 eq_refl eq_refl eq_refl eq_refl A B C (fun _ _ => eq_refl)).
Qed.
Lemma ex_lagged_hidden pre s pos fb1 i2 kT :
  last_ft (snd (eng_run Rops PI None ex_mass (ex_cv true false false kT) true s (pre ++ [mkEinput pos (fzero Rops) fb1 true; i2]))) = fb1.
Proof.
  destruct (ex_split_ok pos true false false kT) as (A & B & C).
  exact (thm_inverse_lagged_hidden None ex_mass (ex_cv true false false kT) pre s (mkEinput pos (fzero Rops) fb1 true) i2 eq_refl eq_refl eq_refl eq_refl A B C (fun _ _ => eq_refl)).
Qed.
Lemma ex_lagged_T0 pre s pos fb1 i2 h :
  last_ft (snd (eng_run Rops PI None ex_mass (ex_cv h false false 0) true s (pre ++ [mkEinput pos (fzero Rops) fb1 true; i2]))) = fb1.
Proof.
  destruct (ex_split_ok pos h false false 0) as (A & B & C).
  exact (thm_inverse_lagged_T0 None ex_mass (ex_cv h false false 0) pre s (mkEinput pos (fzero Rops) fb1 true) i2 eq_refl eq_refl eq_refl eq_refl A B C (fun _ _ => eq_refl)).
Qed.
Lemma ex_same_step inc pre s pos fb f h sb kT :
  last_ft (snd (eng_run Rops PI None ex_mass (ex_cv h sb true kT) inc s
                  (pre ++ [mkEinput pos (cv_apply Rops PI None ex_mass pos (ex_cv h sb true kT) f) fb true])))
  = f + (if h then 0 else cv_fj Rops PI None ex_mass pos (ex_cv h sb true kT)).
Proof.
  destruct (ex_split_ok pos h sb true kT) as (A & B & C).
  exact (thm_inverse_same_step None ex_mass (ex_cv h sb true kT) inc pre s (mkEinput pos (cv_apply Rops PI None ex_mass pos (ex_cv h sb true kT) f) fb true) f eq_refl A B C (fun _ _ => eq_refl)).
Qed.
Lemma ex_subtract pre s pos F fb1 i2 h kT :
  last_ft (snd (eng_run Rops PI None ex_mass (ex_cv h true false kT) true s (pre ++ [mkEinput pos F fb1 true; i2])))
  = cv_proj Rops PI None ex_mass pos (ex_cv h true false kT) F + (if h then 0 else cv_fj Rops PI None ex_mass pos (ex_cv h true false kT)).
Proof.
  destruct (ex_split_ok pos h true false kT) as (A & B & C).
  exact (thm_subtract_applied None ex_mass (ex_cv h true false kT) pre s (mkEinput pos F fb1 true) i2 eq_refl eq_refl eq_refl A B C).
Qed.
