From Coq Require Import Extraction ExtrOcamlBasic.
From CV Require Import Base.Num C07.TotalForceModel.
Extraction Language OCaml.
Extraction "model.ml" mkNumOps cvc_value cvc_apply cvc_ft cvc_jd cvc_atoms cv_proj cv_fj cv_apply cv_atoms
  cv_init cv_step eng_init eng_step eng_run.
