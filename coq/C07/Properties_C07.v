(* C07: total-force measurement is the inverse of force application.
   Statements only; proofs in TotalForceProofs.v; all about the real-number instance (Rops, PI) of TotalForceModel.v.
   Notation: RV = vectors, RM = 3x3 matrices, RQ = quaternions, cell = optional orthorhombic periodic cell (minimum-image differences), RF = per-atom fields (nat -> vector), RG = groups, RC = components.
   gok mass g      : g is a group of atoms with non-zero total mass (a group whose force can be measured)
   disj g g'       : no atom of g is in g'
   last_ft outs    : the total force reported at the last step of a history (0 for the empty history)
   applied_force   : f = fb - (hideJacobian ? fj : 0), the force the variable distributes to its atoms
   adds_fj cv comp : collect_cvc_total_forces adds the Jacobian force (not when hidden and (subtracted or same-step or the compensating
                     force was not applied at the step reported: comp = hidden && a bias applied a force))
   e_apply i       : at this step some bias applies a force to the variable (f_cv_apply_force)
   eng_run         : histories of (positions, engine force field, bias force on the variable), engine convention per
                     cv_samestep, "includecv" = the engine's total force contains the forces Colvars applied. *)
From Coq Require Import ZArith List Bool Arith Reals Lra.
From CV Require Import Base.Num Base.RNum C07.TotalForceModel C07.TotalForceProofs C07.DivergenceProofs.
Import ListNotations.
Local Open Scope R_scope.

(* distance, both groups measured: 0.5 (F2 - F1).u of the forces  -fc u (m/M1), +fc u (m/M2)  is fc, for every geometry
   (rvector::unit() returns a unit vector even for coincident centres) *)
Theorem C07_inverse_distance : forall (cell : option RV) (mass : nat -> R) (pos : RF) (g1 g2 : RG) (fc : R),
  gok mass g1 -> gok mass g2 -> disj g1 g2 ->
  cvc_ft Rops PI cell mass pos (CDistance g1 g2 false) (cvc_apply Rops PI cell mass pos (CDistance g1 g2 false) fc) = fc.
Proof. exact thm_inverse_distance. Qed.
Print Assumptions C07_inverse_distance.

(* oneSiteTotalForce: only group1 is measured; group2 may be a dummy atom *)
Theorem C07_inverse_distance_onesite : forall (cell : option RV) (mass : nat -> R) (pos : RF) (g1 g2 : RG) (fc : R),
  gok mass g1 -> disj g1 g2 ->
  cvc_ft Rops PI cell mass pos (CDistance g1 g2 true) (cvc_apply Rops PI cell mass pos (CDistance g1 g2 true) fc) = fc.
Proof. exact thm_inverse_distance_onesite. Qed.
Print Assumptions C07_inverse_distance_onesite.

(* distanceZ, fixed (normalised) axis *)
Theorem C07_inverse_distanceZ : forall (cell : option RV) (mass : nat -> R) (pos : RF) (gm gr : RG) (axis : RV) (fc : R),
  gok mass gm -> gok mass gr -> disj gm gr -> vdot Rops axis axis = 1 ->
  cvc_ft Rops PI cell mass pos (CDistanceZ gm gr None axis false) (cvc_apply Rops PI cell mass pos (CDistanceZ gm gr None axis false) fc) = fc.
Proof. exact thm_inverse_distanceZ. Qed.
Print Assumptions C07_inverse_distanceZ.

Theorem C07_inverse_distanceZ_onesite : forall (cell : option RV) (mass : nat -> R) (pos : RF) (gm gr : RG) (axis : RV) (fc : R),
  gok mass gm -> disj gm gr -> vdot Rops axis axis = 1 ->
  cvc_ft Rops PI cell mass pos (CDistanceZ gm gr None axis true) (cvc_apply Rops PI cell mass pos (CDistanceZ gm gr None axis true) fc) = fc.
Proof. exact thm_inverse_distanceZ_onesite. Qed.
Print Assumptions C07_inverse_distanceZ_onesite.

(* distanceZ with the axis joining ref and ref2: only main is measured *)
Theorem C07_inverse_distanceZ_ref2 : forall (cell : option RV) (mass : nat -> R) (pos : RF) (gm gr g2 : RG) (axis : RV) (os : bool) (fc : R),
  gok mass gm -> disj gm gr -> disj gm g2 ->
  cvc_ft Rops PI cell mass pos (CDistanceZ gm gr (Some g2) axis os) (cvc_apply Rops PI cell mass pos (CDistanceZ gm gr (Some g2) axis os) fc) = fc.
Proof. exact thm_inverse_distanceZ_ref2. Qed.
Print Assumptions C07_inverse_distanceZ_ref2.

(* distanceXY (fixed or two-point axis, one or two sites), away from the axis (documented singularity: value 0) *)
Theorem C07_inverse_distanceXY : forall (cell : option RV) (mass : nat -> R) (pos : RF) (gm gr : RG) (gr2 : option RG) (axis : RV) (os : bool) (fc : R),
  gok mass gm -> (gr2 = None -> os = false -> gok mass gr) -> disj gm gr ->
  (forall g2, gr2 = Some g2 -> disj gm g2) ->
  dxy_value Rops cell mass pos gm gr gr2 axis <> 0 ->
  cvc_ft Rops PI cell mass pos (CDistanceXY gm gr gr2 axis os) (cvc_apply Rops PI cell mass pos (CDistanceXY gm gr gr2 axis os) fc) = fc.
Proof. exact thm_inverse_distanceXY. Qed.
Print Assumptions C07_inverse_distanceXY.

(* angle, away from the documented singular geometries (coincident centres, collinear groups) *)
Theorem C07_inverse_angle : forall (cell : option RV) (mass : nat -> R) (pos : RF) (g1 g2 g3 : RG) (fc : R),
  gok mass g1 -> gok mass g3 -> disj g1 g2 -> disj g1 g3 -> disj g3 g2 ->
  0 < vnorm2 Rops (ang_r21 Rops cell mass pos g1 g2) -> 0 < vnorm2 Rops (ang_r23 Rops cell mass pos g2 g3) ->
  ang_cos Rops cell mass pos g1 g2 g3 * ang_cos Rops cell mass pos g1 g2 g3 < 1 ->
  cvc_ft Rops PI cell mass pos (CAngle g1 g2 g3 false) (cvc_apply Rops PI cell mass pos (CAngle g1 g2 g3 false) fc) = fc.
Proof. exact thm_inverse_angle. Qed.
Print Assumptions C07_inverse_angle.

Theorem C07_inverse_angle_onesite : forall (cell : option RV) (mass : nat -> R) (pos : RF) (g1 g2 g3 : RG) (fc : R),
  gok mass g1 -> disj g1 g2 -> disj g1 g3 ->
  0 < vnorm2 Rops (ang_r21 Rops cell mass pos g1 g2) -> 0 < vnorm2 Rops (ang_r23 Rops cell mass pos g2 g3) ->
  ang_cos Rops cell mass pos g1 g2 g3 * ang_cos Rops cell mass pos g1 g2 g3 < 1 ->
  cvc_ft Rops PI cell mass pos (CAngle g1 g2 g3 true) (cvc_apply Rops PI cell mass pos (CAngle g1 g2 g3 true) fc) = fc.
Proof. exact thm_inverse_angle_onesite. Qed.
Print Assumptions C07_inverse_angle_onesite.

(* dihedral, groups 1 and 4 measured; r12 x r23 and r23 x r34 non-null (no three collinear centres) *)
Theorem C07_inverse_dihedral : forall (cell : option RV) (mass : nat -> R) (pos : RF) (g1 g2 g3 g4 : RG) (fc : R),
  gok mass g1 -> gok mass g4 -> disj g1 g2 -> disj g1 g3 -> disj g1 g4 -> disj g4 g2 -> disj g4 g3 ->
  0 < vnorm2 Rops (vcross Rops (dih_r12 Rops cell mass pos g1 g2) (dih_r12 Rops cell mass pos g2 g3)) ->
  0 < vnorm2 Rops (vcross Rops (dih_r12 Rops cell mass pos g2 g3) (dih_r12 Rops cell mass pos g3 g4)) ->
  cvc_ft Rops PI cell mass pos (CDihedral g1 g2 g3 g4 false) (cvc_apply Rops PI cell mass pos (CDihedral g1 g2 g3 g4 false) fc) = fc.
Proof. exact thm_inverse_dihedral. Qed.
Print Assumptions C07_inverse_dihedral.

Theorem C07_inverse_dihedral_onesite : forall (cell : option RV) (mass : nat -> R) (pos : RF) (g1 g2 g3 g4 : RG) (fc : R),
  gok mass g1 -> disj g1 g2 -> disj g1 g3 -> disj g1 g4 ->
  0 < vnorm2 Rops (vcross Rops (dih_r12 Rops cell mass pos g1 g2) (dih_r12 Rops cell mass pos g2 g3)) ->
  cvc_ft Rops PI cell mass pos (CDihedral g1 g2 g3 g4 true) (cvc_apply Rops PI cell mass pos (CDihedral g1 g2 g3 g4 true) fc) = fc.
Proof. exact thm_inverse_dihedral_onesite. Qed.
Print Assumptions C07_inverse_dihedral_onesite.

Theorem C07_inverse_gyration : forall (cell : option RV) (mass : nat -> R) (pos : RF) (ids : list nat) (fc : R),
  NoDup ids -> gyr_value Rops pos ids <> 0 ->
  cvc_ft Rops PI cell mass pos (CGyration ids) (cvc_apply Rops PI cell mass pos (CGyration ids) fc) = fc.
Proof. exact thm_inverse_gyration. Qed.
Print Assumptions C07_inverse_gyration.

(* rmsd without rotation and without centring, with any number of permuted copies of the reference (atomPermutation): whichever copy is the\n   closest, gradients and inverse gradients use the same one *)
Theorem C07_inverse_rmsd : forall (cell : option RV) (mass : nat -> R) (pos : RF) (ids : list nat) (refs : list RV) (extra : list (list RV)) (fc : R),
  NoDup ids -> (forall r, In r (refs :: extra) -> length r = length ids) ->
  rmsd_value Rops pos ids (rmsd_best Rops pos ids refs extra None) None <> 0 ->
  cvc_ft Rops PI cell mass pos (CRmsd ids refs extra None) (cvc_apply Rops PI cell mass pos (CRmsd ids refs extra None) fc) = fc.
Proof. exact thm_inverse_rmsd. Qed.
Print Assumptions C07_inverse_rmsd.

(* centred rmsd (fit gradients on; code with fix-C07-3): the total force is projected on the complete gradient grad + fit, normalised by its\n   squared norm: the inverse holds wherever the group is centred (the earlier condition on the centre of its own references is gone) *)
Theorem C07_inverse_rmsd_centered : forall (cell : option RV) (mass : nat -> R) (pos : RF) (ids : list nat) (refs : list RV) (extra : list (list RV)) (rc : RV) (fc : R),
  NoDup ids -> (forall r, In r (refs :: extra) -> length r = length ids) ->
  (let g := rmsd_grads Rops pos ids (rmsd_best Rops pos ids refs extra (Some rc)) (Some rc) in
   norm2_sum Rops (vadd_list Rops g (fit_grads Rops (length ids) (Some rc) g)) <> 0) ->
  cvc_ft Rops PI cell mass pos (CRmsd ids refs extra (Some rc)) (cvc_apply Rops PI cell mass pos (CRmsd ids refs extra (Some rc)) fc) = fc.
Proof. exact thm_inverse_rmsd_centered. Qed.
Print Assumptions C07_inverse_rmsd_centered.

(* eigenvector without rotation (any centring): the centred vector must not be null *)
Theorem C07_inverse_eigenvector : forall (cell : option RV) (mass : nat -> R) (pos : RF) (ids : list nat) (refs evec : list RV) (center : option RV) (fc : R),
  NoDup ids -> length evec = length ids -> norm2_sum Rops (eig_vec Rops evec) <> 0 ->
  cvc_ft Rops PI cell mass pos (CEigenvector ids refs evec center) (cvc_apply Rops PI cell mass pos (CEigenvector ids refs evec center) fc) = fc.
Proof. exact thm_inverse_eigenvector. Qed.
Print Assumptions C07_inverse_eigenvector.

(* rotated frames (the default fit of rmsd / eigenvector): the optimal quaternion of the step is an input of the model, the matrices are\n   quaternion::rotation_matrix of it and of its conjugate; for every unit quaternion, rotating the forces into the frame of the gradients\n   (read_total_forces) inverts rotating the applied forces back.  Standard rmsd (no atomPermutation): no fit gradients *)
Theorem C07_inverse_rmsd_rotated : forall (cell : option RV) (mass : nat -> R) (pos : RF) (ids : list nat) (refs : list RV) (rotf : RF -> RQ) (jdf : RF -> R) (fitf : RF -> list RV) (fc : R),
  NoDup ids -> length refs = length ids -> qnorm2 Rops (rotf pos) = 1 ->
  rmsdrot_value Rops pos ids refs (rotmat Rops (rotf pos)) refs <> 0 ->
  cvc_ft Rops PI cell mass pos (CRmsdRot ids refs [] rotf jdf fitf) (cvc_apply Rops PI cell mass pos (CRmsdRot ids refs [] rotf jdf fitf) fc) = fc.
Proof. exact thm_inverse_rmsd_rotated. Qed.
Print Assumptions C07_inverse_rmsd_rotated.

(* symmetry-adapted rotated rmsd (atomPermutation, default fit): the applied forces contain fc * fit_gradients (derivatives of the optimal rotation,\n   an input of the model); with fix-C07-3 the total force is projected on the complete gradient, and that is the inverse for EVERY value of the input *)
Theorem C07_inverse_rmsd_rotated_permuted : forall (cell : option RV) (mass : nat -> R) (pos : RF) (ids : list nat) (refs : list RV) (e : list RV) (es : list (list RV)) (rotf : RF -> RQ) (jdf : RF -> R) (fitf : RF -> list RV) (fc : R),
  NoDup ids -> (forall r, In r (refs :: e :: es) -> length r = length ids) -> length (fitf pos) = length ids ->
  qnorm2 Rops (rotf pos) = 1 ->
  (let R := rotmat Rops (rotf pos) in
   let g := rmsdrot_grads Rops pos ids refs R (rmsdrot_best Rops pos ids refs (e :: es) R) in
   norm2_sum Rops (vadd_list Rops g (map (mvmul Rops R) (fitf pos))) <> 0) ->
  cvc_ft Rops PI cell mass pos (CRmsdRot ids refs (e :: es) rotf jdf fitf) (cvc_apply Rops PI cell mass pos (CRmsdRot ids refs (e :: es) rotf jdf fitf) fc) = fc.
Proof. exact thm_inverse_rmsd_rotated_permuted. Qed.
Print Assumptions C07_inverse_rmsd_rotated_permuted.

(* quaternion::rotation_matrix of a unit quaternion is orthogonal (R R^T = 1) and rotation::inverse().matrix() (conjugate quaternion) is its transpose *)
Theorem C07_rotation_matrices : forall q : RQ, qnorm2 Rops q = 1 ->
  (forall v : RV, mvmul Rops (rotmat Rops q) (mtvmul Rops (rotmat Rops q) v) = v) /\
  (forall v : RV, mvmul Rops (rotmat Rops (qconj Rops q)) v = mtvmul Rops (rotmat Rops q) v).
Proof. exact thm_rotation_matrices. Qed.
Print Assumptions C07_rotation_matrices.

Theorem C07_inverse_eigenvector_rotated : forall (cell : option RV) (mass : nat -> R) (pos : RF) (ids : list nat) (refs evec : list RV) (rotf : RF -> RQ) (jdf : RF -> R) (fc : R),
  NoDup ids -> length evec = length ids ->
  qnorm2 Rops (rotf pos) = 1 ->
  norm2_sum Rops (eig_vec Rops evec) <> 0 ->
  cvc_ft Rops PI cell mass pos (CEigenvectorRot ids refs evec rotf jdf) (cvc_apply Rops PI cell mass pos (CEigenvectorRot ids refs evec rotf jdf) fc) = fc.
Proof. exact thm_inverse_eigenvector_rotated. Qed.
Print Assumptions C07_inverse_eigenvector_rotated.

(* a linear combination (any coefficients, not all zero) of inverse-correct components on pairwise disjoint atoms:
   the projection  sum ft_i c_i / sum c_i^2  of the forces applied for f is f *)
Theorem C07_inverse_variable : forall (cell : option RV) (mass : nat -> R) (pos : RF) (cv : colvar) (f : R),
  Forall (fun p => forall fc, cvc_ft Rops PI cell mass pos (fst p) (cvc_apply Rops PI cell mass pos (fst p) fc) = fc) (cv_comps cv) ->
  ForallOrdPairs (fun p q => forall a, In a (cvc_atoms (fst p)) -> ~ In a (cvc_atoms (fst q))) (cv_comps cv) ->
  cv_sqnorm Rops cv <> 0 ->
  cv_proj Rops PI cell mass pos cv (cv_apply Rops PI cell mass pos cv f) = f.
Proof. exact thm_inverse_variable. Qed.
Print Assumptions C07_inverse_variable.

(* +-1 combinations of n components: the inverse holds and the Jacobian force is kT * sum (+-jd_i) / n *)
Theorem C07_pm1_combination : forall (cell : option RV) (mass : nat -> R) (cv : colvar) (pos : RF) (f : R),
  cv_comps cv <> [] -> Forall (fun p => snd p = 1 \/ snd p = -1) (cv_comps cv) ->
  Forall (fun p => forall fc, cvc_ft Rops PI cell mass pos (fst p) (cvc_apply Rops PI cell mass pos (fst p) fc) = fc) (cv_comps cv) ->
  ForallOrdPairs (fun p q => forall a, In a (cvc_atoms (fst p)) -> ~ In a (cvc_atoms (fst q))) (cv_comps cv) ->
  cv_proj Rops PI cell mass pos cv (cv_apply Rops PI cell mass pos cv f) = f /\
  cv_fj Rops PI cell mass pos cv =
    tsum Rops (map (fun p => cvc_jd Rops PI cell mass pos (fst p) * snd p / ofnat Rops (length (cv_comps cv))) (cv_comps cv)) * cv_kT cv.
Proof. exact thm_pm1_combination. Qed.
Print Assumptions C07_pm1_combination.

(* lagged convention, every history: if at step t-1 the variable's atoms experienced exactly the forces Colvars applied
   (the engine's own force vanishes on them), the report of step t is the applied variable force f(t-1), plus kT*jd(t-1)
   unless hidden, minus f(t-1) with subtractAppliedForce *)
Theorem C07_inverse_lagged : forall (cell : option RV) (mass : nat -> R) (cv : colvar) (pre : list einput) (s : estate) (i1 i2 : einput),
  cv_samestep cv = false -> e_apply i1 = true ->
  Forall (fun p => forall fc, cvc_ft Rops PI cell mass (e_pos i1) (fst p) (cvc_apply Rops PI cell mass (e_pos i1) (fst p) fc) = fc) (cv_comps cv) ->
  ForallOrdPairs (fun p q => forall a, In a (cvc_atoms (fst p)) -> ~ In a (cvc_atoms (fst q))) (cv_comps cv) ->
  cv_sqnorm Rops cv <> 0 ->
  (forall a, In a (cv_atoms cv) -> e_force i1 a = vzero Rops) ->
  last_ft (snd (eng_run Rops PI cell mass cv true s (pre ++ [i1; i2]))) =
    applied_force Rops cv (e_apply i1) (e_fb i1) (cv_fj Rops PI cell mass (e_pos i1) cv) + (if adds_fj cv (cv_hide cv) then cv_fj Rops PI cell mass (e_pos i1) cv else 0)
    - (if cv_subtract cv then applied_force Rops cv (e_apply i1) (e_fb i1) (cv_fj Rops PI cell mass (e_pos i1) cv) else 0).
Proof. exact thm_inverse_lagged. Qed.
Print Assumptions C07_inverse_lagged.

(* f plus the temperature-weighted Jacobian term *)
Theorem C07_inverse_lagged_jacobian : forall (cell : option RV) (mass : nat -> R) (cv : colvar) (pre : list einput) (s : estate) (i1 i2 : einput),
  cv_samestep cv = false -> e_apply i1 = true -> cv_hide cv = false -> cv_subtract cv = false ->
  Forall (fun p => forall fc, cvc_ft Rops PI cell mass (e_pos i1) (fst p) (cvc_apply Rops PI cell mass (e_pos i1) (fst p) fc) = fc) (cv_comps cv) ->
  ForallOrdPairs (fun p q => forall a, In a (cvc_atoms (fst p)) -> ~ In a (cvc_atoms (fst q))) (cv_comps cv) ->
  cv_sqnorm Rops cv <> 0 ->
  (forall a, In a (cv_atoms cv) -> e_force i1 a = vzero Rops) ->
  last_ft (snd (eng_run Rops PI cell mass cv true s (pre ++ [i1; i2]))) = e_fb i1 + cv_fj Rops PI cell mass (e_pos i1) cv.
Proof. exact thm_inverse_lagged_jacobian. Qed.
Print Assumptions C07_inverse_lagged_jacobian.

(* Jacobian term hidden on request: the bias force alone *)
Theorem C07_inverse_lagged_hidden : forall (cell : option RV) (mass : nat -> R) (cv : colvar) (pre : list einput) (s : estate) (i1 i2 : einput),
  cv_samestep cv = false -> e_apply i1 = true -> cv_hide cv = true -> cv_subtract cv = false ->
  Forall (fun p => forall fc, cvc_ft Rops PI cell mass (e_pos i1) (fst p) (cvc_apply Rops PI cell mass (e_pos i1) (fst p) fc) = fc) (cv_comps cv) ->
  ForallOrdPairs (fun p q => forall a, In a (cvc_atoms (fst p)) -> ~ In a (cvc_atoms (fst q))) (cv_comps cv) ->
  cv_sqnorm Rops cv <> 0 ->
  (forall a, In a (cv_atoms cv) -> e_force i1 a = vzero Rops) ->
  last_ft (snd (eng_run Rops PI cell mass cv true s (pre ++ [i1; i2]))) = e_fb i1.
Proof. exact thm_inverse_lagged_hidden. Qed.
Print Assumptions C07_inverse_lagged_hidden.

(* temperature zero: no Jacobian term *)
Theorem C07_inverse_lagged_T0 : forall (cell : option RV) (mass : nat -> R) (cv : colvar) (pre : list einput) (s : estate) (i1 i2 : einput),
  cv_samestep cv = false -> e_apply i1 = true -> cv_kT cv = 0 -> cv_subtract cv = false ->
  Forall (fun p => forall fc, cvc_ft Rops PI cell mass (e_pos i1) (fst p) (cvc_apply Rops PI cell mass (e_pos i1) (fst p) fc) = fc) (cv_comps cv) ->
  ForallOrdPairs (fun p q => forall a, In a (cvc_atoms (fst p)) -> ~ In a (cvc_atoms (fst q))) (cv_comps cv) ->
  cv_sqnorm Rops cv <> 0 ->
  (forall a, In a (cv_atoms cv) -> e_force i1 a = vzero Rops) ->
  last_ft (snd (eng_run Rops PI cell mass cv true s (pre ++ [i1; i2]))) = e_fb i1.
Proof. exact thm_inverse_lagged_T0. Qed.
Print Assumptions C07_inverse_lagged_T0.

(* a step at which NO bias applies a force to the variable (bias asleep, switched off, deleted, none defined): nothing of Colvars is in the\n   engine's forces and no Jacobian-compensating force was applied, so the next report is the projection of the engine's forces,\n   plus the Jacobian term unless hidden (f_old = fb, normally 0, is still subtracted with subtractAppliedForce) *)
Theorem C07_lagged_not_applied : forall (cell : option RV) (mass : nat -> R) (cv : colvar) (inc : bool) (pre : list einput) (s : estate) (i1 i2 : einput),
  cv_samestep cv = false -> e_apply i1 = false ->
  last_ft (snd (eng_run Rops PI cell mass cv inc s (pre ++ [i1; i2]))) =
    cv_proj Rops PI cell mass (e_pos i1) cv (e_force i1) + (if cv_hide cv then 0 else cv_fj Rops PI cell mass (e_pos i1) cv)
    - (if cv_subtract cv then e_fb i1 else 0).
Proof. exact thm_lagged_not_applied. Qed.
Print Assumptions C07_lagged_not_applied.

(* same-step convention, every history: the engine's force on the variable's atoms is the distribution of a variable force f *)
Theorem C07_inverse_same_step : forall (cell : option RV) (mass : nat -> R) (cv : colvar) (inc : bool) (pre : list einput) (s : estate) (i : einput) (f : R),
  cv_samestep cv = true ->
  Forall (fun p => forall fc, cvc_ft Rops PI cell mass (e_pos i) (fst p) (cvc_apply Rops PI cell mass (e_pos i) (fst p) fc) = fc) (cv_comps cv) ->
  ForallOrdPairs (fun p q => forall a, In a (cvc_atoms (fst p)) -> ~ In a (cvc_atoms (fst q))) (cv_comps cv) ->
  cv_sqnorm Rops cv <> 0 ->
  (forall a, In a (cv_atoms cv) -> e_force i a = cv_apply Rops PI cell mass (e_pos i) cv f a) ->
  last_ft (snd (eng_run Rops PI cell mass cv inc s (pre ++ [i]))) = f + (if cv_hide cv then 0 else cv_fj Rops PI cell mass (e_pos i) cv).
Proof. exact thm_inverse_same_step. Qed.
Print Assumptions C07_inverse_same_step.

(* every component, every geometry (no guard): the projected force is linear in the atomic force field *)
Theorem C07_linear : forall (cell : option RV) (mass : nat -> R) (pos : RF) (c : RC) (F G : RF) (a b : R),
  cvc_ft Rops PI cell mass pos c (fadd Rops (fscale Rops a F) (fscale Rops b G)) = a * cvc_ft Rops PI cell mass pos c F + b * cvc_ft Rops PI cell mass pos c G.
Proof. exact thm_linear. Qed.
Print Assumptions C07_linear.

Theorem C07_linear_variable : forall (cell : option RV) (mass : nat -> R) (pos : RF) (cv : colvar) (F G : RF) (a b : R),
  cv_proj Rops PI cell mass pos cv (fadd Rops (fscale Rops a F) (fscale Rops b G)) = a * cv_proj Rops PI cell mass pos cv F + b * cv_proj Rops PI cell mass pos cv G.
Proof. exact thm_linear_variable. Qed.
Print Assumptions C07_linear_variable.

(* force fields that agree on the atoms of the component's groups give the same projected force *)
Theorem C07_local : forall (cell : option RV) (mass : nat -> R) (pos : RF) (c : RC) (F G : RF),
  (forall a, In a (cvc_atoms c) -> F a = G a) -> cvc_ft Rops PI cell mass pos c F = cvc_ft Rops PI cell mass pos c G.
Proof. exact thm_local. Qed.
Print Assumptions C07_local.

(* sharper: only the atoms whose forces are read matter; with oneSiteTotalForce that is the first group only *)
Theorem C07_local_measured : forall (cell : option RV) (mass : nat -> R) (pos : RF) (c : RC) (F G : RF),
  (forall a, In a (cvc_measured c) -> F a = G a) -> cvc_ft Rops PI cell mass pos c F = cvc_ft Rops PI cell mass pos c G.
Proof. exact thm_local_measured. Qed.
Print Assumptions C07_local_measured.

Theorem C07_local_variable : forall (cell : option RV) (mass : nat -> R) (pos : RF) (cv : colvar) (F G : RF),
  (forall a, In a (cv_atoms cv) -> F a = G a) -> cv_proj Rops PI cell mass pos cv F = cv_proj Rops PI cell mass pos cv G.
Proof. exact thm_local_variable. Qed.
Print Assumptions C07_local_variable.

(* reports: two histories whose step t-1 differs only by engine forces on atoms outside the variable's groups
   (and arbitrarily before t-1 and at t) report the same total force at t *)
Theorem C07_local_report_lagged : forall (cell : option RV) (mass : nat -> R) (cv : colvar) (inc : bool) (pre pre' : list einput) (s s' : estate) (i1 i1' i2 i2' : einput),
  cv_samestep cv = false -> e_pos i1 = e_pos i1' -> e_fb i1 = e_fb i1' -> e_apply i1 = e_apply i1' ->
  (forall a, In a (cv_atoms cv) -> e_force i1 a = e_force i1' a) ->
  last_ft (snd (eng_run Rops PI cell mass cv inc s (pre ++ [i1; i2]))) = last_ft (snd (eng_run Rops PI cell mass cv inc s' (pre' ++ [i1'; i2']))).
Proof. exact thm_local_report_lagged. Qed.
Print Assumptions C07_local_report_lagged.

Theorem C07_local_report_same_step : forall (cell : option RV) (mass : nat -> R) (cv : colvar) (inc : bool) (pre pre' : list einput) (s s' : estate) (i i' : einput),
  cv_samestep cv = true -> e_pos i = e_pos i' ->
  (forall a, In a (cv_atoms cv) -> e_force i a = e_force i' a) ->
  last_ft (snd (eng_run Rops PI cell mass cv inc s (pre ++ [i]))) = last_ft (snd (eng_run Rops PI cell mass cv inc s' (pre' ++ [i']))).
Proof. exact thm_local_report_same_step. Qed.
Print Assumptions C07_local_report_same_step.

(* subtractAppliedForce (lagged convention, the engine's total force includes Colvars' forces): the report is the projection of the
   engine's own forces (+ Jacobian term unless hidden) whatever force Colvars applied *)
Theorem C07_subtract_applied : forall (cell : option RV) (mass : nat -> R) (cv : colvar) (pre : list einput) (s : estate) (i1 i2 : einput),
  cv_samestep cv = false -> e_apply i1 = true -> cv_subtract cv = true ->
  Forall (fun p => forall fc, cvc_ft Rops PI cell mass (e_pos i1) (fst p) (cvc_apply Rops PI cell mass (e_pos i1) (fst p) fc) = fc) (cv_comps cv) ->
  ForallOrdPairs (fun p q => forall a, In a (cvc_atoms (fst p)) -> ~ In a (cvc_atoms (fst q))) (cv_comps cv) ->
  cv_sqnorm Rops cv <> 0 ->
  last_ft (snd (eng_run Rops PI cell mass cv true s (pre ++ [i1; i2]))) =
    cv_proj Rops PI cell mass (e_pos i1) cv (e_force i1) + (if cv_hide cv then 0 else cv_fj Rops PI cell mass (e_pos i1) cv).
Proof. exact thm_subtract_applied. Qed.
Print Assumptions C07_subtract_applied.

(* ... and without the option it contains the applied force of step t-1 *)
Theorem C07_without_subtract : forall (cell : option RV) (mass : nat -> R) (cv : colvar) (pre : list einput) (s : estate) (i1 i2 : einput),
  cv_samestep cv = false -> e_apply i1 = true -> cv_subtract cv = false ->
  Forall (fun p => forall fc, cvc_ft Rops PI cell mass (e_pos i1) (fst p) (cvc_apply Rops PI cell mass (e_pos i1) (fst p) fc) = fc) (cv_comps cv) ->
  ForallOrdPairs (fun p q => forall a, In a (cvc_atoms (fst p)) -> ~ In a (cvc_atoms (fst q))) (cv_comps cv) ->
  cv_sqnorm Rops cv <> 0 ->
  last_ft (snd (eng_run Rops PI cell mass cv true s (pre ++ [i1; i2]))) =
    cv_proj Rops PI cell mass (e_pos i1) cv (e_force i1) + applied_force Rops cv (e_apply i1) (e_fb i1) (cv_fj Rops PI cell mass (e_pos i1) cv)
    + (if adds_fj cv (cv_hide cv) then cv_fj Rops PI cell mass (e_pos i1) cv else 0).
Proof. exact thm_without_subtract. Qed.
Print Assumptions C07_without_subtract.

(* lagged convention, every history pre, every state s, whatever happens at step t (i2): the report of step t is the projection of the
   forces exerted at t-1 on the inverse gradients of t-1, with the Jacobian term and the applied force of t-1 *)
Theorem C07_timing : forall (cell : option RV) (mass : nat -> R) (cv : colvar) (inc : bool) (i1 i2 : einput),
  cv_samestep cv = false -> forall (pre : list einput) (s : estate),
  last_ft (snd (eng_run Rops PI cell mass cv inc s (pre ++ [i1; i2]))) =
    cv_proj Rops PI cell mass (e_pos i1) cv
      (if inc then fadd Rops (e_force i1) (if e_apply i1 then cv_apply Rops PI cell mass (e_pos i1) cv (applied_force Rops cv (e_apply i1) (e_fb i1) (cv_fj Rops PI cell mass (e_pos i1) cv)) else fzero Rops) else e_force i1)
    + (if adds_fj cv (cv_hide cv && e_apply i1) then cv_fj Rops PI cell mass (e_pos i1) cv else 0)
    - (if cv_subtract cv then applied_force Rops cv (e_apply i1) (e_fb i1) (cv_fj Rops PI cell mass (e_pos i1) cv) else 0).
Proof. exact thm_timing. Qed.
Print Assumptions C07_timing.

(* parameters changed between two steps (temperature by the engine or `cv targettemperature`, subtractAppliedForce / hideJacobian by script,\n   component flags or coefficients): cv1 = the variable as configured at step t-1, cv2 at step t, any state before.  The Jacobian term of the report\n   is the one computed at t-1 with the temperature of t-1, the force subtracted is the one applied at t-1 (recorded at every step), the\n   forces of t-1 are combined with the component coefficients of t-1 (fix-C07-6); only the flags subtract / hide are those of step t *)
Theorem C07_timing_parameter_change : forall (cell : option RV) (mass : nat -> R) (cv1 cv2 : colvar) (inc : bool) (s0 : estate) (i1 i2 : einput),
  cv_samestep cv2 = false ->
  o_ft (snd (eng_step Rops PI cell mass cv2 inc (fst (eng_step Rops PI cell mass cv1 inc s0 i1)) i2)) =
    cv_proj Rops PI cell mass (e_pos i1) cv1
      (if inc then fadd Rops (e_force i1)
                   (if e_apply i1 then cv_apply Rops PI cell mass (e_pos i1) cv1
                                         (applied_force Rops cv1 (e_apply i1) (e_fb i1) (cv_fj Rops PI cell mass (e_pos i1) cv1))
                    else fzero Rops)
       else e_force i1)
    + (if adds_fj cv2 (cv_hide cv1 && e_apply i1) then cv_fj Rops PI cell mass (e_pos i1) cv1 else 0)
    - (if cv_subtract cv2 then applied_force Rops cv1 (e_apply i1) (e_fb i1) (cv_fj Rops PI cell mass (e_pos i1) cv1) else 0).
Proof. exact thm_timing_parameter_change. Qed.
Print Assumptions C07_timing_parameter_change.

(* same-step convention: the report of step t is about step t alone (no applied force is subtracted) *)
Theorem C07_timing_same_step : forall (cell : option RV) (mass : nat -> R) (cv : colvar) (inc : bool) (i : einput),
  cv_samestep cv = true -> forall (pre : list einput) (s : estate),
  last_ft (snd (eng_run Rops PI cell mass cv inc s (pre ++ [i]))) =
    cv_proj Rops PI cell mass (e_pos i) cv (e_force i) + (if cv_hide cv then 0 else cv_fj Rops PI cell mass (e_pos i) cv).
Proof. exact thm_timing_same_step. Qed.
Print Assumptions C07_timing_same_step.

(* lagged convention, first step of a run: nothing has been measured *)
Theorem C07_timing_first_step : forall (cell : option RV) (mass : nat -> R) (cv : colvar) (inc : bool) (i : einput),
  cv_samestep cv = false -> last_ft (snd (eng_run Rops PI cell mass cv inc (eng_init Rops) [i])) = 0.
Proof. exact thm_timing_first_step. Qed.
Print Assumptions C07_timing_first_step.

(* the Jacobian derivative jd of each component (the documented Jacobian term is kT * jd); angle: pi/180 * cot(theta) *)
Theorem C07_jacobian_closed_forms : forall (cell : option RV) (mass : nat -> R) (pos : RF),
  (forall g1 g2 os, vnorm Rops (dist_v Rops cell mass pos g1 g2) <> 0 ->
     cvc_jd Rops PI cell mass pos (CDistance g1 g2 os) = 2 / cvc_value Rops PI cell mass pos (CDistance g1 g2 os)) /\
  (forall gm gr gr2 ax os, cvc_jd Rops PI cell mass pos (CDistanceZ gm gr gr2 ax os) = 0) /\
  (forall gm gr gr2 ax os, dxy_value Rops cell mass pos gm gr gr2 ax <> 0 ->
     cvc_jd Rops PI cell mass pos (CDistanceXY gm gr gr2 ax os) = 1 / cvc_value Rops PI cell mass pos (CDistanceXY gm gr gr2 ax os)) /\
  (forall g1 g2 g3 g4 os, cvc_jd Rops PI cell mass pos (CDihedral g1 g2 g3 g4 os) = 0) /\
  (forall ids, gyr_value Rops pos ids <> 0 ->
     cvc_jd Rops PI cell mass pos (CGyration ids) = (3 * ofnat Rops (length ids) - 4) / cvc_value Rops PI cell mass pos (CGyration ids)) /\
  (forall ids refs extra, 0 < cvc_value Rops PI cell mass pos (CRmsd ids refs extra None) ->
     cvc_jd Rops PI cell mass pos (CRmsd ids refs extra None) = (3 * ofnat Rops (length ids) - 1) / cvc_value Rops PI cell mass pos (CRmsd ids refs extra None)) /\
  (forall ids refs extra rc, 0 < cvc_value Rops PI cell mass pos (CRmsd ids refs extra (Some rc)) ->
     cvc_jd Rops PI cell mass pos (CRmsd ids refs extra (Some rc)) = (3 * ofnat Rops (length ids) - 4) / cvc_value Rops PI cell mass pos (CRmsd ids refs extra (Some rc))) /\
  (forall ids refs evec c, cvc_jd Rops PI cell mass pos (CEigenvector ids refs evec c) = 0).
Proof. exact thm_jacobian_closed_forms. Qed.
Print Assumptions C07_jacobian_closed_forms.

(* angle: jd = (pi/180) cot(theta) written in the geometry (cos(theta) = r21.r23/(|r21||r23|)), away from collinear groups *)
Theorem C07_jacobian_angle : forall (cell : option RV) (mass : nat -> R) (pos : RF) (g1 g2 g3 : RG) (os : bool),
  ang_cos Rops cell mass pos g1 g2 g3 * ang_cos Rops cell mass pos g1 g2 g3 < 1 ->
  cvc_jd Rops PI cell mass pos (CAngle g1 g2 g3 os) =
    PI / 180 * (ang_cos Rops cell mass pos g1 g2 g3 / sqrt (1 - ang_cos Rops cell mass pos g1 g2 g3 * ang_cos Rops cell mass pos g1 g2 g3)).
Proof. exact thm_jacobian_angle. Qed.
Print Assumptions C07_jacobian_angle.


(* ------------------------------------------------------------------ the Jacobian term is the divergence of the inverse gradient field
   (DivergenceProofs.v, Coquelicot derivatives).  ufield w = w/|w|;  div3 f p s : the field f : R^3 -> R^3 has, at p, partial derivatives
   d f_x/dx, d f_y/dy, d f_z/dz (is_derive) whose sum is s.  For the distance (no periodic cell) the measurement projects the forces on the
   two centres of mass on the fields -u/2 and +u/2 (one site: -u), u the unit vector from centre 1 to centre 2; the sum of their
   divergences with respect to the centre they displace is the component's Jacobian derivative 2/d. *)
Theorem C07_distance_inverse_gradient_field : forall (mass : nat -> R) (pos : RF) (g1 g2 : RG) (F : RF),
  let r1 := gcom Rops mass pos g1 in let r2 := gcom Rops mass pos g2 in
  0 < vnorm2 Rops (vsub Rops r2 r1) ->
  cvc_ft Rops PI None mass pos (CDistance g1 g2 false) F =
    vdot Rops (gforce Rops F g1) (vscale Rops (- (1 / 2)) (ufield (vsub Rops r2 r1))) +
    vdot Rops (gforce Rops F g2) (vscale Rops (1 / 2) (ufield (vsub Rops r2 r1))) /\
  cvc_ft Rops PI None mass pos (CDistance g1 g2 true) F =
    vdot Rops (gforce Rops F g1) (vscale Rops (- 1) (ufield (vsub Rops r2 r1))).
Proof. exact distance_ft_fields. Qed.
Print Assumptions C07_distance_inverse_gradient_field.
Theorem C07_jacobian_is_divergence_distance : forall (mass : nat -> R) (pos : RF) (g1 g2 : RG),
  let r1 := gcom Rops mass pos g1 in let r2 := gcom Rops mass pos g2 in
  0 < vnorm2 Rops (vsub Rops r2 r1) ->
  (exists s1 s2,
     div3 (fun q => vscale Rops (- (1 / 2)) (ufield (vsub Rops r2 q))) r1 s1 /\
     div3 (fun q => vscale Rops (1 / 2) (ufield (vsub Rops q r1))) r2 s2 /\
     s1 + s2 = cvc_jd Rops PI None mass pos (CDistance g1 g2 false)) /\
  (exists s1, div3 (fun q => vscale Rops (- 1) (ufield (vsub Rops r2 q))) r1 s1 /\
     s1 = cvc_jd Rops PI None mass pos (CDistance g1 g2 true)).
Proof. exact distance_jd_divergence. Qed.
Print Assumptions C07_jacobian_is_divergence_distance.
Example C07_ex_distinct_centres : 0 < vnorm2 Rops (vsub Rops (gcom Rops ex_mass ex_pos (G 1)) (gcom Rops ex_mass ex_pos (G 0))).
Proof. exact ex_distinct_centres. Qed.

(* ------------------------------------------------------------------ the premises are satisfiable.
   System: unit masses; atoms 0..3 at (1,0,0) (0,0,0) (0,1,0) (0,1,1); G a = the group made of atom a. *)
Example C07_ex_groups : gok ex_mass (G 0) /\ gok ex_mass (G 1) /\ disj (G 0) (G 1) /\ vdot Rops ((0, 0, 1) : RV) (0, 0, 1) = 1.
Proof. exact (conj (ex_gok 0) (conj (ex_gok 1) (conj (ex_disj 0 1 (n_Sn 0)) ex_axis))). Qed.
Example C07_ex_distanceXY : dxy_value Rops None ex_mass ex_pos (G 0) (G 1) None (0, 0, 1) <> 0.
Proof. exact ex_dxy. Qed.
Example C07_ex_angle :
  0 < vnorm2 Rops (ang_r21 Rops None ex_mass ex_pos (G 0) (G 1)) /\ 0 < vnorm2 Rops (ang_r23 Rops None ex_mass ex_pos (G 1) (G 2)) /\
  ang_cos Rops None ex_mass ex_pos (G 0) (G 1) (G 2) * ang_cos Rops None ex_mass ex_pos (G 0) (G 1) (G 2) < 1.
Proof. exact ex_angle. Qed.
Example C07_ex_dihedral :
  0 < vnorm2 Rops (vcross Rops (dih_r12 Rops None ex_mass ex_pos (G 0) (G 1)) (dih_r12 Rops None ex_mass ex_pos (G 1) (G 2))) /\
  0 < vnorm2 Rops (vcross Rops (dih_r12 Rops None ex_mass ex_pos (G 1) (G 2)) (dih_r12 Rops None ex_mass ex_pos (G 2) (G 3))).
Proof. exact ex_dihedral. Qed.
Example C07_ex_gyration : NoDup [0%nat; 1%nat] /\ gyr_value Rops ex_pos [0%nat; 1%nat] <> 0.
Proof. exact ex_gyration. Qed.
Example C07_ex_rmsd :
  NoDup [0%nat; 1%nat] /\ length ex_refs = length [0%nat; 1%nat] /\ rmsd_value Rops ex_pos [0%nat; 1%nat] ex_refs None <> 0.
Proof. exact ((fun H => conj (proj1 H) (conj (proj1 (proj2 H)) (proj1 (proj2 (proj2 H))))) (ex_rmsd None (or_introl eq_refl))). Qed.
Example C07_ex_rmsd_centered :
  let g := rmsd_grads Rops ex_pos [0%nat; 1%nat] (rmsd_best Rops ex_pos [0%nat; 1%nat] ex_refs [] (Some (0, 0, 0))) (Some (0, 0, 0)) in
  norm2_sum Rops (vadd_list Rops g (fit_grads Rops (length [0%nat; 1%nat]) (Some (0, 0, 0)) g)) <> 0.
Proof. exact ex_rmsd_centered. Qed.
Example C07_ex_eigenvector :
  NoDup [0%nat; 1%nat] /\ length ex_evec = length [0%nat; 1%nat] /\ norm2_sum Rops (eig_vec Rops ex_evec) <> 0.
Proof. exact ex_eigenvector. Qed.
Example C07_ex_rotated :
  qnorm2 Rops ex_q = 1 /\
  rmsdrot_value Rops ex_pos [0%nat; 1%nat] ex_refs (rotmat Rops ex_q) ex_refs <> 0.
Proof. exact ex_rotated. Qed.
(* a variable distance(0,1) - distance(2,3): inverse-correct at every geometry, coefficients +-1 *)
Example C07_ex_variable : forall pos h sb sm kT,
  Forall (fun p => forall fc, cvc_ft Rops PI None ex_mass pos (fst p) (cvc_apply Rops PI None ex_mass pos (fst p) fc) = fc) (cv_comps (ex_cv h sb sm kT)) /\
  ForallOrdPairs (fun p q => forall a, In a (cvc_atoms (fst p)) -> ~ In a (cvc_atoms (fst q))) (cv_comps (ex_cv h sb sm kT)) /\
  cv_sqnorm Rops (ex_cv h sb sm kT) <> 0.
Proof. exact ex_split_ok. Qed.
Example C07_ex_pm1 : forall h sb sm kT,
  cv_comps (ex_cv h sb sm kT) <> [] /\ Forall (fun p => snd p = 1 \/ snd p = -1) (cv_comps (ex_cv h sb sm kT)).
Proof. exact ex_cv_pm1. Qed.
(* the history theorems with all premises discharged on that variable *)
Example C07_ex_lagged_jacobian : forall pre s pos fb1 i2 kT,
  last_ft (snd (eng_run Rops PI None ex_mass (ex_cv false false false kT) true s (pre ++ [mkEinput pos (fzero Rops) fb1 true; i2])))
  = fb1 + cv_fj Rops PI None ex_mass pos (ex_cv false false false kT).
Proof. exact ex_lagged_jacobian. Qed.
Example C07_ex_lagged_hidden : forall pre s pos fb1 i2 kT,
  last_ft (snd (eng_run Rops PI None ex_mass (ex_cv true false false kT) true s (pre ++ [mkEinput pos (fzero Rops) fb1 true; i2]))) = fb1.
Proof. exact ex_lagged_hidden. Qed.
Example C07_ex_lagged_T0 : forall pre s pos fb1 i2 h,
  last_ft (snd (eng_run Rops PI None ex_mass (ex_cv h false false 0) true s (pre ++ [mkEinput pos (fzero Rops) fb1 true; i2]))) = fb1.
Proof. exact ex_lagged_T0. Qed.
Example C07_ex_same_step : forall inc pre s pos fb f h sb kT,
  last_ft (snd (eng_run Rops PI None ex_mass (ex_cv h sb true kT) inc s
                  (pre ++ [mkEinput pos (cv_apply Rops PI None ex_mass pos (ex_cv h sb true kT) f) fb true])))
  = f + (if h then 0 else cv_fj Rops PI None ex_mass pos (ex_cv h sb true kT)).
Proof. exact ex_same_step. Qed.
Example C07_ex_subtract : forall pre s pos F fb1 i2 h kT,
  last_ft (snd (eng_run Rops PI None ex_mass (ex_cv h true false kT) true s (pre ++ [mkEinput pos F fb1 true; i2])))
  = cv_proj Rops PI None ex_mass pos (ex_cv h true false kT) F + (if h then 0 else cv_fj Rops PI None ex_mass pos (ex_cv h true false kT)).
Proof. exact ex_subtract. Qed.
