(* placeholder while the tie is being built *)
From CV Require Import Base.Num C07.TotalForceModel.
Theorem C07_placeholder : True.
Proof. exact I. Qed.
Print Assumptions C07_placeholder.
