From Coq Require Import ZArith List Bool Arith Reals Lra Lia Psatz.
From Coquelicot Require Import Coquelicot.
From CV Require Import Base.Num Base.RNum C07.TotalForceModel C07.TotalForceProofs.
Import ListNotations.
Local Open Scope R_scope.

(* Jacobian derivative = divergence of the inverse gradient field (Coquelicot derivatives).
   the unit-vector field w |-> w/|w| and the divergence of a field R^3 -> R^3 *)
Definition ufield (w : RV) : RV := let '(x, y, z) := w in let n := sqrt (x * x + y * y + z * z) in (x / n, y / n, z / n).
Definition div3 (f : RV -> RV) (p : RV) (s : R) : Prop :=
  let '(x, y, z) := p in
  exists a b c : R,
    is_derive (fun t => fst (fst (f (t, y, z)))) x a /\
    is_derive (fun t => snd (fst (f (x, t, z)))) y b /\
    is_derive (fun t => snd (f (x, y, t))) z c /\ s = a + b + c.

Lemma vunit_ufield (w : RV) : 0 < vnorm2 Rops w -> vunit Rops w = ufield w.
Proof.
  intros H. rewrite vunit_pos by exact H. destruct w as [[x y] z]. unfold ufield, vnorm, vnorm2, vdot, vscale. rs.
  assert (0 < sqrt (x * x + y * y + z * z)) by (apply sqrt_lt_R0; unfold vnorm2, vdot in H; rs_in H; exact H).
  f_equal; [f_equal|]; field; lra.
Qed.

(* divergence, with respect to the end point p, of s * unit(p - o) and, with respect to the origin p, of s * unit(e - p) *)
Lemma div_unit_end (o p : RV) s : 0 < vnorm2 Rops (vsub Rops p o) ->
  div3 (fun q => vscale Rops s (ufield (vsub Rops q o))) p (s * (2 / vnorm Rops (vsub Rops p o))).
Proof.
  destruct o as [[ox oy] oz]. destruct p as [[x y] z]. unfold div3, vnorm, vnorm2, vdot, vsub, vscale, ufield. rs. intros H.
  set (n2 := (x - ox) * (x - ox) + (y - oy) * (y - oy) + (z - oz) * (z - oz)) in *.
  assert (Hn : 0 < sqrt n2) by (apply sqrt_lt_R0; exact H).
  assert (Hs : sqrt n2 * sqrt n2 = n2) by (apply sqrt_sqrt; lra).
  exists (s * (1 / sqrt n2 - (x - ox) * (x - ox) / (n2 * sqrt n2))),
         (s * (1 / sqrt n2 - (y - oy) * (y - oy) / (n2 * sqrt n2))),
         (s * (1 / sqrt n2 - (z - oz) * (z - oz) / (n2 * sqrt n2))).
  set (r := sqrt n2) in *.
  split; [|split; [|split]].
  - cbv beta iota zeta delta [fst snd]. auto_derive.
    + repeat match goal with |- context [?a + - ?b] => replace (a + - b) with (a - b) by ring end. fold n2. fold r. split; [exact H | split; [lra | exact I]].
    + repeat match goal with |- context [?a + - ?b] => replace (a + - b) with (a - b) by ring end. fold n2. fold r.
      clearbody r. rewrite <- Hs. field. lra.
  - cbv beta iota zeta delta [fst snd]. auto_derive.
    + repeat match goal with |- context [?a + - ?b] => replace (a + - b) with (a - b) by ring end. fold n2. fold r. split; [exact H | split; [lra | exact I]].
    + repeat match goal with |- context [?a + - ?b] => replace (a + - b) with (a - b) by ring end. fold n2. fold r.
      clearbody r. rewrite <- Hs. field. lra.
  - cbv beta iota zeta delta [fst snd]. auto_derive.
    + repeat match goal with |- context [?a + - ?b] => replace (a + - b) with (a - b) by ring end. fold n2. fold r. split; [exact H | split; [lra | exact I]].
    + repeat match goal with |- context [?a + - ?b] => replace (a + - b) with (a - b) by ring end. fold n2. fold r.
      clearbody r. rewrite <- Hs. field. lra.
  - apply Rminus_diag_uniq.
    transitivity (s / (n2 * r) * (((x - ox) * (x - ox) + (y - oy) * (y - oy) + (z - oz) * (z - oz)) - n2)); [field; lra | unfold n2; ring].
Qed.

Lemma div3_ext (f g : RV -> RV) p s : (forall q, f q = g q) -> div3 f p s -> div3 g p s.
Proof.
  intros E. destruct p as [[x y] z]. unfold div3. intros (a & b & c & Ha & Hb & Hc & Hs).
  exists a, b, c. split; [|split; [|split; [|exact Hs]]].
  - apply (is_derive_ext (fun t => fst (fst (f (t, y, z))))); [intros t; rewrite E; reflexivity | exact Ha].
  - apply (is_derive_ext (fun t => snd (fst (f (x, t, z))))); [intros t; rewrite E; reflexivity | exact Hb].
  - apply (is_derive_ext (fun t => snd (f (x, y, t)))); [intros t; rewrite E; reflexivity | exact Hc].
Qed.
Lemma ufield_neg (a b : RV) : ufield (vsub Rops a b) = vscale Rops (-1) (ufield (vsub Rops b a)).
Proof.
  destruct a as [[ax ay] az]. destruct b as [[bx by_] bz]. unfold ufield, vsub, vscale. rs.
  replace ((bx - ax) * (bx - ax) + (by_ - ay) * (by_ - ay) + (bz - az) * (bz - az))
    with ((ax - bx) * (ax - bx) + (ay - by_) * (ay - by_) + (az - bz) * (az - bz)) by ring.
  unfold Rdiv. f_equal; [f_equal|]; ring.
Qed.
Lemma vnorm_vsub_sym (a b : RV) : vnorm Rops (vsub Rops a b) = vnorm Rops (vsub Rops b a).
Proof. destruct a as [[ax ay] az]. destruct b as [[bx by_] bz]. unfold vnorm, vnorm2, vdot, vsub. rs. f_equal. ring. Qed.
Lemma vnorm2_vsub_sym (a b : RV) : vnorm2 Rops (vsub Rops a b) = vnorm2 Rops (vsub Rops b a).
Proof. destruct a as [[ax ay] az]. destruct b as [[bx by_] bz]. unfold vnorm2, vdot, vsub. rs. ring. Qed.
Lemma div_unit_origin (e p : RV) s : 0 < vnorm2 Rops (vsub Rops e p) ->
  div3 (fun q => vscale Rops s (ufield (vsub Rops e q))) p (- s * (2 / vnorm Rops (vsub Rops e p))).
Proof.
  intros H. apply (div3_ext (fun q => vscale Rops (- s) (ufield (vsub Rops q e)))).
  - intros q. rewrite (ufield_neg e q), vscale_vscale. f_equal. ring.
  - rewrite (vnorm_vsub_sym e p). apply div_unit_end. rewrite vnorm2_vsub_sym. exact H.
Qed.

(* distance: the inverse gradients that calc_force_invgrads projects on, as fields of the two centres of mass, and their divergence *)
Lemma distance_ft_fields mass pos g1 g2 (F : RF) :
  let r1 := gcom Rops mass pos g1 in let r2 := gcom Rops mass pos g2 in
  0 < vnorm2 Rops (vsub Rops r2 r1) ->
  cvc_ft Rops PI None mass pos (CDistance g1 g2 false) F =
    vdot Rops (gforce Rops F g1) (vscale Rops (- (1 / 2)) (ufield (vsub Rops r2 r1))) +
    vdot Rops (gforce Rops F g2) (vscale Rops (1 / 2) (ufield (vsub Rops r2 r1))) /\
  cvc_ft Rops PI None mass pos (CDistance g1 g2 true) F =
    vdot Rops (gforce Rops F g1) (vscale Rops (- 1) (ufield (vsub Rops r2 r1))).
Proof.
  intros r1 r2 H. cbn [cvc_ft]. unfold dist_v, pdist. fold r1 r2. rewrite (vunit_ufield _ H).
  set (u := ufield (vsub Rops r2 r1)). set (a := gforce Rops F g1). set (b := gforce Rops F g2).
  destruct u as [[ux uy] uz]. destruct a as [[ax ay] az]. destruct b as [[bx by_] bz].
  unfold vdot, vsub, vscale. rs. split; field.
Qed.
Lemma distance_jd_divergence mass pos g1 g2 :
  let r1 := gcom Rops mass pos g1 in let r2 := gcom Rops mass pos g2 in
  0 < vnorm2 Rops (vsub Rops r2 r1) ->
  (exists s1 s2,
     div3 (fun q => vscale Rops (- (1 / 2)) (ufield (vsub Rops r2 q))) r1 s1 /\
     div3 (fun q => vscale Rops (1 / 2) (ufield (vsub Rops q r1))) r2 s2 /\
     s1 + s2 = cvc_jd Rops PI None mass pos (CDistance g1 g2 false)) /\
  (exists s1, div3 (fun q => vscale Rops (- 1) (ufield (vsub Rops r2 q))) r1 s1 /\
     s1 = cvc_jd Rops PI None mass pos (CDistance g1 g2 true)).
Proof.
  intros r1 r2 H.
  assert (Hd : 0 < vnorm Rops (vsub Rops r2 r1)) by (apply vnorm_pos; exact H).
  assert (Hjd : forall os, cvc_jd Rops PI None mass pos (CDistance g1 g2 os) = 2 / vnorm Rops (vsub Rops r2 r1)).
  { intros os. cbn [cvc_jd]. unfold inv_or_zero, dist_v, pdist. fold r1 r2. rs.
    destruct (Reqb' (vnorm Rops (vsub Rops r2 r1)) 0) eqn:E; [apply Reqb_true in E; lra | reflexivity]. }
  split.
  - exists (- - (1 / 2) * (2 / vnorm Rops (vsub Rops r2 r1))), (1 / 2 * (2 / vnorm Rops (vsub Rops r2 r1))).
    split; [apply div_unit_origin; exact H | split; [apply div_unit_end; exact H | rewrite Hjd; field; lra]].
  - exists (- - 1 * (2 / vnorm Rops (vsub Rops r2 r1))).
    split; [apply div_unit_origin; exact H | rewrite Hjd; field; lra].
Qed.

Lemma ex_distinct_centres : 0 < vnorm2 Rops (vsub Rops (gcom Rops ex_mass ex_pos (G 1)) (gcom Rops ex_mass ex_pos (G 0))).
Proof. rewrite !gcom_single. cbn [ex_pos]. unfold vnorm2, vdot, vsub. rs. lra. Qed.
