(* The keyword table recorded from the real binary (Gen/GenC09Keywords.v): every keyword that the init() of a real
   object looks up satisfies the premises of the C09 theorems. *)
From Coq Require Import ZArith List Bool Arith Lia.
From CV Require Import C09.ParseModel C09.ParseProofs C09.LookupProofs C09.FlatProofs Gen.GenC09Keywords.
Import ListNotations.
Local Open Scope Z_scope.

Definition good_keyb (k : list Z) : bool :=
  negb (is_nil k) && forallb (fun c => negb (memb c delims_left)) (to_lower k).

Lemma good_keyb_sound : forall k, good_keyb k = true -> good_key k.
Proof.
  intros k H. unfold good_keyb in H. apply andb_true_iff in H. destruct H as [Hn Hf]. split.
  - intros E. subst k. discriminate.
  - intros c Hc. rewrite forallb_forall in Hf. apply Hf in Hc. apply negb_true_iff in Hc. exact Hc.
Qed.

Fixpoint nodupb (l : list (list Z)) : bool :=
  match l with [] => true | x :: t => negb (mem_str x t) && nodupb t end.

(* every recorded keyword is a good key, is stored lower-cased, and no keyword is recorded twice for a kind *)
Definition table_okb (t : list (list Z * list (list Z))) : bool :=
  forallb (fun kk => forallb good_keyb (snd kk) && forallb (fun k => list_eqb (to_lower k) k) (snd kk) && nodupb (snd kk)) t.

Lemma table_ok_sound : forall t, table_okb t = true ->
  forall kind ks, In (kind, ks) t -> (forall k, In k ks -> good_key k /\ to_lower k = k) /\
                                      schema_ok (map (fun k => (k, KString)) ks).
Proof.
  intros t H kind ks Hi. unfold table_okb in H. rewrite forallb_forall in H. specialize (H (kind, ks) Hi).
  cbn [snd] in H. apply andb_true_iff in H. destruct H as [H _]. apply andb_true_iff in H. destruct H as [Hg Hl].
  rewrite forallb_forall in Hg, Hl.
  assert (G : forall k, In k ks -> good_key k /\ to_lower k = k).
  { intros k Hk. split; [apply good_keyb_sound; apply Hg; exact Hk|apply list_eqb_eq; apply Hl; exact Hk]. }
  split; [exact G|].
  intros kk Hkk. apply in_map_iff in Hkk. destruct Hkk as [k [E Hk]]. subst kk. cbn [fst]. apply G. exact Hk.
Qed.

Lemma real_keywords_ok : table_okb real_keywords = true.
Proof. vm_compute. reflexivity. Qed.

(* the real check_keywords of a block accepts a remaining line iff its first word, lower-cased, is one of the keywords
   its init() looked up (and the rest of the line holds only braces and such keywords): instance of line_ok_spec and
   starts_with_keyword_iff for the recorded table *)
Lemma real_block_line : forall kind ks l, In (kind, ks) real_keywords ->
  (line_ok ks l = true <-> line_clean ks l) /\
  (starts_with_keyword ks l <-> In (to_lower (first_token (strip_cr l))) ks).
Proof. intros kind ks l _. split; [apply line_ok_spec|apply starts_with_keyword_iff]. Qed.
