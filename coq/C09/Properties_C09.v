(* C09: configuration parsing is total, strict and independent of layout  (claimed: partial).
   Statements only; models in ParseModel.v, lemmas in ParseProofs.v / NumProofs.v / LookupProofs.v / FlatProofs.v.
   Byte strings are lists of Z; every theorem quantifies over ALL strings (and all schemas / keywords where they occur).
   What is NOT proved is listed in props/C09/meta.json (crash- and hang-freedom of the C++ is exploration only). *)
From Coq Require Import ZArith List Bool Arith Lia.
From CV Require Import C09.ParseModel C09.ParseProofs C09.NumProofs C09.LookupProofs C09.FlatProofs C09.ValueProofs C09.OrigProofs C09.NestedProofs C09.SeqProofs C09.ComposedProofs C09.GenProofs Gen.GenC09Keywords.
Import ListNotations.
Local Open Scope Z_scope.

(* ---------------------------------------------------------------- totality *)

(* For every byte string the model parser returns accept or reject: no loop of key_lookup, of the repeated lookup,
   of the value extraction or of the flat client exhausts the fuel the model gives it (fuel = length + 1), and
   there is no third outcome.  (The pinned strip_values could throw std::out_of_range: C09_pinned_strip_values_refuted;
   after the repair it is a total function.) *)
Theorem C09_model_total : forall strict schema raw, schema_ok schema ->
  ((exists vs, parse_config strict schema raw = PAccept vs) \/ parse_config strict schema raw = PReject) /\
  (forall conf, (exists vs, parse_flat strict schema conf = PAccept vs) \/ parse_flat strict schema conf = PReject) /\
  (forall conf key sp, key <> [] -> key_lookup (fuel_of conf) conf key sp <> KL_outoffuel).
Proof. exact model_total. Qed.
Print Assumptions C09_model_total.

(* the pinned strip_values (begin and end positions sorted separately, then paired) throws for nested value ranges
   with different ends: "k {\n} m 12345x { 12345 } {\n}\n" with the ranges of k's block and of m's value *)
Theorem C09_pinned_strip_values_refuted :
  exists conf rs, (forall b e, In (Reg b e) rs -> (b < e <= length conf)%nat) /\ strip_values_pinned conf rs = None.
Proof. exact strip_values_pinned_refuted. Qed.
Print Assumptions C09_pinned_strip_values_refuted.

(* the fuel of the value loops is sufficient: any larger fuel gives the same list of values *)
Theorem C09_value_loop_fuel_suffices : forall f1 f2 l, (length l < f1)%nat -> (length l < f2)%nat ->
  forall dl, extract_all extract_real dl f1 l = extract_all extract_real dl f2 l /\
  extract_all extract_int dl f1 l = extract_all extract_int dl f2 l /\
  extract_all extract_word dl f1 l = extract_all extract_word dl f2 l.
Proof. exact value_loop_fuel_suffices. Qed.
Print Assumptions C09_value_loop_fuel_suffices.

(* ---------------------------------------------------------------- braces *)

(* check_braces (after the repair) accepts exactly the properly nested strings: as many '{' as '}' and no prefix
   with more '}' than '{' (counter specification), from any start position *)
Theorem C09_check_braces_nesting : forall conf start,
  (check_braces conf start = true <-> well_nested (skipn start conf)) /\
  (check_braces conf O = true <-> well_nested conf).
Proof. exact check_braces_nesting. Qed.
Print Assumptions C09_check_braces_nesting.

(* the pinned test only compared the counts ("}{" passed); through the module `smp }` followed by an unclosed
   `colvar {` block was accepted and the block silently ignored *)
Theorem C09_pinned_check_braces_refuted : exists s, check_braces_pinned s O = true /\ ~ well_nested s.
Proof. exact check_braces_nesting_refuted. Qed.
Print Assumptions C09_pinned_check_braces_refuted.

(* a configuration whose braces are not properly nested (after comments are removed) is refused, whatever else it contains *)
Theorem C09_unbalanced_rejected : forall strict schema raw,
  ~ well_nested (strip_comments raw) -> parse_config strict schema raw = PReject.
Proof. exact parse_config_unbalanced_rejected. Qed.
Print Assumptions C09_unbalanced_rejected.

(* ---------------------------------------------------------------- layout: comments, line ends, blank lines *)

(* the rewrites of the raw text that read_config_string tolerates, each for all surrounding text:
   CRLF for LF; a comment appended to a line; a blank or comment-only line inserted; the final newline;
   and no '#' survives, so nothing inside a comment can be looked up.  (Side condition of the first two: the line
   does not itself end in CR.) *)
Theorem C09_comments_and_line_ends :
  (forall p l q, ends_lf p -> no_lf l -> not_ending_cr l ->
     strip_comments (p ++ l ++ CR :: LF :: q) = strip_comments (p ++ l ++ LF :: q)) /\
  (forall p l c q, ends_lf p -> no_lf l -> no_lf c -> not_ending_cr l ->
     strip_comments (p ++ l ++ HASH :: c ++ LF :: q) = strip_comments (p ++ l ++ LF :: q)) /\
  (forall p w q, ends_lf p -> no_lf w -> all_ws (clean_line w) ->
     strip_comments (p ++ w ++ LF :: q) = strip_comments (p ++ q)) /\
  (forall p l, ends_lf p -> no_lf l -> l <> [] -> strip_comments (p ++ l) = strip_comments (p ++ l ++ [LF])) /\
  (forall s, ~ In HASH (strip_comments s)).
Proof. exact comments_and_line_ends. Qed.
Print Assumptions C09_comments_and_line_ends.

(* whole configurations: CRLF for LF, a comment appended to a line, a blank or comment-only line inserted, the
   final newline -- each leaves the WHOLE result (accept/reject and every value, flat and nested client) unchanged *)
Theorem C09_whole_configuration_raw_layout :
  (forall p l q, ends_lf p -> no_lf l -> not_ending_cr l ->
     same_result (p ++ l ++ CR :: LF :: q) (p ++ l ++ LF :: q)) /\
  (forall p l c q, ends_lf p -> no_lf l -> no_lf c -> not_ending_cr l ->
     same_result (p ++ l ++ HASH :: c ++ LF :: q) (p ++ l ++ LF :: q)) /\
  (forall p w q, ends_lf p -> no_lf w -> all_ws (clean_line w) ->
     same_result (p ++ w ++ LF :: q) (p ++ q)) /\
  (forall p l, ends_lf p -> no_lf l -> l <> [] -> same_result (p ++ l) (p ++ l ++ [LF])).
Proof. exact whole_configuration_raw_layout. Qed.
Print Assumptions C09_whole_configuration_raw_layout.

(* ---------------------------------------------------------------- key_lookup *)

(* key_lookup says "not found" exactly when no occurrence of the keyword (compared case-insensitively) at or after
   save_pos is (a) preceded on its line by left delimiters only, (b) followed by a right delimiter or by the end of
   the string and (c) followed by properly nested braces; otherwise it works on the FIRST such occurrence.  kw_occurrence
   is the declarative reading of the three tests.  (The pinned code did not test the last character of the string
   and never matched a string equal to the keyword -- found while proving (b), repaired by a fix: commit.) *)
Theorem C09_key_lookup_found_iff : forall conf key sp, good_key key ->
  (key_lookup (fuel_of conf) conf key sp = KL_notfound <-> forall j, (sp <= j)%nat -> ~ kw_occurrence conf key j) /\
  (forall pos d sp' r, key_lookup (fuel_of conf) conf key sp = KL_found pos d sp' r ->
     (sp <= pos)%nat /\ kw_occurrence conf key pos /\ forall j, (sp <= j < pos)%nat -> ~ kw_occurrence conf key j).
Proof. exact key_lookup_found_iff_decl. Qed.
Print Assumptions C09_key_lookup_found_iff.

(* "properly nested braces after the keyword" is "block depth 0 at the keyword" in a configuration that passed check_braces *)
Theorem C09_depth_zero : forall conf pos, well_nested conf ->
  (well_nested (skipn pos conf) <-> balanced (firstn pos conf)).
Proof. exact suffix_nested_iff_prefix. Qed.
Print Assumptions C09_depth_zero.

(* the right-hand test of the pinned code violated (b): in "colvarx" the keyword colvar was right-isolated, and in
   the string "colvar" it was not *)
Theorem C09_pinned_right_isolation_refuted :
  (exists conf klen, isolated_right_pinned conf O klen = true /\ ~ right_clear conf O klen) /\
  (exists conf klen, isolated_right_pinned conf O klen = false /\ right_clear conf O klen).
Proof. exact pinned_right_isolation_refuted. Qed.
Print Assumptions C09_pinned_right_isolation_refuted.

(* letter case: two configurations that differ only in letter case, looked up with keywords that differ only in
   letter case, give the same keyword position, the same resume position, the same registered value range and values
   equal up to letter case *)
Theorem C09_case_insensitive_lookup : forall fuel c1 c2 k1 k2 sp,
  to_lower c1 = to_lower c2 -> to_lower k1 = to_lower k2 ->
  kl_lower (key_lookup fuel c1 k1 sp) = kl_lower (key_lookup fuel c2 k2 sp).
Proof. exact key_lookup_case_insensitive. Qed.
Print Assumptions C09_case_insensitive_lookup.

(* amount of blanks: for a keyword found at pos whose line has no '{' after it, the value is the rest of the line
   (after the one character that follows the keyword) with its leading and trailing blanks removed, and the resume
   position is the end of that line -- for every indentation, every run of blanks before and after the value.
   trimmed_to l core: l = blanks ++ core ++ blanks with core empty or beginning and ending with a non-blank;
   the core of a text is unique, so the value is a function of the non-blank part alone. *)
Theorem C09_single_line_value_layout :
  (forall fuel conf key pos,
     key <> [] -> key_chars_ok key -> occurs (to_lower conf) key pos -> left_clear conf pos ->
     let le := match find_if is_lf conf pos with None => length conf | Some nl => nl end in
     let rest := substr conf (pos + length key + 1) (le - (pos + length key + 1)) in
     ~ In LBRACE rest ->
     exists data reg, extract_value fuel conf key pos = KL_found pos data le reg /\ trimmed_to rest data) /\
  (forall l c1 c2, trimmed_to l c1 -> trimmed_to l c2 -> c1 = c2).
Proof. exact single_line_value_layout_thm. Qed.
Print Assumptions C09_single_line_value_layout.

(* split_string terminates within the fuel the model gives it, for every text and every delimiter *)
Theorem C09_split_string_total : forall data delim, split_string data delim <> None.
Proof. exact split_string_total. Qed.
Print Assumptions C09_split_string_total.

(* ---------------------------------------------------------------- unknown keywords *)

(* if a configuration is accepted, every non-blank line of what remains after the looked-up values have been erased
   begins with a keyword of the schema *)
Theorem C09_unknown_keyword_rejected : forall strict schema conf vs, schema_ok schema ->
  parse_flat strict schema conf = PAccept vs ->
  forall l, In l (split_lines (strip_values conf (registry_of strict schema conf))) ->
            blank_line l \/ starts_with_keyword (schema_keywords schema) l.
Proof. exact unknown_keyword_rejected. Qed.
Print Assumptions C09_unknown_keyword_rejected.

(* NO UNKNOWN TEXT (after the repair of check_keywords): in an accepted configuration every line of what remains after
   the values are erased is blank, or begins with a keyword AND holds, after it, only braces and further keywords -
   flat client and every level of the nested client.  The pinned check looked at the first word only:
   `k { a } junk`, `colvar foo {` and a second `group1 { ... }` block were accepted and silently ignored. *)
Theorem C09_no_unknown_text :
  (forall strict schema conf vs, schema_ok schema -> parse_flat strict schema conf = PAccept vs ->
     forall l, In l (split_lines (strip_values conf (registry_of strict schema conf))) -> line_clean (schema_keywords schema) l) /\
  (forall strict items conf, nparse strict items conf = true ->
     forall l, In l (split_lines (strip_values conf (level_registry strict items conf))) ->
               line_clean (level_keywords strict items conf) l) /\
  (exists allowed l, line_ok_pinned allowed l = true /\ line_ok allowed l = false).
Proof. split; [exact no_unknown_text|split; [exact nparse_no_unknown_text|exact line_ok_pinned_refuted]]. Qed.
Print Assumptions C09_no_unknown_text.

(* "begins with a keyword" in the theorems above and below is equality of the lower-cased WHOLE first word of the line
   with a registered keyword (not a prefix test, not a substring test) *)
Theorem C09_keyword_is_whole_word : forall allowed l,
  starts_with_keyword allowed l <-> In (to_lower (first_token (strip_cr l))) allowed.
Proof. exact starts_with_keyword_iff. Qed.
Print Assumptions C09_keyword_is_whole_word.

(* the same on the ORIGINAL text: if conf = A ++ L ++ B is accepted, where L is a whole line none of whose characters,
   nor the line ends around it, lies in the range of a looked-up value (line_untouched), then L is blank or begins
   with a keyword of the schema.  So a misspelt keyword or a keyword of another context, on a line that no value
   swallows, makes the parser refuse the configuration, for every configuration and every schema. *)
Theorem C09_unknown_keyword_rejected_original : forall strict schema A L B vs, schema_ok schema ->
  parse_flat strict schema (A ++ L ++ B) = PAccept vs ->
  line_untouched (registry_of strict schema (A ++ L ++ B)) A L B ->
  blank_line L \/ starts_with_keyword (schema_keywords schema) L.
Proof. exact unknown_keyword_rejected_original. Qed.
Print Assumptions C09_unknown_keyword_rejected_original.

(* the range registered for a keyword (what strip_values erases) is exactly where the returned value sits in conf *)
Theorem C09_value_range_exact : forall fuel conf key pos p data sp b e,
  extract_value fuel conf key pos = KL_found p data sp (Reg b e) ->
  substr conf b (e - b) = data /\ (e = b + length data)%nat /\ data <> [].
Proof. exact extract_value_reg_exact. Qed.
Print Assumptions C09_value_range_exact.

(* nested blocks (colvar > component > atom group ...): acceptance of a level means (1) its own text, with values
   and sub-blocks erased, has only blank lines and lines beginning with a keyword of THIS level, and (2) every
   sub-block found is non-empty and accepted by the keywords of ITS level -- so, applying the theorem again to each
   sub-block, an unknown keyword is refused at every depth *)
Theorem C09_nested_unknown_keyword_rejected : forall strict items conf, nparse strict items conf = true ->
  (forall l, In l (split_lines (strip_values conf (level_registry strict items conf))) ->
             blank_line l \/ starts_with_keyword (level_keywords strict items conf) l) /\
  (forall key sub d, In (NBlock key sub) items -> In d (ksv_all (key_string_values conf key)) ->
             d <> [] /\ nparse strict sub d = true).
Proof. exact nparse_accept_unfold. Qed.
Print Assumptions C09_nested_unknown_keyword_rejected.

(* the same on the original text of a level, and: the text handed to a sub-block is the piece of the parent's text
   at one of the ranges the parent erases *)
Theorem C09_nested_unknown_keyword_original :
  (forall strict items A L B, nparse strict items (A ++ L ++ B) = true ->
     line_untouched (level_registry strict items (A ++ L ++ B)) A L B ->
     blank_line L \/ starts_with_keyword (map (fun it => to_lower (item_key it)) items) L) /\
  (forall conf key, blocks_are_pieces conf (key_string_values conf key)).
Proof. split; [exact nparse_unknown_keyword_original|exact blocks_are_pieces_of_parent]. Qed.
Print Assumptions C09_nested_unknown_keyword_original.

(* ---------------------------------------------------------------- sequences of configurations *)

(* one module-level parser object, any SEQUENCE of configurations (accepted, or rejected at any stage and depth):
   the registry (allowed keywords, value ranges) is empty at the start of every read_config_string -- it is cleared
   by parse->clear() on every error path and by clear_keyword_registry() on success, and the brace error is raised
   before anything is looked up -- and therefore the verdict on the k-th configuration is the verdict of a fresh
   parser on that configuration alone *)
Theorem C09_verdict_independent_of_history : forall strict items raws,
  (forall raw, fst (mstep strict items mempty raw) = mempty) /\
  mrun strict items mempty raws = (mempty, map (nparse_config strict items) raws).
Proof. intros strict items raws. split; [exact (mstep_keeps_empty strict items)|exact (mrun_independent strict items raws)]. Qed.
Print Assumptions C09_verdict_independent_of_history.

(* key_lookup depends only on its arguments: on one parser object, after ANY earlier lookups in ANY earlier texts (of the
   same length or not), a lookup returns exactly what a fresh parser returns for (configuration, keyword, start) *)
Theorem C09_key_lookup_depends_only_on_its_arguments :
  (forall calls st, snd (lookup_seq st calls) =
     map (fun c => key_lookup (fuel_of (fst (fst c))) (fst (fst c)) (snd (fst c)) (snd c)) calls) /\
  (forall st pre conf key sp,
     last (snd (lookup_seq st (pre ++ [(conf, key, sp)]))) KL_notfound = key_lookup (fuel_of conf) conf key sp).
Proof. split; [exact lookup_seq_pure|exact lookup_after_history]. Qed.
Print Assumptions C09_key_lookup_depends_only_on_its_arguments.

(* the clearing is what makes it true: the same parser object used for two texts with no clear in between accepts a
   misspelt keyword that sits where the first (rejected) text had a value *)
Theorem C09_stale_registry_refuted :
  exists items c1 c2, pseq true items mempty [c1; c2] = [false; true] /\ pseq true items mempty [c2] = [false].
Proof. exact stale_registry_refuted. Qed.
Print Assumptions C09_stale_registry_refuted.

(* ---------------------------------------------------------------- index files *)

(* reading an index file ([ name ] atom numbers ...) terminates for every text; after the repair, acceptance implies
   acceptance with the same groups by the pinned reader, which additionally accepted files whose tail it never read
   ("[ g ] 1 2 x 3" defined g = (1, 2)) *)
Theorem C09_index_file_total_and_strict :
  (forall strict text, parse_index strict text <> IndexOutOfFuel) /\
  (forall fuel l gs gs', index_loop true fuel l gs = IndexOk gs' -> index_loop false fuel l gs = IndexOk gs') /\
  (exists text gs, parse_index false text = IndexOk gs /\ parse_index true text = IndexError).
Proof. split; [exact parse_index_total|split; [exact index_strict_implies_pinned|exact index_pinned_refuted]]. Qed.
Print Assumptions C09_index_file_total_and_strict.

(* ---------------------------------------------------------------- values: strictness *)

(* _get_keyval_scalar_value_<double> (after the repair) accepts exactly the texts that are ONE number literal
   surrounded by white space, and returns the literal's value; nothing else is accepted *)
Theorem C09_scalar_value_strict : forall data d,
  scalar_value extract_real data = SAccept d <->
  exists w1 tok w2, data = w1 ++ tok ++ w2 /\ all_space w1 /\ all_space w2 /\
                    float_lit tok d /\ dec_overflows d = false.
Proof. exact real_scalar_strict. Qed.
Print Assumptions C09_scalar_value_strict.

Theorem C09_int_value_strict : forall data z,
  scalar_value extract_int data = SAccept z <->
  exists w1 tok w2, data = w1 ++ tok ++ w2 /\ all_space w1 /\ all_space w2 /\
                    int_lit tok z /\ -2147483648 <= z <= 2147483647.
Proof. exact int_scalar_strict. Qed.
Print Assumptions C09_int_value_strict.

(* every integer type: long / step_number and size_t (range of the type; for size_t a minus sign is refused after the
   repair - the pinned rule read "-5" as 18446744073709551611) *)
Theorem C09_integer_types_strict :
  (forall lo hi data z, scalar_value (extract_intr lo hi) data = SAccept z <->
     exists w1 tok w2, data = w1 ++ tok ++ w2 /\ all_space w1 /\ all_space w2 /\ int_lit tok z /\ lo <= z <= hi) /\
  (scalar_value_lenient extract_size_pinned [45; 53] = SAccept 18446744073709551611 /\
   scalar_value extract_size [45; 53] = SReject).
Proof. split; [exact intr_scalar_strict|exact size_negative_refuted]. Qed.
Print Assumptions C09_integer_types_strict.

(* boolean values: the value text is accepted iff it is EXACTLY one of the six spellings (the typed extraction consumes the
   whole registered value text); one more byte before or after an accepted spelling - a blank, a junk word, another
   keyword with its value, a brace - makes it a refusal; a rule that only compares the first word accepts "on junk" and
   "off on", which the rule of the parser refuses *)
Theorem C09_bool_value_strict :
  (forall data b, bool_value data = SAccept b <->
     (b = true /\ (data = str_on \/ data = str_yes \/ data = str_true)) \/
     (b = false /\ (data = str_off \/ data = str_no \/ data = str_false))) /\
  (forall data b, bool_value data = SAccept b ->
     forall pre suf, pre ++ suf <> [] -> bool_value (pre ++ data ++ suf) = SReject) /\
  ((bool_value_first_word [111; 110; 32; 106; 117; 110; 107] = SAccept true /\
    bool_value [111; 110; 32; 106; 117; 110; 107] = SReject) /\
   (bool_value_first_word [111; 102; 102; 32; 111; 110] = SAccept false /\
    bool_value [111; 102; 102; 32; 111; 110] = SReject) /\
   bool_value [10; 32; 111; 110; 10] = SReject).
Proof. split; [exact bool_value_strict|split; [exact bool_value_whole_text|exact bool_first_word_refuted]]. Qed.
Print Assumptions C09_bool_value_strict.

(* the rule of the pinned code (one successful extraction before the first failure) violates the statement above:
   "0.5abc", "1 abc", "5.5" for an integer are accepted; this is how the defect was found.  The repaired rule
   accepts a subset of the pinned one, with the same value. *)
Theorem C09_pinned_scalar_rule_refuted :
  (exists data d, scalar_value_lenient extract_real data = SAccept d /\
     ~ (exists w1 tok w2, data = w1 ++ tok ++ w2 /\ all_space w1 /\ all_space w2 /\ float_lit tok d)) /\
  (exists data d, scalar_value_lenient extract_real data = SAccept d /\ scalar_value extract_real data = SReject) /\
  (exists data z, scalar_value_lenient extract_int data = SAccept z /\ scalar_value extract_int data = SReject) /\
  (forall data d, scalar_value extract_real data = SAccept d -> scalar_value_lenient extract_real data = SAccept d).
Proof. exact pinned_scalar_rule_refuted. Qed.
Print Assumptions C09_pinned_scalar_rule_refuted.

(* lists of values (after the repairs): accepted iff the WHOLE text is a sequence of values, each followed by white
   space or by the end of the text (tokens_of), with exactly n of them for a fixed-length list; the pinned rules
   dropped what they could not read ("1 2 x 3" gave (1, 2)), surplus entries ("1 2 3" for one value), and read
   "1.2.3" as the two values 1.2 and .3 *)
Theorem C09_vector_values_strict : forall data vs n,
  (vector_dyn extract_real data = VAccept vs <-> tokens_of extract_real data vs) /\
  (vector_fixed extract_real n data = VAccept vs <-> tokens_of extract_real data vs /\ length vs = n).
Proof. exact vector_values_strict. Qed.
Print Assumptions C09_vector_values_strict.

Theorem C09_pinned_vector_rules_refuted :
  (exists data vs, vector_dyn_lenient extract_real data = VAccept vs /\ vector_dyn extract_real data = VReject) /\
  (exists data vs, vector_fixed_lenient extract_real 1 data = VAccept vs /\ vector_fixed extract_real 1 data = VReject) /\
  (exists data vs, vector_dyn_lenient extract_real data = VAccept vs /\ length vs = 2%nat /\
                   vector_dyn extract_real data = VReject).
Proof. exact pinned_vector_rules_refuted. Qed.
Print Assumptions C09_pinned_vector_rules_refuted.

(* a keyword looked up with parse_required (KReq) that is absent makes the configuration refused:
   "a missing required value is rejected" for the keywords the client marks as required *)
Theorem C09_required_keyword_present : forall strict schema conf vs key k,
  In (key, KReq k) schema -> parse_flat strict schema conf = PAccept vs ->
  ksv_found (key_string_values conf key) = true.
Proof. exact required_keyword_present. Qed.
Print Assumptions C09_required_keyword_present.

(* parse modes on one parser object: a keyword looked up with parse_required and absent from the text is an error
   exactly when no earlier call on that object marked it (value read or default assigned) - always on a fresh
   object; without parse_required the default is assigned iff parse_override is given or the key was not set before *)
Theorem C09_parse_modes :
  (forall st ovr conf key,
     ksv_found (key_string_values conf key) = false -> ksv_data (key_string_values conf key) = [] ->
     ko_err (snd (kv_call st true ovr conf key)) = ksv_err (key_string_values conf key) || negb (kv_set st) /\
     fst (kv_call st true ovr conf key) = st) /\
  (forall v ovr conf key,
     ksv_found (key_string_values conf key) = false -> ksv_data (key_string_values conf key) = [] ->
     ko_err (snd (kv_call {| kv_set := false; kv_val := v |} true ovr conf key)) = true) /\
  (forall st ovr conf key,
     ksv_found (key_string_values conf key) = false -> ksv_data (key_string_values conf key) = [] ->
     ko_val (snd (kv_call st false ovr conf key)) = (if ovr || negb (kv_set st) then KvDefault else kv_val st)).
Proof. split; [exact kv_required_missing|split; [exact kv_required_missing_fresh|exact kv_default_rule]]. Qed.
Print Assumptions C09_parse_modes.

(* 3-vectors "( x , y , z )", quaternions and vector values: accepted iff the text is one parenthesised tuple of n
   numbers (read by extract_tuple: '(' number {',' number} ')' with optional white space) and nothing but white
   space follows; the numbers themselves are literals by C09_scalar_value_strict's scanner *)
Theorem C09_tuple_value_strict : forall n data v,
  scalar_value (extract_tuple n) data = SAccept v <->
  exists rest, skip_space data <> [] /\ extract_tuple n (skip_space data) = ExtOk v rest /\ all_space rest.
Proof. exact tuple_value_strict. Qed.
Print Assumptions C09_tuple_value_strict.

(* lists of 3-vectors and of quaternions (std::vector<cvm::rvector>, std::vector<cvm::quaternion>): accepted iff the
   whole text is a sequence of parenthesised tuples, each followed by white space or the end *)
Theorem C09_tuple_vector_strict : forall n data vs,
  vector_dyn (extract_tuple n) data = VAccept vs <-> tokens_of (extract_tuple n) data vs.
Proof. exact tuple_vector_strict. Qed.
Print Assumptions C09_tuple_vector_strict.

(* ---------------------------------------------------------------- the real blocks (table regenerated on every run) *)

(* Gen/GenC09Keywords.v lists, for every kind of real object (module level, colvar, components, atom group, each bias
   type), the keywords its init() looks up, recorded from the binary built in this run.  Every one of them is a good
   key, stored lower-cased; so the theorems above that assume good_key / schema_ok (key_lookup found-iff, totality,
   unknown keyword, no unknown text) apply to every keyword of every real block; and a remaining line is accepted by
   that block's check_keywords iff its first word, lower-cased, is one of the recorded keywords and the rest of the
   line holds only braces and recorded keywords. *)
Theorem GenC09_real_blocks_keywords : forall kind ks, In (kind, ks) real_keywords ->
  (forall k, In k ks -> good_key k /\ to_lower k = k) /\
  schema_ok (map (fun k => (k, KString)) ks) /\
  (forall l, (line_ok ks l = true <-> line_clean ks l) /\
             (starts_with_keyword ks l <-> In (to_lower (first_token (strip_cr l))) ks)).
Proof.
  intros kind ks Hi. destruct (table_ok_sound real_keywords real_keywords_ok kind ks Hi) as [H1 H2].
  split; [exact H1|split; [exact H2|intros l; exact (real_block_line kind ks l Hi)]].
Qed.
Print Assumptions GenC09_real_blocks_keywords.

(* ---------------------------------------------------------------- examples: the premises are satisfiable *)

Definition str_width := [119; 105; 100; 116; 104].                 (* "width" *)
Definition str_name := [110; 97; 109; 101].                        (* "name" *)

Example C09_example_good_key : good_key str_width /\ good_key [87; 105; 100; 116; 72] /\
  schema_ok [(str_width, KReal); (str_name, KString)].
Proof.
  assert (G : forall k, k <> [] -> forallb (fun c => negb (memb c delims_left)) (to_lower k) = true -> good_key k).
  { intros k Hk H. split; [exact Hk|]. intros c Hc. rewrite forallb_forall in H. apply H in Hc.
    apply negb_true_iff in Hc. exact Hc. }
  split; [apply G; [discriminate|reflexivity]|split; [apply G; [discriminate|reflexivity]|]].
  intros kk [E|[E|[]]]; subst kk; apply G; try discriminate; reflexivity.
Qed.

(* "Width  0.5 \nname x\n": accepted with 0.5 and x;  "width 0.5abc\n": refused;  "widht 0.5\n": refused *)
Example C09_example_parse :
  (exists d, parse_config true [(str_width, KReal); (str_name, KString)]
      [87; 105; 100; 116; 104; 32; 32; 48; 46; 53; 32; 10; 110; 97; 109; 101; 32; 120; 10]
    = PAccept [VReal d; VString [120]] /\ d_digits d = [48; 53] /\ d_exp d = -1) /\
  parse_config true [(str_width, KReal)] [119; 105; 100; 116; 104; 32; 48; 46; 53; 97; 98; 99; 10] = PReject /\
  parse_config true [(str_width, KReal)] [119; 105; 100; 104; 116; 32; 48; 46; 53; 10] = PReject /\
  (exists d, parse_config false [(str_width, KReal)] [119; 105; 100; 116; 104; 32; 48; 46; 53; 97; 98; 99; 10]
             = PAccept [VReal d]).
Proof.
  split; [eexists; vm_compute; repeat split|].
  split; [vm_compute; reflexivity|]. split; [vm_compute; reflexivity|]. eexists. vm_compute. reflexivity.
Qed.

(* a proper prefix ("widt", "w"), an extension ("widths") and a transposition ("witdh") of the keyword width are refused;
   a change of letter case ("WIDTH") is accepted with the same value *)
Example C09_example_misspelt_keywords :
  parse_config true [(str_width, KReal)] [119; 105; 100; 116; 32; 48; 46; 53; 10] = PReject /\
  parse_config true [(str_width, KReal)] [119; 32; 48; 46; 53; 10] = PReject /\
  parse_config true [(str_width, KReal)] [119; 105; 100; 116; 104; 115; 32; 48; 46; 53; 10] = PReject /\
  parse_config true [(str_width, KReal)] [119; 105; 116; 100; 104; 32; 48; 46; 53; 10] = PReject /\
  parse_config true [(str_width, KReal)] [87; 73; 68; 84; 72; 32; 48; 46; 53; 10] =
  parse_config true [(str_width, KReal)] [119; 105; 100; 116; 104; 32; 48; 46; 53; 10].
Proof. repeat split; vm_compute; reflexivity. Qed.

Example C09_example_layout :   (* "a 1\r\nb 2 # c\n\n" and "a 1\nb 2 \n" are the same configuration *)
  strip_comments [97; 32; 49; 13; 10; 98; 32; 50; 32; 35; 32; 99; 10; 10] =
  strip_comments [97; 32; 49; 10; 98; 32; 50; 32; 10].
Proof. vm_compute. reflexivity. Qed.

(* "  Width \t 0.5 \n", "width 0.5\n" and "WIDTH     0.5\t\t\nname x\n" all give the value "0.5" *)
Example C09_example_blanks :
  (exists sp r, key_lookup 40 [32; 32; 87; 105; 100; 116; 104; 32; 9; 32; 48; 46; 53; 32; 10] str_width O = KL_found 2 [48; 46; 53] sp r) /\
  (exists sp r, key_lookup 40 [119; 105; 100; 116; 104; 32; 48; 46; 53; 10] str_width O = KL_found 0 [48; 46; 53] sp r) /\
  (exists sp r, key_lookup 40 [87; 73; 68; 84; 72; 32; 32; 32; 32; 32; 48; 46; 53; 9; 9; 10; 110; 97; 109; 101; 32; 120; 10] str_width O
                = KL_found 0 [48; 46; 53] sp r).
Proof. repeat split; eexists; eexists; vm_compute; reflexivity. Qed.

Example C09_example_tokens : tokens_of extract_int [49; 32; 50] [1; 2].
Proof.
  eapply TokCons; [cbn; discriminate|vm_compute; reflexivity|reflexivity|].
  eapply TokCons; [cbn; discriminate|vm_compute; reflexivity|reflexivity|]. apply TokNil. reflexivity.
Qed.
