(* Lemmas about the repeated lookup (get_key_string_value), the generic flat client and check_keywords. *)
From Coq Require Import ZArith List Bool Arith Lia.
From CV Require Import C09.ParseModel C09.ParseProofs C09.LookupProofs.
Import ListNotations.
Local Open Scope Z_scope.

(* ------------------------------------------------------------------ save_pos moves forward *)

Lemma brace_loop_end : forall conf fuel line le last count line' le',
  (le <= length conf)%nat -> brace_loop fuel conf line le last count = BDone line' le' ->
  (le <= le' <= length conf)%nat.
Proof.
  intros conf. induction fuel as [|f IH]; intros line le last count line' le' Hle H; [discriminate|].
  cbn [brace_loop] in H.
  destruct (scan_line (skipn (S last) line) (S last) count last) as [[hit count'] last'].
  destruct hit; [inversion H; subst; lia|].
  destruct (Nat.leb_spec (length conf) le) as [L|L]; [discriminate|].
  pose proof (find_if_spec is_lf conf (S le)) as Hs.
  destruct (find_if is_lf conf (S le)) as [nl|].
  - destruct Hs as [R _]. apply IH in H; lia.
  - apply IH in H; lia.
Qed.

Lemma line_end_after_key : forall conf key pos,
  occurs (to_lower conf) key pos -> key <> [] -> key_chars_ok key ->
  (pos + length key <= match find_if is_lf conf pos with None => length conf | Some nl => nl end <= length conf)%nat.
Proof.
  intros conf key pos Ho Hk Hc. pose proof (occurs_bound _ _ _ Ho Hk) as Hb. rewrite to_lower_length in Hb.
  pose proof (find_if_spec is_lf conf pos) as Hs.
  destruct (find_if is_lf conf pos) as [nl|]; [|lia].
  destruct Hs as [R [Pn _]]. split; [|lia].
  destruct (Nat.lt_ge_cases nl (pos + length key)) as [L|L]; [exfalso|lia].
  pose proof (occurs_nth _ _ pos (nl - pos)%nat Ho ltac:(lia)) as Hn.
  replace (pos + (nl - pos))%nat with nl in Hn by lia. rewrite nth_to_lower in Hn.
  unfold is_lf in Pn. apply Z.eqb_eq in Pn. rewrite Pn in Hn.
  assert (HI : In LF key) by (change LF with (lower LF); rewrite Hn; apply nth_In; lia).
  apply Hc in HI. discriminate.
Qed.

Lemma extract_value_save_pos : forall fuel conf key pos p d sp r,
  occurs (to_lower conf) key pos -> key <> [] -> key_chars_ok key ->
  extract_value fuel conf key pos = KL_found p d sp r -> (pos + length key <= sp <= length conf)%nat.
Proof.
  intros fuel conf key pos p d sp r Ho Hk Hc H.
  pose proof (line_end_after_key conf key pos Ho Hk Hc) as Hle.
  unfold extract_value in H.
  set (le := match find_if is_lf conf pos with None => length conf | Some nl => nl end) in *.
  destruct (find_if (fun c => negb (is_ws c)) _ _) as [db|]; [|inversion H; subst; lia].
  destruct (find_if (fun c => c =? LBRACE) _ db) as [br|]; [|inversion H; subst; lia].
  destruct (brace_loop fuel conf _ le br 1) as [line' le'| |] eqn:B; [|discriminate|discriminate].
  apply brace_loop_end in B; [|lia]. inversion H. subst. lia.
Qed.

Lemma key_lookup_progress : forall conf key sp pos d sp' r, good_key key ->
  key_lookup (fuel_of conf) conf key sp = KL_found pos d sp' r -> (sp < sp' <= length conf)%nat.
Proof.
  intros conf key sp pos d sp' r Hg H.
  destruct (key_lookup_found_iff conf key sp Hg) as [_ Hf]. destruct (Hf _ _ _ _ H) as [R [[Ho _] _]].
  destruct Hg as [Hk Hc].
  assert (Hk' : to_lower key <> []) by (destruct key; [congruence|discriminate]).
  unfold key_lookup in H.
  destruct (search _ _ _ _ _) as [|p|]; [discriminate| |discriminate].
  pose proof (extract_value_position (fuel_of conf) conf (to_lower key) p) as Hp. rewrite H in Hp. subst p.
  apply (extract_value_save_pos _ _ _ _ _ _ _ _ Ho Hk' Hc) in H.
  assert (length (to_lower key) > 0)%nat by (destruct (to_lower key); [congruence|cbn; lia]). lia.
Qed.

Lemma ksv_loop_total : forall conf key, good_key key ->
  forall fuel sp acc, (length conf - sp < fuel)%nat ->
  ksv_oof (ksv_loop fuel conf key sp acc) = ksv_oof acc.
Proof.
  intros conf key Hg. induction fuel as [|f IH]; intros sp acc Hf; [lia|].
  cbn [ksv_loop].
  pose proof (key_lookup_total conf key sp (proj1 Hg)) as Ht.
  destruct (key_lookup (fuel_of conf) conf key sp) as [|s|pos d sp' r|] eqn:K.
  - reflexivity.
  - reflexivity.
  - apply (key_lookup_progress _ _ _ _ _ _ _ Hg) in K. rewrite IH by lia. reflexivity.
  - congruence.
Qed.

Lemma key_string_values_total : forall conf key, good_key key -> ksv_oof (key_string_values conf key) = false.
Proof.
  intros conf key Hg. unfold key_string_values. rewrite ksv_loop_total; [reflexivity|exact Hg|unfold fuel_of; lia].
Qed.

(* ------------------------------------------------------------------ the flat client *)

Definition schema_ok (schema : list (list Z * kind)) : Prop := forall kk, In kk schema -> good_key (fst kk).

Lemma get_keyval_fields : forall strict conf st key k,
  ps_oof (get_keyval strict conf st (key, k)) = ps_oof st || ksv_oof (key_string_values conf key) /\
  ps_allowed (get_keyval strict conf st (key, k)) = ps_allowed st ++ [to_lower key] /\
  ps_regs (get_keyval strict conf st (key, k)) = ps_regs st ++ ksv_regs (key_string_values conf key).
Proof.
  intros strict conf st key k. unfold get_keyval.
  match goal with |- context [let '(v, bad) := ?X in _] => destruct X as [v bad] end.
  cbn [ps_oof ps_allowed ps_regs]. repeat split.
Qed.

Lemma fold_get_keyval : forall strict conf schema st, schema_ok schema ->
  let st' := fold_left (get_keyval strict conf) schema st in
  ps_oof st' = ps_oof st /\
  ps_allowed st' = ps_allowed st ++ map (fun kk => to_lower (fst kk)) schema.
Proof.
  intros strict conf. induction schema as [|[key k] rest IH]; intros st Hs.
  - cbn. rewrite app_nil_r. split; reflexivity.
  - cbn [fold_left]. assert (Hr : schema_ok rest) by (intros kk Hk; apply Hs; right; exact Hk).
    destruct (IH (get_keyval strict conf st (key, k)) Hr) as [H1 H2].
    destruct (get_keyval_fields strict conf st key k) as [F1 [F2 _]].
    cbv zeta. rewrite H1, H2, F1, F2. split.
    + rewrite key_string_values_total; [apply orb_false_r|]. apply (Hs (key, k)). left. reflexivity.
    + cbn [map fst]. rewrite <- app_assoc. reflexivity.
Qed.

(* the model parser is total: within the fuel it gives itself it never runs out of fuel *)
Lemma parse_flat_total : forall strict schema conf, schema_ok schema ->
  parse_flat strict schema conf <> POutOfFuel.
Proof.
  intros strict schema conf Hs. unfold parse_flat.
  set (st0 := {| ps_allowed := []; ps_regs := []; ps_err := false; ps_oof := false; ps_values := [] |}).
  destruct (fold_get_keyval strict conf schema st0 Hs) as [H1 _]. cbv zeta in H1. rewrite H1. cbn [ps_oof st0].
  destruct (check_keywords _ _ _); [destruct (ps_err _)|]; discriminate.
Qed.

Lemma parse_config_total : forall strict schema raw, schema_ok schema ->
  parse_config strict schema raw <> POutOfFuel.
Proof.
  intros strict schema raw Hs. unfold parse_config.
  destruct (check_braces (strip_comments raw) O); [apply parse_flat_total; exact Hs|discriminate].
Qed.

(* the model parser always returns accept or reject *)
Lemma parse_config_accept_or_reject : forall strict schema raw, schema_ok schema ->
  (exists vs, parse_config strict schema raw = PAccept vs) \/ parse_config strict schema raw = PReject.
Proof.
  intros strict schema raw Hs. pose proof (parse_config_total strict schema raw Hs) as H.
  destruct (parse_config strict schema raw) as [vs| |]; [left; exists vs; reflexivity|right; reflexivity|congruence].
Qed.

(* braces that are not properly nested (after comments are removed) are always refused *)
Lemma parse_config_unbalanced_rejected : forall strict schema raw,
  ~ well_nested (strip_comments raw) -> parse_config strict schema raw = PReject.
Proof.
  intros strict schema raw H. unfold parse_config.
  destruct (check_braces (strip_comments raw) O) eqn:C; [|reflexivity].
  apply check_braces_iff_nested in C. contradiction.
Qed.

(* ------------------------------------------------------------------ unknown keywords *)

Definition blank_line (l : list Z) : Prop := strip_cr l = [] \/ forallb is_ws (strip_cr l) = true.

(* what "the first word of the line is a keyword of the schema" means *)
Definition starts_with_keyword (allowed : list (list Z)) (l : list Z) : Prop :=
  mem_str (to_lower (first_token (strip_cr l))) allowed = true.

Lemma prefixb_same_length : forall a b, length a = length b -> prefixb a b = true -> a = b.
Proof.
  induction a as [|x a IH]; intros b Hl Hp; destruct b as [|y b]; try discriminate; [reflexivity|].
  cbn [prefixb] in Hp. apply andb_true_iff in Hp. destruct Hp as [E Hp]. apply Z.eqb_eq in E. subst y.
  f_equal. apply IH; [cbn in Hl; lia|exact Hp].
Qed.

Lemma list_eqb_eq : forall a b, list_eqb a b = true <-> a = b.
Proof.
  intros a b. unfold list_eqb. split.
  - intros H. apply andb_true_iff in H. destruct H as [Hl Hp]. apply Nat.eqb_eq in Hl.
    apply prefixb_same_length; assumption.
  - intros E. subst b. rewrite Nat.eqb_refl. cbn [andb]. induction a as [|x a IH]; [reflexivity|].
    cbn [prefixb]. rewrite Z.eqb_refl. exact IH.
Qed.

(* "begins with a keyword" is EQUALITY of the lower-cased whole first word with a registered keyword:
   a proper prefix or an extension of a keyword is not a keyword *)
Lemma starts_with_keyword_iff : forall allowed l,
  starts_with_keyword allowed l <-> In (to_lower (first_token (strip_cr l))) allowed.
Proof.
  intros allowed l. unfold starts_with_keyword, mem_str. rewrite existsb_exists. split.
  - intros [k [Hk E]]. apply list_eqb_eq in E. subst k. exact Hk.
  - intros H. eexists. split; [exact H|apply list_eqb_eq; reflexivity].
Qed.

(* after the first word, a line holds only braces and keywords (whole words, lower-cased) *)
Definition only_keywords (allowed : list (list Z)) (l : list Z) : Prop :=
  forallb (word_ok allowed) (tl (words (strip_cr l))) = true.

Definition line_clean (allowed : list (list Z)) (l : list Z) : Prop :=
  blank_line l \/ (starts_with_keyword allowed l /\ only_keywords allowed l).

Lemma line_ok_spec : forall allowed l, line_ok allowed l = true <-> line_clean allowed l.
Proof.
  intros allowed l. unfold line_ok, line_clean, blank_line, starts_with_keyword, only_keywords.
  destruct (strip_cr l) as [|c t] eqn:E.
  - split; [intros _; left; left; reflexivity|reflexivity].
  - destruct (forallb is_ws (c :: t)) eqn:W.
    + split; [intros _; left; right; reflexivity|reflexivity].
    + rewrite andb_true_iff. split.
      * intros H. right. exact H.
      * intros [[H|H]|H]; [discriminate|discriminate|exact H].
Qed.

Lemma line_clean_starts : forall allowed l, line_clean allowed l -> blank_line l \/ starts_with_keyword allowed l.
Proof. intros allowed l [H|[H _]]; [left|right]; exact H. Qed.

Lemma check_keywords_ok_spec : forall allowed conf rs,
  check_keywords allowed conf rs = CK_ok <->
  forall l, In l (split_lines (strip_values conf rs)) -> line_clean allowed l.
Proof.
  intros allowed conf rs. unfold check_keywords, check_lines.
  destruct (forallb (line_ok allowed) (split_lines (strip_values conf rs))) eqn:F.
  - split; [|reflexivity]. intros _ l Hl. apply line_ok_spec. rewrite forallb_forall in F. apply F. exact Hl.
  - split; [discriminate|]. intros H.
    assert (forallb (line_ok allowed) (split_lines (strip_values conf rs)) = true); [|congruence].
    apply forallb_forall. intros l Hl. apply line_ok_spec. apply H. exact Hl.
Qed.

Definition schema_keywords (schema : list (list Z * kind)) : list (list Z) :=
  map (fun kk => to_lower (fst kk)) schema.

(* the registry of value ranges that the lookups of a schema leave behind *)
Definition registry_of (strict : bool) (schema : list (list Z * kind)) (conf : list Z) : list kl_reg :=
  ps_regs (fold_left (get_keyval strict conf) schema
             {| ps_allowed := []; ps_regs := []; ps_err := false; ps_oof := false; ps_values := [] |}).

(* whenever a configuration is accepted, every non-blank line of the text that remains after the values
   have been erased begins with a keyword of the schema; contrapositive: a remaining line that begins with
   anything else (a misspelt keyword, a keyword of another context) makes the parser refuse the configuration *)
(* no unknown text: if a configuration is accepted, every line of what remains after the values are erased is blank, or
   begins with a keyword of the schema AND holds nothing else than braces and keywords of the schema *)
Lemma no_unknown_text : forall strict schema conf vs, schema_ok schema ->
  parse_flat strict schema conf = PAccept vs ->
  forall l, In l (split_lines (strip_values conf (registry_of strict schema conf))) ->
            line_clean (schema_keywords schema) l.
Proof.
  intros strict schema conf vs Hs H. unfold parse_flat in H.
  set (st0 := {| ps_allowed := []; ps_regs := []; ps_err := false; ps_oof := false; ps_values := [] |}) in *.
  destruct (fold_get_keyval strict conf schema st0 Hs) as [H1 H2]. cbv zeta in H1, H2.
  destruct (ps_oof (fold_left (get_keyval strict conf) schema st0)); [discriminate|].
  destruct (check_keywords _ _ _) eqn:C; [|discriminate].
  rewrite check_keywords_ok_spec in C. rewrite H2 in C. cbn [ps_allowed st0 app] in C. exact C.
Qed.

Lemma unknown_keyword_rejected : forall strict schema conf vs, schema_ok schema ->
  parse_flat strict schema conf = PAccept vs ->
  forall l, In l (split_lines (strip_values conf (registry_of strict schema conf))) ->
            blank_line l \/ starts_with_keyword (schema_keywords schema) l.
Proof.
  intros strict schema conf vs Hs H l Hl. apply line_clean_starts. exact (no_unknown_text strict schema conf vs Hs H l Hl).
Qed.

(* the pinned check accepted "k { a } junk": the first word is a keyword, the rest was never looked at *)
Lemma line_ok_pinned_refuted :
  exists allowed l, line_ok_pinned allowed l = true /\ line_ok allowed l = false.
Proof. exists [[107]], [107; 32; 123; 32; 125; 32; 106; 117; 110; 107]. split; vm_compute; reflexivity. Qed.


(* ------------------------------------------------------------------ boolean values: the WHOLE value text is compared *)
Definition bool_spelling (data : list Z) (b : bool) : Prop :=
  (b = true /\ (data = str_on \/ data = str_yes \/ data = str_true)) \/
  (b = false /\ (data = str_off \/ data = str_no \/ data = str_false)).

Lemma bool_value_strict : forall data b, bool_value data = SAccept b <-> bool_spelling data b.
Proof.
  intros data b. unfold bool_value, bool_spelling. split.
  - intros H.
    destruct (list_eqb data str_on || list_eqb data str_yes || list_eqb data str_true) eqn:E1.
    + injection H as Hb. left. split; [symmetry; exact Hb|].
      apply orb_true_iff in E1. destruct E1 as [E1|E1]; [apply orb_true_iff in E1; destruct E1 as [E1|E1]|];
        apply list_eqb_eq in E1; auto.
    + destruct (list_eqb data str_off || list_eqb data str_no || list_eqb data str_false) eqn:E2; [|discriminate].
      injection H as Hb. right. split; [symmetry; exact Hb|].
      apply orb_true_iff in E2. destruct E2 as [E2|E2]; [apply orb_true_iff in E2; destruct E2 as [E2|E2]|];
        apply list_eqb_eq in E2; auto.
  - intros [[Hb Hd]|[Hb Hd]]; subst b; destruct Hd as [Hd|[Hd|Hd]]; subst data; reflexivity.
Qed.

Lemma bool_value_reject : forall data, (forall b, ~ bool_spelling data b) -> bool_value data = SReject.
Proof.
  intros data H. destruct (bool_value data) as [b|] eqn:E; [|reflexivity].
  apply bool_value_strict in E. exfalso. exact (H b E).
Qed.

(* nothing may follow (or precede) an accepted spelling: one more byte on either side, whatever it is, is refused *)
Lemma bool_value_whole_text : forall data b, bool_value data = SAccept b ->
  forall pre suf, pre ++ suf <> [] -> bool_value (pre ++ data ++ suf) = SReject.
Proof.
  intros data b H pre suf Hne. apply bool_value_strict in H. apply bool_value_reject. intros b' H'.
  assert (Hlen : length (pre ++ data ++ suf) = (length pre + length data + length suf)%nat)
    by (rewrite !app_length; lia).
  assert (Hpos : (0 < length pre + length suf)%nat).
  { destruct pre; [destruct suf; [exfalso; apply Hne; reflexivity|cbn; lia]|cbn; lia]. }
  unfold bool_spelling, str_on, str_yes, str_true, str_off, str_no, str_false in *.
  destruct H as [[_ [Hd|[Hd|Hd]]]|[_ [Hd|[Hd|Hd]]]]; subst data;
  destruct H' as [[_ [Hd'|[Hd'|Hd']]]|[_ [Hd'|[Hd'|Hd']]]];
  pose proof (f_equal (@length Z) Hd') as HL; rewrite Hlen in HL; cbn [length] in HL; try lia;
  (* the longer spellings that could hold a shorter one: compare the bytes *)
  destruct pre as [|p0 [|p1 [|p2 [|p3 pre]]]]; cbn [length] in HL; try lia;
  destruct suf as [|s0 [|s1 [|s2 [|s3 suf]]]]; cbn [length] in HL; try lia; cbn in Hd'; try discriminate Hd'; congruence.
Qed.

(* the weaker first-word rule accepts text that the rule of the parser refuses *)
Lemma bool_first_word_refuted :
  (* "on junk" *)
  (bool_value_first_word [111; 110; 32; 106; 117; 110; 107] = SAccept true /\
   bool_value [111; 110; 32; 106; 117; 110; 107] = SReject) /\
  (* "off on" (the value text of `flagA off flagB on` with flagB erased or not) *)
  (bool_value_first_word [111; 102; 102; 32; 111; 110] = SAccept false /\
   bool_value [111; 102; 102; 32; 111; 110] = SReject) /\
  (* blanks or line ends around the spelling (a value given in braces over several lines) are refused as well *)
  bool_value [10; 32; 111; 110; 10] = SReject.
Proof. repeat split; vm_compute; reflexivity. Qed.
