(* The value that key_lookup returns for a single-line keyword: the rest of the line with the surrounding
   blanks removed (layout independence of single-line values). *)
From Coq Require Import ZArith List Bool Arith Lia.
From CV Require Import C09.ParseModel C09.ParseProofs C09.LookupProofs C09.FlatProofs.
Import ListNotations.
Local Open Scope Z_scope.

Definition not_ws (c : Z) : bool := negb (is_ws c).

(* l = blanks ++ core ++ blanks where core is empty or begins and ends with a non-blank *)
Definition is_core (core : list Z) : Prop :=
  core = [] \/ (not_ws (hd 0 core) = true /\ not_ws (last core 0) = true).
Definition trimmed_to (l core : list Z) : Prop :=
  exists w1 w2, l = w1 ++ core ++ w2 /\ all_ws w1 /\ all_ws w2 /\ is_core core.

Lemma all_ws_nth : forall w j, all_ws w -> (j < length w)%nat -> is_ws (nth j w 0) = true.
Proof.
  intros w j H Hj. unfold all_ws in H. rewrite forallb_forall in H. apply H. apply nth_In. exact Hj.
Qed.

Lemma all_ws_from_nth : forall w, (forall j, (j < length w)%nat -> is_ws (nth j w 0) = true) -> all_ws w.
Proof.
  intros w H. unfold all_ws. apply forallb_forall. intros c Hc. destruct (In_nth w c 0 Hc) as [j [Hj E]].
  rewrite <- E. apply H. exact Hj.
Qed.

(* the core is unique: the value is a function of the text, not of how it is padded *)
Lemma trimmed_unique : forall l c1 c2, trimmed_to l c1 -> trimmed_to l c2 -> c1 = c2.
Proof.
  assert (Hkey : forall l c1 c2 w1 w2 v1 v2, l = w1 ++ c1 ++ w2 -> l = v1 ++ c2 ++ v2 ->
            all_ws w1 -> all_ws w2 -> all_ws v1 -> all_ws v2 -> is_core c1 -> is_core c2 -> c1 <> [] ->
            (length w1 <= length v1)%nat -> c1 = c2).
  { intros l c1 c2 w1 w2 v1 v2 E1 E2 Hw1 Hw2 Hv1 Hv2 K1 K2 N1 Hle.
    destruct K1 as [K1|[F1 L1]]; [congruence|].
    (* first non-blank of l is at |w1|; so |v1| <= |w1| unless c2 = [] *)
    assert (Hf : nth (length w1) l 0 = hd 0 c1).
    { rewrite E1, app_nth2, Nat.sub_diag by lia. destruct c1; [congruence|reflexivity]. }
    destruct (Nat.eq_dec (length w1) (length v1)) as [El|Nl].
    - (* same start: compare ends *)
      assert (Ew : w1 = v1).
      { apply (f_equal (firstn (length w1))) in E1. apply (f_equal (firstn (length v1))) in E2.
        rewrite firstn_app, Nat.sub_diag, firstn_all, firstn_O, app_nil_r in E1.
        rewrite firstn_app, Nat.sub_diag, firstn_all, firstn_O, app_nil_r in E2. rewrite <- El in E2. congruence. }
      subst v1. rewrite E1 in E2. apply app_inv_head in E2.
      (* c1 ++ w2 = c2 ++ v2 *)
      destruct K2 as [K2|[F2 L2]].
      + subst c2. cbn [app] in E2. exfalso.
        assert (is_ws (hd 0 c1) = true).
        { destruct c1 as [|a c1']; [congruence|]. cbn [app hd] in *. subst v2.
          apply (all_ws_nth (a :: c1' ++ w2) O Hv2). cbn. lia. }
        unfold not_ws in F1. rewrite H in F1. discriminate.
      + destruct (Nat.lt_trichotomy (length c1) (length c2)) as [Lt|[Eq|Gt]].
        * exfalso. (* last of c2 lies in w2: blank *)
          assert (Hn : nth (length c2 - 1) (c1 ++ w2) 0 = last c2 0).
          { rewrite E2, app_nth1 by (destruct c2; cbn in *; lia).
            destruct c2 as [|a c2'] using rev_ind; [cbn in Lt; lia|]. rewrite last_last, app_length. cbn [length].
            rewrite app_nth2 by lia. replace (length c2' + 1 - 1 - length c2')%nat with O by lia. reflexivity. }
          rewrite app_nth2 in Hn by lia.
          assert (length c2 - 1 - length c1 < length w2)%nat.
          { apply (f_equal (@length Z)) in E2. rewrite !app_length in E2. lia. }
          pose proof (all_ws_nth w2 _ Hw2 H) as B. rewrite Hn in B. unfold not_ws in L2. rewrite B in L2. discriminate.
        * apply (f_equal (firstn (length c1))) in E2.
          rewrite firstn_app, Nat.sub_diag, firstn_all, firstn_O, app_nil_r in E2.
          rewrite Eq, firstn_app, Nat.sub_diag, firstn_all, firstn_O, app_nil_r in E2. exact E2.
        * exfalso.
          assert (Hn : nth (length c1 - 1) (c2 ++ v2) 0 = last c1 0).
          { rewrite <- E2, app_nth1 by (destruct c1; cbn in *; lia).
            destruct c1 as [|a c1'] using rev_ind; [congruence|]. rewrite last_last, app_length. cbn [length].
            rewrite app_nth2 by lia. replace (length c1' + 1 - 1 - length c1')%nat with O by lia. reflexivity. }
          rewrite app_nth2 in Hn by lia.
          assert (length c1 - 1 - length c2 < length v2)%nat.
          { apply (f_equal (@length Z)) in E2. rewrite !app_length in E2. lia. }
          pose proof (all_ws_nth v2 _ Hv2 H) as B. rewrite Hn in B. unfold not_ws in L1. rewrite B in L1. discriminate.
    - exfalso. (* |w1| < |v1|: the first non-blank of c1 lies inside v1 *)
      assert (B : is_ws (nth (length w1) l 0) = true).
      { rewrite E2, app_nth1 by lia. apply all_ws_nth; [exact Hv1|lia]. }
      rewrite Hf in B. unfold not_ws in F1. rewrite B in F1. discriminate. }
  intros l c1 c2 [w1 [w2 [E1 [Hw1 [Hw2 K1]]]]] [v1 [v2 [E2 [Hv1 [Hv2 K2]]]]].
  destruct c1 as [|a c1'].
  - destruct c2 as [|b c2']; [reflexivity|]. symmetry.
    destruct (Nat.le_ge_cases (length v1) (length w1)) as [L|L].
    + apply (Hkey l (b :: c2') [] v1 v2 w1 w2); auto. discriminate.
    + (* |w1| <= |v1|: then l is all blank up to ... use the other orientation on an all-blank reading *)
      exfalso. destruct K2 as [K2|[F2 _]]; [discriminate|]. cbn [hd] in F2.
      assert (B : is_ws (nth (length v1) l 0) = true).
      { rewrite E1. cbn [app]. apply all_ws_nth.
        - unfold all_ws in *. rewrite forallb_app, Hw1, Hw2. reflexivity.
        - apply (f_equal (@length Z)) in E2. rewrite E1 in E2. cbn [app] in E2. rewrite !app_length in *. cbn [length] in *. lia. }
      rewrite E2, app_nth2, Nat.sub_diag in B by lia. cbn [app nth] in B. unfold not_ws in F2. rewrite B in F2. discriminate.
  - destruct (Nat.le_ge_cases (length w1) (length v1)) as [L|L].
    + apply (Hkey l (a :: c1') c2 w1 w2 v1 v2); auto. discriminate.
    + destruct c2 as [|b c2'].
      * exfalso. destruct K1 as [K1|[F1 _]]; [discriminate|]. cbn [hd] in F1.
        assert (B : is_ws (nth (length w1) l 0) = true).
        { rewrite E2. cbn [app]. apply all_ws_nth.
          - unfold all_ws in *. rewrite forallb_app, Hv1, Hv2. reflexivity.
          - apply (f_equal (@length Z)) in E1. rewrite E2 in E1. cbn [app] in E1. rewrite !app_length in *. cbn [length] in *. lia. }
        rewrite E1, app_nth2, Nat.sub_diag in B by lia. cbn [app nth] in B. unfold not_ws in F1. rewrite B in F1. discriminate.
      * symmetry. apply (Hkey l (b :: c2') (a :: c1') v1 v2 w1 w2); auto. discriminate.
Qed.

(* ------------------------------------------------------------------ the value on one line *)

Lemma hd_firstn_skipn : forall (l : list Z) a n, (0 < n)%nat -> hd 0 (firstn n (skipn a l)) = nth a l 0.
Proof.
  intros l a n Hn. rewrite <- (Nat.add_0_r a) at 2. rewrite <- nth_skipn_Z.
  destruct (skipn a l) as [|c t]; destruct n; try lia; reflexivity.
Qed.

Lemma last_firstn : forall (l : list Z) m, (m < length l)%nat -> last (firstn (S m) l) 0 = nth m l 0.
Proof.
  induction l as [|c t IH]; intros m Hm; [cbn in Hm; lia|].
  destruct m as [|m']; [reflexivity|]. cbn [length] in Hm.
  change (firstn (S (S m')) (c :: t)) with (c :: firstn (S m') t). cbn [nth].
  rewrite <- IH by lia. destruct t as [|d t']; [cbn in Hm; lia|]. reflexivity.
Qed.

Lemma find_if_aux_shift : forall P l i, find_if_aux P l i = option_map (Nat.add i) (find_if_aux P l O).
Proof.
  intros P. induction l as [|c t IH]; intros i; [reflexivity|].
  cbn [find_if_aux]. destruct (P c); [cbn; f_equal; lia|].
  rewrite (IH (S i)), (IH 1%nat). destruct (find_if_aux P t 0); [cbn; f_equal; lia|reflexivity].
Qed.

Lemma line_value : forall line s,
  ~ In LBRACE (skipn s line) ->
  match find_if (fun c => negb (is_ws c)) line s with
  | None => all_ws (skipn s line)
  | Some db => exists k, rfind_if (fun c => negb (is_ws c)) line (length line) = Some k /\ (db <= k)%nat /\
                         find_if (fun c => c =? LBRACE) line db = None /\
                         trimmed_to (skipn s line) (substr line db (S k - db))
  end.
Proof.
  intros line s Hb. set (P := fun c => negb (is_ws c)).
  pose proof (find_if_spec P line s) as Hf.
  destruct (find_if P line s) as [db|].
  - destruct Hf as [R [Pd Hbefore]].
    pose proof (rfind_if_spec P line (length line)) as Hr.
    destruct (rfind_if P line (length line)) as [k|].
    + destruct Hr as [_ [Lk [Pk Hafter]]]. exists k.
      assert (Hdk : (db <= k)%nat).
      { destruct (Nat.le_gt_cases db k) as [L|L]; [exact L|]. rewrite (Hafter db) in Pd by lia. discriminate. }
      repeat split; [exact Hdk| |].
      * pose proof (find_if_spec (fun c => c =? LBRACE) line db) as Hl.
        destruct (find_if (fun c => c =? LBRACE) line db) as [br|]; [|reflexivity].
        destruct Hl as [Rb [Pb _]]. apply Z.eqb_eq in Pb. exfalso. apply Hb.
        rewrite <- Pb. replace br with (s + (br - s))%nat by lia. rewrite <- nth_skipn_Z. apply nth_In.
        rewrite skipn_length. lia.
      * exists (firstn (db - s) (skipn s line)), (skipn (S k - s) (skipn s line)). repeat split.
        -- unfold substr.
           replace (skipn db line) with (skipn (db - s) (skipn s line)) by (rewrite skipn_skipn_Z; f_equal; lia).
           replace (skipn (S k - s) (skipn s line)) with (skipn (S k - db) (skipn (db - s) (skipn s line)))
             by (rewrite !skipn_skipn_Z; f_equal; lia).
           rewrite (firstn_skipn (S k - db)). rewrite (firstn_skipn (db - s)). reflexivity.
        -- apply all_ws_from_nth. intros j Hj. rewrite firstn_length, skipn_length in Hj.
           rewrite nth_firstn_Z by lia. rewrite nth_skipn_Z.
           specialize (Hbefore (s + j)%nat ltac:(lia)). unfold P in Hbefore. apply negb_false_iff in Hbefore. exact Hbefore.
        -- apply all_ws_from_nth. intros j Hj. rewrite !skipn_length in Hj. rewrite !nth_skipn_Z.
           specialize (Hafter (s + (S k - s + j))%nat ltac:(lia) ltac:(lia)). unfold P in Hafter.
           apply negb_false_iff in Hafter. exact Hafter.
        -- right. unfold substr, not_ws. split.
           ++ rewrite hd_firstn_skipn by lia. exact Pd.
           ++ replace (S k - db)%nat with (S (k - db)) by lia. rewrite last_firstn by (rewrite skipn_length; lia).
              rewrite nth_skipn_Z. replace (db + (k - db))%nat with k by lia. exact Pk.
    + exfalso. rewrite (Hr db) in Pd by lia. discriminate.
  - apply all_ws_from_nth. intros j Hj. rewrite skipn_length in Hj. rewrite nth_skipn_Z.
    specialize (Hf (s + j)%nat ltac:(lia)). unfold P in Hf. apply negb_false_iff in Hf. exact Hf.
Qed.

Lemma prefixb_firstn : forall k l n, prefixb k l = true -> (length k <= n)%nat -> prefixb k (firstn n l) = true.
Proof.
  induction k as [|a k IH]; intros l n H Hn; [reflexivity|].
  destruct l as [|b l]; [discriminate|]. destruct n as [|n']; [cbn in Hn; lia|].
  cbn [prefixb firstn] in *. apply andb_true_iff in H. destruct H as [E H]. rewrite E. cbn [andb].
  apply IH; [exact H|cbn in Hn; lia].
Qed.

(* A keyword found at pos whose line carries no '{' after it: the value is the rest of the line (after the one
   character that follows the keyword) with leading and trailing blanks removed, and the resume position is the
   end of the line -- whatever the indentation, the number of blanks before the value and after it. *)
Lemma extract_value_single_line : forall fuel conf key pos,
  key <> [] -> key_chars_ok key -> occurs (to_lower conf) key pos -> left_clear conf pos ->
  let le := match find_if is_lf conf pos with None => length conf | Some nl => nl end in
  let rest := substr conf (pos + length key + 1) (le - (pos + length key + 1)) in
  ~ In LBRACE rest ->
  exists data reg, extract_value fuel conf key pos = KL_found pos data le reg /\ trimmed_to rest data.
Proof.
  intros fuel conf key pos Hk Hc Ho Hl le rest Hb.
  assert (Lk : (0 < length key)%nat) by (destruct key; [congruence|cbn; lia]).
  pose proof (occurs_first_not_lf conf key pos Ho Hk Hc) as Hp.
  pose proof (line_end_after_key conf key pos Ho Hk Hc) as Hle. fold le in Hle.
  set (lb := line_begin_of conf pos).
  assert (Hlb : (lb <= pos)%nat /\ forall j, (lb <= j < pos)%nat -> nth j conf 0 <> LF).
  { unfold lb, line_begin_of. pose proof (rfind_if_spec is_lf conf pos) as Hr.
    destruct (rfind_if is_lf conf pos) as [pl|].
    - destruct Hr as [R1 [R2 [Pl Hb2]]]. unfold is_lf in Pl. apply Z.eqb_eq in Pl.
      assert (pl <> pos) by (intros E; subst pl; contradiction). split; [lia|].
      intros j Hj Hcj. assert (Hlt : (j < length conf)%nat).
      { destruct (Nat.lt_ge_cases j (length conf)) as [L|L]; [exact L|]. rewrite nth_overflow in Hcj by lia. unfold LF in Hcj. discriminate. }
      specialize (Hb2 j ltac:(lia) Hlt). unfold is_lf in Hb2. rewrite Hcj in Hb2. discriminate.
    - split; [lia|]. intros j Hj Hcj. assert (Hlt : (j < length conf)%nat).
      { destruct (Nat.lt_ge_cases j (length conf)) as [L|L]; [exact L|]. rewrite nth_overflow in Hcj by lia. unfold LF in Hcj. discriminate. }
      specialize (Hr j ltac:(lia) Hlt). unfold is_lf in Hr. rewrite Hcj in Hr. discriminate. }
  destruct Hlb as [Hlb1 Hlb2].
  set (line := substr conf lb (le - lb)).
  assert (Nline : forall j, (j < le - lb)%nat -> nth j line 0 = nth (lb + j) conf 0).
  { intros j Hj. unfold line, substr. rewrite nth_firstn_Z by lia. apply nth_skipn_Z. }
  assert (Ho' : occurs (to_lower line) key (pos - lb)).
  { unfold occurs, line. rewrite <- substr_to_lower. unfold substr. rewrite skipn_firstn_comm, skipn_skipn_Z.
    replace (lb + (pos - lb))%nat with pos by lia. apply prefixb_firstn; [exact Ho|lia]. }
  assert (HD : find_sub (to_lower line) key 0 = Some (pos - lb)%nat).
  { pose proof (find_sub_spec (to_lower line) key 0) as Hs.
    destruct (find_sub (to_lower line) key 0) as [k|].
    - destruct Hs as [_ [_ [Hok Hnone]]]. f_equal.
      destruct (Nat.lt_trichotomy k (pos - lb)) as [Lt|[E|Gt]]; [exfalso|exact E|exfalso; apply (Hnone (pos - lb)%nat); [lia|exact Ho']].
      pose proof (occurs_nth _ _ k O Hok Lk) as Hn. rewrite Nat.add_0_r, nth_to_lower, Nline in Hn by lia.
      assert (HI : In (nth (lb + k) conf 0) delims_left).
      { apply Hl; [lia|]. intros j Hj. apply Hlb2. lia. }
      apply memb_In in HI. rewrite <- (memb_lower delims_left) in HI by exact no_letters_delims_left.
      rewrite Hn in HI. rewrite Hc in HI; [discriminate|]. apply nth_In. exact Lk.
    - exfalso. apply (Hs (pos - lb)%nat); [|exact Ho'].
      rewrite to_lower_length. unfold line, substr. rewrite firstn_length, skipn_length. lia. }
  assert (HE : skipn (S (pos - lb + length key)) line = rest).
  { unfold line, rest, substr. rewrite skipn_firstn_comm, skipn_skipn_Z. f_equal; [lia|f_equal; lia]. }
  pose proof (line_value line (S (pos - lb + length key))) as LV. rewrite HE in LV. specialize (LV Hb).
  unfold extract_value. cbv zeta.
  change (line_begin_of conf pos) with lb.
  change (match find_if is_lf conf pos with None => length conf | Some nl => nl end) with le.
  change (substr conf lb (le - lb)) with line.
  rewrite HD.
  destruct (find_if (fun c => negb (is_ws c)) line (S (pos - lb + length key))) as [db|].
  - destruct LV as [k [Hr [Hdk [Hnb Htr]]]]. rewrite Hr, Hnb.
    destruct (Nat.ltb_spec db (S k)) as [L|L]; [|lia].
    eexists. eexists. split; [reflexivity|exact Htr].
  - exists [], RegNone. split; [reflexivity|]. exists rest, []. repeat split.
    + cbn [app]. rewrite app_nil_r. reflexivity.
    + exact LV.
    + left. reflexivity.
Qed.

(* corollary in "layout" form: two configurations whose keyword lines differ only in indentation and in the blanks
   around the value give the same value *)
Lemma single_line_value_layout : forall fuel conf1 conf2 key p1 p2 core d1 r1 s1 d2 r2 s2,
  extract_value fuel conf1 key p1 = KL_found p1 d1 s1 r1 ->
  extract_value fuel conf2 key p2 = KL_found p2 d2 s2 r2 ->
  trimmed_to (substr conf1 (p1 + length key + 1)
                (match find_if is_lf conf1 p1 with None => length conf1 | Some nl => nl end - (p1 + length key + 1))) d1 ->
  trimmed_to (substr conf2 (p2 + length key + 1)
                (match find_if is_lf conf2 p2 with None => length conf2 | Some nl => nl end - (p2 + length key + 1))) d2 ->
  trimmed_to (substr conf1 (p1 + length key + 1)
                (match find_if is_lf conf1 p1 with None => length conf1 | Some nl => nl end - (p1 + length key + 1))) core ->
  trimmed_to (substr conf2 (p2 + length key + 1)
                (match find_if is_lf conf2 p2 with None => length conf2 | Some nl => nl end - (p2 + length key + 1))) core ->
  d1 = d2.
Proof.
  intros fuel conf1 conf2 key p1 p2 core d1 r1 s1 d2 r2 s2 _ _ T1 T2 C1 C2.
  rewrite (trimmed_unique _ _ _ T1 C1), (trimmed_unique _ _ _ T2 C2). reflexivity.
Qed.

(* ------------------------------------------------------------------ split_string terminates *)

Lemma split_string_loop_total : forall data delim fuel index acc,
  (index <= length data)%nat -> (length data - index < fuel)%nat ->
  split_string_loop fuel data delim index acc <> None.
Proof.
  intros data delim. induction fuel as [|f IH]; intros index acc Hi Hf; [lia|].
  cbn [split_string_loop]. destruct (Nat.eqb_spec index (length data)) as [E|E]; [discriminate|].
  pose proof (find_sub_spec data delim index) as Hs.
  destruct (find_sub data delim index) as [ni|]; [|discriminate].
  destruct Hs as [R [L [_ Hn]]].
  assert (ni < length data)%nat.
  { destruct delim as [|a dl]; [|cbn [length] in L; lia].
    destruct (Nat.eq_dec ni index) as [En|En]; [lia|]. exfalso. apply (Hn index); [lia|]. reflexivity. }
  apply IH; lia.
Qed.

Lemma split_string_total : forall data delim, split_string data delim <> None.
Proof. intros data delim. unfold split_string. apply split_string_loop_total; lia. Qed.
