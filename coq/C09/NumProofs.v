(* Lemmas about value extraction (numbers and words) of the parser model. *)
From Coq Require Import ZArith List Bool Arith Lia.
From CV Require Import C09.ParseModel.
Import ListNotations.
Local Open Scope Z_scope.

(* ------------------------------------------------------------------ specification of number literals *)

Definition all_space (l : list Z) : Prop := forallb is_space l = true.
Definition digits (l : list Z) : Prop := forallb is_digit l = true.

Definition sign_of (sg : list Z) (neg : bool) : Prop :=
  (sg = [] /\ neg = false) \/ (sg = [43] /\ neg = false) \/ (sg = [45] /\ neg = true).

(* [sign] (digits [. digits*] | . digits+) [(e|E) [sign] digits+], with its value sign * digits * 10^exp *)
Inductive float_lit : list Z -> dec -> Prop :=
| FL : forall sg neg ip frac fp ex e esg eneg ed,
    sign_of sg neg -> digits ip ->
    ((frac = [] /\ fp = []) \/ (frac = DOT :: fp /\ digits fp)) ->
    ip ++ fp <> [] ->
    ((ex = [] /\ ed = [] /\ eneg = false) \/
     (is_e e = true /\ sign_of esg eneg /\ digits ed /\ ed <> [] /\ ex = e :: esg ++ ed)) ->
    float_lit (sg ++ ip ++ frac ++ ex)
              {| d_neg := neg; d_digits := ip ++ fp;
                 d_exp := (if eneg then - digits_val ed 0 else digits_val ed 0) - Z.of_nat (length fp) |}.

(* [sign] digits+ with its value *)
Inductive int_lit : list Z -> Z -> Prop :=
| IL : forall sg neg ds, sign_of sg neg -> digits ds -> ds <> [] ->
    int_lit (sg ++ ds) (if neg then - digits_val ds 0 else digits_val ds 0).

(* characters that can occur in a number *)
Definition number_char (c : Z) : bool := is_digit c || is_sign c || is_e c || (c =? DOT).

Ltac zb :=
  repeat match goal with
         | H : context [?a <=? ?b] |- _ => destruct (Z.leb_spec a b)
         | |- context [?a <=? ?b] => destruct (Z.leb_spec a b)
         | H : context [?a =? ?b] |- _ => destruct (Z.eqb_spec a b)
         | |- context [?a =? ?b] => destruct (Z.eqb_spec a b)
         end; cbn in *; try lia; try congruence; auto.

Lemma space_not_token : forall c, is_space c = true ->
  is_digit c = false /\ is_sign c = false /\ is_e c = false /\ (c =? DOT) = false.
Proof. intros c H. unfold is_space, is_digit, is_sign, is_e, DOT in *. zb. Qed.

Lemma digit_not_sign : forall c, is_digit c = true -> is_sign c = false /\ is_space c = false /\ (c =? DOT) = false /\ is_e c = false.
Proof. intros c H. unfold is_space, is_digit, is_sign, is_e, DOT in *. zb. Qed.

(* ------------------------------------------------------------------ span_digits, skip_space *)

Definition stops_digits (r : list Z) : Prop := match r with [] => True | c :: _ => is_digit c = false end.

Lemma span_digits_spec : forall l d r, span_digits l = (d, r) -> l = d ++ r /\ digits d /\ stops_digits r.
Proof.
  induction l as [|c t IH]; intros d r H.
  - cbn in H. inversion H. subst. repeat split.
  - cbn [span_digits] in H. destruct (is_digit c) eqn:D.
    + destruct (span_digits t) as [d' r'] eqn:S. inversion H. subst d r.
      destruct (IH d' r' eq_refl) as [E [Hd Hs]]. subst t. repeat split; [|exact Hs].
      unfold digits. cbn [forallb]. rewrite D. exact Hd.
    + inversion H. subst d r. repeat split. cbn. exact D.
Qed.

Lemma span_digits_app : forall d r, digits d -> stops_digits r -> span_digits (d ++ r) = (d, r).
Proof.
  induction d as [|c d IH]; intros r Hd Hs.
  - cbn [app]. destruct r as [|c t]; [reflexivity|]. cbn [span_digits]. cbn in Hs. rewrite Hs. reflexivity.
  - unfold digits in Hd. cbn [forallb] in Hd. apply andb_true_iff in Hd. destruct Hd as [Hc Hd].
    cbn [app span_digits]. rewrite Hc. rewrite IH by assumption. reflexivity.
Qed.

Lemma skip_space_spec : forall l, exists w, l = w ++ skip_space l /\ all_space w /\
  (match skip_space l with [] => True | c :: _ => is_space c = false end).
Proof.
  induction l as [|c t IH].
  - exists []. repeat split.
  - cbn [skip_space]. destruct (is_space c) eqn:S.
    + destruct IH as [w [E [Hw Hn]]]. exists (c :: w). repeat split.
      * cbn [app]. f_equal. exact E.
      * unfold all_space. cbn [forallb]. rewrite S. exact Hw.
      * exact Hn.
    + exists []. repeat split. exact S.
Qed.

Lemma skip_space_app : forall w l, all_space w -> skip_space (w ++ l) = skip_space l.
Proof.
  induction w as [|c w IH]; intros l H; [reflexivity|].
  unfold all_space in H. cbn [forallb] in H. apply andb_true_iff in H. destruct H as [Hc Hw].
  cbn [app skip_space]. rewrite Hc. apply IH. exact Hw.
Qed.

Lemma skip_space_nonspace : forall c t, is_space c = false -> skip_space (c :: t) = c :: t.
Proof. intros c t H. cbn [skip_space]. rewrite H. reflexivity. Qed.

Lemma skip_space_nil_iff : forall l, skip_space l = [] <-> all_space l.
Proof.
  induction l as [|c t IH]; [split; reflexivity|].
  cbn [skip_space]. unfold all_space. cbn [forallb]. destruct (is_space c); cbn [andb].
  - exact IH.
  - split; discriminate.
Qed.

Lemma skip_space_length : forall l, (length (skip_space l) <= length l)%nat.
Proof.
  induction l as [|c t IH]; [cbn; lia|]. cbn [skip_space]. destruct (is_space c); cbn [length]; lia.
Qed.

(* ------------------------------------------------------------------ the value loops *)

Lemma all_space_delimited : forall rest, all_space rest -> delimited rest = true.
Proof.
  intros rest H. destruct rest as [|c t]; [reflexivity|]. unfold all_space in H. cbn [forallb] in H.
  apply andb_true_iff in H. apply H.
Qed.

Section Loops.
  Context {A : Type}.
  Variable extract : list Z -> ext A.
  Hypothesis progress : forall l v r, extract l = ExtOk v r -> (length r < length l)%nat.

  (* the fuel given by the model, length + 1, is sufficient: more fuel gives the same result *)
  Lemma extract_all_fuel : forall dl f1 f2 l, (length l < f1)%nat -> (length l < f2)%nat ->
    extract_all extract dl f1 l = extract_all extract dl f2 l.
  Proof.
    intros dl. induction f1 as [|f1 IH]; intros f2 l H1 H2; [lia|].
    destruct f2 as [|f2]; [lia|].
    cbn [extract_all]. pose proof (skip_space_length l) as HL.
    destruct (skip_space l) as [|c t] eqn:Sk; [reflexivity|].
    destruct (extract (c :: t)) as [v rest|] eqn:E; [|reflexivity].
    apply progress in E. destruct (dl && negb (delimited rest)); [reflexivity|].
    rewrite (IH f2 rest) by lia. reflexivity.
  Qed.

  Lemma extract_all_unfold : forall dl f l, (length l < f)%nat ->
    extract_all extract dl f l =
    match skip_space l with
    | [] => ([], [])
    | c :: t => match extract (c :: t) with
                | ExtFail => ([], c :: t)
                | ExtOk v rest =>
                  if dl && negb (delimited rest) then ([], c :: t)
                  else let '(vs, r) := extract_all extract dl (S (length rest)) rest in (v :: vs, r)
                end
    end.
  Proof.
    intros dl f l H. destruct f as [|f]; [lia|]. cbn [extract_all].
    pose proof (skip_space_length l) as HL.
    destruct (skip_space l) as [|c t] eqn:Sk; [reflexivity|].
    destruct (extract (c :: t)) as [v rest|] eqn:E; [|reflexivity].
    apply progress in E. destruct (dl && negb (delimited rest)); [reflexivity|].
    rewrite (extract_all_fuel dl f (S (length rest)) rest) by lia. reflexivity.
  Qed.

  (* the repaired scalar rule: one value, and nothing but white space around it *)
  Lemma scalar_value_iff : forall data v,
    scalar_value extract data = SAccept v <->
    exists rest, skip_space data <> [] /\ extract (skip_space data) = ExtOk v rest /\ all_space rest.
  Proof.
    intros data v. unfold scalar_value. rewrite extract_all_unfold by lia.
    destruct (skip_space data) as [|c t] eqn:Sk.
    - split; [discriminate|]. intros [rest [N _]]. congruence.
    - destruct (extract (c :: t)) as [v' rest|] eqn:E; cbv beta iota.
      + destruct (delimited rest) eqn:Dl; cbn [andb negb].
        * rewrite extract_all_unfold by lia.
          destruct (skip_space rest) as [|c2 t2] eqn:S2.
          -- split.
             ++ intros H. inversion H. subst v'. exists rest. repeat split; [discriminate|].
                apply skip_space_nil_iff. exact S2.
             ++ intros [rest' [_ [E' Hs]]]. inversion E'. reflexivity.
          -- split.
             ++ intros H. exfalso.
                destruct (extract (c2 :: t2)) as [v2 r2|].
                ** destruct (true && negb (delimited r2)); [discriminate|].
                   destruct (extract_all extract true (S (length r2)) r2) as [vs r]. discriminate.
                ** discriminate.
             ++ intros [rest' [_ [E' Hs]]]. inversion E'. subst rest'.
                apply skip_space_nil_iff in Hs. congruence.
        * split; [discriminate|]. intros [rest' [_ [E' Hs]]]. inversion E'. subst rest'.
          apply all_space_delimited in Hs. congruence.
      + split; [discriminate|]. intros [rest [_ [E' _]]]. discriminate.
  Qed.

  (* the pinned scalar rule: one value before the first failure; the text after it is unconstrained *)
  Lemma scalar_value_lenient_iff : forall data v,
    scalar_value_lenient extract data = SAccept v <->
    exists rest, skip_space data <> [] /\ extract (skip_space data) = ExtOk v rest /\
                 (all_space rest \/ extract (skip_space rest) = ExtFail).
  Proof.
    intros data v. unfold scalar_value_lenient. rewrite extract_all_unfold by lia.
    destruct (skip_space data) as [|c t] eqn:Sk.
    - split; [discriminate|]. intros [rest [N _]]. congruence.
    - destruct (extract (c :: t)) as [v' rest|] eqn:E; cbv beta iota; cbn [andb].
      + rewrite extract_all_unfold by lia.
        destruct (skip_space rest) as [|c2 t2] eqn:S2.
        * cbn [fst]. split.
          -- intros H. inversion H. subst v'. exists rest. repeat split; [discriminate|].
             left. apply skip_space_nil_iff. exact S2.
          -- intros [rest' [_ [E' _]]]. inversion E'. reflexivity.
        * destruct (extract (c2 :: t2)) as [v2 r2|] eqn:E2; cbn [andb].
          -- destruct (extract_all extract false (S (length r2)) r2) as [vs r]. cbn [fst].
             split; [discriminate|]. intros [rest' [_ [E' [Hs|Hf]]]]; inversion E'; subst rest'.
             ++ apply skip_space_nil_iff in Hs. congruence.
             ++ rewrite S2 in Hf. congruence.
          -- cbn [fst]. split.
             ++ intros H. inversion H. subst v'. exists rest. repeat split; [discriminate|].
                right. rewrite S2. exact E2.
             ++ intros [rest' [_ [E' _]]]. inversion E'. reflexivity.
      + cbn [fst]. split; [discriminate|]. intros [rest [_ [E' _]]]. discriminate.
  Qed.

  (* the repaired rule accepts less than the pinned one, and the same value *)
  Lemma scalar_value_implies_lenient : forall data v,
    scalar_value extract data = SAccept v -> scalar_value_lenient extract data = SAccept v.
  Proof.
    intros data v H. apply scalar_value_iff in H. destruct H as [rest [N [E Hs]]].
    apply scalar_value_lenient_iff. exists rest. repeat split; auto.
  Qed.
End Loops.

(* a text that is entirely consumed is a sequence of values, each followed by white space or by the end *)
Section Tokens.
  Context {A : Type}.
  Variable extract : list Z -> ext A.
  Hypothesis progress : forall l v r, extract l = ExtOk v r -> (length r < length l)%nat.

  (* tokens_of data vs: data is white space, then a text from which extract yields v1 and stops at white space
     or at the end, and so on *)
  Inductive tokens_of : list Z -> list A -> Prop :=
  | TokNil : forall l, all_space l -> tokens_of l []
  | TokCons : forall l v rest vs, skip_space l <> [] -> extract (skip_space l) = ExtOk v rest ->
      delimited rest = true -> tokens_of rest vs -> tokens_of l (v :: vs).

  Lemma extract_all_tokens : forall f l vs, (length l < f)%nat ->
    (extract_all extract true f l = (vs, []) <-> tokens_of l vs).
  Proof.
    induction f as [|f IH]; intros l vs H; [lia|].
    cbn [extract_all]. pose proof (skip_space_length l) as HL.
    destruct (skip_space l) as [|c t] eqn:Sk.
    - split.
      + intros E. inversion E. constructor. apply skip_space_nil_iff. exact Sk.
      + intros T. inversion T as [l0 Hs|l0 v rest vs0 N E Dl T']; subst.
        * reflexivity.
        * congruence.
    - destruct (extract (c :: t)) as [v rest|] eqn:E.
      + pose proof (progress _ _ _ E) as P. destruct (delimited rest) eqn:Dl; cbn [andb negb].
        * destruct (extract_all extract true f rest) as [vs' r] eqn:EA. split.
          -- intros H0. inversion H0. subst. apply (TokCons l v rest vs').
             ++ rewrite Sk. discriminate.
             ++ rewrite Sk. exact E.
             ++ exact Dl.
             ++ apply (IH rest vs'); [lia|exact EA].
          -- intros T. inversion T as [l0 Hs|l0 v0 rest0 vs0 N E0 Dl0 T']; subst.
             ++ apply skip_space_nil_iff in Hs. congruence.
             ++ rewrite Sk in E0. rewrite E in E0. inversion E0. subst v0 rest0.
                apply (IH rest vs0) in T'; [|lia]. rewrite EA in T'. inversion T'. reflexivity.
        * split; [discriminate|].
          intros T. inversion T as [l0 Hs|l0 v0 rest0 vs0 N E0 Dl0 T']; subst.
          -- apply skip_space_nil_iff in Hs. congruence.
          -- rewrite Sk in E0. rewrite E in E0. inversion E0. subst v0 rest0. congruence.
      + split; [discriminate|].
        intros T. inversion T as [l0 Hs|l0 v0 rest0 vs0 N E0 Dl0 T']; subst.
        * apply skip_space_nil_iff in Hs. congruence.
        * rewrite Sk in E0. congruence.
  Qed.
End Tokens.

(* ------------------------------------------------------------------ progress of the three extractors *)

Lemma span_digits_length : forall l d r, span_digits l = (d, r) -> length l = (length d + length r)%nat.
Proof. intros l d r H. apply span_digits_spec in H. destruct H as [E _]. subst l. apply app_length. Qed.

Lemma take_sign_spec : forall l neg l1, take_sign l = (neg, l1) -> exists sg, l = sg ++ l1 /\ sign_of sg neg.
Proof.
  intros l neg l1 H. unfold take_sign in H. destruct l as [|c t].
  - inversion H. exists []. split; [reflexivity|]. left. split; reflexivity.
  - destruct (is_sign c) eqn:Sg.
    + inversion H. subst. exists [c]. split; [reflexivity|]. unfold is_sign in Sg.
      destruct (Z.eqb_spec c 43) as [E|E].
      * subst c. right. left. split; reflexivity.
      * destruct (Z.eqb_spec c 45) as [E2|E2]; [|discriminate]. subst c. right. right. split; reflexivity.
    + inversion H. subst. exists []. split; [reflexivity|]. left. split; reflexivity.
Qed.

Definition stops_sign (r : list Z) : Prop := match r with [] => True | c :: _ => is_sign c = false end.

Lemma take_sign_app : forall sg neg r, sign_of sg neg -> stops_sign r -> take_sign (sg ++ r) = (neg, r).
Proof.
  intros sg neg r [[E1 E2]|[[E1 E2]|[E1 E2]]] Hs; subst sg neg; cbn [app]; try reflexivity.
  unfold take_sign. destruct r as [|c t]; [reflexivity|]. cbn in Hs. rewrite Hs. reflexivity.
Qed.

Lemma take_frac_spec : forall l fp l3, take_frac l = (fp, l3) ->
  exists frac, l = frac ++ l3 /\ ((frac = [] /\ fp = []) \/ (frac = DOT :: fp /\ digits fp)).
Proof.
  intros l fp l3 H. unfold take_frac in H. destruct l as [|c t].
  - inversion H. exists []. split; [reflexivity|]. left. split; reflexivity.
  - destruct (Z.eqb_spec c DOT) as [Ed|Ed].
    + apply span_digits_spec in H. destruct H as [Et [Hfp _]].
      exists (DOT :: fp). split; [subst c t; reflexivity|]. right. split; [reflexivity|exact Hfp].
    + inversion H. subst. exists []. split; [reflexivity|]. left. split; reflexivity.
Qed.

Lemma extract_intr_progress : forall lo hi l v r, extract_intr lo hi l = ExtOk v r -> (length r < length l)%nat.
Proof.
  intros lo hi l v r H. unfold extract_intr in H.
  destruct (take_sign l) as [neg l1] eqn:T. apply take_sign_spec in T. destruct T as [sg [El _]].
  destruct (span_digits l1) as [ds rest] eqn:Sd. apply span_digits_length in Sd.
  destruct ds as [|d ds']; [discriminate|].
  destruct ((lo <=? _) && _); [|discriminate]. inversion H. subst.
  rewrite app_length. cbn [length] in *. lia.
Qed.

Lemma extract_int_progress : forall l v r, extract_int l = ExtOk v r -> (length r < length l)%nat.
Proof. exact (extract_intr_progress _ _). Qed.

Lemma span_nonspace_spec : forall l w r, span_nonspace l = (w, r) ->
  l = w ++ r /\ forallb (fun c => negb (is_space c)) w = true /\
  (match r with [] => True | c :: _ => is_space c = true end).
Proof.
  induction l as [|c t IH]; intros w r H.
  - cbn in H. inversion H. repeat split.
  - cbn [span_nonspace] in H. destruct (is_space c) eqn:S.
    + inversion H. subst. repeat split. exact S.
    + destruct (span_nonspace t) as [w' r'] eqn:E. inversion H. subst w r.
      destruct (IH w' r' eq_refl) as [E1 [E2 E3]]. subst t. repeat split; [|exact E3].
      cbn [forallb]. rewrite S. exact E2.
Qed.

Lemma extract_word_progress : forall l v r, extract_word l = ExtOk v r -> (length r < length l)%nat.
Proof.
  intros l v r H. unfold extract_word in H. destruct (span_nonspace l) as [w rest] eqn:S.
  destruct w as [|c w']; [discriminate|]. inversion H. subst.
  apply span_nonspace_spec in S. destruct S as [E _]. subst l. rewrite app_length. cbn [length]. lia.
Qed.

(* shape of scan_float: the text is sign ++ ip ++ frac ++ ex ++ rest *)
Lemma scan_float_shape : forall l f, scan_float l = f -> fscan_ok f = true ->
  exists sg frac ex e esg,
    l = sg ++ fs_int f ++ frac ++ ex ++ fs_rest f /\
    sign_of sg (fs_neg f) /\ digits (fs_int f) /\
    ((frac = [] /\ fs_frac f = []) \/ (frac = DOT :: fs_frac f /\ digits (fs_frac f))) /\
    fs_int f ++ fs_frac f <> [] /\
    ((ex = [] /\ fs_exp f = [] /\ fs_eneg f = false /\ fs_sci f = false) \/
     (is_e e = true /\ sign_of esg (fs_eneg f) /\ digits (fs_exp f) /\ fs_exp f <> [] /\
      ex = e :: esg ++ fs_exp f)).
Proof.
  intros l f H Hok. unfold scan_float in H.
  destruct (take_sign l) as [neg l1] eqn:T1. apply take_sign_spec in T1. destruct T1 as [sg [El Hsg]].
  destruct (span_digits l1) as [ip l2] eqn:S2.
  apply span_digits_spec in S2. destruct S2 as [E2 [Hip Hst2]].
  destruct (take_frac l2) as [fp l3] eqn:T3. apply take_frac_spec in T3. destruct T3 as [frac [E3 Hfrac]].
  destruct l3 as [|c t].
  - subst f. cbn [fs_int fs_frac fs_exp fs_rest fs_neg fs_eneg fs_sci] in *.
    unfold fscan_ok in Hok. cbn [fs_int fs_frac fs_exp fs_sci] in Hok.
    exists sg, frac, [], 0, []. repeat split; auto.
    + subst l l1 l2. cbn [app]. rewrite !app_nil_r. reflexivity.
    + destruct (ip ++ fp); [discriminate|discriminate].
  - destruct (is_e c && negb match ip ++ fp with [] => true | _ :: _ => false end) eqn:Ee.
    + apply andb_true_iff in Ee. destruct Ee as [Ee Hm].
      destruct (take_sign t) as [eneg l4] eqn:T4. apply take_sign_spec in T4. destruct T4 as [esg [E4 Hesg]].
      destruct (span_digits l4) as [ep l5] eqn:S5.
      apply span_digits_spec in S5. destruct S5 as [E5 [Hep _]].
      subst f. cbn [fs_int fs_frac fs_exp fs_rest fs_neg fs_eneg fs_sci] in *.
      unfold fscan_ok in Hok. cbn [fs_int fs_frac fs_exp fs_sci] in Hok.
      apply andb_true_iff in Hok. destruct Hok as [_ Hok]. cbn [negb orb] in Hok.
      exists sg, frac, (c :: esg ++ ep), c, esg. repeat split; auto.
      * subst l l1 l2 t l4. cbn [app]. rewrite <- !app_assoc. reflexivity.
      * destruct (ip ++ fp); [discriminate|discriminate].
      * right. repeat split; auto. destruct ep; [discriminate|discriminate].
    + subst f. cbn [fs_int fs_frac fs_exp fs_rest fs_neg fs_eneg fs_sci] in *.
      unfold fscan_ok in Hok. cbn [fs_int fs_frac fs_exp fs_sci] in Hok.
      exists sg, frac, [], 0, []. repeat split; auto.
      * subst l l1 l2. reflexivity.
      * destruct (ip ++ fp); [discriminate|discriminate].
Qed.

Lemma extract_real_progress : forall l v r, extract_real l = ExtOk v r -> (length r < length l)%nat.
Proof.
  intros l v r H. unfold extract_real in H.
  destruct (fscan_ok (scan_float l)) eqn:Hok; [|discriminate].
  destruct (negb (dec_overflows (fscan_dec (scan_float l)))); [|discriminate].
  cbn [andb] in H. inversion H. subst v r.
  destruct (scan_float_shape l _ eq_refl Hok) as [sg [frac [ex [e [esg [El [_ [_ [Hfrac [Hne _]]]]]]]]]].
  rewrite El at 2. rewrite !app_length.
  assert (length (fs_int (scan_float l)) + length frac > 0)%nat; [|lia].
  destruct Hfrac as [[Ef Efp]|[Ef _]].
  - rewrite Efp, app_nil_r in Hne. destruct (fs_int (scan_float l)); [congruence|cbn [length]; lia].
  - rewrite Ef. cbn [length]. lia.
Qed.

(* ------------------------------------------------------------------ the scanners accept exactly the literals *)

Lemma all_space_stops : forall w, all_space w -> stops_digits w /\ stops_sign w /\
  (match w with [] => True | c :: _ => is_e c = false /\ (c =? DOT) = false end).
Proof.
  intros w H. destruct w as [|c t]; [repeat split|].
  unfold all_space in H. cbn [forallb] in H. apply andb_true_iff in H. destruct H as [H _].
  destruct (space_not_token c H) as [A [B [C D]]]. repeat split; assumption.
Qed.

Lemma digits_cons : forall c l, digits (c :: l) -> is_digit c = true /\ digits l.
Proof. intros c l H. unfold digits in *. cbn [forallb] in H. apply andb_true_iff in H. exact H. Qed.

Lemma is_e_props : forall c, is_e c = true -> is_digit c = false /\ is_sign c = false /\ (c =? DOT) = false /\ is_space c = false.
Proof. intros c H. unfold is_space, is_digit, is_sign, is_e, DOT in *. zb. Qed.

Lemma dot_props : is_digit DOT = false /\ is_sign DOT = false /\ is_space DOT = false /\ is_e DOT = false.
Proof. repeat split. Qed.

Lemma sign_props : forall sg neg, sign_of sg neg -> sg = [] \/ exists c, sg = [c] /\ is_space c = false /\ is_sign c = true.
Proof.
  intros sg neg [[E _]|[[E _]|[E _]]]; subst sg; [left; reflexivity| |]; right; eexists; repeat split.
Qed.

Lemma scan_float_complete : forall sg neg ip frac fp ex e esg eneg ed w2,
  sign_of sg neg -> digits ip ->
  ((frac = [] /\ fp = []) \/ (frac = DOT :: fp /\ digits fp)) ->
  ip ++ fp <> [] ->
  ((ex = [] /\ ed = [] /\ eneg = false) \/
   (is_e e = true /\ sign_of esg eneg /\ digits ed /\ ed <> [] /\ ex = e :: esg ++ ed)) ->
  all_space w2 ->
  scan_float (sg ++ ip ++ frac ++ ex ++ w2) =
  {| fs_neg := neg; fs_int := ip; fs_frac := fp;
     fs_sci := negb (match ex with [] => true | _ => false end);
     fs_eneg := eneg; fs_exp := ed; fs_rest := w2 |}.
Proof.
  intros sg neg ip frac fp ex e esg eneg ed w2 Hsg Hip Hfrac Hne Hex Hw.
  destruct (all_space_stops w2 Hw) as [Wd [Ws We]].
  (* what follows the optional exponent part *)
  assert (Sex : stops_digits (ex ++ w2) /\
                (match ex ++ w2 with [] => True | c :: _ => (c =? DOT) = false end)).
  { destruct Hex as [[E _]|[He [_ [_ [_ E]]]]]; subst ex; cbn [app].
    - split; [exact Wd|]. destruct w2; [exact I|]. apply We.
    - destruct (is_e_props e He) as [A [_ [C _]]]. split; [exact A|exact C]. }
  destruct Sex as [Sex1 Sex2].
  assert (Sfrac : stops_digits (frac ++ ex ++ w2)).
  { destruct Hfrac as [[E _]|[E _]]; subst frac; cbn [app]; [exact Sex1|reflexivity]. }
  assert (Sip : stops_sign (ip ++ frac ++ ex ++ w2)).
  { destruct ip as [|d ip'].
    - destruct Hfrac as [[E1 E2]|[E _]].
      + subst fp. cbn [app] in Hne. congruence.
      + subst frac. cbn [app]. reflexivity.
    - cbn [app]. apply digits_cons in Hip. destruct Hip as [Hd _].
      apply digit_not_sign in Hd. apply Hd. }
  unfold scan_float.
  rewrite (take_sign_app sg neg _ Hsg Sip).
  rewrite (span_digits_app ip _ Hip Sfrac).
  assert (T3 : take_frac (frac ++ ex ++ w2) = (fp, ex ++ w2)).
  { destruct Hfrac as [[E1 E2]|[E1 Hfp]]; subst frac.
    - subst fp. cbn [app]. unfold take_frac. destruct (ex ++ w2) as [|c t]; [reflexivity|].
      rewrite Sex2. reflexivity.
    - cbn [app]. unfold take_frac. unfold DOT at 1. cbn [Z.eqb Pos.eqb]. fold DOT.
      rewrite (span_digits_app fp _ Hfp Sex1). reflexivity. }
  rewrite T3.
  assert (Hm : negb (match ip ++ fp with [] => true | _ :: _ => false end) = true).
  { destruct (ip ++ fp); [congruence|reflexivity]. }
  destruct Hex as [[E1 [E2 E3]]|[He [Hesg [Hed [Hedn E]]]]]; subst ex.
  - subst ed eneg. cbn [app]. destruct w2 as [|c t]; [reflexivity|].
    destruct We as [We _]. rewrite We. cbn [andb]. reflexivity.
  - cbn [app]. rewrite He, Hm. cbn [andb].
    assert (Sed : stops_sign (ed ++ w2)).
    { destruct ed as [|d ed']; [congruence|]. cbn [app]. apply digits_cons in Hed. destruct Hed as [Hd _].
      apply digit_not_sign in Hd. apply Hd. }
    rewrite <- app_assoc. rewrite (take_sign_app esg eneg _ Hesg Sed).
    rewrite (span_digits_app ed _ Hed Wd). reflexivity.
Qed.

Lemma float_lit_first_nonspace : forall tok d, float_lit tok d -> exists c t, tok = c :: t /\ is_space c = false.
Proof.
  intros tok d H. inversion H as [sg neg ip frac fp ex e esg eneg ed Hsg Hip Hfrac Hne Hex Et Ed]. subst.
  destruct (sign_props sg neg Hsg) as [E|[c [E [Hs _]]]]; subst sg.
  - cbn [app]. destruct ip as [|c ip'].
    + destruct Hfrac as [[E1 E2]|[E1 _]].
      * subst fp. cbn [app] in Hne. congruence.
      * subst frac. cbn [app]. eexists; eexists; split; [reflexivity|reflexivity].
    + cbn [app]. apply digits_cons in Hip. destruct Hip as [Hd _]. apply digit_not_sign in Hd.
      eexists; eexists; split; [reflexivity|apply Hd].
  - cbn [app]. eexists; eexists; split; [reflexivity|exact Hs].
Qed.

(* what the repaired _get_keyval_scalar_value_<double> accepts: exactly the texts that are one number
   literal surrounded by white space, with the literal's value, unless the value overflows a double *)
Lemma real_scalar_strict : forall data d,
  scalar_value extract_real data = SAccept d <->
  exists w1 tok w2, data = w1 ++ tok ++ w2 /\ all_space w1 /\ all_space w2 /\
                    float_lit tok d /\ dec_overflows d = false.
Proof.
  intros data d. rewrite (scalar_value_iff extract_real extract_real_progress). split.
  - intros [rest [N [E Hs]]].
    destruct (skip_space_spec data) as [w1 [Ed [Hw1 _]]].
    remember (skip_space data) as l' eqn:Hl'.
    unfold extract_real in E.
    remember (scan_float l') as f eqn:Hf.
    destruct (fscan_ok f) eqn:Hok; [|discriminate].
    destruct (dec_overflows (fscan_dec f)) eqn:Hov; [discriminate|].
    cbn [andb negb] in E. injection E as Ev Er.
    destruct (scan_float_shape l' f (eq_sym Hf) Hok) as [sg [frac [ex [e [esg [El [Hsg [Hip [Hfrac [Hne Hex]]]]]]]]]].
    exists w1, (sg ++ fs_int f ++ frac ++ ex), rest. split; [|split; [exact Hw1|split; [exact Hs|split]]].
    + rewrite Ed, El, Er. rewrite <- !app_assoc. reflexivity.
    + rewrite <- Ev. unfold fscan_dec. destruct Hex as [[E1 [E2 [E3 E4]]]|[He [Hesg [Hed [Hedn Eex]]]]].
      * rewrite E2, E3. cbn [digits_val].
        apply (FL sg _ _ frac _ ex 0 [] false []); auto.
      * eapply (FL sg _ _ frac _ ex e esg _ _); eauto. right. repeat split; auto.
    + rewrite <- Ev. exact Hov.
  - intros [w1 [tok [w2 [Ed [Hw1 [Hw2 [Hlit Hov]]]]]]].
    destruct (float_lit_first_nonspace tok d Hlit) as [c [t [Et Hc]]].
    assert (Sk : skip_space data = tok ++ w2).
    { subst data. rewrite skip_space_app by exact Hw1. subst tok. cbn [app]. apply skip_space_nonspace. exact Hc. }
    exists w2. rewrite Sk. repeat split.
    + subst tok. discriminate.
    + inversion Hlit as [sg neg ip frac fp ex e esg eneg ed Hsg Hip Hfrac Hne Hex Etok Edd].
      unfold extract_real. rewrite <- !app_assoc.
      rewrite (scan_float_complete sg neg ip frac fp ex e esg eneg ed w2 Hsg Hip Hfrac Hne Hex Hw2).
      assert (Hdec : fscan_dec {| fs_neg := neg; fs_int := ip; fs_frac := fp;
                                  fs_sci := negb match ex with [] => true | _ :: _ => false end;
                                  fs_eneg := eneg; fs_exp := ed; fs_rest := w2 |} = d).
      { rewrite <- Edd. reflexivity. }
      rewrite Hdec, Hov. cbn [negb andb].
      assert (Hok : fscan_ok {| fs_neg := neg; fs_int := ip; fs_frac := fp;
                                fs_sci := negb match ex with [] => true | _ :: _ => false end;
                                fs_eneg := eneg; fs_exp := ed; fs_rest := w2 |} = true).
      { unfold fscan_ok. cbn [fs_int fs_frac fs_sci fs_exp].
        destruct (ip ++ fp); [congruence|]. cbn [negb andb].
        destruct Hex as [[E1 _]|[_ [_ [_ [Hedn E1]]]]]; subst ex; [reflexivity|].
        destruct ed; [congruence|reflexivity]. }
      rewrite Hok. rewrite <- Edd. reflexivity.
    + exact Hw2.
Qed.

(* integers *)
Lemma extract_intr_complete : forall lo hi sg neg ds w2, sign_of sg neg -> digits ds -> ds <> [] -> all_space w2 ->
  extract_intr lo hi (sg ++ ds ++ w2) =
  let v := if neg then - digits_val ds 0 else digits_val ds 0 in
  if (lo <=? v) && (v <=? hi) then ExtOk v w2 else ExtFail.
Proof.
  intros lo hi sg neg ds w2 Hsg Hds Hn Hw. destruct (all_space_stops w2 Hw) as [Wd _].
  assert (Sd : stops_sign (ds ++ w2)).
  { destruct ds as [|d ds']; [congruence|]. cbn [app]. apply digits_cons in Hds. destruct Hds as [Hd _].
    apply digit_not_sign in Hd. apply Hd. }
  unfold extract_intr. rewrite (take_sign_app sg neg _ Hsg Sd). rewrite (span_digits_app ds _ Hds Wd).
  destruct ds as [|d ds']; [congruence|]. reflexivity.
Qed.

Lemma intr_scalar_strict : forall lo hi data z,
  scalar_value (extract_intr lo hi) data = SAccept z <->
  exists w1 tok w2, data = w1 ++ tok ++ w2 /\ all_space w1 /\ all_space w2 /\
                    int_lit tok z /\ lo <= z <= hi.
Proof.
  intros lo hi data z. rewrite (scalar_value_iff (extract_intr lo hi) (extract_intr_progress lo hi)). split.
  - intros [rest [N [E Hs]]].
    destruct (skip_space_spec data) as [w1 [Ed [Hw1 _]]].
    unfold extract_intr in E.
    destruct (take_sign (skip_space data)) as [neg l1] eqn:T. apply take_sign_spec in T. destruct T as [sg [El Hsg]].
    destruct (span_digits l1) as [ds r] eqn:Sd. apply span_digits_spec in Sd. destruct Sd as [E1 [Hds _]].
    destruct ds as [|d0 ds']; [discriminate|].
    destruct (((lo <=? _) && _)) eqn:Rg; [|discriminate].
    injection E as Ev Er. subst r.
    remember (skip_space data) as l' eqn:Hl'.
    exists w1, (sg ++ d0 :: ds'), rest. split; [|split; [exact Hw1|split; [exact Hs|split]]].
    + rewrite Ed, El, E1. rewrite <- !app_assoc. reflexivity.
    + rewrite <- Ev. apply IL; [exact Hsg|exact Hds|discriminate].
    + rewrite <- Ev. apply andb_true_iff in Rg. destruct Rg as [R1 R2].
      apply Z.leb_le in R1. apply Z.leb_le in R2. split; assumption.
  - intros [w1 [tok [w2 [Ed [Hw1 [Hw2 [Hlit [R1 R2]]]]]]]].
    inversion Hlit as [sg neg ds Hsg Hds Hn Etok Ez].
    assert (Hc : exists c t, tok = c :: t /\ is_space c = false).
    { subst tok. destruct (sign_props sg neg Hsg) as [E|[c [E [Hs _]]]]; subst sg.
      - destruct ds as [|d ds']; [congruence|]. cbn [app]. apply digits_cons in Hds. destruct Hds as [Hd _].
        apply digit_not_sign in Hd. eexists; eexists; split; [reflexivity|apply Hd].
      - cbn [app]. eexists; eexists; split; [reflexivity|exact Hs]. }
    destruct Hc as [c [t [Et Hc]]].
    assert (Sk : skip_space data = tok ++ w2).
    { subst data. rewrite skip_space_app by exact Hw1. rewrite Et. cbn [app]. apply skip_space_nonspace. exact Hc. }
    exists w2. rewrite Sk. repeat split.
    + rewrite Et. discriminate.
    + rewrite <- Etok. rewrite <- app_assoc. rewrite (extract_intr_complete lo hi sg neg ds w2 Hsg Hds Hn Hw2).
      cbv zeta. rewrite Ez.
      destruct (Z.leb_spec lo z); [|lia]. destruct (Z.leb_spec z hi); [|lia]. reflexivity.
    + exact Hw2.
Qed.

Lemma int_scalar_strict : forall data z,
  scalar_value extract_int data = SAccept z <->
  exists w1 tok w2, data = w1 ++ tok ++ w2 /\ all_space w1 /\ all_space w2 /\
                    int_lit tok z /\ -2147483648 <= z <= 2147483647.
Proof. exact (intr_scalar_strict _ _). Qed.

(* the pinned size_t rule accepted a negative number, reading it modulo 2^64 *)
Lemma size_negative_refuted :   (* "-5" *)
  scalar_value_lenient extract_size_pinned [45; 53] = SAccept 18446744073709551611 /\
  scalar_value extract_size [45; 53] = SReject.
Proof. split; vm_compute; reflexivity. Qed.

(* every character of an accepted number text is white space or can occur in a number *)
Lemma float_lit_chars : forall tok d, float_lit tok d -> forallb number_char tok = true.
Proof.
  intros tok d H. inversion H as [sg neg ip frac fp ex e esg eneg ed Hsg Hip Hfrac Hne Hex Et Ed].
  assert (Dg : forall l, digits l -> forallb number_char l = true).
  { induction l as [|c l IH]; intros Hl; [reflexivity|]. apply digits_cons in Hl. destruct Hl as [Hc Hl].
    cbn [forallb]. unfold number_char at 1. rewrite Hc. cbn [orb]. apply IH. exact Hl. }
  assert (Sg : forall s n, sign_of s n -> forallb number_char s = true).
  { intros s n [[E _]|[[E _]|[E _]]]; subst s; reflexivity. }
  rewrite !forallb_app. rewrite (Sg sg neg Hsg), (Dg ip Hip). cbn [andb].
  apply andb_true_iff. split.
  - destruct Hfrac as [[E _]|[E Hfp]]; subst frac; [reflexivity|].
    cbn [forallb]. rewrite (Dg fp Hfp). reflexivity.
  - destruct Hex as [[E _]|[He [Hesg [Hed [_ E]]]]]; subst ex; [reflexivity|].
    cbn [forallb]. rewrite forallb_app. rewrite (Sg esg eneg Hesg), (Dg ed Hed).
    unfold number_char. rewrite He. rewrite !orb_true_r. reflexivity.
Qed.

Lemma real_scalar_strict_chars : forall data d,
  scalar_value extract_real data = SAccept d -> forallb (fun c => is_space c || number_char c) data = true.
Proof.
  intros data d H. apply real_scalar_strict in H.
  destruct H as [w1 [tok [w2 [Ed [Hw1 [Hw2 [Hlit _]]]]]]]. subst data.
  assert (Sp : forall w, all_space w -> forallb (fun c => is_space c || number_char c) w = true).
  { induction w as [|c w IH]; intros Hw; [reflexivity|]. unfold all_space in Hw. cbn [forallb] in Hw.
    apply andb_true_iff in Hw. destruct Hw as [Hc Hw]. cbn [forallb]. rewrite Hc. cbn [orb andb]. apply IH. exact Hw. }
  rewrite !forallb_app. rewrite (Sp w1 Hw1), (Sp w2 Hw2). rewrite andb_true_r. cbn [andb].
  apply float_lit_chars in Hlit. revert Hlit. generalize tok. induction tok0 as [|c t IH]; intros H; [reflexivity|].
  cbn [forallb] in *. apply andb_true_iff in H. destruct H as [Hc Ht]. rewrite Hc, orb_true_r. cbn [andb]. apply IH. exact Ht.
Qed.

(* the pinned (lenient) rule accepts texts that are not a number: the defect found through this model *)
Lemma real_scalar_lenient_refuted :
  exists data d, scalar_value_lenient extract_real data = SAccept d /\
                 ~ (exists w1 tok w2, data = w1 ++ tok ++ w2 /\ all_space w1 /\ all_space w2 /\ float_lit tok d).
Proof.
  (* "0.5abc" *)
  exists [48; 46; 53; 97; 98; 99]. eexists. split; [vm_compute; reflexivity|].
  intros [w1 [tok [w2 [Ed [Hw1 [Hw2 Hlit]]]]]].
  assert (H : forallb (fun c => is_space c || number_char c) [48; 46; 53; 97; 98; 99] = true).
  { rewrite Ed. apply float_lit_chars in Hlit.
    assert (Sp : forall w, all_space w -> forallb (fun c => is_space c || number_char c) w = true).
    { induction w as [|c w IH]; intros Hw; [reflexivity|]. unfold all_space in Hw. cbn [forallb] in Hw.
      apply andb_true_iff in Hw. destruct Hw as [Hc Hw]. cbn [forallb]. rewrite Hc. cbn [orb andb]. apply IH. exact Hw. }
    rewrite !forallb_app. rewrite (Sp w1 Hw1), (Sp w2 Hw2). rewrite andb_true_r. cbn [andb].
    revert Hlit. generalize tok. induction tok0 as [|c t IH]; intros H; [reflexivity|].
    cbn [forallb] in *. apply andb_true_iff in H. destruct H as [Hc Ht]. rewrite Hc, orb_true_r. cbn [andb]. apply IH. exact Ht. }
  vm_compute in H. discriminate.
Qed.

Lemma real_scalar_lenient_refuted2 :   (* "1 abc" *)
  exists data d, scalar_value_lenient extract_real data = SAccept d /\ scalar_value extract_real data = SReject.
Proof. exists [49; 32; 97; 98; 99]. eexists. split; vm_compute; reflexivity. Qed.

Lemma int_scalar_lenient_refuted :    (* "5.5" read as the integer 5 *)
  exists data z, scalar_value_lenient extract_int data = SAccept z /\ scalar_value extract_int data = SReject.
Proof. exists [53; 46; 53]. eexists. split; vm_compute; reflexivity. Qed.

Lemma vector_dyn_lenient_refuted :    (* "1 2 x 3": the pinned code returns (1, 2) and no error *)
  exists data vs, vector_dyn_lenient extract_real data = VAccept vs /\ vector_dyn extract_real data = VReject.
Proof. exists [49; 32; 50; 32; 120; 32; 51]. eexists. split; vm_compute; reflexivity. Qed.

Lemma vector_fixed_lenient_refuted :  (* one value expected, "1 2 3" given: surplus dropped silently *)
  exists data vs, vector_fixed_lenient extract_real 1 data = VAccept vs /\ vector_fixed extract_real 1 data = VReject.
Proof. exists [49; 32; 50; 32; 51]. eexists. split; vm_compute; reflexivity. Qed.

Lemma vector_unseparated_refuted :    (* "1.2.3": the pinned code returns (1.2, 0.3) *)
  exists data vs, vector_dyn_lenient extract_real data = VAccept vs /\ length vs = 2%nat /\
                  vector_dyn extract_real data = VReject.
Proof. exists [49; 46; 50; 46; 51]. eexists. repeat split; vm_compute; reflexivity. Qed.
