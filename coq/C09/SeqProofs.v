(* Sequences of configurations on one module-level parser object: the registry is empty at the start of every
   read_config_string, hence the verdict on a configuration does not depend on the earlier ones. *)
From Coq Require Import ZArith List Bool Arith Lia.
From CV Require Import C09.ParseModel C09.ParseProofs C09.NumProofs C09.NestedProofs.
Import ListNotations.
Local Open Scope Z_scope.

Lemma mitems_spec : forall strict items conf st,
  mitems strict items conf st =
  ({| ms_allowed := ms_allowed st ++ map ir_allowed (map (fun i => item_res strict i conf) items);
      ms_regs := ms_regs st ++ flat_map ir_regs (map (fun i => item_res strict i conf) items) |},
   existsb ir_err (map (fun i => item_res strict i conf) items)).
Proof.
  intros strict. induction items as [|it rest IH]; intros conf st.
  - cbn. rewrite !app_nil_r. destruct st. reflexivity.
  - cbn [mitems map flat_map existsb]. rewrite IH. cbn [ms_allowed ms_regs].
    rewrite <- !app_assoc. reflexivity.
Qed.

(* with an empty registry, one step of the module is the nested client on that configuration alone *)
Lemma mstep_fresh : forall strict items raw,
  snd (mstep strict items mempty raw) = nparse_config strict items raw.
Proof.
  intros strict items raw. unfold mstep, nparse_config, nparse, level_ok.
  destruct (check_braces (strip_comments raw) O); cbn [negb andb]; [|reflexivity].
  rewrite mitems_spec. cbn [ms_allowed ms_regs mempty app].
  destruct (existsb ir_err _); cbn [negb andb snd]; [reflexivity|].
  unfold p_check. cbn [ms_allowed ms_regs].
  destruct (check_keywords _ _ _); reflexivity.
Qed.

(* the invariant: whatever the configuration and whatever the outcome, a step that starts with an empty
   registry ends with an empty registry (parse->clear() on every error path, clear_keyword_registry() on success,
   and the brace error is raised before anything is looked up) *)
Lemma mstep_keeps_empty : forall strict items raw, fst (mstep strict items mempty raw) = mempty.
Proof.
  intros strict items raw. unfold mstep.
  destruct (check_braces (strip_comments raw) O); cbn [negb]; [|reflexivity].
  destruct (mitems strict items (strip_comments raw) mempty) as [st1 err].
  destruct err; [reflexivity|]. unfold p_check.
  destruct (check_keywords _ _ _); reflexivity.
Qed.

(* for ALL sequences of configurations: the registry is empty after the sequence, and the verdict on the k-th
   configuration is the verdict a fresh parser gives on that configuration alone *)
Lemma mrun_independent : forall strict items raws,
  mrun strict items mempty raws = (mempty, map (nparse_config strict items) raws).
Proof.
  intros strict items. induction raws as [|raw rest IH]; [reflexivity|].
  cbn [mrun map]. pose proof (mstep_keeps_empty strict items raw) as H1.
  pose proof (mstep_fresh strict items raw) as H2.
  destruct (mstep strict items mempty raw) as [st1 ok]. cbn [fst snd] in H1, H2. subst st1 ok.
  rewrite IH. reflexivity.
Qed.

(* without the clearing the verdicts DO depend on the history: the same parser object used for two texts with no
   clear in between (pseq) accepts a misspelt keyword that sits where the first text had a value *)
Lemma stale_registry_refuted :
  exists items c1 c2, pseq true items mempty [c1; c2] = [false; true] /\ pseq true items mempty [c2] = [false].
Proof.
  (* schema: block k { a <real> };  c1 = "k {\n  a 1\n  bb 2\n}\nzz 1\n" (rejected: zz), c2 = "k {\n  a 1\n}\nqq 2\n" *)
  exists [NBlock [107] [NLeaf [97] KReal; NLeaf [98; 98] KReal]],
         [107; 32; 123; 10; 32; 32; 97; 32; 49; 10; 32; 32; 98; 98; 32; 50; 10; 125; 10; 122; 122; 32; 49; 10],
         [107; 32; 123; 10; 32; 32; 97; 32; 49; 10; 125; 10; 113; 113; 32; 50; 10].
  split; vm_compute; reflexivity.
Qed.

(* key_lookup is a function of (configuration, keyword, start position) only: on one parser object, whatever was
   looked up before and in whatever texts (same length or not), every call returns what a fresh parser returns *)
Lemma lookup_seq_pure : forall calls st,
  snd (lookup_seq st calls) = map (fun c => key_lookup (fuel_of (fst (fst c))) (fst (fst c)) (snd (fst c)) (snd c)) calls.
Proof.
  induction calls as [|[[conf key] sp] rest IH]; intros st; [reflexivity|].
  cbn [lookup_seq map fst snd].
  match goal with |- context [lookup_seq ?s rest] => specialize (IH s); destruct (lookup_seq s rest) as [st2 rs] end.
  cbn [snd] in *. rewrite IH. reflexivity.
Qed.

Lemma lookup_after_history : forall st pre conf key sp,
  last (snd (lookup_seq st (pre ++ [(conf, key, sp)]))) KL_notfound = key_lookup (fuel_of conf) conf key sp.
Proof.
  intros st pre conf key sp. rewrite lookup_seq_pure, map_app. cbn [map fst snd]. apply last_last.
Qed.

(* ------------------------------------------------------------------ index files *)

Lemma index_numbers_length : forall fuel l vs r, index_numbers fuel l = (vs, r) -> (length r <= length l)%nat.
Proof.
  induction fuel as [|f IH]; intros l vs r H.
  - cbn in H. inversion H. lia.
  - cbn [index_numbers] in H. pose proof (NumProofs.skip_space_length l) as HL.
    destruct (skip_space l) as [|c t]; [inversion H; cbn; lia|].
    destruct (extract_int (c :: t)) as [v rest|] eqn:E; [|inversion H; lia].
    apply NumProofs.extract_int_progress in E.
    destruct (0 <? v); [|inversion H; lia].
    destruct (index_numbers f rest) as [vs' r'] eqn:R. apply IH in R. inversion H. subst. lia.
Qed.

(* reading an index file terminates within the fuel the model gives it, for every text *)
Lemma index_loop_total : forall strict fuel l gs, (length l < fuel)%nat -> index_loop strict fuel l gs <> IndexOutOfFuel.
Proof.
  intros strict. induction fuel as [|f IH]; intros l gs H; [lia|].
  cbn [index_loop].
  destruct (expect_char 91 l) as [l1|] eqn:E1; [|discriminate]. apply expect_char_length in E1.
  pose proof (NumProofs.skip_space_length l1) as HL.
  destruct (extract_word (skip_space l1)) as [name l2|] eqn:E2; [|discriminate].
  apply NumProofs.extract_word_progress in E2.
  destruct (expect_char 93 l2) as [l3|] eqn:E3; [|discriminate]. apply expect_char_length in E3.
  destruct (index_numbers (S (length l3)) l3) as [nums rest] eqn:EN. apply index_numbers_length in EN.
  destruct (match assoc_find name gs with Some old => if int_list_eqb old nums then Some gs else None | None => Some (gs ++ [(name, nums)]) end) as [gs'|]; [|discriminate].
  destruct (skip_space rest) as [|c t]; [discriminate|].
  destruct (c =? 91); [apply IH; lia|destruct strict; discriminate].
Qed.

Lemma parse_index_total : forall strict text, parse_index strict text <> IndexOutOfFuel.
Proof. intros strict text. unfold parse_index. apply index_loop_total. lia. Qed.

(* the repaired reader accepts a subset of what the pinned one accepted, with the same groups ... *)
Lemma index_strict_implies_pinned : forall fuel l gs gs',
  index_loop true fuel l gs = IndexOk gs' -> index_loop false fuel l gs = IndexOk gs'.
Proof.
  induction fuel as [|f IH]; intros l gs gs' H; [discriminate|].
  cbn [index_loop] in *.
  destruct (expect_char 91 l) as [l1|]; [|discriminate].
  destruct (extract_word (skip_space l1)) as [name l2|]; [|discriminate].
  destruct (expect_char 93 l2) as [l3|]; [|discriminate].
  destruct (index_numbers (S (length l3)) l3) as [nums rest].
  destruct (match assoc_find name gs with Some old => if int_list_eqb old nums then Some gs else None | None => Some (gs ++ [(name, nums)]) end) as [gs2|]; [|discriminate].
  destruct (skip_space rest) as [|c t]; [exact H|].
  destruct (c =? 91); [apply IH; exact H|discriminate].
Qed.

(* ... and the pinned one silently dropped everything after the first text that is not a positive number:
   "[ g ] 1 2 x 3" defined g = (1, 2) *)
Lemma index_pinned_refuted :
  exists text gs, parse_index false text = IndexOk gs /\ parse_index true text = IndexError.
Proof. exists [91; 32; 103; 32; 93; 32; 49; 32; 50; 32; 120; 32; 51]. eexists. split; vm_compute; reflexivity. Qed.

(* ------------------------------------------------------------------ parse_required and key_already_set *)

(* a keyword looked up with parse_required in a text that does not contain it is an error exactly when no earlier call
   on the same parser object has marked it (by reading a value text or by assigning the default); on a fresh object
   it is always an error *)
Lemma kv_required_missing : forall st ovr conf key,
  ksv_found (key_string_values conf key) = false -> ksv_data (key_string_values conf key) = [] ->
  ko_err (snd (kv_call st true ovr conf key)) = ksv_err (key_string_values conf key) || negb (kv_set st) /\
  fst (kv_call st true ovr conf key) = st.
Proof.
  intros st ovr conf key Hf Hd. unfold kv_call. rewrite Hd, Hf. cbn. split; reflexivity.
Qed.

Lemma kv_required_missing_fresh : forall v ovr conf key,
  ksv_found (key_string_values conf key) = false -> ksv_data (key_string_values conf key) = [] ->
  ko_err (snd (kv_call {| kv_set := false; kv_val := v |} true ovr conf key)) = true.
Proof.
  intros v ovr conf key Hf Hd. destruct (kv_required_missing {| kv_set := false; kv_val := v |} ovr conf key Hf Hd) as [E _].
  rewrite E. cbn. apply orb_true_r.
Qed.

(* without parse_required: the default is assigned (and the key marked) iff parse_override is given or the key was
   not set before; otherwise the value is left as it is *)
Lemma kv_default_rule : forall st ovr conf key,
  ksv_found (key_string_values conf key) = false -> ksv_data (key_string_values conf key) = [] ->
  ko_val (snd (kv_call st false ovr conf key)) = (if ovr || negb (kv_set st) then KvDefault else kv_val st).
Proof.
  intros st ovr conf key Hf Hd. unfold kv_call. rewrite Hd, Hf. cbn. destruct (ovr || negb (kv_set st)); reflexivity.
Qed.
