(* strip_values after the repair, and the unknown-keyword theorem stated on the ORIGINAL text. *)
From Coq Require Import ZArith List Bool Arith Lia.
From CV Require Import C09.ParseModel C09.ParseProofs C09.LookupProofs C09.FlatProofs.
Import ListNotations.
Local Open Scope Z_scope.

Lemma strip_from_app : forall rs a b i,
  strip_from rs (a ++ b) i = strip_from rs a i ++ strip_from rs b (i + length a).
Proof.
  intros rs. induction a as [|c a IH]; intros b i.
  - cbn [app strip_from length]. rewrite Nat.add_0_r. reflexivity.
  - cbn [app strip_from length]. rewrite IH. replace (S i + length a)%nat with (i + S (length a))%nat by lia.
    destruct (covered rs i); reflexivity.
Qed.

Lemma strip_from_uncovered : forall rs l i,
  (forall j, (j < length l)%nat -> covered rs (i + j) = false) -> strip_from rs l i = l.
Proof.
  intros rs. induction l as [|c l IH]; intros i H; [reflexivity|].
  cbn [strip_from]. rewrite <- (Nat.add_0_r i) at 1. rewrite (H O) by (cbn; lia). f_equal.
  apply IH. intros j Hj. replace (S i + j)%nat with (i + S j)%nat by lia. apply H. cbn. lia.
Qed.

(* every character of the result is a character of conf that belongs to no registered value, in order:
   the result is a sub-sequence; in particular strip_values is total and never longer than conf *)
Lemma strip_from_length : forall rs l i, (length (strip_from rs l i) <= length l)%nat.
Proof.
  intros rs. induction l as [|c l IH]; intros i; [cbn; lia|].
  cbn [strip_from]. destruct (covered rs i); cbn [length]; specialize (IH (S i)); lia.
Qed.

(* a line of the original text survives strip_values when none of its characters, nor the line ends around it,
   belongs to a registered value *)
Definition line_untouched (rs : list kl_reg) (A L B : list Z) : Prop :=
  no_lf L /\
  (A = [] \/ exists A0, A = A0 ++ [LF] /\ covered rs (length A0) = false) /\
  (forall j, (j < length L)%nat -> covered rs (length A + j) = false) /\
  (B = [] \/ exists B0, B = LF :: B0 /\ covered rs (length A + length L) = false).

Lemma line_survives : forall rs A L B, L <> [] -> line_untouched rs A L B ->
  In L (split_lines (strip_values (A ++ L ++ B) rs)).
Proof.
  intros rs A L B Hn [Hl [HA [HL HB]]]. unfold strip_values.
  rewrite strip_from_app, strip_from_app. cbn [Nat.add].
  rewrite (strip_from_uncovered rs L (length A)) by exact HL.
  set (A' := strip_from rs A 0).
  assert (EA : ends_lf A').
  { subst A'. destruct HA as [E|[A0 [E Hc]]].
    - subst A. left. reflexivity.
    - subst A. right. rewrite strip_from_app. cbn [strip_from Nat.add]. rewrite Hc.
      exists (strip_from rs A0 0). reflexivity. }
  rewrite split_lines_app by exact EA. apply in_or_app. right.
  destruct HB as [E|[B0 [E Hc]]].
  - subst B. cbn [strip_from]. rewrite app_nil_r. rewrite split_lines_last by assumption. left. reflexivity.
  - subst B. cbn [strip_from]. rewrite Hc. rewrite split_lines_line by exact Hl. left. reflexivity.
Qed.

(* Unknown keywords, on the original text: if a configuration is accepted, every non-blank line of the ORIGINAL
   configuration that is not part of a looked-up value (line_untouched) begins with a keyword of the schema.
   Contrapositive: a misspelt keyword, or a keyword of another context, on a line of its own that no value swallows
   makes the parser refuse the configuration -- whatever else the configuration contains. *)
Lemma unknown_keyword_rejected_original : forall strict schema A L B vs, schema_ok schema ->
  parse_flat strict schema (A ++ L ++ B) = PAccept vs ->
  line_untouched (registry_of strict schema (A ++ L ++ B)) A L B ->
  blank_line L \/ starts_with_keyword (schema_keywords schema) L.
Proof.
  intros strict schema A L B vs Hs H Hu.
  destruct L as [|c L'].
  - left. left. reflexivity.
  - apply (unknown_keyword_rejected strict schema _ vs Hs H). apply line_survives; [discriminate|exact Hu].
Qed.

(* the pinned strip_values could throw: nested ranges with different ends, begin/end lists sorted separately *)
Lemma strip_values_pinned_refuted :
  exists conf rs, (forall b e, In (Reg b e) rs -> (b < e <= length conf)%nat) /\ strip_values_pinned conf rs = None.
Proof.
  (* "k {\n} m 12345x { 12345 } {\n}\n" with the ranges of k's block and of m's value as the pinned code registered them *)
  exists [107; 32; 123; 10; 125; 32; 109; 32; 49; 50; 51; 52; 53; 120; 32; 123; 32; 49; 50; 51; 52; 53; 32; 125; 32; 123; 10; 125; 10],
         [Reg 3 22; Reg 8 13].
  split; [|vm_compute; reflexivity].
  intros b e [E|[E|[]]]; inversion E; subst; cbn; lia.
Qed.

(* ------------------------------------------------------------------ the registered range is where the value sits *)

Lemma substr_app_adjacent : forall (s : list Z) a b c, (a <= b <= c)%nat ->
  substr s a (b - a) ++ substr s b (c - b) = substr s a (c - a).
Proof.
  intros s a b c H. unfold substr.
  replace (skipn b s) with (skipn (b - a) (skipn a s)) by (rewrite skipn_skipn_Z; f_equal; lia).
  replace (c - a)%nat with ((b - a) + (c - b))%nat by lia. rewrite firstn_add. reflexivity.
Qed.

Lemma brace_loop_line : forall conf lb fuel line le last count line' le',
  (lb <= le <= length conf)%nat -> line = substr conf lb (le - lb) ->
  brace_loop fuel conf line le last count = BDone line' le' ->
  line' = substr conf lb (le' - lb) /\ (le <= le' <= length conf)%nat.
Proof.
  intros conf lb. induction fuel as [|f IH]; intros line le last count line' le' Hle El H; [discriminate|].
  cbn [brace_loop] in H.
  destruct (scan_line (skipn (S last) line) (S last) count last) as [[hit count'] last'].
  destruct hit; [inversion H; subst; split; [reflexivity|lia]|].
  destruct (Nat.leb_spec (length conf) le) as [L|L]; [discriminate|].
  pose proof (find_if_spec is_lf conf (S le)) as Hs.
  set (le2 := match find_if is_lf conf (S le) with None => length conf | Some nl => nl end) in *.
  assert (Hle2 : (le < le2 <= length conf)%nat).
  { subst le2. destruct (find_if is_lf conf (S le)) as [nl|]; [destruct Hs as [R _]; lia|lia]. }
  apply (IH _ le2 last' count' line' le') in H; [destruct H as [H1 H2]; split; [exact H1|lia]|lia|].
  rewrite El. apply substr_app_adjacent. lia.
Qed.

Lemma substr_substr : forall (s : list Z) lb n a m, (a + m <= n)%nat ->
  substr (substr s lb n) a m = substr s (lb + a) m.
Proof.
  intros s lb n a m H. unfold substr. rewrite skipn_firstn_comm, skipn_skipn_Z, firstn_firstn.
  f_equal. lia.
Qed.

Lemma substr_length_le : forall (s : list Z) b n, (length (substr s b n) <= n)%nat.
Proof. intros s b n. unfold substr. rewrite firstn_length. lia. Qed.

(* what strip_values erases for a keyword is exactly the text returned as its value *)
Lemma extract_value_reg_exact : forall fuel conf key pos p data sp b e,
  extract_value fuel conf key pos = KL_found p data sp (Reg b e) ->
  substr conf b (e - b) = data /\ (e = b + length data)%nat /\ data <> [].
Proof.
  intros fuel conf key pos p data sp b e H. unfold extract_value in H.
  set (lb := line_begin_of conf pos) in *.
  set (le := match find_if is_lf conf pos with None => length conf | Some nl => nl end) in *.
  set (line := substr conf lb (le - lb)) in *.
  assert (Hmk : forall d line0 n a m, d = (if (a <? m)%nat then substr line0 a (m - a) else []) ->
            line0 = substr conf lb n -> (m <= length line0)%nat ->
            mk_reg d (lb + a) = Reg b e -> substr conf b (e - b) = d /\ (e = b + length d)%nat /\ d <> []).
  { intros d line0 n a m Ed El Hm Hr.
    destruct (Nat.ltb_spec a m) as [L|L]; [|subst d; discriminate Hr].
    subst line0. pose proof (substr_length_le conf lb n) as Hn.
    assert (Elen : length d = (m - a)%nat).
    { subst d. unfold substr at 1. rewrite firstn_length, skipn_length. lia. }
    assert (Es : d = substr conf (lb + a) (m - a)) by (subst d; apply substr_substr; lia).
    assert (Hr2 : b = (lb + a)%nat /\ e = (lb + a + length d)%nat).
    { unfold mk_reg in Hr. destruct d; [discriminate|inversion Hr; split; reflexivity]. }
    destruct Hr2 as [Eb Ee]. subst b e.
    replace (lb + a + length d - (lb + a))%nat with (length d) by lia. rewrite Elen.
    split; [symmetry; exact Es|split; [lia|intros E; rewrite E in Elen; cbn in Elen; lia]]. }
  pose proof (find_if_spec is_lf conf pos) as Hs.
  assert (Hle0 : (le <= length conf)%nat).
  { unfold le. destruct (find_if is_lf conf pos) as [nl|]; [destruct Hs as [R _]; lia|lia]. }
  match type of H with context [find_if ?P line ?st] =>
    pose proof (find_if_spec P line st) as Hd; destruct (find_if P line st) as [db|]; [|discriminate] end.
  destruct Hd as [Rd _].
  assert (Hle : (lb <= le <= length conf)%nat).
  { pose proof (substr_length_le conf lb (le - lb)) as Hn. fold line in Hn. lia. }
  destruct (find_if (fun c => c =? LBRACE) line db) as [br|].
  - destruct (brace_loop fuel conf line le br 1) as [line' le'| |] eqn:Bl; [|discriminate|discriminate].
    injection H as Ep Ed Es Er.
    destruct (brace_loop_line conf lb fuel line le br 1 line' le' Hle eq_refl Bl) as [El' _].
    rewrite Ed in Er.
    eapply (Hmk data line' (le' - lb)%nat); [symmetry; exact Ed|exact El'| |exact Er].
    match goal with |- (match ?x with Some k => S k | None => O end <= _)%nat =>
      pose proof (rfind_if_spec (fun c => negb (is_ws c)) line'
        (match rfind_if (fun c => c =? RBRACE) line' (length line') with Some (S k) => k | _ => length line' end)) as Hr;
      destruct x as [k|]; [destruct Hr as [_ [Hr _]]; lia|lia] end.
  - injection H as Ep Ed Es Er.
    rewrite Ed in Er.
    eapply (Hmk data line (le - lb)%nat); [symmetry; exact Ed|reflexivity| |exact Er].
    match goal with |- (match ?x with Some k => S k | None => O end <= _)%nat =>
      pose proof (rfind_if_spec (fun c => negb (is_ws c)) line (length line)) as Hr;
      destruct x as [k|]; [destruct Hr as [_ [Hr _]]; lia|lia] end.
Qed.
