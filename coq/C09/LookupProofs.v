(* Lemmas about key_lookup of the parser model: string primitives, termination (fuel), what is found. *)
From Coq Require Import ZArith List Bool Arith Lia.
From CV Require Import C09.ParseModel C09.ParseProofs.
Import ListNotations.
Local Open Scope Z_scope.

(* ------------------------------------------------------------------ string primitives *)

Lemma nth_skipn_Z : forall (s : list Z) from j, nth j (skipn from s) 0 = nth (from + j) s 0.
Proof.
  induction s as [|c t IH]; intros from j.
  - rewrite skipn_nil. destruct j, from; reflexivity.
  - destruct from as [|f]; [reflexivity|]. cbn [skipn Nat.add nth]. apply IH.
Qed.

Lemma find_if_aux_spec : forall P s i,
  match find_if_aux P s i with
  | Some k => (i <= k < i + length s)%nat /\ P (nth (k - i) s 0) = true /\
              forall j, (j < k - i)%nat -> P (nth j s 0) = false
  | None => forall j, (j < length s)%nat -> P (nth j s 0) = false
  end.
Proof.
  intros P. induction s as [|c t IH]; intros i.
  - cbn. intros j Hj. lia.
  - cbn [find_if_aux]. destruct (P c) eqn:Pc.
    + cbn [length]. replace (i - i)%nat with O by lia. repeat split; [lia|lia|exact Pc|]. intros j Hj. lia.
    + specialize (IH (S i)). destruct (find_if_aux P t (S i)) as [k|].
      * destruct IH as [R [Pk Hb]]. cbn [length]. repeat split; [lia|lia| |].
        -- replace (k - i)%nat with (S (k - S i)) by lia. exact Pk.
        -- intros j Hj. destruct j as [|j']; [exact Pc|]. cbn [nth]. apply Hb. lia.
      * intros j Hj. destruct j as [|j']; [exact Pc|]. cbn [nth]. apply IH. cbn [length] in Hj. lia.
Qed.

Lemma find_if_spec : forall P s from,
  match find_if P s from with
  | Some k => (from <= k < length s)%nat /\ P (nth k s 0) = true /\
              forall j, (from <= j < k)%nat -> P (nth j s 0) = false
  | None => forall j, (from <= j < length s)%nat -> P (nth j s 0) = false
  end.
Proof.
  intros P s from. unfold find_if. pose proof (find_if_aux_spec P (skipn from s) from) as H.
  destruct (find_if_aux P (skipn from s) from) as [k|].
  - destruct H as [R [Pk Hb]]. rewrite skipn_length in R. rewrite nth_skipn_Z in Pk.
    replace (from + (k - from))%nat with k in Pk by lia. repeat split; [lia|lia|exact Pk|].
    intros j Hj. specialize (Hb (j - from)%nat). rewrite nth_skipn_Z in Hb.
    replace (from + (j - from))%nat with j in Hb by lia. apply Hb. lia.
  - intros j Hj. specialize (H (j - from)%nat). rewrite skipn_length, nth_skipn_Z in H.
    replace (from + (j - from))%nat with j in H by lia. apply H. lia.
Qed.

Lemma rfind_if_aux_spec : forall P s i acc,
  match rfind_if_aux P s i acc with
  | Some k => (acc = Some k /\ forall j, (j < length s)%nat -> P (nth j s 0) = false) \/
              ((i <= k < i + length s)%nat /\ P (nth (k - i) s 0) = true /\
               forall j, (k - i < j < length s)%nat -> P (nth j s 0) = false)
  | None => acc = None /\ forall j, (j < length s)%nat -> P (nth j s 0) = false
  end.
Proof.
  intros P. induction s as [|c t IH]; intros i acc.
  - cbn [rfind_if_aux]. destruct acc as [k|].
    + left. split; [reflexivity|]. intros j Hj. cbn in Hj. lia.
    + split; [reflexivity|]. intros j Hj. cbn in Hj. lia.
  - cbn [rfind_if_aux]. specialize (IH (S i) (if P c then Some i else acc)).
    destruct (rfind_if_aux P t (S i) (if P c then Some i else acc)) as [k|].
    + destruct IH as [[Ea Hb]|[R [Pk Hb]]].
      * destruct (P c) eqn:Pc.
        -- inversion Ea. subst k. right. cbn [length]. replace (i - i)%nat with O by lia.
           repeat split; [lia|lia|exact Pc|]. intros j Hj. destruct j as [|j']; [lia|]. cbn [nth]. apply Hb. lia.
        -- left. split; [exact Ea|]. intros j Hj. destruct j as [|j']; [exact Pc|]. cbn [nth]. apply Hb.
           cbn [length] in Hj. lia.
      * right. cbn [length]. repeat split; [lia|lia| |].
        -- replace (k - i)%nat with (S (k - S i)) by lia. exact Pk.
        -- intros j Hj. destruct j as [|j']; [lia|]. cbn [nth]. apply Hb. lia.
    + destruct IH as [Ea Hb]. destruct (P c) eqn:Pc; [discriminate|]. split; [exact Ea|].
      intros j Hj. destruct j as [|j']; [exact Pc|]. cbn [nth]. apply Hb. cbn [length] in Hj. lia.
Qed.

Lemma nth_firstn_Z : forall (s : list Z) n j, (j < n)%nat -> nth j (firstn n s) 0 = nth j s 0.
Proof.
  induction s as [|c t IH]; intros n j H.
  - rewrite firstn_nil. reflexivity.
  - destruct n as [|n']; [lia|]. destruct j as [|j']; [reflexivity|]. cbn [firstn nth]. apply IH. lia.
Qed.

Lemma rfind_if_spec : forall P s pos,
  match rfind_if P s pos with
  | Some k => (k <= pos)%nat /\ (k < length s)%nat /\ P (nth k s 0) = true /\
              forall j, (k < j <= pos)%nat -> (j < length s)%nat -> P (nth j s 0) = false
  | None => forall j, (j <= pos)%nat -> (j < length s)%nat -> P (nth j s 0) = false
  end.
Proof.
  intros P s pos. unfold rfind_if.
  pose proof (rfind_if_aux_spec P (firstn (S pos) s) O None) as H.
  pose proof (firstn_length (S pos) s) as L.
  destruct (rfind_if_aux P (firstn (S pos) s) 0 None) as [k|].
  - destruct H as [[Ea _]|[R [Pk Hb]]]; [discriminate|].
    replace (k - 0)%nat with k in * by lia. rewrite nth_firstn_Z in Pk by lia.
    repeat split; [lia|lia|exact Pk|]. intros j Hj Hl. specialize (Hb j). rewrite nth_firstn_Z in Hb by lia.
    apply Hb. lia.
  - destruct H as [_ Hb]. intros j Hj Hl. specialize (Hb j). rewrite nth_firstn_Z in Hb by lia. apply Hb. lia.
Qed.

(* occurrence of a needle *)
Definition occurs (s needle : list Z) (p : nat) : Prop := prefixb needle (skipn p s) = true.

Lemma prefixb_length : forall p s, prefixb p s = true -> (length p <= length s)%nat.
Proof.
  induction p as [|a p IH]; intros s H; [cbn; lia|].
  destruct s as [|b s]; [discriminate|]. cbn [prefixb] in H. apply andb_true_iff in H. destruct H as [_ H].
  apply IH in H. cbn [length]. lia.
Qed.

Lemma prefixb_nth : forall p s, prefixb p s = true -> forall j, (j < length p)%nat -> nth j s 0 = nth j p 0.
Proof.
  induction p as [|a p IH]; intros s H j Hj; [cbn in Hj; lia|].
  destruct s as [|b s]; [discriminate|]. cbn [prefixb] in H. apply andb_true_iff in H. destruct H as [E H].
  apply Z.eqb_eq in E. subst b. destruct j as [|j']; [reflexivity|]. cbn [nth]. apply IH; [exact H|cbn in Hj; lia].
Qed.

Lemma find_sub_aux_spec : forall needle s i,
  match find_sub_aux s needle i with
  | Some k => (i <= k)%nat /\ (k - i + length needle <= length s)%nat /\ prefixb needle (skipn (k - i) s) = true /\
              forall j, (j < k - i)%nat -> prefixb needle (skipn j s) = false
  | None => forall j, (j <= length s)%nat -> prefixb needle (skipn j s) = false
  end.
Proof.
  intros needle. induction s as [|c t IH]; intros i.
  - cbn [find_sub_aux]. destruct (prefixb needle []) eqn:Pn.
    + replace (i - i)%nat with O by lia. cbn [skipn]. pose proof (prefixb_length _ _ Pn). repeat split; [lia|lia|exact Pn|].
      intros j Hj. lia.
    + intros j Hj. rewrite skipn_nil. exact Pn.
  - cbn [find_sub_aux]. destruct (prefixb needle (c :: t)) eqn:Pn.
    + replace (i - i)%nat with O by lia. cbn [skipn]. pose proof (prefixb_length _ _ Pn). repeat split; [lia|lia|exact Pn|].
      intros j Hj. lia.
    + specialize (IH (S i)). destruct (find_sub_aux t needle (S i)) as [k|].
      * destruct IH as [R [L [Pk Hb]]]. replace (k - i)%nat with (S (k - S i)) by lia. cbn [skipn length].
        repeat split; [lia|lia|exact Pk|]. intros j Hj. destruct j as [|j']; [exact Pn|]. cbn [skipn]. apply Hb. lia.
      * intros j Hj. destruct j as [|j']; [exact Pn|]. cbn [skipn]. apply IH. cbn [length] in Hj. lia.
Qed.

Lemma skipn_skipn_Z : forall (s : list Z) a b, skipn a (skipn b s) = skipn (b + a) s.
Proof.
  induction s as [|c t IH]; intros a b.
  - rewrite !skipn_nil. reflexivity.
  - destruct b as [|b']; [reflexivity|]. cbn [skipn Nat.add]. apply IH.
Qed.

Lemma find_sub_spec : forall s needle from,
  match find_sub s needle from with
  | Some k => (from <= k)%nat /\ (k + length needle <= length s)%nat /\ occurs s needle k /\
              forall j, (from <= j < k)%nat -> ~ occurs s needle j
  | None => forall j, (from <= j <= length s)%nat -> ~ occurs s needle j
  end.
Proof.
  intros s needle from. unfold find_sub, occurs.
  destruct (Nat.ltb_spec (length s) from) as [L|L].
  - intros j Hj. lia.
  - pose proof (find_sub_aux_spec needle (skipn from s) from) as H.
    destruct (find_sub_aux (skipn from s) needle from) as [k|].
    + destruct H as [R [Ln [Pk Hb]]]. rewrite skipn_length in Ln. rewrite skipn_skipn_Z in Pk.
      replace (from + (k - from))%nat with k in Pk by lia. repeat split; [lia|lia|exact Pk|].
      intros j Hj Hc. specialize (Hb (j - from)%nat). rewrite skipn_skipn_Z in Hb.
      replace (from + (j - from))%nat with j in Hb by lia. rewrite Hb in Hc by lia. discriminate.
    + intros j Hj Hc. specialize (H (j - from)%nat). rewrite skipn_length, skipn_skipn_Z in H.
      replace (from + (j - from))%nat with j in H by lia. rewrite H in Hc by lia. discriminate.
Qed.

Lemma occurs_bound : forall s needle p, occurs s needle p -> needle <> [] -> (p + length needle <= length s)%nat.
Proof.
  intros s needle p H N. unfold occurs in H. apply prefixb_length in H. rewrite skipn_length in H.
  destruct needle as [|a n']; [congruence|]. cbn [length] in *. lia.
Qed.

Lemma occurs_nth : forall s needle p j, occurs s needle p -> (j < length needle)%nat -> nth (p + j) s 0 = nth j needle 0.
Proof.
  intros s needle p j H Hj. unfold occurs in H. rewrite <- nth_skipn_Z. apply prefixb_nth; assumption.
Qed.

(* ------------------------------------------------------------------ termination of the loops of key_lookup *)

Lemma to_lower_length : forall s, length (to_lower s) = length s.
Proof. intros s. apply map_length. Qed.

Lemma search_total : forall key conf cl, key <> [] ->
  forall fuel p, (p + length key <= length cl)%nat -> (length cl - p < fuel)%nat ->
  search fuel conf cl key (Some p) <> SOutOfFuel.
Proof.
  intros key conf cl Hk. induction fuel as [|f IH]; intros p Hp Hf; [lia|].
  cbn [search]. destruct (candidate conf cl (length key) p); [discriminate|].
  pose proof (find_sub_spec cl key (p + length key)) as Hs.
  assert (Lk : (length key > 0)%nat) by (destruct key; [congruence|cbn; lia]).
  destruct (find_sub cl key (p + length key)) as [p'|].
  - destruct Hs as [R [L _]]. apply IH; lia.
  - destruct f as [|f']; [lia|]. cbn [search]. discriminate.
Qed.

Lemma search_total_start : forall key conf cl sp, key <> [] -> length cl = length conf ->
  search (fuel_of conf) conf cl key (find_sub cl key sp) <> SOutOfFuel.
Proof.
  intros key conf cl sp Hk Hl. pose proof (find_sub_spec cl key sp) as Hs.
  destruct (find_sub cl key sp) as [p|].
  - destruct Hs as [_ [L _]]. apply search_total; [exact Hk|exact L|]. unfold fuel_of. lia.
  - unfold fuel_of. cbn [search]. discriminate.
Qed.

Lemma scan_line_last : forall l i count last hit count' last',
  scan_line l i count last = (hit, count', last') -> (last <= last' \/ i <= last')%nat.
Proof.
  induction l as [|c t IH]; intros i count last hit count' last' H.
  - cbn in H. inversion H. lia.
  - cbn [scan_line] in H. destruct (is_brace c).
    + destruct (brace_step count c =? 0).
      * inversion H. lia.
      * apply IH in H. lia.
    + apply IH in H. lia.
Qed.

Lemma brace_loop_total : forall conf fuel line line_end last count,
  (length conf - line_end < fuel)%nat ->
  brace_loop fuel conf line line_end last count <> BOutOfFuel.
Proof.
  intros conf. induction fuel as [|f IH]; intros line line_end last count Hf; [lia|].
  cbn [brace_loop].
  destruct (scan_line (skipn (S last) line) (S last) count last) as [[hit count'] last'].
  destruct hit; [discriminate|].
  destruct (Nat.leb_spec (length conf) line_end) as [L|L]; [discriminate|].
  apply IH.
  pose proof (find_if_spec is_lf conf (S line_end)) as Hs.
  destruct (find_if is_lf conf (S line_end)) as [nl|].
  - destruct Hs as [R _]. lia.
  - lia.
Qed.

Lemma extract_value_total : forall conf key pos,
  extract_value (fuel_of conf) conf key pos <> KL_outoffuel.
Proof.
  intros conf key pos. unfold extract_value.
  destruct (find_if (fun c => negb (is_ws c)) _ _) as [db|]; [|discriminate].
  destruct (find_if (fun c => c =? LBRACE) _ db) as [br|]; [|discriminate].
  match goal with |- context [brace_loop ?f ?c ?l ?le ?la ?ct] =>
    pose proof (brace_loop_total c f l le la ct) as Hb; destruct (brace_loop f c l le la ct) end.
  - discriminate.
  - discriminate.
  - exfalso. apply Hb; [|reflexivity]. unfold fuel_of. lia.
Qed.

(* key_lookup terminates within the fuel the model gives it, for every configuration and non-empty keyword *)
Lemma key_lookup_total : forall conf key sp, key <> [] ->
  key_lookup (fuel_of conf) conf key sp <> KL_outoffuel.
Proof.
  intros conf key sp Hk. unfold key_lookup.
  assert (Hk' : to_lower key <> []) by (destruct key; [congruence|discriminate]).
  pose proof (search_total_start (to_lower key) conf (to_lower conf) sp Hk' (to_lower_length conf)) as Hs.
  destruct (search (fuel_of conf) conf (to_lower conf) (to_lower key) (find_sub (to_lower conf) (to_lower key) sp)) as [|pos|].
  - discriminate.
  - apply extract_value_total.
  - congruence.
Qed.

(* ------------------------------------------------------------------ lower-casing and structural characters *)

Lemma lower_fix_nonletter : forall c, ~ (65 <= c <= 90) -> lower c = c.
Proof. intros c H. unfold lower. destruct (Z.leb_spec 65 c); destruct (Z.leb_spec c 90); cbn; try reflexivity. lia. Qed.

Lemma lower_range : forall c, lower c = c \/ (97 <= lower c <= 122 /\ 65 <= c <= 90).
Proof. intros c. unfold lower. destruct (Z.leb_spec 65 c); destruct (Z.leb_spec c 90); cbn; auto. right. lia. Qed.

(* a set of characters without letters is seen identically before and after lower-casing *)
Definition no_letters (set : list Z) : Prop := forall c, In c set -> ~ (65 <= c <= 90) /\ ~ (97 <= c <= 122).

Lemma memb_In : forall c set, memb c set = true <-> In c set.
Proof.
  intros c set. unfold memb. rewrite existsb_exists. split.
  - intros [x [Hx E]]. apply Z.eqb_eq in E. subst x. exact Hx.
  - intros H. exists c. split; [exact H|apply Z.eqb_refl].
Qed.

Lemma memb_lower : forall set c, no_letters set -> memb (lower c) set = memb c set.
Proof.
  intros set c Hs. destruct (lower_range c) as [E|[R1 R2]]; [rewrite E; reflexivity|].
  destruct (memb (lower c) set) eqn:M1.
  - apply memb_In in M1. apply Hs in M1. lia.
  - destruct (memb c set) eqn:M2; [|reflexivity]. apply memb_In in M2. apply Hs in M2. lia.
Qed.

Lemma no_letters_delims_left : no_letters delims_left.
Proof. intros c H. unfold delims_left, LF, SP, TAB, RBRACE in H. cbn in H. lia. Qed.
Lemma no_letters_delims_right : no_letters delims_right.
Proof. intros c H. unfold delims_right, LF, SP, TAB, LBRACE in H. cbn in H. lia. Qed.
Lemma no_letters_ws : no_letters white_space.
Proof. intros c H. unfold white_space, SP, TAB in H. cbn in H. lia. Qed.

Lemma eqb_lower : forall d c, ~ (65 <= d <= 90) -> ~ (97 <= d <= 122) -> (lower c =? d) = (c =? d).
Proof.
  intros d c H1 H2. pose proof (memb_lower [d] c) as H. unfold memb in H. cbn [existsb] in H.
  rewrite !orb_false_r in H. apply H. intros x [E|[]]. subst x. split; assumption.
Qed.

Lemma nth_to_lower : forall s j, nth j (to_lower s) 0 = lower (nth j s 0).
Proof. intros s j. unfold to_lower. change 0 with (lower 0) at 1. apply map_nth. Qed.

Lemma brace_step_lower : forall acc c, brace_step acc (lower c) = brace_step acc c.
Proof.
  intros acc c. unfold brace_step. rewrite !eqb_lower; [reflexivity| | | |]; unfold LBRACE, RBRACE; lia.
Qed.

Lemma braces_ok_lower : forall s d, braces_ok (to_lower s) d = braces_ok s d.
Proof.
  induction s as [|c t IH]; intros d; [reflexivity|].
  cbn [to_lower map braces_ok]. rewrite !eqb_lower; [| | | |]; try (unfold LBRACE, RBRACE; lia).
  destruct (c =? LBRACE); [apply IH|]. destruct (c =? RBRACE); [destruct d; [reflexivity|apply IH]|apply IH].
Qed.

Lemma skipn_to_lower : forall s n, skipn n (to_lower s) = to_lower (skipn n s).
Proof. intros s n. unfold to_lower. apply skipn_map. Qed.

Lemma firstn_to_lower : forall s n, firstn n (to_lower s) = to_lower (firstn n s).
Proof. intros s n. unfold to_lower. apply firstn_map. Qed.

Lemma check_braces_lower : forall s p, check_braces (to_lower s) p = check_braces s p.
Proof. intros s p. unfold check_braces. rewrite skipn_to_lower, braces_ok_lower. reflexivity. Qed.

(* ------------------------------------------------------------------ what the search loop finds *)

(* keyword characters: no character of the (lower-cased) keyword is a left delimiter (LF, space, tab, '}') *)
Definition key_chars_ok (key : list Z) : Prop := forall c, In c key -> memb c delims_left = false.
Definition good_key (key : list Z) : Prop := key <> [] /\ key_chars_ok (to_lower key).

Lemma overlap_not_isolated : forall conf key p j,
  occurs (to_lower conf) key p -> key_chars_ok key -> (p < j < p + length key)%nat ->
  isolated_left conf (to_lower conf) j = false.
Proof.
  intros conf key p j Ho Hk Hj. unfold isolated_left. destruct j as [|j']; [lia|].
  pose proof (occurs_nth _ _ p (j' - p)%nat Ho) as Hn. replace (p + (j' - p))%nat with j' in Hn by lia.
  rewrite nth_to_lower in Hn. specialize (Hn ltac:(lia)).
  assert (Hm : memb (nth j' conf 0) delims_left = false).
  { rewrite <- (memb_lower delims_left) by exact no_letters_delims_left. rewrite Hn. apply Hk.
    apply nth_In. lia. }
  rewrite Hm. reflexivity.
Qed.

Lemma search_spec : forall conf key, key <> [] -> key_chars_ok key ->
  forall fuel p0, occurs (to_lower conf) key p0 -> (length conf - p0 < fuel)%nat ->
  match search fuel conf (to_lower conf) key (Some p0) with
  | SFound p => (p0 <= p)%nat /\ occurs (to_lower conf) key p /\
                candidate conf (to_lower conf) (length key) p = true /\
                forall j, (p0 <= j < p)%nat -> occurs (to_lower conf) key j ->
                          candidate conf (to_lower conf) (length key) j = false
  | SNotFound => forall j, (p0 <= j)%nat -> occurs (to_lower conf) key j ->
                           candidate conf (to_lower conf) (length key) j = false
  | SOutOfFuel => False
  end.
Proof.
  intros conf key Hk Hc. set (cl := to_lower conf).
  assert (Lk : (length key > 0)%nat) by (destruct key; [congruence|cbn; lia]).
  assert (Lc : length cl = length conf) by apply to_lower_length.
  induction fuel as [|f IH]; intros p0 Ho Hf; [lia|].
  cbn [search]. destruct (candidate conf cl (length key) p0) eqn:Cd.
  - repeat split; [lia|exact Ho|exact Cd|]. intros j Hj. lia.
  - pose proof (occurs_bound _ _ _ Ho Hk) as Hb.
    assert (Hov : forall j, (p0 <= j < p0 + length key)%nat -> occurs cl key j ->
                            candidate conf cl (length key) j = false).
    { intros j Hj Hoj. destruct (Nat.eq_dec j p0) as [E|E]; [subst j; exact Cd|].
      unfold candidate. subst cl. rewrite (overlap_not_isolated conf key p0 j Ho Hc) by lia. reflexivity. }
    pose proof (find_sub_spec cl key (p0 + length key)) as Hs.
    destruct (find_sub cl key (p0 + length key)) as [p'|].
    + destruct Hs as [R [L [Ho' Hn]]].
      specialize (IH p' Ho' ltac:(lia)).
      destruct (search f conf cl key (Some p')) as [|p|].
      * intros j Hj Hoj. destruct (Nat.lt_ge_cases j (p0 + length key)) as [Lj|Lj]; [apply Hov; [lia|exact Hoj]|].
        destruct (Nat.lt_ge_cases j p') as [Lj2|Lj2]; [exfalso; apply (Hn j); [lia|exact Hoj]|].
        apply IH; [lia|exact Hoj].
      * destruct IH as [R2 [Ho2 [Cd2 Hb2]]]. repeat split; [lia|exact Ho2|exact Cd2|].
        intros j Hj Hoj. destruct (Nat.lt_ge_cases j (p0 + length key)) as [Lj|Lj]; [apply Hov; [lia|exact Hoj]|].
        destruct (Nat.lt_ge_cases j p') as [Lj2|Lj2]; [exfalso; apply (Hn j); [lia|exact Hoj]|].
        apply Hb2; [lia|exact Hoj].
      * exact IH.
    + destruct f as [|f']; [lia|]. cbn [search].
      intros j Hj Hoj. destruct (Nat.lt_ge_cases j (p0 + length key)) as [Lj|Lj]; [apply Hov; [lia|exact Hoj]|].
      exfalso. apply (Hs j); [|exact Hoj]. pose proof (occurs_bound _ _ _ Hoj Hk). lia.
Qed.

(* position at which key_lookup finds the keyword (None: not found) *)
Definition kl_position (r : kl_result) : option nat :=
  match r with KL_found pos _ _ _ => Some pos | _ => None end.

Definition kw_candidate (conf key : list Z) (p : nat) : Prop :=
  occurs (to_lower conf) (to_lower key) p /\ candidate conf (to_lower conf) (length key) p = true.

Lemma extract_value_position : forall fuel conf key pos,
  match extract_value fuel conf key pos with
  | KL_found p _ _ _ => p = pos
  | KL_notfound => False
  | _ => True
  end.
Proof.
  intros fuel conf key pos. unfold extract_value.
  destruct (find_if (fun c => negb (is_ws c)) _ _) as [db|]; [|reflexivity].
  destruct (find_if (fun c => c =? LBRACE) _ db) as [br|]; [|reflexivity].
  destruct (brace_loop _ _ _ _ _ _); [reflexivity|exact I|exact I].
Qed.

(* key_lookup answers "not found" exactly when no occurrence of the keyword at or after save_pos is isolated
   on both sides with balanced braces after it; otherwise it works on the FIRST such occurrence *)
Lemma key_lookup_found_iff : forall conf key sp, good_key key ->
  (key_lookup (fuel_of conf) conf key sp = KL_notfound <->
   forall j, (sp <= j)%nat -> ~ kw_candidate conf key j) /\
  (forall pos d sp' r, key_lookup (fuel_of conf) conf key sp = KL_found pos d sp' r ->
     (sp <= pos)%nat /\ kw_candidate conf key pos /\ forall j, (sp <= j < pos)%nat -> ~ kw_candidate conf key j).
Proof.
  intros conf key sp [Hk Hc].
  assert (Hk' : to_lower key <> []) by (destruct key; [congruence|discriminate]).
  assert (Lk : length (to_lower key) = length key) by apply to_lower_length.
  unfold key_lookup, kw_candidate.
  pose proof (find_sub_spec (to_lower conf) (to_lower key) sp) as Hs.
  destruct (find_sub (to_lower conf) (to_lower key) sp) as [p0|].
  - destruct Hs as [R [L [Ho Hn]]].
    pose proof (search_spec conf (to_lower key) Hk' Hc (fuel_of conf) p0 Ho) as Hsp.
    rewrite to_lower_length in L. specialize (Hsp ltac:(unfold fuel_of; lia)). rewrite Lk in Hsp.
    destruct (search (fuel_of conf) conf (to_lower conf) (to_lower key) (Some p0)) as [|p|].
    + split.
      * split; [|reflexivity]. intros _ j Hj [Hoj Hcj].
        destruct (Nat.lt_ge_cases j p0) as [Lj|Lj]; [apply (Hn j); [lia|exact Hoj]|].
        rewrite (Hsp j Lj Hoj) in Hcj. discriminate.
      * intros pos d sp' r H. discriminate.
    + destruct Hsp as [R2 [Ho2 [Cd2 Hb2]]].
      pose proof (extract_value_position (fuel_of conf) conf (to_lower key) p) as Hp.
      destruct (extract_value (fuel_of conf) conf (to_lower key) p) as [|s|pp d s r|] eqn:Ev.
      * destruct Hp.
      * split; [|intros pos d sp' r H; discriminate]. split; [discriminate|].
        intros H. exfalso. apply (H p); [lia|split; assumption].
      * subst pp. split.
        -- split; [discriminate|]. intros H. exfalso. apply (H p); [lia|split; assumption].
        -- intros pos d' sp' r' H. inversion H. subst. repeat split; [lia|exact Ho2|exact Cd2|].
           intros j Hj [Hoj Hcj]. destruct (Nat.lt_ge_cases j p0) as [Lj|Lj]; [apply (Hn j); [lia|exact Hoj]|].
           rewrite (Hb2 j ltac:(lia) Hoj) in Hcj. discriminate.
      * split; [|intros pos d sp' r H; discriminate]. split; [discriminate|].
        intros H. exfalso. apply (H p); [lia|split; assumption].
    + destruct Hsp.
  - unfold fuel_of. cbn [search]. split.
    + split; [|reflexivity]. intros _ j Hj [Hoj _]. apply (Hs j); [|exact Hoj].
      pose proof (occurs_bound _ _ _ Hoj Hk'). lia.
    + intros pos d sp' r H. discriminate.
Qed.

(* ------------------------------------------------------------------ letter case *)

(* the keyword is only used lower-cased *)
Lemma key_lookup_key_case : forall fuel conf k1 k2 sp, to_lower k1 = to_lower k2 ->
  key_lookup fuel conf k1 sp = key_lookup fuel conf k2 sp.
Proof. intros fuel conf k1 k2 sp H. unfold key_lookup. rewrite H. reflexivity. Qed.

Definition case_blind (P : Z -> bool) : Prop := forall c, P (lower c) = P c.

Lemma find_if_aux_lower : forall P, case_blind P -> forall s i, find_if_aux P (to_lower s) i = find_if_aux P s i.
Proof.
  intros P HP. induction s as [|c t IH]; intros i; [reflexivity|].
  cbn [to_lower map find_if_aux]. rewrite HP. destruct (P c); [reflexivity|]. apply IH.
Qed.

Lemma find_if_lower : forall P, case_blind P -> forall s from, find_if P (to_lower s) from = find_if P s from.
Proof. intros P HP s from. unfold find_if. rewrite skipn_to_lower. apply find_if_aux_lower. exact HP. Qed.

Lemma rfind_if_aux_lower : forall P, case_blind P -> forall s i acc,
  rfind_if_aux P (to_lower s) i acc = rfind_if_aux P s i acc.
Proof.
  intros P HP. induction s as [|c t IH]; intros i acc; [reflexivity|].
  cbn [to_lower map rfind_if_aux]. rewrite HP. apply IH.
Qed.

Lemma rfind_if_lower : forall P, case_blind P -> forall s pos, rfind_if P (to_lower s) pos = rfind_if P s pos.
Proof. intros P HP s pos. unfold rfind_if. rewrite firstn_to_lower. apply rfind_if_aux_lower. exact HP. Qed.

Lemma cb_is_lf : case_blind is_lf.
Proof. intros c. unfold is_lf. apply eqb_lower; unfold LF; lia. Qed.
Lemma cb_lbrace : case_blind (fun c => c =? LBRACE).
Proof. intros c. apply eqb_lower; unfold LBRACE; lia. Qed.
Lemma cb_rbrace : case_blind (fun c => c =? RBRACE).
Proof. intros c. apply eqb_lower; unfold RBRACE; lia. Qed.
Lemma cb_not_ws : case_blind (fun c => negb (is_ws c)).
Proof. intros c. unfold is_ws. rewrite memb_lower by exact no_letters_ws. reflexivity. Qed.
Lemma cb_not_dl : case_blind (fun c => negb (memb c delims_left)).
Proof. intros c. rewrite memb_lower by exact no_letters_delims_left. reflexivity. Qed.
Lemma cb_is_brace : case_blind is_brace.
Proof. intros c. unfold is_brace. rewrite (cb_lbrace c), (cb_rbrace c). reflexivity. Qed.

Lemma to_lower_idem : forall s, to_lower (to_lower s) = to_lower s.
Proof.
  induction s as [|c t IH]; [reflexivity|]. cbn [to_lower map]. f_equal; [|exact IH].
  destruct (lower_range c) as [E|[R _]]; [rewrite !E; reflexivity|]. apply lower_fix_nonletter. lia.
Qed.

Lemma substr_to_lower : forall s b n, substr (to_lower s) b n = to_lower (substr s b n).
Proof. intros s b n. unfold substr. rewrite skipn_to_lower, firstn_to_lower. reflexivity. Qed.

Lemma to_lower_app : forall a b, to_lower (a ++ b) = to_lower a ++ to_lower b.
Proof. intros a b. apply map_app. Qed.

Lemma line_begin_of_lower : forall s pos, line_begin_of (to_lower s) pos = line_begin_of s pos.
Proof. intros s pos. unfold line_begin_of. rewrite (rfind_if_lower _ cb_is_lf). reflexivity. Qed.

Lemma candidate_lower : forall conf klen p,
  candidate (to_lower conf) (to_lower conf) klen p = candidate conf (to_lower conf) klen p.
Proof.
  intros conf klen p. unfold candidate. f_equal; [f_equal|].
  - unfold isolated_left. destruct p as [|p']; [reflexivity|].
    rewrite nth_to_lower, (memb_lower delims_left) by exact no_letters_delims_left. reflexivity.
  - unfold isolated_right. rewrite to_lower_length, nth_to_lower.
    rewrite (memb_lower delims_right) by exact no_letters_delims_right. reflexivity.
  - apply check_braces_lower.
Qed.

Lemma search_lower : forall fuel conf key pos,
  search fuel (to_lower conf) (to_lower conf) key pos = search fuel conf (to_lower conf) key pos.
Proof.
  induction fuel as [|f IH]; intros conf key pos; [reflexivity|].
  cbn [search]. destruct pos as [p|]; [|reflexivity]. rewrite candidate_lower.
  destruct (candidate conf (to_lower conf) (length key) p); [reflexivity|]. apply IH.
Qed.

Lemma scan_line_lower : forall l i count last, scan_line (to_lower l) i count last = scan_line l i count last.
Proof.
  induction l as [|c t IH]; intros i count last; [reflexivity|].
  cbn [to_lower map scan_line]. rewrite (cb_is_brace c), brace_step_lower.
  destruct (is_brace c); [destruct (brace_step count c =? 0); [reflexivity|apply IH]|apply IH].
Qed.

Definition bres_lower (r : brace_result) : brace_result :=
  match r with BDone line le => BDone (to_lower line) le | BError => BError | BOutOfFuel => BOutOfFuel end.

Lemma brace_loop_lower : forall fuel conf line le last count,
  brace_loop fuel (to_lower conf) (to_lower line) le last count = bres_lower (brace_loop fuel conf line le last count).
Proof.
  induction fuel as [|f IH]; intros conf line le last count; [reflexivity|].
  cbn [brace_loop]. rewrite skipn_to_lower, scan_line_lower.
  destruct (scan_line (skipn (S last) line) (S last) count last) as [[hit count'] last'].
  destruct hit; [reflexivity|]. rewrite to_lower_length.
  destruct (length conf <=? le)%nat; [reflexivity|].
  rewrite (find_if_lower _ cb_is_lf). rewrite substr_to_lower, <- to_lower_app. apply IH.
Qed.

(* result of key_lookup with the value lower-cased *)
Definition kl_lower (r : kl_result) : kl_result :=
  match r with KL_found pos d sp reg => KL_found pos (to_lower d) sp reg | _ => r end.

Lemma mk_reg_lower : forall d st, mk_reg (to_lower d) st = mk_reg d st.
Proof. intros d st. destruct d as [|c t]; [reflexivity|]. unfold mk_reg. cbn [to_lower map length]. rewrite map_length. reflexivity. Qed.

Lemma extract_value_lower : forall fuel conf key pos,
  extract_value fuel (to_lower conf) key pos = kl_lower (extract_value fuel conf key pos).
Proof.
  intros fuel conf key pos. unfold extract_value.
  rewrite line_begin_of_lower, (find_if_lower _ cb_is_lf), to_lower_length, substr_to_lower, to_lower_idem.
  set (lb := line_begin_of conf pos).
  set (le := match find_if is_lf conf pos with None => length conf | Some nl => nl end).
  set (line := substr conf lb (le - lb)).
  rewrite (find_if_lower _ cb_not_ws).
  destruct (find_if (fun c => negb (is_ws c)) line _) as [db|]; [|reflexivity].
  rewrite (rfind_if_lower _ cb_not_ws), to_lower_length, (find_if_lower _ cb_lbrace).
  destruct (find_if (fun c => c =? LBRACE) line db) as [br|].
  - rewrite brace_loop_lower.
    destruct (brace_loop fuel conf line le br 1) as [line' le'| |]; cbn [bres_lower]; [|reflexivity|reflexivity].
    rewrite (find_if_lower _ cb_lbrace), (find_if_lower _ cb_not_ws), to_lower_length.
    rewrite (rfind_if_lower _ cb_rbrace), (rfind_if_lower _ cb_not_ws).
    cbn [kl_lower].
    match goal with |- context [if ?b then substr (to_lower ?l) ?x ?y else []] =>
      replace (if b then substr (to_lower l) x y else []) with (to_lower (if b then substr l x y else []))
        by (destruct b; [symmetry; apply substr_to_lower|reflexivity]) end.
    rewrite mk_reg_lower. reflexivity.
  - cbn [kl_lower].
    match goal with |- context [if ?b then substr (to_lower ?l) ?x ?y else []] =>
      replace (if b then substr (to_lower l) x y else []) with (to_lower (if b then substr l x y else []))
        by (destruct b; [symmetry; apply substr_to_lower|reflexivity]) end.
    rewrite mk_reg_lower. reflexivity.
Qed.

(* key_lookup commutes with lower-casing the configuration: same keyword position, same resume position, same
   registered range, and the value of the lower-cased text is the lower-cased value *)
Lemma key_lookup_lower : forall fuel conf key sp,
  key_lookup fuel (to_lower conf) key sp = kl_lower (key_lookup fuel conf key sp).
Proof.
  intros fuel conf key sp. unfold key_lookup. rewrite to_lower_idem, search_lower.
  destruct (search fuel conf (to_lower conf) (to_lower key) _) as [|pos|]; [reflexivity| |reflexivity].
  apply extract_value_lower.
Qed.

Lemma key_lookup_case_insensitive : forall fuel c1 c2 k1 k2 sp,
  to_lower c1 = to_lower c2 -> to_lower k1 = to_lower k2 ->
  kl_lower (key_lookup fuel c1 k1 sp) = kl_lower (key_lookup fuel c2 k2 sp).
Proof.
  intros fuel c1 c2 k1 k2 sp Hc Hk. rewrite <- !key_lookup_lower, Hc. rewrite (key_lookup_key_case _ _ k1 k2 _ Hk).
  reflexivity.
Qed.

(* ------------------------------------------------------------------ the isolation tests, declaratively *)

(* everything between the start of the line and position p is a left delimiter *)
Definition left_clear (conf : list Z) (p : nat) : Prop :=
  forall q, (q < p)%nat -> (forall j, (q <= j < p)%nat -> nth j conf 0 <> LF) -> In (nth q conf 0) delims_left.

(* the character that follows the keyword (of length klen, at p), if there is one, is a right delimiter *)
Definition right_clear (conf : list Z) (p klen : nat) : Prop :=
  (p + klen < length conf)%nat -> In (nth (p + klen) conf 0) delims_right.

Lemma isolated_right_iff : forall conf p klen,
  (isolated_right conf p klen = true <-> right_clear conf p klen).
Proof.
  intros conf p klen. unfold isolated_right, right_clear.
  destruct (Nat.ltb_spec (p + klen) (length conf)) as [L|L].
  - rewrite memb_In. split; [intros H _; exact H|intros H; apply H; exact L].
  - split; [intros _ H; lia|reflexivity].
Qed.

Lemma lower_is_lf : forall c, lower c = LF -> c = LF.
Proof.
  intros c H. destruct (lower_range c) as [E|[R _]]; [congruence|]. unfold LF in H. lia.
Qed.

Lemma lf_lower : forall c, c = LF <-> lower c = LF.
Proof. intros c. split; [intros E; subst c; reflexivity|apply lower_is_lf]. Qed.

Lemma isolated_left_iff : forall conf p, nth p conf 0 <> LF ->
  (isolated_left conf (to_lower conf) p = true <-> left_clear conf p).
Proof.
  intros conf p Hp. unfold isolated_left, left_clear. destruct p as [|p']; [split; [intros _ q Hq; lia|reflexivity]|].
  set (cl := to_lower conf).
  assert (Hnl : forall j, nth j cl 0 = LF <-> nth j conf 0 = LF).
  { intros j. subst cl. rewrite nth_to_lower. symmetry. apply lf_lower. }
  assert (Hdl : forall j, memb (nth j cl 0) delims_left = memb (nth j conf 0) delims_left).
  { intros j. subst cl. rewrite nth_to_lower. apply memb_lower. exact no_letters_delims_left. }
  pose proof (rfind_if_spec is_lf cl (S p')) as Hr. unfold line_begin_of.
  (* positions from the line start up to p hold no LF *)
  assert (Hline : forall lb, lb = match rfind_if is_lf cl (S p') with None => O | Some pl => S pl end ->
            (lb <= S p')%nat /\ (forall j, (lb <= j < S p')%nat -> nth j conf 0 <> LF) /\
            (forall q, (q < lb)%nat -> exists j, (q <= j < S p')%nat /\ nth j conf 0 = LF)).
  { intros lb E. destruct (rfind_if is_lf cl (S p')) as [pl|].
    - destruct Hr as [R1 [R2 [Pl Hb]]]. unfold is_lf in Pl. apply Z.eqb_eq in Pl. apply Hnl in Pl.
      assert (pl <> S p') by (intros E2; subst pl; contradiction).
      subst lb. repeat split; [lia| |].
      + intros j Hj Hc. destruct (Nat.lt_ge_cases j (length cl)) as [Lj|Lj].
        * specialize (Hb j ltac:(lia) Lj). unfold is_lf in Hb. apply Z.eqb_neq in Hb. apply Hb. apply Hnl. exact Hc.
        * subst cl. rewrite to_lower_length in Lj. rewrite nth_overflow in Hc by lia. unfold LF in Hc. discriminate.
      + intros q Hq. exists pl. split; [lia|exact Pl].
    - subst lb. repeat split; [lia| |intros q Hq; lia].
      intros j Hj Hc. destruct (Nat.lt_ge_cases j (length cl)) as [Lj|Lj].
      + specialize (Hr j ltac:(lia) Lj). unfold is_lf in Hr. apply Z.eqb_neq in Hr. apply Hr. apply Hnl. exact Hc.
      + subst cl. rewrite to_lower_length in Lj. rewrite nth_overflow in Hc by lia. unfold LF in Hc. discriminate. }
  specialize (Hline _ eq_refl). set (lb := match rfind_if is_lf cl (S p') with None => O | Some pl => S pl end) in *.
  destruct Hline as [Hlb [Hno Hsome]].
  pose proof (find_if_spec (fun c => negb (memb c delims_left)) cl lb) as Hf.
  split.
  - intros H q Hq Hq2.
    destruct (memb (nth p' conf 0) delims_left) eqn:M; [|discriminate]. cbn [negb] in H.
    assert (Hql : (lb <= q)%nat).
    { destruct (Nat.lt_ge_cases q lb) as [L|L]; [|exact L]. destruct (Hsome q L) as [j [Hj Ej]]. exfalso. apply (Hq2 j Hj Ej). }
    apply memb_In. rewrite <- Hdl.
    destruct (find_if (fun c => negb (memb c delims_left)) cl lb) as [pc|].
    + destruct Hf as [_ [_ Hb]]. destruct (Nat.ltb_spec pc (S p')) as [L|L]; [discriminate|].
      specialize (Hb q ltac:(lia)). apply negb_false_iff in Hb. exact Hb.
    + destruct (Nat.lt_ge_cases q (length cl)) as [Lq|Lq].
      * specialize (Hf q ltac:(lia)). apply negb_false_iff in Hf. exact Hf.
      * exfalso. subst cl. rewrite to_lower_length in Lq.
        assert (p' < length conf)%nat; [|lia].
        destruct (Nat.lt_ge_cases p' (length conf)) as [L1|L1]; [exact L1|].
        rewrite nth_overflow in M by lia. discriminate.
  - intros H.
    assert (M : memb (nth p' conf 0) delims_left = true).
    { destruct (Z.eq_dec (nth p' conf 0) LF) as [E|E]; [rewrite E; reflexivity|].
      apply memb_In. apply H; [lia|]. intros j Hj. replace j with p' by lia. exact E. }
    rewrite M. cbn [negb].
    destruct (find_if (fun c => negb (memb c delims_left)) cl lb) as [pc|]; [|rewrite Nat.ltb_irrefl; reflexivity].
    destruct Hf as [R [Pc _]]. destruct (Nat.ltb_spec pc (S p')) as [L|L]; [exfalso|reflexivity].
    apply negb_true_iff in Pc. rewrite Hdl in Pc.
    assert (In (nth pc conf 0) delims_left); [|apply memb_In in H0; congruence].
    apply H; [lia|]. intros j Hj. apply Hno. lia.
Qed.

(* an occurrence of the keyword at p that key_lookup accepts, in declarative form *)
Definition kw_occurrence (conf key : list Z) (p : nat) : Prop :=
  occurs (to_lower conf) (to_lower key) p /\ left_clear conf p /\ right_clear conf p (length key) /\
  well_nested (skipn p conf).

Lemma occurs_first_not_lf : forall conf k p,
  occurs (to_lower conf) k p -> k <> [] -> key_chars_ok k -> nth p conf 0 <> LF.
Proof.
  intros conf k p Ho Hk Hc E.
  assert (Lk : (0 < length k)%nat) by (destruct k; [congruence|cbn; lia]).
  pose proof (occurs_nth _ _ p O Ho Lk) as Hn. rewrite Nat.add_0_r, nth_to_lower, E in Hn.
  change (lower LF) with LF in Hn.
  assert (HI : In LF k) by (rewrite Hn; apply nth_In; exact Lk).
  apply Hc in HI. discriminate.
Qed.

Lemma kw_candidate_iff : forall conf key p, good_key key -> (kw_candidate conf key p <-> kw_occurrence conf key p).
Proof.
  intros conf key p [Hk Hc]. unfold kw_candidate, kw_occurrence, candidate.
  assert (Hk' : to_lower key <> []) by (destruct key; [congruence|discriminate]).
  split.
  - intros [Ho Cd]. apply andb_true_iff in Cd. destruct Cd as [Cd C3]. apply andb_true_iff in Cd. destruct Cd as [C1 C2].
    pose proof (occurs_bound _ _ _ Ho Hk') as Hb. rewrite !to_lower_length in Hb.
    pose proof (occurs_first_not_lf conf (to_lower key) p Ho Hk' Hc) as Hp.
    split; [exact Ho|split; [apply isolated_left_iff; assumption|split; [apply isolated_right_iff; exact C2|apply check_braces_iff; exact C3]]].
  - intros [Ho [Hl [Hr Hbal]]]. split; [exact Ho|].
    pose proof (occurs_bound _ _ _ Ho Hk') as Hb. rewrite !to_lower_length in Hb.
    pose proof (occurs_first_not_lf conf (to_lower key) p Ho Hk' Hc) as Hp.
    apply andb_true_iff. split; [apply andb_true_iff; split|].
    + apply isolated_left_iff; assumption.
    + apply isolated_right_iff; assumption.
    + apply check_braces_iff. exact Hbal.
Qed.

