(* Statements of Properties_C09.v that combine several lemmas: proved here so that the property file only
   contains `exact`. *)
From Coq Require Import ZArith List Bool Arith Lia.
From CV Require Import C09.ParseModel C09.ParseProofs C09.NumProofs C09.LookupProofs C09.FlatProofs C09.ValueProofs C09.OrigProofs C09.NestedProofs.
Import ListNotations.
Local Open Scope Z_scope.

Lemma key_lookup_found_iff_decl : forall conf key sp, good_key key ->
  (key_lookup (fuel_of conf) conf key sp = KL_notfound <-> forall j, (sp <= j)%nat -> ~ kw_occurrence conf key j) /\
  (forall pos d sp' r, key_lookup (fuel_of conf) conf key sp = KL_found pos d sp' r ->
     (sp <= pos)%nat /\ kw_occurrence conf key pos /\ forall j, (sp <= j < pos)%nat -> ~ kw_occurrence conf key j).
Proof.
  intros conf key sp Hg. destruct (key_lookup_found_iff conf key sp Hg) as [H1 H2]. split.
  - rewrite H1. split; intros H j Hj Hc; apply (H j Hj).
    + apply (proj2 (kw_candidate_iff conf key j Hg)). exact Hc.
    + apply (proj1 (kw_candidate_iff conf key j Hg)). exact Hc.
  - intros pos d sp' r E. destruct (H2 pos d sp' r E) as [R [Hc Hn]].
    split; [exact R|split].
    + apply (proj1 (kw_candidate_iff conf key pos Hg)). exact Hc.
    + intros j Hj Ho. apply (Hn j Hj). apply (proj2 (kw_candidate_iff conf key j Hg)). exact Ho.
Qed.

Lemma vector_values_strict : forall data vs n,
  (vector_dyn extract_real data = VAccept vs <-> tokens_of extract_real data vs) /\
  (vector_fixed extract_real n data = VAccept vs <-> tokens_of extract_real data vs /\ length vs = n).
Proof.
  intros data vs n.
  assert (T : forall vs0, extract_all extract_real true (S (length data)) data = (vs0, []) <-> tokens_of extract_real data vs0).
  { intros vs0. apply (extract_all_tokens extract_real extract_real_progress). lia. }
  split.
  - unfold vector_dyn. split.
    + intros H. destruct (extract_all extract_real true (S (length data)) data) as [vs' r] eqn:E.
      destruct r; [|discriminate]. inversion H. subst vs'. apply T. reflexivity.
    + intros H. apply T in H. rewrite H. reflexivity.
  - unfold vector_fixed. split.
    + intros H. destruct (extract_all extract_real true (S (length data)) data) as [vs' r] eqn:E.
      destruct r; [|discriminate]. destruct (Nat.eqb_spec (length vs') n) as [En|En]; [|discriminate].
      inversion H. subst vs'. split; [apply T; reflexivity|exact En].
    + intros [H En]. apply T in H. rewrite H. subst n. rewrite Nat.eqb_refl. reflexivity.
Qed.

Lemma pinned_right_isolation_refuted :
  (exists conf klen, isolated_right_pinned conf O klen = true /\ ~ right_clear conf O klen) /\
  (exists conf klen, isolated_right_pinned conf O klen = false /\ right_clear conf O klen).
Proof.
  split.
  - exists [99; 111; 108; 118; 97; 114; 120], 6%nat. split; [reflexivity|].
    unfold right_clear. cbn. intros H. specialize (H ltac:(lia)). unfold LF, SP, TAB, LBRACE in H.
    destruct H as [H|[H|[H|[H|[]]]]]; discriminate.
  - exists [99; 111; 108; 118; 97; 114], 6%nat. split; [reflexivity|]. unfold right_clear. cbn. lia.
Qed.

Lemma model_total : forall strict schema raw, schema_ok schema ->
  ((exists vs, parse_config strict schema raw = PAccept vs) \/ parse_config strict schema raw = PReject) /\
  (forall conf, (exists vs, parse_flat strict schema conf = PAccept vs) \/ parse_flat strict schema conf = PReject) /\
  (forall conf key sp, key <> [] -> key_lookup (fuel_of conf) conf key sp <> KL_outoffuel).
Proof.
  intros strict schema raw H. split; [apply parse_config_accept_or_reject; exact H|].
  split; [|exact key_lookup_total].
  intros conf. pose proof (parse_flat_total strict schema conf H) as T.
  destruct (parse_flat strict schema conf) as [vs| |]; [left; exists vs; reflexivity|right; reflexivity|congruence].
Qed.

Lemma value_loop_fuel_suffices : forall f1 f2 l, (length l < f1)%nat -> (length l < f2)%nat ->
  forall dl, extract_all extract_real dl f1 l = extract_all extract_real dl f2 l /\
  extract_all extract_int dl f1 l = extract_all extract_int dl f2 l /\
  extract_all extract_word dl f1 l = extract_all extract_word dl f2 l.
Proof.
  intros f1 f2 l H1 H2 dl. repeat split.
  - exact (extract_all_fuel extract_real extract_real_progress dl f1 f2 l H1 H2).
  - exact (extract_all_fuel extract_int extract_int_progress dl f1 f2 l H1 H2).
  - exact (extract_all_fuel extract_word extract_word_progress dl f1 f2 l H1 H2).
Qed.

Lemma check_braces_nesting : forall conf start,
  (check_braces conf start = true <-> well_nested (skipn start conf)) /\
  (check_braces conf O = true <-> well_nested conf).
Proof. intros conf start. split; [apply check_braces_iff|apply check_braces_iff_nested]. Qed.

Lemma comments_and_line_ends :
  (forall p l q, ends_lf p -> no_lf l -> not_ending_cr l ->
     strip_comments (p ++ l ++ CR :: LF :: q) = strip_comments (p ++ l ++ LF :: q)) /\
  (forall p l c q, ends_lf p -> no_lf l -> no_lf c -> not_ending_cr l ->
     strip_comments (p ++ l ++ HASH :: c ++ LF :: q) = strip_comments (p ++ l ++ LF :: q)) /\
  (forall p w q, ends_lf p -> no_lf w -> all_ws (clean_line w) ->
     strip_comments (p ++ w ++ LF :: q) = strip_comments (p ++ q)) /\
  (forall p l, ends_lf p -> no_lf l -> l <> [] -> strip_comments (p ++ l) = strip_comments (p ++ l ++ [LF])) /\
  (forall s, ~ In HASH (strip_comments s)).
Proof.
  repeat split.
  - exact strip_comments_crlf.
  - exact strip_comments_trailing_comment.
  - exact strip_comments_blank_line.
  - exact strip_comments_final_newline.
  - exact strip_comments_no_hash.
Qed.

Lemma pinned_scalar_rule_refuted :
  (exists data d, scalar_value_lenient extract_real data = SAccept d /\
     ~ (exists w1 tok w2, data = w1 ++ tok ++ w2 /\ all_space w1 /\ all_space w2 /\ float_lit tok d)) /\
  (exists data d, scalar_value_lenient extract_real data = SAccept d /\ scalar_value extract_real data = SReject) /\
  (exists data z, scalar_value_lenient extract_int data = SAccept z /\ scalar_value extract_int data = SReject) /\
  (forall data d, scalar_value extract_real data = SAccept d -> scalar_value_lenient extract_real data = SAccept d).
Proof.
  split; [exact real_scalar_lenient_refuted|]. split; [exact real_scalar_lenient_refuted2|].
  split; [exact int_scalar_lenient_refuted|].
  exact (scalar_value_implies_lenient extract_real extract_real_progress).
Qed.

Lemma pinned_vector_rules_refuted :
  (exists data vs, vector_dyn_lenient extract_real data = VAccept vs /\ vector_dyn extract_real data = VReject) /\
  (exists data vs, vector_fixed_lenient extract_real 1 data = VAccept vs /\ vector_fixed extract_real 1 data = VReject) /\
  (exists data vs, vector_dyn_lenient extract_real data = VAccept vs /\ length vs = 2%nat /\
                   vector_dyn extract_real data = VReject).
Proof.
  split; [exact vector_dyn_lenient_refuted|]. split; [exact vector_fixed_lenient_refuted|].
  exact vector_unseparated_refuted.
Qed.

Lemma single_line_value_layout_thm :
  (forall fuel conf key pos,
     key <> [] -> key_chars_ok key -> occurs (to_lower conf) key pos -> left_clear conf pos ->
     let le := match find_if is_lf conf pos with None => length conf | Some nl => nl end in
     let rest := substr conf (pos + length key + 1) (le - (pos + length key + 1)) in
     ~ In LBRACE rest ->
     exists data reg, extract_value fuel conf key pos = KL_found pos data le reg /\ trimmed_to rest data) /\
  (forall l c1 c2, trimmed_to l c1 -> trimmed_to l c2 -> c1 = c2).
Proof. split; [exact extract_value_single_line|exact trimmed_unique]. Qed.


(* whole-configuration independence of the raw-text layout: both clients see the configuration only through
   strip_comments, so every rewrite that strip_comments does not see leaves the whole result unchanged *)
Definition same_result (raw1 raw2 : list Z) : Prop :=
  (forall strict schema, parse_config strict schema raw1 = parse_config strict schema raw2) /\
  (forall strict items, nparse_config strict items raw1 = nparse_config strict items raw2).

Lemma same_result_of_strip : forall raw1 raw2, strip_comments raw1 = strip_comments raw2 -> same_result raw1 raw2.
Proof.
  intros raw1 raw2 H. split; intros; [unfold parse_config|unfold nparse_config]; rewrite H; reflexivity.
Qed.

Lemma whole_configuration_raw_layout :
  (forall p l q, ends_lf p -> no_lf l -> not_ending_cr l ->
     same_result (p ++ l ++ CR :: LF :: q) (p ++ l ++ LF :: q)) /\
  (forall p l c q, ends_lf p -> no_lf l -> no_lf c -> not_ending_cr l ->
     same_result (p ++ l ++ HASH :: c ++ LF :: q) (p ++ l ++ LF :: q)) /\
  (forall p w q, ends_lf p -> no_lf w -> all_ws (clean_line w) ->
     same_result (p ++ w ++ LF :: q) (p ++ q)) /\
  (forall p l, ends_lf p -> no_lf l -> l <> [] -> same_result (p ++ l) (p ++ l ++ [LF])).
Proof.
  split; [|split; [|split]]; intros; apply same_result_of_strip.
  - apply strip_comments_crlf; assumption.
  - apply strip_comments_trailing_comment; assumption.
  - apply strip_comments_blank_line; assumption.
  - apply strip_comments_final_newline; assumption.
Qed.
