(* Lemmas about the parser model (ParseModel.v).  Part 1: braces, lines and comments. *)
From Coq Require Import ZArith List Bool Arith Lia.
From CV Require Import C09.ParseModel.
Import ListNotations.
Local Open Scope Z_scope.

(* ------------------------------------------------------------------ specification vocabulary *)

Definition count (c : Z) (s : list Z) : nat := count_occ Z.eq_dec s c.

(* counter specification of "the braces balance": as many '{' as '}' *)
Definition balanced (s : list Z) : Prop := count LBRACE s = count RBRACE s.

(* nesting specification: the totals agree and no prefix closes more than it opens *)
Definition well_nested (s : list Z) : Prop :=
  balanced s /\ forall n, (count RBRACE (firstn n s) <= count LBRACE (firstn n s))%nat.

Definition all_ws (l : list Z) : Prop := forallb is_ws l = true.
Definition no_lf (l : list Z) : Prop := ~ In LF l.
Definition ends_lf (p : list Z) : Prop := p = [] \/ exists p', p = p' ++ [LF].
Definition not_ending_cr (l : list Z) : Prop := forall l', l <> l' ++ [CR].

(* ------------------------------------------------------------------ check_braces *)

Lemma count_cons : forall c x t, count c (x :: t) = ((if (x =? c)%Z then 1 else 0) + count c t)%nat.
Proof.
  intros c x t. unfold count. cbn [count_occ]. destruct (Z.eq_dec x c) as [E|E].
  - subst x. rewrite Z.eqb_refl. reflexivity.
  - destruct (Z.eqb_spec x c) as [E2|E2]; [congruence|reflexivity].
Qed.

Lemma count_app : forall c a b, count c (a ++ b) = (count c a + count c b)%nat.
Proof. intros c a b. unfold count. apply count_occ_app. Qed.

Lemma firstn_add : forall (l : list Z) p n, firstn (p + n) l = firstn p l ++ firstn n (skipn p l).
Proof.
  induction l as [|c t IH]; intros p n.
  - rewrite !firstn_nil, skipn_nil, firstn_nil. reflexivity.
  - destruct p as [|p']; [reflexivity|]. cbn [Nat.add firstn skipn app]. f_equal. apply IH.
Qed.

(* the repaired loop, for any current count d: it ends with count 0 and never goes below 0 *)
Lemma braces_ok_spec : forall s d,
  braces_ok s d = true <->
  (d + count LBRACE s = count RBRACE s)%nat /\
  forall n, (count RBRACE (firstn n s) <= d + count LBRACE (firstn n s))%nat.
Proof.
  induction s as [|c t IH]; intros d.
  - cbn [braces_ok]. rewrite Nat.eqb_eq. unfold count. cbn [count_occ]. split.
    + intros E. split; [lia|]. intros n. rewrite firstn_nil. cbn. lia.
    + intros [E _]. lia.
  - cbn [braces_ok]. rewrite !count_cons.
    assert (LR : (LBRACE =? RBRACE) = false) by reflexivity.
    assert (RL : (RBRACE =? LBRACE) = false) by reflexivity.
    destruct (Z.eqb_spec c LBRACE) as [E|E].
    + subst c. rewrite LR. rewrite IH. split.
      * intros [H1 H2]. split; [lia|]. intros n. destruct n as [|n']; [cbn; lia|].
        cbn [firstn]. rewrite !count_cons, Z.eqb_refl, LR. specialize (H2 n'). lia.
      * intros [H1 H2]. split; [lia|]. intros n. specialize (H2 (S n)). cbn [firstn] in H2.
        rewrite !count_cons, Z.eqb_refl, LR in H2. lia.
    + destruct (Z.eqb_spec c RBRACE) as [E2|E2].
      * subst c. destruct d as [|d'].
        -- split; [discriminate|]. intros [_ H2]. specialize (H2 1%nat). cbn [firstn] in H2.
           rewrite !count_cons, Z.eqb_refl, RL in H2. unfold count in H2. cbn [count_occ] in H2. lia.
        -- rewrite IH. split.
           ++ intros [H1 H2]. split; [lia|]. intros n. destruct n as [|n']; [cbn; lia|].
              cbn [firstn]. rewrite !count_cons, Z.eqb_refl, RL. specialize (H2 n'). lia.
           ++ intros [H1 H2]. split; [lia|]. intros n. specialize (H2 (S n)). cbn [firstn] in H2.
              rewrite !count_cons, Z.eqb_refl, RL in H2. lia.
      * rewrite IH. split.
        -- intros [H1 H2]. split; [lia|]. intros n. destruct n as [|n']; [cbn; lia|].
           cbn [firstn]. rewrite !count_cons.
           destruct (Z.eqb_spec c LBRACE); [congruence|]. destruct (Z.eqb_spec c RBRACE); [congruence|].
           specialize (H2 n'). lia.
        -- intros [H1 H2]. split; [lia|]. intros n. specialize (H2 (S n)). cbn [firstn] in H2.
           rewrite !count_cons in H2.
           destruct (Z.eqb_spec c LBRACE); [congruence|]. destruct (Z.eqb_spec c RBRACE); [congruence|]. lia.
Qed.

Lemma check_braces_iff : forall conf start,
  check_braces conf start = true <-> well_nested (skipn start conf).
Proof.
  intros conf start. unfold check_braces, well_nested, balanced. rewrite braces_ok_spec. cbn [Nat.add]. tauto.
Qed.

Lemma check_braces_iff_nested : forall conf, check_braces conf O = true <-> well_nested conf.
Proof. intros conf. rewrite check_braces_iff. cbn [skipn]. tauto. Qed.

Lemma well_nested_balanced : forall s, well_nested s -> balanced s.
Proof. intros s [H _]. exact H. Qed.

(* in a well-nested configuration, "well-nested from pos to the end" is "depth 0 at pos" *)
Lemma suffix_nested_iff_prefix : forall conf pos,
  well_nested conf -> (well_nested (skipn pos conf) <-> balanced (firstn pos conf)).
Proof.
  intros conf pos [Hb Hp]. unfold well_nested, balanced in *.
  assert (Hs : (count LBRACE (firstn pos conf) + count LBRACE (skipn pos conf) = count LBRACE conf /\
                count RBRACE (firstn pos conf) + count RBRACE (skipn pos conf) = count RBRACE conf)%nat).
  { rewrite <- !count_app, firstn_skipn. split; reflexivity. }
  split.
  - intros [H1 _]. lia.
  - intros H. split; [lia|]. intros n. specialize (Hp (pos + n)%nat). rewrite firstn_add, !count_app in Hp. lia.
Qed.

(* the pinned count test is weaker than nesting *)
Lemma brace_count_spec : forall s acc,
  brace_count s acc = acc + Z.of_nat (count LBRACE s) - Z.of_nat (count RBRACE s).
Proof.
  induction s as [|c t IH]; intros acc.
  - unfold count. cbn [brace_count count_occ]. lia.
  - cbn [brace_count]. rewrite IH, !count_cons. unfold brace_step.
    destruct (Z.eqb_spec c LBRACE) as [E|E].
    + subst c. assert (LR : (LBRACE =? RBRACE) = false) by reflexivity. rewrite LR. lia.
    + destruct (Z.eqb_spec c RBRACE) as [E2|E2]; lia.
Qed.

Lemma check_braces_pinned_iff : forall conf start,
  check_braces_pinned conf start = true <-> balanced (skipn start conf).
Proof.
  intros conf start. unfold check_braces_pinned, balanced. rewrite brace_count_spec, Z.eqb_eq. lia.
Qed.

Lemma check_braces_nesting_refuted :
  exists s, check_braces_pinned s O = true /\ ~ well_nested s.
Proof.
  exists [RBRACE; LBRACE]. split; [reflexivity|]. intros [_ H]. specialize (H 1%nat). cbn in H. lia.
Qed.

(* ------------------------------------------------------------------ lines *)

Lemma split_lines_line : forall l t, no_lf l -> split_lines (l ++ LF :: t) = l :: split_lines t.
Proof.
  induction l as [|c l IH]; intros t H.
  - cbn [app split_lines]. unfold LF. cbn. reflexivity.
  - cbn [app split_lines]. destruct (Z.eqb_spec c LF) as [E|E].
    + exfalso. apply H. left. exact E.
    + rewrite IH; [reflexivity|]. intros HI. apply H. right. exact HI.
Qed.

Lemma split_lines_last : forall l, no_lf l -> l <> [] -> split_lines l = [l].
Proof.
  induction l as [|c l IH]; intros H N; [congruence|].
  cbn [split_lines]. destruct (Z.eqb_spec c LF) as [E|E].
  - exfalso. apply H. left. exact E.
  - destruct l as [|d l'].
    + reflexivity.
    + rewrite IH; [reflexivity| |discriminate]. intros HI. apply H. right. exact HI.
Qed.

Lemma split_lines_app : forall p q, ends_lf p -> split_lines (p ++ q) = split_lines p ++ split_lines q.
Proof.
  intros p q [E|[p' E]]; subst p; [reflexivity|].
  revert q. induction p' as [|c p' IH]; intros q.
  - cbn [app split_lines]. unfold LF. cbn. reflexivity.
  - cbn [app split_lines]. destruct (Z.eqb_spec c LF) as [E|E].
    + cbn [app]. f_equal. apply IH.
    + rewrite IH.
      destruct (split_lines (p' ++ [LF])) as [|l r] eqn:S.
      * exfalso. destruct p' as [|d p'']; cbn [app split_lines] in S.
        -- unfold LF in S. cbn in S. discriminate.
        -- destruct (d =? LF); [discriminate|].
           destruct (split_lines (p'' ++ [LF])); discriminate.
      * reflexivity.
Qed.

Lemma strip_comments_app : forall p q, ends_lf p -> strip_comments (p ++ q) = strip_comments p ++ strip_comments q.
Proof.
  intros p q H. unfold strip_comments. rewrite split_lines_app by exact H. apply flat_map_app.
Qed.

Lemma strip_comments_line : forall l t, no_lf l -> strip_comments (l ++ LF :: t) = keep_line l ++ strip_comments t.
Proof. intros l t H. unfold strip_comments. rewrite split_lines_line by exact H. reflexivity. Qed.

(* ------------------------------------------------------------------ CR, comments *)

Lemma strip_cr_cons2 : forall c d r, strip_cr (c :: d :: r) = c :: strip_cr (d :: r).
Proof. reflexivity. Qed.

Lemma strip_cr_snoc_cr : forall l, strip_cr (l ++ [CR]) = l.
Proof.
  induction l as [|c l IH].
  - reflexivity.
  - destruct l as [|d r].
    + reflexivity.
    + cbn [app] in *. rewrite strip_cr_cons2, IH. reflexivity.
Qed.

Lemma strip_cr_id : forall l, not_ending_cr l -> strip_cr l = l.
Proof.
  induction l as [|c l IH]; intros H; [reflexivity|].
  cbn [strip_cr]. destruct l as [|d r].
  - destruct (Z.eqb_spec c CR) as [E|E]; [|reflexivity].
    exfalso. apply (H []). subst c. reflexivity.
  - f_equal. apply IH. intros l' E. apply (H (c :: l')). cbn [app]. rewrite <- E. reflexivity.
Qed.

Lemma strip_cr_snoc_other : forall l c, c <> CR -> strip_cr (l ++ [c]) = l ++ [c].
Proof.
  intros l c H. apply strip_cr_id. intros l' E. apply app_inj_tail in E. destruct E as [_ E]. congruence.
Qed.

(* LF and CRLF line ends give the same cleaned line *)
Lemma clean_line_crlf : forall l, not_ending_cr l -> clean_line (l ++ [CR]) = clean_line l.
Proof. intros l H. unfold clean_line. rewrite strip_cr_snoc_cr, strip_cr_id by exact H. reflexivity. Qed.

Lemma cut_comment_app_hash : forall l c, cut_comment (l ++ HASH :: c) = cut_comment l.
Proof.
  induction l as [|d l IH]; intros c.
  - cbn [app cut_comment]. unfold HASH. cbn. reflexivity.
  - cbn [app cut_comment]. destruct (d =? HASH); [reflexivity|]. rewrite IH. reflexivity.
Qed.

Lemma strip_cr_app_nonempty : forall l m, m <> [] -> strip_cr (l ++ m) = l ++ strip_cr m.
Proof.
  induction l as [|c l IH]; intros m H; [reflexivity|].
  destruct l as [|d r].
  - cbn [app]. destruct m as [|e m']; [congruence|]. rewrite strip_cr_cons2. reflexivity.
  - cbn [app] in *. rewrite strip_cr_cons2, IH by exact H. reflexivity.
Qed.

Lemma strip_cr_hash : forall c, exists c', strip_cr (HASH :: c) = HASH :: c'.
Proof.
  intros c. cbn [strip_cr]. destruct c as [|d r].
  - exists []. unfold HASH, CR. cbn. reflexivity.
  - exists (strip_cr (d :: r)). reflexivity.
Qed.

(* a comment appended to a line does not change the cleaned line *)
Lemma clean_line_comment : forall l c, not_ending_cr l -> clean_line (l ++ HASH :: c) = clean_line l.
Proof.
  intros l c H. unfold clean_line. rewrite strip_cr_app_nonempty by discriminate.
  destruct (strip_cr_hash c) as [c' E]. rewrite E, cut_comment_app_hash, strip_cr_id by exact H. reflexivity.
Qed.

Lemma cut_comment_no_hash : forall l, ~ In HASH (cut_comment l).
Proof.
  induction l as [|c l IH]; [intros []|].
  cbn [cut_comment]. destruct (Z.eqb_spec c HASH) as [E|E]; [intros []|].
  intros [H|H]; [congruence|exact (IH H)].
Qed.

(* what parse_config sees contains no comment character at all *)
Lemma strip_comments_no_hash : forall s, ~ In HASH (strip_comments s).
Proof.
  intros s H. unfold strip_comments in H. apply in_flat_map in H. destruct H as [l [_ H]].
  unfold keep_line in H. destruct (forallb is_ws (clean_line l)); [destruct H|].
  apply in_app_or in H. destruct H as [H|[H|[]]].
  - exact (cut_comment_no_hash _ H).
  - unfold HASH, LF in H. discriminate.
Qed.

(* layout rewrites of the raw text that read_config_string tolerates *)
Lemma strip_comments_crlf : forall p l q, ends_lf p -> no_lf l -> not_ending_cr l ->
  strip_comments (p ++ l ++ CR :: LF :: q) = strip_comments (p ++ l ++ LF :: q).
Proof.
  intros p l q Hp Hl Hc. rewrite (strip_comments_app p _ Hp), (strip_comments_app p _ Hp). apply (f_equal (fun x => strip_comments p ++ x)).
  replace (l ++ CR :: LF :: q) with ((l ++ [CR]) ++ LF :: q) by (rewrite <- app_assoc; reflexivity).
  assert (Hl' : no_lf (l ++ [CR])).
  { intros HI. apply in_app_or in HI. destruct HI as [HI|[HI|[]]]; [exact (Hl HI)|unfold CR, LF in HI; discriminate]. }
  rewrite (strip_comments_line _ _ Hl'), (strip_comments_line _ _ Hl).
  unfold keep_line. rewrite clean_line_crlf by exact Hc. reflexivity.
Qed.

Lemma strip_comments_trailing_comment : forall p l c q, ends_lf p -> no_lf l -> no_lf c -> not_ending_cr l ->
  strip_comments (p ++ l ++ HASH :: c ++ LF :: q) = strip_comments (p ++ l ++ LF :: q).
Proof.
  intros p l c q Hp Hl Hcm Hc. rewrite (strip_comments_app p _ Hp), (strip_comments_app p _ Hp). apply (f_equal (fun x => strip_comments p ++ x)).
  replace (l ++ HASH :: c ++ LF :: q) with ((l ++ HASH :: c) ++ LF :: q)
    by (rewrite <- app_assoc; reflexivity).
  assert (Hl' : no_lf (l ++ HASH :: c)).
  { intros HI. apply in_app_or in HI. destruct HI as [HI|[HI|HI]];
      [exact (Hl HI)|unfold HASH, LF in HI; discriminate|exact (Hcm HI)]. }
  rewrite (strip_comments_line _ _ Hl'), (strip_comments_line _ _ Hl).
  unfold keep_line. rewrite clean_line_comment by exact Hc. reflexivity.
Qed.

(* a blank line, or a line holding only a comment, may be inserted anywhere between lines *)
Lemma strip_comments_blank_line : forall p w q, ends_lf p -> no_lf w -> all_ws (clean_line w) ->
  strip_comments (p ++ w ++ LF :: q) = strip_comments (p ++ q).
Proof.
  intros p w q Hp Hw Hb. rewrite (strip_comments_app p _ Hp), (strip_comments_app p _ Hp). apply (f_equal (fun x => strip_comments p ++ x)).
  rewrite strip_comments_line by exact Hw. unfold keep_line. unfold all_ws in Hb. rewrite Hb. reflexivity.
Qed.

(* the final line may or may not be terminated *)
Lemma strip_comments_final_newline : forall p l, ends_lf p -> no_lf l -> l <> [] ->
  strip_comments (p ++ l) = strip_comments (p ++ l ++ [LF]).
Proof.
  intros p l Hp Hl Hn. rewrite (strip_comments_app p _ Hp), (strip_comments_app p _ Hp). apply (f_equal (fun x => strip_comments p ++ x)).
  rewrite strip_comments_line by exact Hl. unfold strip_comments at 1.
  rewrite split_lines_last by assumption. cbn [flat_map strip_comments split_lines]. reflexivity.
Qed.
