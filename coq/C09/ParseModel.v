(* Model of the configuration parser of Colvars: src/colvarparse.cpp (check_braces, key_lookup,
   get_key_string_value, _get_keyval_scalar_value_, _get_keyval_vector_, strip_values, check_keywords,
   split_string), colvarmodule::getline / read_config_string (src/colvarmodule.cpp), and of what the C++ library's
   operator>> consumes for double / int (libstdc++ num_get::_M_extract_float / _M_extract_int in the "C" locale).
   Byte strings are lists of Z (one element per char, 0..255); positions are nat; std::string::npos is None.
   Definitions only (extracted); loops that are not structural run on explicit fuel and return an
   out-of-fuel result that the theorems of ParseProofs.v show unreachable for fuel = length of the input + 1. *)
From Coq Require Import ZArith List Bool Arith Lia.
Import ListNotations.
Local Open Scope Z_scope.

Definition LF := 10.   Definition CR := 13.   Definition SP := 32.   Definition TAB := 9.
Definition HASH := 35. Definition LBRACE := 123. Definition RBRACE := 125.

(* ::tolower in the C locale *)
Definition lower (c : Z) : Z := if (65 <=? c) && (c <=? 90) then c + 32 else c.
Definition to_lower (s : list Z) : list Z := map lower s.

Definition memb (c : Z) (s : list Z) : bool := existsb (Z.eqb c) s.

Definition white_space : list Z := [SP; TAB].                       (* colvarparse::white_space *)
Definition delims_left : list Z := [LF; SP; TAB; RBRACE].           (* keyword_delimiters_left  *)
Definition delims_right : list Z := [LF; SP; TAB; LBRACE].          (* keyword_delimiters_right *)
Definition is_ws (c : Z) : bool := memb c white_space.
Definition is_lf (c : Z) : bool := c =? LF.
Definition is_brace (c : Z) : bool := (c =? LBRACE) || (c =? RBRACE).
(* isspace in the C locale *)
Definition is_space (c : Z) : bool := ((9 <=? c) && (c <=? 13)) || (c =? 32).
Definition is_digit (c : Z) : bool := (48 <=? c) && (c <=? 57).

(* ---------------------------------------------------------------- std::string primitives *)

Fixpoint prefixb (p s : list Z) : bool :=
  match p, s with
  | [], _ => true
  | a :: p', b :: s' => (a =? b) && prefixb p' s'
  | _ :: _, [] => false
  end.

(* s is the suffix that starts at absolute index i *)
Fixpoint find_sub_aux (s needle : list Z) (i : nat) : option nat :=
  if prefixb needle s then Some i
  else match s with [] => None | _ :: t => find_sub_aux t needle (S i) end.

(* str.find(needle, from) *)
Definition find_sub (s needle : list Z) (from : nat) : option nat :=
  if (length s <? from)%nat then None else find_sub_aux (skipn from s) needle from.

Fixpoint find_if_aux (P : Z -> bool) (s : list Z) (i : nat) : option nat :=
  match s with [] => None | c :: t => if P c then Some i else find_if_aux P t (S i) end.

(* first index >= from whose char satisfies P: find / find_first_of / find_first_not_of *)
Definition find_if (P : Z -> bool) (s : list Z) (from : nat) : option nat :=
  find_if_aux P (skipn from s) from.

Fixpoint rfind_if_aux (P : Z -> bool) (s : list Z) (i : nat) (acc : option nat) : option nat :=
  match s with [] => acc | c :: t => rfind_if_aux P t (S i) (if P c then Some i else acc) end.

(* last index <= pos whose char satisfies P: rfind / find_last_of / find_last_not_of *)
Definition rfind_if (P : Z -> bool) (s : list Z) (pos : nat) : option nat :=
  rfind_if_aux P (firstn (S pos) s) 0 None.

Definition substr (s : list Z) (b n : nat) : list Z := firstn n (skipn b s).

(* ---------------------------------------------------------------- check_braces *)

Definition brace_step (acc c : Z) : Z :=
  if c =? LBRACE then acc + 1 else if c =? RBRACE then acc - 1 else acc.

Fixpoint brace_count (s : list Z) (acc : Z) : Z :=
  match s with [] => acc | c :: t => brace_count t (brace_step acc c) end.

(* check_braces as pinned: only the numbers of '{' and '}' were compared (kept for the record) *)
Definition check_braces_pinned (conf : list Z) (start : nat) : bool :=
  brace_count (skipn start conf) 0 =? 0.

(* the loop of check_braces after the repair: the count must never become negative and must end at 0;
   d is the current brace_count *)
Fixpoint braces_ok (s : list Z) (d : nat) : bool :=
  match s with
  | [] => (d =? 0)%nat
  | c :: t => if c =? LBRACE then braces_ok t (S d)
              else if c =? RBRACE then match d with O => false | S d' => braces_ok t d' end
              else braces_ok t d
  end.

(* colvarparse::check_braces(conf, start_pos) == COLVARS_OK *)
Definition check_braces (conf : list Z) (start : nat) : bool := braces_ok (skipn start conf) O.

(* ---------------------------------------------------------------- lines, comments (read_config_string) *)

(* the lines std::getline returns: a final line without LF is returned unless it is empty *)
Fixpoint split_lines (s : list Z) : list (list Z) :=
  match s with
  | [] => []
  | c :: t => if c =? LF then [] :: split_lines t
              else match split_lines t with [] => [[c]] | l :: r => (c :: l) :: r end
  end.

(* colvarmodule::getline: drop one trailing CR *)
Fixpoint strip_cr (l : list Z) : list Z :=
  match l with
  | [] => []
  | c :: t => match t with [] => if c =? CR then [] else [c] | _ :: _ => c :: strip_cr t end
  end.

Fixpoint cut_comment (l : list Z) : list Z :=
  match l with [] => [] | c :: t => if c =? HASH then [] else c :: cut_comment t end.

(* read_config_line: getline, then erase from the first '#' *)
Definition clean_line (l : list Z) : list Z := cut_comment (strip_cr l).

Definition keep_line (l : list Z) : list Z :=
  let l' := clean_line l in if forallb is_ws l' then [] else l' ++ [LF].

(* colvarmodule::read_config_string: the string handed to parse_config *)
Definition strip_comments (s : list Z) : list Z := flat_map keep_line (split_lines s).

(* ---------------------------------------------------------------- key_lookup *)

Inductive kl_reg :=
| RegNone                        (* nothing pushed to data_begin_pos / data_end_pos *)
| Reg (b e : nat).               (* [b, e): where the value sits in conf *)

Inductive kl_result :=
| KL_notfound
| KL_error (save_pos : nat)      (* "reached the end while looking for closing brace": false + INPUT_ERROR *)
| KL_found (pos : nat) (data : list Z) (save_pos : nat) (reg : kl_reg)
| KL_outoffuel.

Definition line_begin_of (s : list Z) (pos : nat) : nat :=
  match rfind_if is_lf s pos with None => O | Some pl => S pl end.

Definition isolated_left (conf conf_lower : list Z) (pos : nat) : bool :=
  match pos with
  | O => true
  | S p =>
    if negb (memb (nth p conf 0) delims_left) then false
    else
      let line_begin := line_begin_of conf_lower pos in
      let first_text := match find_if (fun c => negb (memb c delims_left)) conf_lower line_begin with
                        | None => pos | Some pc => pc end in
      negb (first_text <? pos)%nat
  end.

(* `if (pos+key.size() < conf.size())`: the character that follows the keyword, if there is one, is a delimiter
   (the pinned code tested `pos < conf.size()-key.size()-1`, which skipped the test for the last character of the
   string and, by size_t wrap-around, never matched a string equal to the keyword: repaired) *)
Definition isolated_right (conf : list Z) (pos klen : nat) : bool :=
  if (pos + klen <? length conf)%nat then memb (nth (pos + klen) conf 0) delims_right else true.

(* the test as the pinned code made it (kept for the record; not used by the model) *)
Definition isolated_right_pinned (conf : list Z) (pos klen : nat) : bool :=
  let n := length conf in
  if (n <? klen + 1)%nat then memb (nth (pos + klen) conf 0) delims_right
  else if (pos <? n - klen - 1)%nat then memb (nth (pos + klen) conf 0) delims_right
  else true.

Definition candidate (conf conf_lower : list Z) (klen pos : nat) : bool :=
  isolated_left conf conf_lower pos && isolated_right conf pos klen && check_braces conf pos.

Inductive search_result := SNotFound | SFound (pos : nat) | SOutOfFuel.

(* the `while (true)` loop over the occurrences of key in conf_lower *)
Fixpoint search (fuel : nat) (conf conf_lower key : list Z) (pos : option nat) : search_result :=
  match fuel with
  | O => SOutOfFuel
  | S f =>
    match pos with
    | None => SNotFound
    | Some p =>
      if candidate conf conf_lower (length key) p then SFound p
      else search f conf conf_lower key (find_sub conf_lower key (p + length key))
    end
  end.

(* inner `while (brace < npos)` loop: l is the part of `line` that starts at index i.
   Returns (count reached 0?, brace_count, brace_last) *)
Fixpoint scan_line (l : list Z) (i : nat) (count : Z) (last : nat) : bool * Z * nat :=
  match l with
  | [] => (false, count, last)
  | c :: t =>
    if is_brace c then
      let count' := brace_step count c in
      if count' =? 0 then (true, count', i) else scan_line t (S i) count' i
    else scan_line t (S i) count last
  end.

Inductive brace_result := BDone (line : list Z) (line_end : nat) | BError | BOutOfFuel.

(* outer `while (brace_count > 0)` loop: appends lines of conf until the braces match *)
Fixpoint brace_loop (fuel : nat) (conf line : list Z) (line_end last : nat) (count : Z) : brace_result :=
  match fuel with
  | O => BOutOfFuel
  | S f =>
    let '(hit, count', last') := scan_line (skipn (S last) line) (S last) count last in
    if hit then BDone line line_end
    else if (length conf <=? line_end)%nat then BError
    else
      let lb := line_end in
      let le := match find_if is_lf conf (S lb) with None => length conf | Some nl => nl end in
      brace_loop f conf (line ++ substr conf lb (le - lb)) le last' count'
  end.

(* data_begin_pos / data_end_pos: line_start + data_begin, + data->size()
   (the pinned code pushed conf.find(data, pos+key.size()), which can point at earlier text: mk_reg_pinned) *)
Definition mk_reg (data : list Z) (start : nat) : kl_reg :=
  match data with [] => RegNone | _ => Reg start (start + length data) end.

Definition mk_reg_pinned (conf data : list Z) (from : nat) : option kl_reg :=
  match data with
  | [] => Some RegNone
  | _ => match find_sub conf data from with Some b => Some (Reg b (b + length data)) | None => None end
  end.

(* the part of key_lookup after the keyword has been found at pos *)
Definition extract_value (fuel : nat) (conf key : list Z) (pos : nat) : kl_result :=
  let klen := length key in
  let line_begin := line_begin_of conf pos in
  let line_end := match find_if is_lf conf pos with None => length conf | Some nl => nl end in
  let line := substr conf line_begin (line_end - line_begin) in
  let db0 := match find_sub (to_lower line) key 0 with Some k => (k + klen)%nat | None => klen end in
  match find_if (fun c => negb (is_ws c)) line (S db0) with
  | None => KL_found pos [] line_end RegNone
  | Some db =>
    let de := match rfind_if (fun c => negb (is_ws c)) line (length line) with Some k => S k | None => O end in
    match find_if (fun c => c =? LBRACE) line db with
    | None =>
      let data := if (db <? de)%nat then substr line db (de - db) else [] in
      KL_found pos data line_end (mk_reg data (line_begin + db))
    | Some br =>
      match brace_loop fuel conf line line_end br 1 with
      | BOutOfFuel => KL_outoffuel
      | BError => KL_error (pos + klen)
      | BDone line' line_end' =>
        let fb := match find_if (fun c => c =? LBRACE) line' 0 with Some k => S k | None => O end in
        let db' := match find_if (fun c => negb (is_ws c)) line' fb with Some k => k | None => length line' end in
        let lastb := match rfind_if (fun c => c =? RBRACE) line' (length line') with
                     | Some (S k) => k | _ => length line' end in
        let de' := match rfind_if (fun c => negb (is_ws c)) line' lastb with Some k => S k | None => O end in
        let data := if (db' <? de')%nat then substr line' db' (de' - db') else [] in
        KL_found pos data line_end' (mk_reg data (line_begin + db'))
      end
    end
  end.

(* colvarparse::key_lookup(conf, key_in, &data, &save_pos) *)
Definition key_lookup (fuel : nat) (conf key_in : list Z) (save_pos : nat) : kl_result :=
  let key := to_lower key_in in
  let conf_lower := to_lower conf in
  match search fuel conf conf_lower key (find_sub conf_lower key save_pos) with
  | SOutOfFuel => KL_outoffuel
  | SNotFound => KL_notfound
  | SFound pos => extract_value fuel conf key pos
  end.

Definition fuel_of (conf : list Z) : nat := S (length conf).

(* ---------------------------------------------------------------- get_key_string_value *)

Record ksv := { ksv_found : bool; ksv_count : nat; ksv_data : list Z; ksv_err : bool;
                ksv_regs : list kl_reg; ksv_all : list (list Z); ksv_oof : bool }.

(* do { b_found = key_lookup(conf, key, &data_this, &save_pos); ... } while (b_found) *)
Fixpoint ksv_loop (fuel : nat) (conf key : list Z) (save_pos : nat) (acc : ksv) : ksv :=
  match fuel with
  | O => {| ksv_found := ksv_found acc; ksv_count := ksv_count acc; ksv_data := ksv_data acc;
            ksv_err := ksv_err acc; ksv_regs := ksv_regs acc; ksv_all := ksv_all acc; ksv_oof := true |}
  | S f =>
    match key_lookup (fuel_of conf) conf key save_pos with
    | KL_found _ d sp r =>
      ksv_loop f conf key sp {| ksv_found := true; ksv_count := S (ksv_count acc); ksv_data := d;
                                ksv_err := ksv_err acc; ksv_regs := ksv_regs acc ++ [r];
                                ksv_all := ksv_all acc ++ [d]; ksv_oof := ksv_oof acc |}
    | KL_notfound => acc
    | KL_error _ => {| ksv_found := ksv_found acc; ksv_count := ksv_count acc; ksv_data := ksv_data acc;
                       ksv_err := true; ksv_regs := ksv_regs acc; ksv_all := ksv_all acc; ksv_oof := ksv_oof acc |}
    | KL_outoffuel => {| ksv_found := ksv_found acc; ksv_count := ksv_count acc; ksv_data := ksv_data acc;
                         ksv_err := ksv_err acc; ksv_regs := ksv_regs acc; ksv_all := ksv_all acc; ksv_oof := true |}
    end
  end.

Definition ksv_init : ksv := {| ksv_found := false; ksv_count := O; ksv_data := []; ksv_err := false;
                                ksv_regs := []; ksv_all := []; ksv_oof := false |}.

Definition key_string_values (conf key : list Z) : ksv := ksv_loop (fuel_of conf) conf key O ksv_init.

(* ---------------------------------------------------------------- numbers: what operator>> consumes *)

Fixpoint skip_space (l : list Z) : list Z :=
  match l with [] => [] | c :: t => if is_space c then skip_space t else l end.

Fixpoint span_digits (l : list Z) : list Z * list Z :=
  match l with
  | [] => ([], [])
  | c :: t => if is_digit c then let '(d, r) := span_digits t in (c :: d, r) else ([], l)
  end.

(* a decimal number sign * digits * 10^exp; digits are ASCII codes *)
Record dec := { d_neg : bool; d_digits : list Z; d_exp : Z }.

Fixpoint digits_val (l : list Z) (acc : Z) : Z :=
  match l with [] => acc | c :: t => digits_val t (10 * acc + (c - 48)) end.

(* num_get::_M_extract_float, "C" locale: the characters accumulated for strtod.
   fs_int/fs_frac/fs_exp: digits before the point, after it, of the exponent. *)
Record fscan := { fs_neg : bool; fs_int : list Z; fs_frac : list Z; fs_sci : bool; fs_eneg : bool;
                  fs_exp : list Z; fs_rest : list Z }.

Definition is_sign (c : Z) : bool := (c =? 43) || (c =? 45).
Definition is_e (c : Z) : bool := (c =? 101) || (c =? 69).
Definition DOT := 46.

(* optional sign *)
Definition take_sign (l : list Z) : bool * list Z :=
  match l with c :: t => if is_sign c then (c =? 45, t) else (false, l) | [] => (false, l) end.

(* optional decimal point followed by digits *)
Definition take_frac (l : list Z) : list Z * list Z :=
  match l with c :: t => if c =? DOT then span_digits t else ([], l) | [] => ([], l) end.

Definition scan_float (l : list Z) : fscan :=
  let '(neg, l1) := take_sign l in
  let '(ip, l2) := span_digits l1 in
  let '(fp, l3) := take_frac l2 in
  let mant := negb (match ip ++ fp with [] => true | _ => false end) in
  match l3 with
  | c :: t =>
    if is_e c && mant then
      let '(eneg, l4) := take_sign t in
      let '(ep, l5) := span_digits l4 in
      {| fs_neg := neg; fs_int := ip; fs_frac := fp; fs_sci := true; fs_eneg := eneg; fs_exp := ep; fs_rest := l5 |}
    else {| fs_neg := neg; fs_int := ip; fs_frac := fp; fs_sci := false; fs_eneg := false; fs_exp := []; fs_rest := l3 |}
  | [] => {| fs_neg := neg; fs_int := ip; fs_frac := fp; fs_sci := false; fs_eneg := false; fs_exp := []; fs_rest := l3 |}
  end.

(* strtod consumed all the accumulated characters *)
Definition fscan_ok (f : fscan) : bool :=
  negb (match fs_int f ++ fs_frac f with [] => true | _ => false end) &&
  (negb (fs_sci f) || negb (match fs_exp f with [] => true | _ => false end)).

Definition fscan_dec (f : fscan) : dec :=
  let e := digits_val (fs_exp f) 0 in
  {| d_neg := fs_neg f; d_digits := fs_int f ++ fs_frac f;
     d_exp := (if fs_eneg f then - e else e) - Z.of_nat (length (fs_frac f)) |}.

Fixpoint strip_zeros (l : list Z) : list Z :=
  match l with c :: t => if c =? 48 then strip_zeros t else l | [] => [] end.

(* |value| rounds to infinity in binary64 (strtod returns HUGE_VAL, __convert_to_v sets failbit) *)
Definition dec_overflows (d : dec) : bool :=
  let ds := strip_zeros (d_digits d) in
  match ds with
  | [] => false
  | _ =>
    let m := digits_val ds 0 in
    let mag := Z.of_nat (length ds) + d_exp d in
    if mag >? 400 then true else if mag <? -400 then false
    else
      let thr := 2 ^ 1024 - 2 ^ 970 in
      if 0 <=? d_exp d then thr <=? m * 10 ^ (d_exp d) else thr * 10 ^ (- d_exp d) <=? m
  end.

Inductive ext (A : Type) := ExtOk (v : A) (rest : list Z) | ExtFail.
Arguments ExtOk {A}. Arguments ExtFail {A}.

(* `is >> x` for a double on the (non-empty, not starting with white space) remaining text *)
Definition extract_real (l : list Z) : ext dec :=
  let f := scan_float l in
  if fscan_ok f && negb (dec_overflows (fscan_dec f)) then ExtOk (fscan_dec f) (fs_rest f) else ExtFail.

(* `is >> x` for an integer type with range [lo, hi] (num_get::_M_extract_int, base 10): optional sign, digits;
   failbit when the value is out of range *)
Definition extract_intr (lo hi : Z) (l : list Z) : ext Z :=
  let '(neg, l1) := take_sign l in
  let '(ds, rest) := span_digits l1 in
  match ds with
  | [] => ExtFail
  | _ => let v := if neg then - digits_val ds 0 else digits_val ds 0 in
         if (lo <=? v) && (v <=? hi) then ExtOk v rest else ExtFail
  end.

Definition extract_int : list Z -> ext Z := extract_intr (-2147483648) 2147483647.            (* int *)
Definition extract_long : list Z -> ext Z := extract_intr (-9223372036854775808) 9223372036854775807.   (* long, step_number *)
(* size_t after the repair: a '-' anywhere in the value text is refused before the extraction (get_keyval below) *)
Definition extract_size : list Z -> ext Z := extract_intr 0 18446744073709551615.

(* size_t as pinned: the library negates modulo 2^64 ("-5" is read as 18446744073709551611) *)
Definition extract_size_pinned (l : list Z) : ext Z :=
  let '(neg, l1) := take_sign l in
  let '(ds, rest) := span_digits l1 in
  match ds with
  | [] => ExtFail
  | _ => let n := digits_val ds 0 in
         if n <=? 18446744073709551615 then ExtOk (if neg then (18446744073709551616 - n) mod 18446744073709551616 else n) rest
         else ExtFail
  end.

Fixpoint span_nonspace (l : list Z) : list Z * list Z :=
  match l with
  | [] => ([], [])
  | c :: t => if is_space c then ([], l) else let '(w, r) := span_nonspace t in (c :: w, r)
  end.

(* `is >> str` for a std::string *)
Definition extract_word (l : list Z) : ext (list Z) :=
  match span_nonspace l with ([], _) => ExtFail | (w, r) => ExtOk w r end.

(* the value just read is followed by white space or by the end of the text *)
Definition delimited (rest : list Z) : bool := match rest with [] => true | c :: _ => is_space c end.

(* `is >> sep` for a char that must be c: skips white space, reads one character *)
Definition expect_char (c : Z) (l : list Z) : option (list Z) :=
  match skip_space l with x :: t => if x =? c then Some t else None | [] => None end.

(* after the '(' : n numbers separated by ',' (operator>> of rvector, quaternion, vector1d) *)
Fixpoint tuple_items (n : nat) (l : list Z) : option (list dec * list Z) :=
  match n with
  | O => Some ([], l)
  | S m =>
    match skip_space l with
    | [] => None
    | c :: t =>
      match extract_real (c :: t) with
      | ExtFail => None
      | ExtOk v r =>
        match m with
        | O => Some ([v], r)
        | S _ => match expect_char 44 r with
                 | None => None
                 | Some r' => match tuple_items m r' with Some (vs, r2) => Some (v :: vs, r2) | None => None end
                 end
        end
      end
    end
  end.

(* `is >> x` for a 3-vector "( x , y , z )" (n = 3), a quaternion (n = 4), a vector value of n entries *)
Definition extract_tuple (n : nat) (l : list Z) : ext (list dec) :=
  match expect_char 40 l with
  | None => ExtFail
  | Some l1 => match tuple_items n l1 with
               | None => ExtFail
               | Some (vs, r) => match expect_char 41 r with Some r' => ExtOk vs r' | None => ExtFail end
               end
  end.

Section Values.
  Context {A : Type}.
  Variable extract : list Z -> ext A.

  (* the loop that reads values: returns the values read and the unread text ([] = everything was consumed).
     delim = false: `while (is >> x) { ... }` of the pinned code, which stops at the first failure;
     delim = true: the repaired loop `while (!(is >> std::ws).eof()) { if ((is >> x) && value_is_delimited(is)) ... else error }`:
     a value must be followed by white space or the end, and unread text is an error *)
  Fixpoint extract_all (delim : bool) (fuel : nat) (l : list Z) : list A * list Z :=
    match fuel with
    | O => ([], l)
    | S f =>
      match skip_space l with
      | [] => ([], [])
      | l' => match extract l' with
              | ExtFail => ([], l')
              | ExtOk v rest =>
                if delim && negb (delimited rest) then ([], l')
                else let '(vs, r) := extract_all delim f rest in (v :: vs, r)
              end
      end
    end.

  Inductive sres := SAccept (v : A) | SReject.

  (* _get_keyval_scalar_value_ as pinned: exactly one successful extraction before the first failure;
     whatever follows the first failure is never looked at *)
  Definition scalar_value_lenient (data : list Z) : sres :=
    match fst (extract_all false (S (length data)) data) with
    | [v] => SAccept v
    | _ => SReject
    end.

  (* _get_keyval_scalar_value_ after the repair: additionally the whole text must have been consumed *)
  Definition scalar_value (data : list Z) : sres :=
    match extract_all true (S (length data)) data with
    | ([v], []) => SAccept v
    | _ => SReject
    end.

  Inductive vres := VAccept (vs : list A) | VReject.

  (* _get_keyval_vector_, values.size() == 0 on entry (pinned: never an error; repaired: unread text is one) *)
  Definition vector_dyn_lenient (data : list Z) : vres :=
    VAccept (fst (extract_all false (S (length data)) data)).
  Definition vector_dyn (data : list Z) : vres :=
    match extract_all true (S (length data)) data with (vs, []) => VAccept vs | _ => VReject end.

  (* _get_keyval_vector_, values.size() == n on entry (pinned: n extractions, the rest ignored) *)
  Definition vector_fixed_lenient (n : nat) (data : list Z) : vres :=
    let vs := fst (extract_all false (S (length data)) data) in
    if (n <=? length vs)%nat then VAccept (firstn n vs) else VReject.
  Definition vector_fixed (n : nat) (data : list Z) : vres :=
    match extract_all true (S (length data)) data with
    | (vs, []) => if (length vs =? n)%nat then VAccept vs else VReject
    | _ => VReject
    end.
End Values.
Arguments SAccept {A}. Arguments SReject {A}. Arguments VAccept {A}. Arguments VReject {A}.

(* _get_keyval_scalar_value_<bool> *)
Definition str_on := [111; 110].           Definition str_yes := [121; 101; 115].
Definition str_true := [116; 114; 117; 101].
Definition str_off := [111; 102; 102].     Definition str_no := [110; 111].
Definition str_false := [102; 97; 108; 115; 101].
Definition list_eqb (a b : list Z) : bool := (length a =? length b)%nat && prefixb a b.
Definition bool_value (data : list Z) : sres (A := bool) :=
  if list_eqb data str_on || list_eqb data str_yes || list_eqb data str_true then SAccept true
  else if list_eqb data str_off || list_eqb data str_no || list_eqb data str_false then SAccept false
  else SReject.

(* a WEAKER rule, for contrast (not used by the model of the parser): only the first white-space delimited word of the
   value text is compared with the six spellings, and the rest of the text is never looked at *)
Definition bool_value_first_word (data : list Z) : sres (A := bool) :=
  match extract_word (skip_space data) with ExtOk w _ => bool_value w | ExtFail => SReject end.

(* ---------------------------------------------------------------- strip_values / check_keywords *)

(* position i of conf belongs to a registered value *)
Definition covered (rs : list kl_reg) (i : nat) : bool :=
  existsb (fun r => match r with Reg b e => (b <=? i)%nat && (i <? e)%nat | RegNone => false end) rs.

Fixpoint strip_from (rs : list kl_reg) (s : list Z) (i : nat) : list Z :=
  match s with
  | [] => []
  | c :: t => if covered rs i then strip_from rs t (S i) else c :: strip_from rs t (S i)
  end.

(* strip_values after the repair: the characters of all registered values are dropped (ranges may repeat, nest,
   overlap or reach beyond the end) *)
Definition strip_values (conf : list Z) (rs : list kl_reg) : list Z := strip_from rs conf O.

(* strip_values as pinned (kept for the record): begin and end positions sorted and uniqued SEPARATELY, then paired;
   conf.erase(pos, n) throws std::out_of_range when pos > size (None) *)
Fixpoint insert_sorted (x : nat) (l : list nat) : list nat :=
  match l with [] => [x] | y :: t => if (x <=? y)%nat then x :: l else y :: insert_sorted x t end.
Definition sort_nat (l : list nat) : list nat := fold_right insert_sorted [] l.
Fixpoint uniq_adj (l : list nat) : list nat :=
  match l with
  | [] => []
  | x :: t => match t with [] => [x] | y :: _ => if (x =? y)%nat then uniq_adj t else x :: uniq_adj t end
  end.
Definition erase (s : list Z) (pos n : nat) : option (list Z) :=
  if (length s <? pos)%nat then None else Some (firstn pos s ++ skipn (pos + n) s).
Fixpoint strip_loop (s : list Z) (bs es : list nat) (offset : nat) : option (list Z) :=
  match bs, es with
  | b :: bs', e :: es' =>
    if (e <? b)%nat || (b <? offset)%nat then None
    else match erase s (b - offset) (e - b) with
         | None => None
         | Some s' => strip_loop s' bs' es' (offset + (e - b))
         end
  | _, _ => Some s
  end.
Definition reg_begins (rs : list kl_reg) : list nat :=
  flat_map (fun r => match r with Reg b _ => [b] | _ => [] end) rs.
Definition reg_ends (rs : list kl_reg) : list nat :=
  flat_map (fun r => match r with Reg _ e => [e] | _ => [] end) rs.
Definition strip_values_pinned (conf : list Z) (rs : list kl_reg) : option (list Z) :=
  strip_loop conf (uniq_adj (sort_nat (reg_begins rs))) (uniq_adj (sort_nat (reg_ends rs))) O.

(* `line_is >> uk` *)
Definition first_token (l : list Z) : list Z := fst (span_nonspace (skip_space l)).

Definition mem_str (w : list Z) (ws : list (list Z)) : bool := existsb (list_eqb w) ws.

(* the white-space separated words of a line, as successive `line_is >> word` return them *)
Fixpoint words_aux (l : list Z) (cur : list Z) : list (list Z) :=
  match l with
  | [] => match cur with [] => [] | _ => [rev cur] end
  | c :: t => if is_space c then (match cur with [] => words_aux t [] | _ => rev cur :: words_aux t [] end)
              else words_aux t (c :: cur)
  end.
Definition words (l : list Z) : list (list Z) := words_aux l [].

(* a word after the first one: only braces (what is left of a block whose contents were read), or a keyword *)
Definition word_ok (allowed : list (list Z)) (w : list Z) : bool :=
  forallb is_brace w || mem_str (to_lower w) allowed.

Definition line_ok (allowed : list (list Z)) (l : list Z) : bool :=
  let l' := strip_cr l in
  match l' with
  | [] => true
  | _ => if forallb is_ws l' then true
         else mem_str (to_lower (first_token l')) allowed && forallb (word_ok allowed) (tl (words l'))
  end.

(* the pinned check looked at the first word only *)
Definition line_ok_pinned (allowed : list (list Z)) (l : list Z) : bool :=
  let l' := strip_cr l in
  match l' with
  | [] => true
  | _ => if forallb is_ws l' then true else mem_str (to_lower (first_token l')) allowed
  end.

(* colvarparse::check_keywords == COLVARS_OK, on the already stripped string *)
Definition check_lines (allowed : list (list Z)) (stripped : list Z) : bool :=
  forallb (line_ok allowed) (split_lines stripped).

Inductive ck_result := CK_ok | CK_unknown_keyword.

Definition check_keywords (allowed : list (list Z)) (conf : list Z) (rs : list kl_reg) : ck_result :=
  if check_lines allowed (strip_values conf rs) then CK_ok else CK_unknown_keyword.

(* ---------------------------------------------------------------- a generic client: flat schema *)

Inductive kind := KReal | KInt | KBool | KString | KRealVec | KRealVecN (n : nat) | KBlock
| KSize | KLong | KIntVec | KWordVec   (* size_t, long, std::vector<int>, std::vector<std::string> *)
| KTupleVec (n : nat)            (* std::vector<cvm::rvector> (3), std::vector<cvm::quaternion> (4) *)
| KTuple (n : nat)               (* cvm::rvector (3), cvm::quaternion (4), colvarvalue of type vector (n) *)
| KReq (k : kind).               (* the same keyword looked up with parse_required *)

Fixpoint base_kind (k : kind) : kind := match k with KReq k' => base_kind k' | _ => k end.
Definition is_required (k : kind) : bool := match k with KReq _ => true | _ => false end.

Inductive value :=
| VNotGiven
| VReal (d : dec) | VInt (z : Z) | VBool (b : bool) | VString (s : list Z)
| VReals (l : list dec) | VBlocks (l : list (list Z)) | VTuple (l : list dec) | VInts (l : list Z) | VWords (l : list (list Z)) | VTuples (l : list (list dec))
| VBad.                                           (* an error was raised for this keyword *)

Record pstate := { ps_allowed : list (list Z); ps_regs : list kl_reg; ps_err : bool; ps_oof : bool;
                   ps_values : list value }.

(* strict = the repaired _get_keyval_scalar_value_ / _get_keyval_vector_; otherwise the pinned ones *)
Definition get_keyval (strict : bool) (conf : list Z) (st : pstate) (kk : list Z * kind) : pstate :=
  let '(key, k0) := kk in
  let k := base_kind k0 in
  let r := key_string_values conf key in
  let multi := (1 <? ksv_count r)%nat in
  let data := ksv_data r in
  let '(v, bad) :=
    match k with
    | KBlock =>
      if ksv_found r then (VBlocks (ksv_all r), existsb (fun d => match d with [] => true | _ => false end) (ksv_all r))
      else (VNotGiven, false)
    | _ =>
      match data with
      | [] => if ksv_found r then
                match k with KBool => (VBool true, false) | _ => (VBad, true) end
              else (VNotGiven, false)
      | _ =>
        match k with
        | KReal => match (if strict then scalar_value extract_real data else scalar_value_lenient extract_real data)
                   with SAccept d => (VReal d, false) | SReject => (VBad, true) end
        | KInt => match (if strict then scalar_value extract_int data else scalar_value_lenient extract_int data)
                  with SAccept z => (VInt z, false) | SReject => (VBad, true) end
        | KBool => match bool_value data with SAccept b => (VBool b, false) | SReject => (VBad, true) end
        | KString => match (if strict then scalar_value extract_word data else scalar_value_lenient extract_word data)
                     with SAccept s => (VString s, false) | SReject => (VBad, true) end
        | KRealVec => match (if strict then vector_dyn extract_real data else vector_dyn_lenient extract_real data)
                      with VAccept l => (VReals l, false) | VReject => (VBad, true) end
        | KRealVecN n => match (if strict then vector_fixed extract_real n data
                                else vector_fixed_lenient extract_real n data)
                         with VAccept l => (VReals l, false) | VReject => (VBad, true) end
        | KLong => match (if strict then scalar_value extract_long data else scalar_value_lenient extract_long data)
                   with SAccept z => (VInt z, false) | SReject => (VBad, true) end
        | KSize => if strict && memb 45 data then (VBad, true)     (* unsigned: a minus sign is refused *)
                   else match (if strict then scalar_value extract_size data else scalar_value_lenient extract_size_pinned data)
                        with SAccept z => (VInt z, false) | SReject => (VBad, true) end
        | KIntVec => match (if strict then vector_dyn extract_int data else vector_dyn_lenient extract_int data)
                     with VAccept l => (VInts l, false) | VReject => (VBad, true) end
        | KWordVec => match (if strict then vector_dyn extract_word data else vector_dyn_lenient extract_word data)
                      with VAccept l => (VWords l, false) | VReject => (VBad, true) end
        | KTupleVec n => match (if strict then vector_dyn (extract_tuple n) data else vector_dyn_lenient (extract_tuple n) data)
                         with VAccept l => (VTuples l, false) | VReject => (VBad, true) end
        | KTuple n => match (if strict then scalar_value (extract_tuple n) data else scalar_value_lenient (extract_tuple n) data)
                      with SAccept l => (VTuple l, false) | SReject => (VBad, true) end
        | KBlock => (VBad, true)
        | KReq _ => (VBad, true)
        end
      end
    end in
  {| ps_allowed := ps_allowed st ++ [to_lower key];
     ps_regs := ps_regs st ++ ksv_regs r;
     (* error_key_required: a keyword looked up with parse_required must be present *)
     ps_err := ps_err st || ksv_err r || (match k with KBlock => false | _ => multi end) || bad ||
               (is_required k0 && negb (ksv_found r));
     ps_oof := ps_oof st || ksv_oof r;
     ps_values := ps_values st ++ [v] |}.

Inductive presult :=
| PAccept (vs : list value)
| PReject                        (* an error bit is set: the configuration is refused *)
| POutOfFuel.

(* look up every keyword of the schema in conf (get_keyval), then check_keywords *)
Definition parse_flat (strict : bool) (schema : list (list Z * kind)) (conf : list Z) : presult :=
  let st := fold_left (get_keyval strict conf) schema
              {| ps_allowed := []; ps_regs := []; ps_err := false; ps_oof := false; ps_values := [] |} in
  if ps_oof st then POutOfFuel
  else match check_keywords (ps_allowed st) conf (ps_regs st) with
       | CK_unknown_keyword => PReject
       | CK_ok => if ps_err st then PReject else PAccept (ps_values st)
       end.

(* the whole path of colvarmodule::read_config_string for a one-level configuration *)
Definition parse_config (strict : bool) (schema : list (list Z * kind)) (raw : list Z) : presult :=
  let conf := strip_comments raw in
  if check_braces conf O then parse_flat strict schema conf else PReject.

(* ---------------------------------------------------------------- split_string *)

Fixpoint split_string_loop (fuel : nat) (data delim : list Z) (index : nat) (acc : list (list Z))
  : option (list (list Z)) :=
  match fuel with
  | O => None
  | S f =>
    if (index =? length data)%nat then Some acc
    else match find_sub data delim index with
         | Some ni =>
           let tmp := substr data index (ni - index) in
           split_string_loop f data delim (S ni) (match tmp with [] => acc | _ => acc ++ [tmp] end)
         | None =>
           let tmp := skipn index data in
           Some (match tmp with [] => acc | _ => acc ++ [tmp] end)
         end
  end.

Definition split_string (data delim : list Z) : option (list (list Z)) :=
  split_string_loop (S (length data)) data delim O [].

(* ---------------------------------------------------------------- a nested client: blocks within blocks *)

(* a keyword of a block is either a leaf (typed value) or a sub-block with its own keywords, as
   colvar > component > atom group: the text of a sub-block is handed to a new parser object
   (init(conf) of the sub-object), whose check_keywords then examines that text *)
Inductive nitem :=
| NLeaf (key : list Z) (k : kind)
| NBlock (key : list Z) (sub : list nitem).

Record ires := { ir_allowed : list Z; ir_regs : list kl_reg; ir_err : bool }.

Definition is_nil (d : list Z) : bool := match d with [] => true | _ => false end.

(* what one level does after its items have been looked up: check_keywords on its own text *)
Definition level_ok (rs : list ires) (conf : list Z) : bool :=
  negb (existsb ir_err rs) &&
  match check_keywords (map ir_allowed rs) conf (flat_map ir_regs rs) with CK_ok => true | CK_unknown_keyword => false end.

Fixpoint item_res (strict : bool) (it : nitem) (conf : list Z) {struct it} : ires :=
  match it with
  | NLeaf key k =>
    let st := get_keyval strict conf
                {| ps_allowed := []; ps_regs := []; ps_err := false; ps_oof := false; ps_values := [] |} (key, k) in
    {| ir_allowed := to_lower key; ir_regs := ps_regs st; ir_err := ps_err st || ps_oof st |}
  | NBlock key sub =>
    let r := key_string_values conf key in
    let block_ok := fun d => negb (is_nil d) && level_ok (map (fun i => item_res strict i d) sub) d in
    {| ir_allowed := to_lower key; ir_regs := ksv_regs r;
       ir_err := ksv_err r || ksv_oof r || negb (forallb block_ok (ksv_all r)) |}
  end.

(* a level: look up every item in the text of the level, recursively descend into the blocks found,
   then check_keywords on the text of the level *)
Definition nparse (strict : bool) (items : list nitem) (conf : list Z) : bool :=
  level_ok (map (fun i => item_res strict i conf) items) conf.

Definition nparse_config (strict : bool) (items : list nitem) (raw : list Z) : bool :=
  let conf := strip_comments raw in check_braces conf O && nparse strict items conf.

(* ---------------------------------------------------------------- a parser object over a SEQUENCE of configurations *)

(* the part of a colvarparse object that survives a call: allowed_keywords and data_begin_pos/data_end_pos
   (key_set_modes only matters for parse_required / defaults and is not part of this model) *)
Record mstate := { ms_allowed : list (list Z); ms_regs : list kl_reg }.
Definition mempty : mstate := {| ms_allowed := []; ms_regs := [] |}.

(* look up the items of one level with THIS parser object: its registry grows on top of what it held before *)
Fixpoint mitems (strict : bool) (items : list nitem) (conf : list Z) (st : mstate) : mstate * bool :=
  match items with
  | [] => (st, false)
  | it :: rest =>
    let r := item_res strict it conf in
    let st' := {| ms_allowed := ms_allowed st ++ [ir_allowed r]; ms_regs := ms_regs st ++ ir_regs r |} in
    let '(st2, err) := mitems strict rest conf st' in (st2, ir_err r || err)
  end.

(* colvarparse::check_keywords with the registry the object holds: clear_keyword_registry() only on success *)
Definition p_check (st : mstate) (conf : list Z) : mstate * bool :=
  match check_keywords (ms_allowed st) conf (ms_regs st) with
  | CK_ok => (mempty, true)
  | CK_unknown_keyword => (st, false)
  end.

(* one parser object, several texts, nobody clears it in between: lookups then check_keywords, per text *)
Fixpoint pseq (strict : bool) (items : list nitem) (st : mstate) (confs : list (list Z)) : list bool :=
  match confs with
  | [] => []
  | conf :: rest =>
    let '(st1, err) := mitems strict items conf st in
    let '(st2, ok) := p_check st1 conf in
    (negb err && ok) :: pseq strict items st2 rest
  end.

(* colvarmodule::read_config_string on the module's parser object:
   unmatched braces: error returned at once (nothing was looked up, the object is left as it was);
   an error while the keywords / blocks are parsed: catch_input_errors -> parse->clear();
   check_keywords: success -> clear_keyword_registry(); failure -> catch_input_errors -> parse->clear() *)
Definition mstep (strict : bool) (items : list nitem) (st : mstate) (raw : list Z) : mstate * bool :=
  let conf := strip_comments raw in
  if negb (check_braces conf O) then (st, false)
  else
    let '(st1, err) := mitems strict items conf st in
    if err then (mempty, false)
    else let '(st2, ok) := p_check st1 conf in
         if ok then (st2, true) else (mempty, false).

Fixpoint mrun (strict : bool) (items : list nitem) (st : mstate) (raws : list (list Z)) : mstate * list bool :=
  match raws with
  | [] => (st, [])
  | raw :: rest =>
    let '(st1, ok) := mstep strict items st raw in
    let '(st2, oks) := mrun strict items st1 rest in (st2, ok :: oks)
  end.

(* successive key_lookup calls on ONE parser object, each on its own text: the object's registry grows, the results
   are those of key_lookup on the arguments of each call (there is no other state that a lookup reads) *)
Fixpoint lookup_seq (st : mstate) (calls : list (list Z * list Z * nat)) : mstate * list kl_result :=
  match calls with
  | [] => (st, [])
  | (conf, key, sp) :: rest =>
    let r := key_lookup (fuel_of conf) conf key sp in
    let st' := {| ms_allowed := ms_allowed st ++ [to_lower key];
                  ms_regs := ms_regs st ++ (match r with KL_found _ _ _ reg => [reg] | _ => [] end) |} in
    let '(st2, rs) := lookup_seq st' rest in (st2, r :: rs)
  end.

(* ---------------------------------------------------------------- index files (colvarmodule::read_index_file) *)

(* `while ((is >> atom_number) && (atom_number > 0))`: the numbers of a group and the text after the last good one *)
Fixpoint index_numbers (fuel : nat) (l : list Z) : list Z * list Z :=
  match fuel with
  | O => ([], l)
  | S f =>
    match skip_space l with
    | [] => ([], [])
    | c :: t => match extract_int (c :: t) with
                | ExtOk v rest => if 0 <? v then let '(vs, r) := index_numbers f rest in (v :: vs, r) else ([], l)
                | ExtFail => ([], l)
                end
    end
  end.

Fixpoint assoc_find (name : list Z) (gs : list (list Z * list Z)) : option (list Z) :=
  match gs with
  | [] => None
  | (n, v) :: r => if list_eqb n name then Some v else assoc_find name r
  end.

Fixpoint int_list_eqb (a b : list Z) : bool :=
  match a, b with
  | [], [] => true
  | x :: a', y :: b' => (x =? y) && int_list_eqb a' b'
  | _, _ => false
  end.

Inductive index_result := IndexOk (groups : list (list Z * list Z)) | IndexError | IndexOutOfFuel.

(* one group per iteration: '[' name ']' numbers; then the next word decides: none -> done; begins with '[' -> next
   group; anything else -> error (strict, after the repair) or silent end of the reading (pinned) *)
Fixpoint index_loop (strict : bool) (fuel : nat) (l : list Z) (gs : list (list Z * list Z)) : index_result :=
  match fuel with
  | O => IndexOutOfFuel
  | S f =>
    match expect_char 91 l with
    | None => IndexError
    | Some l1 =>
      match extract_word (skip_space l1) with
      | ExtFail => IndexError
      | ExtOk name l2 =>
        match expect_char 93 l2 with
        | None => IndexError
        | Some l3 =>
          let '(nums, rest) := index_numbers (S (length l3)) l3 in
          match (match assoc_find name gs with
                 | Some old => if int_list_eqb old nums then Some gs else None      (* redefinition with other atoms *)
                 | None => Some (gs ++ [(name, nums)])
                 end) with
          | None => IndexError
          | Some gs' =>
            match skip_space rest with
            | [] => IndexOk gs'
            | c :: t => if c =? 91 then index_loop strict f rest gs'
                        else if strict then IndexError else IndexOk gs'
            end
          end
        end
      end
    end
  end.

Definition parse_index (strict : bool) (text : list Z) : index_result :=
  index_loop strict (S (length text)) text [].

(* ---------------------------------------------------------------- parse modes and key_already_set *)

(* _get_keyval_scalar_<double> called several times for the SAME keyword on one parser object (different texts and
   parse modes): key_set_modes[key] makes the outcome of a call depend on the earlier ones.
   req = parse_required, ovr = parse_override (parse_normal and parse_deprecated contain it; the echo and
   deprecation-warning bits only write to the log). *)
Inductive kv_value := KvInit | KvDefault | KvUser (d : dec).
Record kv_state := { kv_set : bool; kv_val : kv_value }.
Record kv_out := { ko_found : bool; ko_err : bool; ko_val : kv_value }.

Definition kv_call (st : kv_state) (req ovr : bool) (conf key : list Z) : kv_state * kv_out :=
  let r := key_string_values conf key in
  let multi := (1 <? ksv_count r)%nat in
  match ksv_data r with
  | _ :: _ =>
    (* a value text: parsed; mark_key_set_user on success only *)
    match scalar_value extract_real (ksv_data r) with
    | SAccept d => ({| kv_set := true; kv_val := KvUser d |},
                    {| ko_found := true; ko_err := ksv_err r || multi; ko_val := KvUser d |})
    | SReject => (* error; the destination gets the default, the key is not marked *)
                 ({| kv_set := kv_set st; kv_val := KvDefault |},
                  {| ko_found := true; ko_err := true; ko_val := KvDefault |})
    end
  | [] =>
    if ksv_found r then
      (* keyword without a value: error for a number; the destination gets the default, the key is not marked *)
      ({| kv_set := kv_set st; kv_val := KvDefault |}, {| ko_found := true; ko_err := true; ko_val := KvDefault |})
    else if req then
      (* error_key_required: silent if the key was set before on this object *)
      (st, {| ko_found := false; ko_err := ksv_err r || negb (kv_set st); ko_val := kv_val st |})
    else if ovr || negb (kv_set st) then
      ({| kv_set := true; kv_val := KvDefault |}, {| ko_found := false; ko_err := ksv_err r; ko_val := KvDefault |})
    else (st, {| ko_found := false; ko_err := ksv_err r; ko_val := kv_val st |})
  end.

Fixpoint kv_seq (st : kv_state) (key : list Z) (calls : list (bool * bool * list Z)) : list kv_out :=
  match calls with
  | [] => []
  | (req, ovr, conf) :: rest => let '(st', o) := kv_call st req ovr conf key in o :: kv_seq st' key rest
  end.
