(* The nested client: what acceptance means at every level of blocks. *)
From Coq Require Import ZArith List Bool Arith Lia.
From CV Require Import C09.ParseModel C09.ParseProofs C09.NumProofs C09.LookupProofs C09.FlatProofs C09.OrigProofs.
Import ListNotations.
Local Open Scope Z_scope.

Definition level_results (strict : bool) (items : list nitem) (conf : list Z) : list ires :=
  map (fun i => item_res strict i conf) items.
Definition level_keywords (strict : bool) (items : list nitem) (conf : list Z) : list (list Z) :=
  map ir_allowed (level_results strict items conf).
Definition level_registry (strict : bool) (items : list nitem) (conf : list Z) : list kl_reg :=
  flat_map ir_regs (level_results strict items conf).

Definition item_key (it : nitem) : list Z := match it with NLeaf k _ => k | NBlock k _ => k end.

Lemma level_keywords_spec : forall strict items conf,
  level_keywords strict items conf = map (fun it => to_lower (item_key it)) items.
Proof.
  intros strict items conf. unfold level_keywords, level_results. rewrite map_map.
  apply map_ext. intros [k kd|k sub]; reflexivity.
Qed.

(* acceptance of a level, unfolded once: (1) the level's own text, with the values and sub-blocks erased, has only
   blank lines and lines that begin with a keyword of THIS level; (2) every sub-block found is non-empty and is
   itself accepted by the keywords of ITS level.  Since it holds for every list of items and every text, it applies
   again to each sub-block: unknown keywords are refused at every depth. *)
Lemma nparse_accept_unfold : forall strict items conf, nparse strict items conf = true ->
  (forall l, In l (split_lines (strip_values conf (level_registry strict items conf))) ->
             blank_line l \/ starts_with_keyword (level_keywords strict items conf) l) /\
  (forall key sub d, In (NBlock key sub) items -> In d (ksv_all (key_string_values conf key)) ->
             d <> [] /\ nparse strict sub d = true).
Proof.
  intros strict items conf H. unfold nparse, level_ok in H. apply andb_true_iff in H. destruct H as [He Hc].
  split.
  - destruct (check_keywords _ _ _) eqn:C; [|discriminate]. intros l Hl. apply line_clean_starts. exact (proj1 (check_keywords_ok_spec _ _ _) C l Hl).
  - intros key sub d Hi Hd.
    apply negb_true_iff in He.
    assert (Hit : ir_err (item_res strict (NBlock key sub) conf) = false).
    { destruct (ir_err (item_res strict (NBlock key sub) conf)) eqn:E; [|reflexivity].
      assert (existsb ir_err (map (fun i => item_res strict i conf) items) = true); [|congruence].
      apply existsb_exists. exists (item_res strict (NBlock key sub) conf). split; [|exact E].
      apply in_map_iff. exists (NBlock key sub). split; [reflexivity|exact Hi]. }
    cbn [item_res ir_err] in Hit. apply orb_false_iff in Hit. destruct Hit as [_ Hf].
    apply negb_false_iff in Hf. rewrite forallb_forall in Hf. specialize (Hf d Hd).
    apply andb_true_iff in Hf. destruct Hf as [Hn Hl]. split.
    + intros E. subst d. discriminate.
    + exact Hl.
Qed.

(* ... and nothing else: every remaining line of an accepted level is blank, or begins with a keyword of the level
   and holds only braces and keywords of the level after it *)
Lemma nparse_no_unknown_text : forall strict items conf, nparse strict items conf = true ->
  forall l, In l (split_lines (strip_values conf (level_registry strict items conf))) ->
            line_clean (level_keywords strict items conf) l.
Proof.
  intros strict items conf H. unfold nparse, level_ok in H. apply andb_true_iff in H. destruct H as [_ Hc].
  destruct (check_keywords _ _ _) eqn:C; [|discriminate]. exact (proj1 (check_keywords_ok_spec _ _ _) C).
Qed.

(* the same on the original text of the level *)
Lemma nparse_unknown_keyword_original : forall strict items A L B,
  nparse strict items (A ++ L ++ B) = true ->
  line_untouched (level_registry strict items (A ++ L ++ B)) A L B ->
  blank_line L \/ starts_with_keyword (map (fun it => to_lower (item_key it)) items) L.
Proof.
  intros strict items A L B H Hu. destruct (nparse_accept_unfold _ _ _ H) as [H1 _].
  rewrite <- (level_keywords_spec strict items (A ++ L ++ B)).
  destruct L as [|c L']; [left; left; reflexivity|].
  apply H1. apply line_survives; [discriminate|exact Hu].
Qed.

(* ------------------------------------------------------------------ a sub-block's text is a piece of its parent's text *)

Lemma extract_value_reg_cases : forall fuel conf key pos p d sp r,
  extract_value fuel conf key pos = KL_found p d sp r ->
  (d = [] /\ r = RegNone) \/ (exists b e, r = Reg b e /\ substr conf b (e - b) = d).
Proof.
  intros fuel conf key pos p d sp r H.
  destruct r as [|b e].
  - left. split; [|reflexivity]. unfold extract_value in H.
    destruct (find_if (fun c => negb (is_ws c)) _ _) as [db|]; [|inversion H; reflexivity].
    destruct (find_if (fun c => c =? LBRACE) _ db) as [br|].
    + destruct (brace_loop _ _ _ _ _ _) as [line' le'| |]; [|discriminate|discriminate].
      injection H as _ Ed _ Er. rewrite Ed in Er. destruct d; [reflexivity|discriminate].
    + injection H as _ Ed _ Er. rewrite Ed in Er. destruct d; [reflexivity|discriminate].
  - right. exists b, e. split; [reflexivity|]. apply (extract_value_reg_exact _ _ _ _ _ _ _ _ _ H).
Qed.

Lemma key_lookup_reg_cases : forall fuel conf key sp p d sp' r,
  key_lookup fuel conf key sp = KL_found p d sp' r ->
  (d = [] /\ r = RegNone) \/ (exists b e, r = Reg b e /\ substr conf b (e - b) = d).
Proof.
  intros fuel conf key sp p d sp' r H. unfold key_lookup in H.
  destruct (search _ _ _ _ _) as [|pos|]; [discriminate| |discriminate].
  apply (extract_value_reg_cases _ _ _ _ _ _ _ _ H).
Qed.

Definition blocks_are_pieces (conf : list Z) (a : ksv) : Prop :=
  forall d, In d (ksv_all a) -> d = [] \/ exists b e, In (Reg b e) (ksv_regs a) /\ substr conf b (e - b) = d.

Lemma ksv_loop_pieces : forall conf key fuel sp acc,
  blocks_are_pieces conf acc -> blocks_are_pieces conf (ksv_loop fuel conf key sp acc).
Proof.
  intros conf key. induction fuel as [|f IH]; intros sp acc Hacc.
  - cbn [ksv_loop]. exact Hacc.
  - cbn [ksv_loop]. destruct (key_lookup (fuel_of conf) conf key sp) as [|s|p d sp' r|] eqn:K.
    + exact Hacc.
    + exact Hacc.
    + apply IH. intros d0 Hd. cbn [ksv_all ksv_regs] in *. apply in_app_or in Hd. destruct Hd as [Hd|[Hd|[]]].
      * destruct (Hacc d0 Hd) as [E|[b [e [Hi Es]]]]; [left; exact E|].
        right. exists b, e. split; [apply in_or_app; left; exact Hi|exact Es].
      * subst d0. destruct (key_lookup_reg_cases _ _ _ _ _ _ _ _ K) as [[E _]|[b [e [Er Es]]]]; [left; exact E|].
        right. exists b, e. split; [apply in_or_app; right; left; exact Er|exact Es].
    + exact Hacc.
Qed.

(* every block handed to the next level is the text of conf at one of the ranges that this level erases *)
Lemma blocks_are_pieces_of_parent : forall conf key,
  blocks_are_pieces conf (key_string_values conf key).
Proof.
  intros conf key. unfold key_string_values. apply ksv_loop_pieces. intros d [].
Qed.

(* ------------------------------------------------------------------ required keywords; tuples *)

Lemma get_keyval_err : forall strict conf st key k0,
  exists bad, ps_err (get_keyval strict conf st (key, k0)) =
    ps_err st || ksv_err (key_string_values conf key) ||
    (match base_kind k0 with KBlock => false | _ => (1 <? ksv_count (key_string_values conf key))%nat end) || bad ||
    (is_required k0 && negb (ksv_found (key_string_values conf key))).
Proof.
  intros strict conf st key k0. unfold get_keyval.
  match goal with |- context [let '(v, bad) := ?X in _] => destruct X as [v bad] end.
  exists bad. reflexivity.
Qed.

Lemma get_keyval_err_mono : forall strict conf st kk, ps_err st = true -> ps_err (get_keyval strict conf st kk) = true.
Proof.
  intros strict conf st [key k0] H. destruct (get_keyval_err strict conf st key k0) as [bad E]. rewrite E, H. reflexivity.
Qed.

Lemma fold_err_mono : forall strict conf schema st, ps_err st = true ->
  ps_err (fold_left (get_keyval strict conf) schema st) = true.
Proof.
  intros strict conf. induction schema as [|kk rest IH]; intros st H; [exact H|].
  cbn [fold_left]. apply IH. apply get_keyval_err_mono. exact H.
Qed.

(* a keyword that the client looks up with parse_required and that is absent makes the configuration refused *)
Lemma required_keyword_present : forall strict schema conf vs key k,
  In (key, KReq k) schema -> parse_flat strict schema conf = PAccept vs ->
  ksv_found (key_string_values conf key) = true.
Proof.
  intros strict schema conf vs key k Hi H. unfold parse_flat in H.
  set (st0 := {| ps_allowed := []; ps_regs := []; ps_err := false; ps_oof := false; ps_values := [] |}) in *.
  destruct (ps_oof _); [discriminate|]. destruct (check_keywords _ _ _); [|discriminate].
  destruct (ps_err (fold_left (get_keyval strict conf) schema st0)) eqn:E; [discriminate|].
  destruct (ksv_found (key_string_values conf key)) eqn:F; [reflexivity|]. exfalso.
  assert (G : forall sch st, In (key, KReq k) sch -> ps_err (fold_left (get_keyval strict conf) sch st) = true).
  { induction sch as [|kk rest IH]; intros st HI; [destruct HI|].
    cbn [fold_left]. destruct HI as [HI|HI].
    - subst kk. apply fold_err_mono. destruct (get_keyval_err strict conf st key (KReq k)) as [bad Eb].
      rewrite Eb, F. cbn [is_required negb andb]. rewrite !orb_true_r. reflexivity.
    - apply IH. exact HI. }
  rewrite (G schema st0 Hi) in E. discriminate.
Qed.

Lemma expect_char_length : forall c l r, expect_char c l = Some r -> (length r < length l)%nat.
Proof.
  intros c l r H. unfold expect_char in H. pose proof (NumProofs.skip_space_length l) as HL.
  destruct (skip_space l) as [|x t]; [discriminate|]. destruct (x =? c); [|discriminate].
  inversion H. subst. cbn [length] in HL. lia.
Qed.

Lemma extract_tuple_progress : forall n l v r, extract_tuple n l = ExtOk v r -> (length r < length l)%nat.
Proof.
  intros n l v r H. unfold extract_tuple in H.
  destruct (expect_char 40 l) as [l1|] eqn:E1; [|discriminate]. apply expect_char_length in E1.
  destruct (tuple_items n l1) as [[vs r1]|] eqn:T; [|discriminate].
  destruct (expect_char 41 r1) as [r2|] eqn:E2; [|discriminate]. apply expect_char_length in E2.
  inversion H. subst.
  assert (Ht : forall n l vs r, tuple_items n l = Some (vs, r) -> (length r <= length l)%nat).
  { induction n0 as [|m IH]; intros l0 vs0 r0 H0.
    - cbn in H0. inversion H0. lia.
    - cbn [tuple_items] in H0. pose proof (NumProofs.skip_space_length l0) as HL.
      destruct (skip_space l0) as [|c t]; [discriminate|].
      destruct (extract_real (c :: t)) as [v0 r3|] eqn:Er; [|discriminate].
      apply NumProofs.extract_real_progress in Er.
      destruct m as [|m'].
      + inversion H0. subst. lia.
      + destruct (expect_char 44 r3) as [r4|] eqn:Ec; [|discriminate]. apply expect_char_length in Ec.
        destruct (tuple_items (S m') r4) as [[vs1 r5]|] eqn:T2; [|discriminate].
        apply IH in T2. inversion H0. subst. lia. }
  apply Ht in T. lia.
Qed.

(* a 3-vector / quaternion / vector value is accepted iff, after leading white space, the text is
   "( x , ... )" read by extract_tuple and nothing but white space follows *)
Lemma tuple_value_strict : forall n data v,
  scalar_value (extract_tuple n) data = SAccept v <->
  exists rest, skip_space data <> [] /\ extract_tuple n (skip_space data) = ExtOk v rest /\ NumProofs.all_space rest.
Proof. intros n. apply (NumProofs.scalar_value_iff (extract_tuple n) (extract_tuple_progress n)). Qed.

(* lists of 3-vectors / quaternions: accepted iff the whole text is a sequence of delimited tuples *)
Lemma tuple_vector_strict : forall n data vs,
  vector_dyn (extract_tuple n) data = VAccept vs <-> NumProofs.tokens_of (extract_tuple n) data vs.
Proof.
  intros n data vs.
  assert (T : forall vs0, extract_all (extract_tuple n) true (S (length data)) data = (vs0, []) <->
                          NumProofs.tokens_of (extract_tuple n) data vs0).
  { intros vs0. apply (NumProofs.extract_all_tokens (extract_tuple n) (extract_tuple_progress n)). lia. }
  unfold vector_dyn. split.
  - intros H. destruct (extract_all (extract_tuple n) true (S (length data)) data) as [vs' r] eqn:E.
    destruct r; [|discriminate]. inversion H. subst vs'. apply T. reflexivity.
  - intros H. apply T in H. rewrite H. reflexivity.
Qed.
