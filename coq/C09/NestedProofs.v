(* The nested client: what acceptance means at every level of blocks. *)
From Coq Require Import ZArith List Bool Arith Lia.
From CV Require Import C09.ParseModel C09.ParseProofs C09.LookupProofs C09.FlatProofs C09.OrigProofs.
Import ListNotations.
Local Open Scope Z_scope.

Definition level_results (strict : bool) (items : list nitem) (conf : list Z) : list ires :=
  map (fun i => item_res strict i conf) items.
Definition level_keywords (strict : bool) (items : list nitem) (conf : list Z) : list (list Z) :=
  map ir_allowed (level_results strict items conf).
Definition level_registry (strict : bool) (items : list nitem) (conf : list Z) : list kl_reg :=
  flat_map ir_regs (level_results strict items conf).

Definition item_key (it : nitem) : list Z := match it with NLeaf k _ => k | NBlock k _ => k end.

Lemma level_keywords_spec : forall strict items conf,
  level_keywords strict items conf = map (fun it => to_lower (item_key it)) items.
Proof.
  intros strict items conf. unfold level_keywords, level_results. rewrite map_map.
  apply map_ext. intros [k kd|k sub]; reflexivity.
Qed.

(* acceptance of a level, unfolded once: (1) the level's own text, with the values and sub-blocks erased, has only
   blank lines and lines that begin with a keyword of THIS level; (2) every sub-block found is non-empty and is
   itself accepted by the keywords of ITS level.  Since it holds for every list of items and every text, it applies
   again to each sub-block: unknown keywords are refused at every depth. *)
Lemma nparse_accept_unfold : forall strict items conf, nparse strict items conf = true ->
  (forall l, In l (split_lines (strip_values conf (level_registry strict items conf))) ->
             blank_line l \/ starts_with_keyword (level_keywords strict items conf) l) /\
  (forall key sub d, In (NBlock key sub) items -> In d (ksv_all (key_string_values conf key)) ->
             d <> [] /\ nparse strict sub d = true).
Proof.
  intros strict items conf H. unfold nparse, level_ok in H. apply andb_true_iff in H. destruct H as [He Hc].
  split.
  - destruct (check_keywords _ _ _) eqn:C; [|discriminate]. exact (proj1 (check_keywords_ok_spec _ _ _) C).
  - intros key sub d Hi Hd.
    apply negb_true_iff in He.
    assert (Hit : ir_err (item_res strict (NBlock key sub) conf) = false).
    { destruct (ir_err (item_res strict (NBlock key sub) conf)) eqn:E; [|reflexivity].
      assert (existsb ir_err (map (fun i => item_res strict i conf) items) = true); [|congruence].
      apply existsb_exists. exists (item_res strict (NBlock key sub) conf). split; [|exact E].
      apply in_map_iff. exists (NBlock key sub). split; [reflexivity|exact Hi]. }
    cbn [item_res ir_err] in Hit. apply orb_false_iff in Hit. destruct Hit as [_ Hf].
    apply negb_false_iff in Hf. rewrite forallb_forall in Hf. specialize (Hf d Hd).
    apply andb_true_iff in Hf. destruct Hf as [Hn Hl]. split.
    + intros E. subst d. discriminate.
    + exact Hl.
Qed.

(* the same on the original text of the level *)
Lemma nparse_unknown_keyword_original : forall strict items A L B,
  nparse strict items (A ++ L ++ B) = true ->
  line_untouched (level_registry strict items (A ++ L ++ B)) A L B ->
  blank_line L \/ starts_with_keyword (map (fun it => to_lower (item_key it)) items) L.
Proof.
  intros strict items A L B H Hu. destruct (nparse_accept_unfold _ _ _ H) as [H1 _].
  rewrite <- (level_keywords_spec strict items (A ++ L ++ B)).
  destruct L as [|c L']; [left; left; reflexivity|].
  apply H1. apply line_survives; [discriminate|exact Hu].
Qed.

(* ------------------------------------------------------------------ a sub-block's text is a piece of its parent's text *)

Lemma extract_value_reg_cases : forall fuel conf key pos p d sp r,
  extract_value fuel conf key pos = KL_found p d sp r ->
  (d = [] /\ r = RegNone) \/ (exists b e, r = Reg b e /\ substr conf b (e - b) = d).
Proof.
  intros fuel conf key pos p d sp r H.
  destruct r as [|b e].
  - left. split; [|reflexivity]. unfold extract_value in H.
    destruct (find_if (fun c => negb (is_ws c)) _ _) as [db|]; [|inversion H; reflexivity].
    destruct (find_if (fun c => c =? LBRACE) _ db) as [br|].
    + destruct (brace_loop _ _ _ _ _ _) as [line' le'| |]; [|discriminate|discriminate].
      injection H as _ Ed _ Er. rewrite Ed in Er. destruct d; [reflexivity|discriminate].
    + injection H as _ Ed _ Er. rewrite Ed in Er. destruct d; [reflexivity|discriminate].
  - right. exists b, e. split; [reflexivity|]. apply (extract_value_reg_exact _ _ _ _ _ _ _ _ _ H).
Qed.

Lemma key_lookup_reg_cases : forall fuel conf key sp p d sp' r,
  key_lookup fuel conf key sp = KL_found p d sp' r ->
  (d = [] /\ r = RegNone) \/ (exists b e, r = Reg b e /\ substr conf b (e - b) = d).
Proof.
  intros fuel conf key sp p d sp' r H. unfold key_lookup in H.
  destruct (search _ _ _ _ _) as [|pos|]; [discriminate| |discriminate].
  apply (extract_value_reg_cases _ _ _ _ _ _ _ _ H).
Qed.

Definition blocks_are_pieces (conf : list Z) (a : ksv) : Prop :=
  forall d, In d (ksv_all a) -> d = [] \/ exists b e, In (Reg b e) (ksv_regs a) /\ substr conf b (e - b) = d.

Lemma ksv_loop_pieces : forall conf key fuel sp acc,
  blocks_are_pieces conf acc -> blocks_are_pieces conf (ksv_loop fuel conf key sp acc).
Proof.
  intros conf key. induction fuel as [|f IH]; intros sp acc Hacc.
  - cbn [ksv_loop]. exact Hacc.
  - cbn [ksv_loop]. destruct (key_lookup (fuel_of conf) conf key sp) as [|s|p d sp' r|] eqn:K.
    + exact Hacc.
    + exact Hacc.
    + apply IH. intros d0 Hd. cbn [ksv_all ksv_regs] in *. apply in_app_or in Hd. destruct Hd as [Hd|[Hd|[]]].
      * destruct (Hacc d0 Hd) as [E|[b [e [Hi Es]]]]; [left; exact E|].
        right. exists b, e. split; [apply in_or_app; left; exact Hi|exact Es].
      * subst d0. destruct (key_lookup_reg_cases _ _ _ _ _ _ _ _ K) as [[E _]|[b [e [Er Es]]]]; [left; exact E|].
        right. exists b, e. split; [apply in_or_app; right; left; exact Er|exact Es].
    + exact Hacc.
Qed.

(* every block handed to the next level is the text of conf at one of the ranges that this level erases *)
Lemma blocks_are_pieces_of_parent : forall conf key,
  blocks_are_pieces conf (key_string_values conf key).
Proof.
  intros conf key. unfold key_string_values. apply ksv_loop_pieces. intros d [].
Qed.
