From Coq Require Import Extraction ExtrOcamlBasic.
From CV Require Import C09.ParseModel.
Extraction Language OCaml.
Extraction "model.ml" to_lower check_braces strip_comments key_lookup fuel_of key_string_values
  scalar_value scalar_value_lenient extract_real extract_int extract_word bool_value
  strip_values check_keywords parse_flat parse_config split_string first_token split_lines nparse nparse_config pseq mrun mempty lookup_seq parse_index kv_seq.
