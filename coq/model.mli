
val negb : bool -> bool

type nat =
| O
| S of nat

val fst : ('a1 * 'a2) -> 'a1

val snd : ('a1 * 'a2) -> 'a2

type comparison =
| Eq
| Lt
| Gt

val compOpp : comparison -> comparison

val add : nat -> nat -> nat

type positive =
| XI of positive
| XO of positive
| XH

type n =
| N0
| Npos of positive

type z =
| Z0
| Zpos of positive
| Zneg of positive

module Pos :
 sig
  type mask =
  | IsNul
  | IsPos of positive
  | IsNeg
 end

module Coq_Pos :
 sig
  val succ : positive -> positive

  val add : positive -> positive -> positive

  val add_carry : positive -> positive -> positive

  val pred_double : positive -> positive

  type mask = Pos.mask =
  | IsNul
  | IsPos of positive
  | IsNeg

  val succ_double_mask : mask -> mask

  val double_mask : mask -> mask

  val double_pred_mask : positive -> mask

  val sub_mask : positive -> positive -> mask

  val sub_mask_carry : positive -> positive -> mask

  val mul : positive -> positive -> positive

  val compare_cont : comparison -> positive -> positive -> comparison

  val compare : positive -> positive -> comparison

  val iter_op : ('a1 -> 'a1 -> 'a1) -> positive -> 'a1 -> 'a1

  val to_nat : positive -> nat
 end

module N :
 sig
  val succ_double : n -> n

  val double : n -> n

  val sub : n -> n -> n

  val compare : n -> n -> comparison

  val leb : n -> n -> bool

  val pos_div_eucl : positive -> n -> n * n
 end

module Z :
 sig
  val double : z -> z

  val succ_double : z -> z

  val pred_double : z -> z

  val pos_sub : positive -> positive -> z

  val add : z -> z -> z

  val opp : z -> z

  val mul : z -> z -> z

  val compare : z -> z -> comparison

  val leb : z -> z -> bool

  val ltb : z -> z -> bool

  val geb : z -> z -> bool

  val to_nat : z -> nat

  val of_N : n -> z

  val quotrem : z -> z -> z * z

  val rem : z -> z -> z
 end

val fold_left : ('a1 -> 'a2 -> 'a1) -> 'a2 list -> 'a1 -> 'a1

val repeat : 'a1 -> nat -> 'a1 list

type 't numOps = { n0 : 't; n1 : 't; nadd : ('t -> 't -> 't);
                   nsub : ('t -> 't -> 't); nmul : ('t -> 't -> 't);
                   ndiv : ('t -> 't -> 't); nneg : ('t -> 't);
                   nsqrt : ('t -> 't); nexp : ('t -> 't); nlog : ('t -> 't);
                   ncos : ('t -> 't); nsin : ('t -> 't); nacos : ('t -> 't);
                   natan2 : ('t -> 't -> 't); npow : ('t -> 't -> 't);
                   nofZ : (z -> 't); nfloor : ('t -> z);
                   nltb : ('t -> 't -> bool); nleb : ('t -> 't -> bool);
                   neqb : ('t -> 't -> bool) }

val nhalf : 'a1 numOps -> 'a1

val wrap_shift : 'a1 numOps -> 'a1 -> 'a1 -> 'a1 -> z

val wrap : 'a1 numOps -> bool -> 'a1 -> 'a1 -> 'a1 -> 'a1

val value_to_bin : 'a1 numOps -> 'a1 -> 'a1 -> 'a1 -> z

val bin_to_value : 'a1 numOps -> 'a1 -> 'a1 -> z -> 'a1

val bins : 'a1 numOps -> 'a1 list -> 'a1 list -> 'a1 list -> z list

val index_ok : z list -> z list -> bool

val strides : z -> z list -> z list * z

val nxc : z -> z list -> z list

val ntot : z -> z list -> z

val address_c : z list -> z list -> z

val address : z -> z list -> z list -> z

val incr_aux : z list -> z list -> z list * bool

val incr : z list -> z list -> z list

val wrap_index : bool list -> z list -> z list -> z list

val nbins_round : 'a1 numOps -> 'a1 -> 'a1 -> 'a1 -> z

val upd : 'a1 list -> nat -> ('a1 -> 'a1) -> 'a1 list

type 't hist_cfg = { h_lower : 't list; h_width : 't list; h_nx : z list;
                     h_step_zero_data : bool }

type 't hist_in = { hi_rel : z; hi_cont : bool; hi_vals : ('t list * 't) list }

val can_accumulate : 'a1 hist_cfg -> 'a1 hist_in -> bool

val acc_sample :
  'a1 numOps -> 'a1 hist_cfg -> 'a1 list -> ('a1 list * 'a1) -> 'a1 list

val hist_step :
  'a1 numOps -> bool -> 'a1 hist_cfg -> 'a1 list -> 'a1 hist_in -> 'a1 list

val hist_init : 'a1 numOps -> 'a1 hist_cfg -> 'a1 list

val hist_run :
  'a1 numOps -> bool -> 'a1 hist_cfg -> 'a1 hist_in list -> 'a1 list

type 't grid_geom = { g_lower : 't list; g_width : 't list; g_nx : z list;
                      g_per : bool list }

val remap_target : 'a1 numOps -> 'a1 grid_geom -> 'a1 list -> z option

val remap_record :
  'a1 numOps -> 'a1 grid_geom -> 'a1 list -> ('a1 list * 'a1) -> 'a1 list

val remap : 'a1 numOps -> 'a1 grid_geom -> ('a1 list * 'a1) list -> 'a1 list
