From Coq Require Import ZArith List Bool Reals Lra Lia Psatz QArith Qround.
From Flocq Require Import Core.Raux.
From CV Require Import Base.Num Base.RNum C06.RestraintModel.
Import ListNotations.
Local Open Scope Z_scope.

(* ------------------------------------------------------------------ generic facts about the run *)
Ltac split_ifs :=
  repeat match goal with
         | |- context [if ?b then _ else _] => destruct b
         | |- context [match ?l with [] => _ | _ :: _ => _ end] => destruct l
         end.

Section Generic.
  Context {T : Type} (O : NumOps T).
  Notation rcfg := (@rcfg T). Notation rstate := (@rstate T). Notation mstate := (@mstate T). Notation event := (@event T).

  Lemma run_snoc (c : rcfg) evs e : run O c (evs ++ [e]) = mstep O c (run O c evs) e.
  Proof. unfold run. rewrite fold_left_app. reflexivity. Qed.

  Lemma run_inv (P : mstate -> Prop) (c : rcfg) :
    P (init_m O c) -> (forall m e, P m -> P (mstep O c m e)) -> forall evs, P (run O c evs).
  Proof.
    intros H0 Hs evs. induction evs as [|e evs IH] using rev_ind.
    - exact H0.
    - rewrite run_snoc. apply Hs, IH.
  Qed.

  Lemma mstep_not_fresh (c : rcfg) m e : m_fresh (mstep O c m e) = false.
  Proof. unfold mstep. destruct (rstep O c _ _ _ _). reflexivity. Qed.

  Lemma run_not_fresh (c : rcfg) evs : evs <> [] -> m_fresh (run O c evs) = false.
  Proof.
    intros H. destruct (exists_last H) as [l [e ->]]. rewrite run_snoc. apply mstep_not_fresh.
  Qed.

  (* which parts of the state each sub-update touches *)
  Lemma k_update_centers c s t xs : s_centers (fst (k_update O c s t xs)) = s_centers s.
  Proof. unfold k_update. split_ifs; reflexivity. Qed.
  Lemma k_update_first c s t xs : s_first (fst (k_update O c s t xs)) = s_first s.
  Proof. unfold k_update. split_ifs; reflexivity. Qed.
  Lemma k_update_W c s t xs : s_W (fst (k_update O c s t xs)) = s_W s.
  Proof. unfold k_update. split_ifs; reflexivity. Qed.
  Lemma k_update_incr c s t xs : s_incr (fst (k_update O c s t xs)) = s_incr s.
  Proof. unfold k_update. split_ifs; reflexivity. Qed.
  Lemma k_update_off c s t xs : c_chg_k c = false -> k_update O c s t xs = (s, None).
  Proof. unfold k_update. intros ->. reflexivity. Qed.

  Lemma centers_update_k c s t rel : s_k (centers_update O c s t rel) = s_k s.
  Proof. unfold centers_update. split_ifs; reflexivity. Qed.
  Lemma centers_update_first c s t rel : s_first (centers_update O c s t rel) = s_first s.
  Proof. unfold centers_update. split_ifs; reflexivity. Qed.
  Lemma centers_update_W c s t rel : s_W (centers_update O c s t rel) = s_W s.
  Proof. unfold centers_update. split_ifs; reflexivity. Qed.
  Lemma centers_update_off c s t rel : c_chg_centers c = false -> centers_update O c s t rel = s.
  Proof. unfold centers_update. intros ->. reflexivity. Qed.

  Lemma work_centers_fields c s t rel f :
    s_centers (work_centers O c s t rel f) = s_centers s /\ s_k (work_centers O c s t rel f) = s_k s /\
    s_first (work_centers O c s t rel f) = s_first s /\ s_stage (work_centers O c s t rel f) = s_stage s.
  Proof. unfold work_centers. split_ifs; repeat split; reflexivity. Qed.
  Lemma work_k_fields c s rel xs :
    s_centers (work_k O c s rel xs) = s_centers s /\ s_k (work_k O c s rel xs) = s_k s /\
    s_first (work_k O c s rel xs) = s_first s /\ s_stage (work_k O c s rel xs) = s_stage s.
  Proof. unfold work_k. split_ifs; repeat split; reflexivity. Qed.

  (* one restraint update, seen through its parameters *)
  Lemma rstep_centers c s t rel xs :
    s_centers (fst (rstep O c s t rel xs)) = s_centers (centers_update O c s t rel).
  Proof.
    unfold rstep. pose proof (k_update_centers c (centers_update O c s t rel) t xs) as Hk.
    destruct (k_update O c (centers_update O c s t rel) t xs) as [s2 line]; cbn [fst] in *.
    destruct (work_k_fields c (work_centers O c s2 t rel (map frc3 (terms O c s2 xs))) rel xs) as [H1 _].
    destruct (work_centers_fields c s2 t rel (map frc3 (terms O c s2 xs))) as [H2 _].
    cbn [fst]. rewrite H1, H2. exact Hk.
  Qed.

  Lemma rstep_first c s t rel xs : s_first (fst (rstep O c s t rel xs)) = s_first s.
  Proof.
    unfold rstep. pose proof (k_update_first c (centers_update O c s t rel) t xs) as Hk.
    destruct (k_update O c (centers_update O c s t rel) t xs) as [s2 line]; cbn [fst] in *.
    destruct (work_k_fields c (work_centers O c s2 t rel (map frc3 (terms O c s2 xs))) rel xs) as [_ [_ [H1 _]]].
    destruct (work_centers_fields c s2 t rel (map frc3 (terms O c s2 xs))) as [_ [_ [H2 _]]].
    cbn [fst]. rewrite H1, H2, Hk. apply centers_update_first.
  Qed.

  Lemma rstep_k c s t rel xs :
    s_k (fst (rstep O c s t rel xs)) = s_k (fst (k_update O c (centers_update O c s t rel) t xs)).
  Proof.
    unfold rstep.
    destruct (k_update O c (centers_update O c s t rel) t xs) as [s2 line]; cbn [fst] in *.
    destruct (work_k_fields c (work_centers O c s2 t rel (map frc3 (terms O c s2 xs))) rel xs) as [_ [H1 _]].
    destruct (work_centers_fields c s2 t rel (map frc3 (terms O c s2 xs))) as [_ [H2 _]].
    cbn [fst]. rewrite H1, H2. reflexivity.
  Qed.

  (* the step number the engine is at after an event *)
  Definition ev_it (m : mstate) (e : event) : Z :=
    match e with EStep _ => if m_fresh m then m_it m else m_it m + 1 | _ => m_it m end.
  Definition ev_itr (m : mstate) (e : event) : Z :=
    match e with ERestart _ => ev_it m e | _ => m_itr m end.
  Definition ev_s0 (c : rcfg) (m : mstate) (e : event) : rstate :=
    match e with ERestart _ => restore O c (m_st m) | _ => m_st m end.

  Lemma mstep_unfold c m e :
    m_it (mstep O c m e) = ev_it m e /\ m_itr (mstep O c m e) = ev_itr m e /\
    m_st (mstep O c m e) = fst (rstep O c (ev_s0 c m e) (ev_it m e) (ev_it m e - ev_itr m e) (ev_xs e)).
  Proof.
    unfold mstep, ev_it, ev_itr, ev_s0.
    destruct e; destruct (rstep O c _ _ _ _) as [s1 o]; cbn [m_it m_itr m_st fst]; auto.
  Qed.

  (* ---------------------------------------------------------------- continuous moving centres *)
  Definition sched_lambda (c : rcfg) (t : Z) : T :=
    ratio O (Z.min (t - c_it0 c) (c_nsteps c)) (c_nsteps c).
  Definition closed_centers (c : rcfg) (t : Z) : list T :=
    map2 (wrapv O) (c_vars c) (new_centers O c (sched_lambda c t)).

  Definition inv_cc (c : rcfg) (m : mstate) : Prop :=
    s_first (m_st m) = c_it0 c /\ c_it0 c <= m_it m /\
    (m_fresh m = true -> m_it m = c_it0 c) /\
    (m_fresh m = false -> s_centers (m_st m) = closed_centers c (m_it m)).

  Lemma restore_first c s : c_chg_centers c || c_chg_k c = true -> s_first (restore O c s) = s_first s.
  Proof. unfold restore. intros ->. reflexivity. Qed.

  Lemma ev_s0_first c m e : c_chg_centers c || c_chg_k c = true -> s_first (ev_s0 c m e) = s_first (m_st m).
  Proof. intros H. destruct e; cbn [ev_s0]; auto using restore_first. Qed.

  Lemma inv_cc_step c m e :
    c_chg_centers c = true -> c_nstages c = 0 -> 0 <= c_nsteps c ->
    inv_cc c m -> inv_cc c (mstep O c m e).
  Proof.
    intros Hc Hn HN [Hf [Hle [Hfr Hcen]]].
    destruct (mstep_unfold c m e) as [Hit [_ Hst]].
    assert (Hmov : c_chg_centers c || c_chg_k c = true) by (rewrite Hc; reflexivity).
    assert (Hit' : ev_it m e = m_it m \/ (ev_it m e = m_it m + 1 /\ m_fresh m = false)).
    { unfold ev_it. destruct e; auto. destruct (m_fresh m); auto. }
    unfold inv_cc. rewrite Hit, Hst, rstep_first, ev_s0_first, mstep_not_fresh by assumption.
    split; [exact Hf|]. split; [lia|]. split; [discriminate|]. intros _.
    rewrite rstep_centers.
    assert (Hs0c : s_centers (ev_s0 c m e) = s_centers (m_st m)).
    { destruct e; cbn [ev_s0]; try reflexivity. unfold restore. rewrite Hc. reflexivity. }
    assert (Hs0f : s_first (ev_s0 c m e) = c_it0 c) by (rewrite ev_s0_first; assumption).
    unfold centers_update. rewrite Hc, Hn. cbn [Z.eqb negb].
    set (t := ev_it m e) in *. rewrite Hs0f.
    destruct (t - c_it0 c <=? c_nsteps c) eqn:Ele.
    - apply Z.leb_le in Ele.
      assert (Hcc : s_centers (update_centers O c (ev_s0 c m e) (ratio O (t - c_it0 c) (c_nsteps c))) = closed_centers c t).
      { unfold update_centers, closed_centers, sched_lambda. cbn [s_centers]. rewrite Z.min_l by lia. reflexivity. }
      destruct (_ =? 0); [cbn [set_incr s_centers]|]; exact Hcc.
    - apply Z.leb_gt in Ele.
      assert (Hnf : m_fresh m = false).
      { destruct (m_fresh m) eqn:F; auto. specialize (Hfr eq_refl). destruct Hit' as [H|[_ H]]; [lia|discriminate]. }
      assert (Hcc : s_centers (ev_s0 c m e) = closed_centers c t).
      { rewrite Hs0c, (Hcen Hnf). unfold closed_centers, sched_lambda.
        assert (H1 : c_nsteps c <= m_it m - c_it0 c). { destruct Hit' as [H|[H _]]; lia. }
        assert (H2 : c_nsteps c <= t - c_it0 c) by lia.
        rewrite (Z.min_r _ _ H1), (Z.min_r _ _ H2). reflexivity. }
      destruct (_ =? 0); cbn [set_incr s_centers]; exact Hcc.
  Qed.

  Lemma center_schedule_continuous (c : rcfg) (evs : list event) :
    c_chg_centers c = true -> c_nstages c = 0 -> 0 <= c_nsteps c -> evs <> [] ->
    s_centers (m_st (run O c evs)) = closed_centers c (m_it (run O c evs)) /\
    s_first (m_st (run O c evs)) = c_it0 c.
  Proof.
    intros Hc Hn HN Hne.
    assert (H : inv_cc c (run O c evs)).
    { apply run_inv.
      - unfold inv_cc, init_m, init_state; cbn [m_st m_it m_fresh s_first s_centers].
        repeat split; try lia; try discriminate.
      - intros m e. apply inv_cc_step; assumption. }
    destruct H as [Hf [_ [_ Hcen]]]. split; [apply Hcen, run_not_fresh; assumption | exact Hf].
  Qed.

  (* ---------------------------------------------------------------- continuously changing force constant *)
  Definition closed_k (c : rcfg) (t : Z) : T :=
    k_of_lambda O c (if c_decoupling c then nsub O (n1 O) (sched_lambda c t) else sched_lambda c t).

  Definition inv_kc (c : rcfg) (m : mstate) : Prop :=
    s_first (m_st m) = c_it0 c /\ c_it0 c <= m_it m /\
    (m_fresh m = true -> m_it m = c_it0 c) /\
    (m_fresh m = false -> s_k (m_st m) = closed_k c (m_it m)).

  Lemma inv_kc_step c m e :
    c_chg_k c = true -> c_nstages c = 0 -> 0 <= c_nsteps c ->
    inv_kc c m -> inv_kc c (mstep O c m e).
  Proof.
    intros Hc Hn HN [Hf [Hle [Hfr Hk]]].
    destruct (mstep_unfold c m e) as [Hit [_ Hst]].
    assert (Hmov : c_chg_centers c || c_chg_k c = true) by (rewrite Hc; apply orb_true_r).
    assert (Hit' : ev_it m e = m_it m \/ (ev_it m e = m_it m + 1 /\ m_fresh m = false)).
    { unfold ev_it. destruct e; auto. destruct (m_fresh m); auto. }
    unfold inv_kc. rewrite Hit, Hst, rstep_first, ev_s0_first, mstep_not_fresh by assumption.
    split; [exact Hf|]. split; [lia|]. split; [discriminate|]. intros _.
    rewrite rstep_k.
    assert (Hs0k : s_k (ev_s0 c m e) = s_k (m_st m)).
    { destruct e; cbn [ev_s0]; try reflexivity. unfold restore. rewrite Hc. reflexivity. }
    assert (Hs0f : s_first (ev_s0 c m e) = c_it0 c) by (rewrite ev_s0_first; assumption).
    set (t := ev_it m e) in *.
    set (s1 := centers_update O c (ev_s0 c m e) t (t - ev_itr m e)).
    assert (H1f : s_first s1 = c_it0 c) by (unfold s1; rewrite centers_update_first; exact Hs0f).
    assert (H1k : s_k s1 = s_k (m_st m)) by (unfold s1; rewrite centers_update_k; exact Hs0k).
    unfold k_update. rewrite Hc, Hn. cbn [Z.eqb negb]. rewrite H1f.
    destruct (t - c_it0 c <=? c_nsteps c) eqn:Ele.
    - apply Z.leb_le in Ele. cbn [fst set_k s_k]. unfold closed_k, sched_lambda.
      rewrite Z.min_l by lia. reflexivity.
    - apply Z.leb_gt in Ele. cbn [fst].
      assert (Hnf : m_fresh m = false).
      { destruct (m_fresh m) eqn:F; auto. specialize (Hfr eq_refl). destruct Hit' as [H|[_ H]]; [lia|discriminate]. }
      rewrite H1k, (Hk Hnf). unfold closed_k, sched_lambda.
      assert (H1 : c_nsteps c <= m_it m - c_it0 c) by (destruct Hit' as [H|[H _]]; lia).
      assert (H2 : c_nsteps c <= t - c_it0 c) by lia.
      rewrite (Z.min_r _ _ H1), (Z.min_r _ _ H2). reflexivity.
  Qed.

  Lemma k_schedule_continuous (c : rcfg) (evs : list event) :
    c_chg_k c = true -> c_nstages c = 0 -> 0 <= c_nsteps c -> evs <> [] ->
    s_k (m_st (run O c evs)) = closed_k c (m_it (run O c evs)) /\
    s_first (m_st (run O c evs)) = c_it0 c.
  Proof.
    intros Hc Hn HN Hne.
    assert (H : inv_kc c (run O c evs)).
    { apply run_inv.
      - unfold inv_kc, init_m, init_state; cbn [m_st m_it m_fresh s_first s_k].
        repeat split; try lia; try discriminate.
      - intros m e. apply inv_kc_step; assumption. }
    destruct H as [Hf [_ [_ Hk]]]. split; [apply Hk, run_not_fresh; assumption | exact Hf].
  Qed.

  (* the engine's step counter after a history: the number of EStep events after the first event *)
  Fixpoint count_steps (evs : list event) : Z :=
    match evs with
    | [] => 0
    | EStep _ :: r => 1 + count_steps r
    | _ :: r => count_steps r
    end.
  Lemma count_steps_app a b : count_steps (a ++ b) = count_steps a + count_steps b.
  Proof. induction a as [|e a IH]; cbn [app count_steps]; [lia|]. destruct e; lia. Qed.

  Lemma run_it (c : rcfg) e evs : m_it (run O c (e :: evs)) = c_it0 c + count_steps evs.
  Proof.
    induction evs as [|e' evs IH] using rev_ind.
    - unfold run; cbn [fold_left]. destruct (mstep_unfold c (init_m O c) e) as [H _]. rewrite H.
      unfold ev_it, init_m; cbn [m_fresh m_it count_steps]. destruct e; lia.
    - rewrite app_comm_cons, run_snoc. destruct (mstep_unfold c (run O c (e :: evs)) e') as [H _]. rewrite H.
      unfold ev_it. rewrite run_not_fresh by discriminate. rewrite IH, count_steps_app.
      destruct e'; cbn [count_steps]; lia.
  Qed.
End Generic.
