(* R-instance theorems about the restraint potentials (closed forms, shortest image, closest wall, ABMD
   ratchet), a computable rational carrier for the examples, and the examples themselves.
   Schedules: RestraintSched.v; staged TI: RestraintTI.v; accumulated work: RestraintWork.v. *)
From Coq Require Import ZArith List Bool Reals Lra Lia Psatz QArith Qround.
From Flocq Require Import Core.Raux.
From CV Require Import Base.Num Base.RNum C06.RestraintModel C06.RestraintSched C06.RestraintTI C06.RestraintWork C06.TIEstimator.
Import ListNotations.
Local Open Scope Z_scope.

(* ------------------------------------------------------------------ a computable carrier for witnesses *)
(* Rational numbers with exact +,-,*,/, floor and comparisons; pow is defined for integer exponents
   (all the witnesses use lambdaExponent 1); the transcendental slots are not used by the restraint
   model and are filled with the identity. *)
Definition Qltb (a b : Q) : bool := match Qcompare a b with Lt => true | _ => false end.
Definition Qleb (a b : Q) : bool := match Qcompare a b with Gt => false | _ => true end.
Definition Qpow_int (x e : Q) : Q := if (Qden (Qred e) =? 1)%positive then Qred (Qpower x (Qnum (Qred e))) else 0%Q.
Definition Qops : NumOps Q :=
  mkNumOps Q 0%Q 1%Q (fun a b => Qred (a + b)) (fun a b => Qred (a - b)) (fun a b => Qred (a * b))
           (fun a b => Qred (a / b)) (fun a => Qred (- a))
           (fun a => a) (fun a => a) (fun a => a) (fun a => a) (fun a => a) (fun a => a)
           (fun a _ => a) Qpow_int inject_Z Qfloor Qltb Qleb Qeq_bool.

Section Witnesses.
  Local Open Scope Q_scope.
  Definition wv : var := mkVar (1#2) false 1 0.
  Definition wvp : var := mkVar (1#2) true 4 0.
  Definition S (x : Q) : @event Q := EStep [x].
  (* harmonic, centre 1, k 2 -> 4 in 2 stages of 3 steps, targetEquilSteps e *)
  Definition cfg_ks (e : Z) : @rcfg Q :=
    mkCfg Harmonic [wv] [1] false [1] 2 true false 2 4 1 [] 3%Z 2%Z e false false false [0] [0] (-1) (-1) 0%Z.
  (* harmonic, k 1, centres 1 -> 3 in nstages 2 of N steps *)
  Definition cfg_cs (N : Z) : @rcfg Q :=
    mkCfg Harmonic [wv] [1] true [3] 2 false false (-1) (-1) 1 [] N 2%Z 0%Z false false false [0] [0] (-1) (-1) 0%Z.
  (* harmonic, centre 1, k 1 -> 3 continuously in 2 steps, accumulated work *)
  Definition cfg_kc : @rcfg Q :=
    mkCfg Harmonic [wv] [1] false [1] 1 true false 1 3 1 [] 2%Z 0%Z 0%Z true false false [0] [0] (-1) (-1) 0%Z.
  (* harmonic on a periodic variable (period 4 around 0), k 1, centre 3/2 -> 7/2 in 4 steps, accumulated work *)
  Definition cfg_ccp : @rcfg Q :=
    mkCfg Harmonic [wvp] [3#2] true [7#2] 1 false false (-1) (-1) 1 [] 4%Z 0%Z 0%Z true false false [0] [0] (-1) (-1) 0%Z.
  Definition half_steps (n : nat) : list (@event Q) := repeat (S (1#2)) n.

End Witnesses.

(* ------------------------------------------------------------------ closed-form potentials over R *)
Section PotentialsR.
  Local Open Scope R_scope.
  Ltac rops := cbn [nadd nsub nmul ndiv nneg nofZ nfloor nltb nleb n0 n1 nsqrt Rops nhalf half two].

  Lemma pdiff_p_eq P d : pdiff_p Rops P d = d - IZR (pshift Rops P d) * P.
  Proof. unfold pdiff_p. rops. reflexivity. Qed.

  Lemma pdiff_p_range P d : 0 < P -> - P / 2 <= pdiff_p Rops P d < P / 2.
  Proof.
    intros HP. rewrite pdiff_p_eq. unfold pshift, half, nhalf. rops.
    set (y := d / P + 1 / 2).
    pose proof (Zfloor_lb y) as H1. pose proof (Zfloor_ub y) as H2.
    assert (Hy : y * P = d + P / 2) by (unfold y; field; lra).
    assert (H1' : IZR (Zfloor y) * P <= y * P) by (apply Rmult_le_compat_r; lra).
    assert (H2' : y * P < (IZR (Zfloor y) + 1) * P) by (apply Rmult_lt_compat_r; lra).
    lra.
  Qed.

  (* the floor-shifted difference is the image of smallest absolute value *)
  Lemma pdiff_p_min P d (n : Z) : 0 < P -> (pdiff_p Rops P d) ^ 2 <= (d - IZR n * P) ^ 2.
  Proof.
    intros HP. pose proof (pdiff_p_range P d HP) as [Hlo Hhi]. rewrite pdiff_p_eq in *.
    set (m := pshift Rops P d) in *. set (y := d - IZR m * P) in *.
    replace (d - IZR n * P) with (y + IZR (m - n) * P) by (unfold y; rewrite minus_IZR; ring).
    destruct (Z.eq_dec (m - n) 0) as [E|E].
    - rewrite E. right. ring.
    - destruct (Z_lt_le_dec (m - n) 0) as [L|L].
      + assert (HJ : IZR (m - n) <= -1) by (apply IZR_le; lia).
        set (j := IZR (m - n)) in *.
        assert (H1 : j * P <= - P) by nra.
        assert (H3 : (y + j * P) ^ 2 - y ^ 2 = (- (j * P)) * (- (2 * y + j * P))) by ring.
        assert (H4 : 0 <= (- (j * P)) * (- (2 * y + j * P))) by (apply Rmult_le_pos; lra).
        lra.
      + assert (HJ : 1 <= IZR (m - n)) by (apply IZR_le; lia).
        set (j := IZR (m - n)) in *.
        assert (H1 : P <= j * P) by nra.
        assert (H3 : (y + j * P) ^ 2 - y ^ 2 = (j * P) * (2 * y + j * P)) by ring.
        assert (H4 : 0 <= (j * P) * (2 * y + j * P)) by (apply Rmult_le_pos; lra).
        lra.
  Qed.

  Lemma harmonic_periodic (k : R) (v : var) (x c : R) :
    v_width v <> 0 -> v_periodic v = true -> 0 < v_period v ->
    exists m : Z,
      harm_potential Rops k v x c = k / (2 * v_width v ^ 2) * (x - c - IZR m * v_period v) ^ 2 /\
      harm_force Rops k v x c = - (k / v_width v ^ 2) * (x - c - IZR m * v_period v) /\
      harm_dUdk Rops v x c = 1 / (2 * v_width v ^ 2) * (x - c - IZR m * v_period v) ^ 2 /\
      - v_period v / 2 <= x - c - IZR m * v_period v < v_period v / 2 /\
      forall n : Z, (x - c - IZR m * v_period v) ^ 2 <= (x - c - IZR n * v_period v) ^ 2.
  Proof.
    intros Hw Hp HP. exists (pshift Rops (v_period v) (x - c)).
    unfold harm_potential, harm_force, harm_dUdk, dist2, dist2_lgrad, pdiff, wsq. rewrite Hp. rops.
    rewrite pdiff_p_eq. repeat split.
    - field; exact Hw.
    - field; exact Hw.
    - field; exact Hw.
    - pose proof (pdiff_p_range (v_period v) (x - c) HP) as H. rewrite pdiff_p_eq in H. lra.
    - pose proof (pdiff_p_range (v_period v) (x - c) HP) as H. rewrite pdiff_p_eq in H. lra.
    - intros n. pose proof (pdiff_p_min (v_period v) (x - c) n HP) as H. rewrite pdiff_p_eq in H. exact H.
  Qed.

  Lemma harmonic_nonperiodic (k : R) (v : var) (x c : R) :
    v_width v <> 0 -> v_periodic v = false ->
    harm_potential Rops k v x c = k / (2 * v_width v ^ 2) * (x - c) ^ 2 /\
    harm_force Rops k v x c = - (k / v_width v ^ 2) * (x - c) /\
    harm_dUdk Rops v x c = 1 / (2 * v_width v ^ 2) * (x - c) ^ 2.
  Proof.
    intros Hw Hp. unfold harm_potential, harm_force, harm_dUdk, dist2, dist2_lgrad, pdiff, wsq. rewrite Hp. rops.
    repeat split; field; exact Hw.
  Qed.

  Lemma linear_closed (k : R) (v : var) (x c : R) :
    v_width v <> 0 ->
    lin_potential Rops k v x c = k / v_width v * (x - c) /\ lin_force Rops k v = - (k / v_width v) /\
    lin_dUdk Rops v x c = (x - c) / v_width v.
  Proof. intros Hw. unfold lin_potential, lin_force, lin_dUdk. rops. repeat split; field; exact Hw. Qed.

  (* one- and two-sided walls on a non-periodic variable *)
  Lemma walls_nonperiodic (k lk uk : R) (hl hu : bool) (v : var) (x L U : R) :
    v_width v <> 0 -> v_periodic v = false ->
    (hl = true -> x < L ->
       walls_potential Rops k lk uk hl hu v x L U = k * lk / (2 * v_width v ^ 2) * (x - L) ^ 2 /\
       walls_force Rops k lk uk hl hu v x L U = - (k * lk / v_width v ^ 2) * (x - L)) /\
    ((hl = false \/ L <= x) -> hu = true -> U < x ->
       walls_potential Rops k lk uk hl hu v x L U = k * uk / (2 * v_width v ^ 2) * (x - U) ^ 2 /\
       walls_force Rops k lk uk hl hu v x L U = - (k * uk / v_width v ^ 2) * (x - U)) /\
    ((hl = false \/ L <= x) -> (hu = false \/ x <= U) ->
       walls_potential Rops k lk uk hl hu v x L U = 0 /\ walls_force Rops k lk uk hl hu v x L U = 0).
  Proof.
    intros Hw Hp.
    assert (Hd : forall a, dist2_lgrad Rops v x a = 2 * (x - a)).
    { intros a. unfold dist2_lgrad, pdiff. rewrite Hp. rops. reflexivity. }
    unfold walls_potential, walls_force, walls_dist, walls_scale, wsq. rewrite Hp, !Hd. rops.
    split; [|split].
    - intros -> Hx. cbn [andb]. destruct (Rltb (2 * (x - L)) 0) eqn:E; [|apply Rltb_false in E; lra].
      destruct (Rltb 0 (1 / 2 * (2 * (x - L)))) eqn:E2; [apply Rltb_true in E2; lra|].
      split; field; exact Hw.
    - intros Hl -> Hx.
      assert (E0 : hl && Rltb (2 * (x - L)) 0 = false).
      { destruct Hl as [-> | Hl]; [reflexivity|]. apply andb_false_iff; right. apply Rltb_false. lra. }
      rewrite E0. cbn [andb]. destruct (Rltb 0 (2 * (x - U))) eqn:E; [|apply Rltb_false in E; lra].
      destruct (Rltb 0 (1 / 2 * (2 * (x - U)))) eqn:E2; [|apply Rltb_false in E2; lra].
      split; field; exact Hw.
    - intros Hl Hu.
      assert (E0 : hl && Rltb (2 * (x - L)) 0 = false).
      { destruct Hl as [-> | Hl]; [reflexivity|]. apply andb_false_iff; right. apply Rltb_false. lra. }
      assert (E1 : hu && Rltb 0 (2 * (x - U)) = false).
      { destruct Hu as [-> | Hu]; [reflexivity|]. apply andb_false_iff; right. apply Rltb_false. lra. }
      rewrite E0, E1. destruct (Rltb 0 0); split; ring.
  Qed.

  (* harmonic_walls::init keeps the configured constants: force_k * relative constant = configured constant *)
  Lemma walls_init_products (lk uk : R) : 0 < lk -> 0 < uk ->
    let '(k, a, b) := walls_init Rops true true lk uk in k * a = lk /\ k * b = uk /\ 0 < k.
  Proof.
    intros Hl Hu. unfold walls_init. cbn [andb]. rops.
    assert (Hs : 0 < sqrt (lk * uk)) by (apply sqrt_lt_R0; nra).
    repeat split; try (field; lra). exact Hs.
  Qed.

  (* ABMD: the reference only moves forward, the energy is 1/2 k min(0, s (x - ref))^2 *)
  Lemma abmd_ratchet (k stop : R) (dec : bool) (s : abmd_state) (x : R) :
    let ref := if ab_init s then ab_ref s else x in
    let sg := if dec then -1 else 1 in
    let '(s', (e, f)) := abmd_step Rops k stop dec s x in
    e = k / 2 * (Rmin 0 ((x - ref) * sg)) ^ 2 /\
    f = - sg * k * Rmin 0 ((x - ref) * sg) /\
    0 <= (ab_ref s' - ref) * sg /\
    (0 < (ab_ref s' - ref) * sg -> ab_ref s' = x /\ (ref - stop) * sg <= 0) /\
    ab_init s' = true.
  Proof.
    unfold abmd_step. rops.
    set (ref := if ab_init s then ab_ref s else x).
    assert (Hsg : (if dec then - (1) else 1) = (if dec then -1 else 1)) by (destruct dec; lra).
    rewrite Hsg. set (sg := if dec then -1 else 1).
    assert (Hsg2 : sg * sg = 1) by (unfold sg; destruct dec; lra).
    destruct (Rltb 0 ((x - ref) * sg)) eqn:E.
    - apply Rltb_true in E. rewrite Rmin_left by lra.
      destruct (Rleb' ((ref - stop) * sg) 0) eqn:E2; cbn [ab_ref ab_init].
      + apply Rleb_true in E2. repeat split; try ring; try lra.
      + repeat split; try ring; try lra.
    - apply Rltb_false in E. rewrite Rmin_right by lra. cbn [ab_ref ab_init].
      repeat split; try (field; lra); try lra.
  Qed.

  Lemma abmd_ratchet_stmt : forall (k stop : R) (dec : bool) (s : abmd_state) (x : R),
    let ref := if ab_init s then ab_ref s else x in
    let sg := (if dec then -1 else 1)%R in
    let '(s', (e, f)) := abmd_step Rops k stop dec s x in
    (e = k / 2 * (Rmin 0 ((x - ref) * sg)) ^ 2 /\
     f = - sg * k * Rmin 0 ((x - ref) * sg) /\
     0 <= (ab_ref s' - ref) * sg /\
     (0 < (ab_ref s' - ref) * sg -> ab_ref s' = x /\ (ref - stop) * sg <= 0))%R /\
    ab_init s' = true.
  Proof.
    intros k stop dec s x. pose proof (abmd_ratchet k stop dec s x) as H. cbv zeta in *.
    destruct (abmd_step Rops k stop dec s x) as [s' [e f]]. tauto.
  Qed.

  (* ---- periodic variable with two walls: the closest-wall rule ---- *)
  Lemma pdiff_p_unique P d y (n : Z) : 0 < P -> - P / 2 <= y < P / 2 -> d = y + IZR n * P -> pdiff_p Rops P d = y.
  Proof.
    intros HP Hy Hd. rewrite pdiff_p_eq.
    assert (H : pshift Rops P d = n).
    { unfold pshift, half, nhalf. rops. apply Zfloor_spec. subst d.
      replace ((y + IZR n * P) / P + 1 / 2) with (y / P + 1 / 2 + IZR n) by (field; lra).
      assert (Hq : - (1 / 2) <= y / P < 1 / 2).
      { split.
        - apply Rmult_le_reg_r with P; [lra|]. unfold Rdiv at 2. rewrite Rmult_assoc, Rinv_l by lra. lra.
        - apply Rmult_lt_reg_r with P; [lra|]. unfold Rdiv at 1. rewrite Rmult_assoc, Rinv_l by lra. lra. }
      lra. }
    rewrite H. subst d. ring.
  Qed.

  Lemma walls_periodic (k lk uk : R) (hl hu : bool) (v : var) (x L U : R) :
    v_width v <> 0 -> v_periodic v = true -> 0 < v_period v -> L < U -> U - L < v_period v ->
    let dL := pdiff Rops v x L in let dU := pdiff Rops v x U in
    ((exists n : Z, L <= x - IZR n * v_period v <= U) ->
       walls_potential Rops k lk uk hl hu v x L U = 0 /\ walls_force Rops k lk uk hl hu v x L U = 0) /\
    ((~ exists n : Z, L <= x - IZR n * v_period v <= U) ->
       (dL ^ 2 < dU ^ 2 -> dL < 0 /\
          walls_potential Rops k lk uk hl hu v x L U = k * lk / (2 * v_width v ^ 2) * dL ^ 2 /\
          walls_force Rops k lk uk hl hu v x L U = - (k * lk / v_width v ^ 2) * dL) /\
       (dU ^ 2 <= dL ^ 2 -> 0 < dU /\
          walls_potential Rops k lk uk hl hu v x L U = k * uk / (2 * v_width v ^ 2) * dU ^ 2 /\
          walls_force Rops k lk uk hl hu v x L U = - (k * uk / v_width v ^ 2) * dU)).
  Proof.
    intros Hw Hp HP HLU Harc dL dU.
    set (P := v_period v) in *.
    assert (EL : dL = pdiff_p Rops P (x - L)) by (unfold dL, pdiff; rewrite Hp; rops; reflexivity).
    assert (EU : dU = pdiff_p Rops P (x - U)) by (unfold dU, pdiff; rewrite Hp; rops; reflexivity).
    pose proof (pdiff_p_range P (x - L) HP) as RL. rewrite <- EL in RL.
    pose proof (pdiff_p_range P (x - U) HP) as RU. rewrite <- EU in RU.
    assert (ML : dL = x - L - IZR (pshift Rops P (x - L)) * P) by (rewrite EL; apply pdiff_p_eq).
    assert (MU : dU = x - U - IZR (pshift Rops P (x - U)) * P) by (rewrite EU; apply pdiff_p_eq).
    (* the code, in terms of dL and dU *)
    assert (Hdist : walls_dist Rops hl hu v x L U =
                    if Rltb (dL * dL) (dU * dU) then (if Rltb (2 * dL) 0 then 1 / 2 * (2 * dL) else 0)
                    else (if Rltb 0 (2 * dU) then 1 / 2 * (2 * dU) else 0)).
    { unfold walls_dist, dist2, dist2_lgrad. rewrite Hp. fold dL dU. rops. reflexivity. }
    assert (Hpot : forall d, walls_dist Rops hl hu v x L U = d ->
              walls_potential Rops k lk uk hl hu v x L U = 1 / 2 * k * (if Rltb 0 d then uk else lk) / (v_width v * v_width v) * d * d /\
              walls_force Rops k lk uk hl hu v x L U = - k * (if Rltb 0 d then uk else lk) / (v_width v * v_width v) * d).
    { intros d Hd. unfold walls_potential, walls_force, walls_scale, wsq. rewrite Hd. rops. split; reflexivity. }
    split.
    - (* inside *)
      intros [n [Hn1 Hn2]].
      set (a := x - IZR n * P - L). assert (Ha : 0 <= a <= U - L) by (unfold a; lra).
      assert (HdL : (a < P / 2 /\ dL = a) \/ (P / 2 <= a /\ dL = a - P)).
      { destruct (Rlt_dec a (P / 2)) as [Hlt|Hge].
        - left. split; [exact Hlt|]. rewrite EL. apply (pdiff_p_unique P (x - L) a n HP); [lra | unfold a; ring].
        - right. split; [lra|]. rewrite EL. apply (pdiff_p_unique P (x - L) (a - P) (n + 1) HP); [lra|].
          rewrite plus_IZR. unfold a. ring. }
      assert (HdU : (- P / 2 <= a - (U - L) /\ dU = a - (U - L)) \/ (a - (U - L) < - P / 2 /\ dU = a - (U - L) + P)).
      { destruct (Rle_dec (- P / 2) (a - (U - L))) as [Hle|Hgt].
        - left. split; [exact Hle|]. rewrite EU. apply (pdiff_p_unique P (x - U) (a - (U - L)) n HP); [lra | unfold a; ring].
        - right. split; [lra|]. rewrite EU. apply (pdiff_p_unique P (x - U) (a - (U - L) + P) (n - 1) HP); [lra|].
          rewrite minus_IZR. unfold a. ring. }
      assert (Hzero : walls_dist Rops hl hu v x L U = 0).
      { rewrite Hdist.
        destruct (Rltb (dL * dL) (dU * dU)) eqn:E1.
        - apply Rltb_true in E1. destruct (Rltb (2 * dL) 0) eqn:E2; [|reflexivity]. apply Rltb_true in E2. exfalso.
          destruct HdL as [[H1 H2]|[H1 H2]]; [lra|].
          destruct HdU as [[H3 H4]|[H3 H4]]; [|lra].
          rewrite H2, H4 in E1. nra.
        - apply Rltb_false in E1. destruct (Rltb 0 (2 * dU)) eqn:E2; [|reflexivity]. apply Rltb_true in E2. exfalso.
          destruct HdU as [[H3 H4]|[H3 H4]]; [lra|].
          destruct HdL as [[H1 H2]|[H1 H2]]; [|lra].
          rewrite H2, H4 in E1. nra. }
      destruct (Hpot 0 Hzero) as [Q1 Q2]. rewrite Q1, Q2. split; ring.
    - (* outside *)
      intros Hout.
      assert (C1 : dL * dL < dU * dU -> dL < 0).
      { intros Hlt. destruct (Rlt_dec dL 0) as [H|H]; [exact H|]. exfalso. apply Rnot_lt_le in H.
        set (m := pshift Rops P (x - L)) in *.
        assert (Hgt : U - L < dL).
        { destruct (Rlt_dec (U - L) dL) as [H1|H1]; [exact H1|]. exfalso. apply Hout. exists m. lra. }
        assert (HU : dU = dL - (U - L)).
        { rewrite EU. apply (pdiff_p_unique P (x - U) (dL - (U - L)) m HP); [lra | lra]. }
        rewrite HU in Hlt. nra. }
      assert (C2 : dU * dU <= dL * dL -> 0 < dU).
      { intros Hle. destruct (Rlt_dec 0 dU) as [H|H]; [exact H|]. exfalso. apply Rnot_lt_le in H.
        set (m := pshift Rops P (x - U)) in *.
        assert (Hlt : dU < - (U - L)).
        { destruct (Rlt_dec dU (- (U - L))) as [H1|H1]; [exact H1|]. exfalso. apply Hout. exists m. lra. }
        assert (HL : dL = dU + (U - L)).
        { rewrite EL. apply (pdiff_p_unique P (x - L) (dU + (U - L)) m HP); [lra | lra]. }
        rewrite HL in Hle. nra. }
      split.
      + intros Hlt. assert (Hlt' : dL * dL < dU * dU) by lra. specialize (C1 Hlt'). split; [exact C1|].
        assert (Hd : walls_dist Rops hl hu v x L U = dL).
        { rewrite Hdist. destruct (Rltb (dL * dL) (dU * dU)) eqn:E1; [|apply Rltb_false in E1; lra].
          destruct (Rltb (2 * dL) 0) eqn:E2; [field | apply Rltb_false in E2; lra]. }
        destruct (Hpot dL Hd) as [Q1 Q2]. rewrite Q1, Q2.
        destruct (Rltb 0 dL) eqn:E3; [apply Rltb_true in E3; lra|]. split; field; exact Hw.
      + intros Hle. assert (Hle' : dU * dU <= dL * dL) by lra. specialize (C2 Hle'). split; [exact C2|].
        assert (Hd : walls_dist Rops hl hu v x L U = dU).
        { rewrite Hdist. destruct (Rltb (dL * dL) (dU * dU)) eqn:E1; [apply Rltb_true in E1; lra|].
          destruct (Rltb 0 (2 * dU)) eqn:E2; [field | apply Rltb_false in E2; lra]. }
        destruct (Hpot dU Hd) as [Q1 Q2]. rewrite Q1, Q2.
        destruct (Rltb 0 dU) eqn:E3; [|apply Rltb_false in E3; lra]. split; field; exact Hw.
  Qed.

  Lemma example_walls_closest :
    let v := mkVar 1 true 4 0 in
    pdiff Rops v 3.75 1 = -1.25 /\ pdiff Rops v 3.75 2 = 1.75 /\ ~ exists n : Z, 1 <= 3.75 - IZR n * 4 <= 2.
  Proof.
    cbv zeta. unfold pdiff. cbn [v_periodic v_period]. rops. repeat split.
    - apply (pdiff_p_unique 4 (3.75 - 1) (-1.25) 1); simpl; lra.
    - apply (pdiff_p_unique 4 (3.75 - 2) 1.75 0); simpl; lra.
    - intros [n [H1 H2]]. assert (A : (0 < n)%Z) by (apply lt_IZR; simpl; lra).
      assert (B : (n < 1)%Z) by (apply lt_IZR; simpl; lra). lia.
  Qed.
End PotentialsR.

(* lagged total forces: when the engine reports, at a new step, the force that acted at the preceding computation
   (system force + the force this bias applied there), the collected sample is the SYSTEM force of that computation *)
Lemma ti_lagged_sample_is_system_force (c : @ticfg R) (p i : @tiin R) (sys : R) :
  ti_same c = false -> in_tf i = (sys + in_fb p)%R ->
  ti_here Rops c (Some p) (TStep i) = if bin_ok c (bin_of Rops c (in_x p)) then [(bin_of Rops c (in_x p), sys)] else [].
Proof.
  intros Hs Ht. unfold ti_here. rewrite Hs, Ht. destruct (bin_ok c _); [|reflexivity].
  f_equal. f_equal. cbn. ring.
Qed.

(* energy_difference of a harmonic restraint with fixed parameters on one non-periodic variable: the difference of the two
   closed forms *)
Lemma rediff_harmonic_closed (c : @rcfg R) (s : @rstate R) (v : @var R) (x ce k' ce' : R) :
  c_kind c = Harmonic -> c_vars c = [v] -> s_centers s = [ce] -> v_width v <> 0%R -> v_periodic v = false ->
  rediff Rops c s [x] (Some k') (Some [ce']) =
  (k' / (2 * v_width v ^ 2) * (x - ce') ^ 2 - s_k s / (2 * v_width v ^ 2) * (x - ce) ^ 2)%R.
Proof.
  intros Hk Hv Hc Hw Hp. unfold rediff, terms. rewrite Hk, Hv, Hc. cbn [map3 map pot3 fst s_k s_centers sumT fold_left].
  destruct (harmonic_nonperiodic k' v x ce' Hw Hp) as [E1 _]. destruct (harmonic_nonperiodic (s_k s) v x ce Hw Hp) as [E2 _].
  rewrite E1, E2. cbn [nadd nsub n0 Rops]. ring.
Qed.
