From Coq Require Import ZArith List Bool Reals Lra Lia Psatz QArith Qround.
From Flocq Require Import Core.Raux.
From CV Require Import Base.Num Base.RNum C06.RestraintModel.
Import ListNotations.
Local Open Scope Z_scope.

(* ------------------------------------------------------------------ generic facts about the run *)
Ltac split_ifs :=
  repeat match goal with
         | |- context [if ?b then _ else _] => destruct b
         | |- context [match ?l with [] => _ | _ :: _ => _ end] => destruct l
         end.

Section Generic.
  Context {T : Type} (O : NumOps T).
  Notation rcfg := (@rcfg T). Notation rstate := (@rstate T). Notation mstate := (@mstate T). Notation event := (@event T).

  Lemma run_snoc (c : rcfg) evs e : run O c (evs ++ [e]) = mstep O c (run O c evs) e.
  Proof. unfold run. rewrite fold_left_app. reflexivity. Qed.

  Lemma run_inv (P : mstate -> Prop) (c : rcfg) :
    P (init_m O c) -> (forall m e, P m -> P (mstep O c m e)) -> forall evs, P (run O c evs).
  Proof.
    intros H0 Hs evs. induction evs as [|e evs IH] using rev_ind.
    - exact H0.
    - rewrite run_snoc. apply Hs, IH.
  Qed.

  Lemma mstep_not_fresh (c : rcfg) m e : m_fresh (mstep O c m e) = false.
  Proof. unfold mstep. destruct (rstep O c _ _ _ _). reflexivity. Qed.

  Lemma run_not_fresh (c : rcfg) evs : evs <> [] -> m_fresh (run O c evs) = false.
  Proof.
    intros H. destruct (exists_last H) as [l [e ->]]. rewrite run_snoc. apply mstep_not_fresh.
  Qed.

  (* which parts of the state each sub-update touches *)
  Lemma k_update_centers c s t xs : s_centers (fst (k_update O c s t xs)) = s_centers s.
  Proof. unfold k_update. split_ifs; reflexivity. Qed.
  Lemma k_update_first c s t xs : s_first (fst (k_update O c s t xs)) = s_first s.
  Proof. unfold k_update. split_ifs; reflexivity. Qed.
  Lemma k_update_W c s t xs : s_W (fst (k_update O c s t xs)) = s_W s.
  Proof. unfold k_update. split_ifs; reflexivity. Qed.
  Lemma k_update_incr c s t xs : s_incr (fst (k_update O c s t xs)) = s_incr s.
  Proof. unfold k_update. split_ifs; reflexivity. Qed.
  Lemma k_update_off c s t xs : c_chg_k c = false -> k_update O c s t xs = (s, None).
  Proof. unfold k_update. intros ->. reflexivity. Qed.

  Lemma centers_update_k c s t rel : s_k (centers_update O c s t rel) = s_k s.
  Proof. unfold centers_update. split_ifs; reflexivity. Qed.
  Lemma centers_update_first c s t rel : s_first (centers_update O c s t rel) = s_first s.
  Proof. unfold centers_update. split_ifs; reflexivity. Qed.
  Lemma centers_update_W c s t rel : s_W (centers_update O c s t rel) = s_W s.
  Proof. unfold centers_update. split_ifs; reflexivity. Qed.
  Lemma centers_update_off c s t rel : c_chg_centers c = false -> centers_update O c s t rel = s.
  Proof. unfold centers_update. intros ->. reflexivity. Qed.

  Lemma work_centers_fields c s t rel f :
    s_centers (work_centers O c s t rel f) = s_centers s /\ s_k (work_centers O c s t rel f) = s_k s /\
    s_first (work_centers O c s t rel f) = s_first s /\ s_stage (work_centers O c s t rel f) = s_stage s.
  Proof. unfold work_centers. split_ifs; repeat split; reflexivity. Qed.
  Lemma work_k_fields c s rel xs :
    s_centers (work_k O c s rel xs) = s_centers s /\ s_k (work_k O c s rel xs) = s_k s /\
    s_first (work_k O c s rel xs) = s_first s /\ s_stage (work_k O c s rel xs) = s_stage s.
  Proof. unfold work_k. split_ifs; repeat split; reflexivity. Qed.

  (* one restraint update, seen through its parameters *)
  Lemma rstep_centers c s t rel xs :
    s_centers (fst (rstep O c s t rel xs)) = s_centers (centers_update O c s t rel).
  Proof.
    unfold rstep. pose proof (k_update_centers c (centers_update O c s t rel) t xs) as Hk.
    destruct (k_update O c (centers_update O c s t rel) t xs) as [s2 line]; cbn [fst] in *.
    destruct (work_k_fields c (work_centers O c s2 t rel (map frc3 (terms O c s2 xs))) rel xs) as [H1 _].
    destruct (work_centers_fields c s2 t rel (map frc3 (terms O c s2 xs))) as [H2 _].
    cbn [fst]. rewrite H1, H2. exact Hk.
  Qed.

  Lemma rstep_first c s t rel xs : s_first (fst (rstep O c s t rel xs)) = s_first s.
  Proof.
    unfold rstep. pose proof (k_update_first c (centers_update O c s t rel) t xs) as Hk.
    destruct (k_update O c (centers_update O c s t rel) t xs) as [s2 line]; cbn [fst] in *.
    destruct (work_k_fields c (work_centers O c s2 t rel (map frc3 (terms O c s2 xs))) rel xs) as [_ [_ [H1 _]]].
    destruct (work_centers_fields c s2 t rel (map frc3 (terms O c s2 xs))) as [_ [_ [H2 _]]].
    cbn [fst]. rewrite H1, H2, Hk. apply centers_update_first.
  Qed.

  Lemma rstep_k c s t rel xs :
    s_k (fst (rstep O c s t rel xs)) = s_k (fst (k_update O c (centers_update O c s t rel) t xs)).
  Proof.
    unfold rstep.
    destruct (k_update O c (centers_update O c s t rel) t xs) as [s2 line]; cbn [fst] in *.
    destruct (work_k_fields c (work_centers O c s2 t rel (map frc3 (terms O c s2 xs))) rel xs) as [_ [H1 _]].
    destruct (work_centers_fields c s2 t rel (map frc3 (terms O c s2 xs))) as [_ [H2 _]].
    cbn [fst]. rewrite H1, H2. reflexivity.
  Qed.

  (* the step number the engine is at after an event *)
  Definition ev_it (m : mstate) (e : event) : Z :=
    match e with EStep _ => if m_fresh m then m_it m else m_it m + 1 | _ => m_it m end.
  Definition ev_itr (m : mstate) (e : event) : Z :=
    match e with ERestart _ => ev_it m e | _ => m_itr m end.
  Definition ev_s0 (c : rcfg) (m : mstate) (e : event) : rstate :=
    match e with ERestart _ => restore O c (m_st m) | _ => m_st m end.

  Lemma mstep_unfold c m e :
    m_it (mstep O c m e) = ev_it m e /\ m_itr (mstep O c m e) = ev_itr m e /\
    m_st (mstep O c m e) = fst (rstep O c (ev_s0 c m e) (ev_it m e) (ev_it m e - ev_itr m e) (ev_xs e)).
  Proof.
    unfold mstep, ev_it, ev_itr, ev_s0.
    destruct e; destruct (rstep O c _ _ _ _) as [s1 o]; cbn [m_it m_itr m_st fst]; auto.
  Qed.

  (* ---------------------------------------------------------------- continuous moving centres *)
  Definition sched_lambda (c : rcfg) (t : Z) : T :=
    ratio O (Z.min (t - c_it0 c) (c_nsteps c)) (c_nsteps c).
  Definition closed_centers (c : rcfg) (t : Z) : list T :=
    map2 (wrapv O) (c_vars c) (new_centers O c (sched_lambda c t)).

  Definition inv_cc (c : rcfg) (m : mstate) : Prop :=
    s_first (m_st m) = c_it0 c /\ c_it0 c <= m_it m /\
    (m_fresh m = true -> m_it m = c_it0 c) /\
    (m_fresh m = false -> s_centers (m_st m) = closed_centers c (m_it m)).

  Lemma restore_first c s : c_chg_centers c || c_chg_k c = true -> s_first (restore O c s) = s_first s.
  Proof. unfold restore. intros ->. reflexivity. Qed.

  Lemma ev_s0_first c m e : c_chg_centers c || c_chg_k c = true -> s_first (ev_s0 c m e) = s_first (m_st m).
  Proof. intros H. destruct e; cbn [ev_s0]; auto using restore_first. Qed.

  Lemma inv_cc_step c m e :
    c_chg_centers c = true -> c_nstages c = 0 -> 0 <= c_nsteps c ->
    inv_cc c m -> inv_cc c (mstep O c m e).
  Proof.
    intros Hc Hn HN [Hf [Hle [Hfr Hcen]]].
    destruct (mstep_unfold c m e) as [Hit [_ Hst]].
    assert (Hmov : c_chg_centers c || c_chg_k c = true) by (rewrite Hc; reflexivity).
    assert (Hit' : ev_it m e = m_it m \/ (ev_it m e = m_it m + 1 /\ m_fresh m = false)).
    { unfold ev_it. destruct e; auto. destruct (m_fresh m); auto. }
    unfold inv_cc. rewrite Hit, Hst, rstep_first, ev_s0_first, mstep_not_fresh by assumption.
    split; [exact Hf|]. split; [lia|]. split; [discriminate|]. intros _.
    rewrite rstep_centers.
    assert (Hs0c : s_centers (ev_s0 c m e) = s_centers (m_st m)).
    { destruct e; cbn [ev_s0]; try reflexivity. unfold restore. rewrite Hc. reflexivity. }
    assert (Hs0f : s_first (ev_s0 c m e) = c_it0 c) by (rewrite ev_s0_first; assumption).
    unfold centers_update. rewrite Hc, Hn. cbn [Z.eqb negb].
    set (t := ev_it m e) in *. rewrite Hs0f.
    destruct (t - c_it0 c <=? c_nsteps c) eqn:Ele.
    - apply Z.leb_le in Ele.
      assert (Hcc : s_centers (update_centers O c (ev_s0 c m e) (ratio O (t - c_it0 c) (c_nsteps c))) = closed_centers c t).
      { unfold update_centers, closed_centers, sched_lambda. cbn [s_centers]. rewrite Z.min_l by lia. reflexivity. }
      destruct (_ =? 0); [cbn [set_incr s_centers]|]; exact Hcc.
    - apply Z.leb_gt in Ele.
      assert (Hnf : m_fresh m = false).
      { destruct (m_fresh m) eqn:F; auto. specialize (Hfr eq_refl). destruct Hit' as [H|[_ H]]; [lia|discriminate]. }
      assert (Hcc : s_centers (ev_s0 c m e) = closed_centers c t).
      { rewrite Hs0c, (Hcen Hnf). unfold closed_centers, sched_lambda.
        assert (H1 : c_nsteps c <= m_it m - c_it0 c). { destruct Hit' as [H|[H _]]; lia. }
        assert (H2 : c_nsteps c <= t - c_it0 c) by lia.
        rewrite (Z.min_r _ _ H1), (Z.min_r _ _ H2). reflexivity. }
      destruct (_ =? 0); cbn [set_incr s_centers]; exact Hcc.
  Qed.

  Lemma center_schedule_continuous (c : rcfg) (evs : list event) :
    c_chg_centers c = true -> c_nstages c = 0 -> 0 <= c_nsteps c -> evs <> [] ->
    s_centers (m_st (run O c evs)) = closed_centers c (m_it (run O c evs)) /\
    s_first (m_st (run O c evs)) = c_it0 c.
  Proof.
    intros Hc Hn HN Hne.
    assert (H : inv_cc c (run O c evs)).
    { apply run_inv.
      - unfold inv_cc, init_m, init_state; cbn [m_st m_it m_fresh s_first s_centers].
        repeat split; try lia; try discriminate.
      - intros m e. apply inv_cc_step; assumption. }
    destruct H as [Hf [_ [_ Hcen]]]. split; [apply Hcen, run_not_fresh; assumption | exact Hf].
  Qed.

  (* ---------------------------------------------------------------- continuously changing force constant *)
  Definition closed_k (c : rcfg) (t : Z) : T :=
    k_of_lambda O c (if c_decoupling c then nsub O (n1 O) (sched_lambda c t) else sched_lambda c t).

  Definition inv_kc (c : rcfg) (m : mstate) : Prop :=
    s_first (m_st m) = c_it0 c /\ c_it0 c <= m_it m /\
    (m_fresh m = true -> m_it m = c_it0 c) /\
    (m_fresh m = false -> s_k (m_st m) = closed_k c (m_it m)).

  Lemma inv_kc_step c m e :
    c_chg_k c = true -> c_nstages c = 0 -> 0 <= c_nsteps c ->
    inv_kc c m -> inv_kc c (mstep O c m e).
  Proof.
    intros Hc Hn HN [Hf [Hle [Hfr Hk]]].
    destruct (mstep_unfold c m e) as [Hit [_ Hst]].
    assert (Hmov : c_chg_centers c || c_chg_k c = true) by (rewrite Hc; apply orb_true_r).
    assert (Hit' : ev_it m e = m_it m \/ (ev_it m e = m_it m + 1 /\ m_fresh m = false)).
    { unfold ev_it. destruct e; auto. destruct (m_fresh m); auto. }
    unfold inv_kc. rewrite Hit, Hst, rstep_first, ev_s0_first, mstep_not_fresh by assumption.
    split; [exact Hf|]. split; [lia|]. split; [discriminate|]. intros _.
    rewrite rstep_k.
    assert (Hs0k : s_k (ev_s0 c m e) = s_k (m_st m)).
    { destruct e; cbn [ev_s0]; try reflexivity. unfold restore. rewrite Hc. reflexivity. }
    assert (Hs0f : s_first (ev_s0 c m e) = c_it0 c) by (rewrite ev_s0_first; assumption).
    set (t := ev_it m e) in *.
    set (s1 := centers_update O c (ev_s0 c m e) t (t - ev_itr m e)).
    assert (H1f : s_first s1 = c_it0 c) by (unfold s1; rewrite centers_update_first; exact Hs0f).
    assert (H1k : s_k s1 = s_k (m_st m)) by (unfold s1; rewrite centers_update_k; exact Hs0k).
    unfold k_update. rewrite Hc, Hn. cbn [Z.eqb negb]. rewrite H1f.
    destruct (t - c_it0 c <=? c_nsteps c) eqn:Ele.
    - apply Z.leb_le in Ele. cbn [fst set_k s_k]. unfold closed_k, sched_lambda.
      rewrite Z.min_l by lia. reflexivity.
    - apply Z.leb_gt in Ele. cbn [fst].
      assert (Hnf : m_fresh m = false).
      { destruct (m_fresh m) eqn:F; auto. specialize (Hfr eq_refl). destruct Hit' as [H|[_ H]]; [lia|discriminate]. }
      rewrite H1k, (Hk Hnf). unfold closed_k, sched_lambda.
      assert (H1 : c_nsteps c <= m_it m - c_it0 c) by (destruct Hit' as [H|[H _]]; lia).
      assert (H2 : c_nsteps c <= t - c_it0 c) by lia.
      rewrite (Z.min_r _ _ H1), (Z.min_r _ _ H2). reflexivity.
  Qed.

  Lemma k_schedule_continuous (c : rcfg) (evs : list event) :
    c_chg_k c = true -> c_nstages c = 0 -> 0 <= c_nsteps c -> evs <> [] ->
    s_k (m_st (run O c evs)) = closed_k c (m_it (run O c evs)) /\
    s_first (m_st (run O c evs)) = c_it0 c.
  Proof.
    intros Hc Hn HN Hne.
    assert (H : inv_kc c (run O c evs)).
    { apply run_inv.
      - unfold inv_kc, init_m, init_state; cbn [m_st m_it m_fresh s_first s_k].
        repeat split; try lia; try discriminate.
      - intros m e. apply inv_kc_step; assumption. }
    destruct H as [Hf [_ [_ Hk]]]. split; [apply Hk, run_not_fresh; assumption | exact Hf].
  Qed.

  (* the engine's step counter after a history: the number of EStep events after the first event *)
  Fixpoint count_steps (evs : list event) : Z :=
    match evs with
    | [] => 0
    | EStep _ :: r => 1 + count_steps r
    | _ :: r => count_steps r
    end.
  Lemma count_steps_app a b : count_steps (a ++ b) = count_steps a + count_steps b.
  Proof. induction a as [|e a IH]; cbn [app count_steps]; [lia|]. destruct e; lia. Qed.

  Lemma run_it (c : rcfg) e evs : m_it (run O c (e :: evs)) = c_it0 c + count_steps evs.
  Proof.
    induction evs as [|e' evs IH] using rev_ind.
    - unfold run; cbn [fold_left]. destruct (mstep_unfold c (init_m O c) e) as [H _]. rewrite H.
      unfold ev_it, init_m; cbn [m_fresh m_it count_steps]. destruct e; lia.
    - rewrite app_comm_cons, run_snoc. destruct (mstep_unfold c (run O c (e :: evs)) e') as [H _]. rewrite H.
      unfold ev_it. rewrite run_not_fresh by discriminate. rewrite IH, count_steps_app.
      destruct e'; cbn [count_steps]; lia.
  Qed.

  (* ---------------------------------------------------------------- staged schedules: closed forms *)
  (* force constant: stage s is in effect from step first + s*N on, s <= nstages *)
  Definition stage_closed (c : rcfg) (t : Z) : Z := Z.min (c_nstages c) ((t - c_it0 c) / c_nsteps c).
  Definition lambda0 (c : rcfg) : T :=
    match c_lambda_sched c with [] => if c_decoupling c then n1 O else n0 O | l0 :: _ => l0 end.
  Definition closed_k_staged (c : rcfg) (t : Z) : T :=
    if stage_closed c t =? 0 then k_of_lambda O c (lambda0 c)
    else k_of_lambda O c (stage_lambda O c (stage_closed c t)).
  (* centres: the (j+1)-th move, to lambda = j/nstages, happens at step first + j*N + 1, j <= nstages *)
  Definition nmoves (c : rcfg) (t : Z) : Z :=
    if t - c_it0 c <=? 0 then 0 else Z.min (c_nstages c + 1) ((t - c_it0 c - 1) / c_nsteps c + 1).
  Definition closed_centers_staged (c : rcfg) (t : Z) : list T :=
    if nmoves c t =? 0 then c_centers0 c
    else map2 (wrapv O) (c_vars c) (new_centers O c (ratio O (nmoves c t - 1) (c_nstages c))).

  (* ---------------------------------------------------------------- staged force constant, one run segment *)
  Definition is_step (e : event) : Prop := match e with EStep _ => True | _ => False end.

  Lemma div_succ a N : 0 <= a -> 0 < N ->
    ((a + 1) mod N = 0 -> (a + 1) / N = a / N + 1) /\ ((a + 1) mod N <> 0 -> (a + 1) / N = a / N).
  Proof.
    intros Ha HN.
    pose proof (Z.div_mod a N ltac:(lia)) as E1. pose proof (Z.div_mod (a + 1) N ltac:(lia)) as E2.
    pose proof (Z.mod_pos_bound a N HN) as B1. pose proof (Z.mod_pos_bound (a + 1) N HN) as B2.
    split; intros H; nia.
  Qed.

  Definition inv_ks (c : rcfg) (m : mstate) : Prop :=
    s_first (m_st m) = c_it0 c /\ c_it0 c <= m_it m /\
    (m_fresh m = true -> m_it m = c_it0 c /\ s_stage (m_st m) = 0) /\
    (m_fresh m = false -> s_stage (m_st m) = stage_closed c (m_it m) /\ s_k (m_st m) = closed_k_staged c (m_it m)).

  Lemma k_update_staged_spec c s t xs :
    c_chg_k c = true -> negb (c_nstages c =? 0) = true ->
    let s' := fst (k_update O c s t xs) in
    let adv := (Z.rem (t - s_first s) (c_nsteps c) =? 0) && (s_first s <? t) && (s_stage s <? c_nstages c) in
    s_stage s' = (if adv then s_stage s + 1 else s_stage s) /\
    s_k s' = (if adv then k_of_lambda O c (stage_lambda O c (s_stage s + 1))
              else if t =? s_first s then k_of_lambda O c (lambda0 c) else s_k s).
  Proof.
    intros Hc Hne. unfold k_update, lambda0. rewrite Hc, Hne.
    destruct (t =? s_first s) eqn:E1; cbn [set_k s_first s_stage s_k s_FE s_kincr];
      destruct (_ || _) eqn:E2; cbn [set_k s_first s_stage s_k s_FE s_kincr];
      destruct (Z.rem _ _ =? 0) eqn:E3; destruct (s_first s <? t) eqn:E4; cbn [andb];
      destruct (s_stage s <? c_nstages c) eqn:E5; cbn [fst set_k s_first s_stage s_k s_FE s_kincr]; auto.
  Qed.

  Lemma inv_ks_step c m e :
    c_chg_k c = true -> c_chg_centers c = false -> 0 < c_nstages c -> 0 < c_nsteps c -> is_step e ->
    inv_ks c m -> inv_ks c (mstep O c m e).
  Proof.
    intros Hc Hcc Hn HN He [Hf [Hle [Hfr Hk]]].
    destruct e as [xs| |]; try contradiction.
    destruct (mstep_unfold c m (EStep xs)) as [Hit [_ Hst]].
    unfold inv_ks. rewrite Hit, Hst, rstep_first, mstep_not_fresh. cbn [ev_s0 ev_xs].
    split; [exact Hf|].
    assert (Hne : negb (c_nstages c =? 0) = true) by (apply negb_true_iff, Z.eqb_neq; lia).
    set (t := ev_it m (EStep xs)) in *.
    destruct (k_update_staged_spec c (m_st m) t xs Hc Hne) as [S1 S2]. rewrite Hf in S1, S2.
    assert (Hgoal : c_it0 c <= t /\
      s_stage (fst (k_update O c (m_st m) t xs)) = stage_closed c t /\
      s_k (fst (k_update O c (m_st m) t xs)) = closed_k_staged c t).
    { rewrite S1, S2. clear S1 S2.
      destruct (m_fresh m) eqn:F.
      - destruct (Hfr eq_refl) as [Hi Hs0]. assert (Ht : t = c_it0 c) by (unfold t, ev_it; rewrite F; exact Hi).
        rewrite Ht, Z.eqb_refl, Z.ltb_irrefl, andb_false_r. cbn [andb].
        assert (Hsc : stage_closed c (c_it0 c) = 0).
        { unfold stage_closed. rewrite Z.sub_diag, Z.div_0_l by lia. lia. }
        unfold closed_k_staged. rewrite Hsc. cbn [Z.eqb]. repeat split; [lia | exact Hs0].
      - destruct (Hk eq_refl) as [Hs Hkk]. assert (Ht : t = m_it m + 1) by (unfold t, ev_it; rewrite F; reflexivity).
        assert (Hneq : (t =? c_it0 c) = false) by (apply Z.eqb_neq; lia).
        rewrite Hneq.
        set (a := m_it m - c_it0 c). assert (Ha : 0 <= a) by (unfold a; lia).
        assert (Hta : t - c_it0 c = a + 1) by (unfold a; lia).
        destruct (div_succ a (c_nsteps c) Ha HN) as [D1 D2].
        assert (Hlt : (c_it0 c <? t) = true) by (apply Z.ltb_lt; lia).
        assert (Hz : 0 <= a / c_nsteps c) by (apply Z.div_pos; lia).
        rewrite Hlt, andb_true_r, Hta, Z.rem_mod_nonneg by lia.
        split; [lia|].
        assert (Hsa : s_stage (m_st m) = Z.min (c_nstages c) (a / c_nsteps c)) by (rewrite Hs; reflexivity).
        assert (Hka : s_k (m_st m) = (if Z.min (c_nstages c) (a / c_nsteps c) =? 0 then k_of_lambda O c (lambda0 c)
                                       else k_of_lambda O c (stage_lambda O c (Z.min (c_nstages c) (a / c_nsteps c)))))
          by (rewrite Hkk; reflexivity).
        unfold closed_k_staged, stage_closed. rewrite Hta.
        destruct ((a + 1) mod c_nsteps c =? 0) eqn:Em; cbn [andb].
        + apply Z.eqb_eq in Em. specialize (D1 Em). rewrite D1.
          destruct (s_stage (m_st m) <? c_nstages c) eqn:El.
          * apply Z.ltb_lt in El.
            replace (Z.min (c_nstages c) (a / c_nsteps c + 1)) with (s_stage (m_st m) + 1) by lia.
            destruct (s_stage (m_st m) + 1 =? 0) eqn:Ez; [apply Z.eqb_eq in Ez; lia|]. split; reflexivity.
          * apply Z.ltb_ge in El.
            replace (Z.min (c_nstages c) (a / c_nsteps c + 1)) with (Z.min (c_nstages c) (a / c_nsteps c)) by lia.
            split; [exact Hsa | exact Hka].
        + apply Z.eqb_neq in Em. specialize (D2 Em). rewrite D2. split; [exact Hsa | exact Hka]. }
    destruct Hgoal as [G1 [G2 G3]].
    split; [exact G1|]. split; [discriminate|]. intros _.
    rewrite rstep_k, centers_update_off by exact Hcc.
    split; [|exact G3].
    unfold rstep. rewrite centers_update_off by exact Hcc.
    destruct (k_update O c (m_st m) t xs) as [s2 line]; cbn [fst] in *.
    match goal with |- s_stage (work_k O c ?s ?r ?x) = _ => destruct (work_k_fields c s r x) as [_ [_ [_ H1]]]; rewrite H1 end.
    match goal with |- s_stage (work_centers O c ?s ?tt ?r ?f) = _ => destruct (work_centers_fields c s tt r f) as [_ [_ [_ H2]]]; rewrite H2 end.
    exact G2.
  Qed.

  Lemma k_schedule_staged_one_segment (c : rcfg) (evs : list event) :
    c_chg_k c = true -> c_chg_centers c = false -> 0 < c_nstages c -> 0 < c_nsteps c ->
    Forall is_step evs -> evs <> [] ->
    s_stage (m_st (run O c evs)) = stage_closed c (m_it (run O c evs)) /\
    s_k (m_st (run O c evs)) = closed_k_staged c (m_it (run O c evs)).
  Proof.
    intros Hc Hcc Hn HN Hall Hne.
    assert (H : inv_ks c (run O c evs)).
    { induction evs as [|e evs IH] using rev_ind.
      - unfold inv_ks, run, init_m, init_state; cbn [fold_left m_st m_it m_fresh s_first s_stage].
        repeat split; try lia; try discriminate.
      - rewrite run_snoc. apply Forall_app in Hall as [Ha He]. inversion He as [|? ? He1 _]; subst.
        apply inv_ks_step; auto.
        destruct evs as [|e0 evs0]; [|apply IH; [exact Ha|discriminate]].
        unfold inv_ks, run, init_m, init_state; cbn [fold_left m_st m_it m_fresh s_first s_stage].
        repeat split; try lia; try discriminate. }
    destruct H as [_ [_ [_ Hk]]]. apply Hk, run_not_fresh; assumption.
  Qed.
End Generic.

(* ------------------------------------------------------------------ a computable carrier for witnesses *)
(* Rational numbers with exact +,-,*,/, floor and comparisons; pow is defined for integer exponents
   (all the witnesses use lambdaExponent 1); the transcendental slots are not used by the restraint
   model and are filled with the identity. *)
Definition Qltb (a b : Q) : bool := match Qcompare a b with Lt => true | _ => false end.
Definition Qleb (a b : Q) : bool := match Qcompare a b with Gt => false | _ => true end.
Definition Qpow_int (x e : Q) : Q := if (Qden (Qred e) =? 1)%positive then Qred (Qpower x (Qnum (Qred e))) else 0%Q.
Definition Qops : NumOps Q :=
  mkNumOps Q 0%Q 1%Q (fun a b => Qred (a + b)) (fun a b => Qred (a - b)) (fun a b => Qred (a * b))
           (fun a b => Qred (a / b)) (fun a => Qred (- a))
           (fun a => a) (fun a => a) (fun a => a) (fun a => a) (fun a => a) (fun a => a)
           (fun a _ => a) Qpow_int inject_Z Qfloor Qltb Qleb Qeq_bool.

Section Witnesses.
  Local Open Scope Q_scope.
  Definition wv : var := mkVar (1#2) false 1 0.
  Definition wvp : var := mkVar (1#2) true 4 0.
  Definition S (x : Q) : @event Q := EStep [x].
  (* harmonic, centre 1, k 2 -> 4 in 2 stages of 3 steps, targetEquilSteps e *)
  Definition cfg_ks (e : Z) : @rcfg Q :=
    mkCfg Harmonic [wv] [1] false [1] 2 true false 2 4 1 [] 3%Z 2%Z e false false false [0] [0] (-1) (-1) 0%Z.
  (* harmonic, k 1, centres 1 -> 3 in nstages 2 of N steps *)
  Definition cfg_cs (N : Z) : @rcfg Q :=
    mkCfg Harmonic [wv] [1] true [3] 2 false false (-1) (-1) 1 [] N 2%Z 0%Z false false false [0] [0] (-1) (-1) 0%Z.
  (* harmonic, centre 1, k 1 -> 3 continuously in 2 steps, accumulated work *)
  Definition cfg_kc : @rcfg Q :=
    mkCfg Harmonic [wv] [1] false [1] 1 true false 1 3 1 [] 2%Z 0%Z 0%Z true false false [0] [0] (-1) (-1) 0%Z.
  (* harmonic on a periodic variable (period 4 around 0), k 1, centre 3/2 -> 7/2 in 4 steps, accumulated work *)
  Definition cfg_ccp : @rcfg Q :=
    mkCfg Harmonic [wvp] [3#2] true [7#2] 1 false false (-1) (-1) 1 [] 4%Z 0%Z 0%Z true false false [0] [0] (-1) (-1) 0%Z.
  Definition half_steps (n : nat) : list (@event Q) := repeat (S (1#2)) n.

  Definition final_k c evs := s_k (m_st (run Qops c evs)).
  Definition final_it c evs := m_it (run Qops c evs).

  (* a run boundary exactly at the end of stage 0 (step 3): the stage advances twice *)
  Lemma w_staged_k_boundary :
    let evs := half_steps 4 ++ [EBoundary [1#2]] in
    final_it (cfg_ks 1) evs = 3%Z /\ s_stage (m_st (run Qops (cfg_ks 1) evs)) = 2%Z /\
    Qeq_bool (final_k (cfg_ks 1) evs) (closed_k_staged Qops (cfg_ks 1) 3) = false.
  Proof. vm_compute. auto. Qed.
  Lemma w_staged_k_restart :
    let evs := half_steps 4 ++ [ERestart [1#2]] in
    final_it (cfg_ks 1) evs = 3%Z /\ s_stage (m_st (run Qops (cfg_ks 1) evs)) = 2%Z /\
    Qeq_bool (final_k (cfg_ks 1) evs) (closed_k_staged Qops (cfg_ks 1) 3) = false.
  Proof. vm_compute. auto. Qed.
  (* staged centres: a run boundary at step 1 = first + 0*N + 1 moves the centres twice *)
  Lemma w_staged_c_boundary :
    let evs := half_steps 2 ++ [EBoundary [1#2]] in
    final_it (cfg_cs 2) evs = 1%Z /\ s_centers (m_st (run Qops (cfg_cs 2) evs)) = [2] /\
    closed_centers_staged Qops (cfg_cs 2) 1 = [1].
  Proof. vm_compute. auto. Qed.
  (* staged centres with targetNumSteps 1 never move *)
  Lemma w_staged_c_N1 :
    let evs := half_steps 5 in
    final_it (cfg_cs 1) evs = 4%Z /\ s_centers (m_st (run Qops (cfg_cs 1) evs)) = [1] /\
    closed_centers_staged Qops (cfg_cs 1) 4 = [3].
  Proof. vm_compute. auto. Qed.
  (* work of a changing force constant: after the schedule's end (step 2) the last increment keeps being added *)
  Lemma w_work_k_after_end :
    s_W (m_st (run Qops cfg_kc (half_steps 3))) = 1 /\ s_k (m_st (run Qops cfg_kc (half_steps 3))) = 3 /\
    s_W (m_st (run Qops cfg_kc (half_steps 6))) = (5#2) /\ s_k (m_st (run Qops cfg_kc (half_steps 6))) = 3.
  Proof. vm_compute. auto. Qed.
  (* moving centre of a periodic variable: the increment at step 2 is 9/2 instead of 1/2 *)
  Lemma w_work_c_periodic :
    s_incr (m_st (run Qops cfg_ccp (half_steps 2))) = [1#2] /\
    s_incr (m_st (run Qops cfg_ccp (half_steps 3))) = [9#2] /\
    s_W (m_st (run Qops cfg_ccp (half_steps 3))) = 39.
  Proof. vm_compute. auto. Qed.
  (* TI, no equilibration: the first stage sums 4 samples (steps 0..3) of value 1 and divides by 3 *)
  Lemma w_ti_first_stage :
    exists o, nth_error (m_outs (run Qops (cfg_ks 0) (half_steps 4))) 3 = Some o /\
              o_log (snd o) = Some (0, 4#3) /\
              s_FE (snd (fst o)) = 0.
  Proof. vm_compute. eexists. split; [reflexivity|]. auto. Qed.
End Witnesses.

(* ------------------------------------------------------------------ closed-form potentials over R *)
Section PotentialsR.
  Local Open Scope R_scope.
  Ltac rops := cbn [nadd nsub nmul ndiv nneg nofZ nfloor nltb nleb n0 n1 nsqrt Rops nhalf half two].

  Lemma pdiff_p_eq P d : pdiff_p Rops P d = d - IZR (pshift Rops P d) * P.
  Proof. unfold pdiff_p. rops. reflexivity. Qed.

  Lemma pdiff_p_range P d : 0 < P -> - P / 2 <= pdiff_p Rops P d < P / 2.
  Proof.
    intros HP. rewrite pdiff_p_eq. unfold pshift, half, nhalf. rops.
    set (y := d / P + 1 / 2).
    pose proof (Zfloor_lb y) as H1. pose proof (Zfloor_ub y) as H2.
    assert (Hy : y * P = d + P / 2) by (unfold y; field; lra).
    assert (H1' : IZR (Zfloor y) * P <= y * P) by (apply Rmult_le_compat_r; lra).
    assert (H2' : y * P < (IZR (Zfloor y) + 1) * P) by (apply Rmult_lt_compat_r; lra).
    lra.
  Qed.

  (* the floor-shifted difference is the image of smallest absolute value *)
  Lemma pdiff_p_min P d (n : Z) : 0 < P -> (pdiff_p Rops P d) ^ 2 <= (d - IZR n * P) ^ 2.
  Proof.
    intros HP. pose proof (pdiff_p_range P d HP) as [Hlo Hhi]. rewrite pdiff_p_eq in *.
    set (m := pshift Rops P d) in *. set (y := d - IZR m * P) in *.
    replace (d - IZR n * P) with (y + IZR (m - n) * P) by (unfold y; rewrite minus_IZR; ring).
    destruct (Z.eq_dec (m - n) 0) as [E|E].
    - rewrite E. right. ring.
    - destruct (Z_lt_le_dec (m - n) 0) as [L|L].
      + assert (HJ : IZR (m - n) <= -1) by (apply IZR_le; lia).
        set (j := IZR (m - n)) in *.
        assert (H1 : j * P <= - P) by nra.
        assert (H3 : (y + j * P) ^ 2 - y ^ 2 = (- (j * P)) * (- (2 * y + j * P))) by ring.
        assert (H4 : 0 <= (- (j * P)) * (- (2 * y + j * P))) by (apply Rmult_le_pos; lra).
        lra.
      + assert (HJ : 1 <= IZR (m - n)) by (apply IZR_le; lia).
        set (j := IZR (m - n)) in *.
        assert (H1 : P <= j * P) by nra.
        assert (H3 : (y + j * P) ^ 2 - y ^ 2 = (j * P) * (2 * y + j * P)) by ring.
        assert (H4 : 0 <= (j * P) * (2 * y + j * P)) by (apply Rmult_le_pos; lra).
        lra.
  Qed.

  Lemma harmonic_periodic (k : R) (v : var) (x c : R) :
    v_width v <> 0 -> v_periodic v = true -> 0 < v_period v ->
    exists m : Z,
      harm_potential Rops k v x c = k / (2 * v_width v ^ 2) * (x - c - IZR m * v_period v) ^ 2 /\
      harm_force Rops k v x c = - (k / v_width v ^ 2) * (x - c - IZR m * v_period v) /\
      harm_dUdk Rops v x c = 1 / (2 * v_width v ^ 2) * (x - c - IZR m * v_period v) ^ 2 /\
      - v_period v / 2 <= x - c - IZR m * v_period v < v_period v / 2 /\
      forall n : Z, (x - c - IZR m * v_period v) ^ 2 <= (x - c - IZR n * v_period v) ^ 2.
  Proof.
    intros Hw Hp HP. exists (pshift Rops (v_period v) (x - c)).
    unfold harm_potential, harm_force, harm_dUdk, dist2, dist2_lgrad, pdiff, wsq. rewrite Hp. rops.
    rewrite pdiff_p_eq. repeat split.
    - field; exact Hw.
    - field; exact Hw.
    - field; exact Hw.
    - pose proof (pdiff_p_range (v_period v) (x - c) HP) as H. rewrite pdiff_p_eq in H. lra.
    - pose proof (pdiff_p_range (v_period v) (x - c) HP) as H. rewrite pdiff_p_eq in H. lra.
    - intros n. pose proof (pdiff_p_min (v_period v) (x - c) n HP) as H. rewrite pdiff_p_eq in H. exact H.
  Qed.

  Lemma harmonic_nonperiodic (k : R) (v : var) (x c : R) :
    v_width v <> 0 -> v_periodic v = false ->
    harm_potential Rops k v x c = k / (2 * v_width v ^ 2) * (x - c) ^ 2 /\
    harm_force Rops k v x c = - (k / v_width v ^ 2) * (x - c) /\
    harm_dUdk Rops v x c = 1 / (2 * v_width v ^ 2) * (x - c) ^ 2.
  Proof.
    intros Hw Hp. unfold harm_potential, harm_force, harm_dUdk, dist2, dist2_lgrad, pdiff, wsq. rewrite Hp. rops.
    repeat split; field; exact Hw.
  Qed.

  Lemma linear_closed (k : R) (v : var) (x c : R) :
    v_width v <> 0 ->
    lin_potential Rops k v x c = k / v_width v * (x - c) /\ lin_force Rops k v = - (k / v_width v) /\
    lin_dUdk Rops v x c = (x - c) / v_width v.
  Proof. intros Hw. unfold lin_potential, lin_force, lin_dUdk. rops. repeat split; field; exact Hw. Qed.

  (* one- and two-sided walls on a non-periodic variable *)
  Lemma walls_nonperiodic (k lk uk : R) (hl hu : bool) (v : var) (x L U : R) :
    v_width v <> 0 -> v_periodic v = false ->
    (hl = true -> x < L ->
       walls_potential Rops k lk uk hl hu v x L U = k * lk / (2 * v_width v ^ 2) * (x - L) ^ 2 /\
       walls_force Rops k lk uk hl hu v x L U = - (k * lk / v_width v ^ 2) * (x - L)) /\
    ((hl = false \/ L <= x) -> hu = true -> U < x ->
       walls_potential Rops k lk uk hl hu v x L U = k * uk / (2 * v_width v ^ 2) * (x - U) ^ 2 /\
       walls_force Rops k lk uk hl hu v x L U = - (k * uk / v_width v ^ 2) * (x - U)) /\
    ((hl = false \/ L <= x) -> (hu = false \/ x <= U) ->
       walls_potential Rops k lk uk hl hu v x L U = 0 /\ walls_force Rops k lk uk hl hu v x L U = 0).
  Proof.
    intros Hw Hp.
    assert (Hd : forall a, dist2_lgrad Rops v x a = 2 * (x - a)).
    { intros a. unfold dist2_lgrad, pdiff. rewrite Hp. rops. reflexivity. }
    unfold walls_potential, walls_force, walls_dist, walls_scale, wsq. rewrite Hp, !Hd. rops.
    split; [|split].
    - intros -> Hx. cbn [andb]. destruct (Rltb (2 * (x - L)) 0) eqn:E; [|apply Rltb_false in E; lra].
      destruct (Rltb 0 (1 / 2 * (2 * (x - L)))) eqn:E2; [apply Rltb_true in E2; lra|].
      split; field; exact Hw.
    - intros Hl -> Hx.
      assert (E0 : hl && Rltb (2 * (x - L)) 0 = false).
      { destruct Hl as [-> | Hl]; [reflexivity|]. apply andb_false_iff; right. apply Rltb_false. lra. }
      rewrite E0. cbn [andb]. destruct (Rltb 0 (2 * (x - U))) eqn:E; [|apply Rltb_false in E; lra].
      destruct (Rltb 0 (1 / 2 * (2 * (x - U)))) eqn:E2; [|apply Rltb_false in E2; lra].
      split; field; exact Hw.
    - intros Hl Hu.
      assert (E0 : hl && Rltb (2 * (x - L)) 0 = false).
      { destruct Hl as [-> | Hl]; [reflexivity|]. apply andb_false_iff; right. apply Rltb_false. lra. }
      assert (E1 : hu && Rltb 0 (2 * (x - U)) = false).
      { destruct Hu as [-> | Hu]; [reflexivity|]. apply andb_false_iff; right. apply Rltb_false. lra. }
      rewrite E0, E1. destruct (Rltb 0 0); split; ring.
  Qed.

  (* harmonic_walls::init keeps the configured constants: force_k * relative constant = configured constant *)
  Lemma walls_init_products (lk uk : R) : 0 < lk -> 0 < uk ->
    let '(k, a, b) := walls_init Rops true true lk uk in k * a = lk /\ k * b = uk /\ 0 < k.
  Proof.
    intros Hl Hu. unfold walls_init. cbn [andb]. rops.
    assert (Hs : 0 < sqrt (lk * uk)) by (apply sqrt_lt_R0; nra).
    repeat split; try (field; lra). exact Hs.
  Qed.

  (* ABMD: the reference only moves forward, the energy is 1/2 k min(0, s (x - ref))^2 *)
  Lemma abmd_ratchet (k stop : R) (dec : bool) (s : abmd_state) (x : R) :
    let ref := if ab_init s then ab_ref s else x in
    let sg := if dec then -1 else 1 in
    let '(s', (e, f)) := abmd_step Rops k stop dec s x in
    e = k / 2 * (Rmin 0 ((x - ref) * sg)) ^ 2 /\
    f = - sg * k * Rmin 0 ((x - ref) * sg) /\
    0 <= (ab_ref s' - ref) * sg /\
    (0 < (ab_ref s' - ref) * sg -> ab_ref s' = x /\ (ref - stop) * sg <= 0) /\
    ab_init s' = true.
  Proof.
    unfold abmd_step. rops.
    set (ref := if ab_init s then ab_ref s else x).
    assert (Hsg : (if dec then - (1) else 1) = (if dec then -1 else 1)) by (destruct dec; lra).
    rewrite Hsg. set (sg := if dec then -1 else 1).
    assert (Hsg2 : sg * sg = 1) by (unfold sg; destruct dec; lra).
    destruct (Rltb 0 ((x - ref) * sg)) eqn:E.
    - apply Rltb_true in E. rewrite Rmin_left by lra.
      destruct (Rleb' ((ref - stop) * sg) 0) eqn:E2; cbn [ab_ref ab_init].
      + apply Rleb_true in E2. repeat split; try ring; try lra.
      + repeat split; try ring; try lra.
    - apply Rltb_false in E. rewrite Rmin_right by lra. cbn [ab_ref ab_init].
      repeat split; try (field; lra); try lra.
  Qed.

  Lemma abmd_ratchet_stmt : forall (k stop : R) (dec : bool) (s : abmd_state) (x : R),
    let ref := if ab_init s then ab_ref s else x in
    let sg := (if dec then -1 else 1)%R in
    let '(s', (e, f)) := abmd_step Rops k stop dec s x in
    (e = k / 2 * (Rmin 0 ((x - ref) * sg)) ^ 2 /\
     f = - sg * k * Rmin 0 ((x - ref) * sg) /\
     0 <= (ab_ref s' - ref) * sg /\
     (0 < (ab_ref s' - ref) * sg -> ab_ref s' = x /\ (ref - stop) * sg <= 0))%R /\
    ab_init s' = true.
  Proof.
    intros k stop dec s x. pose proof (abmd_ratchet k stop dec s x) as H. cbv zeta in *.
    destruct (abmd_step Rops k stop dec s x) as [s' [e f]]. tauto.
  Qed.
End PotentialsR.

(* ------------------------------------------------------------------ refutations of the full-strength statements *)
Section Refuted.
  Local Open Scope Q_scope.
  Definition has_boundary {T} (evs : list (@event T)) : bool := existsb (fun e => match e with EBoundary _ => true | _ => false end) evs.
  Definition has_restart {T} (evs : list (@event T)) : bool := existsb (fun e => match e with ERestart _ => true | _ => false end) evs.

  Lemma k_schedule_staged_refuted_boundary :
    exists (c : @rcfg Q) evs, c_chg_k c = true /\ c_chg_centers c = false /\ (0 < c_nstages c)%Z /\ (0 < c_nsteps c)%Z /\ evs <> [] /\
      has_restart evs = false /\
      Qeq_bool (s_k (m_st (run Qops c evs))) (closed_k_staged Qops c (m_it (run Qops c evs))) = false.
  Proof. exists (cfg_ks 1), (half_steps 4 ++ [EBoundary [1#2]]). vm_compute. repeat split; discriminate. Qed.

  Lemma k_schedule_staged_refuted_restart :
    exists (c : @rcfg Q) evs, c_chg_k c = true /\ c_chg_centers c = false /\ (0 < c_nstages c)%Z /\ (0 < c_nsteps c)%Z /\ evs <> [] /\
      has_boundary evs = false /\
      Qeq_bool (s_k (m_st (run Qops c evs))) (closed_k_staged Qops c (m_it (run Qops c evs))) = false.
  Proof. exists (cfg_ks 1), (half_steps 4 ++ [ERestart [1#2]]). vm_compute. repeat split; discriminate. Qed.

  Lemma center_schedule_staged_refuted_boundary :
    exists (c : @rcfg Q) evs, c_chg_centers c = true /\ (0 < c_nstages c)%Z /\ (2 <= c_nsteps c)%Z /\ evs <> [] /\
      s_centers (m_st (run Qops c evs)) <> closed_centers_staged Qops c (m_it (run Qops c evs)).
  Proof. exists (cfg_cs 2), (half_steps 2 ++ [EBoundary [1#2]]). vm_compute. repeat split; discriminate. Qed.

  Lemma center_schedule_staged_refuted_N1 :
    exists (c : @rcfg Q) evs, c_chg_centers c = true /\ (0 < c_nstages c)%Z /\ c_nsteps c = 1%Z /\ evs <> [] /\
      Forall (fun e => match e with EStep _ => True | _ => False end) evs /\
      s_centers (m_st (run Qops c evs)) <> closed_centers_staged Qops c (m_it (run Qops c evs)).
  Proof.
    exists (cfg_cs 1), (half_steps 5). split; [reflexivity|]. split; [reflexivity|]. split; [reflexivity|].
    split; [discriminate|]. split; [repeat constructor|]. vm_compute. discriminate.
  Qed.

  (* accumulated work of a changing force constant: the documented value is the sum of dU/dk x (k increment);
     after the end of the schedule (k constant) it must stay constant *)
  Lemma work_k_refuted :
    exists (c : @rcfg Q) evs1 evs2, c_chg_k c = true /\ c_nstages c = 0%Z /\ c_acc_work c = true /\
      (c_it0 c + c_nsteps c <= m_it (run Qops c evs1))%Z /\
      s_k (m_st (run Qops c (evs1 ++ evs2))) = s_k (m_st (run Qops c evs1)) /\
      Qeq_bool (s_W (m_st (run Qops c (evs1 ++ evs2)))) (s_W (m_st (run Qops c evs1))) = false.
  Proof. exists cfg_kc, (half_steps 3), (half_steps 3). vm_compute. repeat split; discriminate. Qed.

  (* accumulated work of a moving centre on a periodic variable: the centre moves by 1/2 per step, the
     increment used at step 2 is 9/2 (one period too many) *)
  Lemma work_centers_periodic_refuted :
    exists (c : @rcfg Q) evs, c_chg_centers c = true /\ c_nstages c = 0%Z /\ c_acc_work c = true /\
      new_centers Qops c (ratio Qops 2 4) = [5#2] /\ new_centers Qops c (ratio Qops 1 4) = [2] /\
      m_it (run Qops c evs) = 2%Z /\ s_incr (m_st (run Qops c evs)) = [9#2].
  Proof. exists cfg_ccp, (half_steps 3). vm_compute. repeat split. Qed.

  (* staged TI without equilibration: the value written for the first stage is (sum of N+1 samples)/N *)
  Lemma ti_first_stage_refuted :
    exists (c : @rcfg Q) evs o, c_chg_k c = true /\ c_equil c = 0%Z /\ c_nsteps c = 3%Z /\
      Forall (fun e => match e with EStep _ => True | _ => False end) evs /\
      (forall e, In e evs -> dlambda_factor Qops c (stage_lambda Qops c 0) * dUdk_sum Qops c (init_state Qops c) (ev_xs e) == 1) /\
      nth_error (m_outs (run Qops c evs)) 3 = Some o /\ o_log (snd o) = Some (0, 4#3).
  Proof.
    exists (cfg_ks 0), (half_steps 4). eexists. split; [reflexivity|]. split; [reflexivity|]. split; [reflexivity|].
    split; [repeat constructor|]. split.
    - intros e He. cbn in He. destruct He as [<-|[<-|[<-|[<-|[]]]]]; vm_compute; reflexivity.
    - vm_compute. split; reflexivity.
  Qed.
End Refuted.
