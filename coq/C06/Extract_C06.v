From Coq Require Import Extraction ExtrOcamlBasic.
From CV Require Import Base.Num C06.RestraintModel C18.ValueModel C06.RestraintGen C06.TIEstimator C06.RestraintTSF.
Extraction Language OCaml.
Extraction "model.ml" mkNumOps nhalf mkVar mkCfg mkSt mkOut mkM rstep restore run init_m mstep
  harm_potential harm_force walls_potential walls_force walls_dist walls_init lin_potential lin_force
  wrapv pdiff abmd_step abmd_run mkAb
  hist_grid hist_p hist_diff hist_energy hist_forces
  harm_potential_d2 v3_dist2 uv_dist2 q_dist2 v3_interp uv_interp
  mkG mkGS grun gmstep ginit_m gstep grestore gplace uv_constrain q_constrain
  mkTI mkIn ti_run ti_mstep ti_init_m rediff run_tsf mstep_tsf.
