From Coq Require Import Extraction ExtrOcamlBasic.
From CV Require Import Base.Num C06.RestraintModel.
Extraction Language OCaml.
Extraction "model.ml" mkNumOps nhalf mkVar mkCfg mkSt mkOut mkM rstep restore run init_m mstep
  harm_potential harm_force walls_potential walls_force walls_dist walls_init lin_potential lin_force
  wrapv pdiff abmd_step abmd_run mkAb.
