(* The harmonic restraint with moving centres on variables of ANY value type (scalar, periodic scalar, 3-vector,
   unit vector, quaternion, vector): colvarbias_restraint_centers_moving::update / update_centers / update_acc_work
   and colvarbias_restraint_harmonic::restraint_potential / restraint_force, with the values, squared distances,
   gradients, wrapping and interpolation of coq/C18/ValueModel.v (colvarvalue / cvc / quaternion functions).
   Same state, order of updates and guards as the scalar model RestraintModel.v; definitions only (extracted). *)
From Coq Require Import ZArith List Bool.
From CV Require Import Base.Num C06.RestraintModel C18.ValueModel.
Import ListNotations.
Local Open Scope Z_scope.

Section Gen.
  Context {T : Type} (O : NumOps T) (pi : T).
  Local Notation comp_kind := (@comp_kind T).
  Local Notation cval := (@cval T).

  (* colvarvalue::interpolate, by value type *)
  Definition cv_interp (k : comp_kind) (a b : cval) (lam : T) : cval :=
    match k, a, b with
    | KScalar, VS x, VS y => VS (sc_interp O x y lam)
    | KPeriodic _ _, VS x, VS y => VS (sc_interp O x y lam)
    | KVec3 _ _, V3 x, V3 y => V3 (v3_interp O x y lam)
    | KUnit, V3 x, V3 y => V3 (uv_interp O x y lam)
    | KQuat, VQ x, VQ y => VQ (q_interp O x y lam)
    | KVector, VL x, VL y => VL (vec_interp O x y lam)
    | _, _, _ => a
    end.
  (* real * colvarvalue, and the inner product colvarvalue * colvarvalue *)
  Definition cv_scale (s : T) (a : cval) : cval :=
    match a with
    | VS x => VS (nmul O s x)
    | V3 v => V3 (v3scale O s v)
    | VQ q => VQ (qscale O s q)
    | VL l => VL (map (nmul O s) l)
    end.
  Definition cv_inner (a b : cval) : T :=
    match a, b with
    | VS x, VS y => nmul O x y
    | V3 x, V3 y => v3dot O x y
    | VQ x, VQ y => qdot O x y
    | VL x, VL y => vec_inner O x y
    | _, _ => n0 O
    end.
  Definition cv_zero (a : cval) : cval := cv_scale (n0 O) a.

  Record gcfg := mkG {
    g_kinds : list comp_kind; g_widths : list T;
    g_c0 : list cval; g_c1 : list cval;      (* centers = initial_centers, target_centers (after apply_constraints) *)
    g_k : T;
    g_chg : bool;                            (* b_chg_centers *)
    g_nsteps : Z; g_nstages : Z;
    g_acc_work : bool;
    g_it0 : Z
  }.
  Record gstate := mkGS { gs_centers : list cval; gs_incr : list cval; gs_stage : Z; gs_first : Z; gs_W : T }.

  Definition ginit (c : gcfg) : gstate := mkGS (g_c0 c) (map cv_zero (g_c0 c)) 0 (g_it0 c) (n0 O).

  (* interpolated, then wrapped, centres at lambda *)
  Definition gnew (c : gcfg) (lam : T) : list cval := map3 (fun k a b => cv_interp k a b lam) (g_kinds c) (g_c0 c) (g_c1 c).
  Definition gplace (c : gcfg) (lam : T) : list cval := map2 (comp_wrap O) (g_kinds c) (gnew c lam).
  Definition glgrad (k : comp_kind) (a b : cval) : cval :=
    match comp_lgrad O pi k a b with Some g => g | None => cv_zero a end.
  Definition gd2 (k : comp_kind) (a b : cval) : T :=
    match comp_dist2 O pi k a b with Some d => d | None => n0 O end.

  (* update_centers(lambda): increment = 0.5 * variable->dist2_lgrad(c_new, old centre); centre = wrap(c_new) *)
  Definition gupdate_centers (c : gcfg) (s : gstate) (lam : T) : gstate :=
    let cn := gnew c lam in
    mkGS (map2 (comp_wrap O) (g_kinds c) cn)
         (map3 (fun k n o => cv_scale (half O) (glgrad k n o)) (g_kinds c) cn (gs_centers s))
         (gs_stage s) (gs_first s) (gs_W s).
  Definition gset_incr (s : gstate) (i : list cval) : gstate := mkGS (gs_centers s) i (gs_stage s) (gs_first s) (gs_W s).
  Definition gset_stage (s : gstate) (g : Z) : gstate := mkGS (gs_centers s) (gs_incr s) g (gs_first s) (gs_W s).

  (* colvarbias_restraint_centers_moving::update *)
  Definition gcenters_update (c : gcfg) (s : gstate) (t rel : Z) (cont : bool) : gstate :=
    if g_chg c then
      let s1 :=
        if negb (g_nstages c =? 0) then
          if gs_stage s <=? g_nstages c then
            if first_time rel cont && (gs_first s <? t) && (Z.rem (t - gs_first s - 1) (g_nsteps c) =? 0)
            then let s' := gupdate_centers c s (ratio O (gs_stage s) (g_nstages c)) in gset_stage s' (gs_stage s + 1)
            else gset_incr s (map cv_zero (gs_incr s))
          else s
        else
          if t - gs_first s <=? g_nsteps c
          then gupdate_centers c s (ratio O (t - gs_first s) (g_nsteps c))
          else gset_incr s (map cv_zero (gs_incr s)) in
      if rel =? 0 then gset_incr s1 (map cv_zero (gs_incr s1)) else s1
    else s.

  (* harmonic restraint_potential / restraint_force at the current centres *)
  Definition genergy (c : gcfg) (s : gstate) (xs : list cval) : T :=
    fold_left (nadd O)
      (map4 (fun k w x ce => harm_potential_d2 O (g_k c) w (gd2 k x ce)) (g_kinds c) (g_widths c) xs (gs_centers s)) (n0 O).
  Definition gforces (c : gcfg) (s : gstate) (xs : list cval) : list cval :=
    map4 (fun k w x ce => cv_scale (ndiv O (nmul O (nneg O (half O)) (g_k c)) (nmul O w w)) (glgrad k x ce))
         (g_kinds c) (g_widths c) xs (gs_centers s).

  (* update_acc_work *)
  Definition gwork (c : gcfg) (s : gstate) (t rel : Z) (forces : list cval) : gstate :=
    if g_chg c && g_acc_work c && (0 <? rel) && (t - gs_first s <=? g_nsteps c)
    then mkGS (gs_centers s) (gs_incr s) (gs_stage s) (gs_first s)
              (fold_left (fun w fd => nadd O w (cv_inner (fst fd) (snd fd))) (combine forces (gs_incr s)) (gs_W s))
    else s.

  Definition gstep (c : gcfg) (s : gstate) (t rel : Z) (cont : bool) (xs : list cval) : gstate * (T * list cval) :=
    let s1 := gcenters_update c s t rel cont in
    let f := gforces c s1 xs in
    (gwork c s1 t rel f, (genergy c s1 xs, f)).

  (* state file: firstStep, stage (if staged), centers, accumulatedWork *)
  Definition grestore (c : gcfg) (s : gstate) : gstate :=
    mkGS (if g_chg c then gs_centers s else g_c0 c) (map cv_zero (g_c0 c))
         (if g_chg c && negb (g_nstages c =? 0) then gs_stage s else 0)
         (if g_chg c then gs_first s else 0)
         (if g_chg c && g_acc_work c then gs_W s else n0 O).

  Inductive gevent := GStep (xs : list cval) | GBoundary (xs : list cval) | GRestart (xs : list cval).
  Definition gev_xs (e : gevent) : list cval := match e with GStep x | GBoundary x | GRestart x => x end.
  Record gm := mkGM { gm_it : Z; gm_itr : Z; gm_fresh : bool; gm_st : gstate; gm_outs : list (Z * gstate * (T * list cval)) }.
  Definition ginit_m (c : gcfg) : gm := mkGM (g_it0 c) (g_it0 c) true (ginit c) [].
  Definition gmstep (c : gcfg) (m : gm) (e : gevent) : gm :=
    let it := match e with GStep _ => if gm_fresh m then gm_it m else gm_it m + 1 | _ => gm_it m end in
    let itr := match e with GRestart _ => it | _ => gm_itr m end in
    let s0 := match e with GRestart _ => grestore c (gm_st m) | _ => gm_st m end in
    let cont := match e with GBoundary _ => true | _ => false end in
    let '(s1, o) := gstep c s0 it (it - itr) cont (gev_xs e) in
    mkGM it itr false s1 (gm_outs m ++ [(it, s1, o)]).
  Definition grun (c : gcfg) (evs : list gevent) : gm := fold_left (gmstep c) evs (ginit_m c).
End Gen.
