(* The thermodynamic-integration estimator attached to a bias (colvarbias_ti::update_system_forces, src/colvarbias.cpp)
   for one scalar variable on a grid [lower, lower + nb*width): which total-force samples are collected, in which bin,
   under the run protocol of RestraintModel.v (plain steps, steps computed again at a run boundary, restarts).
   Model (definitions, extracted) and its theorem in one file; generic over the numeric carrier. *)
From Coq Require Import ZArith List Bool Lia.
From CV Require Import Base.Num C06.RestraintModel.
Import ListNotations.
Local Open Scope Z_scope.

Section TIE.
  Context {T : Type} (O : NumOps T).

  Record ticfg := mkTI { ti_lower : T; ti_width : T; ti_nb : Z; ti_same : bool (* total_forces_same_step() *) }.
  (* one computation of a step: the variable's value, the total force the engine reports at this computation, and the
     force this bias applies at this computation (colvar_forces, which becomes previous_colvar_forces) *)
  Record tiin := mkIn { in_x : T; in_tf : T; in_fb : T }.
  Inductive tievent := TStep (i : tiin) | TBoundary (i : tiin) | TRestart (i : tiin).
  Definition tev_in (e : tievent) : tiin := match e with TStep i | TBoundary i | TRestart i => i end.

  (* ti_bin (-1 = not set / outside), previous_colvar_forces, the count and sum grids *)
  Record tist := mkTS { ts_bin : Z; ts_prev : T; ts_cnt : Z -> Z; ts_sum : Z -> T }.
  Definition ti_init : tist := mkTS (-1) (n0 O) (fun _ => 0) (fun _ => n0 O).

  Definition bin_of (c : ticfg) (x : T) : Z := nfloor O (ndiv O (nsub O x (ti_lower c)) (ti_width c)).   (* current_bin_scalar *)
  Definition bin_ok (c : ticfg) (b : Z) : bool := (0 <=? b) && (b <? ti_nb c).                          (* index_ok *)

  Definition acc (s : tist) (b : Z) (f : T) : tist :=
    mkTS (ts_bin s) (ts_prev s)
         (fun i => if i =? b then ts_cnt s i + 1 else ts_cnt s i)
         (fun i => if i =? b then nadd O (ts_sum s i) f else ts_sum s i).

  (* update_system_forces followed (later in the same step) by the computation of the bias force:
     rel = step_relative(), cont = simulation_continuing() *)
  Definition ti_update (c : ticfg) (s : tist) (rel : Z) (cont : bool) (i : tiin) : tist :=
    let b := if ti_same c then bin_of c (in_x i) else ts_bin s in
    let s1 :=
      if ((0 <? rel) || ti_same c) && bin_ok c b && first_time rel cont
      then acc s b (if ti_same c then in_tf i else nsub O (in_tf i) (ts_prev s))
      else s in
    mkTS (if ti_same c then b else bin_of c (in_x i)) (in_fb i) (ts_cnt s1) (ts_sum s1).

  (* the state file keeps the grids; ti_bin and previous_colvar_forces are as after construction *)
  Definition ti_restore (s : tist) : tist := mkTS (-1) (n0 O) (ts_cnt s) (ts_sum s).

  Record tim := mkTM { tm_it : Z; tm_itr : Z; tm_fresh : bool; tm_st : tist }.
  Definition ti_init_m (it0 : Z) : tim := mkTM it0 it0 true ti_init.
  Definition ti_mstep (c : ticfg) (m : tim) (e : tievent) : tim :=
    let it := match e with TStep _ => if tm_fresh m then tm_it m else tm_it m + 1 | _ => tm_it m end in
    let itr := match e with TRestart _ => it | _ => tm_itr m end in
    let s0 := match e with TRestart _ => ti_restore (tm_st m) | _ => tm_st m end in
    let cont := match e with TBoundary _ => true | _ => false end in
    mkTM it itr false (ti_update c s0 (it - itr) cont (tev_in e)).
  Definition ti_run (c : ticfg) (it0 : Z) (evs : list tievent) : tim := fold_left (ti_mstep c) evs (ti_init_m it0).

  (* ------------------------------------------------------------------ specification and theorem *)
  (* the samples of a history: every NEW step (a TStep that is not the first event) contributes one sample -
     same-step forces: its own total force in the bin of its own value;
     lagged forces: (its total force - the bias force of the PRECEDING computation) in the bin of the preceding computation's
     value, unless the preceding computation was followed by a restart (the bin is then unknown: no sample) *)
  Definition ti_here (c : ticfg) (prev : option tiin) (e : tievent) : list (Z * T) :=
    match e, prev with
    | TStep i, Some p =>
      if ti_same c then (if bin_ok c (bin_of c (in_x i)) then [(bin_of c (in_x i), in_tf i)] else [])
      else (if bin_ok c (bin_of c (in_x p)) then [(bin_of c (in_x p), nsub O (in_tf i) (in_fb p))] else [])
    | _, _ => []
    end.
  (* the preceding computation of an event is the event before it, of whatever kind (after a restart: the computation made
     by the restarted job itself) *)
  Fixpoint ti_samples (c : ticfg) (prev : option tiin) (evs : list tievent) : list (Z * T) :=
    match evs with
    | [] => []
    | e :: r => ti_here c prev e ++ ti_samples c (Some (tev_in e)) r
    end.
  Definition last_in (prev : option tiin) (evs : list tievent) : option tiin :=
    match rev evs with [] => prev | e :: _ => Some (tev_in e) end.

  Definition cnt_of (l : list (Z * T)) (b : Z) : Z := fold_left (fun n p => if b =? fst p then n + 1 else n) l 0.
  Definition sum_of (l : list (Z * T)) (b : Z) : T := fold_left (fun a p => if b =? fst p then nadd O a (snd p) else a) l (n0 O).

  (* ------------------------------------------------------------------ proof *)
  Lemma ti_samples_snoc c prev l e : ti_samples c prev (l ++ [e]) = ti_samples c prev l ++ ti_here c (last_in prev l) e.
  Proof.
    revert prev. induction l as [|a l IH]; intros prev; cbn [app ti_samples].
    - unfold last_in. cbn. rewrite app_nil_r. reflexivity.
    - rewrite IH, app_assoc. f_equal. f_equal. unfold last_in. cbn [rev].
      destruct (rev l) as [|b r] eqn:E; cbn [app]; reflexivity.
  Qed.

  Lemma ti_run_snoc c it0 l e : ti_run c it0 (l ++ [e]) = ti_mstep c (ti_run c it0 l) e.
  Proof. unfold ti_run. rewrite fold_left_app. reflexivity. Qed.

  Lemma cnt_of_app l1 l2 b : cnt_of (l1 ++ l2) b = fold_left (fun n p => if b =? fst p then n + 1 else n) l2 (cnt_of l1 b).
  Proof. unfold cnt_of. rewrite fold_left_app. reflexivity. Qed.
  Lemma sum_of_app l1 l2 b : sum_of (l1 ++ l2) b = fold_left (fun a p => if b =? fst p then nadd O a (snd p) else a) l2 (sum_of l1 b).
  Proof. unfold sum_of. rewrite fold_left_app. reflexivity. Qed.

  Definition ti_inv (c : ticfg) (it0 : Z) (evs : list tievent) : Prop :=
    let m := ti_run c it0 evs in
    tm_itr m <= tm_it m /\ tm_fresh m = (match evs with [] => true | _ => false end) /\
    (forall b, ts_cnt (tm_st m) b = cnt_of (ti_samples c None evs) b /\ ts_sum (tm_st m) b = sum_of (ti_samples c None evs) b) /\
    (forall p, last_in None evs = Some p ->
       ts_prev (tm_st m) = in_fb p /\ ts_bin (tm_st m) = bin_of c (in_x p)) /\
    (evs = [] -> tm_itr m = tm_it m).

  Lemma ti_inv_all c it0 evs : ti_inv c it0 evs.
  Proof.
    induction evs as [|e evs IH] using rev_ind.
    - unfold ti_inv, ti_run, ti_init_m, ti_init, last_in; cbn. repeat split; try lia; try discriminate.
    - destruct IH as [I1 [I2 [I3 [I4 I5]]]]. unfold ti_inv. rewrite ti_run_snoc. set (m := ti_run c it0 evs) in *.
      unfold ti_mstep.
      set (it := match e with TStep _ => if tm_fresh m then tm_it m else tm_it m + 1 | _ => tm_it m end).
      set (itr := match e with TRestart _ => it | _ => tm_itr m end).
      set (s0 := match e with TRestart _ => ti_restore (tm_st m) | _ => tm_st m end).
      set (cont := match e with TBoundary _ => true | _ => false end).
      cbn [tm_it tm_itr tm_fresh tm_st].
      assert (Hle : itr <= it) by (unfold itr, it; destruct e; destruct (tm_fresh m); lia).
      split; [exact Hle|]. split; [destruct evs; reflexivity|].
      assert (Hcs : forall b, ts_cnt s0 b = ts_cnt (tm_st m) b /\ ts_sum s0 b = ts_sum (tm_st m) b).
      { intros b. unfold s0. destruct e; split; reflexivity. }
      (* is a sample taken, and which one *)
      assert (Hlast : last_in None (evs ++ [e]) = Some (tev_in e)).
      { unfold last_in. rewrite rev_app_distr. reflexivity. }
      split; [|split].
      + intros b. rewrite ti_samples_snoc, cnt_of_app, sum_of_app.
        destruct (I3 b) as [C1 C2]. rewrite <- C1, <- C2. destruct (Hcs b) as [D1 D2].
        unfold ti_update. cbn [ts_cnt ts_sum].
        destruct e as [i|i|i]; cbn [tev_in ti_here].
        * (* TStep *)
          destruct (last_in None evs) as [p|] eqn:El.
          -- (* a new step *)
             assert (Hne : evs <> []) by (intros ->; discriminate El).
             assert (Hnf : tm_fresh m = false) by (rewrite I2; destruct evs; [contradiction | reflexivity]).
             destruct (I4 p eq_refl) as [P1 P2].
             assert (Hit : it = tm_it m + 1) by (unfold it; rewrite Hnf; reflexivity).
             assert (Hrel : 0 <? it - itr = true) by (apply Z.ltb_lt; unfold itr; lia).
             assert (Hft : first_time (it - itr) cont = true) by (unfold first_time, cont; rewrite Hrel; reflexivity).
             rewrite Hrel, Hft. cbn [orb andb]. rewrite andb_true_r.
             unfold s0. rewrite P1, P2.
             destruct (ti_same c); [destruct (bin_ok c (bin_of c (in_x i))) | destruct (bin_ok c (bin_of c (in_x p)))];
               cbn [fold_left acc ts_cnt ts_sum fst snd]; split; reflexivity.
          -- (* first event: step_relative = 0 *)
             assert (He : evs = []).
             { destruct evs as [|a l]; [reflexivity|]. exfalso. unfold last_in in El.
               destruct (rev (a :: l)) eqn:Er; [|discriminate]. apply (f_equal (@rev _)) in Er. rewrite rev_involutive in Er. discriminate. }
             assert (Hfr : tm_fresh m = true) by (rewrite I2, He; reflexivity).
             assert (Hrel : it - itr = 0) by (unfold itr, it; rewrite Hfr; specialize (I5 He); lia).
             rewrite Hrel. unfold first_time. cbn [Z.ltb Z.compare andb orb]. rewrite andb_false_r.
             cbn [fold_left]. unfold s0. split; reflexivity.
        * (* TBoundary: simulation_continuing *)
          destruct (last_in None evs); cbn [fold_left]; unfold first_time, cont; rewrite !andb_false_r; unfold s0; split; reflexivity.
        * (* TRestart: step_relative = 0 *)
          assert (Hrel : it - itr = 0) by (unfold itr; lia).
          rewrite Hrel. unfold first_time. cbn [Z.ltb Z.compare andb orb]. rewrite andb_false_r.
          destruct (last_in None evs); cbn [fold_left]; unfold s0, ti_restore; cbn [ts_cnt ts_sum]; split; reflexivity.
      + intros p Hp. rewrite Hlast in Hp. injection Hp as <-. unfold ti_update. cbn [ts_prev ts_bin].
        split; [reflexivity|]. destruct (ti_same c); reflexivity.
      + intros H. destruct evs; discriminate H.
  Qed.

  (* THEOREM: for every history the estimator's grids hold exactly the samples of the specification: one per new step *)
  Lemma ti_estimator_samples c it0 evs b :
    ts_cnt (tm_st (ti_run c it0 evs)) b = cnt_of (ti_samples c None evs) b /\
    ts_sum (tm_st (ti_run c it0 evs)) b = sum_of (ti_samples c None evs) b.
  Proof. destruct (ti_inv_all c it0 evs) as [_ [_ [H _]]]. apply H. Qed.
End TIE.
